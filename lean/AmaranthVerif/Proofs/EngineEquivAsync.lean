import AmaranthVerif.Proofs.EngineEquivMidP

/-!
# A register of an `async_reset` domain and the process that replaces it: the owners

The compiler creates two processes for `m.d.<domain> += out.eq(e)` when the domain has an asynchronous
reset: the synchronous process (woken by the active clock edge) and a reset-only process (woken when
the reset becomes 1) that loads the initial value. The documented process form waits on
`tick(d).sample(*ins)`, whose trigger then is `[clk edge, rising rst edge, rst, *ins]`.
-/

namespace Amaranth.Engine
open Amaranth

theorem tickTrigger_async (cfg : DomCfg) (r : Nat) (ha : cfg.async = true) (hr : cfg.rst = some r) (es : List Expr) :
    tickTrigger cfg es =
      [.edge cfg.clk 0 cfg.posedge, .edge r 0 true, .sample (.sig r)] ++ es.map .sample := by
  unfold tickTrigger
  simp [ha, hr]

/-- what a completed tick returns: `(clk_edge, rst_edge or rst, *inputs)` -/
theorem async_tickResult (ctx : Ctx) (cfg : DomCfg) (r : Nat) (ha : cfg.async = true) (hr : cfg.rst = some r)
    (ins : List Nat) (hits : List Bool) (cur : Env) (hlen : hits.length = (tickTrigger cfg (ins.map .sig)).length)
    (h0 h1 : Bool) (hh0 : hits[0]? = some h0) (hh1 : hits[1]? = some h1) :
    (tickResult (trigResult ctx (tickTrigger cfg (ins.map .sig)) hits cur)).getD 0 0 = b2i h0 ∧
    ((tickResult (trigResult ctx (tickTrigger cfg (ins.map .sig)) hits cur)).getD 1 0 != 0) = (h1 || cur.val r != 0) ∧
    (tickResult (trigResult ctx (tickTrigger cfg (ins.map .sig)) hits cur)).drop 2 = ins.map cur.val := by
  rw [tickTrigger_async cfg r ha hr] at hlen ⊢
  match hits, hlen, hh0, hh1 with
  | b0 :: b1 :: b2 :: bs, hlen, hh0, hh1 =>
    simp only [List.getElem?_cons_zero, List.getElem?_cons_succ, Option.some.injEq] at hh0 hh1
    subst hh0; subst hh1
    have hbs : bs.length = (ins.map Expr.sig).length := by simpa using hlen
    unfold trigResult tickResult
    simp only [List.cons_append, List.nil_append, List.zipWith_cons_cons, List.getD_cons_zero, List.getD_cons_succ,
      List.drop_succ_cons, List.drop_zero]
    refine ⟨by first | trivial | rfl, ?_, (zipWith_samples ctx cur _ bs hbs).trans ?_⟩
    · cases b1 <;> cases hv : (cur.val r != 0) <;> simp_all [evalTb, b2i]
    · simp [List.map_map, Function.comp_def, evalTb]

/-- the slot wakers of the user process in an `async_reset` domain: the clock edge and the rising reset
activate the trigger, and each is recorded -/
theorem tickWake_async_spec (cfg : DomCfg) (r : Nat) (ha : cfg.async = true) (hr : cfg.rst = some r) (es : List Expr)
    (l : Local) (hw : l.waiting = true) (hlen : l.hits.length = (tickTrigger cfg es).length)
    (slot : Nat) (old new : Int) :
    (trigWake (tickTrigger cfg es) l slot old new).runnable = l.runnable ∧
    (trigWake (tickTrigger cfg es) l slot old new).initial = l.initial ∧
    (trigWake (tickTrigger cfg es) l slot old new).waiting = true ∧
    (trigWake (tickTrigger cfg es) l slot old new).hits.length = (tickTrigger cfg es).length ∧
    ((trigWake (tickTrigger cfg es) l slot old new).active =
      (l.active || ((cfg.clk == slot && bitOf old 0 != bitOf new 0 && bitOf new 0 == cfg.posedge) ||
                    (r == slot && bitOf old 0 != bitOf new 0 && bitOf new 0 == true)))) ∧
    (∀ h0, l.hits[0]? = some h0 → (trigWake (tickTrigger cfg es) l slot old new).hits[0]? =
      some (h0 || (cfg.clk == slot && bitOf old 0 != bitOf new 0 && bitOf new 0 == cfg.posedge))) ∧
    (∀ h1, l.hits[1]? = some h1 → (trigWake (tickTrigger cfg es) l slot old new).hits[1]? =
      some (h1 || (r == slot && bitOf old 0 != bitOf new 0 && bitOf new 0 == true))) := by
  rw [tickTrigger_async cfg r ha hr] at hlen ⊢
  match hh : l.hits, hlen with
  | b0 :: b1 :: bs, hlen =>
    simp only [trigWake, hw, if_true, hh]
    refine ⟨by first | trivial | rfl, by first | trivial | rfl, by first | trivial | rfl, ?_, ?_, ?_, ?_⟩
    · simp only [List.length_zipWith]
      simp only [List.length_cons, List.length_append, List.length_map, List.length_nil] at hlen ⊢
      omega
    · have hany : ∀ (xs : List Expr), (xs.any fun _ => false) = false := by
        intro xs; induction xs <;> simp_all
      simp [TrigElem.firesOn, List.any_map, Function.comp_def, hany]
    · intro h0 h
      simp only [List.getElem?_cons_zero, Option.some.injEq] at h
      subst h
      simp [TrigElem.hitOn]
    · intro h1 h
      simp only [List.getElem?_cons_succ, List.getElem?_cons_zero, Option.some.injEq] at h
      subst h
      simp [TrigElem.hitOn]

/-! ## The hypotheses on the domain and the values written -/

/-- the domain has an asynchronous reset `r`; clock and reset are 1-bit unsigned signals of the design,
`out` is resettable, the initial values lie in the shapes -/
structure AsyncHyp (D : Design) (d out r : Nat) : Prop where
  async : (D.doms.getD d default).async = true
  rst : (D.doms.getD d default).rst = some r
  clk1 : D.ctx.shape (D.doms.getD d default).clk = Shape.u 1
  clkLt : (D.doms.getD d default).clk < D.ctx.length
  rst1 : D.ctx.shape r = Shape.u 1
  rstLt : r < D.ctx.length
  resettable : D.resetLess.getD out false = false
  inits : EnvN D.ctx D.inits

section
variable {D : Design} {d out r : Nat} {e : Expr}

theorem rstOn_async (H : AsyncHyp D d out r) (cur : Env) : rstOn (D.doms.getD d default) cur = (cur.val r != 0) := by
  unfold rstOn; rw [H.rst]

theorem syncNext_val_async (H : AsyncHyp D d out r) (hout : out < D.ctx.length) (hwf : e.wf D.ctx = true) (cur : Env)
    (hcur : EnvN D.ctx cur) :
    (syncNext D.ctx D.inits D.resetLess ((D.doms.getD d default).rst.map cur.val) (.assign (.sig out) e) cur).val out =
      syncV D d out e cur := by
  have hV : (execRtl D.ctx cur (.assign (.sig out) e) cur).val out = combV D out e cur := by
    simp only [execRtl, assignRtlG]
    rw [val_put_eq _ _ _ (by rw [hcur.len]; exact hout), rtlValue_eq_evalTb _ _ (envN_envOk hcur) e hwf]; rfl
  have htest : (pyAnd 1 (cur.val r) != 0) = (cur.val r != 0) := by
    have := bit_of_u1 hcur r H.rstLt H.rst1
    have h3 : cur.val r = 0 ∨ cur.val r = 1 := by omega
    rcases h3 with h | h <;> rw [h] <;> decide
  unfold syncNext syncV
  rw [rstOn_async H, H.rst]
  simp only [Option.map_some]
  rw [htest]
  have hrl := H.resettable
  rw [List.getD_eq_getElem?_getD] at hrl
  by_cases hon : (cur.val r != 0) = true
  · simp only [hon, if_true]
    rw [val_map_range _ _ _ hout]
    simp [stmtSigs, lhsSigs, hrl]
  · simp only [hon, Bool.false_eq_true, if_false]
    exact hV

theorem syncV_contains_async (H : AsyncHyp D d out r) (hout : out < D.ctx.length) (cur : Env) :
    (D.ctx.shape out).contains (syncV D d out e cur) := by
  unfold syncV
  split
  · exact (H.inits.ok out hout).2
  · exact norm_contains _ (H.inits.ok out hout).1 _

/-- the synchronous process: `out` gets `syncV` -/
theorem syncA_next_async (H : AsyncHyp D d out r) (hout : out < D.ctx.length) (hwf : e.wf D.ctx = true) (cur nxt : Env)
    (hcur : EnvN D.ctx cur) (hnxt : EnvN D.ctx nxt) :
    applyAll nxt (procUpdates D.ctx (.assign (.sig out) e)
      (syncNext D.ctx D.inits D.resetLess ((D.doms.getD d default).rst.map cur.val) (.assign (.sig out) e) cur)) =
      modAt nxt out (fun _ => syncV D d out e cur) := by
  rw [assign_apply D.ctx out e _ nxt hout hnxt
      (by rw [syncNext_val_async H hout hwf cur hcur]; exact syncV_contains_async H hout cur),
    syncNext_val_async H hout hwf cur hcur]

/-- the updates of the reset-only process -/
theorem arst_updates (H : AsyncHyp D d out r) (hout : out < D.ctx.length) (l : Local) (cur : Env) :
    ((arstDef D d (.assign (.sig out) e)).run l cur).updates = procUpdates D.ctx (.assign (.sig out) e) D.inits := by
  simp only [arstDef]
  apply List.filter_eq_self.mpr
  intro u hu
  rw [procUpdates_assign _ _ _ _ hout] at hu
  split at hu
  · simp at hu
  · simp only [List.mem_singleton] at hu
    subst hu
    have hrl := H.resettable
    rw [List.getD_eq_getElem?_getD] at hrl
    simp [stmtSigs, lhsSigs, hrl]

/-- the reset-only process: `out` gets its initial value -/
theorem arstA_next (H : AsyncHyp D d out r) (hout : out < D.ctx.length) (l : Local) (cur nxt : Env)
    (hnxt : EnvN D.ctx nxt) :
    applyAll nxt ((arstDef D d (.assign (.sig out) e)).run l cur).updates = modAt nxt out (fun _ => D.inits.val out) := by
  rw [arst_updates H hout, assign_apply D.ctx out e D.inits nxt hout hnxt (H.inits.ok out hout).2]

theorem modAt_const_envN (ctx : Ctx) (out : Nat) (V : Int) (nxt : Env) (hout : out < ctx.length) (hnxt : EnvN ctx nxt)
    (hV : (ctx.shape out).contains V) : EnvN ctx (modAt nxt out (fun _ => V)) := by
  have hlen : out < nxt.length := by rw [hnxt.len]; exact hout
  refine ⟨by rw [modAt_length]; exact hnxt.len, fun j hj => ?_⟩
  by_cases hji : out = j
  · subst hji
    rw [val_modAt_self _ _ _ hlen]
    exact ⟨(hnxt.ok _ hj).1, hV⟩
  · rw [val_modAt_ne _ _ _ _ hji]; exact hnxt.ok j hj

theorem modAt_const_twice (nxt : Env) (out : Nat) (V W : Int) :
    modAt (modAt nxt out (fun _ => V)) out (fun _ => W) = modAt nxt out (fun _ => W) := by
  apply List.ext_getElem?
  intro k
  simp only [modAt_getElem?]
  by_cases h : out = k
  · simp [h]
    cases nxt[k]? <;> rfl
  · simp [h]

end

end Amaranth.Engine
