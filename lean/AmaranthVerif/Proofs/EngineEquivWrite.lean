import AmaranthVerif.Proofs.EngineEquivMid

/-!
# A testbench write that does not address a signal leaves it alone

`ctx.set(target, v)` on a well-formed target keeps the pending values inside their shapes and changes
only signals the target mentions (`tb_window_spec`, C05: the write is the Spec's `applyBits` on the
target's bit locations).
-/

namespace Amaranth.Engine
open Amaranth

theorem applyBits_val_notin (ctx : Ctx) (v : Int) (i : Nat) : ∀ (locs : List Loc) (k : Nat) (E : Env),
    (∀ b, some (i, b) ∉ locs) → (applyBits ctx locs k v E).val i = E.val i := by
  intro locs
  induction locs with
  | nil => intro k E _; rfl
  | cons l ls ih =>
    intro k E h
    have h' : ∀ b, some (i, b) ∉ ls := fun b hb => h b (List.mem_cons_of_mem _ hb)
    cases l with
    | none => simp only [applyBits]; exact ih _ _ h'
    | some ib =>
      obtain ⟨i0, b0⟩ := ib
      simp only [applyBits]
      rw [ih _ _ h']
      have hne : i ≠ i0 := by
        intro e; subst e; exact h b0 (List.mem_cons_self ..)
      rw [set_eq_put]
      exact val_put_ne _ _ _ _ hne

theorem mem_padTo {n : Nat} {l : List Loc} {x : Nat × Nat} (h : some x ∈ padTo n l) : some x ∈ l := by
  unfold padTo at h
  rcases List.mem_append.mp h with h | h
  · exact List.mem_of_mem_take h
  · simp only [List.mem_replicate] at h
    exact absurd h.2 (by simp)

theorem lbits_sigs (ctx : Ctx) (cur : Env) : ∀ (e : Expr) (i b : Nat), some (i, b) ∈ lbits ctx cur e → i ∈ lhsSigs e := by
  intro e
  induction e with
  | const v s => intro i b h; simp [lbits] at h
  | sig j =>
    intro i b h
    simp only [lbits, List.mem_map, List.mem_range] at h
    obtain ⟨_, _, h⟩ := h
    simp only [Option.some.injEq, Prod.mk.injEq] at h
    simp [lhsSigs, h.1]
  | op1 o a ih =>
    intro i b h
    cases o <;> first | (simp [lbits] at h; done) | exact ih i b h
  | op2 o a b _ _ => intro i b h; simp [lbits] at h
  | slice a s t ih =>
    intro i b h
    simp only [lbits] at h
    exact ih i b (List.mem_of_mem_drop (List.mem_of_mem_take h))
  | part a off w st ih _ =>
    intro i b h
    simp only [lbits] at h
    exact ih i b (List.mem_of_mem_drop (mem_padTo h))
  | cat lo hi iha ihb =>
    intro i b h
    simp only [lbits, List.mem_append] at h
    simp only [lhsSigs, List.mem_append]
    rcases h with h | h
    · exact Or.inl (iha i b h)
    · exact Or.inr (ihb i b h)
  | ite t pats thn els _ iha ihb =>
    intro i b h
    simp only [lbits] at h
    have h := mem_padTo h
    simp only [lhsSigs, List.mem_append]
    split at h
    · exact Or.inl (iha i b h)
    · exact Or.inr (ihb i b h)

/-- the targets a testbench may write when signal `out` is driven by the replaced process -/
def writeOk (ctx : Ctx) (out : Nat) (tgt : Expr) : Prop := tgt.twf ctx = true ∧ out ∉ lhsSigs tgt

instance (ctx : Ctx) (out : Nat) (tgt : Expr) : Decidable (writeOk ctx out tgt) := by
  unfold writeOk; infer_instance

theorem tbWrite_frame (ctx : Ctx) (cur nxt : Env) (tgt : Expr) (v : Int) (out : Nat)
    (hcur : EnvN ctx cur) (hE : EnvN ctx nxt) (hw : writeOk ctx out tgt) :
    EnvN ctx (assignTbG true ctx cur tgt 0 v (widthOf ctx tgt) nxt) ∧
    (assignTbG true ctx cur tgt 0 v (widthOf ctx tgt) nxt).val out = nxt.val out := by
  rw [tb_window_spec ctx cur (envN_envOk hcur) tgt hw.1 0 v (widthOf ctx tgt) nxt hE]
  refine ⟨applyBits_envN ctx v _ 0 nxt hE ((lbits_ok ctx cur tgt hw.1).win 0 _), ?_⟩
  apply applyBits_val_notin
  intro b hb
  unfold win at hb
  exact hw.2 (lbits_sigs ctx cur tgt out b (List.mem_of_mem_drop (List.mem_of_mem_take hb)))

end Amaranth.Engine
