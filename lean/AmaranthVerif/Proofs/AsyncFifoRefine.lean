import AmaranthVerif.Proofs.AsyncFifoRun

/-! # The AsyncFIFO model is accepted by the two-sided queue monitor of Spec/Queue2 -/

namespace Amaranth.AsyncFifo
open Queue2

/-- the monitor state that corresponds to a ghost state with `k` delivered words -/
structure MonRel (written : List Nat) (k quiet : Nat) (log : List Nat) (m : Mon) : Prop where
  held : m.held = written.drop k
  quiet : m.quiet = quiet
  pushed : m.pushed = written
  popped : m.popped = log

theorem admits_of {depth bound : Nat} {m : Mon} {o : Obs}
    (h1 : o.rRdy = true → m.held.head? = some o.rData)
    (h2 : o.wRdy = true → m.held.length < depth)
    (h3 : o.wLevel ≤ depth) (h4 : o.rLevel ≤ depth)
    (h5 : bound ≤ m.quiet → m.held ≠ [] → o.rRdy = true) : m.admits depth bound o = true := by
  unfold Mon.admits Mon.violated
  have e1 : (o.rRdy && m.held.head? != some o.rData) = false := by
    cases hr : o.rRdy
    · rfl
    · simp [h1 hr]
  have e2 : (o.wRdy && !decide (m.held.length < depth)) = false := by
    cases hw : o.wRdy
    · rfl
    · simp [h2 hw]
  have e5 : (decide (bound ≤ m.quiet) && !m.held.isEmpty && !o.rRdy) = false := by
    by_cases hq : bound ≤ m.quiet
    · cases hh : m.held with
      | nil => simp
      | cons a l => have := h5 hq (by simp [hh]); simp [this]
    · simp [hq]
  simp [e1, e2, e5, h3, h4]

theorem head?_drop (l : List Nat) (k : Nat) : (l.drop k).head? = l[k]? := by
  simp [List.head?_drop]

/-- one event: the monitor follows the ghost -/
theorem monRel_step {written : List Nat} {k quiet : Nat} {log : List Nat} {m : Mon}
    (hm : MonRel written k quiet log m) (hk : k ≤ written.length)
    (o : Obs) (cl : Clock) (st : Strobes) (rd : Nat) (hrd : o.rRdy = true → written[k]? = some rd) :
    let push := cl.isW && o.wRdy && st.wEn
    let pop := cl.isR && o.rRdy && st.rEn
    MonRel (if push then written ++ [st.wData] else written) (if pop then k + 1 else k)
      (if push then 0 else if cl.isR then quiet + 1 else quiet)
      (if pop then log ++ [rd] else log) (m.step o cl st) := by
  intro push pop
  constructor
  · show (if pop then m.held.tail else m.held) ++ (if push then [st.wData] else []) = _
    rw [hm.held]
    have hlt : pop = true → k < written.length := by
      intro hpop
      have : o.rRdy = true := by simp [pop] at hpop; exact hpop.1.2
      exact (List.getElem?_eq_some_iff.1 (hrd this)).1
    cases hpop : pop <;> cases hpush : push
    · simp
    · simp; rw [List.drop_append_of_le_length hk]
    · simp
    · have := hlt hpop
      simp; rw [List.drop_append_of_le_length (by omega)]
  · show (if push then 0 else if cl.isR then m.quiet + 1 else m.quiet) = _
    rw [hm.quiet]
  · show m.pushed ++ (if push then [st.wData] else []) = _
    rw [hm.pushed]; cases push <;> simp
  · show m.popped ++ (if pop then m.held.head?.toList else []) = _
    rw [hm.popped, hm.held, head?_drop]
    cases hpop : pop
    · simp
    · have : o.rRdy = true := by simp [pop] at hpop; exact hpop.1.2
      simp [hrd this]


theorem clockOf_isW (e : Event) : (clockOf e).isW = e.isW := by cases e <;> rfl
theorem clockOf_isR (e : Event) : (clockOf e).isR = e.isR := by cases e <;> rfl

/-- monitor state that corresponds to the ghost of an AsyncFIFO -/
def GMon (g : Ghost) (m : Mon) : Prop := MonRel g.written g.nread g.quiet g.readLog m

theorem async_admits {c : Cfg} {g : Ghost} {s : State} {m : Mon} (h : Inv c g s) (hn : 1 ≤ c.ctrBits)
    (hm : GMon g m) : m.admits c.depth drainBound (toObs (outputs c s)) = true := by
  have ho := h.ord
  apply admits_of
  · intro hr
    show m.held.head? = some s.rData
    rw [hm.held, head?_drop]; exact h.rData_eq hn hr
  · intro hw
    show m.held.length < c.depth
    rw [hm.held, List.length_drop]
    have := h.wRdy_lt hn hw
    unfold Ghost.P at this ho; omega
  · exact h.wlev
  · show s.rLevel c ≤ c.depth
    rw [h.rLevel_eq hn]; omega
  · intro hq hne
    show s.rRdy = true
    rw [hm.quiet] at hq
    have := h.q2 hq
    rw [h.rRdy_iff hn, this.1]
    rw [hm.held] at hne
    have : g.nread < g.written.length := by
      apply Nat.lt_of_not_le; intro hle; exact hne (List.drop_eq_nil_of_le hle)
    exact this

theorem async_gmon_step {c : Cfg} {g : Ghost} {s : State} {m : Mon} (h : Inv c g s) (hn : 1 ≤ c.ctrBits)
    (hm : GMon g m) (e : Event) :
    GMon (gstep c g s e) (m.step (toObs (outputs c s)) (clockOf e) (strobesOf c e)) := by
  have := monRel_step hm h.nread_le (toObs (outputs c s)) (clockOf e) (strobesOf c e) s.rData (h.rData_eq hn)
  simp only [clockOf_isW, clockOf_isR] at this
  unfold GMon gstep gstepG
  simp only [doWrite, doRead, Bool.and_assoc] at this ⊢
  exact this

theorem async_accepts_from {c : Cfg} (hn : 1 ≤ c.ctrBits) : ∀ (es : List Event) {g : Ghost} {s : State} {m : Mon} (k : Nat),
    Inv c g s → GMon g m →
    firstViolation c.depth drainBound m k (toObs (outputs c s)) (specTrace c s es) = none
  | [], _, _, _, _, h, hm => by
    simp [specTrace, firstViolation, async_admits h hn hm]
  | e :: es, _, _, _, k, h, hm => by
    simp only [specTrace, firstViolation, async_admits h hn hm, if_true]
    exact async_accepts_from hn es (k + 1) (h.step hn e) (async_gmon_step h hn hm e)

theorem gmon_init : GMon Ghost.init Mon.init := by
  constructor <;> rfl

/-- pure queue fact: everything handed over, followed by what is held, is everything accepted -/
theorem Mon.log_eq_step (m : Mon) (o : Obs) (cl : Clock) (st : Strobes) (h : m.popped ++ m.held = m.pushed) :
    (m.step o cl st).popped ++ (m.step o cl st).held = (m.step o cl st).pushed := by
  simp only [Mon.step]
  rw [← h]
  cases m.held with
  | nil => split <;> simp
  | cons a l => split <;> simp

end Amaranth.AsyncFifo
