import AmaranthVerif.Proofs.ShapeSound

/-! # Range lemmas for Python's `& | ^` on two's-complement integers -/

namespace Amaranth

theorem nat_lt_pow_cast {m k : Nat} : ((m : Int) < 2 ^ k) ↔ m < 2 ^ k := by
  constructor
  · intro h; exact_mod_cast h
  · intro h; exact_mod_cast h

private theorem sub_and_le (m n : Nat) : m - (m &&& n) ≤ m := Nat.sub_le _ _

namespace Shape

/-- characterisation of containment by constructor, unsigned -/
theorem contains_u_ofNat {w m : Nat} : (Shape.mk w false).contains (Int.ofNat m) ↔ m < 2 ^ w := by
  rw [contains_u]; simp only [Int.ofNat_eq_natCast]
  constructor
  · intro h; exact nat_lt_pow_cast.mp h.2
  · intro h; exact ⟨by omega, nat_lt_pow_cast.mpr h⟩

theorem contains_u_negSucc {w m : Nat} : ¬ (Shape.mk w false).contains (Int.negSucc m) := by
  rw [contains_u]; intro h; have := h.1; simp only [Int.negSucc_eq] at this; omega

theorem contains_s_ofNat {w m : Nat} : (Shape.mk w true).contains (Int.ofNat m) ↔ m < 2 ^ (w - 1) := by
  rw [contains_s]; simp only [Int.ofNat_eq_natCast]
  have := two_pow_pos' (w - 1)
  constructor
  · intro h; exact nat_lt_pow_cast.mp h.2
  · intro h; exact ⟨by omega, nat_lt_pow_cast.mpr h⟩

theorem contains_s_negSucc {w m : Nat} : (Shape.mk w true).contains (Int.negSucc m) ↔ m < 2 ^ (w - 1) := by
  rw [contains_s]; simp only [Int.negSucc_eq]
  have := two_pow_pos' (w - 1)
  constructor
  · intro h
    have h1 : ((m : Int) + 1) ≤ 2 ^ (w - 1) := by omega
    have : (m : Int) < 2 ^ (w - 1) := by omega
    exact nat_lt_pow_cast.mp this
  · intro h
    have := nat_lt_pow_cast.mpr h
    omega

theorem and_contains (o : Shape) {x y : Int} (hx : o.contains x) (hy : o.contains y) :
    o.contains (pyAnd x y) := by
  obtain ⟨w, sg⟩ := o
  cases sg
  · cases x with
    | ofNat m =>
      cases y with
      | ofNat n =>
        rw [contains_u_ofNat] at *
        show (Shape.mk w false).contains (Int.ofNat (m &&& n))
        rw [contains_u_ofNat]; exact Nat.and_lt_two_pow _ hy
      | negSucc n => exact absurd hy contains_u_negSucc
    | negSucc m => exact absurd hx contains_u_negSucc
  · cases x with
    | ofNat m =>
      cases y with
      | ofNat n =>
        rw [contains_s_ofNat] at *
        show (Shape.mk w true).contains (Int.ofNat (m &&& n))
        rw [contains_s_ofNat]; exact Nat.and_lt_two_pow _ hy
      | negSucc n =>
        rw [contains_s_ofNat] at hx
        show (Shape.mk w true).contains (Int.ofNat (m - (m &&& n)))
        rw [contains_s_ofNat]; exact Nat.lt_of_le_of_lt (sub_and_le m n) hx
    | negSucc m =>
      cases y with
      | ofNat n =>
        rw [contains_s_ofNat] at hy
        show (Shape.mk w true).contains (Int.ofNat (n - (n &&& m)))
        rw [contains_s_ofNat]; exact Nat.lt_of_le_of_lt (sub_and_le n m) hy
      | negSucc n =>
        rw [contains_s_negSucc] at *
        show (Shape.mk w true).contains (Int.negSucc (m ||| n))
        rw [contains_s_negSucc]; exact Nat.or_lt_two_pow hx hy

theorem or_contains (o : Shape) {x y : Int} (hx : o.contains x) (hy : o.contains y) :
    o.contains (pyOr x y) := by
  obtain ⟨w, sg⟩ := o
  cases sg
  · cases x with
    | ofNat m =>
      cases y with
      | ofNat n =>
        rw [contains_u_ofNat] at *
        show (Shape.mk w false).contains (Int.ofNat (m ||| n))
        rw [contains_u_ofNat]; exact Nat.or_lt_two_pow hx hy
      | negSucc n => exact absurd hy contains_u_negSucc
    | negSucc m => exact absurd hx contains_u_negSucc
  · cases x with
    | ofNat m =>
      cases y with
      | ofNat n =>
        rw [contains_s_ofNat] at *
        show (Shape.mk w true).contains (Int.ofNat (m ||| n))
        rw [contains_s_ofNat]; exact Nat.or_lt_two_pow hx hy
      | negSucc n =>
        rw [contains_s_negSucc] at hy
        show (Shape.mk w true).contains (Int.negSucc (n - (n &&& m)))
        rw [contains_s_negSucc]; exact Nat.lt_of_le_of_lt (sub_and_le n m) hy
    | negSucc m =>
      cases y with
      | ofNat n =>
        rw [contains_s_negSucc] at hx
        show (Shape.mk w true).contains (Int.negSucc (m - (m &&& n)))
        rw [contains_s_negSucc]; exact Nat.lt_of_le_of_lt (sub_and_le m n) hx
      | negSucc n =>
        rw [contains_s_negSucc] at *
        show (Shape.mk w true).contains (Int.negSucc (m &&& n))
        rw [contains_s_negSucc]; exact Nat.and_lt_two_pow _ hy

theorem xor_contains (o : Shape) {x y : Int} (hx : o.contains x) (hy : o.contains y) :
    o.contains (pyXor x y) := by
  obtain ⟨w, sg⟩ := o
  cases sg
  · cases x with
    | ofNat m =>
      cases y with
      | ofNat n =>
        rw [contains_u_ofNat] at *
        show (Shape.mk w false).contains (Int.ofNat (m ^^^ n))
        rw [contains_u_ofNat]; exact Nat.xor_lt_two_pow hx hy
      | negSucc n => exact absurd hy contains_u_negSucc
    | negSucc m => exact absurd hx contains_u_negSucc
  · cases x with
    | ofNat m =>
      cases y with
      | ofNat n =>
        rw [contains_s_ofNat] at *
        show (Shape.mk w true).contains (Int.ofNat (m ^^^ n))
        rw [contains_s_ofNat]; exact Nat.xor_lt_two_pow hx hy
      | negSucc n =>
        rw [contains_s_ofNat] at hx; rw [contains_s_negSucc] at hy
        show (Shape.mk w true).contains (Int.negSucc (m ^^^ n))
        rw [contains_s_negSucc]; exact Nat.xor_lt_two_pow hx hy
    | negSucc m =>
      cases y with
      | ofNat n =>
        rw [contains_s_negSucc] at hx; rw [contains_s_ofNat] at hy
        show (Shape.mk w true).contains (Int.negSucc (m ^^^ n))
        rw [contains_s_negSucc]; exact Nat.xor_lt_two_pow hx hy
      | negSucc n =>
        rw [contains_s_negSucc] at *
        show (Shape.mk w true).contains (Int.ofNat (m ^^^ n))
        rw [contains_s_ofNat]; exact Nat.xor_lt_two_pow hx hy

end Shape
end Amaranth
