import AmaranthVerif.Proofs.FormatStr
import AmaranthVerif.Proofs.FormatS
import AmaranthVerif.Proofs.TbExact

/-!
# The text of a compiled Print / Assert message, and of `eval_format`, is the Spec text
-/

namespace Amaranth
namespace Fmt

/-- the text the (repaired) compiled code and `eval_format` compute for one value -/
def modelText (v : Int) (spec : List Char) : Except PyErr PyStr :=
  if endsWithS spec then
    match valueToString v with
    | .ok s => formatArg (.str s) spec.dropLast
    | .error e => .error e
  else formatArg (.int v) spec

theorem pyFormatStr_ty (sp : Spec) (h : sp.ty = some .s) (s : PyStr) :
    pyFormatStr { sp with ty := none } s = pyFormatStr sp s := by
  unfold pyFormatStr
  simp only [h, Spec.alignStr, Spec.fillChar, Spec.widthN]
  rfl

/-- for a specification that parses, the `s` rewrite computes Python's text -/
theorem modelText_eq (v : Int) (spec : List Char) (sp : Spec) (h : parseSpecL spec = some sp) :
    modelText v spec = pythonText v spec := by
  obtain ⟨hiff, hdrop⟩ := s_rewrite_ok spec sp h
  unfold modelText pythonText
  simp only [h]
  by_cases hty : sp.ty = some .s
  · have he : endsWithS spec = true := hiff.mpr hty
    simp only [he, if_true, hty]
    cases valueToString v with
    | error e => rfl
    | ok s =>
      simp only [formatArg, hdrop hty]
      exact pyFormatStr_ty sp hty s
  · have he : endsWithS spec = false := by
      cases hb : endsWithS spec with
      | false => rfl
      | true => exact absurd (hiff.mp hb) hty
    simp only [he, hty, if_false, Bool.false_eq_true, formatArg, h]

theorem accepts_parses (spec : List Char) (sh : Shape) (h : acceptsL spec sh = true) :
    ∃ sp, parseSpecL spec = some sp := by
  unfold acceptsL rejectL at h
  cases hp : parseSpecL spec with
  | none => simp [hp] at h
  | some sp => exact ⟨sp, rfl⟩

theorem evalArg_repaired (ctx : Ctx) (env : Env) (e : Expr) (spec : List Char) :
    evalArg ctx env ⟨e, endsWithS spec, some (specSent spec)⟩ =
      (match modelText (rtlValue ctx env e) spec with
       | .ok t => .ok (.str t)
       | .error err => .error err) := by
  unfold evalArg modelText specSent
  simp only
  cases he : endsWithS spec with
  | true =>
    simp only [if_true]
    cases valueToString (rtlValue ctx env e) with
    | error err => rfl
    | ok s =>
      simp only [Functor.map, Except.map]
      cases formatArg (Arg.str s) spec.dropLast <;> rfl
  | false =>
    simp only [Bool.false_eq_true, if_false, Functor.map, Except.map]
    cases formatArg (Arg.int (rtlValue ctx env e)) spec <;> rfl

theorem render_nil (ctx : Ctx) (env : Env) : render true ctx env [] = .ok [] := rfl

theorem render_lit (ctx : Ctx) (env : Env) (s : PyStr) (rest : List Chunk) :
    render true ctx env (.lit s :: rest) = prependE s (render true ctx env rest) := by
  unfold render
  simp only [emitFormat]
  cases evalArgs ctx env (emitFormat true rest).2 with
  | error e => rfl
  | ok args =>
    simp only [strFormat]
    exact strFormatGo_escape args s _

theorem render_val (ctx : Ctx) (env : Env) (e : Expr) (spec : List Char) (rest : List Chunk) :
    render true ctx env (.val e spec :: rest) =
      (match modelText (rtlValue ctx env e) spec with
       | .ok t => prependE t (render true ctx env rest)
       | .error err => .error err) := by
  unfold render
  simp only [emitFormat, if_true, evalArgs, evalArg_repaired]
  cases modelText (rtlValue ctx env e) spec with
  | error err => rfl
  | ok t =>
    simp only
    cases evalArgs ctx env (emitFormat true rest).2 with
    | error e => rfl
    | ok args =>
      simp only [strFormat]
      exact strFormatGo_field_str t args _

/-- the message of a compiled Print / Property (after the F20 repair) is the Spec text -/
theorem render_eq_spec (ctx : Ctx) (env : Env) (hok : EnvOk ctx env) (cs : List Chunk)
    (h : chunksOk ctx cs = true) : render true ctx env cs = specText ctx env cs := by
  induction cs with
  | nil => rfl
  | cons c rest ih =>
    unfold chunksOk at h ih
    simp only [List.all_cons, Bool.and_eq_true] at h
    cases c with
    | lit s => rw [render_lit, specText, ih h.2]
    | val e spec =>
      have hc := h.1
      simp only [Chunk.ok, Bool.and_eq_true] at hc
      obtain ⟨sp, hsp⟩ := accepts_parses _ _ hc.2
      have hv : rtlValue ctx env e = denote ctx env e := (sound ctx env hok e hc.1).sgn
      rw [render_val, specText, hv, modelText_eq _ _ sp hsp, ih h.2]
      cases pythonText (denote ctx env e) spec <;> rfl

/-- `eval_format` computes the Spec text -/
theorem evalFormatTb_eq_spec (ctx : Ctx) (env : Env) (hok : EnvOk ctx env) (cs : List Chunk)
    (h : chunksOk ctx cs = true) : evalFormatTb ctx env cs = specText ctx env cs := by
  induction cs with
  | nil => rfl
  | cons c rest ih =>
    unfold chunksOk at h ih
    simp only [List.all_cons, Bool.and_eq_true] at h
    cases c with
    | lit s => rw [evalFormatTb, specText, ih h.2]
    | val e spec =>
      have hc := h.1
      simp only [Chunk.ok, Bool.and_eq_true] at hc
      obtain ⟨sp, hsp⟩ := accepts_parses _ _ hc.2
      have hm := modelText_eq (denote ctx env e) spec sp hsp
      unfold modelText at hm
      rw [evalFormatTb, specText, tb_exact_aux ctx env hok e hc.1, ih h.2]
      rw [← hm]
      cases endsWithS spec with
      | true =>
        simp only [if_true]
        cases valueToString (denote ctx env e) <;> rfl
      | false =>
        simp only [Bool.false_eq_true, if_false]
        cases formatArg (Arg.int (denote ctx env e)) spec <;> rfl

end Fmt
end Amaranth
