import AmaranthVerif.Model.Rtlil.Emit

/-! # Proofs about the emitter-side models (`Model/Rtlil/Emit`) -/

namespace Amaranth.Rtlil

/-! ## `_add_name` -/

section AddName
variable {α : Type} [DecidableEq α] (mk : α → Nat → α)

/-- every de-duplicated name in the set carries a counter below the size of the set -/
def NameInv (assigned : List α) : Prop :=
  assigned.Nodup ∧ ∀ x ∈ assigned, ∀ n k, x = mk n k → k < assigned.length

theorem addName_of_mem (assigned : List α) (u : α) (h1 : u ∈ assigned) (h2 : mk u assigned.length ∉ assigned) :
    addName mk assigned u = (mk u assigned.length, mk u assigned.length :: assigned) := by
  simp [addName, h1, h2]

theorem addName_of_not_mem (assigned : List α) (u : α) (h1 : u ∉ assigned) :
    addName mk assigned u = (u, u :: assigned) := by
  simp [addName, h1]

theorem addName_spec (assigned : List α) (u : α)
    (hsep : ∀ n n' k k', k ≠ k' → mk n k ≠ mk n' k')
    (hu : ∀ n k, mk n k ≠ u) (hinv : NameInv mk assigned) :
    (addName mk assigned u).1 ∉ assigned ∧ (addName mk assigned u).2 = (addName mk assigned u).1 :: assigned ∧
      NameInv mk (addName mk assigned u).2 := by
  obtain ⟨hnd, hk⟩ := hinv
  by_cases hmem : u ∈ assigned
  · have hnew : mk u assigned.length ∉ assigned := by
      intro hin
      have := hk _ hin u assigned.length rfl
      omega
    rw [addName_of_mem mk assigned u hmem hnew]
    refine ⟨hnew, rfl, List.nodup_cons.mpr ⟨hnew, hnd⟩, ?_⟩
    intro x hx n k hxk
    simp only [List.length_cons]
    rcases List.mem_cons.mp hx with rfl | hx
    · by_cases hke : k = assigned.length
      · omega
      · exact absurd hxk (hsep u n assigned.length k (fun h => hke h.symm))
    · have := hk x hx n k hxk
      omega
  · rw [addName_of_not_mem mk assigned u hmem]
    refine ⟨hmem, rfl, List.nodup_cons.mpr ⟨hmem, hnd⟩, ?_⟩
    intro x hx n k hxk
    simp only [List.length_cons]
    rcases List.mem_cons.mp hx with rfl | hx
    · exact absurd hxk.symm (hu n k)
    · have := hk x hx n k hxk
      omega

theorem assignAll_spec (users : List α)
    (hsep : ∀ n n' k k', k ≠ k' → mk n k ≠ mk n' k') :
    ∀ assigned, (∀ u ∈ users, ∀ n k, mk n k ≠ u) → NameInv mk assigned →
      (assignAll mk assigned users).1.Nodup ∧ ∀ x ∈ (assignAll mk assigned users).1, x ∉ assigned := by
  induction users with
  | nil => intro assigned _ _; simp [assignAll]
  | cons u us ih =>
    intro assigned hfresh hinv
    have hu : ∀ n k, mk n k ≠ u := hfresh u (List.mem_cons_self)
    obtain ⟨h1, h2, h3⟩ := addName_spec mk assigned u hsep hu hinv
    have ih' := ih (addName mk assigned u).2 (fun v hv => hfresh v (List.mem_cons_of_mem _ hv)) h3
    simp only [assignAll]
    refine ⟨List.nodup_cons.mpr ⟨?_, ih'.1⟩, ?_⟩
    · intro hin
      have := ih'.2 _ hin
      rw [h2] at this
      exact this (List.mem_cons_self)
    · intro x hx
      rcases List.mem_cons.mp hx with rfl | hx
      · exact h1
      · have := ih'.2 x hx
        rw [h2] at this
        exact fun hin => this (List.mem_cons_of_mem _ hin)

theorem assignAll_nodup (users : List α)
    (hfresh : ∀ u ∈ users, ∀ n k, mk n k ≠ u)
    (hsep : ∀ n n' k k', k ≠ k' → mk n k ≠ mk n' k') :
    (assignAll mk [] users).1.Nodup :=
  (assignAll_spec mk users hsep [] hfresh ⟨List.nodup_nil, by simp⟩).1

end AddName

/-! ## the port counter -/

theorem emitPortIds_dense : ∀ (ws : List Bool) (start : Nat),
    (emitPortIds ws start).filterMap id = List.range' start (ws.filter id).length
  | [], _ => by simp [emitPortIds]
  | true :: ws, start => by
    simp only [emitPortIds, List.filterMap_cons, id, List.filter_cons, if_true, List.length_cons]
    rw [emitPortIds_dense ws (start + 1), List.range'_succ]
  | false :: ws, start => by
    simp only [emitPortIds, List.filterMap_cons, id, List.filter_cons]
    simpa using emitPortIds_dense ws start

/-! ## `sigspec()` -/

/-- the nets of a run, least significant first -/
def Run.nets : Run → List Net
  | .const bs => bs.map .const
  | .wire w s k => (List.range k).map (fun j => .wire w (s + j))

/-- wire runs are non-empty -/
def Run.ok : Run → Prop
  | .const _ => True
  | .wire _ _ k => 0 < k

theorem range_succ_map_shift (w : String) (i k : Nat) :
    (List.range (k + 1)).map (fun j => Net.wire w (i + j)) =
      Net.wire w i :: (List.range k).map (fun j => Net.wire w (i + 1 + j)) := by
  rw [List.range_succ_eq_map]
  simp only [List.map_cons, List.map_map, Nat.add_zero, List.cons.injEq, true_and]
  apply List.map_congr_left
  intro j _
  simp only [Function.comp]
  congr 1
  omega

theorem pushNet_spec (n : Net) (rs : List Run) (hok : ∀ r ∈ rs, r.ok) :
    (pushNet n rs).flatMap Run.nets = n :: rs.flatMap Run.nets ∧ ∀ r ∈ pushNet n rs, r.ok := by
  cases rs with
  | nil => cases n <;> simp [pushNet, Run.nets, Run.ok]
  | cons r rest =>
    have hrest : ∀ r' ∈ rest, r'.ok := fun r' h => hok r' (List.mem_cons_of_mem _ h)
    have hr : r.ok := hok r (List.mem_cons_self)
    cases r with
    | const bs =>
      cases n with
      | const b => exact ⟨by simp [pushNet, Run.nets], by intro r' h; simp only [pushNet, List.mem_cons] at h; rcases h with rfl | h; exact trivial; exact hrest r' h⟩
      | wire w i =>
        refine ⟨by simp [pushNet, Run.nets], ?_⟩
        intro r' h
        simp only [pushNet, List.mem_cons] at h
        rcases h with rfl | rfl | h
        · exact Nat.one_pos
        · exact trivial
        · exact hrest r' h
    | wire w s k =>
      cases n with
      | const b =>
        refine ⟨by simp [pushNet, Run.nets], ?_⟩
        intro r' h
        simp only [pushNet, List.mem_cons] at h
        rcases h with rfl | rfl | h
        · exact trivial
        · exact hr
        · exact hrest r' h
      | wire w' i =>
        by_cases hj : w' = w ∧ i + 1 = s
        · obtain ⟨rfl, rfl⟩ := hj
          refine ⟨?_, ?_⟩
          · simp only [pushNet, and_self, if_true, List.flatMap_cons, Run.nets]
            rw [range_succ_map_shift]
            rfl
          · intro r' h
            simp only [pushNet, and_self, if_true, List.mem_cons] at h
            rcases h with rfl | h
            · exact Nat.succ_pos _
            · exact hrest r' h
        · refine ⟨by simp [pushNet, hj, Run.nets], ?_⟩
          intro r' h
          simp only [pushNet, hj, if_false, List.mem_cons] at h
          rcases h with rfl | rfl | h
          · exact Nat.one_pos
          · exact hr
          · exact hrest r' h

theorem runs_spec : ∀ v : List Net, (runs v).flatMap Run.nets = v ∧ ∀ r ∈ runs v, r.ok
  | [] => by simp [runs]
  | n :: rest => by
    obtain ⟨h1, h2⟩ := runs_spec rest
    obtain ⟨h3, h4⟩ := pushNet_spec n (runs rest) h2
    exact ⟨by simp only [runs]; rw [h3, h1], by simpa [runs] using h4⟩

theorem Run.chunk_bits (ww : String → Nat) (r : Run) (h : r.ok) : r.chunk.bitRefsW ww = r.nets.map Net.ref := by
  cases r with
  | const bs =>
    simp only [Run.chunk, Chunk.bitRefsW, List.reverse_reverse, Run.nets, List.map_map]
    apply List.map_congr_left
    intro b _
    cases b <;> rfl
  | wire w s k =>
    simp only [Run.chunk, Run.nets]
    by_cases hk : k = 1
    · subst hk
      simp [Chunk.bitRefsW, Net.ref]
    · simp only [hk, if_false, Chunk.bitRefsW, List.map_map]
      have : s + k - 1 + 1 - s = k := by
        have : 0 < k := h
        omega
      rw [this]
      rfl

theorem Run.chunk_width (r : Run) (h : r.ok) : r.chunk.width0 = r.nets.length := by
  cases r with
  | const bs => simp [Run.chunk, Chunk.width0, Run.nets]
  | wire w s k =>
    simp only [Run.chunk, Run.nets]
    by_cases hk : k = 1
    · subst hk; simp [Chunk.width0]
    · have : 0 < k := h
      simp only [hk, if_false, Chunk.width0, List.length_map, List.length_range]
      omega

theorem flatMap_chunk_bits (ww : String → Nat) : ∀ (rs : List Run), (∀ r ∈ rs, r.ok) →
    rs.flatMap (fun r => r.chunk.bitRefsW ww) = (rs.flatMap Run.nets).map Net.ref
  | [], _ => rfl
  | r :: rest, h => by
    simp only [List.flatMap_cons, List.map_append]
    rw [Run.chunk_bits ww r (h r (List.mem_cons_self)),
        flatMap_chunk_bits ww rest (fun r' hr => h r' (List.mem_cons_of_mem _ hr))]

theorem sum_chunk_width : ∀ (rs : List Run), (∀ r ∈ rs, r.ok) →
    (rs.map (fun r => r.chunk.width0)).sum = (rs.flatMap Run.nets).length
  | [], _ => rfl
  | r :: rest, h => by
    simp only [List.map_cons, List.sum_cons, List.flatMap_cons, List.length_append]
    rw [Run.chunk_width r (h r (List.mem_cons_self)),
        sum_chunk_width rest (fun r' hr => h r' (List.mem_cons_of_mem _ hr))]

theorem emitSpec_bitsW (ww : String → Nat) (v : List Net) : (emitSpec v).bitRefsW ww = v.map Net.ref := by
  obtain ⟨h1, h2⟩ := runs_spec v
  have key := flatMap_chunk_bits ww (runs v) h2
  rw [h1] at key
  unfold emitSpec
  split
  · rename_i r hr
    rw [hr] at key
    simpa [SigSpec.bitRefsW] using key
  · simp only [SigSpec.bitRefsW, List.map_reverse, List.reverse_reverse, List.flatMap_map]
    exact key

theorem emitSpec_bits (v : List Net) : (emitSpec v).bitRefs = v.map Net.ref := emitSpec_bitsW _ v

theorem sum_reverse (l : List Nat) : l.reverse.sum = l.sum := by
  induction l with
  | nil => rfl
  | cons a t ih => simp [List.sum_append, ih, Nat.add_comm]

theorem emitSpec_width (v : List Net) : (emitSpec v).width = v.length := by
  obtain ⟨h1, h2⟩ := runs_spec v
  have key := sum_chunk_width (runs v) h2
  rw [h1] at key
  unfold emitSpec
  split
  · rename_i r hr
    rw [hr] at key
    simpa [SigSpec.width, SigSpec.chunks] using key
  · simp only [SigSpec.width, SigSpec.chunks, List.map_reverse, List.map_map]
    rw [sum_reverse]
    exact key

end Amaranth.Rtlil
