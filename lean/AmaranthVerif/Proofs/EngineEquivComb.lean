import AmaranthVerif.Proofs.EngineEquivMid

/-!
# A combinational assignment and the process that replaces it

`kA = comb (out := e)` against `kB = userComb (exprSigs e) out e` at the same position of the
process list. The two simulations are related delta by delta (`CombRel`): everything but the local
state of the replaced owner is equal, and the owner is in one of three situations:

* *start*: both are runnable (time 0; the process gets its `initial` wake-up);
* *fire*: the compiled process is runnable and the trigger of the user process is activated — the
  commit that just happened changed an input;
* *quiet*: the user process waits, not activated, and the pending value of `out` already is the value
  of `e` on the current inputs — if the compiled process is runnable (it is also woken by a change of
  `out` itself) its run rewrites that same value.

In this model the user process is resumed in the same delta as the compiled process runs (phase 1a
makes it runnable, phase 1b runs it): there is no lag.
-/

namespace Amaranth.Engine
open Amaranth

/-- every update of the owner keeps a value of the slot's shape inside the shape -/
def UpdSafe (ctx : Ctx) (d : ProcDef) : Prop :=
  ∀ l cur, EnvN ctx cur → ∀ u ∈ (d.run l cur).updates, ∀ x,
    (ctx.shape u.slot).contains x → (ctx.shape u.slot).contains (applyUpdate u x)

/-- what is assumed about everything except the replaced process: `out` is a signal of the design, no
other process writes it, and the other processes keep every signal inside its shape -/
structure ReplHyp (D : Design) (pre post : List ProcKind) (out : Nat) : Prop where
  hout : out < D.ctx.length
  others_slots : ∀ k ∈ pre ++ post, ∀ x ∈ kindMasks D k, x.1 ≠ out
  others_safe : ∀ k ∈ pre ++ post, UpdSafe D.ctx (k.toDef D)

/-- an effect of another owner does not touch `out` and keeps `next` normalised -/
theorem other_effect (D : Design) (pre post : List ProcKind) (scripts : List (List TbOp)) (k0 : ProcKind) (out : Nat)
    (H : ReplHyp D pre post out) (s : EState) (hcur : EnvN D.ctx s.curr) (q : Nat) (hq : q ≠ pre.length)
    (eff : Effect) (he : effectOf (simDefs D (pre ++ k0 :: post) scripts) s q = some eff) :
    (∀ u ∈ eff.updates, u.slot ≠ out) ∧
    (∀ u ∈ eff.updates, ∀ x, (D.ctx.shape u.slot).contains x → (D.ctx.shape u.slot).contains (applyUpdate u x)) := by
  obtain ⟨d, l, hd, rfl⟩ := effectOf_some _ _ _ _ he
  rcases simDefs_other D pre post scripts k0 q d hq hd with ⟨k, hk, rfl⟩ | ⟨sc, rfl⟩
  · exact ⟨fun u hu => H.others_slots k hk _ (toDef_run_masks D k l s.curr u hu),
      fun u hu => H.others_safe k hk l s.curr hcur u hu⟩
  · exact ⟨fun u hu => by simp [tbDef] at hu, fun u hu => by simp [tbDef] at hu⟩

/-- the effects of the other owners, applied on both sides -/
theorem others_fold (ctx : Ctx) (out p : Nat) (effA effB : Nat → Option Effect)
    (hsame : ∀ q, q ≠ p → effB q = effA q)
    (hsafe : ∀ q, q ≠ p → ∀ eff, effA q = some eff → (∀ u ∈ eff.updates, u.slot ≠ out) ∧
      (∀ u ∈ eff.updates, ∀ x, (ctx.shape u.slot).contains x → (ctx.shape u.slot).contains (applyUpdate u x))) :
    ∀ (qs : List Nat), p ∉ qs → ∀ (za zb : EState), Mid p za zb → EnvN ctx za.next →
      Mid p (qs.foldl (fun z q => applyEffect z q (effA q)) za) (qs.foldl (fun z q => applyEffect z q (effB q)) zb) ∧
      EnvN ctx (qs.foldl (fun z q => applyEffect z q (effA q)) za).next ∧
      (qs.foldl (fun z q => applyEffect z q (effA q)) za).next.val out = za.next.val out ∧
      (qs.foldl (fun z q => applyEffect z q (effA q)) za).locals[p]? = za.locals[p]? ∧
      (qs.foldl (fun z q => applyEffect z q (effB q)) zb).locals[p]? = zb.locals[p]? ∧
      (qs.foldl (fun z q => applyEffect z q (effA q)) za).curr = za.curr := by
  intro qs
  induction qs with
  | nil => intro _ za zb hm hn; exact ⟨hm, hn, rfl, rfl, rfl, rfl⟩
  | cons q rest ih =>
    intro hp za zb hm hn
    have hq : q ≠ p := fun e => hp (e ▸ List.mem_cons_self ..)
    have hp' : p ∉ rest := fun h => hp (List.mem_cons_of_mem _ h)
    simp only [List.foldl_cons]
    rw [hsame q hq]
    have hm1 := applyEffect_mid hm q hq (effA q)
    have hn1 : EnvN ctx (applyEffect za q (effA q)).next ∧ (applyEffect za q (effA q)).next.val out = za.next.val out := by
      cases he : effA q with
      | none => exact ⟨hn, rfl⟩
      | some eff =>
        obtain ⟨h1, h2⟩ := hsafe q hq eff he
        exact ⟨envN_applyAll hn _ h2, applyAll_val_of_slots _ _ _ h1⟩
    obtain ⟨r1, r2, r3, r4, r5, r6⟩ := ih hp' _ _ hm1 hn1.1
    refine ⟨r1, r2, by rw [r3, hn1.2], ?_, ?_, by rw [r6]; exact applyEffect_curr _ _ _⟩
    · rw [r4]; exact applyEffect_locals_ne _ _ _ _ hq
    · rw [r5]; exact applyEffect_locals_ne _ _ _ _ hq

/-! ## The two owners -/

section comb
variable (D : Design) (out : Nat) (e : Expr)

/-- the value both owners write: `e` on the current values, as a value of `out`'s shape -/
def combV (cur : Env) : Int := norm (D.ctx.shape out) (evalTb D.ctx cur e)

/-- the user process is suspended in its `changed()` loop -/
def BIdle (l : Local) : Prop :=
  l.runnable = false ∧ l.initial = false ∧ l.waiting = true ∧ l.hits.length = (exprSigs e).length

/-- the replaced owner on both sides, at the start of a delta -/
def CombQ (lA lB : Local) (cur nxt : Env) : Prop :=
  EnvN D.ctx cur ∧ EnvN D.ctx nxt ∧
  ((lA.runnable = true ∧ lB.runnable = true ∧ lB.initial = true ∧ lB.active = false ∧ lB.waiting = false) ∨
   (lA.runnable = true ∧ BIdle e lB ∧ lB.active = true) ∨
   (BIdle e lB ∧ lB.active = false ∧ nxt.val out = combV D out e cur))

/-- after phase 1a -/
def CombQ1 (lA lB : Local) (cur nxt : Env) : Prop :=
  (lA.runnable = true ∧ lB.runnable = true ∧ lB.active = false ∧
    (lB.initial = true ∨ (lB.initial = false ∧ lB.result = (exprSigs e).map cur.val))) ∨
  (BIdle e lB ∧ lB.active = false ∧ nxt.val out = combV D out e cur)

theorem trigResult_changed (ctx : Ctx) (cur : Env) : ∀ (ins : List Nat) (hits : List Bool), hits.length = ins.length →
    trigResult ctx (ins.map .changed) hits cur = ins.map cur.val := by
  intro ins
  induction ins with
  | nil => intro hits _; simp [trigResult]
  | cons i rest ih =>
    intro hits h
    cases hits with
    | nil => simp at h
    | cons b bs =>
      have := ih bs (by simpa using h)
      unfold trigResult at this ⊢
      simp only [List.map_cons, List.zipWith_cons_cons, this]

/-- phase 1a on the replaced owner -/
theorem comb_trig (lA lB : Local) (cur nxt : Env) (h : CombQ D out e lA lB cur nxt) :
    CombQ1 D out e (if lA.active then (combDef D (.assign (.sig out) e)).trig lA cur else lA)
      (if lB.active then (userCombDef D.ctx (exprSigs e) out e).trig lB cur else lB) cur nxt := by
  have hA : (if lA.active then (combDef D (.assign (.sig out) e)).trig lA cur else lA).runnable = lA.runnable := by
    split <;> rfl
  obtain ⟨_, _, h | h | h⟩ := h
  · obtain ⟨h1, h2, h3, h4, h5⟩ := h
    left
    simp only [h4, Bool.false_eq_true, if_false]
    exact ⟨by rw [hA]; exact h1, h2, by simp [h4], Or.inl h3⟩
  · obtain ⟨h1, ⟨h2, h3, h4, h5⟩, h6⟩ := h
    left
    simp only [h6, if_true]
    refine ⟨by rw [hA]; exact h1, rfl, rfl, Or.inr ⟨h3, ?_⟩⟩
    show trigResult D.ctx ((exprSigs e).map .changed) lB.hits cur = _
    exact trigResult_changed D.ctx cur _ _ h5
  · obtain ⟨h1, h2, h3⟩ := h
    right
    simp only [h2, Bool.false_eq_true, if_false]
    exact ⟨h1, by simp [h2], h3⟩

variable {D out e}

/-- what the compiled process does to `next`: `out` gets `combV` -/
theorem combA_next (hout : out < D.ctx.length) (hwf : e.wf D.ctx = true) (cur nxt : Env)
    (hcur : EnvN D.ctx cur) (hnxt : EnvN D.ctx nxt) :
    applyAll nxt (procUpdates D.ctx (.assign (.sig out) e) (combNext D.ctx D.inits (.assign (.sig out) e) cur)) =
      modAt nxt out (fun _ => combV D out e cur) := by
  have hV : (combNext D.ctx D.inits (.assign (.sig out) e) cur).val out = combV D out e cur := by
    rw [combNext_assign_val _ _ _ _ _ hout, rtlValue_eq_evalTb _ _ (envN_envOk hcur) e hwf]; rfl
  obtain ⟨hswf, _⟩ := hnxt.ok out hout
  have hVc : (D.ctx.shape out).contains (combV D out e cur) := norm_contains _ hswf _
  rw [procUpdates_assign _ _ _ _ hout, hV]
  by_cases hw : (D.ctx.shape out).width = 0
  · simp only [hw, if_true]
    symm
    apply modAt_id_of_val
    intro x hx
    have hxc := (hnxt.ok out hout).2
    rw [val_of_getElem? _ _ _ hx] at hxc
    -- a shape of width 0 contains only 0
    generalize hs : D.ctx.shape out = s at *
    obtain ⟨w, sg⟩ := s
    simp only at hw
    subst hw
    cases sg with
    | true => exact absurd (hswf rfl) (by decide)
    | false =>
      rw [Shape.contains_u] at hxc hVc
      omega
  · simp only [hw, if_false]
    show Engine.applyTo nxt _ = _
    unfold Engine.applyTo
    apply modAt_eq_of_val
    intro x hx
    have hxc := (hnxt.ok out hout).2
    rw [val_of_getElem? _ _ _ hx] at hxc
    exact compiled_write _ hswf _ _ hVc hxc (by omega) _

/-- what the user process does to `next`: `out` gets `combV` -/
theorem combB_next (hwf : e.wf D.ctx = true) (cur nxt : Env) :
    applyAll nxt [setUpd D.ctx out (evalTb D.ctx (sampleEnv D.ctx.length (exprSigs e) ((exprSigs e).map cur.val)) e)] =
      modAt nxt out (fun _ => combV D out e cur) := by
  rw [evalTb_sampleEnv _ _ _ hwf]
  show Engine.applyTo nxt _ = _
  unfold Engine.applyTo
  apply modAt_eq_of_val
  intro x _
  exact full_write _ _ _

theorem combV_val (hout : out < D.ctx.length) (cur nxt : Env) (hnxt : EnvN D.ctx nxt) :
    Env.val (modAt nxt out (fun _ => combV D out e cur)) out = combV D out e cur ∧
    EnvN D.ctx (modAt nxt out (fun _ => combV D out e cur)) := by
  have hlen : out < nxt.length := by rw [hnxt.len]; exact hout
  refine ⟨val_modAt_self _ _ _ hlen, ⟨by rw [modAt_length]; exact hnxt.len, fun j hj => ?_⟩⟩
  by_cases hji : out = j
  · subst hji
    rw [val_modAt_self _ _ _ hlen]
    exact ⟨(hnxt.ok _ hj).1, norm_contains _ (hnxt.ok _ hj).1 _⟩
  · rw [val_modAt_ne _ _ _ _ hji]; exact hnxt.ok j hj

/-- the replaced owner's turn in the process phase, on both sides -/
theorem comb_pstep (hout : out < D.ctx.length) (hwf : e.wf D.ctx = true) (p : Nat) (psA psB : List ProcDef)
    (hdA : psA[p]? = some (combDef D (.assign (.sig out) e)))
    (hdB : psB[p]? = some (userCombDef D.ctx (exprSigs e) out e))
    (a1 b1 : EState) (hc1 : b1.curr = a1.curr) (lA1 lB1 : Local)
    (hlA : a1.locals[p]? = some lA1) (hlB : b1.locals[p]? = some lB1)
    (hcur : EnvN D.ctx a1.curr)
    (za zb : EState) (hm : Mid p za zb) (hn : EnvN D.ctx za.next)
    (hzA : za.locals[p]? = some lA1) (hzB : zb.locals[p]? = some lB1)
    (hq : CombQ1 D out e lA1 lB1 a1.curr za.next) :
    Mid p (applyEffect za p (effectOf psA a1 p)) (applyEffect zb p (effectOf psB b1 p)) ∧
    EnvN D.ctx (applyEffect za p (effectOf psA a1 p)).next ∧
    (applyEffect za p (effectOf psA a1 p)).next.val out = combV D out e a1.curr ∧
    (∃ lA2, (applyEffect za p (effectOf psA a1 p)).locals[p]? = some lA2) ∧
    (∃ lB2, (applyEffect zb p (effectOf psB b1 p)).locals[p]? = some lB2 ∧ BIdle e lB2 ∧ lB2.active = false) := by
  rw [effectOf_at psA a1 p _ lA1 hdA hlA, effectOf_at psB b1 p _ lB1 hdB hlB, hc1]
  have hpA : p < za.locals.length := (List.getElem?_eq_some_iff.mp hzA).1
  have hpB : p < zb.locals.length := (List.getElem?_eq_some_iff.mp hzB).1
  rcases hq with ⟨h1, h2, h3, h4⟩ | ⟨h1, h2, h3⟩
  · -- both run
    simp only [h1, h2, if_true]
    have hvals : (if lB1.initial = true then (exprSigs e).map a1.curr.val else lB1.result) = (exprSigs e).map a1.curr.val := by
      rcases h4 with h | ⟨_, h⟩
      · simp [h]
      · rw [h]; simp
    have eA : (applyEffect za p (some ((combDef D (.assign (.sig out) e)).run { lA1 with runnable := false } a1.curr))).next =
        modAt za.next out (fun _ => combV D out e a1.curr) := by
      simp only [applyEffect, combDef]
      exact combA_next hout hwf _ _ hcur hn
    have eB : (applyEffect zb p (some ((userCombDef D.ctx (exprSigs e) out e).run { lB1 with runnable := false } a1.curr))).next =
        modAt za.next out (fun _ => combV D out e a1.curr) := by
      simp only [applyEffect, userCombDef, hvals, hm.next]
      exact combB_next hwf _ _
    obtain ⟨hv, hen⟩ := combV_val (e := e) hout a1.curr za.next hn
    refine ⟨⟨hm.curr, by rw [eA, eB], ?_, hm.now, hm.deltas, hm.obs, ?_, ?_⟩, by rw [eA]; exact hen, by rw [eA]; exact hv,
      ⟨_, applyEffect_at_self _ _ _ _ hzA⟩, ⟨_, applyEffect_at_self _ _ _ _ hzB, ?_, ?_⟩⟩
    · simp only [applyEffect, combDef, userCombDef, hm.timers]
    · simp only [applyEffect, List.length_set, hm.len]
    · intro r hr
      simp only [applyEffect, combDef, userCombDef]
      rw [List.getElem?_set_ne (Ne.symm hr), List.getElem?_set_ne (Ne.symm hr)]
      exact hm.off r hr
    · simp only [userCombDef, BIdle, List.length_replicate, List.length_map, and_self]
    · simp only [userCombDef]; exact h3
  · -- the user process waits; a run of the compiled process rewrites the pending value
    obtain ⟨hr, hi, hw, hl⟩ := h1
    simp only [hr, Bool.false_eq_true, if_false]
    have hid : modAt za.next out (fun _ => combV D out e a1.curr) = za.next := by
      apply modAt_id_of_val
      intro x hx
      rw [← h3, val_of_getElem? _ _ _ hx]
    by_cases hra : lA1.runnable = true
    · simp only [hra, if_true]
      have eA : (applyEffect za p (some ((combDef D (.assign (.sig out) e)).run { lA1 with runnable := false } a1.curr))).next = za.next := by
        simp only [applyEffect, combDef]
        rw [combA_next hout hwf _ _ hcur hn, hid]
      refine ⟨⟨hm.curr, by rw [eA]; exact hm.next, ?_, hm.now, hm.deltas, hm.obs, ?_, ?_⟩, by rw [eA]; exact hn,
        by rw [eA]; exact h3, ⟨_, applyEffect_at_self _ _ _ _ hzA⟩, ⟨lB1, hzB, ⟨hr, hi, hw, hl⟩, h2⟩⟩
      · simp only [applyEffect, combDef, hm.timers]
      · simp only [applyEffect, List.length_set, hm.len]
      · intro r hr'
        simp only [applyEffect, combDef]
        rw [List.getElem?_set_ne (Ne.symm hr')]
        exact hm.off r hr'
    · simp only [hra]
      exact ⟨hm, hn, h3, ⟨lA1, hzA⟩, ⟨lB1, hzB, ⟨hr, hi, hw, hl⟩, h2⟩⟩

end comb

end Amaranth.Engine
