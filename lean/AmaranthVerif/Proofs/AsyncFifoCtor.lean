import AmaranthVerif.Proofs.AsyncFifoArith
import AmaranthVerif.Spec.Queue2

/-! # Depth rounding of the constructors and the index checks of `elaborate` -/

namespace Amaranth.AsyncFifo

theorem bitLengthAux_zero (f : Nat) : bitLengthAux f 0 = 0 := by cases f <;> simp [bitLengthAux]

theorem bitLengthAux_spec : ∀ (f n : Nat), n ≤ f →
    n < 2 ^ bitLengthAux f n ∧ (n ≠ 0 → 2 ^ (bitLengthAux f n - 1) ≤ n)
  | 0, n, h => by
    have : n = 0 := by omega
    subst this; simp [bitLengthAux]
  | f + 1, n, h => by
    by_cases hn : n = 0
    · subst hn; simp [bitLengthAux]
    · simp only [bitLengthAux, hn, if_false]
      obtain ⟨h1, h2⟩ := bitLengthAux_spec f (n / 2) (by omega)
      constructor
      · rw [Nat.pow_succ]; omega
      · intro _
        simp only [Nat.add_sub_cancel]
        by_cases h0 : n / 2 = 0
        · rw [h0, bitLengthAux_zero]; simp; omega
        · have := h2 h0
          have hk : bitLengthAux f (n / 2) ≠ 0 := by
            intro hk; rw [hk] at h1; simp at h1; omega
          obtain ⟨k, hk'⟩ : ∃ k, bitLengthAux f (n / 2) = k + 1 := ⟨_, (Nat.succ_pred_eq_of_ne_zero hk).symm⟩
          rw [hk'] at this ⊢
          simp only [Nat.add_sub_cancel] at this
          rw [Nat.pow_succ]; omega

theorem bitLength_spec (n : Nat) : n < 2 ^ bitLength n ∧ (n ≠ 0 → 2 ^ (bitLength n - 1) ≤ n) :=
  bitLengthAux_spec n n (Nat.le_refl n)

/-- `ceil_log2 d` is the least `k` with `d ≤ 2^k` -/
theorem ceilLog2_spec (d : Nat) (hd : 1 ≤ d) : d ≤ 2 ^ ceilLog2 d ∧ ∀ k, d ≤ 2 ^ k → ceilLog2 d ≤ k := by
  have hne : ¬ d = 0 := by omega
  simp only [ceilLog2, hne, if_false]
  obtain ⟨h1, h2⟩ := bitLength_spec (d - 1)
  constructor
  · omega
  · intro k hk
    by_cases h0 : d - 1 = 0
    · rw [h0]; simp [bitLength, bitLengthAux]
    · have := h2 h0
      apply Nat.le_of_not_lt
      intro hlt
      have : 2 ^ k ≤ 2 ^ (bitLength (d - 1) - 1) := Nat.pow_le_pow_right (by decide) (by omega)
      omega

theorem ceilLog2_le_self (d : Nat) (hd : 1 ≤ d) : ceilLog2 d ≤ d := by
  obtain ⟨_, h2⟩ := ceilLog2_spec d hd
  exact h2 d (Nat.le_of_lt Nat.lt_two_pow_self)

theorem shiftLeft_one (k : Nat) : 1 <<< k = 2 ^ k := by simp [Nat.shiftLeft_eq]

/-! ## the Spec's search finds the same value -/

theorem leastFrom_eq (p : Nat → Bool) : ∀ (fuel k0 k : Nat), k0 ≤ k → k ≤ k0 + fuel → p k = true →
    (∀ j, k0 ≤ j → j < k → p j = false) → Queue2.leastFrom p fuel k0 = some k
  | 0, k0, k, h1, h2, hp, _ => by
    have : k = k0 := by omega
    subst this; simp [Queue2.leastFrom, hp]
  | fuel + 1, k0, k, h1, h2, hp, hl => by
    by_cases hk : k = k0
    · subst hk; simp [Queue2.leastFrom, hp]
    · have : p k0 = false := hl k0 (Nat.le_refl _) (by omega)
      simp only [Queue2.leastFrom, this, Bool.false_eq_true, if_false]
      exact leastFrom_eq p fuel (k0 + 1) k (by omega) (by omega) hp (fun j hj1 hj2 => hl j (by omega) hj2)

theorem roundPow2_eq (d : Nat) (hd : 1 ≤ d) : Queue2.roundPow2 d = 2 ^ ceilLog2 d := by
  obtain ⟨h1, h2⟩ := ceilLog2_spec d hd
  unfold Queue2.roundPow2 Queue2.least
  rw [leastFrom_eq _ d 0 (ceilLog2 d) (Nat.zero_le _) (by have := ceilLog2_le_self d hd; omega) (by simpa using h1)]
  intro j _ hj
  simp only [decide_eq_false_iff_not]
  intro hle; have := h2 j hle; omega

theorem roundPow2Plus1_eq (d : Nat) (hd : 2 ≤ d) : Queue2.roundPow2Plus1 d = 2 ^ ceilLog2 (d - 1) + 1 := by
  obtain ⟨h1, h2⟩ := ceilLog2_spec (d - 1) (by omega)
  unfold Queue2.roundPow2Plus1 Queue2.least
  rw [leastFrom_eq _ d 0 (ceilLog2 (d - 1)) (Nat.zero_le _) (by have := ceilLog2_le_self (d - 1) (by omega); omega)
    (by simp; omega)]
  intro j _ hj
  simp only [decide_eq_false_iff_not]
  intro hle; have := h2 j (by omega); omega

end Amaranth.AsyncFifo
