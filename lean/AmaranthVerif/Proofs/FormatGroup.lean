import AmaranthVerif.Proofs.FormatNum

/-!
# Grouped digits: dropping the separators gives back zeros and the digits
-/

namespace Amaranth
namespace Fmt

theorem filter_ne_of_not_mem (sep : Char) (l : List Char) (h : sep ∉ l) :
    l.filter (fun c => c != sep) = l := by
  rw [List.filter_eq_self]
  intro a ha
  simp only [bne_iff_ne, ne_eq]
  intro hc; subst hc; exact h ha

theorem not_mem_take {sep : Char} {l : List Char} (h : sep ∉ l) (n : Nat) : sep ∉ l.take n :=
  fun hm => h (List.mem_of_mem_take hm)

theorem not_mem_drop {sep : Char} {l : List Char} (h : sep ∉ l) (n : Nat) : sep ∉ l.drop n :=
  fun hm => h (List.mem_of_mem_drop hm)

theorem filter_zeros (sep : Char) (hs : sep ≠ '0') (n : Nat) :
    (List.replicate n '0').filter (fun c => c != sep) = List.replicate n '0' := by
  apply filter_ne_of_not_mem
  intro hm
  exact hs (List.eq_of_mem_replicate hm)

/-- least significant first: the digits, then zeros -/
theorem groupRev_filter (g : Nat) (hg : 1 ≤ g) (sep : Char) (hs : sep ≠ '0') :
    ∀ (fuel : Nat) (ds : List Char) (minW : Nat) (useSep : Bool),
      sep ∉ ds → ds.length + minW + 1 ≤ fuel + 1 → 0 < fuel →
      ∃ z, (groupRev g sep fuel ds minW useSep).filter (fun c => c != sep) = ds ++ List.replicate z '0' := by
  intro fuel
  induction fuel with
  | zero => intro ds minW useSep _ _ h0; omega
  | succ f ih =>
    intro ds minW useSep hmem hfuel _
    simp only [groupRev]
    have hsepf : (if useSep = true then [sep] else []).filter (fun c => c != sep) = [] := by
      cases useSep <;> simp
    by_cases hstop : ((ds.drop (min ds.length (min g (max (max ds.length minW) 1)))).isEmpty &&
        (minW - min g (max (max ds.length minW) 1) == 0)) = true
    · simp only [hstop, if_true]
      simp only [Bool.and_eq_true, List.isEmpty_iff, beq_iff_eq] at hstop
      refine ⟨min g (max (max ds.length minW) 1) - ds.length, ?_⟩
      rw [List.filter_append, List.filter_append, hsepf, filter_ne_of_not_mem _ _ (not_mem_take hmem _),
          filter_zeros sep hs]
      have : ds.take (min ds.length (min g (max (max ds.length minW) 1))) = ds := by
        have h := List.take_append_drop (min ds.length (min g (max (max ds.length minW) 1))) ds
        rw [hstop.1, List.append_nil] at h
        exact h
      rw [this]; rfl
    · simp only [hstop, Bool.false_eq_true, if_false]
      simp only [Bool.and_eq_true, List.isEmpty_iff, beq_iff_eq, not_and] at hstop
      -- enough fuel for the rest
      have hlen : (ds.drop (min ds.length (min g (max (max ds.length minW) 1)))).length =
          ds.length - min ds.length (min g (max (max ds.length minW) 1)) := List.length_drop
      have hf : 0 < f := by
        by_cases hd : ds.drop (min ds.length (min g (max (max ds.length minW) 1))) = []
        · have := hstop hd
          omega
        · have : 0 < (ds.drop (min ds.length (min g (max (max ds.length minW) 1)))).length :=
            List.length_pos_iff.mpr hd
          omega
      have hfu : (ds.drop (min ds.length (min g (max (max ds.length minW) 1)))).length +
          (minW - min g (max (max ds.length minW) 1) - 1) + 1 ≤ f + 1 := by
        by_cases hd : ds.drop (min ds.length (min g (max (max ds.length minW) 1))) = []
        · have := hstop hd
          rw [hlen]; omega
        · have : 0 < (ds.drop (min ds.length (min g (max (max ds.length minW) 1)))).length :=
            List.length_pos_iff.mpr hd
          rw [hlen] at this ⊢; omega
      obtain ⟨z, hz⟩ := ih (ds.drop (min ds.length (min g (max (max ds.length minW) 1))))
        (minW - min g (max (max ds.length minW) 1) - 1) true (not_mem_drop hmem _) hfu hf
      refine ⟨(min g (max (max ds.length minW) 1) - ds.length) + z, ?_⟩
      rw [List.filter_append, List.filter_append, List.filter_append, hsepf,
          filter_ne_of_not_mem _ _ (not_mem_take hmem _), filter_zeros sep hs, hz]
      by_cases hz0 : min g (max (max ds.length minW) 1) - ds.length = 0
      · rw [hz0]
        simp only [List.nil_append, List.replicate_zero, List.append_nil, Nat.zero_add]
        rw [← List.append_assoc, List.take_append_drop]
      · have hall : min ds.length (min g (max (max ds.length minW) 1)) = ds.length := by omega
        rw [hall, List.take_length, List.drop_length]
        simp only [List.nil_append, List.append_assoc, List.replicate_append_replicate]

/-- dropping the separators of grouped digits leaves zeros followed by the digits -/
theorem groupDigits_filter (g : Nat) (hg : 1 ≤ g) (sep : Char) (hs : sep ≠ '0') (minW : Nat) (ds : List Char)
    (hmem : sep ∉ ds) :
    ∃ z, (groupDigits g sep minW ds).filter (fun c => c != sep) = List.replicate z '0' ++ ds := by
  unfold groupDigits
  obtain ⟨z, hz⟩ := groupRev_filter g hg sep hs (ds.length + minW + 1) ds.reverse minW false
    (by simpa using hmem) (by simp) (by omega)
  refine ⟨z, ?_⟩
  rw [List.filter_reverse, hz]
  simp

/-- every character of a digit string is a digit character -/
theorem digitsRev_mem (b : Nat) (hb1 : 1 ≤ b) (hb16 : b ≤ 16) (h : Char → Char) :
    ∀ (fuel n : Nat) (c : Char), c ∈ (digitsRev b fuel n).map h → ∃ d : Fin 16, c = h (digitChar d.val) := by
  intro fuel
  induction fuel with
  | zero => intro n c hc; simp [digitsRev] at hc
  | succ f ih =>
    intro n c hc
    simp only [digitsRev, List.map_cons, List.mem_cons] at hc
    rcases hc with rfl | hc
    · exact ⟨⟨n % b, Nat.lt_of_lt_of_le (Nat.mod_lt _ (by omega)) hb16⟩, rfl⟩
    · by_cases hz : n / b = 0
      · simp [hz] at hc
      · simp only [hz, if_false] at hc
        exact ih (n / b) c hc

theorem digitChar_not_sep : ∀ d : Fin 16, digitChar d.val ≠ '_' ∧ digitChar d.val ≠ ',' ∧
    (digitChar d.val).toUpper ≠ '_' ∧ (digitChar d.val).toUpper ≠ ',' := by decide

theorem sep_not_in_digitStr (sp : Spec) (v : Int) (g : Grp) : g.char ∉ sp.digitStr v := by
  obtain ⟨h2, h16⟩ := sp.base_bounds
  unfold Spec.digitStr digits
  intro hm
  by_cases hu : sp.upper = true
  · simp only [hu, if_true] at hm
    rw [List.map_reverse, List.mem_reverse] at hm
    obtain ⟨d, hd⟩ := digitsRev_mem sp.base (by omega) h16 Char.toUpper _ _ _ hm
    have := digitChar_not_sep d
    cases g
    · exact this.2.2.1 hd.symm
    · exact this.2.2.2 hd.symm
  · simp only [hu, Bool.false_eq_true, if_false, List.mem_reverse] at hm
    have hm' : g.char ∈ (digitsRev sp.base (v.natAbs + 1) v.natAbs).map id := by simpa using hm
    obtain ⟨d, hd⟩ := digitsRev_mem sp.base (by omega) h16 id _ _ _ hm'
    have := digitChar_not_sep d
    cases g
    · exact this.1 hd.symm
    · exact this.2.1 hd.symm

theorem Spec.groupSize_pos (sp : Spec) : 1 ≤ sp.groupSize := by
  unfold Spec.groupSize; split <;> omega

/-- with grouping: dropping the separators, the digit part reads back as `|v|` -/
theorem body_grouped_value (sp : Spec) (v : Int) (g : Grp) (hg : sp.group = some g) :
    ofDigits sp.base ((sp.body v).filter (fun c => c != g.char)) = v.natAbs := by
  unfold Spec.body
  simp only [hg]
  obtain ⟨z, hz⟩ := groupDigits_filter sp.groupSize sp.groupSize_pos g.char (by cases g <;> decide)
    (sp.minDigits (sp.signStr (decide (v < 0))) sp.pfx) (sp.digitStr v) (sep_not_in_digitStr sp v g)
  rw [hz, ofDigits_zeros, digitStr_value]

end Fmt
end Amaranth
