import AmaranthVerif.Proofs.EmitBackend2
import AmaranthVerif.Proofs.Exact
import AmaranthVerif.Proofs.IntBits

/-!
# `emit_rhs`: the emitted cells compute `evalRtl` (helper lemmas for `C04.emit_expr_correct`), part 1

The invariant `ResSound`, leaves, unary operators, slices and concatenations.
-/

namespace Amaranth.Rtlil
open Amaranth

/-- the signals' wires hold the signals' values (as bit patterns of their shapes) -/
def SigEnv (ctx : Amaranth.Ctx) (env : Amaranth.Env) (renv : Env) : Prop :=
  ∀ i, i < ctx.length →
    ((renv.getD (sigName i) 0 % 2 ^ (ctx.shape i).width : Nat) : Int) = mask (ctx.shape i).width (env.val i)

theorem SigEnv.frame {ctx : Amaranth.Ctx} {env : Amaranth.Env} {renv renv' : Env} {k : Nat} (h : SigEnv ctx env renv)
    (hf : Frame k renv renv') : SigEnv ctx env renv' :=
  fun i hi => by rw [hf _ (oldName_sig i k)]; exact h i hi

/-- what `emit_rhs` of `e`, started with name counter `k` in the environment `renv`, guarantees -/
structure ResSound (c : Ctx) (m : Mems) (ctx : Amaranth.Ctx) (env : Amaranth.Env) (e : Expr) (k : Nat) (renv : Env)
    (r : Res) : Prop where
  next_le : k ≤ r.next
  old : r.val.old r.next
  len : r.val.length = widthOf ctx e
  sgn : r.signed = (shapeOf ctx e).signed
  run : ∃ renv', evalNodes c m r.nodes renv = .ok renv' ∧ Frame k renv renv' ∧
    (valOf renv' r.val : Int) = mask (widthOf ctx e) (evalRtl ctx env e)

/-- the statement proved by induction over the expression -/
def EmitsOk (c : Ctx) (m : Mems) (ctx : Amaranth.Ctx) (env : Amaranth.Env) (e : Expr) : Prop :=
  ∀ k renv, SigEnv ctx env renv → WidthsOk c (emitE ctx e k).wires → ResSound c m ctx env e k renv (emitE ctx e k)

/-! ## readings -/

theorem toInt_mask (s : Bool) (w : Nat) (x : Int) (hwf : s = true → 0 < w) :
    toInt s w (x % 2 ^ w).toNat = norm ⟨w, s⟩ x := by
  have h0 : 0 ≤ x % 2 ^ w := Int.emod_nonneg _ (by positivity)
  have hc : ((x % 2 ^ w).toNat : Int) = x % 2 ^ w := Int.toNat_of_nonneg h0
  unfold toInt norm mask
  cases s with
  | false => simp [hc]
  | true =>
    have hw := hwf rfl
    simp only [Bool.true_and, hw, decide_true, Bool.and_true, if_true, hc]
    by_cases h : 2 ^ (w - 1) ≤ (x % 2 ^ w).toNat
    · have h' : (2 : Int) ^ (w - 1) ≤ x % 2 ^ w := by rw [← hc]; exact_mod_cast h
      simp [h, h']
    · have h' : ¬ (2 : Int) ^ (w - 1) ≤ x % 2 ^ w := by
        intro hh; apply h
        have : ((2 ^ (w - 1) : Nat) : Int) ≤ ((x % 2 ^ w).toNat : Int) := by rw [hc]; exact_mod_cast hh
        exact_mod_cast this
      simp [h, h']

/-- from the invariant: the signed reading of the nets is the normalised value of the expression -/
theorem sval_of_inv (renv : Env) (v : Val) (s : Bool) (w : Nat) (raw : Int) (hl : v.length = w) (hwf : s = true → 0 < w)
    (hv : (valOf renv v : Int) = mask w raw) : sval s renv v = norm ⟨w, s⟩ raw := by
  unfold sval
  rw [hl, ← toInt_mask s w raw hwf]
  congr 1
  unfold mask at hv
  omega

theorem ne_nil_of_len {v : Val} {w : Nat} (hl : v.length = w) (h : 0 < w) : v ≠ [] := by
  intro e; subst e; simp at hl; omega

/-! ## composing runs -/

/-- one more cell emission after already emitted operands -/
theorem after_run (c : Ctx) (m : Mems) {k k' : Nat} {renv renv1 : Env} {nodes : List Node} {em : Emitted} {P : Nat → Prop}
    (h1 : evalNodes c m nodes renv = .ok renv1) (f1 : Frame k renv renv1) (hk : k ≤ k') (hs : EmSound c m k' renv1 em P) :
    k ≤ em.next ∧ em.val.old em.next ∧
      ∃ renv2, evalNodes c m (nodes ++ em.nodes) renv = .ok renv2 ∧ Frame k renv renv2 ∧ P (valOf renv2 em.val) := by
  obtain ⟨renv2, r2, f2, p2⟩ := hs.run
  exact ⟨le_trans hk hs.next_le, hs.old, renv2, evalNodes_append_ok c m h1 r2, f1.trans f2 hk, p2⟩

/-! ## leaves -/

section
variable (c : Ctx) (m : Mems) (ctx : Amaranth.Ctx) (env : Amaranth.Env)

theorem emitsOk_const (v : Int) (s : Shape) : EmitsOk c m ctx env (.const v s) := by
  intro k renv _ _
  refine ⟨Nat.le_refl k, old_constBits _ _ _, constBits_length _ _, rfl, renv, rfl, Frame.refl _ _, ?_⟩
  exact valOf_constBits renv s.width v

theorem emitsOk_sig (i : Nat) (hi : i < ctx.length) : EmitsOk c m ctx env (.sig i) := by
  intro k renv hs _
  refine ⟨Nat.le_refl k, old_wireBits (oldName_sig i k) _ _, wireBits_length _ _ _, rfl, renv, rfl, Frame.refl _ _, ?_⟩
  show ((valOf renv (wireBits (sigName i) 0 (ctx.shape i).width) : Nat) : Int) = _
  rw [valOf_wireBits, Nat.pow_zero, Nat.div_one]
  exact hs i hi

/-! ## slices and concatenations -/

theorem emitsOk_slice (a : Expr) (start stop : Nat) (h1 : start ≤ stop) (h2 : stop ≤ widthOf ctx a)
    (iha : EmitsOk c m ctx env a) : EmitsOk c m ctx env (.slice a start stop) := by
  intro k renv hs hw
  have ra := iha k renv hs hw
  obtain ⟨renv1, r1, f1, v1⟩ := ra.run
  refine ⟨ra.next_le, old_take (old_drop ra.old _) _, ?_, rfl, renv1, r1, f1, ?_⟩
  · show ((emitE ctx a k).val.drop start |>.take (stop - start)).length = stop - start
    rw [List.length_take, List.length_drop, ra.len]; omega
  · show ((valOf renv1 (((emitE ctx a k).val.drop start).take (stop - start)) : Nat) : Int) = _
    rw [valOf_take, valOf_drop]
    push_cast
    rw [v1]
    have e1 : evalRtl ctx env (.slice a start stop) = mask (stop - start) (pyShr (evalRtl ctx env a) start) := rfl
    have e2 : widthOf ctx (.slice a start stop) = stop - start := rfl
    rw [e1, e2, mask_mask]
    unfold mask pyShr
    exact slice_congr (emod_emod_pow _ _) (by omega)

theorem emitsOk_cat (lo hi : Expr) (ihl : EmitsOk c m ctx env lo) (ihh : EmitsOk c m ctx env hi) :
    EmitsOk c m ctx env (.cat lo hi) := by
  intro k renv hs hw
  have hw' : WidthsOk c ((emitE ctx lo k).wires ++ (emitE ctx hi (emitE ctx lo k).next).wires) := hw
  have rl := ihl k renv hs hw'.left
  obtain ⟨renv1, r1, f1, v1⟩ := rl.run
  have rh := ihh (emitE ctx lo k).next renv1 (hs.frame f1) hw'.right
  obtain ⟨renv2, r2, f2, v2⟩ := rh.run
  have vl2 : valOf renv2 (emitE ctx lo k).val = valOf renv1 (emitE ctx lo k).val := valOf_frame f2 rl.old
  refine ⟨le_trans rl.next_le rh.next_le, old_append (rl.old.mono rh.next_le) rh.old, ?_, rfl, renv2,
    evalNodes_append_ok c m r1 r2, f1.trans f2 rl.next_le, ?_⟩
  · show ((emitE ctx lo k).val ++ (emitE ctx hi (emitE ctx lo k).next).val).length = _
    rw [List.length_append, rl.len, rh.len]; rfl
  · show ((valOf renv2 ((emitE ctx lo k).val ++ (emitE ctx hi (emitE ctx lo k).next).val) : Nat) : Int) = _
    rw [valOf_append, vl2, rl.len]
    push_cast
    rw [v1, v2]
    show _ = mask (widthOf ctx lo + widthOf ctx hi) (pyOr (pyShl (mask (widthOf ctx lo) (evalRtl ctx env lo)) 0)
      (pyShl (mask (widthOf ctx hi) (evalRtl ctx env hi)) (widthOf ctx lo)))
    rw [cat_value]
    have b := cat_lt _ _ (widthOf ctx lo) (widthOf ctx hi) (mask_nonneg _ (evalRtl ctx env lo)) (mask_lt _ _)
      (mask_nonneg _ (evalRtl ctx env hi)) (mask_lt _ _)
    exact (mask_of_range b.1 b.2).symm

end

end Amaranth.Rtlil
