import AmaranthVerif.Proofs.EngineEquivAsync3

/-!
# `arst` + `sync` against a placeholder + `userSync`: the commit, one delta, whole runs
-/

namespace Amaranth.Engine
open Amaranth

theorem commitSlot_midP_at {P : Nat → Prop} {psA psB : List ProcDef} (hps : SameOffP P psA psB) {a b : EState}
    (h : MidP P a b) (i : Nat) : MidP P (commitSlot psA a i) (commitSlot psB b i) := commitSlot_midP hps h i

section
variable {D : Design} {pre post : List ProcKind} {scripts : List (List TbOp)} {d out r : Nat} {e : Expr}

theorem async_commitSlot (HA : AsyncHyp D d out r) (za zb : EState) (i : Nat) (hm : MidP (PP pre) za zb)
    (hcur : EnvN D.ctx za.curr) (hn : EnvN D.ctx za.next) (lR lS lB : Local)
    (hlR : za.locals[pre.length]? = some lR) (hlS : za.locals[pre.length + 1]? = some lS)
    (hlB : zb.locals[pre.length + 1]? = some lB)
    (hc : AC D d r e lR lS lB za.curr za.next) :
    MidP (PP pre) (commitSlot (simDefs D (asyncKindsA pre post d out e) scripts) za i)
      (commitSlot (simDefs D (asyncKindsB pre post d out e) scripts) zb i) ∧
    EnvN D.ctx (commitSlot (simDefs D (asyncKindsA pre post d out e) scripts) za i).curr ∧
    ∃ lR' lS' lB', (commitSlot (simDefs D (asyncKindsA pre post d out e) scripts) za i).locals[pre.length]? = some lR' ∧
      (commitSlot (simDefs D (asyncKindsA pre post d out e) scripts) za i).locals[pre.length + 1]? = some lS' ∧
      (commitSlot (simDefs D (asyncKindsB pre post d out e) scripts) zb i).locals[pre.length + 1]? = some lB' ∧
      AC D d r e lR' lS' lB' (commitSlot (simDefs D (asyncKindsA pre post d out e) scripts) za i).curr za.next := by
  have hps := async_sameOff D pre post scripts d out e
  refine ⟨commitSlot_midP hps hm i, ?_, ?_⟩
  · by_cases hi : za.curr.val i = za.next.val i
    · rw [commitSlot_of_eq _ za i hi]; exact hcur
    · rw [commitSlot_of_ne _ za i hi]
      show EnvN D.ctx (za.curr.put i (za.next.val i))
      exact hcur.put i _ (fun hlt => (hn.ok i hlt).2)
  · have eR := commitSlot_at _ za i pre.length _ lR (async_atR D pre post scripts d out e) hlR
    have eS := commitSlot_at _ za i (pre.length + 1) _ lS (async_atS D pre post scripts d out e) hlS
    have eB := commitSlot_at _ zb i (pre.length + 1) _ lB (async_atB D pre post scripts d out e) hlB
    rw [hm.curr, hm.next] at eB
    by_cases hi : za.curr.val i = za.next.val i
    · simp only [hi, if_true] at eR eS eB
      refine ⟨lR, lS, lB, eR, eS, eB, ?_⟩
      rw [commitSlot_of_eq _ za i hi]; exact hc
    · simp only [hi, if_false] at eR eS eB
      refine ⟨_, _, _, eR, eS, eB, ?_⟩
      obtain ⟨⟨hr, hini, hw, hl⟩, hact, hh0, hh1, hone⟩ := hc
      obtain ⟨w1, w2, w3, w4, w5, w6, w7⟩ := tickWake_async_spec (D.doms.getD d default) r HA.async HA.rst
        ((exprSigs e).map .sig) lB hw hl i (za.curr.val i) (za.next.val i)
      -- the wake conditions coincide
      have hc0 : ((D.doms.getD d default).clk == i && bitOf (za.curr.val i) 0 != bitOf (za.next.val i) 0 &&
            bitOf (za.next.val i) 0 == (D.doms.getD d default).posedge) =
          (i == (D.doms.getD d default).clk && za.next.val i == (if (D.doms.getD d default).posedge then 1 else 0)) := by
        by_cases hic : i = (D.doms.getD d default).clk
        · subst hic
          simp only [beq_self_eq_true, Bool.true_and]
          have := edge_cond (za.curr.val _) (za.next.val _) (bit_of_u1 hcur _ HA.clkLt HA.clk1) (bit_of_u1 hn _ HA.clkLt HA.clk1)
            hi (D.doms.getD d default).posedge
          simpa using this
        · have h1 : ((D.doms.getD d default).clk == i) = false := by simpa using fun h => hic h.symm
          have h2 : (i == (D.doms.getD d default).clk) = false := by simpa using hic
          simp only [h1, h2, Bool.false_and]
      have hc1 : (r == i && bitOf (za.curr.val i) 0 != bitOf (za.next.val i) 0 && bitOf (za.next.val i) 0 == true) =
          (i == r && za.next.val i == 1) := by
        by_cases hic : i = r
        · subst hic
          simp only [beq_self_eq_true, Bool.true_and]
          have := edge_cond (za.curr.val _) (za.next.val _) (bit_of_u1 hcur _ HA.rstLt HA.rst1) (bit_of_u1 hn _ HA.rstLt HA.rst1)
            hi true
          simpa using this
        · have h1 : (r == i) = false := by simpa using fun h => hic h.symm
          have h2 : (i == r) = false := by simpa using hic
          simp only [h1, h2, Bool.false_and]
      have hSr : ((syncDef D d (.assign (.sig out) e)).wake lS i (za.curr.val i) (za.next.val i)).runnable =
          (lS.runnable || (i == (D.doms.getD d default).clk &&
            za.next.val i == (if (D.doms.getD d default).posedge then 1 else 0))) := by
        by_cases hcc : (i == (D.doms.getD d default).clk &&
            za.next.val i == (if (D.doms.getD d default).posedge then 1 else 0)) = true
        · simp only [syncDef, hcc, if_true, Bool.or_true]
        · simp only [syncDef, hcc, Bool.false_eq_true, if_false]
          rw [Bool.or_false]
      have hRr : ((arstDef D d (.assign (.sig out) e)).wake lR i (za.curr.val i) (za.next.val i)).runnable =
          (lR.runnable || (i == r && za.next.val i == 1)) := by
        have hrst : (some i == (D.doms.getD d default).rst) = (i == r) := by
          rw [HA.rst]
          by_cases hir : i = r
          · subst hir; simp
          · have : (i == r) = false := by simpa using hir
            rw [this]; simpa using hir
        by_cases hcc : (i == r && za.next.val i == 1) = true
        · simp only [arstDef, hrst, hcc, if_true, Bool.or_true]
        · simp only [arstDef, hrst, hcc, Bool.false_eq_true, if_false]
          rw [Bool.or_false]
      refine ⟨⟨w1.trans hr, w2.trans hini, w3, w4⟩, ?_, ?_, ?_, ?_⟩
      · show ((syncDefB D d out e).wake lB i _ _).active = _
        rw [hSr, hRr]
        refine w5.trans ?_
        rw [hc0, hc1, hact]
        cases lS.runnable <;> cases lR.runnable <;>
          cases (i == (D.doms.getD d default).clk && za.next.val i == (if (D.doms.getD d default).posedge then 1 else 0)) <;>
          cases (i == r && za.next.val i == 1) <;> rfl
      · show ((syncDefB D d out e).wake lB i _ _).hits[0]? = _
        rw [hSr]
        exact (w6 _ hh0).trans (by rw [hc0])
      · show ((syncDefB D d out e).wake lB i _ _).hits[1]? = _
        rw [hRr]
        exact (w7 _ hh1).trans (by rw [hc1])
      · intro hrun
        rw [hRr] at hrun
        rw [commitSlot_of_ne _ za i hi]
        show Env.val (za.curr.set i (za.next.val i)) r = 1 ∧ Env.val (za.curr.set i (za.next.val i)) r = za.next.val r
        by_cases hold : lR.runnable = true
        · obtain ⟨h1, h2⟩ := hone hold
          have hir : i ≠ r := fun h => by subst h; exact hi h2
          rw [val_set_ne _ _ _ _ hir]
          exact ⟨h1, h2⟩
        · have hold' : lR.runnable = false := by simpa using hold
          rw [hold', Bool.false_or] at hrun
          simp only [Bool.and_eq_true, beq_iff_eq] at hrun
          obtain ⟨hir, hn1⟩ := hrun
          subst hir
          rw [val_set_self _ _ _ (by rw [hcur.len]; exact HA.rstLt)]
          exact ⟨hn1, rfl⟩

theorem async_commit (HA : AsyncHyp D d out r) (order : List Nat) : ∀ (za zb : EState), MidP (PP pre) za zb →
    EnvN D.ctx za.curr → EnvN D.ctx za.next → ∀ (lR lS lB : Local),
    za.locals[pre.length]? = some lR → za.locals[pre.length + 1]? = some lS →
    zb.locals[pre.length + 1]? = some lB → AC D d r e lR lS lB za.curr za.next →
    MidP (PP pre) (commit (simDefs D (asyncKindsA pre post d out e) scripts) order za)
      (commit (simDefs D (asyncKindsB pre post d out e) scripts) order zb) ∧
    EnvN D.ctx (commit (simDefs D (asyncKindsA pre post d out e) scripts) order za).curr ∧
    (commit (simDefs D (asyncKindsA pre post d out e) scripts) order za).next = za.next ∧
    ∃ lR' lS' lB', (commit (simDefs D (asyncKindsA pre post d out e) scripts) order za).locals[pre.length]? = some lR' ∧
      (commit (simDefs D (asyncKindsA pre post d out e) scripts) order za).locals[pre.length + 1]? = some lS' ∧
      (commit (simDefs D (asyncKindsB pre post d out e) scripts) order zb).locals[pre.length + 1]? = some lB' ∧
      AC D d r e lR' lS' lB' (commit (simDefs D (asyncKindsA pre post d out e) scripts) order za).curr za.next := by
  unfold commit
  induction order with
  | nil => intro za zb hm hc _ lR lS lB h1 h2 h3 h4; exact ⟨hm, hc, rfl, lR, lS, lB, h1, h2, h3, h4⟩
  | cons i rest ih =>
    intro za zb hm hc hn lR lS lB h1 h2 h3 h4
    simp only [List.foldl_cons]
    obtain ⟨m1, c1, lR', lS', lB', a1, a2, b1, q1⟩ := async_commitSlot (pre := pre) (post := post) (scripts := scripts)
      HA za zb i hm hc hn lR lS lB h1 h2 h3 h4
    have hnx : (commitSlot (simDefs D (asyncKindsA pre post d out e) scripts) za i).next = za.next := commitSlot_next _ _ _
    have hn1 : EnvN D.ctx (commitSlot (simDefs D (asyncKindsA pre post d out e) scripts) za i).next := by
      rw [hnx]; exact hn
    obtain ⟨r1, r2, r3, lR2, lS2, lB2, r4, r5, r6, r7⟩ := ih _ _ m1 c1 hn1 lR' lS' lB' a1 a2 b1 (by rw [hnx]; exact q1)
    exact ⟨r1, r2, by rw [r3, hnx], lR2, lS2, lB2, r4, r5, r6, by rw [hnx] at r7; exact r7⟩

/-- the two simulations, state by state -/
def AsyncRel (D : Design) (pre : List ProcKind) (d r : Nat) (e : Expr) (a b : EState) : Prop :=
  MidP (PP pre) a b ∧ ∃ lR lS lD lB, a.locals[pre.length]? = some lR ∧ a.locals[pre.length + 1]? = some lS ∧
    b.locals[pre.length]? = some lD ∧ b.locals[pre.length + 1]? = some lB ∧ AQ D d r e lR lS lB a.curr a.next

theorem commit_midP_locals {P : Nat → Prop} {psA psB : List ProcDef} (hps : SameOffP P psA psB) (order : List Nat) :
    ∀ (a b : EState), MidP P a b → MidP P (commit psA order a) (commit psB order b) := by
  unfold commit
  induction order with
  | nil => intro a b h; exact h
  | cons i rest ih => intro a b h; exact ih _ _ (commitSlot_midP hps h i)

theorem async_delta (H : ReplHyp D pre post out) (HA : AsyncHyp D d out r) (hwf : e.wf D.ctx = true) (o : Orders)
    (hnd : o.procs.Nodup) (hp : pre.length ∈ o.procs) (hp1 : pre.length + 1 ∈ o.procs) (a b : EState)
    (hr : AsyncRel D pre d r e a b) :
    AsyncRel D pre d r e (delta (simDefs D (asyncKindsA pre post d out e) scripts) o a).1
      (delta (simDefs D (asyncKindsB pre post d out e) scripts) o b).1 ∧
    (delta (simDefs D (asyncKindsB pre post d out e) scripts) o b).2 =
      (delta (simDefs D (asyncKindsA pre post d out e) scripts) o a).2 := by
  obtain ⟨hm, lR, lS, lD, lB, hlR, hlS, hlD, hlB, hq⟩ := hr
  have hps := async_sameOff D pre post scripts d out e
  have hcur := hq.1
  have hn := hq.2.1
  have m1 := trigPhase_midP hps hm
  have tR := trigPhase_at _ a pre.length _ lR (async_atR D pre post scripts d out e) hlR
  have tS := trigPhase_at _ a (pre.length + 1) _ lS (async_atS D pre post scripts d out e) hlS
  have tD := trigPhase_at _ b pre.length _ lD (async_atD D pre post scripts d out e) hlD
  have tB := trigPhase_at _ b (pre.length + 1) _ lB (async_atB D pre post scripts d out e) hlB
  rw [hm.curr] at tB
  have q1 := async_trig HA lR lS lB a.curr a.next hq
  obtain ⟨m2, n2, ⟨lR2, hR2, hrR⟩, ⟨lS2, hS2, hrS⟩, ⟨lB2, hB2, hidle, hact, hh0, hh1⟩⟩ :=
    async_run (scripts := scripts) H HA hwf _ _ m1 hcur hn _ _ _ _ tR tS tD tB q1 o.procs hnd hp hp1
  have c2 : (runProcs (simDefs D (asyncKindsA pre post d out e) scripts) o.procs
      (trigPhase (simDefs D (asyncKindsA pre post d out e) scripts) a)).curr = a.curr := by
    rw [runProcs_curr, trigPhase_curr]
  have hc2 : AC D d r e lR2 lS2 lB2
      (runProcs (simDefs D (asyncKindsA pre post d out e) scripts) o.procs
        (trigPhase (simDefs D (asyncKindsA pre post d out e) scripts) a)).curr
      (runProcs (simDefs D (asyncKindsA pre post d out e) scripts) o.procs
        (trigPhase (simDefs D (asyncKindsA pre post d out e) scripts) a)).next := by
    refine ⟨hidle, ?_, ?_, ?_, ?_⟩
    · rw [hact, hrS, hrR]; rfl
    · rw [hh0, hrS]
    · rw [hh1, hrR]
    · intro h; rw [hrR] at h; cases h
  obtain ⟨m3, cu3, nx3, lR3, lS3, lB3, hR3, hS3, hB3, ⟨hidle3, hact3, hh03, hh13, hone3⟩⟩ :=
    async_commit (pre := pre) (post := post) (scripts := scripts) HA o.slots _ _ m2
      (by rw [c2]; exact hcur) n2 lR2 lS2 lB2 hR2 hS2 hB2 hc2
  -- the placeholder is still there
  have hD3 : ∃ lD3, (commit (simDefs D (asyncKindsB pre post d out e) scripts) o.slots
      (runProcs (simDefs D (asyncKindsB pre post d out e) scripts) o.procs
        (trigPhase (simDefs D (asyncKindsB pre post d out e) scripts) b))).locals[pre.length]? = some lD3 := by
    have hlen : pre.length < (commit (simDefs D (asyncKindsB pre post d out e) scripts) o.slots
        (runProcs (simDefs D (asyncKindsB pre post d out e) scripts) o.procs
          (trigPhase (simDefs D (asyncKindsB pre post d out e) scripts) b))).locals.length := by
      rw [m3.len]
      exact (List.getElem?_eq_some_iff.mp hR3).1
    exact ⟨_, List.getElem?_eq_getElem hlen⟩
  obtain ⟨lD3, hD3⟩ := hD3
  unfold delta
  refine ⟨⟨⟨m3.curr, m3.next, m3.timers, m3.now, by simp only [m3.deltas], m3.obs, m3.len, m3.off⟩,
    lR3, lS3, lD3, lB3, hR3, hS3, hD3, hB3, cu3, by rw [nx3]; exact n2, ?_⟩, ?_⟩
  · exact Or.inr ⟨hidle3, hact3, hh03, hh13, fun h => (hone3 h).1⟩
  · simp only [anyChange_midP hps m2]

theorem async_settle (H : ReplHyp D pre post out) (HA : AsyncHyp D d out r) (hwf : e.wf D.ctx = true) (sched : Sched)
    (hnd : SchedNodup sched) (hl : ∀ k, pre.length ∈ (sched k).procs ∧ pre.length + 1 ∈ (sched k).procs)
    (fuel : Nat) (a b : EState) (hr : AsyncRel D pre d r e a b) :
    AsyncRel D pre d r e (settle (simDefs D (asyncKindsA pre post d out e) scripts) sched fuel a).1
      (settle (simDefs D (asyncKindsB pre post d out e) scripts) sched fuel b).1 := by
  induction fuel generalizing a b with
  | zero => exact hr
  | succ n ih =>
    simp only [settle]
    rw [hr.1.deltas]
    obtain ⟨h1, h2⟩ := async_delta (scripts := scripts) H HA hwf (sched a.deltas) (hnd _) (hl _).1 (hl _).2 a b hr
    rw [h2]
    split
    · exact h1
    · exact ih _ _ h1

end

end Amaranth.Engine
