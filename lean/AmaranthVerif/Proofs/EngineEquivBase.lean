import AmaranthVerif.Proofs.EngineOrder
import AmaranthVerif.Proofs.ProcessSpec

/-!
# A circuit and the process that replaces it: what one run writes

The compiled process of `out := e` (`m.d.comb += out.eq(e)` / `m.d.<domain> += out.eq(e)`) performs
`slots[out].update(next_out, mask)` with the static mask of the whole signal; the documented process
forms perform `ctx.set(out, value)`, i.e. `update(value, -1)`. On a pending value that lies in the
signal's shape the two leave the same value: `norm (shape out) (e evaluated on the current values)`.
The compiled evaluator and the testbench evaluator agree on well-formed expressions over values that
lie in their shapes (`sound`, `tb_exact_aux` — C01/C05).
-/

namespace Amaranth.Engine
open Amaranth

/-! ## Bits -/

theorem mem_ibit_eq (v : Int) (k : Nat) : Mem.ibit v k = ibit v k := by
  cases v with
  | ofNat n => rw [ibit_ofNat']; rfl
  | negSucc n => rw [ibit_negSucc]; rfl

theorem int_eq_of_ibit' {a b : Int} (h : ∀ k, ibit a k = ibit b k) : a = b :=
  int_eq_of_ibit (fun k => by rw [mem_ibit_eq, mem_ibit_eq]; exact h k)

theorem ibit_applyUpdate' (u : Update) (x : Int) (k : Nat) :
    ibit (applyUpdate u x) k = if ibit u.mask k then ibit u.value k else ibit x k := by
  have := ibit_applyUpdate u x k
  simp only [mem_ibit_eq] at this
  exact this

/-- the mask `LHSMaskCollector` computes for a whole signal of width `w`: `0 | (-1 & ((1 << w) - 1))` -/
def wholeMask (w : Nat) : Int := pyOr 0 (pyAnd (-1) (pyShl 1 w - 1))

theorem ibit_wholeMask (w k : Nat) : ibit (wholeMask w) k = decide (k < w) := by
  unfold wholeMask
  rw [ibit_pyOr, ibit_pyAnd, ibit_zero', ibit_neg_one, ibit_ones]; simp

theorem wholeMask_eq_zero (w : Nat) : (wholeMask w == 0) = decide (w = 0) := by
  by_cases hw : w = 0
  · subst hw
    have : wholeMask 0 = 0 := int_eq_of_ibit' (fun k => by rw [ibit_wholeMask, ibit_zero']; simp)
    simp [this]
  · have : wholeMask w ≠ 0 := by
      intro h
      have := ibit_wholeMask w 0
      rw [h, ibit_zero'] at this
      simp at this; omega
    simp [this, hw]

/-- `update(V, mask)` with the whole-signal mask (sign-extended for a signed signal), on a pending
value of the signal's shape, leaves `V` -/
theorem compiled_write (s : Shape) (hs : s.WF) (V x : Int) (hV : s.contains V) (hx : s.contains x)
    (hw : 0 < s.width) (slot : Nat) :
    applyUpdate ⟨slot, V, extMask s (wholeMask s.width)⟩ x = V := by
  apply int_eq_of_ibit'
  intro k
  rw [ibit_applyUpdate']
  obtain ⟨w, sg⟩ := s
  cases sg with
  | false =>
    simp only [extMask, Bool.false_and, Bool.false_eq_true, if_false, ibit_wholeMask]
    by_cases hk : k < w
    · simp [hk]
    · simp only [hk, decide_false, Bool.false_eq_true, if_false]
      rw [high_bits_u w x hx k (by omega), high_bits_u w V hV k (by omega)]
  | true =>
    have hc : (pyAnd (wholeMask w) (pyShl 1 (w - 1)) != 0) = true := by
      simp only [bne_iff_ne, ne_eq]
      intro h
      have hb : ibit (pyAnd (wholeMask w) (pyShl 1 (w - 1))) (w - 1) = true := by
        rw [ibit_pyAnd, ibit_wholeMask, ibit_pyShl]
        have : w - 1 < w := by simp only at hw; omega
        simp [this]
        decide
      rw [h, ibit_zero'] at hb
      cases hb
    simp only [extMask, hc, Bool.and_self, if_true]
    rw [ibit_pyOr, ibit_wholeMask, ibit_pyShl, ibit_neg_one]
    by_cases hk : k < w
    · simp [hk]
    · have : w ≤ k := by omega
      simp [hk, this]

/-- `ctx.set(out, value)`: `update(value, -1)` leaves the value -/
theorem full_write (slot : Nat) (V x : Int) : applyUpdate ⟨slot, V, -1⟩ x = V := by
  apply int_eq_of_ibit'
  intro k
  rw [ibit_applyUpdate']
  simp only [ibit_neg_one, if_true]

/-! ## Environments -/

theorem envN_envOk {ctx : Ctx} {E : Env} (h : EnvN ctx E) : EnvOk ctx E := by
  intro i
  rcases Nat.lt_or_ge i ctx.length with hi | hi
  · exact h.ok i hi
  · have e1 : ctx.shape i = Shape.u 0 := by
      unfold Ctx.shape; rw [List.getD_eq_getElem?_getD, List.getElem?_eq_none hi]; rfl
    have e2 : E.val i = 0 := by
      unfold Env.val; rw [List.getD_eq_getElem?_getD, List.getElem?_eq_none (by rw [h.len]; exact hi)]; rfl
    rw [e1, e2]
    exact ⟨by decide, by decide⟩

theorem modAt_eq_of_val (l : List Int) (i : Nat) (f g : Int → Int) (h : ∀ x, l[i]? = some x → f x = g x) :
    modAt l i f = modAt l i g := by
  unfold modAt
  cases hx : l[i]? with
  | none => rfl
  | some x => simp only [h x hx]

theorem modAt_id_of_val (l : List Int) (i : Nat) (f : Int → Int) (h : ∀ x, l[i]? = some x → f x = x) :
    modAt l i f = l := by
  unfold modAt
  cases hx : l[i]? with
  | none => rfl
  | some x =>
    simp only [h x hx]
    apply List.ext_getElem?
    intro j
    by_cases hij : i = j
    · subst hij
      rw [List.getElem?_set_self (List.getElem?_eq_some_iff.mp hx).1, hx]
    · rw [List.getElem?_set_ne hij]

theorem val_modAt_self (l : Env) (i : Nat) (f : Int → Int) (h : i < l.length) :
    Env.val (modAt l i f) i = f (l.val i) := by
  show (modAt l i f).getD i 0 = f ((l : List Int).getD i 0)
  rw [List.getD_eq_getElem?_getD, List.getD_eq_getElem?_getD, modAt_getElem?]
  simp [List.getElem?_eq_getElem h]

theorem val_modAt_ne (l : Env) (i j : Nat) (f : Int → Int) (h : i ≠ j) : Env.val (modAt l i f) j = l.val j := by
  show (modAt l i f).getD j 0 = (l : List Int).getD j 0
  rw [List.getD_eq_getElem?_getD, List.getD_eq_getElem?_getD, modAt_getElem?]
  simp [h]

theorem val_of_getElem? (l : Env) (i : Nat) (x : Int) (h : l[i]? = some x) : l.val i = x := by
  show (l : List Int).getD i 0 = x
  rw [List.getD_eq_getElem?_getD, h]; rfl

/-- an update that keeps values of the slot's shape inside the shape keeps the environment normalised -/
theorem envN_applyTo {ctx : Ctx} {E : Env} (h : EnvN ctx E) (u : Update)
    (hu : ∀ x, (ctx.shape u.slot).contains x → (ctx.shape u.slot).contains (applyUpdate u x)) :
    EnvN ctx (applyTo E u) := by
  unfold Engine.applyTo
  refine ⟨by rw [modAt_length]; exact h.len, fun j hj => ?_⟩
  by_cases hji : u.slot = j
  · subst hji
    rw [val_modAt_self _ _ _ (by rw [h.len]; exact hj)]
    exact ⟨(h.ok _ hj).1, hu _ (h.ok _ hj).2⟩
  · rw [val_modAt_ne _ _ _ _ hji]; exact h.ok j hj

theorem envN_applyAll {ctx : Ctx} {E : Env} (h : EnvN ctx E) (us : List Update)
    (hu : ∀ u ∈ us, ∀ x, (ctx.shape u.slot).contains x → (ctx.shape u.slot).contains (applyUpdate u x)) :
    EnvN ctx (applyAll E us) := by
  induction us generalizing E with
  | nil => exact h
  | cons u us ih =>
    show EnvN ctx (Engine.applyAll (Engine.applyTo E u) us)
    exact ih (envN_applyTo h u (hu u (List.mem_cons_self ..))) (fun v hv => hu v (List.mem_cons_of_mem _ hv))

theorem applyAll_val_of_slots (E : Env) (us : List Update) (i : Nat) (h : ∀ u ∈ us, u.slot ≠ i) :
    (applyAll E us).val i = E.val i := by
  induction us generalizing E with
  | nil => rfl
  | cons u us ih =>
    show (Engine.applyAll (Engine.applyTo E u) us).val i = _
    rw [ih _ (fun v hv => h v (List.mem_cons_of_mem _ hv))]
    exact val_modAt_ne _ _ _ _ (h u (List.mem_cons_self ..))

/-! ## The updates of the compiled process of `out := e` -/

theorem filterMap_range_single {α : Type} (n k : Nat) (f : Nat → Option α) (h : ∀ i, i ≠ k → f i = none) :
    (List.range n).filterMap f = if k < n then (f k).toList else [] := by
  induction n with
  | zero => simp
  | succ n ih =>
    rw [List.range_succ, List.filterMap_append, ih]
    simp only [List.filterMap_cons, List.filterMap_nil]
    by_cases hk : k < n
    · have : k < n + 1 := by omega
      simp only [hk, this, if_true]
      rw [h n (by omega)]; simp
    · by_cases hkn : k = n
      · subst hkn
        simp only [Nat.lt_irrefl, if_false, Nat.lt_succ_self, if_true, List.nil_append]
        cases f k <;> rfl
      · have : ¬ k < n + 1 := by omega
        simp only [hk, this, if_false]
        rw [h n (fun e => hkn e.symm)]; rfl

theorem procUpdates_assign (ctx : Ctx) (out : Nat) (e : Expr) (nxt : Env) (hout : out < ctx.length) :
    procUpdates ctx (.assign (.sig out) e) nxt =
      if (ctx.shape out).width = 0 then []
      else [⟨out, nxt.val out, extMask (ctx.shape out) (wholeMask (ctx.shape out).width)⟩] := by
  unfold procUpdates
  simp only [stmtMask, lhsMask]
  have hz : ∀ i, MaskTab.get (List.replicate ctx.length (0 : Int)) i = 0 := by
    intro i; unfold MaskTab.get; rw [List.getD_eq_getElem?_getD]
    cases h : (List.replicate ctx.length (0 : Int))[i]? with
    | none => rfl
    | some x =>
      have := List.mem_of_getElem? h
      simp only [List.mem_replicate] at this
      rw [this.2]; rfl
  simp only [hz out]
  rw [filterMap_range_single ctx.length out]
  · simp only [hout, if_true]
    rw [get_set_self _ _ _ (by simpa using hout)]
    show (if (wholeMask (ctx.shape out).width == 0) = true then none else some _).toList = _
    rw [wholeMask_eq_zero]
    by_cases hw : (ctx.shape out).width = 0
    · simp [hw]
    · simp [hw]; rfl
  · intro i hi
    rw [get_set_other _ _ _ _ hi, hz i]; rfl

theorem combNext_assign_val (ctx : Ctx) (inits cur : Env) (out : Nat) (e : Expr) (hout : out < ctx.length) :
    (combNext ctx inits (.assign (.sig out) e) cur).val out = norm (ctx.shape out) (rtlValue ctx cur e) := by
  unfold combNext
  simp only [execRtl, assignRtlG]
  exact val_put_eq _ _ _ (by simpa using hout)

/-- the compiled and the testbench evaluator agree on a well-formed expression over normalised values -/
theorem rtlValue_eq_evalTb (ctx : Ctx) (cur : Env) (hok : EnvOk ctx cur) (e : Expr) (hwf : e.wf ctx = true) :
    rtlValue ctx cur e = evalTb ctx cur e := by
  unfold rtlValue
  rw [(sound ctx cur hok e hwf).sgn, tb_exact_aux ctx cur hok e hwf]

/-! ## The sampled values put back on their signals -/

theorem exprSigs_lt (ctx : Ctx) (e : Expr) (hwf : e.wf ctx = true) : ∀ i ∈ exprSigs e, i < ctx.length := by
  induction e with
  | const v s => intro i hi; simp [exprSigs] at hi
  | sig j =>
    intro i hi
    simp only [exprSigs, List.mem_singleton] at hi
    subst hi
    simpa [Expr.wf] using hwf
  | op1 o a ih =>
    simp only [Expr.wf, Bool.and_eq_true] at hwf
    exact ih hwf.1
  | op2 o a b iha ihb =>
    simp only [Expr.wf, Bool.and_eq_true] at hwf
    intro i hi
    simp only [exprSigs, List.mem_append] at hi
    rcases hi with hi | hi
    · exact iha hwf.1.1 i hi
    · exact ihb hwf.1.2 i hi
  | slice a s t ih =>
    simp only [Expr.wf, Bool.and_eq_true] at hwf
    exact ih hwf.1.1
  | part a off w st iha ihb =>
    simp only [Expr.wf, Bool.and_eq_true] at hwf
    intro i hi
    simp only [exprSigs, List.mem_append] at hi
    rcases hi with hi | hi
    · exact iha hwf.1.1.1 i hi
    · exact ihb hwf.1.1.2 i hi
  | cat lo hi iha ihb =>
    simp only [Expr.wf, Bool.and_eq_true] at hwf
    intro i hi'
    simp only [exprSigs, List.mem_append] at hi'
    rcases hi' with hi' | hi'
    · exact iha hwf.1 i hi'
    · exact ihb hwf.2 i hi'
  | ite t pats a b iht iha ihb =>
    simp only [Expr.wf, Bool.and_eq_true] at hwf
    intro i hi
    simp only [exprSigs, List.mem_append] at hi
    rcases hi with (hi | hi) | hi
    · exact iht hwf.1.1.1.1 i hi
    · exact iha hwf.1.1.1.2 i hi
    · exact ihb hwf.1.1.2 i hi

theorem sampleEnv_fold (n : Nat) (f : Nat → Int) (i : Nat) (hi : i < n) : ∀ (ins : List Nat) (env : Env), env.length = n →
    ((ins.zip (ins.map f)).foldl (fun env iv => env.put iv.1 iv.2) env).val i =
      if i ∈ ins then f i else env.val i := by
  intro ins
  induction ins with
  | nil => intro env _; simp
  | cons a rest ih =>
    intro env hlen
    simp only [List.map_cons, List.zip_cons_cons, List.foldl_cons]
    rw [ih (env.put a (f a)) (by rw [put_length]; exact hlen)]
    by_cases hr : i ∈ rest
    · simp [hr]
    · by_cases hia : i = a
      · subst hia
        simp only [hr, if_false, List.mem_cons, true_or, if_true]
        exact val_put_eq _ _ _ (by rw [hlen]; exact hi)
      · simp only [hr, if_false, List.mem_cons, hia, false_or]
        exact val_put_ne _ _ _ _ hia

theorem sampleEnv_val (n : Nat) (f : Nat → Int) (ins : List Nat) (i : Nat) (hi : i < n) (hm : i ∈ ins) :
    (sampleEnv n ins (ins.map f)).val i = f i := by
  unfold sampleEnv
  rw [sampleEnv_fold n f i hi ins _ (by simp), if_pos hm]

/-- the value the documented process form computes from the sampled inputs is the value of `e` on the
current values -/
theorem evalTb_sampleEnv (ctx : Ctx) (cur : Env) (e : Expr) (hwf : e.wf ctx = true) :
    evalTb ctx (sampleEnv ctx.length (exprSigs e) ((exprSigs e).map cur.val)) e = evalTb ctx cur e :=
  evalTb_congr ctx _ _ e (fun i hi => sampleEnv_val ctx.length cur.val (exprSigs e) i (exprSigs_lt ctx e hwf i hi) hi)

end Amaranth.Engine
