import AmaranthVerif.Proofs.Res
import AmaranthVerif.Proofs.ResNames

/-! # Helper lemmas for C19 (ports, constraints, refinement of the allocation spec) -/

namespace Amaranth.Res

/-! ## The plan visits exactly the declared leaves -/

mutual
theorem plan_leaves : ∀ (n : Node) (path : List String) (inh : Attrs) (dir : Opt RDir) (xdr : Opt XdrV)
    (pls : List Planned), n.plan path inh dir xdr = .ok pls → pls.map (·.leaf) = n.leaves path inh
  | .leaf _ a ph d inv ck, path, inh, dir, xdr, pls, h => by
    simp only [Node.plan] at h
    cases hm : mergeLeaf d dir xdr with
    | error e => simp [hm] at h
    | ok p =>
      obtain ⟨rd, x⟩ := p
      simp only [hm] at h
      cases h
      simp [Node.leaves]
  | .group _ _ [], _, _, _, _, _, h => by simp [Node.plan] at h
  | .group _ a (s :: ss), path, inh, dir, xdr, pls, h => by
    simp only [Node.plan] at h
    cases hm : mergeGroupHead dir xdr with
    | error e => simp [hm] at h
    | ok p =>
      obtain ⟨dash, dd, xd⟩ := p
      simp only [hm] at h
      simp only [Node.leaves]
      exact planList_leaves (s :: ss) path (attrsResolve inh a) dash dd xd pls h
theorem planList_leaves : ∀ (ns : List Node) (path : List String) (inh : Attrs) (dash : Bool)
    (dd : Opt RDir) (xd : Opt XdrV) (pls : List Planned),
    planList path inh dash dd xd ns = .ok pls → pls.map (·.leaf) = leavesList path inh ns
  | [], _, _, _, _, _, pls, h => by
    simp only [planList] at h
    cases h
    simp [leavesList]
  | n :: ns, path, inh, dash, dd, xd, pls, h => by
    simp only [planList] at h
    cases h1 : n.plan (path ++ [n.name]) inh (if dash = true then Opt.val RDir.dash else dd.get n.name) (xd.get n.name) with
    | error e => simp [h1] at h
    | ok a =>
      simp only [h1] at h
      cases h2 : planList path inh dash dd xd ns with
      | error e => simp [h2] at h
      | ok b =>
        simp only [h2] at h
        cases h
        simp only [List.map_append, leavesList]
        rw [plan_leaves n _ _ _ _ a h1, planList_leaves ns path inh dash dd xd b h2]
end

/-! ## Ports as declared -/

/-- an `IOPort` of a granted leaf is as declared: named after the path, carrying the leaf's attributes, with
one bit per declared pin name, in declared order, each resolved through the connector chain -/
def IOAsDeclared (m : List (String × String)) (l : LeafDecl) (suffix : String) (p : PinsDecl) (io : IOPortM) : Prop :=
  io.name = portBase l.path ++ suffix ∧ io.attrs = l.attrs ∧
  Spec.BitsInOrder (ResolvesIn m) p.full io.pins

/-- the port granted for a leaf is as declared -/
def LeafAsDeclared (m : List (String × String)) (l : LeafDecl) (g : LeafGrant) : Prop :=
  g.path = l.path ∧ g.invert = l.invert ∧ g.direction = l.dir.port ∧
  match l.phys, g.port with
  | .single p, .single io => IOAsDeclared m l "__io" p io
  | .diff p n, .diff pp pn => IOAsDeclared m l "__p" p pp ∧ IOAsDeclared m l "__n" n pn
  | _, _ => False

def PortsAsDeclared (m : List (String × String)) : List LeafDecl → List LeafGrant → Prop
  | [], [] => True
  | l :: ls, g :: gs => LeafAsDeclared m l g ∧ PortsAsDeclared m ls gs
  | _, _ => False

theorem grantOf_asDeclared (m : List (String × String)) (fuel : Nat) (pl : Planned) (port : PortM)
    (h : plannedPortE m fuel pl = .ok port) : LeafAsDeclared m pl.leaf (grantOf pl port) := by
  unfold plannedPortE at h
  refine ⟨rfl, rfl, rfl, ?_⟩
  cases hph : pl.leaf.phys with
  | single p =>
    simp only [hph] at h
    cases hm : mapNames m fuel p.full with
    | error e => simp [hm] at h
    | ok names =>
      simp only [hm] at h
      cases h
      exact ⟨rfl, rfl, mapNames_sound m fuel _ _ hm⟩
  | diff p n =>
    simp only [hph] at h
    cases hm : mapNames m fuel p.full with
    | error e => simp [hm] at h
    | ok np =>
      simp only [hm] at h
      cases hn : mapNames m fuel n.full with
      | error e => simp [hn] at h
      | ok nn =>
        simp only [hn] at h
        cases h
        exact ⟨⟨rfl, rfl, mapNames_sound m fuel _ _ hm⟩, ⟨rfl, rfl, mapNames_sound m fuel _ _ hn⟩⟩

theorem expectedGrants_asDeclared (m : List (String × String)) (fuel : Nat) :
    ∀ (pls : List Planned) (gs : List LeafGrant), expectedGrants m fuel pls = some gs →
      PortsAsDeclared m (pls.map (·.leaf)) gs
  | [], gs, h => by
    simp only [expectedGrants, Option.some.injEq] at h
    subst h
    trivial
  | pl :: pls, gs, h => by
    simp only [expectedGrants] at h
    cases hp : plannedPortE m fuel pl with
    | error e => simp [hp] at h
    | ok port =>
      cases hr : expectedGrants m fuel pls with
      | none => simp [hp, hr] at h
      | some gs' =>
        simp only [hp, hr, Option.some.injEq] at h
        subst h
        exact ⟨grantOf_asDeclared m fuel pl port hp, expectedGrants_asDeclared m fuel pls gs' hr⟩

/-! ## Clocks -/

/-- the clock constraints the declaration asks for: one per leaf that declares a clock, on that leaf's port
(`…__io`, resp. `…__p`), with the declared period -/
def declaredClocks : List LeafDecl → List LeafGrant → List (String × Nat)
  | l :: ls, g :: gs =>
    (match l.clock with
     | none => []
     | some p => [(g.port.clockName, p)]) ++ declaredClocks ls gs
  | _, _ => []

theorem planClocks_eq (m : List (String × String)) (fuel : Nat) :
    ∀ (pls : List Planned) (gs : List LeafGrant), expectedGrants m fuel pls = some gs →
      planClocks m fuel pls = declaredClocks (pls.map (·.leaf)) gs
  | [], gs, h => by
    simp only [expectedGrants, Option.some.injEq] at h
    subst h
    rfl
  | pl :: pls, gs, h => by
    simp only [expectedGrants] at h
    cases hp : plannedPortE m fuel pl with
    | error e => simp [hp] at h
    | ok port =>
      cases hr : expectedGrants m fuel pls with
      | none => simp [hp, hr] at h
      | some gs' =>
        simp only [hp, hr, Option.some.injEq] at h
        subst h
        simp only [planClocks, hp, List.map_cons, declaredClocks, planClocks_eq m fuel pls gs' hr]
        rfl

/-! ## Constraint lines -/

theorem constraintBitsOf_eq (io : IOPortM) : constraintBitsOf io = Spec.linesFor io.name io.pins := by
  unfold constraintBitsOf Spec.linesFor Spec.bitName
  rcases hp : io.pins with _ | ⟨p, _ | ⟨q, rest⟩⟩
  · simp
  · simp [List.zipIdx]
  · simp

theorem map_snd_linesFor (name : String) (pins : List String) :
    (Spec.linesFor name pins).map (·.2) = pins := by
  unfold Spec.linesFor
  rw [List.map_map]
  have : ((fun x : String × String => x.2) ∘ fun x : String × Nat => (Spec.bitName name pins.length x.2, x.1))
      = fun x : String × Nat => x.1 := rfl
  rw [this]
  exact List.zipIdx_map_fst _ _

theorem map_snd_constraintBits (ios : List IOPortM) :
    (constraintBits ios).map (·.2) = ios.flatMap (·.pins) := by
  induction ios with
  | nil => rfl
  | cons io ios ih =>
    simp only [constraintBits, List.flatMap_cons, List.map_append] at ih ⊢
    rw [ih, constraintBitsOf_eq, map_snd_linesFor]

theorem count_one_of_nodup : ∀ (l : List String) (p : String), l.Nodup → p ∈ l →
    (l.filter fun x => x == p).length = 1
  | [], _, _, h => by cases h
  | a :: l, p, hn, h => by
    have hn' := List.nodup_cons.mp hn
    by_cases hap : a = p
    · subst hap
      have : l.filter (fun x => x == a) = [] := by
        apply List.filter_eq_nil_iff.mpr
        intro x hx hxa
        have : x = a := by simpa using hxa
        subst this
        exact hn'.1 hx
      simp [this]
    · have hmem : p ∈ l := by
        rcases List.mem_cons.mp h with rfl | h
        · exact absurd rfl hap
        · exact h
      have hne : (a == p) = false := by simpa using hap
      simp only [List.filter_cons, hne]
      exact count_one_of_nodup l p hn'.2 hmem

theorem exactlyOnce_of_nodup (lines : List (String × String)) (pins : List String)
    (h : lines.map (·.2) = pins) (hn : pins.Nodup) : Spec.ExactlyOnce lines pins := by
  intro p hp
  have : (lines.filter fun l => l.2 == p).length = ((lines.map (·.2)).filter fun x => x == p).length := by
    rw [List.filter_map, List.length_map]
    rfl
  rw [this, h]
  exact count_one_of_nodup pins p hn hp

theorem grantPorts_pins (gs : List LeafGrant) : (grantPorts gs).flatMap (·.pins) = grantPins gs := by
  induction gs with
  | nil => rfl
  | cons g gs ih =>
    simp only [grantPorts, grantPins, List.flatMap_cons, List.flatMap_append] at ih ⊢
    rw [ih]
    rfl

/-! ## The model refines the allocation specification -/

/-- the allocation the specification sees in a state -/
def absState (s : State) : Spec.Alloc Key := ⟨s.requested, s.physPins⟩

def verdictOf : Outcome → Spec.Verdict
  | .granted gs => .granted (grantPins gs)
  | .refused _ => .refused

theorem grantable_iff (s : State) (k : Key) (want : List String) :
    Spec.grantable (absState s) k want ↔ (k ∉ s.requested ∧ Free s.physPins want) := by
  unfold Spec.grantable Free absState
  constructor
  · rintro ⟨a, b, c⟩; exact ⟨a, b, c⟩
  · rintro ⟨a, b, c⟩; exact ⟨a, b, c⟩

theorem step_refines (t : Table) (s : State) (r : Req) :
    Spec.step (absState s) r.key (wanted t r) = (absState (step t s r).1, verdictOf (step t s r).2) := by
  cases hw : wanted t r with
  | none =>
    obtain ⟨e, he⟩ := request_none t s r hw
    simp [Spec.step, step, he, verdictOf]
  | some want =>
    by_cases hc : r.key ∉ s.requested ∧ Free s.physPins want
    · obtain ⟨s', gs, he, hg, g⟩ := request_granted t s r want hw hc.1 hc.2
      have hgr : Spec.grantable (absState s) r.key want := (grantable_iff s r.key want).mpr hc
      simp only [Spec.step, if_pos hgr, step, he, verdictOf, hg]
      simp [absState, g.requested, g.phys, hg]
    · have hgr : ¬ Spec.grantable (absState s) r.key want := fun h => hc ((grantable_iff s r.key want).mp h)
      simp [Spec.step, if_neg hgr, step, request_refused t s r want hw hc, verdictOf]

theorem run_refines (t : Table) : ∀ (rs : List Req) (s : State),
    Spec.run (absState s) (rs.map fun r => (r.key, wanted t r)) =
      (absState (run t s rs).1, (run t s rs).2.map verdictOf)
  | [], s => rfl
  | r :: rs, s => by
    simp only [List.map_cons, Spec.run, run, step_refines t s r]
    rw [run_refines t rs (step t s r).1]

end Amaranth.Res
