import AmaranthVerif.Proofs.FormatParse

/-!
# The `s` rewrite of `emit_format` / `eval_format`

`format_desc.endswith("s")` holds exactly when the presentation type is `s`, and then
`format_desc[:-1]` is the same specification without a type.
-/

namespace Amaranth
namespace Fmt

theorem optHead_frame {α : Type} (f : Char → Option α) (hs : f 's' = none) (u : List Char) :
    optHead f (u ++ ['s']) = ((optHead f u).1, (optHead f u).2 ++ ['s']) := by
  cases u with
  | nil => simp [optHead, hs]
  | cons c r =>
    cases h : f c with
    | none => simp [optHead, h]
    | some a => simp [optHead, h]

theorem flag_frame (ch : Char) (hs : ¬ 's' = ch) (u : List Char) :
    flag ch (u ++ ['s']) = ((flag ch u).1, (flag ch u).2 ++ ['s']) := by
  cases u with
  | nil => simp [flag, hs]
  | cons c r =>
    by_cases h : c = ch <;> simp [flag, h]

theorem takeWhile_snoc (p : Char → Bool) (x : Char) (hx : p x = false) (l : List Char) :
    (l ++ [x]).takeWhile p = l.takeWhile p := by
  induction l with
  | nil => simp [hx]
  | cons c r ih =>
    by_cases h : p c = true
    · simp [h, ih]
    · simp [h]

theorem dropWhile_snoc (p : Char → Bool) (x : Char) (hx : p x = false) (l : List Char) :
    (l ++ [x]).dropWhile p = l.dropWhile p ++ [x] := by
  induction l with
  | nil => simp [hx]
  | cons c r ih =>
    by_cases h : p c = true
    · simp [h, ih]
    · simp [h]

theorem takeWidth_frame (u : List Char) :
    takeWidth (u ++ ['s']) = ((takeWidth u).1, (takeWidth u).2 ++ ['s']) := by
  have hs : isDigit 's' = false := by decide
  cases u with
  | nil =>
    have : isDigit19 's' = false := by decide
    simp [takeWidth, this]
  | cons c r =>
    by_cases h : isDigit19 c = true
    · have e : c :: r ++ ['s'] = (c :: r) ++ ['s'] := rfl
      simp only [List.cons_append, takeWidth, h, if_true]
      rw [← List.cons_append, takeWhile_snoc _ _ hs, dropWhile_snoc _ _ hs]
    · simp [takeWidth, h]

theorem parseTail_frame (fill : Option Char) (align : Option Align) (u : List Char) (sp : Spec)
    (h : parseTail fill align (u ++ ['s']) = some sp) :
    sp.ty = some .s ∧ parseTail fill align u = some { sp with ty := none } := by
  unfold parseTail at h ⊢
  simp only at h ⊢
  rw [optHead_frame signOf? (by decide)] at h
  simp only at h
  rw [flag_frame '#' (by decide)] at h
  simp only at h
  rw [flag_frame '0' (by decide)] at h
  simp only at h
  rw [takeWidth_frame] at h
  simp only at h
  rw [optHead_frame grpOf? (by decide)] at h
  simp only at h
  generalize (optHead grpOf? (takeWidth (flag '0' (flag '#' (optHead signOf? u).2).2).2).2).2 = r5 at h ⊢
  cases r5 with
  | nil =>
    simp only [List.nil_append, optHead] at h ⊢
    have hty : tyOf? 's' = some Ty.s := by decide
    simp only [hty, if_true] at h ⊢
    cases h
    exact ⟨rfl, rfl⟩
  | cons c r =>
    exfalso
    simp only [List.cons_append, optHead] at h
    cases hc : tyOf? c with
    | none => simp [hc] at h
    | some t => simp [hc] at h

theorem alignOf?_s : alignOf? 's' = none := by decide

theorem parseSpecL_frame (u : List Char) (sp : Spec) (h : parseSpecL (u ++ ['s']) = some sp) :
    sp.ty = some .s ∧ parseSpecL u = some { sp with ty := none } := by
  match u with
  | [] =>
    simp only [List.nil_append, parseSpecL, alignOf?_s] at h ⊢
    exact parseTail_frame none none [] sp h
  | [f] =>
    simp only [List.cons_append, List.nil_append, parseSpecL, alignOf?_s] at h ⊢
    cases hf : alignOf? f with
    | none =>
      simp only [hf] at h ⊢
      exact parseTail_frame none none [f] sp h
    | some al =>
      simp only [hf] at h ⊢
      exact parseTail_frame none (some al) [] sp h
  | f :: a :: r =>
    simp only [List.cons_append, parseSpecL] at h ⊢
    cases ha : alignOf? a with
    | some al =>
      simp only [ha] at h ⊢
      by_cases hnl : f = '\n'
      · simp [hnl] at h
      · simp only [hnl, if_false] at h ⊢
        exact parseTail_frame (some f) (some al) r sp h
    | none =>
      simp only [ha] at h ⊢
      cases hf : alignOf? f with
      | none =>
        simp only [hf] at h ⊢
        exact parseTail_frame none none (f :: a :: r) sp h
      | some al =>
        simp only [hf] at h ⊢
        exact parseTail_frame none (some al) (a :: r) sp h

theorem getLast?_snoc_eq (l : List Char) (c : Char) (h : l.getLast? = some c) : l = l.dropLast ++ [c] := by
  induction l with
  | nil => simp at h
  | cons x xs ih =>
    cases xs with
    | nil => simp at h; simp [h]
    | cons y ys =>
      simp only [List.getLast?_cons_cons] at h
      simp only [List.dropLast_cons_cons, List.cons_append]
      rw [← ih h]

/-- a specification whose type is `s` ends with the character `s` -/
theorem ends_of_ty_s (s : List Char) (sp : Spec) (h : parseSpecL s = some sp) (hty : sp.ty = some .s) :
    s.getLast? = some 's' := by
  obtain ⟨wd, hs, _⟩ := parseSpecL_sound s sp h
  rw [hs]
  unfold specText' tailText
  rw [hty]
  simp [Ty.char]

/-- `endswith("s")` is exactly "the presentation type is `s`", and dropping it drops the type -/
theorem s_rewrite_ok (s : List Char) (sp : Spec) (h : parseSpecL s = some sp) :
    (endsWithS s = true ↔ sp.ty = some .s) ∧
    (sp.ty = some .s → parseSpecL s.dropLast = some { sp with ty := none }) := by
  have key : s.getLast? = some 's' → sp.ty = some .s ∧ parseSpecL s.dropLast = some { sp with ty := none } := by
    intro hl
    have e := getLast?_snoc_eq s 's' hl
    rw [e] at h
    exact parseSpecL_frame _ sp h
  refine ⟨⟨?_, ?_⟩, ?_⟩
  · intro he
    unfold endsWithS at he
    exact (key (by simpa using he)).1
  · intro hty
    unfold endsWithS
    simp [ends_of_ty_s s sp h hty]
  · intro hty
    exact (key (ends_of_ty_s s sp h hty)).2

end Fmt
end Amaranth
