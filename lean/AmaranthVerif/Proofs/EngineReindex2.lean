import AmaranthVerif.Proofs.EngineReindex

/-!
# Re-indexing: initial states, whole runs, and the two concrete re-indexings

* `reindex_sameobs`: the runs of two `mkSim` simulations related by `KindsEmbed` are `SameObs`;
* `moveEnd`: one process moved to the end of the process list (a bijection of the indices);
* `dropInert`: one inert process removed.
-/

namespace Amaranth.Engine
open Amaranth

theorem initState_erel {D : Design} {σ : Nat → Nat} {τ : Nat → Option Nat} {kindsA kindsB : List ProcKind}
    (K : KindsEmbed D σ τ kindsA kindsB) (scripts : List (List TbOp)) :
    ERel σ τ (initState D kindsA scripts) (initState D kindsB scripts) := by
  refine ⟨rfl, rfl, rfl, rfl, rfl, ?_, ?_, ?_⟩
  · intro q
    simp only [initState]
    rcases Nat.lt_or_ge q kindsB.length with hq | hq
    · rw [List.getElem?_append_left (by simpa using kindsEmbed_lt K q hq), List.getElem?_append_left (by simpa using hq),
        List.getElem?_map, List.getElem?_map, K.procs q hq]
    · obtain ⟨t, rfl⟩ : ∃ t, q = kindsB.length + t := ⟨q - kindsB.length, by omega⟩
      rw [K.tbs t, List.getElem?_append_right (by simp), List.getElem?_append_right (by simp)]
      simp
  · intro q
    simp only [initState, List.getElem?_replicate]
    rcases Nat.lt_or_ge q kindsB.length with hq | hq
    · have := kindsEmbed_lt K q hq
      have h1 : σ q < kindsA.length + scripts.length := by omega
      have h2 : q < kindsB.length + scripts.length := by omega
      simp [h1, h2]
    · obtain ⟨t, rfl⟩ : ∃ t, q = kindsB.length + t := ⟨q - kindsB.length, by omega⟩
      rw [K.tbs t]
      by_cases ht : t < scripts.length
      · have h1 : kindsA.length + t < kindsA.length + scripts.length := by omega
        have h2 : kindsB.length + t < kindsB.length + scripts.length := by omega
        simp [h1, h2]
      · have h1 : ¬ kindsA.length + t < kindsA.length + scripts.length := by omega
        have h2 : ¬ kindsB.length + t < kindsB.length + scripts.length := by omega
        simp [h1, h2]
  · intro j _ d
    simp only [initState, List.getElem?_replicate]
    split <;> simp

theorem ERel.sameObs {σ : Nat → Nat} {τ : Nat → Option Nat} {a b : EState} (h : ERel σ τ a b) : SameObs a b :=
  ⟨h.curr, h.next, h.now, h.obs⟩

theorem SameObs.symm {a b : EState} (h : SameObs a b) : SameObs b a := ⟨h.curr.symm, h.next.symm, h.now.symm, h.obs.symm⟩

theorem SameObs.trans {a b c : EState} (h1 : SameObs a b) (h2 : SameObs b c) : SameObs a c :=
  ⟨h2.curr.trans h1.curr, h2.next.trans h1.next, h2.now.trans h1.now, h2.obs.trans h1.obs⟩

theorem SameObs.of_eq {a b : EState} (h : a = b) : SameObs a b := by subst h; exact ⟨rfl, rfl, rfl, rfl⟩

/-- **Re-indexing the owners gives the same runs.** `A` under any schedule `sched`, `B` under the
schedule that lists the corresponding owners in the same order. -/
theorem reindex_sameobs (D : Design) (σ : Nat → Nat) (τ : Nat → Option Nat) (kindsA kindsB : List ProcKind)
    (K : KindsEmbed D σ τ kindsA kindsB) (scripts : List (List TbOp)) (sched : Sched) (fuel n : Nat) :
    SameObs (advanceN (mkSim D kindsA scripts sched fuel) n (initState D kindsA scripts))
      (advanceN (mkSim D kindsB scripts (mapSched τ sched) fuel) n (initState D kindsB scripts)) ∧
    SameObs (run (mkSim D kindsA scripts sched fuel) n (initState D kindsA scripts))
      (run (mkSim D kindsB scripts (mapSched τ sched) fuel) n (initState D kindsB scripts)) ∧
    ∀ deadline, SameObs (runUntil (mkSim D kindsA scripts sched fuel) deadline n (initState D kindsA scripts))
      (runUntil (mkSim D kindsB scripts (mapSched τ sched) fuel) deadline n (initState D kindsB scripts)) := by
  have hS := reindex_simRel D σ τ kindsA kindsB K scripts sched fuel
  have h0 := initState_erel K scripts
  exact ⟨(advanceN_rel2 hS n _ _ h0).sameObs, (run_rel2 hS n _ _ h0).sameObs,
    fun dl => (runUntil_rel2 hS dl n _ _ h0).sameObs⟩

/-! ## One process moved to the end -/

/-- position `p` of a list of `n` processes goes to the end; the ones after it move down by one -/
def moveσ (p n : Nat) (q : Nat) : Nat :=
  if q < p then q else if q = p then n - 1 else if q < n then q - 1 else q

def moveτ (p n : Nat) (j : Nat) : Option Nat :=
  some (if j < p then j else if j < n - 1 then j + 1 else if j = n - 1 then p else j)

theorem move_embed (p n : Nat) (hp : p < n) : Embed (moveσ p n) (moveτ p n) := by
  constructor
  · intro q
    unfold moveσ moveτ
    simp only [Option.some.injEq]
    split_ifs <;> omega
  · intro j q h
    unfold moveτ at h
    simp only [Option.some.injEq] at h
    unfold moveσ
    split_ifs at h ⊢ <;> omega

theorem move_kinds (D : Design) (pre post : List ProcKind) (k : ProcKind) :
    KindsEmbed D (moveσ pre.length (pre.length + 1 + post.length)) (moveτ pre.length (pre.length + 1 + post.length))
      (pre ++ post ++ [k]) (pre ++ k :: post) := by
  refine ⟨move_embed _ _ (by omega), ?_, ?_, ?_⟩
  · intro q hq
    simp only [List.length_append, List.length_cons] at hq
    unfold moveσ
    by_cases h1 : q < pre.length
    · simp only [h1, if_true]
      rw [List.append_assoc, List.getElem?_append_left h1, List.getElem?_append_left h1]
    · by_cases h2 : q = pre.length
      · subst h2
        simp only [Nat.lt_irrefl, if_false, if_true]
        rw [List.getElem?_append_right (by simp), List.getElem?_append_right (Nat.le_refl _)]
        simp
      · have h3 : q < pre.length + 1 + post.length := by omega
        simp only [h1, h2, h3, if_false, if_true]
        obtain ⟨m, hm⟩ : ∃ m, q - pre.length = m + 1 := ⟨q - pre.length - 1, by omega⟩
        have eL : (pre ++ post ++ [k])[q - 1]? = post[m]? := by
          rw [List.append_assoc, List.getElem?_append_right (by omega), List.getElem?_append_left (by omega)]
          congr 1; omega
        have eR : (pre ++ k :: post)[q]? = post[m]? := by
          rw [List.getElem?_append_right (by omega), hm, List.getElem?_cons_succ]
        rw [eL, eR]
  · intro t
    unfold moveσ
    simp only [List.length_append, List.length_cons, List.length_nil]
    split_ifs <;> omega
  · intro j hj
    simp [moveτ] at hj

/-- the schedule of the re-indexed simulation: the same owners, under their new indices -/
def moveSched (p n : Nat) (a : Sched) : Sched := fun k => ⟨(a k).procs.map (moveσ p n), (a k).slots⟩

theorem mapSched_moveSched (p n : Nat) (hp : p < n) (a : Sched) : mapSched (moveτ p n) (moveSched p n a) = a := by
  funext k
  simp only [mapSched, moveSched, List.filterMap_map]
  have : (moveτ p n ∘ moveσ p n) = some := by
    funext q; exact (move_embed p n hp).left q
  rw [this, List.filterMap_some]

theorem moveSched_nodup (p n : Nat) (hp : p < n) (a : Sched) (h : SchedNodup a) : SchedNodup (moveSched p n a) := by
  intro k
  show ((a k).procs.map (moveσ p n)).Pairwise (· ≠ ·)
  rw [List.pairwise_map]
  exact (h k).imp (fun hne e => hne ((move_embed p n hp).inj e))

theorem moveSched_lists (p n : Nat) (hp : p < n) (a : Sched) (h : SchedLists a n) : SchedLists (moveSched p n a) n := by
  intro k j hj
  simp only [moveSched, List.mem_map]
  have hτ : ∃ q, moveτ p n j = some q ∧ q < n := by
    unfold moveτ
    refine ⟨_, rfl, ?_⟩
    split_ifs <;> omega
  obtain ⟨q, hq, hlt⟩ := hτ
  exact ⟨q, h k q hlt, (move_embed p n hp).right j q hq⟩

/-! ## One inert process removed -/

def dropσ (p : Nat) (q : Nat) : Nat := if q < p then q else q + 1

def dropτ (p : Nat) (j : Nat) : Option Nat := if j < p then some j else if j = p then none else some (j - 1)

theorem drop_embed (p : Nat) : Embed (dropσ p) (dropτ p) := by
  constructor
  · intro q
    unfold dropσ dropτ
    split_ifs <;> (try simp) <;> omega
  · intro j q h
    unfold dropτ at h
    unfold dropσ
    split_ifs at h ⊢ <;> (try simp at h) <;> omega

theorem drop_kinds (D : Design) (pre post : List ProcKind) (k0 : ProcKind) (hin : Inert (k0.toDef D)) :
    KindsEmbed D (dropσ pre.length) (dropτ pre.length) (pre ++ k0 :: post) (pre ++ post) := by
  refine ⟨drop_embed _, ?_, ?_, ?_⟩
  · intro q hq
    unfold dropσ
    by_cases h1 : q < pre.length
    · simp only [h1, if_true]
      rw [List.getElem?_append_left h1, List.getElem?_append_left h1]
    · simp only [h1, if_false]
      rw [List.getElem?_append_right (by omega), List.getElem?_append_right (by omega)]
      have : q + 1 - pre.length = (q - pre.length) + 1 := by omega
      rw [this, List.getElem?_cons_succ]
  · intro t
    unfold dropσ
    simp only [List.length_append, List.length_cons]
    split_ifs <;> omega
  · intro j hj
    unfold dropτ at hj
    split_ifs at hj with h1 h2
    subst h2
    exact ⟨k0, by rw [List.getElem?_append_right (Nat.le_refl _)]; simp, hin⟩

/-- a compiled process without statements is inert -/
theorem inert_comb_skip (D : Design) : Inert ((ProcKind.comb .skip).toDef D) := by
  intro l cur
  refine ⟨?_, rfl⟩
  show procUpdates D.ctx .skip _ = []
  unfold procUpdates
  simp only [stmtMask]
  apply List.filterMap_eq_nil_iff.mpr
  intro i _
  have : MaskTab.get (List.replicate D.ctx.length (0 : Int)) i = 0 := by
    unfold MaskTab.get; rw [List.getD_eq_getElem?_getD, List.getElem?_replicate]; split <;> rfl
  simp [this]

end Amaranth.Engine
