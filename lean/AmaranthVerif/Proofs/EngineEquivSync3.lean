import AmaranthVerif.Proofs.EngineEquivSync2

/-!
# `sync d (out := e)` replaced by `userSync d (exprSigs e) out e`: whole runs
-/

namespace Amaranth.Engine
open Amaranth

/-- a testbench write through a well-formed target keeps the pending values inside their shapes -/
theorem tbWrite_envN (ctx : Ctx) (cur nxt : Env) (tgt : Expr) (v : Int)
    (hcur : EnvN ctx cur) (hE : EnvN ctx nxt) (hw : tgt.twf ctx = true) :
    EnvN ctx (assignTbG true ctx cur tgt 0 v (widthOf ctx tgt) nxt) := by
  rw [tb_window_spec ctx cur (envN_envOk hcur) tgt hw 0 v (widthOf ctx tgt) nxt hE]
  exact applyBits_envN ctx v _ 0 nxt hE ((lbits_ok ctx cur tgt hw).win 0 _)

section
variable {D : Design} {pre post : List ProcKind} {scripts : List (List TbOp)} {d out : Nat} {e : Expr}

theorem syncKinds_length : (syncKindsB pre post d out e).length = (syncKindsA pre post d out e).length := by
  simp [syncKindsA, syncKindsB]

theorem syncKindsA_length : (syncKindsA pre post d out e).length = pre.length + 1 + post.length := by
  simp [syncKindsA]; omega

/-- the relation is kept by everything a run does -/
theorem sync_simRel (H : ReplHyp D pre post out) (HS : SyncHyp D d out) (hwf : e.wf D.ctx = true)
    (hsc : ∀ sc ∈ scripts, ScriptWrites (fun tgt => tgt.twf D.ctx = true) sc) (sched : Sched)
    (hnd : SchedNodup sched) (hl : ∀ k, pre.length ∈ (sched k).procs) (fuel : Nat) :
    SimRel (mkSim D (syncKindsA pre post d out e) scripts sched fuel) (mkSim D (syncKindsB pre post d out e) scripts sched fuel)
      (SyncRel D pre d out e) (fun tgt => tgt.twf D.ctx = true) where
  ctx := rfl
  doms := rfl
  scripts := rfl
  fuel := rfl
  curr := fun _ _ hr => hr.1.curr
  next := fun _ _ hr => hr.1.next
  now := fun _ _ hr => hr.1.now
  obs := fun _ _ hr => hr.1.obs
  loc := fun a b t hr => by
    show getLoc b ((syncKindsB pre post d out e).length + t) = getLoc a ((syncKindsA pre post d out e).length + t)
    rw [syncKinds_length]
    exact getLoc_of_off hr.1 _ (by rw [syncKindsA_length]; omega)
  setLoc := by
    intro a b t l ⟨hm, lA, lB, hlA, hlB, hq⟩
    have ho : (syncKindsA pre post d out e).length + t ≠ pre.length := by rw [syncKindsA_length]; omega
    obtain ⟨m, eA, eB⟩ := mid_setLoc hm _ ho l
    have elen : (syncKindsB pre post d out e).length = (syncKindsA pre post d out e).length := syncKinds_length
    show SyncRel D pre d out e (setLoc a ((syncKindsA pre post d out e).length + t) l) (setLoc b ((syncKindsB pre post d out e).length + t) l)
    rw [elen]
    exact ⟨m, lA, lB, eA.trans hlA, eB.trans hlB, hq⟩
  addObs := by
    intro a b x ⟨hm, lA, lB, hlA, hlB, hq⟩
    exact ⟨⟨hm.curr, hm.next, hm.timers, hm.now, hm.deltas, by simp only [hm.obs], hm.len, hm.off⟩, lA, lB, hlA, hlB, hq⟩
  setTimer := by
    intro a b t x ⟨hm, lA, lB, hlA, hlB, hq⟩
    have elen : (syncKindsB pre post d out e).length = (syncKindsA pre post d out e).length := syncKinds_length
    exact ⟨⟨hm.curr, hm.next, by
      show b.timers.set ((syncKindsB pre post d out e).length + t) x = a.timers.set ((syncKindsA pre post d out e).length + t) x
      rw [elen, hm.timers], hm.now, hm.deltas, hm.obs, hm.len, hm.off⟩, lA, lB, hlA, hlB, hq⟩
  write := by
    intro a b tgt v ⟨hm, lA, lB, hlA, hlB, hq⟩ hw
    obtain ⟨hcur, hn, hcase⟩ := hq
    have hn' := tbWrite_envN D.ctx a.curr a.next tgt v hcur hn hw
    exact ⟨⟨hm.curr, by simp only [hm.next], hm.timers, hm.now, hm.deltas, hm.obs, hm.len, hm.off⟩,
      lA, lB, hlA, hlB, hcur, hn', hcase⟩
  step := fun a b hr => sync_settle (scripts := scripts) H HS hwf sched hnd hl fuel a b hr
  time := by
    intro a b ⟨hm, lA, lB, hlA, hlB, hq⟩
    have hps := sync_sameOff D pre post scripts d out e
    obtain ⟨m, hloc⟩ := advanceTime_mid hps hm
    obtain ⟨eA, eB⟩ := hloc lA lB hlA hlB
    have gA : (simDefs D (syncKindsA pre post d out e) scripts).getD pre.length default = syncDef D d (.assign (.sig out) e) := by
      rw [List.getD_eq_getElem?_getD, sync_atA]; rfl
    have gB : (simDefs D (syncKindsB pre post d out e) scripts).getD pre.length default = syncDefB D d out e := by
      rw [List.getD_eq_getElem?_getD, sync_atB]; rfl
    rw [gA] at eA
    rw [gB] at eB
    have eA' : (advanceTime (simDefs D (syncKindsA pre post d out e) scripts) a).1.locals[pre.length]? = some lA := by
      rw [eA]; split <;> rfl
    have eB' : (advanceTime (simDefs D (syncKindsB pre post d out e) scripts) b).1.locals[pre.length]? = some lB := by
      rw [eB]; split <;> rfl
    have hc : (advanceTime (simDefs D (syncKindsA pre post d out e) scripts) a).1.curr = a.curr ∧
        (advanceTime (simDefs D (syncKindsA pre post d out e) scripts) a).1.next = a.next := by
      rcases advanceTime_spec (simDefs D (syncKindsA pre post d out e) scripts) a with ⟨h, _⟩ | ⟨_, _, _, _, _, _, _, h1, h2, _⟩
      · rw [h]; exact ⟨rfl, rfl⟩
      · exact ⟨h1, h2⟩
    refine ⟨m, lA, lB, eA', eB', ?_⟩
    show SyncQ D d e lA lB (advanceTime (simDefs D (syncKindsA pre post d out e) scripts) a).1.curr
      (advanceTime (simDefs D (syncKindsA pre post d out e) scripts) a).1.next
    rw [hc.1, hc.2]; exact hq
  scriptsOk := hsc

/-- the initial states correspond: at time 0 only the user process is runnable -/
theorem sync_init (hinit : EnvN D.ctx D.inits) :
    SyncRel D pre d out e (initState D (syncKindsA pre post d out e) scripts)
      (initState D (syncKindsB pre post d out e) scripts) := by
  refine ⟨⟨rfl, rfl, ?_, rfl, rfl, rfl, ?_, ?_⟩, {}, { runnable := true }, ?_, ?_, hinit, hinit, Or.inl ⟨rfl, rfl, rfl, rfl, rfl⟩⟩
  · simp only [initState, syncKinds_length]
  · simp [initState, syncKindsA, syncKindsB]
  · intro q hq
    simp only [initState, syncKindsA, syncKindsB, List.map_append, List.map_cons, List.append_assoc, List.cons_append]
    exact getElem?_append_cons_ne _ _ _ _ q (by simpa using hq)
  · simp only [initState, syncKindsA, List.map_append, List.map_cons, List.append_assoc, List.cons_append]
    rw [List.getElem?_append_right (by simp)]
    simp [ProcKind.initLocal]
  · simp only [initState, syncKindsB, List.map_append, List.map_cons, List.append_assoc, List.cons_append]
    rw [List.getElem?_append_right (by simp)]
    simp [ProcKind.initLocal]

end

end Amaranth.Engine
