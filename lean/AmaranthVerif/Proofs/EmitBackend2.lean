import AmaranthVerif.Proofs.EmitBackend

/-!
# Binary netlist operators and the multiplexer (helper lemmas for `C04.emit_expr_correct`)
-/

namespace Amaranth.Rtlil
open Amaranth

theorem extend_false_self (w a : Nat) (ha : a < 2 ^ w) : extend false w w a = a := by
  simp [extend, Nat.mod_eq_of_lt ha]

theorem specVal_wire (c : Ctx) (env : Env) (n : String) : specVal c env (.one (.wire n)) = env.getD n 0 % 2 ^ c.width n := by
  simp [specVal, SigSpec.chunks, chunkVal]

theorem b2n_mod' (b : Bool) : b2n b % 2 ^ 1 = b2n b := b2n_mod b

/-- the multiplexer: `c ? t : f` -/
def nirMux (cnd t f out : Nat) : Prop := out = if cnd % 2 = 1 then t else f

theorem emitMux_sound (c : Ctx) (m : Mems) (cv t f : Val) (k : Nat) (env : Env) (hlen : f.length = t.length)
    (hw : WidthsOk c (emitMux cv t f k).wires) :
    EmSound c m k env (emitMux cv t f k) (nirMux (valOf env cv) (valOf env t) (valOf env f)) := by
  have hwid : c.width (autoName k) = t.length := hw (autoName k, t.length) (by simp [emitMux])
  have ht := valOf_lt env t
  have hf := valOf_lt env f
  rw [hlen] at hf
  simp only [emitMux]
  refine emSound_cell c m k env _ _ _ _ (conn_mux _ _ _ _ _ _) (eval_mux c env _ _ _ _ _ _) hwid ?_ ?_
  · simp only [cellMux]; split <;> exact Nat.mod_lt _ (Nat.two_pow_pos _)
  · simp only [nirMux, cellMux, specVal_emitSpec, Nat.mod_eq_of_lt ht, Nat.mod_eq_of_lt hf]

/-- operators whose two operands must have the same width -/
def NOp2.isShift : NOp2 → Bool
  | .shl | .ushr | .sshr => true
  | _ => false

section binary
variable (c : Ctx) (m : Mems) (a b : Val) (k : Nat) (env : Env)

/-- shared by `+ - * == !=`: the picked signedness, both operands shortened under it -/
theorem anySign_operands (sg : Bool) (hlen : a.length = b.length) :
    toInt sg (shorten sg a).length (valOf env (shorten sg a)) = toInt sg a.length (valOf env a) ∧
    toInt sg (shorten sg b).length (valOf env (shorten sg b)) = toInt sg a.length (valOf env b) := by
  refine ⟨sval_shorten sg env a, ?_⟩
  rw [hlen]; exact sval_shorten sg env b

/-- the three cells of `// %`: `$divfloor`/`$modfloor` into `$k+1`, "divisor non-zero" into `$k+3`, the `$mux` into `$k` -/
theorem divmod_sound (s isDiv : Bool) (hl : a.length = b.length) (ha : a.old k) (hb : b.old k)
    (hw : WidthsOk c [(autoName k, a.length), (autoName (k + 1), a.length), (autoName (k + 3), 1)]) :
    EmSound c m k env
      { val := wireBits (autoName k) 0 a.length, next := k + 6,
        wires := [(autoName k, a.length), (autoName (k + 1), a.length), (autoName (k + 3), 1)],
        nodes := [.cell (binaryCell (if isDiv then "$divfloor" else "$modfloor") (autoName (k + 2)) s s (shorten s a) (shorten s b)
                      a.length (autoName (k + 1))),
                  .cell (unaryCell "$reduce_bool" (autoName (k + 4)) false (shorten s b) 1 (autoName (k + 3))),
                  .cell (muxCell (autoName (k + 5)) (.one (.wire (autoName (k + 3)))) (emitSpec (constBits 0 a.length))
                      (.one (.wire (autoName (k + 1)))) a.length (autoName k))] }
      (fun out => out = ofInt a.length ((if isDiv then zdiv else zmod) (toInt s a.length (valOf env a)) (toInt s a.length (valOf env b)))) := by
  have hwy : c.width (autoName k) = a.length := hw (autoName k, a.length) (by simp)
  have hwq : c.width (autoName (k + 1)) = a.length := hw (autoName (k + 1), a.length) (by simp)
  have hwnz : c.width (autoName (k + 3)) = 1 := hw (autoName (k + 3), 1) (by simp)
  obtain ⟨ea, eb⟩ := anySign_operands a b env s hl
  have hbo : (shorten s b).old k := old_shorten hb s
  -- the quotient / remainder cell
  generalize hqv : (if isDiv then cellDivFloor s s (shorten s a).length (shorten s b).length a.length (valOf env (shorten s a))
      (valOf env (shorten s b)) (undefVal c.xres a.length)
    else cellModFloor s s (shorten s a).length (shorten s b).length a.length (valOf env (shorten s a))
      (valOf env (shorten s b)) (undefVal c.xres a.length)) = qv
  have hqlt : qv < 2 ^ a.length := by
    rw [← hqv]
    cases isDiv
    · simp only [Bool.false_eq_true, if_false, cellModFloor]; split
      · exact Nat.mod_lt _ (Nat.two_pow_pos _)
      · exact ofInt_lt _ _
    · simp only [if_true, cellDivFloor]; split
      · exact Nat.mod_lt _ (Nat.two_pow_pos _)
      · exact ofInt_lt _ _
  have hev1 : evalCombCell c env (binaryCell (if isDiv then "$divfloor" else "$modfloor") (autoName (k + 2)) s s (shorten s a)
      (shorten s b) a.length (autoName (k + 1))) = .ok qv := by
    rw [← hqv]
    cases isDiv
    · exact eval_modfloor c env _ _ s _ _ _
    · exact eval_divfloor c env _ _ s _ _ _
  obtain ⟨r1, f1, _⟩ := run_cell c m env _ (k + 1) a.length qv k (conn_binary _ _ _ _ _ _ _ _) hev1 hwq hqlt (by omega)
  -- "divisor is not zero"
  have hb1 : valOf (env.insert (autoName (k + 1)) qv) (shorten s b) = valOf env (shorten s b) := valOf_frame f1 hbo
  have hnzlt : cellReduceOr (shorten s b).length 1 (valOf env (shorten s b)) < 2 ^ 1 := by
    simp only [cellReduceOr]; exact Nat.mod_lt _ (by norm_num)
  have hev2 := eval_reduce_bool c (env.insert (autoName (k + 1)) qv) (autoName (k + 4)) (autoName (k + 3)) (shorten s b) 1
  rw [hb1] at hev2
  obtain ⟨r2, f2, _⟩ := run_cell c m _ _ (k + 3) 1 _ k (conn_unary _ _ _ _ _ _) hev2 hwnz hnzlt (by omega)
  -- the multiplexer
  generalize hnz : cellReduceOr (shorten s b).length 1 (valOf env (shorten s b)) = nzv at r2 f2 hnzlt
  have hne : autoName (k + 1) ≠ autoName (k + 3) := fun e => by have := autoName_inj e; omega
  have hev3 := eval_mux c ((env.insert (autoName (k + 1)) qv).insert (autoName (k + 3)) nzv) (autoName (k + 5)) (autoName k)
    (.one (.wire (autoName (k + 3)))) (emitSpec (constBits 0 a.length)) (.one (.wire (autoName (k + 1)))) a.length
  rw [specVal_wire, specVal_wire, specVal_emitSpec, Std.HashMap.getD_insert_self, getD_insert_ne _ _ _ _ hne,
    Std.HashMap.getD_insert_self, hwq, hwnz, Nat.mod_eq_of_lt hqlt, Nat.mod_eq_of_lt hnzlt, valOf_constBits_nat] at hev3
  simp only [Int.zero_emod, Int.toNat_zero] at hev3
  have hout : cellMux a.length 0 qv nzv = ofInt a.length ((if isDiv then zdiv else zmod) (toInt s a.length (valOf env a))
      (toInt s a.length (valOf env b))) := by
    rw [← hqv, ← hnz, ← ea, ← eb]
    cases isDiv
    · simp only [Bool.false_eq_true, if_false, zmod]
      exact modfloor_guard s s _ _ _ _ _ _ (valOf_lt env _)
    · simp only [if_true, zdiv]
      exact divfloor_guard s s _ _ _ _ _ _ (valOf_lt env _)
  have hmlt : cellMux a.length 0 qv nzv < 2 ^ a.length := by rw [hout]; exact ofInt_lt _ _
  obtain ⟨r3, f3, v3⟩ := run_cell c m _ _ k a.length _ k (conn_mux _ _ _ _ _ _) hev3 hwy hmlt (Nat.le_refl k)
  have hrun := evalNodes_append_ok c m (a := [_]) (b := [_, _]) r1 (evalNodes_append_ok c m (a := [_]) (b := [_]) r2 r3)
  have hfr := (f1.trans f2 (Nat.le_refl k)).trans f3 (Nat.le_refl k)
  exact ⟨show k ≤ k + 6 by omega, old_wireBits (oldName_auto (show k < k + 6 by omega)) _ _,
    ⟨_, hrun, hfr, show valOf _ (wireBits (autoName k) 0 a.length) = _ by rw [v3, hout]⟩⟩

theorem emitBinary_sound (o : NOp2) (hlen : o.isShift = true ∨ a.length = b.length) (ha : a.old k) (hb : b.old k)
    (hw : WidthsOk c (emitBinary o a b k).wires) :
    EmSound c m k env (emitBinary o a b k) (nir2 o a.length (valOf env a) (valOf env b)) := by
  have hA := valOf_lt env a
  have hB := valOf_lt env b
  cases o with
  | add =>
    have hl : a.length = b.length := by simpa [NOp2.isShift] using hlen
    have hwid : c.width (autoName k) = a.length := hw (autoName k, a.length) (by simp [emitBinary, NOp2.isDivMod, NOp2.width])
    simp only [emitBinary, NOp2.width, NOp2.row, NOp2.anySign, NOp2.isDivMod, if_true, Bool.false_eq_true, if_false]
    generalize pickSign a b = sg
    obtain ⟨ea, eb⟩ := anySign_operands a b env sg hl
    refine emSound_cell c m k env _ _ _ _ (conn_binary _ _ _ _ _ _ _ _) (eval_add c env _ _ sg _ _ _) hwid ?_ ?_
    · rw [cellAdd_exact]; exact ofInt_lt _ _
    · intro s
      rw [cellAdd_exact, ea, eb]
      exact ofInt_congr ((toInt_congr_sign sg s _ _).add (toInt_congr_sign sg s _ _))
  | sub =>
    have hl : a.length = b.length := by simpa [NOp2.isShift] using hlen
    have hwid : c.width (autoName k) = a.length := hw (autoName k, a.length) (by simp [emitBinary, NOp2.isDivMod, NOp2.width])
    simp only [emitBinary, NOp2.width, NOp2.row, NOp2.anySign, NOp2.isDivMod, if_true, Bool.false_eq_true, if_false]
    generalize pickSign a b = sg
    obtain ⟨ea, eb⟩ := anySign_operands a b env sg hl
    refine emSound_cell c m k env _ _ _ _ (conn_binary _ _ _ _ _ _ _ _) (eval_sub c env _ _ sg _ _ _) hwid ?_ ?_
    · rw [cellSub_exact _ _ _ _ _ _ _ (valOf_lt env _)]; exact ofInt_lt _ _
    · intro s
      rw [cellSub_exact _ _ _ _ _ _ _ (valOf_lt env _), ea, eb]
      exact ofInt_congr ((toInt_congr_sign sg s _ _).sub (toInt_congr_sign sg s _ _))
  | mul =>
    have hl : a.length = b.length := by simpa [NOp2.isShift] using hlen
    have hwid : c.width (autoName k) = a.length := hw (autoName k, a.length) (by simp [emitBinary, NOp2.isDivMod, NOp2.width])
    simp only [emitBinary, NOp2.width, NOp2.row, NOp2.anySign, NOp2.isDivMod, if_true, Bool.false_eq_true, if_false]
    generalize pickSign a b = sg
    obtain ⟨ea, eb⟩ := anySign_operands a b env sg hl
    refine emSound_cell c m k env _ _ _ _ (conn_binary _ _ _ _ _ _ _ _) (eval_mul c env _ _ sg _ _ _) hwid ?_ ?_
    · rw [cellMul_exact]; exact ofInt_lt _ _
    · intro s
      rw [cellMul_exact, ea, eb]
      exact ofInt_congr ((toInt_congr_sign sg s _ _).mul (toInt_congr_sign sg s _ _))
  | eq =>
    have hl : a.length = b.length := by simpa [NOp2.isShift] using hlen
    have hwid : c.width (autoName k) = 1 := hw (autoName k, 1) (by simp [emitBinary, NOp2.isDivMod, NOp2.width])
    simp only [emitBinary, NOp2.width, NOp2.row, NOp2.anySign, NOp2.isDivMod, if_true, Bool.false_eq_true, if_false]
    generalize pickSign a b = sg
    obtain ⟨ea, eb⟩ := anySign_operands a b env sg hl
    have hB' : valOf env b < 2 ^ a.length := hl ▸ hB
    refine emSound_cell c m k env _ _ _ _ (conn_binary _ _ _ _ _ _ _ _) (eval_eq c env _ _ sg _ _ _) hwid ?_ ?_
    · simp only [cellEq]; exact Nat.mod_lt _ (by norm_num)
    · intro s
      rw [cellEq_exact _ _ _ _ _ _ (valOf_lt env _) (valOf_lt env _), ea, eb, b2n_mod]
      congr 1
      rw [decide_eq_decide, toInt_inj sg _ hA hB', toInt_inj s _ hA hB']
  | ne =>
    have hl : a.length = b.length := by simpa [NOp2.isShift] using hlen
    have hwid : c.width (autoName k) = 1 := hw (autoName k, 1) (by simp [emitBinary, NOp2.isDivMod, NOp2.width])
    simp only [emitBinary, NOp2.width, NOp2.row, NOp2.anySign, NOp2.isDivMod, if_true, Bool.false_eq_true, if_false]
    generalize pickSign a b = sg
    obtain ⟨ea, eb⟩ := anySign_operands a b env sg hl
    have hB' : valOf env b < 2 ^ a.length := hl ▸ hB
    refine emSound_cell c m k env _ _ _ _ (conn_binary _ _ _ _ _ _ _ _) (eval_ne c env _ _ sg _ _ _) hwid ?_ ?_
    · simp only [cellNe]; exact Nat.mod_lt _ (by norm_num)
    · intro s
      rw [cellNe_exact _ _ _ _ _ _ (valOf_lt env _) (valOf_lt env _), ea, eb, b2n_mod]
      congr 1
      rw [decide_eq_decide, not_iff_not, toInt_inj sg _ hA hB', toInt_inj s _ hA hB']
  | and =>
    have hl : a.length = b.length := by simpa [NOp2.isShift] using hlen
    have hwid : c.width (autoName k) = a.length := hw (autoName k, a.length) (by simp [emitBinary, NOp2.isDivMod, NOp2.width])
    have hB' : valOf env b < 2 ^ a.length := hl ▸ hB
    simp only [emitBinary, NOp2.width, NOp2.row, NOp2.anySign, NOp2.forced, NOp2.isDivMod, reduceCtorEq, if_true,
      Bool.false_eq_true, if_false]
    refine emSound_cell c m k env _ _ _ _ (conn_binary _ _ _ _ _ _ _ _) (eval_and c env _ _ _ _ _) hwid ?_ ?_
    · simp only [cellAnd, ← hl, extend_false_self _ _ hA, extend_false_self _ _ hB']
      exact Nat.and_lt_two_pow _ hB'
    · simp only [nir2, cellAnd, ← hl, extend_false_self _ _ hA, extend_false_self _ _ hB']
  | or =>
    have hl : a.length = b.length := by simpa [NOp2.isShift] using hlen
    have hwid : c.width (autoName k) = a.length := hw (autoName k, a.length) (by simp [emitBinary, NOp2.isDivMod, NOp2.width])
    have hB' : valOf env b < 2 ^ a.length := hl ▸ hB
    simp only [emitBinary, NOp2.width, NOp2.row, NOp2.anySign, NOp2.forced, NOp2.isDivMod, reduceCtorEq, if_true,
      Bool.false_eq_true, if_false]
    refine emSound_cell c m k env _ _ _ _ (conn_binary _ _ _ _ _ _ _ _) (eval_or c env _ _ _ _ _) hwid ?_ ?_
    · simp only [cellOr, ← hl, extend_false_self _ _ hA, extend_false_self _ _ hB']
      exact Nat.or_lt_two_pow hA hB'
    · simp only [nir2, cellOr, ← hl, extend_false_self _ _ hA, extend_false_self _ _ hB']
  | xor =>
    have hl : a.length = b.length := by simpa [NOp2.isShift] using hlen
    have hwid : c.width (autoName k) = a.length := hw (autoName k, a.length) (by simp [emitBinary, NOp2.isDivMod, NOp2.width])
    have hB' : valOf env b < 2 ^ a.length := hl ▸ hB
    simp only [emitBinary, NOp2.width, NOp2.row, NOp2.anySign, NOp2.forced, NOp2.isDivMod, reduceCtorEq, if_true,
      Bool.false_eq_true, if_false]
    refine emSound_cell c m k env _ _ _ _ (conn_binary _ _ _ _ _ _ _ _) (eval_xor c env _ _ _ _ _) hwid ?_ ?_
    · simp only [cellXor, ← hl, extend_false_self _ _ hA, extend_false_self _ _ hB']
      exact Nat.xor_lt_two_pow hA hB'
    · simp only [nir2, cellXor, ← hl, extend_false_self _ _ hA, extend_false_self _ _ hB']
  | ult =>
    have hl : a.length = b.length := by simpa [NOp2.isShift] using hlen
    have hwid : c.width (autoName k) = 1 := hw (autoName k, 1) (by simp [emitBinary, NOp2.isDivMod, NOp2.width])
    simp only [emitBinary, NOp2.width, NOp2.row, NOp2.anySign, NOp2.forced, NOp2.isDivMod, reduceCtorEq, if_true,
      Bool.false_eq_true, if_false]
    obtain ⟨ea, eb⟩ := anySign_operands a b env false hl
    refine emSound_cell c m k env _ _ _ _ (conn_binary _ _ _ _ _ _ _ _) (eval_lt c env _ _ false _ _ _) hwid ?_ ?_
    · simp only [cellLt]; exact Nat.mod_lt _ (by norm_num)
    · simp only [nir2]
      rw [cellLt_exact _ _ _ _ _ _ (valOf_lt env _) (valOf_lt env _), ea, eb, b2n_mod]
  | ugt =>
    have hl : a.length = b.length := by simpa [NOp2.isShift] using hlen
    have hwid : c.width (autoName k) = 1 := hw (autoName k, 1) (by simp [emitBinary, NOp2.isDivMod, NOp2.width])
    simp only [emitBinary, NOp2.width, NOp2.row, NOp2.anySign, NOp2.forced, NOp2.isDivMod, reduceCtorEq, if_true,
      Bool.false_eq_true, if_false]
    obtain ⟨ea, eb⟩ := anySign_operands a b env false hl
    refine emSound_cell c m k env _ _ _ _ (conn_binary _ _ _ _ _ _ _ _) (eval_gt c env _ _ false _ _ _) hwid ?_ ?_
    · simp only [cellGt]; exact Nat.mod_lt _ (by norm_num)
    · simp only [nir2]
      rw [cellGt_exact _ _ _ _ _ _ (valOf_lt env _) (valOf_lt env _), ea, eb, b2n_mod]
  | ule =>
    have hl : a.length = b.length := by simpa [NOp2.isShift] using hlen
    have hwid : c.width (autoName k) = 1 := hw (autoName k, 1) (by simp [emitBinary, NOp2.isDivMod, NOp2.width])
    simp only [emitBinary, NOp2.width, NOp2.row, NOp2.anySign, NOp2.forced, NOp2.isDivMod, reduceCtorEq, if_true,
      Bool.false_eq_true, if_false]
    obtain ⟨ea, eb⟩ := anySign_operands a b env false hl
    refine emSound_cell c m k env _ _ _ _ (conn_binary _ _ _ _ _ _ _ _) (eval_le c env _ _ false _ _ _) hwid ?_ ?_
    · simp only [cellLe]; exact Nat.mod_lt _ (by norm_num)
    · simp only [nir2]
      rw [cellLe_exact _ _ _ _ _ _ (valOf_lt env _) (valOf_lt env _), ea, eb, b2n_mod]
  | uge =>
    have hl : a.length = b.length := by simpa [NOp2.isShift] using hlen
    have hwid : c.width (autoName k) = 1 := hw (autoName k, 1) (by simp [emitBinary, NOp2.isDivMod, NOp2.width])
    simp only [emitBinary, NOp2.width, NOp2.row, NOp2.anySign, NOp2.forced, NOp2.isDivMod, reduceCtorEq, if_true,
      Bool.false_eq_true, if_false]
    obtain ⟨ea, eb⟩ := anySign_operands a b env false hl
    refine emSound_cell c m k env _ _ _ _ (conn_binary _ _ _ _ _ _ _ _) (eval_ge c env _ _ false _ _ _) hwid ?_ ?_
    · simp only [cellGe]; exact Nat.mod_lt _ (by norm_num)
    · simp only [nir2]
      rw [cellGe_exact _ _ _ _ _ _ (valOf_lt env _) (valOf_lt env _), ea, eb, b2n_mod]
  | slt =>
    have hl : a.length = b.length := by simpa [NOp2.isShift] using hlen
    have hwid : c.width (autoName k) = 1 := hw (autoName k, 1) (by simp [emitBinary, NOp2.isDivMod, NOp2.width])
    simp only [emitBinary, NOp2.width, NOp2.row, NOp2.anySign, NOp2.forced, NOp2.isDivMod, reduceCtorEq, if_true,
      Bool.false_eq_true, if_false]
    obtain ⟨ea, eb⟩ := anySign_operands a b env true hl
    refine emSound_cell c m k env _ _ _ _ (conn_binary _ _ _ _ _ _ _ _) (eval_lt c env _ _ true _ _ _) hwid ?_ ?_
    · simp only [cellLt]; exact Nat.mod_lt _ (by norm_num)
    · simp only [nir2]
      rw [cellLt_exact _ _ _ _ _ _ (valOf_lt env _) (valOf_lt env _), ea, eb, b2n_mod]
  | sgt =>
    have hl : a.length = b.length := by simpa [NOp2.isShift] using hlen
    have hwid : c.width (autoName k) = 1 := hw (autoName k, 1) (by simp [emitBinary, NOp2.isDivMod, NOp2.width])
    simp only [emitBinary, NOp2.width, NOp2.row, NOp2.anySign, NOp2.forced, NOp2.isDivMod, reduceCtorEq, if_true,
      Bool.false_eq_true, if_false]
    obtain ⟨ea, eb⟩ := anySign_operands a b env true hl
    refine emSound_cell c m k env _ _ _ _ (conn_binary _ _ _ _ _ _ _ _) (eval_gt c env _ _ true _ _ _) hwid ?_ ?_
    · simp only [cellGt]; exact Nat.mod_lt _ (by norm_num)
    · simp only [nir2]
      rw [cellGt_exact _ _ _ _ _ _ (valOf_lt env _) (valOf_lt env _), ea, eb, b2n_mod]
  | sle =>
    have hl : a.length = b.length := by simpa [NOp2.isShift] using hlen
    have hwid : c.width (autoName k) = 1 := hw (autoName k, 1) (by simp [emitBinary, NOp2.isDivMod, NOp2.width])
    simp only [emitBinary, NOp2.width, NOp2.row, NOp2.anySign, NOp2.forced, NOp2.isDivMod, reduceCtorEq, if_true,
      Bool.false_eq_true, if_false]
    obtain ⟨ea, eb⟩ := anySign_operands a b env true hl
    refine emSound_cell c m k env _ _ _ _ (conn_binary _ _ _ _ _ _ _ _) (eval_le c env _ _ true _ _ _) hwid ?_ ?_
    · simp only [cellLe]; exact Nat.mod_lt _ (by norm_num)
    · simp only [nir2]
      rw [cellLe_exact _ _ _ _ _ _ (valOf_lt env _) (valOf_lt env _), ea, eb, b2n_mod]
  | sge =>
    have hl : a.length = b.length := by simpa [NOp2.isShift] using hlen
    have hwid : c.width (autoName k) = 1 := hw (autoName k, 1) (by simp [emitBinary, NOp2.isDivMod, NOp2.width])
    simp only [emitBinary, NOp2.width, NOp2.row, NOp2.anySign, NOp2.forced, NOp2.isDivMod, reduceCtorEq, if_true,
      Bool.false_eq_true, if_false]
    obtain ⟨ea, eb⟩ := anySign_operands a b env true hl
    refine emSound_cell c m k env _ _ _ _ (conn_binary _ _ _ _ _ _ _ _) (eval_ge c env _ _ true _ _ _) hwid ?_ ?_
    · simp only [cellGe]; exact Nat.mod_lt _ (by norm_num)
    · simp only [nir2]
      rw [cellGe_exact _ _ _ _ _ _ (valOf_lt env _) (valOf_lt env _), ea, eb, b2n_mod]
  | shl =>
    have hwid : c.width (autoName k) = a.length := hw (autoName k, a.length) (by simp [emitBinary, NOp2.isDivMod, NOp2.width])
    simp only [emitBinary, NOp2.width, NOp2.row, NOp2.anySign, NOp2.forced, NOp2.isDivMod, reduceCtorEq, if_true,
      Bool.false_eq_true, if_false, pick_shorten]
    generalize decide ((shorten true a).length < (shorten false a).length) = sg
    have hla := shorten_length sg a
    have hsv : toInt sg (shorten sg a).length (valOf env (shorten sg a)) = toInt sg a.length (valOf env a) := sval_shorten sg env a
    have key : ∀ s, cellShl sg (shorten sg a).length a.length (valOf env (shorten sg a)) (valOf env (shorten false b))
        = ofInt a.length (toInt s a.length (valOf env a) * 2 ^ valOf env b) := by
      intro s
      simp only [cellShl, Nat.max_eq_right hla, valOf_shorten_false]
      have h1 : ((extend sg (shorten sg a).length a.length (valOf env (shorten sg a)) * 2 ^ valOf env b : Nat) : Int)
          ≡ toInt s a.length (valOf env a) * 2 ^ valOf env b [ZMOD 2 ^ a.length] := by
        push_cast
        exact ((extend_modEq sg _ a.length _).trans (hsv ▸ toInt_congr_sign sg s a.length _)).mul_right _
      exact eq_ofInt (Nat.mod_lt _ (Nat.two_pow_pos _)) ((natCast_mod_pow _ _).trans h1)
    refine emSound_cell c m k env _ _ _ _ (conn_binary _ _ _ _ _ _ _ _) (eval_shl c env _ _ sg _ _ _) hwid ?_ ?_
    · rw [key false]; exact ofInt_lt _ _
    · exact key
  | ushr =>
    have hwid : c.width (autoName k) = a.length := hw (autoName k, a.length) (by simp [emitBinary, NOp2.isDivMod, NOp2.width])
    simp only [emitBinary, NOp2.width, NOp2.row, NOp2.anySign, NOp2.forced, NOp2.isDivMod, reduceCtorEq, if_true,
      Bool.false_eq_true, if_false]
    have hla := shorten_length false a
    have hdiv : valOf env a / 2 ^ valOf env b < 2 ^ a.length := lt_of_le_of_lt (Nat.div_le_self _ _) hA
    have key : cellShr false (shorten false a).length a.length (valOf env (shorten false a)) (valOf env (shorten false b))
        = valOf env a / 2 ^ valOf env b := by
      rw [cellShr, Nat.max_eq_right hla, extend_unsigned _ _ _ (valOf_lt env _) hla, valOf_shorten_false,
        valOf_shorten_false, Nat.mod_eq_of_lt hdiv]
    refine emSound_cell c m k env _ _ _ _ (conn_binary _ _ _ _ _ _ _ _) (eval_shr c env _ _ _ _ _) hwid ?_ ?_
    · rw [key]; exact hdiv
    · exact key
  | sshr =>
    have hwid : c.width (autoName k) = a.length := hw (autoName k, a.length) (by simp [emitBinary, NOp2.isDivMod, NOp2.width])
    simp only [emitBinary, NOp2.width, NOp2.row, NOp2.anySign, NOp2.forced, NOp2.isDivMod, reduceCtorEq, if_true,
      Bool.false_eq_true, if_false]
    have hsv : toInt true (shorten true a).length (valOf env (shorten true a)) = toInt true a.length (valOf env a) := sval_shorten true env a
    have key : cellSshr true (shorten true a).length a.length (valOf env (shorten true a)) (valOf env (shorten false b))
        = ofInt a.length (toInt true a.length (valOf env a) / 2 ^ valOf env b) := by
      simp only [cellSshr, if_true, hsv, valOf_shorten_false]
    refine emSound_cell c m k env _ _ _ _ (conn_binary _ _ _ _ _ _ _ _) (eval_sshr c env _ _ _ _ _) hwid ?_ ?_
    · rw [key]; exact ofInt_lt _ _
    · exact key
  | udiv =>
    have hl : a.length = b.length := by simpa [NOp2.isShift] using hlen
    simp only [emitBinary, NOp2.width, NOp2.row, NOp2.anySign, NOp2.forced, NOp2.isDivMod, reduceCtorEq, if_true,
      Bool.false_eq_true, if_false] at hw ⊢
    exact divmod_sound c m a b k env false true hl ha hb hw
  | sdiv =>
    have hl : a.length = b.length := by simpa [NOp2.isShift] using hlen
    simp only [emitBinary, NOp2.width, NOp2.row, NOp2.anySign, NOp2.forced, NOp2.isDivMod, reduceCtorEq, if_true,
      Bool.false_eq_true, if_false] at hw ⊢
    exact divmod_sound c m a b k env true true hl ha hb hw
  | umod =>
    have hl : a.length = b.length := by simpa [NOp2.isShift] using hlen
    simp only [emitBinary, NOp2.width, NOp2.row, NOp2.anySign, NOp2.forced, NOp2.isDivMod, reduceCtorEq, if_true,
      Bool.false_eq_true, if_false] at hw ⊢
    exact divmod_sound c m a b k env false false hl ha hb hw
  | smod =>
    have hl : a.length = b.length := by simpa [NOp2.isShift] using hlen
    simp only [emitBinary, NOp2.width, NOp2.row, NOp2.anySign, NOp2.forced, NOp2.isDivMod, reduceCtorEq, if_true,
      Bool.false_eq_true, if_false] at hw ⊢
    exact divmod_sound c m a b k env true false hl ha hb hw

end binary

end Amaranth.Rtlil
