import AmaranthVerif.Model.Drivers
import AmaranthVerif.Spec.Drivers

/-!
# Helper lemmas for C06 (driver conflicts)

`connect_eq`, `claim_post`, `claimAll_post` characterise the two tables; `check_ok_iff` reduces the
whole-design check to "the drives are pairwise compatible", `conflict_iff_not_pairwise` does the
same for the Spec.
-/

namespace Amaranth.Drivers

theorem connect_eq : ∀ (bs conn : List Bit),
    connect conn bs = if (∀ b ∈ bs, b ∉ conn) ∧ bs.Nodup then some (bs.reverse ++ conn) else none
  | [], conn => by simp [connect]
  | b :: bs, conn => by
    simp only [connect]
    by_cases hb : b ∈ conn
    · simp [hb]
    · rw [if_neg hb, connect_eq bs (b :: conn)]
      by_cases h : (∀ x ∈ bs, x ∉ b :: conn) ∧ bs.Nodup
      · have h' : (∀ x ∈ b :: bs, x ∉ conn) ∧ (b :: bs).Nodup := by
          grind
        rw [if_pos h, if_pos h']; simp
      · have h' : ¬ ((∀ x ∈ b :: bs, x ∉ conn) ∧ (b :: bs).Nodup) := by
          grind
        rw [if_neg h, if_neg h']

theorem lookup_isSome {K O : Type} [DecidableEq K] (k : K) : ∀ (tbl : List (K × O)),
    (tbl.lookup k).isSome ↔ k ∈ tbl.map (·.1)
  | [] => by simp
  | (k', o) :: tbl => by
    rw [List.lookup_cons]
    by_cases h : k = k'
    · subst h; simp
    · have : (k == k') = false := by simpa using h
      simp [this, lookup_isSome k tbl, h]

theorem lookup_cons' {K O : Type} [DecidableEq K] (k k' : K) (o : O) (tbl : List (K × O)) :
    ((k', o) :: tbl).lookup k = if k = k' then some o else tbl.lookup k := by
  rw [List.lookup_cons]
  by_cases h : k = k'
  · subst h; simp
  · have : (k == k') = false := by simpa using h
    simp [this, h]

def ClaimPost {K O : Type} [DecidableEq K] [DecidableEq O] (o : O) (tbl : List (K × O)) (ks : List K) :
    Option (List (K × O)) → Prop
  | none => ∃ k ∈ ks, ∃ o', tbl.lookup k = some o' ∧ o' ≠ o
  | some t => (∀ k ∈ ks, ∀ o', tbl.lookup k = some o' → o' = o) ∧
      (∀ k, t.lookup k = (tbl.lookup k).or (if k ∈ ks then some o else none)) ∧
      ((tbl.map (·.1)).Nodup → (t.map (·.1)).Nodup)

theorem claim_post {K O : Type} [DecidableEq K] [DecidableEq O] (o : O) :
    ∀ (ks : List K) (tbl : List (K × O)), ClaimPost o tbl ks (claim o tbl ks)
  | [], tbl => by simp [claim, ClaimPost]
  | k :: ks, tbl => by
    simp only [claim]
    cases h : tbl.lookup k with
    | some o' =>
      simp only []
      by_cases ho : o' = o
      · rw [if_pos ho]
        have ih := claim_post o ks tbl
        revert ih
        cases claim o tbl ks with
        | none =>
          simp only [ClaimPost]
          rintro ⟨k1, hk1, o1, h1, h2⟩
          exact ⟨k1, List.mem_cons_of_mem _ hk1, o1, h1, h2⟩
        | some t =>
          simp only [ClaimPost]
          rintro ⟨h1, h2, h3⟩
          refine ⟨?_, ?_, h3⟩
          · intro k1 hk1 o1 ho1
            rcases List.mem_cons.mp hk1 with rfl | hk1
            · rw [h] at ho1; cases ho1; exact ho
            · exact h1 k1 hk1 o1 ho1
          · intro k1
            rw [h2 k1]
            by_cases hk : k1 = k
            · subst hk; rw [h]; rfl
            · simp [hk]
      · rw [if_neg ho]
        exact ⟨k, List.mem_cons_self, o', h, ho⟩
    | none =>
      simp only []
      have ih := claim_post o ks ((k, o) :: tbl)
      revert ih
      cases claim o ((k, o) :: tbl) ks with
      | none =>
        simp only [ClaimPost]
        rintro ⟨k1, hk1, o1, h1, h2⟩
        rw [lookup_cons'] at h1
        by_cases hk : k1 = k
        · rw [if_pos hk] at h1; cases h1; exact absurd rfl h2
        · rw [if_neg hk] at h1
          exact ⟨k1, List.mem_cons_of_mem _ hk1, o1, h1, h2⟩
      | some t =>
        simp only [ClaimPost]
        rintro ⟨h1, h2, h3⟩
        refine ⟨?_, ?_, ?_⟩
        · intro k1 hk1 o1 ho1
          rcases List.mem_cons.mp hk1 with rfl | hk1
          · rw [h] at ho1; cases ho1
          · by_cases hk : k1 = k
            · subst hk; rw [h] at ho1; cases ho1
            · exact h1 k1 hk1 o1 (by rw [lookup_cons', if_neg hk]; exact ho1)
        · intro k1
          rw [h2 k1, lookup_cons']
          by_cases hk : k1 = k
          · subst hk; rw [h]; simp
          · simp [hk]
        · intro hn
          apply h3
          simp only [List.map_cons, List.nodup_cons]
          refine ⟨?_, hn⟩
          intro hmem
          have := (lookup_isSome k tbl).mpr hmem
          rw [h] at this; cases this

/-- two table entries are compatible: a shared key has one owner -/
def OK {K O : Type} (a b : O × List K) : Prop := ∀ k ∈ a.2, k ∈ b.2 → a.1 = b.1

def AllPost {K O : Type} [DecidableEq K] [DecidableEq O] (tbl : List (K × O)) (items : List (O × List K)) :
    Option (List (K × O)) → Prop
  | none => (∃ it ∈ items, ∃ k ∈ it.2, ∃ o', tbl.lookup k = some o' ∧ o' ≠ it.1) ∨ ¬ items.Pairwise OK
  | some t => (∀ it ∈ items, ∀ k ∈ it.2, ∀ o', tbl.lookup k = some o' → o' = it.1) ∧ items.Pairwise OK ∧
      (∀ k, k ∈ t.map (·.1) ↔ k ∈ tbl.map (·.1) ∨ ∃ it ∈ items, k ∈ it.2) ∧
      ((tbl.map (·.1)).Nodup → (t.map (·.1)).Nodup)

theorem claimAll_post {K O : Type} [DecidableEq K] [DecidableEq O] :
    ∀ (items : List (O × List K)) (tbl : List (K × O)), AllPost tbl items (claimAll tbl items)
  | [], tbl => by simp [claimAll, AllPost]
  | (o, ks) :: rest, tbl => by
    simp only [claimAll]
    have h1 := claim_post o ks tbl
    revert h1
    cases claim o tbl ks with
    | none =>
      simp only [ClaimPost, AllPost]
      rintro ⟨k, hk, o', h1, h2⟩
      exact Or.inl ⟨(o, ks), List.mem_cons_self, k, hk, o', h1, h2⟩
    | some t1 =>
      simp only [ClaimPost]
      rintro ⟨c1, c2, c3⟩
      have ih := claimAll_post rest t1
      revert ih
      have key1 : ∀ k, k ∈ ks → t1.lookup k = some o := by
        intro k hk
        rw [c2 k]
        cases hl : tbl.lookup k with
        | none => simp [hk]
        | some x => rw [c1 k hk x hl]; rfl
      cases claimAll t1 rest with
      | none =>
        simp only [AllPost]
        rintro (⟨it, hit, k, hk, o', h1, h2⟩ | hpw)
        · rw [c2 k] at h1
          cases hl : tbl.lookup k with
          | some x =>
            rw [hl] at h1
            have : x = o' := by simpa using h1
            subst this
            exact Or.inl ⟨it, List.mem_cons_of_mem _ hit, k, hk, x, hl, h2⟩
          | none =>
            rw [hl] at h1
            by_cases hks : k ∈ ks
            · simp only [hks, if_true, Option.none_or, Option.some.injEq] at h1
              subst h1
              refine Or.inr ?_
              intro hp
              have := (List.pairwise_cons.mp hp).1 it hit k hks hk
              exact h2 this
            · simp [hks] at h1
        · refine Or.inr ?_
          intro hp
          exact hpw (List.pairwise_cons.mp hp).2
      | some t =>
        simp only [AllPost]
        rintro ⟨a1, a2, a3, a4⟩
        refine ⟨?_, ?_, ?_, fun hn => a4 (c3 hn)⟩
        · intro it hit k hk o' hl
          rcases List.mem_cons.mp hit with rfl | hit
          · exact c1 k hk o' hl
          · refine a1 it hit k hk o' ?_
            rw [c2 k, hl]; rfl
        · rw [List.pairwise_cons]
          refine ⟨?_, a2⟩
          intro b hb k hk hkb
          exact (a1 b hb k hkb o (key1 k hk)).symm ▸ rfl
        · intro k
          rw [a3 k]
          have hk1 : k ∈ t1.map (·.1) ↔ k ∈ tbl.map (·.1) ∨ k ∈ ks := by
            rw [← lookup_isSome, ← lookup_isSome, c2 k]
            cases tbl.lookup k with
            | some x => simp
            | none => by_cases hks : k ∈ ks <;> simp [hks]
          rw [hk1]
          constructor
          · rintro ((h | h) | ⟨it, hit, h⟩)
            · exact Or.inl h
            · exact Or.inr ⟨(o, ks), List.mem_cons_self, h⟩
            · exact Or.inr ⟨it, List.mem_cons_of_mem _ hit, h⟩
          · rintro (h | ⟨it, hit, h⟩)
            · exact Or.inl (Or.inl h)
            · rcases List.mem_cons.mp hit with rfl | hit
              · exact Or.inl (Or.inr h)
              · exact Or.inr ⟨it, hit, h⟩

/-- from the empty table: failure is exactly a pair of incompatible entries -/
theorem claimAll_nil_none_iff {K O : Type} [DecidableEq K] [DecidableEq O] (items : List (O × List K)) :
    claimAll ([] : List (K × O)) items = none ↔ ¬ items.Pairwise OK := by
  have h := claimAll_post items ([] : List (K × O))
  revert h
  cases claimAll ([] : List (K × O)) items with
  | none =>
    simp only [AllPost, List.lookup_nil, true_iff]
    rintro (⟨_, _, _, _, _, h, _⟩ | h)
    · cases h
    · exact h
  | some t =>
    simp only [AllPost]
    rintro ⟨_, h, _⟩
    simp [h]

theorem claimAll_nil_some {K O : Type} [DecidableEq K] [DecidableEq O] (items : List (O × List K))
    (t : List (K × O)) (h : claimAll ([] : List (K × O)) items = some t) :
    (∀ k, k ∈ t.map (·.1) ↔ ∃ it ∈ items, k ∈ it.2) ∧ (t.map (·.1)).Nodup := by
  have hp := claimAll_post items ([] : List (K × O))
  rw [h] at hp
  obtain ⟨_, _, h3, h4⟩ := hp
  exact ⟨fun k => by simpa using h3 k, h4 List.nodup_nil⟩

/-! ## from the tables to the Spec -/

theorem mem_bits (d : Drive) (s b : Nat) : (s, b) ∈ d.bits ↔ d.drives s b := by
  unfold Drive.bits Drive.drives
  simp only [List.mem_map, List.mem_range'_1, Prod.mk.injEq]
  constructor
  · rintro ⟨x, ⟨h1, h2⟩, h3, rfl⟩
    exact ⟨h3, h1, by omega⟩
  · rintro ⟨h1, h2, h3⟩
    exact ⟨b, ⟨h2, by omega⟩, h1, rfl⟩

theorem bits_nodup (d : Drive) : d.bits.Nodup := by
  unfold Drive.bits
  rw [List.Nodup, List.pairwise_map]
  exact (List.nodup_range' (s := d.lo) (n := d.hi - d.lo)).imp (fun hab h => hab (congrArg Prod.snd h))

/-- the two drives have no bit in common -/
def NoShare (a b : Drive) : Prop := ∀ s bit, a.drives s bit → b.drives s bit → False

/-- the two drives may coexist -/
def Compat (a b : Drive) : Prop := ∀ s bit, a.drives s bit → b.drives s bit → ¬ Clash a.src b.src

theorem noShare_iff (a b : Drive) : NoShare a b ↔ ∀ x ∈ a.bits, ∀ y ∈ b.bits, x ≠ y := by
  constructor
  · rintro h ⟨s, bit⟩ hx ⟨s', bit'⟩ hy heq
    cases heq
    exact h s bit ((mem_bits a s bit).mp hx) ((mem_bits b s bit).mp hy)
  · intro h s bit ha hb
    exact h (s, bit) ((mem_bits a s bit).mpr ha) (s, bit) ((mem_bits b s bit).mpr hb) rfl

theorem noShare_symm {a b : Drive} (h : NoShare a b) : NoShare b a := fun s bit hb ha => h s bit ha hb

theorem clash_symm {x y : Src} (h : Clash x y) : Clash y x := by
  cases x <;> cases y <;> simp_all [Clash]
  rcases h with h | h
  · exact Or.inl (fun e => h e.symm)
  · exact Or.inr (fun e => h e.symm)

theorem compat_symm {a b : Drive} (h : Compat a b) : Compat b a :=
  fun s bit hb ha hc => h s bit ha hb (clash_symm hc)

theorem clash_of_not_logic_left {x y : Src} (h : x.isLogic = false) : Clash x y := by
  cases x <;> cases y <;> simp_all [Clash, Src.isLogic]

theorem compat_iff_noShare_left {a b : Drive} (h : a.src.isLogic = false) : Compat a b ↔ NoShare a b :=
  ⟨fun hc s bit ha hb => hc s bit ha hb (clash_of_not_logic_left h),
   fun hn s bit ha hb _ => hn s bit ha hb⟩

theorem compat_iff_noShare_right {a b : Drive} (h : b.src.isLogic = false) : Compat a b ↔ NoShare a b :=
  ⟨fun hc => noShare_symm ((compat_iff_noShare_left h).mp (compat_symm hc)),
   fun hn => compat_symm ((compat_iff_noShare_left h).mpr (noShare_symm hn))⟩

theorem compat_iff_ok {a b : Drive} (ha : a.src.isLogic = true) (hb : b.src.isLogic = true) :
    Compat a b ↔ OK a.item b.item := by
  unfold Compat OK Drive.item
  cases hsa : a.src with
  | logic m d =>
    cases hsb : b.src with
    | logic m' d' =>
      simp only [Clash]
      constructor
      · rintro h ⟨s, bit⟩ hx hy
        have := h s bit ((mem_bits a s bit).mp hx) ((mem_bits b s bit).mp hy)
        simp only [not_or, Decidable.not_not] at this
        rw [this.1, this.2]
      · intro h s bit hx hy hc
        have := h (s, bit) ((mem_bits a s bit).mpr hx) ((mem_bits b s bit).mpr hy)
        simp only [Prod.mk.injEq] at this
        rcases hc with hc | hc
        · exact hc this.1
        · exact hc this.2
    | _ => simp [hsb, Src.isLogic] at hb
  | _ => simp [hsa, Src.isLogic] at ha

theorem nodup_flatMap_bits (xs : List Drive) : (xs.flatMap Drive.bits).Nodup ↔ xs.Pairwise NoShare := by
  rw [List.Nodup, List.pairwise_flatMap]
  constructor
  · rintro ⟨_, h⟩
    exact h.imp (fun {a b} hab => (noShare_iff a b).mpr hab)
  · intro h
    exact ⟨fun a _ => bits_nodup a, h.imp (fun {a b} hab => (noShare_iff a b).mp hab)⟩

theorem conflict_iff_not_pairwise (ds : List Drive) : Conflict ds ↔ ¬ ds.Pairwise Compat := by
  rw [List.pairwise_iff_getElem]
  constructor
  · rintro ⟨i, j, a, b, s, bit, hij, hi, hj, ha, hb, hc⟩ h
    obtain ⟨hi', rfl⟩ := List.getElem?_eq_some_iff.mp hi
    obtain ⟨hj', rfl⟩ := List.getElem?_eq_some_iff.mp hj
    exact h i j hi' hj' hij s bit ha hb hc
  · intro h
    apply Classical.byContradiction
    intro hn
    apply h
    intro i j hi hj hij s bit ha hb hc
    exact hn ⟨i, j, ds[i], ds[j], s, bit, hij, by simp [hi], by simp [hj], ha, hb, hc⟩

theorem split_perm (ds : List Drive) : (walkDrives ds ++ (logicDrives ds ++ topDrives ds)).Perm ds := by
  unfold walkDrives logicDrives topDrives laterDrives
  have h1 := List.filter_append_perm (fun d : Drive => d.src.isWalk) ds
  have h2 := List.filter_append_perm (fun d : Drive => d.src.isLogic) (ds.filter fun d => !d.src.isWalk)
  exact (List.Perm.append_left _ h2).trans h1

theorem mem_walk {ds : List Drive} {a : Drive} (h : a ∈ walkDrives ds) : a.src.isLogic = false := by
  have := (List.mem_filter.mp h).2
  cases hs : a.src <;> simp_all [Src.isWalk, Src.isLogic]

theorem mem_logic {ds : List Drive} {a : Drive} (h : a ∈ logicDrives ds) : a.src.isLogic = true :=
  (List.mem_filter.mp h).2

theorem mem_top {ds : List Drive} {a : Drive} (h : a ∈ topDrives ds) : a.src.isLogic = false := by
  simpa using (List.mem_filter.mp h).2

/-- the whole-design check accepts exactly the designs whose drives are pairwise compatible -/
theorem check_ok_iff (ds : List Drive) : check ds = .ok ↔ ds.Pairwise Compat := by
  rw [← List.Perm.pairwise_iff (fun h => compat_symm h) (split_perm ds)]
  rw [List.pairwise_append, List.pairwise_append]
  have hW : (walkDrives ds).Pairwise Compat ↔ ((walkDrives ds).flatMap Drive.bits).Nodup := by
    rw [nodup_flatMap_bits]
    exact List.Pairwise.iff_of_mem fun ha _ => compat_iff_noShare_left (mem_walk ha)
  have hT : (topDrives ds).Pairwise Compat ↔ ((topDrives ds).flatMap Drive.bits).Nodup := by
    rw [nodup_flatMap_bits]
    exact List.Pairwise.iff_of_mem fun ha _ => compat_iff_noShare_left (mem_top ha)
  have hL : (logicDrives ds).Pairwise Compat ↔ ((logicDrives ds).map Drive.item).Pairwise OK := by
    rw [List.pairwise_map]
    exact List.Pairwise.iff_of_mem fun ha hb => compat_iff_ok (mem_logic ha) (mem_logic hb)
  rw [hW, hT, hL]
  unfold check
  rw [connect_eq]
  by_cases c1 : ((walkDrives ds).flatMap Drive.bits).Nodup
  · have : (∀ b ∈ (walkDrives ds).flatMap Drive.bits, b ∉ ([] : List Bit)) ∧
        ((walkDrives ds).flatMap Drive.bits).Nodup := ⟨by simp, c1⟩
    rw [if_pos this]
    simp only []
    cases hcl : claimAll ([] : List (Bit × Nat × Nat)) ((logicDrives ds).map Drive.item) with
    | none =>
      have := (claimAll_nil_none_iff _).mp hcl
      simp only []
      constructor
      · intro h; cases h
      · rintro ⟨_, ⟨h, _⟩, _⟩; exact absurd h this
    | some tbl =>
      have hpw : ((logicDrives ds).map Drive.item).Pairwise OK := by
        apply Classical.byContradiction
        intro hn
        rw [(claimAll_nil_none_iff _).mpr hn] at hcl
        cases hcl
      obtain ⟨hkeys, hknd⟩ := claimAll_nil_some _ tbl hcl
      have hkeys' : ∀ x : Bit, x ∈ tbl.map (·.1) ↔ ∃ d ∈ logicDrives ds, x ∈ d.bits := by
        intro x
        rw [hkeys x]
        constructor
        · rintro ⟨it, hit, hx⟩
          obtain ⟨d, hd, rfl⟩ := List.mem_map.mp hit
          refine ⟨d, hd, ?_⟩
          have hl := mem_logic hd
          unfold Drive.item at hx
          cases hs : d.src with
          | logic m dom => rw [hs] at hx; exact hx
          | _ => simp [hs, Src.isLogic] at hl
        · rintro ⟨d, hd, hx⟩
          refine ⟨d.item, List.mem_map.mpr ⟨d, hd, rfl⟩, ?_⟩
          have hl := mem_logic hd
          unfold Drive.item
          cases hs : d.src with
          | logic m dom => exact hx
          | _ => simp [hs, Src.isLogic] at hl
      simp only []
      rw [connect_eq]
      -- the condition of the last connect, in terms of drives
      have hcond : ((∀ b ∈ tbl.map (·.1) ++ (topDrives ds).flatMap Drive.bits,
            b ∉ ((walkDrives ds).flatMap Drive.bits).reverse ++ []) ∧
            (tbl.map (·.1) ++ (topDrives ds).flatMap Drive.bits).Nodup) ↔
          (((topDrives ds).flatMap Drive.bits).Nodup ∧
            (∀ a ∈ logicDrives ds, ∀ b ∈ topDrives ds, Compat a b)) ∧
          (∀ a ∈ walkDrives ds, ∀ b ∈ logicDrives ds ++ topDrives ds, Compat a b) := by
        have e1 : ∀ a ∈ walkDrives ds, ∀ b, Compat a b ↔ NoShare a b :=
          fun a ha b => compat_iff_noShare_left (mem_walk ha)
        have e2 : ∀ a, ∀ b ∈ topDrives ds, Compat a b ↔ NoShare a b :=
          fun a b hb => compat_iff_noShare_right (mem_top hb)
        rw [List.nodup_append]
        simp only [List.mem_append, List.append_nil, List.mem_reverse, List.mem_flatMap, hkeys']
        constructor
        · rintro ⟨h1, _, h3, h4⟩
          refine ⟨⟨h3, ?_⟩, ?_⟩
          · intro a ha b hb
            rw [e2 a b hb, noShare_iff]
            intro x hx y hy
            exact h4 x ⟨a, ha, hx⟩ y ⟨b, hb, hy⟩
          · intro a ha b hb
            rw [e1 a ha b, noShare_iff]
            intro x hx y hy hxy
            subst hxy
            rcases hb with hb | hb
            · exact h1 x (Or.inl ⟨b, hb, hy⟩) ⟨a, ha, hx⟩
            · exact h1 x (Or.inr ⟨b, hb, hy⟩) ⟨a, ha, hx⟩
        · rintro ⟨⟨h3, h4⟩, h1⟩
          refine ⟨?_, hknd, h3, ?_⟩
          · rintro x hx ⟨a, ha, hxa⟩
            rcases hx with ⟨b, hb, hxb⟩ | ⟨b, hb, hxb⟩
            · exact (noShare_iff a b).mp ((e1 a ha b).mp (h1 a ha b (Or.inl hb))) x hxa x hxb rfl
            · exact (noShare_iff a b).mp ((e1 a ha b).mp (h1 a ha b (Or.inr hb))) x hxa x hxb rfl
          · rintro x ⟨a, ha, hxa⟩ y ⟨b, hb, hyb⟩
            exact (noShare_iff a b).mp ((e2 a b hb).mp (h4 a ha b hb)) x hxa y hyb
      by_cases c3 : (∀ b ∈ tbl.map (·.1) ++ (topDrives ds).flatMap Drive.bits,
            b ∉ ((walkDrives ds).flatMap Drive.bits).reverse ++ []) ∧
            (tbl.map (·.1) ++ (topDrives ds).flatMap Drive.bits).Nodup
      · rw [if_pos c3]
        have := hcond.mp c3
        simp only [true_iff]
        exact ⟨c1, ⟨hpw, this.1.1, this.1.2⟩, this.2⟩
      · rw [if_neg c3]
        simp only []
        constructor
        · intro h; cases h
        · rintro ⟨_, ⟨_, h3, h4⟩, h1⟩
          exact absurd (hcond.mpr ⟨⟨h3, h4⟩, h1⟩) c3
  · have : ¬ ((∀ b ∈ (walkDrives ds).flatMap Drive.bits, b ∉ ([] : List Bit)) ∧
        ((walkDrives ds).flatMap Drive.bits).Nodup) := fun h => c1 h.2
    rw [if_neg this]
    simp only []
    constructor
    · intro h; cases h
    · rintro ⟨h, _⟩; exact absurd h c1

/-! ## the early check of `Module._add_statement` -/

/-- no "one module, two domains" on a shared bit -/
def ECompat (a b : Drive) : Prop :=
  ∀ s bit m d d', a.drives s bit → b.drives s bit → a.src = .logic m d → b.src = .logic m d' → d = d'

theorem sameModule_iff_not_pairwise (ds : List Drive) : SameModuleConflict ds ↔ ¬ ds.Pairwise ECompat := by
  rw [List.pairwise_iff_getElem]
  constructor
  · rintro ⟨i, j, a, b, s, bit, m, d, d', hij, hi, hj, ha, hb, hsa, hsb, hd⟩ h
    obtain ⟨hi', rfl⟩ := List.getElem?_eq_some_iff.mp hi
    obtain ⟨hj', rfl⟩ := List.getElem?_eq_some_iff.mp hj
    exact hd (h i j hi' hj' hij s bit m d d' ha hb hsa hsb)
  · intro h
    apply Classical.byContradiction
    intro hn
    apply h
    intro i j hi hj hij s bit m d d' ha hb hsa hsb
    apply Classical.byContradiction
    intro hd
    exact hn ⟨i, j, ds[i], ds[j], s, bit, m, d, d', hij, by simp [hi], by simp [hj], ha, hb, hsa, hsb, hd⟩

theorem ecompat_iff_ok {a b : Drive} (ha : a.src.isLogic = true) (hb : b.src.isLogic = true) :
    ECompat a b ↔ OK a.earlyItem b.earlyItem := by
  unfold ECompat OK Drive.earlyItem
  cases hsa : a.src with
  | logic m d =>
    cases hsb : b.src with
    | logic m' d' =>
      simp only [List.mem_map]
      constructor
      · rintro h k ⟨⟨s, bit⟩, hx, rfl⟩ ⟨⟨s', bit'⟩, hy, heq⟩
        simp only [Prod.mk.injEq] at heq
        obtain ⟨hm, hs, hbit⟩ := heq
        subst hm hs hbit
        exact h s' bit' m' d d' ((mem_bits a _ _).mp hx) ((mem_bits b _ _).mp hy) rfl rfl
      · intro h s bit m0 d0 d0' hx hy e1 e2
        have h1 := Src.logic.inj e1
        have h2 := Src.logic.inj e2
        rw [← h1.2, ← h2.2]
        refine h (m, (s, bit)) ⟨(s, bit), (mem_bits a s bit).mpr hx, rfl⟩ ⟨(s, bit), (mem_bits b s bit).mpr hy, ?_⟩
        rw [h1.1, h2.1]
    | _ => simp [hsb, Src.isLogic] at hb
  | _ => simp [hsa, Src.isLogic] at ha

theorem early_iff (ds : List Drive) : early ds = true ↔ SameModuleConflict ds := by
  unfold early
  rw [Option.isNone_iff_eq_none, claimAll_nil_none_iff, sameModule_iff_not_pairwise, List.pairwise_map,
    List.pairwise_filter]
  apply not_congr
  apply List.Pairwise.iff_of_mem
  intro a b _ _
  constructor
  · intro h s bit m d d' hx hy hsa hsb
    have ha : a.src.isLogic = true := by rw [hsa]; rfl
    have hb : b.src.isLogic = true := by rw [hsb]; rfl
    exact (ecompat_iff_ok ha hb).mpr (h ha hb) s bit m d d' hx hy hsa hsb
  · intro h ha hb
    exact (ecompat_iff_ok ha hb).mp h

theorem sameModule_conflict {ds : List Drive} (h : SameModuleConflict ds) : Conflict ds := by
  obtain ⟨i, j, a, b, s, bit, m, d, d', hij, hi, hj, ha, hb, hsa, hsb, hd⟩ := h
  refine ⟨i, j, a, b, s, bit, hij, hi, hj, ha, hb, ?_⟩
  rw [hsa, hsb]
  exact Or.inr hd

/-! ## the brute-force decision procedures of the Spec -/

theorem shareB_iff (a b : Drive) : shareB a b = true ↔ ∃ s bit, a.drives s bit ∧ b.drives s bit := by
  unfold shareB Drive.drives
  simp only [Bool.and_eq_true, beq_iff_eq, List.any_eq_true, List.mem_range, decide_eq_true_eq]
  constructor
  · rintro ⟨hs, bit, h1, ⟨h2, h3⟩, h4⟩
    exact ⟨a.sig, bit, ⟨rfl, h2, h1⟩, ⟨hs.symm, h3, h4⟩⟩
  · rintro ⟨s, bit, ⟨h1, h2, h3⟩, ⟨h4, h5, h6⟩⟩
    exact ⟨by rw [h1, h4], bit, h3, ⟨h2, h5⟩, h6⟩

theorem clashB_iff (x y : Src) : clashB x y = true ↔ Clash x y := by
  cases x <;> cases y <;> simp [clashB, Clash]

theorem not_compat_iff (a b : Drive) :
    ¬ Compat a b ↔ (clashB a.src b.src && shareB a b) = true := by
  rw [Bool.and_eq_true, clashB_iff, shareB_iff]
  unfold Compat
  constructor
  · intro h
    apply Classical.byContradiction
    intro hn
    apply h
    intro s bit ha hb hc
    exact hn ⟨hc, s, bit, ha, hb⟩
  · rintro ⟨hc, s, bit, ha, hb⟩ h
    exact h s bit ha hb hc

theorem conflictB_not_pairwise : ∀ ds : List Drive, conflictB ds = true ↔ ¬ ds.Pairwise Compat
  | [] => by simp [conflictB]
  | a :: rest => by
    simp only [conflictB, Bool.or_eq_true, List.any_eq_true, List.pairwise_cons, conflictB_not_pairwise rest]
    constructor
    · rintro (⟨b, hb, h⟩ | h) ⟨h1, h2⟩
      · exact (not_compat_iff a b).mpr h (h1 b hb)
      · exact h h2
    · intro h
      apply Classical.byContradiction
      intro hn
      apply h
      refine ⟨?_, ?_⟩
      · intro b hb
        apply Classical.byContradiction
        intro hc
        exact hn (Or.inl ⟨b, hb, (not_compat_iff a b).mp hc⟩)
      · apply Classical.byContradiction
        intro hc
        exact hn (Or.inr hc)

theorem twoDomainsB_iff (x y : Src) : twoDomainsB x y = true ↔ ∃ m d d', x = .logic m d ∧ y = .logic m d' ∧ d ≠ d' := by
  cases x with
  | logic m d =>
    cases y with
    | logic m' d' =>
      simp only [twoDomainsB, Bool.and_eq_true, beq_iff_eq, bne_iff_ne]
      constructor
      · rintro ⟨rfl, h⟩; exact ⟨m, d, d', rfl, rfl, h⟩
      · rintro ⟨m0, d0, d0', h1, h2, h3⟩
        cases h1; cases h2; exact ⟨rfl, h3⟩
    | _ => simp [twoDomainsB]
  | _ => simp [twoDomainsB]

theorem not_ecompat_iff (a b : Drive) :
    ¬ ECompat a b ↔ (twoDomainsB a.src b.src && shareB a b) = true := by
  rw [Bool.and_eq_true, twoDomainsB_iff, shareB_iff]
  unfold ECompat
  constructor
  · intro h
    apply Classical.byContradiction
    intro hn
    apply h
    intro s bit m d d' ha hb hsa hsb
    apply Classical.byContradiction
    intro hd
    exact hn ⟨⟨m, d, d', hsa, hsb, hd⟩, s, bit, ha, hb⟩
  · rintro ⟨⟨m, d, d', hsa, hsb, hd⟩, s, bit, ha, hb⟩ h
    exact hd (h s bit m d d' ha hb hsa hsb)

theorem sameModuleB_not_pairwise : ∀ ds : List Drive, sameModuleB ds = true ↔ ¬ ds.Pairwise ECompat
  | [] => by simp [sameModuleB]
  | a :: rest => by
    simp only [sameModuleB, Bool.or_eq_true, List.any_eq_true, List.pairwise_cons, sameModuleB_not_pairwise rest]
    constructor
    · rintro (⟨b, hb, h⟩ | h) ⟨h1, h2⟩
      · exact (not_ecompat_iff a b).mpr h (h1 b hb)
      · exact h h2
    · intro h
      apply Classical.byContradiction
      intro hn
      apply h
      refine ⟨?_, ?_⟩
      · intro b hb
        apply Classical.byContradiction
        intro hc
        exact hn (Or.inl ⟨b, hb, (not_ecompat_iff a b).mp hc⟩)
      · apply Classical.byContradiction
        intro hc
        exact hn (Or.inr hc)

end Amaranth.Drivers
