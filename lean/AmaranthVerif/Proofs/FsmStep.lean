import AmaranthVerif.Proofs.FsmLower
import AmaranthVerif.Proofs.ProcessModelSpec

/-!
# One step of a program with FSMs: the registers follow the Spec's configuration

With `ws` the active writes of the lowered program (`lowerD_writes`: the Spec's events, every `m.next = S` as the load
of `S`'s code), the state after the step is `applyWrites ws`. Here: what that does to a state register (`reg_after`:
the code of the last active `m.next` of its FSM, or unchanged) and to every other bit (`nonreg_after`: what the
assignments alone do), provided no assignment addresses a register bit and distinct FSMs have distinct registers.
-/

namespace Amaranth

/-- the last active `m.next` of the FSM whose register is `r` -/
def lastGoto : List Ev → Nat → Option String
  | [], _ => none
  | .write .. :: rest, r => lastGoto rest r
  | .goto h _ name :: rest, r =>
    match lastGoto rest r with
    | some x => some x
    | none => if h.reg = r then some name else none

theorem after_eq : ∀ (evs : List Ev) (σ : Conf) (r : Nat),
    (σ.after evs) r = match lastGoto evs r with | some s => some s | none => σ r
  | [], _, _ => rfl
  | .write .. :: rest, σ, r => by simp only [Conf.after, lastGoto]; exact after_eq rest σ r
  | .goto h es name :: rest, σ, r => by
    simp only [Conf.after, lastGoto]
    rw [after_eq rest _ r]
    cases lastGoto rest r with
    | some x => rfl
    | none =>
      simp only
      by_cases e : h.reg = r
      · simp [e]
      · have e' : ¬ r = h.reg := fun x => e x.symm
        simp [e, e']

theorem lastGoto_mem : ∀ (evs : List Ev) (r : Nat) (s : String), lastGoto evs r = some s →
    ∃ h es, Ev.goto h es s ∈ evs ∧ h.reg = r
  | [], _, _, h => by simp [lastGoto] at h
  | .write .. :: rest, r, s, h => by
    simp only [lastGoto] at h
    obtain ⟨h', es, hm, hr⟩ := lastGoto_mem rest r s h
    exact ⟨h', es, List.mem_cons_of_mem _ hm, hr⟩
  | .goto h0 es0 name :: rest, r, s, h => by
    simp only [lastGoto] at h
    cases hl : lastGoto rest r with
    | some x =>
      rw [hl] at h
      simp only [Option.some.injEq] at h
      subst h
      obtain ⟨h', es, hm, hr⟩ := lastGoto_mem rest r x hl
      exact ⟨h', es, List.mem_cons_of_mem _ hm, hr⟩
    | none =>
      rw [hl] at h
      simp only at h
      split at h
      · rename_i e
        simp only [Option.some.injEq] at h
        subst h
        exact ⟨h0, es0, List.mem_cons_self .., e⟩
      · cases h

theorem write_mem_writes : ∀ (evs : List Ev) (l : Expr) (v : Int), Ev.write l v ∈ evs → (l, v) ∈ Ev.writes evs
  | [], _, _, h => by cases h
  | .write l' v' :: rest, l, v, h => by
    simp only [List.mem_cons] at h
    simp only [Ev.writes, List.mem_cons]
    rcases h with h | h
    · injection h with e1 e2; exact Or.inl (by rw [e1, e2])
    · exact Or.inr (write_mem_writes rest l v h)
  | .goto .. :: rest, l, v, h => by
    simp only [List.mem_cons] at h
    simp only [Ev.writes]
    rcases h with h | h
    · cases h
    · exact write_mem_writes rest l v h

section
variable (ctx : Ctx) (cur : Env)

theorem lastWrite_sig_self (r b : Nat) (hb : b < (ctx.shape r).width) :
    lastWrite (lbits ctx cur (.sig r)) 0 r b = some b :=
  lastWrite_of_getD (sig_lbits_nodup ctx cur r) (sig_lbits_getD ctx cur r b hb)

theorem lastWrite_sig_other (j i b : Nat) (h : j ≠ i) : lastWrite (lbits ctx cur (.sig j)) 0 i b = none := by
  rw [lastWrite_none_iff]
  simp only [lbits, List.mem_map, List.mem_range, Option.some.injEq, Prod.mk.injEq, not_exists, not_and]
  intro x _ hx; exact fun _ => h hx

/-- the last write to a bit of a state register is the last `m.next` of its FSM -/
theorem wbit_reg (r : Nat) (order : List String) (b : Nat) (hb : b < (ctx.shape r).width) : ∀ (evs : List Ev),
    (∀ w ∈ Ev.writes evs, some (r, b) ∉ lbits ctx cur w.1) →
    (∀ h es s, Ev.goto h es s ∈ evs → h.reg = r → encOrder es = order) →
    wbit ctx cur (evs.map Ev.toWrite) r b = (lastGoto evs r).map (fun s => ibit (code order s : Int) b)
  | [], _, _ => rfl
  | .write l v :: rest, hu, hs => by
    have ih := wbit_reg r order b hb rest (fun w hw => hu w (by simp only [Ev.writes]; exact List.mem_cons_of_mem _ hw))
      (fun h es s hm => hs h es s (List.mem_cons_of_mem _ hm))
    have hl : lastWrite (lbits ctx cur l) 0 r b = none := by
      rw [lastWrite_none_iff]; exact hu (l, v) (by simp [Ev.writes])
    simp only [List.map_cons, Ev.toWrite, wbit, lastGoto, ih, hl, Option.map_none]
    cases lastGoto rest r <;> rfl
  | .goto h es name :: rest, hu, hs => by
    have ih := wbit_reg r order b hb rest (fun w hw => hu w (by simpa only [Ev.writes] using hw))
      (fun h es s hm => hs h es s (List.mem_cons_of_mem _ hm))
    simp only [List.map_cons, Ev.toWrite, wbit, lastGoto, ih]
    cases lastGoto rest r with
    | some x => rfl
    | none =>
      simp only [Option.map_none]
      by_cases e : h.reg = r
      · have ho := hs h es name (List.mem_cons_self ..) e
        subst e
        rw [lastWrite_sig_self ctx cur h.reg b hb, ho]
        simp
      · rw [lastWrite_sig_other ctx cur h.reg r b e]
        simp [e]

/-- a bit of a signal that is no register of an FSM with an active `m.next` sees the assignments only -/
theorem wbit_nonreg (i b : Nat) : ∀ (evs : List Ev), (∀ h es s, Ev.goto h es s ∈ evs → h.reg ≠ i) →
    wbit ctx cur (evs.map Ev.toWrite) i b = wbit ctx cur (Ev.writes evs) i b
  | [], _ => rfl
  | .write l v :: rest, hn => by
    have ih := wbit_nonreg i b rest (fun h es s hm => hn h es s (List.mem_cons_of_mem _ hm))
    simp only [List.map_cons, Ev.toWrite, Ev.writes, wbit, ih]
  | .goto h es name :: rest, hn => by
    have ih := wbit_nonreg i b rest (fun h es s hm => hn h es s (List.mem_cons_of_mem _ hm))
    have e := hn h es name (List.mem_cons_self ..)
    simp only [List.map_cons, Ev.toWrite, Ev.writes, wbit, ih, lastWrite_sig_other ctx cur h.reg i b e, Option.map_none]
    cases wbit ctx cur (Ev.writes rest) i b <;> rfl

theorem toWrite_twf (evs : List Ev) (ht : ∀ w ∈ Ev.writes evs, w.1.twf ctx = true)
    (hg : ∀ h es s, Ev.goto h es s ∈ evs → h.reg < ctx.length) :
    ∀ w ∈ evs.map Ev.toWrite, w.1.twf ctx = true := by
  induction evs with
  | nil => intro w hw; simp at hw
  | cons e rest ih =>
    intro w hw
    simp only [List.map_cons, List.mem_cons] at hw
    rcases hw with hw | hw
    · subst hw
      cases e with
      | write l v => exact ht (l, v) (by simp [Ev.writes])
      | goto h es s =>
        simp only [Ev.toWrite, Expr.twf, decide_eq_true_eq]
        exact hg h es s (List.mem_cons_self ..)
    · refine ih (fun w hw => ht w ?_) (fun h es s hm => hg h es s (List.mem_cons_of_mem _ hm)) w hw
      cases e with
      | write l v => simp only [Ev.writes]; exact List.mem_cons_of_mem _ hw
      | goto h es s => simpa only [Ev.writes] using hw

/-- **a state register after the step**: the code of the last active `m.next` of its FSM, else unchanged -/
theorem reg_after (hC : EnvN ctx cur) (evs : List Ev) (r : Nat) (order : List String)
    (hr : r < ctx.length) (hsh : ctx.shape r = ⟨fsmWidth order.length, false⟩)
    (ht : ∀ w ∈ Ev.writes evs, w.1.twf ctx = true)
    (hg : ∀ h es s, Ev.goto h es s ∈ evs → h.reg < ctx.length)
    (hu : ∀ w ∈ Ev.writes evs, ∀ b, some (r, b) ∉ lbits ctx cur w.1)
    (hs : ∀ h es s, Ev.goto h es s ∈ evs → h.reg = r → encOrder es = order ∧ s ∈ order) :
    (applyWrites ctx cur (evs.map Ev.toWrite) cur).val r =
      match lastGoto evs r with
      | some s => (code order s : Int)
      | none => cur.val r := by
  obtain ⟨hN, hbits⟩ := applyWrites_bits ctx cur (evs.map Ev.toWrite) cur hC (toWrite_twf ctx evs ht hg)
  have hwf := (hN.ok r hr).1
  have hcont := (hN.ok r hr).2
  have hbit : ∀ b, b < (ctx.shape r).width →
      ibit ((applyWrites ctx cur (evs.map Ev.toWrite) cur).val r) b =
        ((lastGoto evs r).map (fun s => ibit (code order s : Int) b)).getD (ibit (cur.val r) b) := by
    intro b hb
    have := hbits r b hr hb
    unfold bitAt at this
    rw [this, wbit_reg ctx cur r order b hb evs (fun w hw => hu w hw b) (fun h es s hm e => (hs h es s hm e).1)]
  cases hl : lastGoto evs r with
  | none =>
    simp only
    apply eq_of_ibits (ctx.shape r) hwf hcont (hC.ok r hr).2
    intro b hb
    rw [hbit b hb, hl]; rfl
  | some s =>
    simp only
    obtain ⟨h, es, hm, he⟩ := lastGoto_mem evs r s hl
    have hso := (hs h es s hm he).2
    have hc : (ctx.shape r).contains (code order s : Int) := by rw [hsh]; exact code_contained hso
    apply eq_of_ibits (ctx.shape r) hwf hcont hc
    intro b hb
    rw [hbit b hb, hl]; rfl

/-- **every other bit after the step** is what the assignments alone make it -/
theorem nonreg_after (hC : EnvN ctx cur) (evs : List Ev)
    (ht : ∀ w ∈ Ev.writes evs, w.1.twf ctx = true)
    (hg : ∀ h es s, Ev.goto h es s ∈ evs → h.reg < ctx.length)
    (i b : Nat) (hi : i < ctx.length) (hb : b < (ctx.shape i).width)
    (hn : ∀ h es s, Ev.goto h es s ∈ evs → h.reg ≠ i) :
    bitAt (applyWrites ctx cur (evs.map Ev.toWrite) cur) i b = bitAt (applyWrites ctx cur (Ev.writes evs) cur) i b := by
  rw [(applyWrites_bits ctx cur (evs.map Ev.toWrite) cur hC (toWrite_twf ctx evs ht hg)).2 i b hi hb,
      (applyWrites_bits ctx cur (Ev.writes evs) cur hC ht).2 i b hi hb, wbit_nonreg ctx cur i b evs hn]

/-- `stepWith` started from the current values is `applyWrites` on the current values -/
theorem stepWith_self (tg : List Expr) (ws : List (Expr × Int)) (hC : EnvN ctx cur) :
    stepWith ctx tg ws cur cur = applyWrites ctx cur ws cur := by
  unfold stepWith
  simp only
  congr 1
  apply List.ext_getElem (by simp [hC.len])
  intro i h1 h2
  simp only [List.getElem_map, List.getElem_range, ite_self]
  have hi : i < ctx.length := by simpa using h1
  have hv : cur.val i = cur[i] := by unfold Env.val; simp [List.getD_eq_getElem?_getD, h2]
  rw [← hv]
  exact rebuild_bits (ctx.shape i) (hC.ok i hi).1 (cur.val i) (hC.ok i hi).2

end

end Amaranth
