import AmaranthVerif.Proofs.EngineDelta

/-!
# The timeline: the loop of `_PyTimeline.advance` finds the minimum deadline and exactly its wakers
-/

namespace Amaranth.Engine
open Amaranth

/-- what the loop has computed after the entries `pre` -/
def ScanGood (pre : List (Nat × Nat)) (acc : Option Nat × List Nat) : Prop :=
  match acc.1 with
  | none => pre = [] ∧ acc.2 = []
  | some d => (∃ e ∈ pre, e.2 = d) ∧ (∀ e ∈ pre, d ≤ e.2) ∧
      acc.2 = (pre.filter (fun e => e.2 == d)).map (·.1)

theorem scanStep_good (pre : List (Nat × Nat)) (acc : Option Nat × List Nat) (e : Nat × Nat)
    (h : ScanGood pre acc) : ScanGood (pre ++ [e]) (scanStep acc e) := by
  obtain ⟨a1, a2⟩ := acc
  cases a1 with
  | none =>
    simp only [ScanGood] at h
    obtain ⟨hp, _⟩ := h
    subst hp
    simp [scanStep, ScanGood]
  | some d =>
    simp only [ScanGood] at h
    obtain ⟨⟨x, hx, hxd⟩, hmin, hws⟩ := h
    simp only [scanStep]
    by_cases hle : e.2 ≤ d
    · simp only [hle, if_true]
      by_cases hlt : e.2 < d
      · simp only [hlt, if_true, ScanGood]
        refine ⟨⟨e, by simp, rfl⟩, ?_, ?_⟩
        · intro y hy
          rcases List.mem_append.mp hy with hy | hy
          · have := hmin y hy; omega
          · simp at hy; subst hy; exact Nat.le_refl _
        · have hnone : pre.filter (fun y => y.2 == e.2) = [] := by
            rw [List.filter_eq_nil_iff]
            intro y hy
            have := hmin y hy
            simp; omega
          simp [List.filter_append, hnone]
      · have heq : e.2 = d := by omega
        simp only [hlt, if_false, ScanGood]
        refine ⟨⟨e, by simp, rfl⟩, ?_, ?_⟩
        · intro y hy
          rcases List.mem_append.mp hy with hy | hy
          · have := hmin y hy; omega
          · simp at hy; subst hy; exact Nat.le_refl _
        · simp [List.filter_append, hws, heq]
    · simp only [hle, if_false, ScanGood]
      refine ⟨⟨x, by simp [hx], hxd⟩, ?_, ?_⟩
      · intro y hy
        rcases List.mem_append.mp hy with hy | hy
        · exact hmin y hy
        · simp at hy; subst hy; omega
      · have : (e.2 == d) = false := by simp; omega
        simp [List.filter_append, hws, this]

theorem scan_foldl_good (es pre : List (Nat × Nat)) (acc : Option Nat × List Nat) (h : ScanGood pre acc) :
    ScanGood (pre ++ es) (es.foldl scanStep acc) := by
  induction es generalizing pre acc with
  | nil => simpa using h
  | cons e es ih =>
    simp only [List.foldl_cons]
    have := ih (pre ++ [e]) (scanStep acc e) (scanStep_good pre acc e h)
    simpa using this

theorem scanNearest_good (es : List (Nat × Nat)) : ScanGood es (scanNearest es) := by
  have := scan_foldl_good es [] (none, []) (by simp [ScanGood])
  simpa [scanNearest] using this

/-! ## The entries of the timeline -/

theorem mem_entriesFrom (ts : List (Option Nat)) (k i d : Nat) :
    (i, d) ∈ entriesFrom k ts ↔ k ≤ i ∧ ts[i - k]? = some (some d) := by
  induction ts generalizing k with
  | nil => simp [entriesFrom]
  | cons t ts ih =>
    cases t with
    | none =>
      simp only [entriesFrom, ih]
      constructor
      · rintro ⟨hk, h⟩
        refine ⟨by omega, ?_⟩
        have : i - k = (i - (k + 1)) + 1 := by omega
        rw [this, List.getElem?_cons_succ]; exact h
      · rintro ⟨hk, h⟩
        by_cases hik : i = k
        · subst hik; simp at h
        · refine ⟨by omega, ?_⟩
          have : i - k = (i - (k + 1)) + 1 := by omega
          rw [this, List.getElem?_cons_succ] at h; exact h
    | some d' =>
      simp only [entriesFrom, List.mem_cons, ih]
      constructor
      · rintro (h | ⟨hk, h⟩)
        · cases h; simp
        · refine ⟨by omega, ?_⟩
          have : i - k = (i - (k + 1)) + 1 := by omega
          rw [this, List.getElem?_cons_succ]; exact h
      · rintro ⟨hk, h⟩
        by_cases hik : i = k
        · subst hik
          simp at h
          left; rw [h]
        · right
          refine ⟨by omega, ?_⟩
          have : i - k = (i - (k + 1)) + 1 := by omega
          rw [this, List.getElem?_cons_succ] at h; exact h

theorem mem_entries (ts : List (Option Nat)) (i d : Nat) :
    (i, d) ∈ entriesFrom 0 ts ↔ ts[i]? = some (some d) := by
  simpa using mem_entriesFrom ts 0 i d

theorem getElem?_mapIdxFrom {α β : Type} (f : Nat → α → β) (k : Nat) (l : List α) (i : Nat) :
    (mapIdxFrom f k l)[i]? = l[i]?.map (f (k + i)) := by
  induction l generalizing k i with
  | nil => simp [mapIdxFrom]
  | cons a as ih =>
    cases i with
    | zero => simp [mapIdxFrom]
    | succ i =>
      simp only [mapIdxFrom, List.getElem?_cons_succ, ih]
      congr 2; omega

/-- the deadline found is the minimum, it is somebody's deadline, and the wakers found are exactly
the owners registered for it -/
theorem nearest_spec (ts : List (Option Nat)) :
    match scanNearest (entriesFrom 0 ts) with
    | (none, ws) => (∀ (i d : Nat), ts[i]? ≠ some (some d)) ∧ ws = []
    | (some d, ws) => (∃ i : Nat, ts[i]? = some (some d)) ∧ (∀ (i d' : Nat), ts[i]? = some (some d') → d ≤ d') ∧
        ∀ i : Nat, i ∈ ws ↔ ts[i]? = some (some d) := by
  have h := scanNearest_good (entriesFrom 0 ts)
  generalize scanNearest (entriesFrom 0 ts) = r at h
  obtain ⟨r1, ws⟩ := r
  cases r1 with
  | none =>
    simp only [ScanGood] at h
    obtain ⟨he, hw⟩ := h
    refine ⟨fun i d hc => ?_, hw⟩
    have := (mem_entries ts i d).mpr hc; rw [he] at this; cases this
  | some d =>
    simp only [ScanGood] at h
    obtain ⟨⟨e, he, hed⟩, hmin, hws⟩ := h
    refine ⟨⟨e.1, ?_⟩, ?_, ?_⟩
    · have : (e.1, d) ∈ entriesFrom 0 ts := by rw [← hed]; exact he
      exact (mem_entries ts e.1 d).mp this
    · intro i d' hi
      exact hmin (i, d') ((mem_entries ts i d').mpr hi)
    · intro i
      rw [hws, List.mem_map]
      constructor
      · rintro ⟨x, hx, rfl⟩
        rw [List.mem_filter] at hx
        have hx2 : x.2 = d := by simpa using hx.2
        have : (x.1, d) ∈ entriesFrom 0 ts := by rw [← hx2]; exact hx.1
        exact (mem_entries ts x.1 d).mp this
      · intro hi
        exact ⟨(i, d), List.mem_filter.mpr ⟨(mem_entries ts i d).mpr hi, by simp⟩, rfl⟩

end Amaranth.Engine
