import AmaranthVerif.Proofs.DomainRefineMask
import AmaranthVerif.Proofs.ProcessModelSpec

/-!
# Bit-level readings of the Spec's merges and of the Model's commit, for the C03 refinement

* `selectBits_bits`, `mergeDriven_spec`: the Spec's per-bit merge, bit by bit;
* `commitInto_bits`, `syncNext_bits`, `resetOnlyInto_bits`: the Model's commit through the static masks, the pending
  values with the domain's reset applied, and the reset-only process, bit by bit;
* `rst_test`: the Model's test of the reset signal (`1 & rst`) is the Spec's `rst % 2 = 1`;
* `ctl_is_one`: the Model's `Switch(ctl){1: …}` selects its case exactly when the Spec's `denote ctl = 1` holds;
* `exec_eq_progStep`: running the lowered program on the current values gives the Spec's `progStep`.
-/

namespace Amaranth

/-! ## The Spec's merges -/

theorem ibit_bitSum01 : ∀ (n : Nat) (c : Nat → Bool) (b : Nat),
    ibit (bitSum (fun j => if c j then 1 else 0) n) b = (decide (b < n) && c b) := by
  intro n
  induction n with
  | zero => intro c b; simp [bitSum, ibit_zero']
  | succ n ih =>
    intro c b
    rw [bitSum_succ_front]
    have h0 : (0 : Int) ≤ (if c 0 then 1 else 0) := by split <;> omega
    have h1 : (if c 0 then 1 else 0 : Int) < 2 := by split <;> omega
    cases b with
    | zero =>
      rw [ibit_add_two_mul_zero _ _ h0 h1]
      cases c 0 <;> simp
    | succ b =>
      rw [ibit_add_two_mul_succ _ _ _ h0 h1, ih (fun j => c (j + 1)) b]
      simp

/-- `selectBits`, bit by bit -/
theorem selectBits_bits (s : Shape) (sel : Nat → Bool) (new old : Int) (b : Nat) (hb : b < s.width) :
    ibit (selectBits s sel new old) b = if sel b then ibit new b else ibit old b := by
  unfold selectBits
  rw [ibit_norm_lt _ _ _ hb]
  have e : (List.range s.width).foldl (fun acc b =>
        acc + (if ibit (if sel b then new else old) b then (2 : Int) ^ b else 0)) 0 =
      bitSum (fun j => if ibit (if sel j then new else old) j then 1 else 0) s.width := by
    unfold bitSum
    congr 1
    funext acc j
    congr 1
    by_cases hc : ibit (if sel j then new else old) j = true <;> simp [hc]
  rw [e, ibit_bitSum01]
  simp only [hb, decide_true, Bool.true_and]
  split <;> rfl

/-- `mergeDriven`, bit by bit: the bits the program drives (of the signals `keep` lets through) come from `new`,
all others from `old`; the result is a state of the design's shapes -/
theorem mergeDriven_spec (ctx : Ctx) (hwf : ∀ i, i < ctx.length → (ctx.shape i).WF) (prog : List Prog)
    (keep : Nat → Bool) (new old : Env) :
    EnvN ctx (mergeDriven ctx prog keep new old) ∧
    ∀ i b, i < ctx.length → b < (ctx.shape i).width →
      bitAt (mergeDriven ctx prog keep new old) i b =
        if progDrives ctx prog i b && keep i then bitAt new i b else bitAt old i b := by
  refine ⟨⟨by simp [mergeDriven], fun i hi => ?_⟩, fun i b hi hb => ?_⟩
  · unfold mergeDriven
    rw [val_map_range _ _ _ hi]
    exact ⟨hwf i hi, norm_contains _ (hwf i hi) _⟩
  · unfold bitAt mergeDriven
    rw [val_map_range _ _ _ hi, selectBits_bits _ _ _ _ _ hb]

/-! ## The Model's commit -/

theorem zeros_ok (ctx : Ctx) : MaskOk ctx (List.replicate ctx.length 0) := by
  intro j; rw [replicate_get, Shape.contains_u]; exact ⟨Int.le_refl _, two_pow_pos' _⟩

/-- the commit of a process through its static masks, bit by bit -/
theorem commitInto_bits (ctx : Ctx) (body : Stmt) (nxt acc : Env) (hN : EnvN ctx nxt) (hA : EnvN ctx acc) :
    EnvN ctx (commitInto ctx body nxt acc) ∧
    ∀ i b, i < ctx.length → b < (ctx.shape i).width →
      bitAt (commitInto ctx body nxt acc) i b =
        if ibit ((stmtMask ctx body (List.replicate ctx.length 0)).get i) b then bitAt nxt i b else bitAt acc i b := by
  have htab := stmtMask_ok ctx body _ (zeros_ok ctx)
  have hval : ∀ i, i < ctx.length → (commitInto ctx body nxt acc).val i =
      commitMask (ctx.shape i) (acc.val i) (nxt.val i) ((stmtMask ctx body (List.replicate ctx.length 0)).get i) := by
    intro i hi; unfold commitInto; simp only; rw [val_map_range _ _ _ hi]
  have hcm := fun i (hi : i < ctx.length) =>
    commitMask_bits (ctx.shape i) (hA.ok i hi).1 (acc.val i) (nxt.val i) _ (hA.ok i hi).2 (hN.ok i hi).2 (htab i)
  refine ⟨⟨by unfold commitInto; simp, fun i hi => ?_⟩, fun i b hi hb => ?_⟩
  · rw [hval i hi]; exact ⟨(hA.ok i hi).1, (hcm i hi).1⟩
  · unfold bitAt; rw [hval i hi, (hcm i hi).2 b hb]

/-- the Model's test of the reset signal, `1 & rst`, is the Spec's `rst % 2 = 1` -/
theorem rst_test (r : Int) : (pyAnd 1 r != 0) = decide (r % 2 = 1) := by
  have h1 : ibit (pyAnd 1 r) 0 = ibit r 0 := by
    rw [ibit_pyAnd]
    have : ibit (1 : Int) 0 = true := by decide
    rw [this, Bool.true_and]
  have hr : (Shape.mk 1 false).contains (pyAnd 1 r) := by
    apply contains_u_of_bits
    intro b hb
    rw [ibit_pyAnd]
    have : ibit (1 : Int) b = false := by
      have e : (1 : Int) = 2 ^ 0 := by simp
      rw [e, ibit_two_pow]; simp; omega
    rw [this, Bool.false_and]
  rw [Shape.contains_u] at hr
  rw [← ibit_zero_eq, ← h1]
  by_cases hz : pyAnd 1 r = 0
  · rw [hz]; simp [ibit_zero']
  · have : pyAnd 1 r = 1 := by omega
    rw [this]; decide

/-- the pending values of a synchronous process with the domain's reset applied, bit by bit -/
theorem syncNext_bits (ctx : Ctx) (inits : Env) (hI : EnvN ctx inits) (rl : List Bool) (rst : Option Int) (body : Stmt)
    (cur : Env) (hX : EnvN ctx (execRtl ctx cur body cur)) :
    EnvN ctx (syncNext ctx inits rl rst body cur) ∧
    ∀ i b, i < ctx.length → b < (ctx.shape i).width →
      bitAt (syncNext ctx inits rl rst body cur) i b =
        if decide (rst.getD 0 % 2 = 1) && (stmtSigs body).contains i && !(rl.getD i false) then bitAt inits i b
        else bitAt (execRtl ctx cur body cur) i b := by
  cases rst with
  | none =>
    refine ⟨hX, fun i b _ _ => ?_⟩
    show bitAt (execRtl ctx cur body cur) i b = _
    simp
  | some r =>
    unfold syncNext
    simp only [rst_test, Option.getD_some]
    by_cases hr : r % 2 = 1
    · simp only [hr, decide_true, if_true, Bool.true_and]
      refine ⟨⟨by simp, fun i hi => ?_⟩, fun i b hi hb => ?_⟩
      · rw [val_map_range _ _ _ hi]
        split
        · exact hI.ok i hi
        · exact hX.ok i hi
      · unfold bitAt
        rw [val_map_range _ _ _ hi]
        split <;> rfl
    · simp only [hr, decide_false, Bool.false_eq_true, if_false, Bool.false_and]
      exact ⟨hX, fun _ _ _ _ => by first | rfl | trivial⟩

/-- the reset-only process of an asynchronous-reset domain, bit by bit -/
theorem resetOnlyInto_bits (ctx : Ctx) (inits : Env) (hI : EnvN ctx inits) (rl : List Bool) (body : Stmt) (acc : Env)
    (hA : EnvN ctx acc) :
    EnvN ctx (resetOnlyInto ctx inits rl body acc) ∧
    ∀ i b, i < ctx.length → b < (ctx.shape i).width →
      bitAt (resetOnlyInto ctx inits rl body acc) i b =
        if (stmtSigs body).contains i && !(rl.getD i false) &&
            ibit ((stmtMask ctx body (List.replicate ctx.length 0)).get i) b then bitAt inits i b else bitAt acc i b := by
  have htab := stmtMask_ok ctx body _ (zeros_ok ctx)
  have hcm := fun i (hi : i < ctx.length) =>
    commitMask_bits (ctx.shape i) (hA.ok i hi).1 (acc.val i) (inits.val i) _ (hA.ok i hi).2 (hI.ok i hi).2 (htab i)
  refine ⟨⟨by unfold resetOnlyInto; simp, fun i hi => ?_⟩, fun i b hi hb => ?_⟩
  · unfold resetOnlyInto
    simp only
    rw [val_map_range _ _ _ hi]
    split
    · exact ⟨(hA.ok i hi).1, (hcm i hi).1⟩
    · exact hA.ok i hi
  · unfold bitAt resetOnlyInto
    simp only
    rw [val_map_range _ _ _ hi]
    by_cases h : ((stmtSigs body).contains i && !(rl.getD i false)) = true
    · simp only [h, if_true, Bool.true_and]
      exact (hcm i hi).2 b hb
    · have h' : ((stmtSigs body).contains i && !(rl.getD i false)) = false := by simpa using h
      simp only [h', Bool.false_eq_true, if_false, Bool.false_and]

/-- a masked bit belongs to a signal the statements mention -/
theorem mask_bit_sig (ctx : Ctx) (body : Stmt) (i b : Nat)
    (h : ibit ((stmtMask ctx body (List.replicate ctx.length 0)).get i) b = true) : (stmtSigs body).contains i = true := by
  cases hc : (stmtSigs body).contains i with
  | true => rfl
  | false =>
    exfalso
    have hni : i ∉ stmtSigs body := by
      intro hmem; rw [List.contains_iff_mem.mpr hmem] at hc; cases hc
    rw [stmtMask_untouched ctx i body _ hni, replicate_get, ibit_zero'] at h
    cases h

/-! ## Controls and the lowered program -/

/-- `Switch(ctl){1: …}` selects its case exactly when the control's value is the integer 1 (whatever its width:
a control that cannot hold 1 never has the value 1) -/
theorem ctl_is_one (ctx : Ctx) (cur : Env) (hok : EnvOk ctx cur) (ctl : Expr) (h : ctl.wf ctx = true) :
    matchesAny (onePattern ctx ctl) (mask (widthOf ctx ctl) (evalRtl ctx cur ctl)) = decide (denote ctx cur ctl = 1) := by
  rw [onePattern_matches ctx cur hok ctl h]
  by_cases h1 : denote ctx cur ctl = 1
  · have := (sound ctx cur hok ctl h).rng
    rw [h1] at this
    simp [h1, this]
  · simp [h1]

/-- running the lowered program on the current values is the Spec's step of the program -/
theorem exec_eq_progStep (ctx : Ctx) (cur : Env) (hok : EnvOk ctx cur) (hC : EnvN ctx cur) (prog : List Prog)
    (h : Prog.listOk ctx prog = true)
    (htg : ∀ e ∈ Prog.listTargets prog, e.twf ctx = true ∧ e.noAlias ctx cur) :
    execRtl ctx cur (lowerList ctx prog) cur = progStep ctx prog cur cur ∧ EnvN ctx (progStep ctx prog cur cur) := by
  have ht : ∀ w ∈ Prog.listWrites ctx cur prog, w.1.twf ctx = true ∧ w.1.noAlias ctx cur :=
    fun w hw => htg _ (listWrites_targets ctx cur prog w hw)
  obtain ⟨e1, e2⟩ := applyWritesRtl_eq_spec ctx cur hok _ ht cur hC
  rw [progStep_base_self ctx prog cur hC, lower_sound_list ctx cur hok prog h cur, e1]
  exact ⟨rfl, e2⟩

end Amaranth
