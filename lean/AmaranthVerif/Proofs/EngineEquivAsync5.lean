import AmaranthVerif.Proofs.EngineEquivAsync4

/-!
# A register of an `async_reset` domain replaced by the documented process form: whole runs
-/

namespace Amaranth.Engine
open Amaranth

section
variable {D : Design} {pre post : List ProcKind} {scripts : List (List TbOp)} {d out r : Nat} {e : Expr}

theorem asyncKinds_length : (asyncKindsB pre post d out e).length = (asyncKindsA pre post d out e).length := by
  simp [asyncKindsA, asyncKindsB]

theorem asyncKindsA_length : (asyncKindsA pre post d out e).length = pre.length + 2 + post.length := by
  simp [asyncKindsA]; omega

theorem getLoc_of_offP {P : Nat → Prop} {a b : EState} (hm : MidP P a b) (q : Nat) (hq : ¬ P q) : getLoc b q = getLoc a q := by
  unfold getLoc
  rw [List.getD_eq_getElem?_getD, List.getD_eq_getElem?_getD, hm.off q hq]

theorem midP_setLoc {P : Nat → Prop} {a b : EState} (hm : MidP P a b) (o : Nat) (l : Local) :
    MidP P (setLoc a o l) (setLoc b o l) := by
  refine ⟨hm.curr, hm.next, hm.timers, hm.now, hm.deltas, hm.obs, ?_, ?_⟩
  · simp only [setLoc, List.length_set, hm.len]
  · intro q hq
    simp only [setLoc, List.getElem?_set, hm.len, hm.off q hq]

theorem async_simRel (H : ReplHyp D pre post out) (HA : AsyncHyp D d out r) (hwf : e.wf D.ctx = true)
    (hsc : ∀ sc ∈ scripts, ScriptWrites (fun tgt => tgt.twf D.ctx = true) sc) (sched : Sched)
    (hnd : SchedNodup sched) (hl : ∀ k, pre.length ∈ (sched k).procs ∧ pre.length + 1 ∈ (sched k).procs) (fuel : Nat) :
    SimRel (mkSim D (asyncKindsA pre post d out e) scripts sched fuel) (mkSim D (asyncKindsB pre post d out e) scripts sched fuel)
      (AsyncRel D pre d r e) (fun tgt => tgt.twf D.ctx = true) where
  ctx := rfl
  doms := rfl
  scripts := rfl
  fuel := rfl
  curr := fun _ _ hr => hr.1.curr
  next := fun _ _ hr => hr.1.next
  now := fun _ _ hr => hr.1.now
  obs := fun _ _ hr => hr.1.obs
  loc := fun a b t hr => by
    show getLoc b ((asyncKindsB pre post d out e).length + t) = getLoc a ((asyncKindsA pre post d out e).length + t)
    rw [asyncKinds_length]
    exact getLoc_of_offP hr.1 _ (by rw [asyncKindsA_length]; unfold PP; omega)
  setLoc := by
    intro a b t l ⟨hm, lR, lS, lD, lB, hlR, hlS, hlD, hlB, hq⟩
    have elen : (asyncKindsB pre post d out e).length = (asyncKindsA pre post d out e).length := asyncKinds_length
    show AsyncRel D pre d r e (setLoc a ((asyncKindsA pre post d out e).length + t) l)
      (setLoc b ((asyncKindsB pre post d out e).length + t) l)
    rw [elen]
    have h0 : (asyncKindsA pre post d out e).length + t ≠ pre.length := by rw [asyncKindsA_length]; omega
    have h1 : (asyncKindsA pre post d out e).length + t ≠ pre.length + 1 := by rw [asyncKindsA_length]; omega
    exact ⟨midP_setLoc hm _ l, lR, lS, lD, lB, (List.getElem?_set_ne h0).trans hlR, (List.getElem?_set_ne h1).trans hlS,
      (List.getElem?_set_ne h0).trans hlD, (List.getElem?_set_ne h1).trans hlB, hq⟩
  addObs := by
    intro a b x ⟨hm, rest⟩
    exact ⟨⟨hm.curr, hm.next, hm.timers, hm.now, hm.deltas, by simp only [hm.obs], hm.len, hm.off⟩, rest⟩
  setTimer := by
    intro a b t x ⟨hm, rest⟩
    have elen : (asyncKindsB pre post d out e).length = (asyncKindsA pre post d out e).length := asyncKinds_length
    exact ⟨⟨hm.curr, hm.next, by
      show b.timers.set ((asyncKindsB pre post d out e).length + t) x = a.timers.set ((asyncKindsA pre post d out e).length + t) x
      rw [elen, hm.timers], hm.now, hm.deltas, hm.obs, hm.len, hm.off⟩, rest⟩
  write := by
    intro a b tgt v ⟨hm, lR, lS, lD, lB, hlR, hlS, hlD, hlB, hq⟩ hw
    obtain ⟨hcur, hn, hcase⟩ := hq
    have hn' := tbWrite_envN D.ctx a.curr a.next tgt v hcur hn hw
    exact ⟨⟨hm.curr, by simp only [hm.next], hm.timers, hm.now, hm.deltas, hm.obs, hm.len, hm.off⟩,
      lR, lS, lD, lB, hlR, hlS, hlD, hlB, hcur, hn', hcase⟩
  step := fun a b hr => async_settle (scripts := scripts) H HA hwf sched hnd hl fuel a b hr
  time := by
    intro a b ⟨hm, lR, lS, lD, lB, hlR, hlS, hlD, hlB, hq⟩
    have hps := async_sameOff D pre post scripts d out e
    obtain ⟨m, hloc⟩ := advanceTime_midP hps hm
    have gR : (simDefs D (asyncKindsA pre post d out e) scripts).getD pre.length default = arstDef D d (.assign (.sig out) e) := by
      rw [List.getD_eq_getElem?_getD, async_atR]; rfl
    have gS : (simDefs D (asyncKindsA pre post d out e) scripts).getD (pre.length + 1) default = syncDef D d (.assign (.sig out) e) := by
      rw [List.getD_eq_getElem?_getD, async_atS]; rfl
    have gD : (simDefs D (asyncKindsB pre post d out e) scripts).getD pre.length default = combDef D .skip := by
      rw [List.getD_eq_getElem?_getD, async_atD]; rfl
    have gB : (simDefs D (asyncKindsB pre post d out e) scripts).getD (pre.length + 1) default = syncDefB D d out e := by
      rw [List.getD_eq_getElem?_getD, async_atB]; rfl
    obtain ⟨eR, eD⟩ := hloc pre.length lR lD hlR hlD
    obtain ⟨eS, eB⟩ := hloc (pre.length + 1) lS lB hlS hlB
    rw [gR] at eR
    rw [gS] at eS
    rw [gD] at eD
    rw [gB] at eB
    have eR' : (advanceTime (simDefs D (asyncKindsA pre post d out e) scripts) a).1.locals[pre.length]? = some lR := by
      rw [eR]; split <;> rfl
    have eS' : (advanceTime (simDefs D (asyncKindsA pre post d out e) scripts) a).1.locals[pre.length + 1]? = some lS := by
      rw [eS]; split <;> rfl
    have eD' : (advanceTime (simDefs D (asyncKindsB pre post d out e) scripts) b).1.locals[pre.length]? = some lD := by
      rw [eD]; split <;> rfl
    have eB' : (advanceTime (simDefs D (asyncKindsB pre post d out e) scripts) b).1.locals[pre.length + 1]? = some lB := by
      rw [eB]; split <;> rfl
    have hc : (advanceTime (simDefs D (asyncKindsA pre post d out e) scripts) a).1.curr = a.curr ∧
        (advanceTime (simDefs D (asyncKindsA pre post d out e) scripts) a).1.next = a.next := by
      rcases advanceTime_spec (simDefs D (asyncKindsA pre post d out e) scripts) a with ⟨h, _⟩ | ⟨_, _, _, _, _, _, _, h1, h2, _⟩
      · rw [h]; exact ⟨rfl, rfl⟩
      · exact ⟨h1, h2⟩
    refine ⟨m, lR, lS, lD, lB, eR', eS', eD', eB', ?_⟩
    show AQ D d r e lR lS lB (advanceTime (simDefs D (asyncKindsA pre post d out e) scripts) a).1.curr
      (advanceTime (simDefs D (asyncKindsA pre post d out e) scripts) a).1.next
    rw [hc.1, hc.2]; exact hq
  scriptsOk := hsc

theorem async_init (hinit : EnvN D.ctx D.inits) :
    AsyncRel D pre d r e (initState D (asyncKindsA pre post d out e) scripts)
      (initState D (asyncKindsB pre post d out e) scripts) := by
  refine ⟨⟨rfl, rfl, ?_, rfl, rfl, rfl, ?_, ?_⟩, {}, {}, { runnable := true }, { runnable := true }, ?_, ?_, ?_, ?_,
    hinit, hinit, Or.inl ⟨rfl, rfl, rfl, rfl, rfl, rfl⟩⟩
  · simp only [initState, asyncKinds_length]
  · simp [initState, asyncKindsA, asyncKindsB]
  · intro q hq
    simp only [initState, asyncKindsA, asyncKindsB, List.map_append, List.map_cons, List.append_assoc, List.cons_append]
    exact getElem?_append_cons2_ne _ _ _ _ _ _ q (by simpa [PP] using hq)
  · simp only [initState, asyncKindsA, List.map_append, List.map_cons, List.append_assoc, List.cons_append]
    rw [List.getElem?_append_right (by simp)]
    simp [ProcKind.initLocal]
  · simp only [initState, asyncKindsA, List.map_append, List.map_cons, List.append_assoc, List.cons_append]
    rw [List.getElem?_append_right (by simp)]
    simp [ProcKind.initLocal]
  · simp only [initState, asyncKindsB, List.map_append, List.map_cons, List.append_assoc, List.cons_append]
    rw [List.getElem?_append_right (by simp)]
    simp [ProcKind.initLocal]
  · simp only [initState, asyncKindsB, List.map_append, List.map_cons, List.append_assoc, List.cons_append]
    rw [List.getElem?_append_right (by simp)]
    simp [ProcKind.initLocal]

theorem MidP.sameObs {P : Nat → Prop} {a b : EState} (h : MidP P a b) : SameObs a b := ⟨h.curr, h.next, h.now, h.obs⟩

/-- `arst` + `sync` against placeholder + `userSync`, same positions, same schedule -/
theorem async_equiv_runs (D : Design) (pre post : List ProcKind) (scripts : List (List TbOp)) (d out r : Nat) (e : Expr)
    (sched : Sched) (fuel : Nat) (H : ReplHyp D pre post out) (HA : AsyncHyp D d out r) (hwf : e.wf D.ctx = true)
    (hsc : ∀ sc ∈ scripts, ScriptWrites (fun tgt => tgt.twf D.ctx = true) sc)
    (hnd : SchedNodup sched) (hl : ∀ k, pre.length ∈ (sched k).procs ∧ pre.length + 1 ∈ (sched k).procs) (n : Nat) :
    SameObs (advanceN (mkSim D (asyncKindsA pre post d out e) scripts sched fuel) n (initState D (asyncKindsA pre post d out e) scripts))
      (advanceN (mkSim D (asyncKindsB pre post d out e) scripts sched fuel) n (initState D (asyncKindsB pre post d out e) scripts)) ∧
    SameObs (run (mkSim D (asyncKindsA pre post d out e) scripts sched fuel) n (initState D (asyncKindsA pre post d out e) scripts))
      (run (mkSim D (asyncKindsB pre post d out e) scripts sched fuel) n (initState D (asyncKindsB pre post d out e) scripts)) ∧
    ∀ deadline,
      SameObs (runUntil (mkSim D (asyncKindsA pre post d out e) scripts sched fuel) deadline n (initState D (asyncKindsA pre post d out e) scripts))
        (runUntil (mkSim D (asyncKindsB pre post d out e) scripts sched fuel) deadline n (initState D (asyncKindsB pre post d out e) scripts)) := by
  have hS := async_simRel (scripts := scripts) H HA hwf hsc sched hnd hl fuel
  have h0 := async_init (pre := pre) (post := post) (scripts := scripts) (d := d) (out := out) (r := r) (e := e) HA.inits
  exact ⟨(advanceN_rel2 hS n _ _ h0).1.sameObs, (run_rel2 hS n _ _ h0).1.sameObs,
    fun dl => (runUntil_rel2 hS dl n _ _ h0).1.sameObs⟩

end

end Amaranth.Engine
