import AmaranthVerif.Spec.Denote
import AmaranthVerif.Proofs.ShapeSound2
import AmaranthVerif.Proofs.Bitwise
import AmaranthVerif.Proofs.Patterns
import AmaranthVerif.Proofs.Arith

/-! # The compiled evaluator computes the exact integer, in a shape that contains it

One structural induction over `Expr` establishes, for every well-formed expression and every
environment in which each signal holds a value of its shape:
* the shape is constructible (`swf`);
* the shape contains the exact integer `denote` (`rng`) — no operator overflows;
* the compiled code's raw result is congruent to `denote` modulo `2^width` (`cong`), hence every
  consumer, which applies `mask` or `sign`, sees exactly `denote`;
* for the tail of a switch chain the raw value is already exact (`tail`).
-/

namespace Amaranth

structure Sound (ctx : Ctx) (env : Env) (e : Expr) : Prop where
  swf : (shapeOf ctx e).WF
  rng : (shapeOf ctx e).contains (denote ctx env e)
  cong : evalRtl ctx env e % 2 ^ (shapeOf ctx e).width = denote ctx env e % 2 ^ (shapeOf ctx e).width
  tail : e.isSwTail = true → evalRtl ctx env e = denote ctx env e

theorem Sound.sgn {ctx env e} (h : Sound ctx env e) :
    norm (shapeOf ctx e) (evalRtl ctx env e) = denote ctx env e :=
  norm_eq_of_congr _ h.swf h.rng h.cong

theorem Sound.msk {ctx env e} (h : Sound ctx env e) :
    mask (shapeOf ctx e).width (evalRtl ctx env e) = denote ctx env e % 2 ^ (shapeOf ctx e).width :=
  h.cong

/-- a contained value is zero iff it is zero modulo `2^w` -/
theorem contains_emod_zero (s : Shape) (h : s.WF) {v : Int} (hc : s.contains v) :
    v % 2 ^ s.width = 0 ↔ v = 0 := by
  constructor
  · intro h0
    have := norm_eq_of_congr s h (d := v) (r := 0) hc (by rw [h0]; exact Int.zero_emod _)
    have h2 : norm s 0 = 0 := by
      obtain ⟨w, sg⟩ := s
      have := two_pow_pos' (w - 1)
      cases sg
      · show (0 : Int) % 2 ^ w = 0; exact Int.zero_emod _
      · rw [norm_s]; simp <;> omega
    omega
  · intro h0; subst h0; simp

/-- all bits set, read through the shape -/
theorem contains_emod_allones (s : Shape) (h : s.WF) {v : Int} (hc : s.contains v) :
    (2 ^ s.width - 1 : Int) = v % 2 ^ s.width ↔ (if s.signed then v = -1 else v = (2 ^ s.width - 1 : Int)) := by
  obtain ⟨w, sg⟩ := s
  have hp := two_pow_pos' w
  cases sg
  · rw [Shape.contains_u] at hc
    simp only [Bool.false_eq_true, if_false]
    rw [Int.emod_eq_of_lt hc.1 hc.2]
    constructor <;> intro h <;> omega
  · have hw : 0 < w := h rfl
    rw [Shape.contains_s] at hc
    have e := two_pow_pred w hw
    simp only [if_true]
    by_cases hv : 0 ≤ v
    · rw [Int.emod_eq_of_lt hv (by omega)]
      constructor <;> intro h <;> omega
    · have : v % 2 ^ w = v + 2 ^ w := by
        have h2 : (v + 2 ^ w) % 2 ^ w = v + 2 ^ w := Int.emod_eq_of_lt (by omega) (by omega)
        rw [← h2]; simp
      rw [this]
      constructor <;> intro h <;> omega

theorem matchesAny_eq (pats : List Pat) (w : Nat) (hp : pats.all (fun p => p.length == w) = true)
    (t v : Int) (ht : t % 2 ^ w = v % 2 ^ w) :
    matchesAny pats (mask w t) = pats.any (fun p => p.matchesSpec v) := by
  unfold matchesAny mask
  induction pats with
  | nil => rfl
  | cons p ps ih =>
    simp only [List.all_cons, Bool.and_eq_true, beq_iff_eq] at hp
    simp only [List.any_cons]
    rw [pattern_match_iff p w hp.1 t v ht, ih hp.2]

theorem b2i_range (b : Bool) : 0 ≤ b2i b ∧ b2i b ≤ 1 := by cases b <;> simp [b2i]

theorem sound (ctx : Ctx) (env : Env) (hok : EnvOk ctx env) :
    ∀ e : Expr, e.wf ctx = true → Sound ctx env e := by
  intro e
  induction e with
  | const v s =>
    intro hwf
    simp only [Expr.wf, Bool.and_eq_true, decide_eq_true_eq] at hwf
    exact ⟨hwf.1, hwf.2, rfl, fun _ => rfl⟩
  | sig i =>
    intro _
    exact ⟨(hok i).1, (hok i).2, rfl, fun h => by simp [Expr.isSwTail] at h⟩
  | op1 o a iha =>
    intro hwf
    simp only [Expr.wf, Bool.and_eq_true] at hwf
    have ha := iha hwf.1
    have hcong := ha.cong
    have hsgn := ha.sgn
    have hswf := ha.swf
    have hrng := ha.rng
    generalize hsa : shapeOf ctx a = sa at *
    obtain ⟨w, sg⟩ := sa
    have hp := two_pow_pos' w
    cases o with
    | inv =>
      refine ⟨?_, ?_, ?_, fun h => by simp [Expr.isSwTail] at h⟩
      · simp only [shapeOf, hsa]; exact hswf
      · simp only [shapeOf, denote, hsa]; exact Shape.inv_contains ⟨w, sg⟩ hrng
      · simp only [shapeOf, denote, evalRtlG, hsa, pyNot, mask]
        simp only at hcong
        rw [hcong]
        have hv := Int.emod_add_mul_ediv (denote ctx env a) (2 ^ w)
        cases sg
        · simp only [Bool.false_eq_true, if_false]
          have : -(denote ctx env a % 2 ^ w) - 1 = (2 ^ w - 1 - denote ctx env a) + 2 ^ w * (denote ctx env a / 2 ^ w - 1) := by
            rw [Int.mul_sub]; omega
          rw [this, Int.add_mul_emod_self_left]
        · simp only [if_true]
          have : -(denote ctx env a % 2 ^ w) - 1 = (-denote ctx env a - 1) + 2 ^ w * (denote ctx env a / 2 ^ w) := by omega
          rw [this, Int.add_mul_emod_self_left]
    | neg =>
      have e : evalRtl ctx env (.op1 .neg a) = denote ctx env (.op1 .neg a) := by
        simp only [evalRtlG, denote, hsa]; rw [hsgn]
      refine ⟨?_, ?_, by rw [e], fun _ => e⟩
      · simp only [shapeOf, hsa]; intro _; simp
      · simp only [shapeOf, denote, hsa]; exact Shape.neg_contains ⟨w, sg⟩ hswf hrng
    | bool =>
      have hz := contains_emod_zero ⟨w, sg⟩ hswf hrng
      have e : evalRtl ctx env (.op1 .bool a) = denote ctx env (.op1 .bool a) := by
        simp only [evalRtlG, denote, hsa, mask]
        simp only at hcong hz
        rw [hcong]
        by_cases h0 : denote ctx env a = 0
        · simp [h0, b2i]
        · have : ¬ denote ctx env a % 2 ^ w = 0 := fun h => h0 (hz.mp h)
          simp [h0, this, b2i]
      refine ⟨?_, ?_, by rw [e], fun _ => e⟩
      · simp only [shapeOf]; intro h; simp at h
      · simp only [shapeOf, denote]; split <;> exact Shape.bit_contains (by omega) (by omega)
    | rany =>
      have hz := contains_emod_zero ⟨w, sg⟩ hswf hrng
      have e : evalRtl ctx env (.op1 .rany a) = denote ctx env (.op1 .rany a) := by
        simp only [evalRtlG, denote, hsa, mask]
        simp only at hcong hz
        rw [hcong]
        by_cases h0 : denote ctx env a = 0
        · simp [h0, b2i]
        · have : ¬ denote ctx env a % 2 ^ w = 0 := fun h => h0 (hz.mp h)
          have : ¬ 0 = denote ctx env a % 2 ^ w := fun h => this h.symm
          simp [h0, this, b2i]
      refine ⟨?_, ?_, by rw [e], fun _ => e⟩
      · simp only [shapeOf]; intro h; simp at h
      · simp only [shapeOf, denote]; split <;> exact Shape.bit_contains (by omega) (by omega)
    | rall =>
      have hz := contains_emod_allones ⟨w, sg⟩ hswf hrng
      have e : evalRtl ctx env (.op1 .rall a) = denote ctx env (.op1 .rall a) := by
        simp only [evalRtlG, denote, hsa, mask]
        simp only at hcong hz
        rw [hcong]
        by_cases h0 : (2 ^ w - 1 : Int) = denote ctx env a % 2 ^ w
        · rw [if_pos (hz.mp h0), show ((2 ^ w - 1 : Int) == denote ctx env a % 2 ^ w) = true from beq_iff_eq.mpr h0]
          rfl
        · have : ¬ (if sg = true then denote ctx env a = -1 else denote ctx env a = 2 ^ w - 1) := fun h => h0 (hz.mpr h)
          rw [if_neg this, show ((2 ^ w - 1 : Int) == denote ctx env a % 2 ^ w) = false from beq_eq_false_iff_ne.mpr h0]
          rfl
      refine ⟨?_, ?_, by rw [e], fun _ => e⟩
      · simp only [shapeOf]; intro h; simp at h
      · simp only [shapeOf, denote]; split <;> exact Shape.bit_contains (by omega) (by omega)
    | rxor =>
      have e : evalRtl ctx env (.op1 .rxor a) = denote ctx env (.op1 .rxor a) := by
        simp only [evalRtlG, denote, hsa, mask]
        simp only at hcong
        rw [hcong]
      refine ⟨?_, ?_, by rw [e], fun _ => e⟩
      · simp only [shapeOf]; intro h; simp at h
      · simp only [shapeOf, denote]; exact Shape.bit_contains (by omega) (by omega)
    | u =>
      refine ⟨?_, ?_, ?_, fun h => by simp [Expr.isSwTail] at h⟩
      · simp only [shapeOf]; intro h; simp at h
      · simp only [shapeOf, denote, hsa]; rw [Shape.contains_u]
        exact ⟨Int.emod_nonneg _ (Int.ne_of_gt hp), Int.emod_lt_of_pos _ hp⟩
      · simp only [shapeOf, denote, evalRtlG, hsa]
        simp only at hcong
        rw [hcong, emod_emod_pow]
    | s =>
      have hw : 0 < w := by
        have := hwf.2; simp only [widthOf, hsa, decide_eq_true_eq] at this; exact this
      refine ⟨?_, ?_, ?_, fun h => by simp [Expr.isSwTail] at h⟩
      · simp only [shapeOf, hsa]; intro _; exact hw
      · simp only [shapeOf, denote, hsa]; exact norm_contains ⟨w, true⟩ (fun _ => hw) _
      · simp only [shapeOf, denote, evalRtlG, hsa]
        simp only at hcong
        rw [hcong]; exact (norm_emod ⟨w, true⟩ _).symm
  | op2 o a b iha ihb =>
    intro hwf
    simp only [Expr.wf, Bool.and_eq_true] at hwf
    have ha := iha hwf.1.1
    have hb := ihb hwf.1.2
    have hsa := ha.sgn
    have hsb := hb.sgn
    -- the raw result is the exact result
    have e : evalRtl ctx env (.op2 o a b) = denote ctx env (.op2 o a b) := by
      simp only [evalRtlG, denote]
      rw [hsa, hsb]
      cases o <;> simp only [binop, zdiv, zmod, pyShl, pyShr, b2i] <;>
        first
        | rfl
        | (by_cases h : denote ctx env a = denote ctx env b <;> simp [h])
        | (split <;> simp_all <;> omega)
    refine ⟨?_, ?_, by rw [e], fun _ => e⟩
    · -- shape is constructible
      have wa := ha.swf; have wb := hb.swf
      generalize hsa' : shapeOf ctx a = sa at *
      generalize hsb' : shapeOf ctx b = sb at *
      obtain ⟨aw, asg⟩ := sa; obtain ⟨bw, bsg⟩ := sb
      cases o <;> simp only [shapeOf, hsa', hsb'] <;>
        first
        | exact Shape.unify_WF _ _ wa wb
        | exact wa
        | exact wb
        | (intro h; simp at h; done)
        | (intro _; simp; done)
        | skip
      · -- mul
        intro h; unfold Shape.WF at wa wb; simp at *; rcases h with h | h
        · have := wa h; omega
        · have := wb h; omega
      · -- fdiv
        intro h; unfold Shape.WF at wa wb; simp at *; rcases h with h | h
        · have := wa h; omega
        · simp [h]
      · -- shl
        intro h; unfold Shape.WF at wa; simp at *
        have := wa h; have := Nat.two_pow_pos bw; omega
    · -- the shape contains the exact result
      have wa := ha.swf; have wb := hb.swf
      have ra := ha.rng; have rb := hb.rng
      have hshift : (o = .shl ∨ o = .shr) → (shapeOf ctx b).signed = false := by
        intro h; have := hwf.2
        rcases h with h | h <;> subst h <;> simpa using this
      generalize hsa' : shapeOf ctx a = sa at *
      generalize hsb' : shapeOf ctx b = sb at *
      cases o <;> simp only [shapeOf, denote, hsa', hsb']
      · exact Shape.add_contains sa sb wa wb ra rb
      · exact Shape.sub_contains sa sb wa wb ra rb
      · exact Shape.mul_contains sa sb wa wb ra rb
      · exact Shape.fdiv_contains sa sb wa wb ra rb
      · exact Shape.mod_contains ⟨sb.width, sb.signed⟩ wb rb
      all_goals first
        | (split <;> exact Shape.bit_contains (by omega) (by omega))
        | skip
      · exact Shape.and_contains _ (Shape.unify_contains_left sa sb ra) (Shape.unify_contains_right sa sb rb)
      · exact Shape.or_contains _ (Shape.unify_contains_left sa sb ra) (Shape.unify_contains_right sa sb rb)
      · exact Shape.xor_contains _ (Shape.unify_contains_left sa sb ra) (Shape.unify_contains_right sa sb rb)
      · -- shl
        have hu := hshift (Or.inl rfl)
        obtain ⟨bw, bsg⟩ := sb
        simp only at hu; subst hu
        rw [Shape.contains_u] at rb
        have hs : (denote ctx env b).toNat < 2 ^ bw := by
          have : ((denote ctx env b).toNat : Int) < 2 ^ bw := by rw [Int.toNat_of_nonneg rb.1]; exact rb.2
          exact_mod_cast this
        exact Shape.shl_contains sa wa bw ra hs
      · exact Shape.shr_contains ⟨sa.width, sa.signed⟩ _ ra
  | slice a start stop iha =>
    intro hwf
    simp only [Expr.wf, Bool.and_eq_true, decide_eq_true_eq, widthOf] at hwf
    have ha := iha hwf.1.1
    have hq := two_pow_pos' (stop - start)
    have hle1 := hwf.1.2
    have hle2 := of_decide_eq_true hwf.2
    have hc := slice_congr (s := start) (n := stop - start) ha.cong (by omega)
    refine ⟨?_, ?_, ?_, fun h => by simp [Expr.isSwTail] at h⟩
    · simp only [shapeOf]; intro h; simp at h
    · simp only [shapeOf, denote]; rw [Shape.contains_u]
      exact ⟨Int.emod_nonneg _ (Int.ne_of_gt hq), Int.emod_lt_of_pos _ hq⟩
    · simp only [shapeOf, denote, evalRtlG, mask, pyShr]
      rw [hc, emod_emod_pow]
  | part a off width stride iha ihoff =>
    intro hwf
    simp only [Expr.wf, Bool.and_eq_true, decide_eq_true_eq, Bool.not_eq_true'] at hwf
    have ha := iha hwf.1.1.1
    have hoff := ihoff hwf.1.1.2
    have hq := two_pow_pos' width
    have hoffv : mask (widthOf ctx off) (evalRtl ctx env off) = denote ctx env off := by
      have h1 := hoff.msk
      have h2 := hoff.rng
      unfold widthOf
      generalize shapeOf ctx off = so at *
      obtain ⟨ow, osg⟩ := so
      simp only at hwf
      rw [hwf.1.2] at h2
      rw [Shape.contains_u] at h2
      rw [h1]; exact Int.emod_eq_of_lt h2.1 h2.2
    refine ⟨?_, ?_, ?_, fun h => by simp [Expr.isSwTail] at h⟩
    · simp only [shapeOf]; intro h; simp at h
    · simp only [shapeOf, denote]; rw [Shape.contains_u]
      exact ⟨Int.emod_nonneg _ (Int.ne_of_gt hq), Int.emod_lt_of_pos _ hq⟩
    · simp only [shapeOf, denote, evalRtlG, mask, pyShr, if_true]
      have := ha.sgn
      simp only [evalRtl] at this hoffv
      rw [this]
      unfold mask at hoffv
      rw [hoffv, Nat.mul_comm stride]
  | cat lo hi ihlo ihhi =>
    intro hwf
    simp only [Expr.wf, Bool.and_eq_true] at hwf
    have hl := ihlo hwf.1
    have hh := ihhi hwf.2
    have e : evalRtl ctx env (.cat lo hi) = denote ctx env (.cat lo hi) := by
      simp only [evalRtlG, denote, widthOf]
      rw [cat_value]
      have h1 := hl.msk; have h2 := hh.msk
      simp only [evalRtl] at h1 h2
      rw [h1, h2]
    refine ⟨?_, ?_, by rw [e], fun _ => e⟩
    · simp only [shapeOf]; intro h; simp at h
    · simp only [shapeOf, denote, widthOf]; rw [Shape.contains_u]
      have p1 := two_pow_pos' (shapeOf ctx lo).width
      have p2 := two_pow_pos' (shapeOf ctx hi).width
      exact cat_lt _ _ _ _ (Int.emod_nonneg _ (Int.ne_of_gt p1)) (Int.emod_lt_of_pos _ p1)
        (Int.emod_nonneg _ (Int.ne_of_gt p2)) (Int.emod_lt_of_pos _ p2)
  | ite test pats thn els iht ihthn ihels =>
    intro hwf
    simp only [Expr.wf, Bool.and_eq_true] at hwf
    have ht := iht hwf.1.1.1.1
    have hthn := ihthn hwf.1.1.1.2
    have hels := ihels hwf.1.1.2
    have htail := hels.tail hwf.1.2
    have hm := matchesAny_eq pats (widthOf ctx test) hwf.2 (evalRtl ctx env test) (denote ctx env test) ht.cong
    have e : evalRtl ctx env (.ite test pats thn els) = denote ctx env (.ite test pats thn els) := by
      simp only [evalRtlG, denote]
      have h1 := hthn.sgn
      simp only [evalRtl] at h1 htail hm
      rw [hm, h1, htail]
    refine ⟨?_, ?_, by rw [e], fun _ => e⟩
    · simp only [shapeOf]; exact Shape.unify_WF _ _ hthn.swf hels.swf
    · simp only [shapeOf, denote]
      split
      · exact Shape.unify_contains_left _ _ hthn.rng
      · exact Shape.unify_contains_right _ _ hels.rng

end Amaranth
