import AmaranthVerif.Proofs.AssignBits5
import AmaranthVerif.Proofs.TbExact

/-!
# A testbench write changes exactly the addressed bits

`_eval_assign_inner` pushes a window `(start, len)` of the value down the target. `tb_window_spec`: for every
well-formed target (aliasing allowed — the testbench path writes piece by piece on the pending state, so a signal
addressed twice simply gets the later piece), the result is the Spec's `applyBits` on the window of the target's
bit locations. Hence `assignTb = assignSpec`.
-/

namespace Amaranth

/-- the window `[s, s+n)` of a location list -/
def win (l : List Loc) (s n : Nat) : List Loc := (l.drop s).take n

theorem win_length (l : List Loc) (s n : Nat) : (win l s n).length = min n (l.length - s) := by
  simp [win]

theorem applyBits_append (ctx : Ctx) (v : Int) : ∀ (l1 l2 : List Loc) (k : Nat) (E : Env),
    applyBits ctx (l1 ++ l2) k v E = applyBits ctx l2 (k + l1.length) v (applyBits ctx l1 k v E) := by
  intro l1
  induction l1 with
  | nil => intro l2 k E; simp [applyBits]
  | cons l ls ih =>
    intro l2 k E
    cases l with
    | none =>
      simp only [List.cons_append, applyBits, List.length_cons]
      rw [ih]; congr 1; omega
    | some ib =>
      obtain ⟨i, b⟩ := ib
      simp only [List.cons_append, applyBits, List.length_cons]
      rw [ih]; congr 1; omega

/-- only the bits of the value at the positions of the list matter -/
theorem applyBits_congr (ctx : Ctx) : ∀ (l : List Loc) (k k' : Nat) (v v' : Int) (E : Env),
    (∀ j, j < l.length → ibit v (k + j) = ibit v' (k' + j)) →
    applyBits ctx l k v E = applyBits ctx l k' v' E := by
  intro l
  induction l with
  | nil => intro k k' v v' E _; rfl
  | cons l ls ih =>
    intro k k' v v' E h
    have h0 := h 0 (by simp)
    simp only [Nat.add_zero] at h0
    have hs : ∀ j, j < ls.length → ibit v (k + 1 + j) = ibit v' (k' + 1 + j) := by
      intro j hj
      have := h (j + 1) (by simp only [List.length_cons]; omega)
      rw [show k + (j + 1) = k + 1 + j by omega, show k' + (j + 1) = k' + 1 + j by omega] at this
      exact this
    cases l with
    | none => simp only [applyBits]; exact ih _ _ _ _ _ hs
    | some ib =>
      obtain ⟨i, b⟩ := ib
      simp only [applyBits]
      rw [h0]; exact ih _ _ _ _ _ hs

theorem applyBits_nones (ctx : Ctx) (v : Int) : ∀ (l : List Loc) (k : Nat) (E : Env),
    (∀ x ∈ l, x = none) → applyBits ctx l k v E = E := by
  intro l
  induction l with
  | nil => intro k E _; rfl
  | cons x xs ih =>
    intro k E h
    have hx := h x (List.mem_cons_self ..)
    subst hx
    simp only [applyBits]
    exact ih _ _ (fun y hy => h y (List.mem_cons_of_mem _ hy))

theorem LocsOk.win {ctx : Ctx} {l : List Loc} (h : LocsOk ctx l) (s n : Nat) : LocsOk ctx (win l s n) :=
  fun i b hm => h i b (List.mem_of_mem_drop (List.mem_of_mem_take hm))

theorem applyBits_envN (ctx : Ctx) (v : Int) (l : List Loc) (k : Nat) (E : Env) (hE : EnvN ctx E) (hl : LocsOk ctx l) :
    EnvN ctx (applyBits ctx l k v E) := (applyBits_spec ctx v l k E hE hl).1

/-- `(1 << stop) - (1 << start)` has exactly the bits `start ≤ k < stop` -/
theorem ibit_window_mask (start stop k : Nat) (h : start ≤ stop) :
    ibit (pyShl 1 stop - pyShl 1 start) k = (decide (start ≤ k) && decide (k < stop)) := by
  have e : pyShl 1 stop - pyShl 1 start = pyShl (pyShl 1 (stop - start) - 1) start := by
    unfold pyShl
    have : (2 : Int) ^ stop = 2 ^ (stop - start) * 2 ^ start := by rw [← two_pow_add']; congr 1; omega
    rw [this, Int.sub_mul]; simp
  rw [e, ibit_pyShl, ibit_ones]
  by_cases h1 : start ≤ k
  · simp only [h1, decide_true, Bool.true_and]; congr 1; apply propext; omega
  · simp [h1]

section
variable (ctx : Ctx) (cur : Env)

/-- the base case: a window of one signal -/
theorem sig_window (i : Nat) (hi : i < ctx.length) (start len : Nat) (rhs : Int) (nxt : Env) (hE : EnvN ctx nxt)
    (hs : start < (ctx.shape i).width) :
    nxt.put i (writeWindow (ctx.shape i) (nxt.val i) start (min (start + len) (ctx.shape i).width) rhs) =
      applyBits ctx (win (lbits ctx cur (.sig i)) start len) 0 rhs nxt := by
  have hok : LocsOk ctx (win (lbits ctx cur (.sig i)) start len) := by
    apply LocsOk.win
    intro j b hm
    simp only [lbits, List.mem_map, List.mem_range, Option.some.injEq, Prod.mk.injEq] at hm
    obtain ⟨x, hx, rfl, rfl⟩ := hm
    exact ⟨hi, hx⟩
  obtain ⟨hE2, hbits⟩ := applyBits_spec ctx rhs _ 0 nxt hE hok
  have hE1 : EnvN ctx (nxt.put i (writeWindow (ctx.shape i) (nxt.val i) start (min (start + len) (ctx.shape i).width) rhs)) :=
    hE.put i _ (fun _ => norm_contains _ (hE.ok i hi).1 _)
  apply env_ext hE1 hE2
  intro j b hj hb
  rw [hbits j b hj hb]
  unfold win
  rw [lastWrite_window (sig_lbits_nodup ctx cur i)]
  unfold bitAt
  by_cases hji : j = i
  · subst hji
    rw [val_put_eq nxt j _ (by rw [hE.len]; exact hj),
        lastWrite_of_getD (sig_lbits_nodup ctx cur j) (sig_lbits_getD ctx cur j b hb)]
    unfold writeWindow
    rw [ibit_norm_lt _ _ _ hb, ibit_pyOr, ibit_pyAnd, ibit_pyNot, ibit_pyAnd,
        ibit_window_mask _ _ _ (by omega), ibit_pyShl]
    simp only
    by_cases hw : start ≤ b ∧ b < start + len
    · have : b < min (start + len) (ctx.shape j).width := by omega
      simp [hw, this]
    · simp only [hw, if_false]
      by_cases h1 : start ≤ b
      · have : ¬ b < min (start + len) (ctx.shape j).width := by omega
        simp [h1, this]
      · simp [h1]
  · rw [val_put_ne nxt i j _ hji]
    have : lastWrite (lbits ctx cur (.sig i)) 0 j b = none := by
      rw [lastWrite_none_iff]
      simp only [lbits, List.mem_map, List.mem_range, Option.some.injEq, Prod.mk.injEq, not_exists, not_and]
      intro x _ hx; exact fun _ => hji hx.symm
    rw [this]

theorem win_of_ge (l : List Loc) (s n : Nat) (h : l.length ≤ s) : win l s n = [] := by
  unfold win; rw [List.drop_eq_nil_of_le h]; simp

theorem win_min (l : List Loc) (s n : Nat) : win l s (min n (l.length - s)) = win l s n := by
  unfold win
  apply List.ext_getElem?
  intro k
  simp only [List.getElem?_take, List.getElem?_drop]
  by_cases h : k < n
  · by_cases h2 : k < l.length - s
    · simp [h, h2]
    · have : l[s + k]? = none := by rw [List.getElem?_eq_none_iff]; omega
      simp [h, h2, this]
  · have : ¬ k < min n (l.length - s) := by omega
    simp [h, this]

theorem win_win (l : List Loc) (s m start len : Nat) :
    win (win l s m) start len = win l (s + start) (min len (m - start)) := by
  unfold win
  rw [List.drop_take, List.drop_drop, List.take_take]

theorem win_append (l1 l2 : List Loc) (s n : Nat) :
    win (l1 ++ l2) s n = win l1 s n ++ win l2 (s - l1.length) (n - (l1.length - s)) := by
  unfold win
  rw [List.drop_append, List.take_append, List.length_drop]

theorem win_drop (l : List Loc) (o s n : Nat) : win (l.drop o) s n = win l (o + s) n := by
  unfold win; rw [List.drop_drop]

theorem win_take (l : List Loc) (w s n : Nat) : win (l.take w) s n = win l s (min n (w - s)) := by
  unfold win; rw [List.drop_take, List.take_take]

/-- positions that address nothing are skipped: the window of a padded list -/
theorem applyBits_win_padTo (w : Nat) (L : List Loc) (start len k : Nat) (rhs : Int) (E : Env) :
    applyBits ctx (win (padTo w L) start len) k rhs E = applyBits ctx (win L start (min len (w - start))) k rhs E := by
  unfold padTo
  rw [win_append, applyBits_append, win_take]
  apply applyBits_nones
  intro x hx
  unfold win at hx
  exact List.eq_of_mem_replicate (List.mem_of_mem_drop (List.mem_of_mem_take hx))

/-- one part of a concatenation in `_eval_assign_inner` (the loop body over `lhs.parts`) -/
def catStep (start len : Nat) (rhs : Int) (plen pstart : Nat) (rec : Nat → Int → Nat → Env → Env) (nxt : Env) : Env :=
  let pstop := pstart + plen
  if start ≥ pstop then nxt
  else if start + len ≤ pstart then nxt
  else
    let plstart := if start < pstart then 0 else start - pstart
    let prstart := if start < pstart then pstart - start else 0
    let prlen := if start + len ≥ pstop then pstop - start - prstart else len - prstart
    let prhs := mask prlen (pyShr rhs prstart)
    rec plstart prhs prlen nxt

theorem catStep_spec (start len : Nat) (rhs : Int) (pstart : Nat) (L : List Loc)
    (rec : Nat → Int → Nat → Env → Env) (nxt : Env) (hE : EnvN ctx nxt)
    (hrec : ∀ s r n E, EnvN ctx E → rec s r n E = applyBits ctx (win L s n) 0 r E) :
    catStep start len rhs L.length pstart rec nxt =
      applyBits ctx (win L (start - pstart) (len - (pstart - start))) (pstart - start) rhs nxt := by
  unfold catStep
  simp only
  by_cases h1 : start ≥ pstart + L.length
  · rw [if_pos h1, win_of_ge _ _ _ (by omega)]; rfl
  · rw [if_neg h1]
    by_cases h2 : start + len ≤ pstart
    · rw [if_pos h2]
      have : len - (pstart - start) = 0 := by omega
      rw [this]; simp [win, applyBits]
    · rw [if_neg h2, hrec _ _ _ _ hE]
      have e1 : (if start < pstart then 0 else start - pstart) = start - pstart := by split <;> omega
      have e2 : (if start < pstart then pstart - start else 0) = pstart - start := by split <;> omega
      rw [e1, e2]
      set prlen := (if start + len ≥ pstart + L.length then pstart + L.length - start - (pstart - start)
        else len - (pstart - start)) with hpr
      have e3 : prlen = min (len - (pstart - start)) (L.length - (start - pstart)) := by
        rw [hpr]; split <;> omega
      rw [e3, win_min]
      apply applyBits_congr
      intro j hj
      rw [win_length] at hj
      rw [ibit_mask, ibit_pyShr, Nat.zero_add]
      have : j < min (len - (pstart - start)) (L.length - (start - pstart)) := hj
      simp only [this, decide_true, Bool.true_and]
      congr 1; omega

/-- the statement proved by induction over the target -/
def TbWrites (e : Expr) : Prop :=
  ∀ (start : Nat) (rhs : Int) (len : Nat) (nxt : Env), EnvN ctx nxt →
    assignTbG true ctx cur e start rhs len nxt = applyBits ctx (win (lbits ctx cur e) start len) 0 rhs nxt

theorem tbWrites_clipped (e : Expr) (he : e.twf ctx = true) (start len : Nat) (rhs : Int) (nxt : Env)
    (h : widthOf ctx e ≤ start) :
    applyBits ctx (win (lbits ctx cur e) start len) 0 rhs nxt = nxt := by
  rw [win_of_ge _ _ _ (by rw [lbits_length ctx cur e he]; exact h)]; rfl

variable (hok : EnvOk ctx cur)

include hok in
theorem tb_switch_test_eq (t : Expr) (ht : t.wf ctx = true) (pats : List Pat)
    (hp : pats.all (fun p => p.length == widthOf ctx t) = true) :
    matchesAny pats (evalTb ctx cur t) = pats.any (fun p => p.matchesSpec (denote ctx cur t)) := by
  rw [tb_exact_aux ctx cur hok t ht, matchesAny_emod pats (widthOf ctx t) hp,
      matchesAny_eq pats (widthOf ctx t) hp (denote ctx cur t) (denote ctx cur t) rfl]

include hok in
theorem tb_window_spec : ∀ (e : Expr), e.twf ctx = true → TbWrites ctx cur e := by
  intro e
  induction e with
  | const v s =>
    intro h start rhs len nxt hE
    rw [assignTbG]
    simp [lbits, win, applyBits]
  | sig j =>
    intro h start rhs len nxt hE
    simp only [Expr.twf, decide_eq_true_eq] at h
    by_cases hs : widthOf ctx (.sig j) ≤ start
    · rw [tbWrites_clipped ctx cur (.sig j) (by simp [Expr.twf, h]) start len rhs nxt hs]
      rw [assignTbG]; simp [hs]
    · have hw : widthOf ctx (.sig j) = (ctx.shape j).width := rfl
      rw [assignTbG]
      simp only [Bool.true_and, decide_eq_true_eq, hs, if_false, if_true, hw] at hs ⊢
      have hge : ¬ start ≥ (ctx.shape j).width := by omega
      rw [if_neg hge, if_neg hge]
      rw [← sig_window ctx cur j h start len rhs nxt hE (by omega)]
      congr 2; omega
  | op1 o a ih =>
    intro h
    cases o <;> simp only [Expr.twf, Bool.false_eq_true] at h
    all_goals
      intro start rhs len nxt hE
      have hl := lbits_length ctx cur a h
      by_cases hs : widthOf ctx a ≤ start
      · rw [assignTbG]
        simp only [lbits, widthOf, shapeOf] at hs ⊢
        simp only [Bool.true_and, decide_eq_true_eq, ge_iff_le, hs, if_true]
        rw [win_of_ge _ _ _ (by rw [hl]; exact hs)]; rfl
      · rw [assignTbG]
        simp only [lbits, widthOf, shapeOf] at hs hl ⊢
        simp only [Bool.true_and, decide_eq_true_eq, ge_iff_le, hs, if_false, if_true]
        rw [ih h _ _ _ _ hE, ← hl, win_min]
  | op2 o a b _ _ => intro h; simp [Expr.twf] at h
  | slice a s e ih =>
    intro h start rhs len nxt hE
    simp only [Expr.twf, Bool.and_eq_true, decide_eq_true_eq] at h
    have hw : widthOf ctx (.slice a s e) = e - s := rfl
    by_cases hs : e - s ≤ start
    · rw [tbWrites_clipped ctx cur (.slice a s e) (by simp [Expr.twf, h]) start len rhs nxt (by rw [hw]; exact hs)]
      rw [assignTbG]; simp [hw, hs]
    · rw [assignTbG]
      simp only [hw, Bool.true_and, decide_eq_true_eq, ge_iff_le, hs, if_false, if_true]
      rw [ih h.1.1 _ _ _ _ hE]
      simp only [lbits]
      rw [show ((lbits ctx cur a).drop s).take (e - s) = win (lbits ctx cur a) s (e - s) from rfl, win_win,
          Nat.add_comm s start]
  | part a off w st iha _ =>
    intro h start rhs len nxt hE
    simp only [Expr.twf, Bool.and_eq_true, decide_eq_true_eq, Bool.not_eq_true'] at h
    have hw : widthOf ctx (.part a off w st) = w := rfl
    by_cases hs : w ≤ start
    · rw [tbWrites_clipped ctx cur (.part a off w st) (by simp [Expr.twf, h]) start len rhs nxt (by rw [hw]; exact hs)]
      rw [assignTbG]; simp [hw, hs]
    · rw [assignTbG]
      simp only [hw, Bool.true_and, decide_eq_true_eq, ge_iff_le, hs, if_false, if_true]
      rw [iha h.1.1.1 _ _ _ _ hE, tb_exact_aux ctx cur hok off h.1.1.2]
      simp only [lbits]
      rw [applyBits_win_padTo, win_drop, Nat.add_comm]
  | cat lo hi ihlo ihhi =>
    intro h start rhs len nxt hE
    simp only [Expr.twf, Bool.and_eq_true] at h
    have hw : widthOf ctx (.cat lo hi) = widthOf ctx lo + widthOf ctx hi := by simp [widthOf, shapeOf]
    have hllo := lbits_length ctx cur lo h.1
    have hlhi := lbits_length ctx cur hi h.2
    by_cases hs : widthOf ctx lo + widthOf ctx hi ≤ start
    · rw [tbWrites_clipped ctx cur (.cat lo hi) (by simp [Expr.twf, h]) start len rhs nxt (by rw [hw]; exact hs)]
      rw [assignTbG]; simp [hw, hs]
    · have key : assignTbG true ctx cur (.cat lo hi) start rhs len nxt =
          catStep start (min len (widthOf ctx lo + widthOf ctx hi - start)) rhs (widthOf ctx hi) (widthOf ctx lo)
            (fun a b c d => assignTbG true ctx cur hi a b c d)
            (catStep start (min len (widthOf ctx lo + widthOf ctx hi - start)) rhs (widthOf ctx lo) 0
              (fun a b c d => assignTbG true ctx cur lo a b c d) nxt) := by
        unfold catStep
        rw [assignTbG]
        simp only [hw, Bool.true_and, decide_eq_true_eq, ge_iff_le, hs, if_false, if_true, Nat.zero_add]
      rw [key]
      set len' := min len (widthOf ctx lo + widthOf ctx hi - start) with hlen'
      have s1 := catStep_spec ctx start len' rhs 0 (lbits ctx cur lo) (fun a b c d => assignTbG true ctx cur lo a b c d)
        nxt hE (fun s r n E hE' => ihlo h.1 s r n E hE')
      rw [hllo] at s1
      rw [s1]
      simp only [Nat.sub_zero, Nat.zero_sub]
      have hE1 : EnvN ctx (applyBits ctx (win (lbits ctx cur lo) start len') 0 rhs nxt) :=
        applyBits_envN ctx rhs _ 0 nxt hE ((lbits_ok ctx cur lo h.1).win _ _)
      have s2 := catStep_spec ctx start len' rhs (widthOf ctx lo) (lbits ctx cur hi)
        (fun a b c d => assignTbG true ctx cur hi a b c d) _ hE1 (fun s r n E hE' => ihhi h.2 s r n E hE')
      rw [hlhi] at s2
      rw [s2]
      simp only [lbits]
      rw [← win_min (lbits ctx cur lo ++ lbits ctx cur hi) start len, List.length_append, hllo, hlhi, ← hlen',
          win_append, applyBits_append, hllo, Nat.zero_add, win_length, hllo]
      by_cases hc : widthOf ctx lo - start ≤ len'
      · rw [Nat.min_eq_right hc]
      · have : len' - (widthOf ctx lo - start) = 0 := by omega
        rw [this]; simp [win, applyBits]
  | ite t p thn els _ ihthn ihels =>
    intro h start rhs len nxt hE
    simp only [Expr.twf, Bool.and_eq_true] at h
    have hW := Shape.unify_width_ge (shapeOf ctx thn) (shapeOf ctx els)
    have hwid : widthOf ctx (.ite t p thn els) = (Shape.unify (shapeOf ctx thn) (shapeOf ctx els)).width := rfl
    by_cases hs : widthOf ctx (.ite t p thn els) ≤ start
    · rw [tbWrites_clipped ctx cur (.ite t p thn els) (by simp [Expr.twf, h]) start len rhs nxt hs]
      rw [assignTbG]; simp [hs]
    · rw [assignTbG]
      simp only [Bool.true_and, decide_eq_true_eq, ge_iff_le, hs, if_false, if_true]
      rw [tb_switch_test_eq ctx cur hok t h.1.1.1 p h.2]
      simp only [lbits]
      rw [applyBits_win_padTo]
      by_cases hm : p.any (fun q => q.matchesSpec (denote ctx cur t)) = true
      · simp only [hm, if_true]
        exact ihthn h.1.1.2 _ _ _ _ hE
      · simp only [hm, Bool.false_eq_true, if_false]
        exact ihels h.1.2 _ _ _ _ hE

include hok in
/-- **A testbench write is the Spec's assignment** (any well-formed target, aliasing included). -/
theorem assignTb_eq_spec (e : Expr) (he : e.twf ctx = true) (v : Int) (hE : EnvN ctx cur) :
    assignTb ctx cur e v = assignSpec ctx cur e v := by
  unfold assignTb assignSpec
  rw [tb_window_spec ctx cur hok e he 0 v (widthOf ctx e) cur hE]
  unfold win
  rw [List.drop_zero, List.take_of_length_le (by rw [lbits_length ctx cur e he])]

end
end Amaranth
