import AmaranthVerif.Proofs.EngineStatic

/-!
# Schedule independence over reachable states

The reset-only process (`arst`) of an `async_reset` domain and the domain's synchronous process
(`sync`) are compiled from the same statements and write through the same masks. In an arbitrary
state (both runnable, reset low) they disagree, so `CompatWrites` — a statement about *all* states —
is false for such a design. In a reachable state they agree:

* `ArstInv`: a reset-only process is runnable only while the current value of its reset is `1`
  (it is woken by the commit that makes the reset `1`, and every delta runs it, clearing the flag,
  before the next commit can change the reset again);
* under `ArstInv` the synchronous process, if it runs in the same delta, sees reset `= 1` and computes
  the initial value for every resettable signal it drives: the two updates are `Compat`;
* `ArstInv` holds initially and is preserved by `delta`, `settle`, the testbench steps, the timeline
  step and `advance`.

The run-level theorems are then stated for every state satisfying the invariant — in particular
for every state reachable from `initState`.
-/

namespace Amaranth.Engine
open Amaranth

/-! ## The static condition with asynchronous resets -/

/-- `k₁` is the reset-only process and `k₂` the synchronous process of the same statements in the
same domain, whose reset is signal `r` -/
def ArstPair (D : Design) (k₁ k₂ : ProcKind) : Prop :=
  ∃ d body r, k₁ = .arst d body ∧ k₂ = .sync d body ∧ (D.doms.getD d default).rst = some r

/-- two processes have disjoint static masks, or are the arst/sync pair of one body -/
def PairOK (D : Design) (k₁ k₂ : ProcKind) : Prop :=
  masksDisjoint (kindMasks D k₁) (kindMasks D k₂) = true ∨ ArstPair D k₁ k₂ ∨ ArstPair D k₂ k₁

/-- every reset of a reset-only process is a signal of the design -/
def arstWf (D : Design) (kinds : List ProcKind) : Bool :=
  kinds.all fun k => match k with
    | .arst d _ => (match (D.doms.getD d default).rst with
        | some r => decide (r < D.inits.length)
        | none => true)
    | _ => true

/-- owner `p` is a reset-only process whose reset is signal `r` -/
def IsArst (D : Design) (kinds : List ProcKind) (p r : Nat) : Prop :=
  ∃ d body, kinds[p]? = some (.arst d body) ∧ (D.doms.getD d default).rst = some r

/-- **The invariant.** A reset-only process is runnable only if the current value of its reset is `1`
(and its reset is a slot of `curr`). -/
def ArstInv (D : Design) (kinds : List ProcKind) (s : EState) : Prop :=
  ∀ p r, IsArst D kinds p r →
    r < s.curr.length ∧ ∀ l, s.locals[p]? = some l → l.runnable = true → s.curr.val r = 1

/-! ## Under the invariant the arst/sync pair writes compatible updates -/

theorem val_map_range (n i : Nat) (f : Nat → Int) (h : i < n) : Env.val ((List.range n).map f) i = f i := by
  show ((List.range n).map f).getD i 0 = f i
  rw [List.getD_eq_getElem?_getD, List.getElem?_map, List.getElem?_range h]; rfl

theorem arst_sync_compat (D : Design) (d : Nat) (body : Stmt) (r : Nat)
    (hr : (D.doms.getD d default).rst = some r) (l l' : Local) (cur : Env) (h1 : cur.val r = 1)
    (u : Update) (hu : u ∈ (((ProcKind.arst d body).toDef D).run l cur).updates)
    (v : Update) (hv : v ∈ (((ProcKind.sync d body).toDef D).run l' cur).updates) : Compat u v := by
  simp only [ProcKind.toDef, arstDef, List.mem_filter] at hu
  obtain ⟨hu, hcond⟩ := hu
  obtain ⟨_, hulen, huval⟩ := procUpdates_mem _ _ _ u hu
  simp only [ProcKind.toDef, syncDef] at hv
  obtain ⟨_, _, hvval⟩ := procUpdates_mem _ _ _ v hv
  by_cases hs : u.slot = v.slot
  · right
    intro i _ _
    have : v.value = u.value := by
      rw [hvval, huval, ← hs, hr]
      simp only [Option.map_some, syncNext, h1]
      have : (pyAnd 1 1 != 0) = true := by decide
      simp only [this, if_true]
      rw [val_map_range _ _ _ hulen]
      simp only [hcond, if_true]
    rw [this]
  · exact Or.inl hs

theorem compatAt_of_arstInv (D : Design) (kinds : List ProcKind) (scripts : List (List TbOp))
    (hs : kinds.Pairwise (PairOK D)) (s : EState) (hI : ArstInv D kinds s) :
    CompatAt (simDefs D kinds scripts) s := by
  have key : ∀ p q, p < q → ∀ u ∈ updatesOf (simDefs D kinds scripts) s p,
      ∀ v ∈ updatesOf (simDefs D kinds scripts) s q, Compat u v := by
    intro p q hpq u hu v hv
    obtain ⟨k, l, hk, hl, hrun, hur, hmu⟩ := simDefs_updatesOf D kinds scripts s p u hu
    obtain ⟨k', l', hk', hl', hrun', hvr, hmv⟩ := simDefs_updatesOf D kinds scripts s q v hv
    obtain ⟨hp, ek⟩ := List.getElem?_eq_some_iff.mp hk
    obtain ⟨hq, ek'⟩ := List.getElem?_eq_some_iff.mp hk'
    have hok := List.pairwise_iff_getElem.mp hs p q hp hq hpq
    rw [ek, ek'] at hok
    rcases hok with hdis | ⟨d, body, r, rfl, rfl, hr⟩ | ⟨d, body, r, rfl, rfl, hr⟩
    · exact (disjoint_of_masks hdis hmu hmv).compat
    · have h1 := (hI p r ⟨d, body, hk, hr⟩).2 l hl hrun
      exact arst_sync_compat D d body r hr _ _ s.curr h1 u hur v hvr
    · have h1 := (hI q r ⟨d, body, hk', hr⟩).2 l' hl' hrun'
      exact (arst_sync_compat D d body r hr _ _ s.curr h1 v hvr u hur).symm
  intro p q hpq u hu v hv
  rcases Nat.lt_or_ge p q with h | h
  · exact key p q h u hu v hv
  · exact (key q p (by omega) v hv u hu).symm

/-! ## The invariant is preserved -/

theorem val_set_self (e : Env) (i : Nat) (v : Int) (h : i < e.length) : Env.val (e.set i v) i = v := by
  show (List.set (e : List Int) i v).getD i 0 = v
  rw [List.getD_eq_getElem?_getD, List.getElem?_set_self h]; rfl

theorem isArst_def (D : Design) (kinds : List ProcKind) (scripts : List (List TbOp)) (p r : Nat)
    (h : IsArst D kinds p r) :
    ∃ d body, (simDefs D kinds scripts)[p]? = some (arstDef D d body) ∧ (D.doms.getD d default).rst = some r := by
  obtain ⟨d, body, hk, hr⟩ := h
  exact ⟨d, body, simDefs_proc D kinds scripts p _ hk, hr⟩

theorem initState_arstInv (D : Design) (kinds : List ProcKind) (scripts : List (List TbOp))
    (hwf : arstWf D kinds = true) : ArstInv D kinds (initState D kinds scripts) := by
  intro p r ⟨d, body, hk, hr⟩
  have hp : p < kinds.length := (List.getElem?_eq_some_iff.mp hk).1
  constructor
  · unfold arstWf at hwf
    rw [List.all_eq_true] at hwf
    have := hwf _ (List.mem_of_getElem? hk)
    simp only [hr, decide_eq_true_eq] at this
    exact this
  · intro l hl hrun
    simp only [initState] at hl
    rw [List.getElem?_append_left (by simpa using hp), List.getElem?_map, hk] at hl
    simp only [Option.map_some, Option.some.injEq] at hl
    subst hl
    simp [ProcKind.initLocal] at hrun

/-- phase 1a does not touch a reset-only process' `runnable` flag -/
theorem trigPhase_arst (ps : List ProcDef) (D : Design) (d : Nat) (body : Stmt) (p : Nat)
    (hdef : ps[p]? = some (arstDef D d body)) (s : EState) (l' : Local)
    (h : (trigPhase ps s).locals[p]? = some l') :
    ∃ l, s.locals[p]? = some l ∧ l'.runnable = l.runnable := by
  unfold trigPhase at h
  simp only [List.getElem?_zipWith, hdef] at h
  cases hl : s.locals[p]? with
  | none => simp [hl] at h
  | some l =>
    simp only [hl] at h
    by_cases ha : l.active = true
    · simp only [ha, if_true] at h
      have : l' = (arstDef D d body).trig l s.curr := by simpa using h.symm
      subst this
      exact ⟨l, rfl, rfl⟩
    · simp only [ha] at h
      have : l' = l := by simpa using h.symm
      subst this
      exact ⟨l', rfl, rfl⟩

theorem trigPhase_arstInv (D : Design) (kinds : List ProcKind) (scripts : List (List TbOp)) (s : EState)
    (hI : ArstInv D kinds s) : ArstInv D kinds (trigPhase (simDefs D kinds scripts) s) := by
  intro p r hp
  obtain ⟨hlen, hrun⟩ := hI p r hp
  obtain ⟨d, body, hdef, _⟩ := isArst_def D kinds scripts p r hp
  refine ⟨hlen, fun l' hl' hr' => ?_⟩
  obtain ⟨l, hl, e⟩ := trigPhase_arst _ D d body p hdef s l' hl'
  exact hrun l hl (by rw [← e]; exact hr')

/-- running a process whose `run` keeps a cleared flag cleared leaves it not runnable -/
theorem stepProc_clears_def (ps : List ProcDef) (s : EState) (p : Nat) (d : ProcDef) (hd : ps[p]? = some d)
    (hrun : ∀ l cur, l.runnable = false → (d.run l cur).loc.runnable = false) :
    ∀ l, (stepProc ps s p).locals[p]? = some l → l.runnable = false := by
  intro l hl
  cases hx : s.locals[p]? with
  | none =>
    rw [stepProc_of_not_runnable ps s p (fun y hy => by rw [hx] at hy; cases hy)] at hl
    rw [hx] at hl; cases hl
  | some x =>
    by_cases hr : x.runnable = true
    · unfold stepProc effectOf at hl
      simp only [hd, hx, hr, if_true, applyEffect] at hl
      have hp : p < s.locals.length := (List.getElem?_eq_some_iff.mp hx).1
      rw [List.getElem?_set_self hp] at hl
      cases hl
      exact hrun _ _ rfl
    · have hnr : ∀ y, s.locals[p]? = some y → y.runnable = false := by
        intro y hy; rw [hx] at hy; cases hy; simpa using hr
      rw [stepProc_of_not_runnable ps s p hnr] at hl
      exact hnr l hl

theorem runProcs_keeps_not_runnable (ps : List ProcDef) (order : List Nat) (s : EState) (p : Nat)
    (h : ∀ l, s.locals[p]? = some l → l.runnable = false) :
    ∀ l, (runProcs ps order s).locals[p]? = some l → l.runnable = false := by
  unfold runProcs
  induction order generalizing s with
  | nil => exact h
  | cons q rest ih =>
    simp only [List.foldl_cons]
    exact ih _ (stepProc_keeps_not_runnable ps s p q h)

/-- every listed process of this kind has run when the process phase ends: its flag is clear -/
theorem runProcs_clears_def (ps : List ProcDef) (order : List Nat) (s : EState) (p : Nat) (d : ProcDef)
    (hd : ps[p]? = some d) (hrun : ∀ l cur, l.runnable = false → (d.run l cur).loc.runnable = false)
    (hm : p ∈ order) : ∀ l, (runProcs ps order s).locals[p]? = some l → l.runnable = false := by
  induction order generalizing s with
  | nil => cases hm
  | cons q rest ih =>
    by_cases hq : q = p
    · subst hq
      exact runProcs_keeps_not_runnable ps rest _ q (stepProc_clears_def ps s q d hd hrun)
    · have : p ∈ rest := by
        rcases List.mem_cons.mp hm with h' | h'
        · exact absurd h'.symm hq
        · exact h'
      exact ih (stepProc ps s q) this

/-- what the commit maintains about a reset-only process: once it is runnable, its reset is `1` and
is no longer pending -/
def ArstCommitted (p r : Nat) (z : EState) : Prop :=
  r < z.curr.length ∧ ∀ l, z.locals[p]? = some l → l.runnable = true → z.curr.val r = 1 ∧ z.curr.val r = z.next.val r

theorem commitSlot_arst (ps : List ProcDef) (D : Design) (d : Nat) (body : Stmt) (p r : Nat)
    (hdef : ps[p]? = some (arstDef D d body)) (hr : (D.doms.getD d default).rst = some r)
    (z : EState) (i : Nat) (h : ArstCommitted p r z) : ArstCommitted p r (commitSlot ps z i) := by
  obtain ⟨hlen, hK⟩ := h
  by_cases hi : z.curr.val i = z.next.val i
  · rw [commitSlot_of_eq ps z i hi]; exact ⟨hlen, hK⟩
  · rw [commitSlot_of_ne ps z i hi]
    refine ⟨by show r < (List.set z.curr i (z.next.val i)).length; rw [List.length_set]; exact hlen, ?_⟩
    intro l' hl' hrun'
    simp only [List.getElem?_zipWith, hdef] at hl'
    cases hl : z.locals[p]? with
    | none => simp [hl] at hl'
    | some l =>
      simp only [hl] at hl'
      have e : l' = (arstDef D d body).wake l i (z.curr.val i) (z.next.val i) := by simpa using hl'.symm
      simp only [arstDef, hr] at e
      by_cases hw : (some i == some r && z.next.val i == 1) = true
      · -- this commit raises the reset
        simp only [Bool.and_eq_true, beq_iff_eq, Option.some.injEq] at hw
        obtain ⟨hir, hn1⟩ := hw
        subst hir
        show Env.val (z.curr.set i (z.next.val i)) i = 1 ∧ Env.val (z.curr.set i (z.next.val i)) i = z.next.val i
        rw [val_set_self _ _ _ hlen]
        exact ⟨hn1, rfl⟩
      · simp only [hw] at e
        have e' : l' = l := by simpa using e
        subst e'
        obtain ⟨h1, h2⟩ := hK l' hl hrun'
        have hir : i ≠ r := by
          intro h; subst h; exact hi h2
        show Env.val (z.curr.set i (z.next.val i)) r = 1 ∧ Env.val (z.curr.set i (z.next.val i)) r = z.next.val r
        rw [val_set_ne _ _ _ _ hir]
        exact ⟨h1, h2⟩

theorem commit_arst (ps : List ProcDef) (D : Design) (d : Nat) (body : Stmt) (p r : Nat)
    (hdef : ps[p]? = some (arstDef D d body)) (hr : (D.doms.getD d default).rst = some r)
    (order : List Nat) (z : EState) (h : ArstCommitted p r z) : ArstCommitted p r (commit ps order z) := by
  unfold commit
  induction order generalizing z with
  | nil => exact h
  | cons i rest ih => exact ih _ (commitSlot_arst ps D d body p r hdef hr z i h)

/-- the schedule lists every process in every delta (the engine iterates the whole `_processes` set) -/
def SchedLists (a : Sched) (nproc : Nat) : Prop := ∀ k p, p < nproc → p ∈ (a k).procs

/-- one delta preserves the invariant, for any order that lists the processes -/
theorem delta_arstInv (D : Design) (kinds : List ProcKind) (scripts : List (List TbOp)) (o : Orders)
    (ho : ∀ p, p < kinds.length → p ∈ o.procs) (s : EState) (hI : ArstInv D kinds s) :
    ArstInv D kinds (delta (simDefs D kinds scripts) o s).1 := by
  intro p r hp
  obtain ⟨hlen, _⟩ := hI p r hp
  obtain ⟨d, body, hdef, hr⟩ := isArst_def D kinds scripts p r hp
  have hpk : p < kinds.length := by
    obtain ⟨_, _, hk, _⟩ := hp
    exact (List.getElem?_eq_some_iff.mp hk).1
  have hclear := runProcs_clears_def (simDefs D kinds scripts) o.procs (trigPhase (simDefs D kinds scripts) s) p _ hdef
    (fun l cur h => h) (ho p hpk)
  have hc0 : ArstCommitted p r (runProcs (simDefs D kinds scripts) o.procs (trigPhase (simDefs D kinds scripts) s)) := by
    refine ⟨by rw [runProcs_curr]; exact hlen, fun l hl hrun => ?_⟩
    rw [hclear l hl] at hrun; cases hrun
  obtain ⟨h1, h2⟩ := commit_arst _ D d body p r hdef hr o.slots _ hc0
  unfold delta
  exact ⟨h1, fun l hl hrun => (h2 l hl hrun).1⟩

/-! ## `step_design()` under an invariant -/

/-- `settle` does not depend on the schedule from any state satisfying an invariant that is preserved
by `delta` and gives compatible writes -/
theorem settle_sched_perm_on (ps : List ProcDef) (hw : WakeComm ps) (Inv : EState → Prop)
    (hc : ∀ s, Inv s → CompatAt ps (trigPhase ps s)) (a b : Sched)
    (hd : ∀ s, Inv s → Inv (delta ps (a s.deltas) s).1)
    (hn : SchedNodup a) (he : SchedEquiv a b) (fuel : Nat) (s : EState) (h : Inv s) :
    settle ps a fuel s = settle ps b fuel s ∧ Inv (settle ps a fuel s).1 := by
  induction fuel generalizing s with
  | zero => exact ⟨rfl, h⟩
  | succ n ih =>
    simp only [settle]
    rw [← delta_perm_at ps hw s (a s.deltas) (b s.deltas) (hc s h) (hn _) (he _)]
    split
    · exact ⟨rfl, hd s h⟩
    · exact ih _ (hd s h)

/-! ## Whole runs under an invariant -/

/-- the same simulation with another `step_design()` -/
def Sim.withStep (S : Sim) (f : EState → EState) : Sim := { S with step := f }

/-- an invariant of the run of `S`: it only speaks about `curr` and the processes' own state, and it is
preserved by `step_design()` and by the timeline step -/
structure StepInv (S : Sim) (Inv : EState → Prop) : Prop where
  frame : ∀ s s' : EState, s'.curr = s.curr → (∀ p, p < S.nproc → s'.locals[p]? = s.locals[p]?) → Inv s → Inv s'
  step : ∀ s, Inv s → Inv (S.step s)
  time : ∀ s, Inv s → Inv (advanceTime S.defs s).1

section agree
variable (S : Sim) (f : EState → EState) (Inv : EState → Prop) (hI : StepInv S Inv)
  (hf : ∀ s, Inv s → f s = S.step s)
include hI hf

theorem tbExec_agree (t : Nat) (script : List TbOp) : ∀ fuel s, Inv s →
    tbExec (S.withStep f) t script fuel s = tbExec S t script fuel s ∧ Inv (tbExec S t script fuel s) := by
  intro fuel
  induction fuel with
  | zero => intro s h; exact ⟨rfl, h⟩
  | succ n ih =>
    intro s h
    have hset : ∀ (z : EState) (l : Local), Inv z → Inv (setLoc z (S.nproc + t) l) := fun z l hz =>
      hI.frame z _ rfl (fun p hp => List.getElem?_set_ne (by omega)) hz
    have hnp : (S.withStep f).nproc = S.nproc := rfl
    have hctx : (S.withStep f).ctx = S.ctx := rfl
    have hdoms : (S.withStep f).doms = S.doms := rfl
    have hst : (S.withStep f).step = f := rfl
    cases hop : script[(getLoc s (S.nproc + t)).pc]? with
    | none =>
      simp only [tbExec, hnp, hop]
      exact ⟨trivial, hset _ _ h⟩
    | some op =>
      by_cases hrep : (getLoc s (S.nproc + t)).report = true
      · simp only [tbExec, hnp, hop, hrep, if_true]
        apply ih
        apply hset
        exact hI.frame s _ rfl (fun _ _ => rfl) h
      · have hrep : (getLoc s (S.nproc + t)).report = false := by simpa using hrep
        cases op with
        | set tgt v =>
          simp only [tbExec, hnp, hctx, hst, hop, hrep]
          have h1 : Inv { s with next := assignTbG true S.ctx s.curr tgt 0 v (widthOf S.ctx tgt) s.next } :=
            hI.frame s _ rfl (fun _ _ => rfl) h
          rw [hf _ h1]
          apply ih
          apply hset
          exact hI.step _ h1
        | setFrom tgt e =>
          simp only [tbExec, hnp, hctx, hst, hop, hrep]
          have h1 : Inv { s with next := assignTbG true S.ctx s.curr tgt 0 (evalTb S.ctx s.curr e) (widthOf S.ctx tgt) s.next } :=
            hI.frame s _ rfl (fun _ _ => rfl) h
          rw [hf _ h1]
          apply ih
          apply hset
          exact hI.step _ h1
        | get e =>
          simp only [tbExec, hnp, hctx, hop, hrep]
          apply ih
          apply hset
          exact hI.frame s _ rfl (fun _ _ => rfl) h
        | tick d es =>
          simp only [tbExec, hnp, hdoms, hop, hrep, Bool.false_eq_true, if_false]
          refine ⟨trivial, ?_⟩
          split
          · exact hI.frame (setLoc s (S.nproc + t) _) _ rfl (fun _ _ => rfl) (hset _ _ h)
          · exact hset _ _ h
        | wait tr =>
          simp only [tbExec, hnp, hdoms, hop, hrep, Bool.false_eq_true, if_false]
          refine ⟨trivial, ?_⟩
          split
          · exact hI.frame (setLoc s (S.nproc + t) _) _ rfl (fun _ _ => rfl) (hset _ _ h)
          · exact hset _ _ h

theorem tbPass_agree (s : EState) (h : Inv s) :
    tbPass (S.withStep f) s = tbPass S s ∧ Inv (tbPass S s).1 := by
  unfold tbPass
  have hsc : (S.withStep f).scripts = S.scripts := rfl
  have hnp : (S.withStep f).nproc = S.nproc := rfl
  rw [hsc, hnp]
  generalize List.range S.scripts.length = ts
  suffices hh : ∀ (acc : EState × Bool), Inv acc.1 →
      ts.foldl (fun (acc : EState × Bool) t =>
        if (getLoc acc.1 (S.nproc + t)).runnable then
          (tbExec (S.withStep f) t (S.scripts.getD t []) (2 * (S.scripts.getD t []).length + 2)
            (setLoc acc.1 (S.nproc + t) { getLoc acc.1 (S.nproc + t) with runnable := false }), true)
        else acc) acc =
      ts.foldl (fun (acc : EState × Bool) t =>
        if (getLoc acc.1 (S.nproc + t)).runnable then
          (tbExec S t (S.scripts.getD t []) (2 * (S.scripts.getD t []).length + 2)
            (setLoc acc.1 (S.nproc + t) { getLoc acc.1 (S.nproc + t) with runnable := false }), true)
        else acc) acc ∧
      Inv (ts.foldl (fun (acc : EState × Bool) t =>
        if (getLoc acc.1 (S.nproc + t)).runnable then
          (tbExec S t (S.scripts.getD t []) (2 * (S.scripts.getD t []).length + 2)
            (setLoc acc.1 (S.nproc + t) { getLoc acc.1 (S.nproc + t) with runnable := false }), true)
        else acc) acc).1 from hh (s, false) h
  induction ts with
  | nil => intro acc h; exact ⟨rfl, h⟩
  | cons t rest ih =>
    intro acc h
    simp only [List.foldl_cons]
    by_cases hr : (getLoc acc.1 (S.nproc + t)).runnable = true
    · simp only [hr, if_true]
      have h1 : Inv (setLoc acc.1 (S.nproc + t) { getLoc acc.1 (S.nproc + t) with runnable := false }) :=
        hI.frame acc.1 _ rfl (fun p hp => List.getElem?_set_ne (by omega)) h
      obtain ⟨e, hinv⟩ := tbExec_agree S f Inv hI hf t (S.scripts.getD t []) _ _ h1
      rw [e]
      exact ih _ hinv
    · simp only [hr]
      exact ih _ h

theorem tbLoop_agree (fuel : Nat) (s : EState) (h : Inv s) :
    tbLoop (S.withStep f) fuel s = tbLoop S fuel s ∧ Inv (tbLoop S fuel s) := by
  induction fuel generalizing s with
  | zero => exact ⟨rfl, h⟩
  | succ n ih =>
    simp only [tbLoop]
    obtain ⟨e, hinv⟩ := tbPass_agree S f Inv hI hf s h
    rw [e]
    split
    · exact ih _ hinv
    · exact ⟨rfl, hinv⟩

theorem advance_agree (s : EState) (h : Inv s) :
    advance (S.withStep f) s = advance S s ∧ Inv (advance S s).1 := by
  unfold advance
  have hst : (S.withStep f).step = f := rfl
  have hfu : (S.withStep f).fuel = S.fuel := rfl
  have hde : (S.withStep f).defs = S.defs := rfl
  simp only [hst, hfu, hde]
  rw [hf s h]
  obtain ⟨e, hinv⟩ := tbLoop_agree S f Inv hI hf S.fuel (S.step s) (hI.step s h)
  rw [e]
  exact ⟨rfl, hI.time _ hinv⟩

theorem advanceN_agree (n : Nat) (s : EState) (h : Inv s) :
    advanceN (S.withStep f) n s = advanceN S n s ∧ Inv (advanceN S n s) := by
  induction n with
  | zero => exact ⟨rfl, h⟩
  | succ n ih =>
    simp only [advanceN]
    rw [ih.1]
    obtain ⟨e, hinv⟩ := advance_agree S f Inv hI hf _ ih.2
    rw [e]
    exact ⟨rfl, hinv⟩

theorem run_agree (n : Nat) (s : EState) (h : Inv s) :
    run (S.withStep f) n s = run S n s ∧ Inv (run S n s) := by
  induction n generalizing s with
  | zero => exact ⟨rfl, h⟩
  | succ n ih =>
    simp only [run]
    obtain ⟨e, hinv⟩ := advance_agree S f Inv hI hf s h
    rw [e]
    split
    · exact ih _ hinv
    · exact ⟨rfl, hinv⟩

theorem runUntil_agree (deadline n : Nat) (s : EState) (h : Inv s) :
    runUntil (S.withStep f) deadline n s = runUntil S deadline n s ∧ Inv (runUntil S deadline n s) := by
  induction n generalizing s with
  | zero => exact ⟨rfl, h⟩
  | succ n ih =>
    simp only [runUntil]
    obtain ⟨e, hinv⟩ := advance_agree S f Inv hI hf s h
    rw [e]
    split
    · exact ih _ hinv
    · exact ⟨rfl, h⟩

end agree

/-! ## The invariant of asynchronous resets is an invariant of the run -/

theorem advanceTime_arstInv (D : Design) (kinds : List ProcKind) (scripts : List (List TbOp)) (s : EState)
    (hI : ArstInv D kinds s) : ArstInv D kinds (advanceTime (simDefs D kinds scripts) s).1 := by
  intro p r hp
  obtain ⟨hlen, hrun⟩ := hI p r hp
  obtain ⟨d, body, hdef, _⟩ := isArst_def D kinds scripts p r hp
  rcases advanceTime_spec (simDefs D kinds scripts) s with ⟨e, _⟩ | ⟨dl, _, _, _, _, _, hloc, hcurr, _⟩
  · rw [e]; exact ⟨hlen, hrun⟩
  · rw [hcurr]
    refine ⟨hlen, fun l hl hr => ?_⟩
    rw [hloc p] at hl
    split at hl
    · cases hx : s.locals[p]? with
      | none => simp [hx] at hl
      | some x =>
        simp only [hx, Option.map_some, Option.some.injEq] at hl
        have : l = x := by
          rw [← hl]
          simp [List.getD_eq_getElem?_getD, hdef, arstDef]
        subst this
        exact hrun l hx hr
    · exact hrun l hl hr

theorem mkSim_stepInv (D : Design) (kinds : List ProcKind) (scripts : List (List TbOp)) (a : Sched) (fuel : Nat)
    (ha : SchedLists a kinds.length) :
    StepInv (mkSim D kinds scripts a fuel) (ArstInv D kinds) where
  frame := by
    intro s s' hc hl h p r hp
    have hpk : p < kinds.length := by
      obtain ⟨_, _, hk, _⟩ := hp
      exact (List.getElem?_eq_some_iff.mp hk).1
    obtain ⟨h1, h2⟩ := h p r hp
    rw [hc]
    exact ⟨h1, fun l hl' hr => h2 l (by rw [← hl p hpk]; exact hl') hr⟩
  step := by
    intro s h
    show ArstInv D kinds (settle (simDefs D kinds scripts) a fuel s).1
    induction fuel generalizing s with
    | zero => exact h
    | succ n ih =>
      simp only [settle]
      have hd := delta_arstInv D kinds scripts (a s.deltas) (fun p hp => ha _ p hp) s h
      split
      · exact hd
      · exact ih _ hd
  time := fun s h => advanceTime_arstInv D kinds scripts s h

/-- `step_design()` of a simulation does not depend on the schedule in any state satisfying the invariant -/
theorem mkSim_step_on (D : Design) (kinds : List ProcKind) (scripts : List (List TbOp)) (a b : Sched) (fuel : Nat)
    (hs : kinds.Pairwise (PairOK D)) (ha : SchedLists a kinds.length) (hn : SchedNodup a) (he : SchedEquiv a b)
    (s : EState) (h : ArstInv D kinds s) :
    settle (simDefs D kinds scripts) a fuel s = settle (simDefs D kinds scripts) b fuel s ∧
    ArstInv D kinds (settle (simDefs D kinds scripts) a fuel s).1 :=
  settle_sched_perm_on (simDefs D kinds scripts) (simDefs_wakeComm D kinds scripts) (ArstInv D kinds)
    (fun z hz => compatAt_of_arstInv D kinds scripts hs _ (trigPhase_arstInv D kinds scripts z hz)) a b
    (fun z hz => delta_arstInv D kinds scripts (a z.deltas) (fun p hp => ha _ p hp) z hz) hn he fuel s h

/-- every run from a state satisfying the invariant is the same under the two schedules, and ends in
a state satisfying the invariant -/
theorem mkSim_runs_on (D : Design) (kinds : List ProcKind) (scripts : List (List TbOp)) (a b : Sched) (fuel : Nat)
    (hs : kinds.Pairwise (PairOK D)) (ha : SchedLists a kinds.length) (hn : SchedNodup a) (he : SchedEquiv a b)
    (n : Nat) (s : EState) (h : ArstInv D kinds s) :
    (advanceN (mkSim D kinds scripts b fuel) n s = advanceN (mkSim D kinds scripts a fuel) n s ∧
      ArstInv D kinds (advanceN (mkSim D kinds scripts a fuel) n s)) ∧
    (run (mkSim D kinds scripts b fuel) n s = run (mkSim D kinds scripts a fuel) n s ∧
      ArstInv D kinds (run (mkSim D kinds scripts a fuel) n s)) ∧
    (∀ deadline, runUntil (mkSim D kinds scripts b fuel) deadline n s = runUntil (mkSim D kinds scripts a fuel) deadline n s ∧
      ArstInv D kinds (runUntil (mkSim D kinds scripts a fuel) deadline n s)) := by
  have hI := mkSim_stepInv D kinds scripts a fuel ha
  have hf : ∀ z, ArstInv D kinds z → (mkSim D kinds scripts b fuel).step z = (mkSim D kinds scripts a fuel).step z := by
    intro z hz
    show (settle (simDefs D kinds scripts) b fuel z).1 = (settle (simDefs D kinds scripts) a fuel z).1
    rw [(mkSim_step_on D kinds scripts a b fuel hs ha hn he z hz).1]
  have hb : (mkSim D kinds scripts a fuel).withStep (mkSim D kinds scripts b fuel).step = mkSim D kinds scripts b fuel := rfl
  refine ⟨?_, ?_, fun deadline => ?_⟩
  · have := advanceN_agree _ _ _ hI hf n s h; rw [hb] at this; exact this
  · have := run_agree _ _ _ hI hf n s h; rw [hb] at this; exact this
  · have := runUntil_agree _ _ _ hI hf deadline n s h; rw [hb] at this; exact this

/-! ## The static condition on a design -/

/-- **One driver per bit**, as a decidable condition on the design and the processes added to it:
the commit masks of different processes of the design are disjoint; the clocks and user processes
write signals (bits) no circuit process masks, and not each other's; resets are signals of the design.
The reset-only process and the synchronous process of one body share their masks: they are the
`ArstPair` exception. -/
def DesignOK (D : Design) (extra : List ProcKind) : Prop :=
  D.procs.Pairwise (fun p q => masksDisjoint (bodyMasks D.ctx p.body) (bodyMasks D.ctx q.body) = true) ∧
  (∀ k ∈ extra, ∀ p ∈ D.procs, masksDisjoint (bodyMasks D.ctx p.body) (kindMasks D k) = true) ∧
  extra.Pairwise (fun a b => masksDisjoint (kindMasks D a) (kindMasks D b) = true) ∧
  arstWf D (circuitKinds D ++ extra) = true

instance (D : Design) (extra : List ProcKind) : Decidable (DesignOK D extra) := by
  unfold DesignOK; infer_instance

/-- the processes `_FragmentCompiler` creates for one (fragment, domain) -/
def procKinds (D : Design) (p : Proc) : List ProcKind :=
  match p.dom with
  | none => [.comb p.body]
  | some d =>
    if (D.doms.getD d default).async && (D.doms.getD d default).rst.isSome then [.arst d p.body, .sync d p.body]
    else [.sync d p.body]

theorem circuitKinds_eq (D : Design) : circuitKinds D = D.procs.flatMap (procKinds D) := rfl

theorem procKinds_masks (D : Design) (p : Proc) (k : ProcKind) (h : k ∈ procKinds D p) :
    kindMasks D k = bodyMasks D.ctx p.body := by
  unfold procKinds at h
  split at h
  · simp only [List.mem_singleton] at h; subst h; rfl
  · split at h
    · simp only [List.mem_cons, List.not_mem_nil, or_false] at h
      rcases h with h | h <;> subst h <;> rfl
    · simp only [List.mem_singleton] at h; subst h; rfl

theorem procKinds_pairwise (D : Design) (p : Proc) : (procKinds D p).Pairwise (PairOK D) := by
  unfold procKinds
  split
  · simp
  · next d hd =>
    split
    · next hc =>
      simp only [Bool.and_eq_true] at hc
      obtain ⟨r, hr⟩ := Option.isSome_iff_exists.mp hc.2
      simp only [List.pairwise_cons, List.mem_singleton, forall_eq, List.not_mem_nil, false_imp_iff,
        implies_true, List.Pairwise.nil, and_true]
      exact Or.inr (Or.inl ⟨d, p.body, r, rfl, rfl, hr⟩)
    · simp

/-- the static condition on the design gives the pairwise condition on its processes -/
theorem designOK_pairOK (D : Design) (extra : List ProcKind) (h : DesignOK D extra) :
    (circuitKinds D ++ extra).Pairwise (PairOK D) := by
  obtain ⟨h1, h2, h3, _⟩ := h
  rw [List.pairwise_append]
  refine ⟨?_, h3.imp (fun h => Or.inl h), ?_⟩
  · rw [circuitKinds_eq, List.pairwise_flatMap]
    refine ⟨fun p _ => procKinds_pairwise D p, h1.imp ?_⟩
    intro p q hpq x hx y hy
    left
    rw [procKinds_masks D p x hx, procKinds_masks D q y hy]
    exact hpq
  · intro a ha b hb
    rw [circuitKinds_eq, List.mem_flatMap] at ha
    obtain ⟨p, hp, hap⟩ := ha
    left
    rw [procKinds_masks D p a hap]
    exact h2 b hb p hp

end Amaranth.Engine
