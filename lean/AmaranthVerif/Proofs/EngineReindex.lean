import AmaranthVerif.Proofs.EngineEquivSafe

/-!
# Re-indexing the owners of a simulation

The model keeps the owners (processes, then testbenches) in a list and schedules refer to them by
index; the real engine keeps the processes in an unordered set. Here: two simulations whose process
lists are related by an injection `σ` of the indices of the smaller one (`B`) into those of the larger
one (`A`), such that owner `σ q` of `A` is owner `q` of `B`, and every owner of `A` outside the image
is *inert* (its runs write nothing and set no timer). When `A` runs under a schedule `a` and `B`
under the schedule that lists, at every delta, the `B`-indices of the owners `a` lists, in the same
order, the two simulations are in lock step: same `curr`, `next`, time, observations.

Special cases: a permutation of the process list (nothing outside the image: moving one process to
the end, as `add_process` after removing a fragment does), and removing an inert process.
-/

namespace Amaranth.Engine
open Amaranth

structure Embed (σ : Nat → Nat) (τ : Nat → Option Nat) : Prop where
  left : ∀ q, τ (σ q) = some q
  right : ∀ j q, τ j = some q → σ q = j

theorem Embed.inj {σ : Nat → Nat} {τ : Nat → Option Nat} (h : Embed σ τ) {q q' : Nat} (e : σ q = σ q') : q = q' := by
  have h1 := h.left q
  rw [e, h.left q'] at h1
  exact (Option.some.inj h1).symm

theorem Embed.notImage {σ : Nat → Nat} {τ : Nat → Option Nat} (h : Embed σ τ) {j : Nat} (hj : τ j = none) (q : Nat) :
    σ q ≠ j := fun e => by rw [← e, h.left] at hj; cases hj

/-- the owner's runs write nothing and set no timer -/
def Inert (d : ProcDef) : Prop := ∀ l cur, (d.run l cur).updates = [] ∧ (d.run l cur).timer = none

structure DefsEmbed (σ : Nat → Nat) (τ : Nat → Option Nat) (psA psB : List ProcDef) : Prop where
  emb : Embed σ τ
  defs : ∀ q, psA[σ q]? = psB[q]?
  extra : ∀ j, τ j = none → ∀ d, psA[j]? = some d → Inert d

/-- the states of the two simulations: everything equal, the local state and timeline entry of owner
`σ q` of `A` being those of owner `q` of `B`; the inert owners of `A` have no timeline entry -/
structure ERel (σ : Nat → Nat) (τ : Nat → Option Nat) (a b : EState) : Prop where
  curr : b.curr = a.curr
  next : b.next = a.next
  now : b.now = a.now
  deltas : b.deltas = a.deltas
  obs : b.obs = a.obs
  locals : ∀ q, a.locals[σ q]? = b.locals[q]?
  timers : ∀ q, a.timers[σ q]? = b.timers[q]?
  extraT : ∀ j, τ j = none → ∀ d, a.timers[j]? ≠ some (some d)

theorem set_getElem?_corr {α : Type} {l1 l2 : List α} (i1 i2 j1 j2 : Nat) (x : α)
    (hi : l1[i1]? = l2[i2]?) (hj : l1[j1]? = l2[j2]?) (hiff : i1 = j1 ↔ i2 = j2) :
    (l1.set i1 x)[j1]? = (l2.set i2 x)[j2]? := by
  by_cases h : i1 = j1
  · have h' := hiff.mp h
    subst h; subst h'
    rw [List.getElem?_set, List.getElem?_set]
    simp only [if_true]
    rcases Nat.lt_or_ge i1 l1.length with h1 | h1
    · have : i2 < l2.length := by
        rcases Nat.lt_or_ge i2 l2.length with h2 | h2
        · exact h2
        · rw [List.getElem?_eq_getElem h1, List.getElem?_eq_none h2] at hi; cases hi
      simp [h1, this]
    · have : ¬ i2 < l2.length := by
        intro h2
        rw [List.getElem?_eq_none h1, List.getElem?_eq_getElem h2] at hi; cases hi
      simp [Nat.not_lt.mpr h1, this]
  · have h' : ¬ i2 = j2 := fun e => h (hiff.mpr e)
    rw [List.getElem?_set_ne h, List.getElem?_set_ne h']
    exact hj

section
variable {σ : Nat → Nat} {τ : Nat → Option Nat} {psA psB : List ProcDef} (H : DefsEmbed σ τ psA psB)
include H

theorem trigPhase_erel {a b : EState} (h : ERel σ τ a b) : ERel σ τ (trigPhase psA a) (trigPhase psB b) := by
  refine ⟨h.curr, h.next, h.now, h.deltas, h.obs, ?_, h.timers, h.extraT⟩
  intro q
  simp only [trigPhase, List.getElem?_zipWith, H.defs q, h.locals q, h.curr]

theorem stepProc_erel_matched {a b : EState} (h : ERel σ τ a b) (q : Nat) :
    ERel σ τ (stepProc psA a (σ q)) (stepProc psB b q) := by
  unfold stepProc
  have he : effectOf psA a (σ q) = effectOf psB b q := by
    unfold effectOf
    rw [H.defs q, h.locals q, h.curr]
  rw [he]
  cases effectOf psB b q with
  | none => exact h
  | some e =>
    refine ⟨h.curr, ?_, h.now, h.deltas, h.obs, ?_, ?_, ?_⟩
    · simp only [applyEffect, h.next]
    · intro q'
      simp only [applyEffect]
      exact set_getElem?_corr _ _ _ _ _ (h.locals q) (h.locals q') ⟨fun e => H.emb.inj e, fun e => by rw [e]⟩
    · intro q'
      simp only [applyEffect]
      cases e.timer with
      | none => exact h.timers q'
      | some n =>
        simp only [h.now]
        exact set_getElem?_corr _ _ _ _ _ (h.timers q) (h.timers q') ⟨fun e => H.emb.inj e, fun e => by rw [e]⟩
    · intro j hj d
      simp only [applyEffect]
      cases e.timer with
      | none => exact h.extraT j hj d
      | some n =>
        simp only
        rw [List.getElem?_set_ne (H.emb.notImage hj q)]
        exact h.extraT j hj d

theorem stepProc_erel_extra {a b : EState} (h : ERel σ τ a b) (j : Nat) (hj : τ j = none) :
    ERel σ τ (stepProc psA a j) b := by
  unfold stepProc
  cases he : effectOf psA a j with
  | none => exact h
  | some e =>
    obtain ⟨d, l, hd, rfl⟩ := effectOf_some _ _ _ _ he
    obtain ⟨hu, ht⟩ := H.extra j hj d hd l a.curr
    refine ⟨h.curr, ?_, h.now, h.deltas, h.obs, ?_, ?_, ?_⟩
    · simp only [applyEffect, hu, applyAll, List.foldl_nil]; exact h.next
    · intro q
      simp only [applyEffect]
      rw [List.getElem?_set_ne (Ne.symm (H.emb.notImage hj q))]
      exact h.locals q
    · intro q
      simp only [applyEffect, ht]
      exact h.timers q
    · intro j' hj' d'
      simp only [applyEffect, ht]
      exact h.extraT j' hj' d'

theorem runProcs_erel : ∀ (order : List Nat) (a b : EState), ERel σ τ a b →
    ERel σ τ (runProcs psA order a) (runProcs psB (order.filterMap τ) b) := by
  intro order
  unfold runProcs
  induction order with
  | nil => intro a b h; exact h
  | cons j rest ih =>
    intro a b h
    cases hj : τ j with
    | none =>
      simp only [List.foldl_cons, List.filterMap_cons, hj]
      exact ih _ _ (stepProc_erel_extra H h j hj)
    | some q =>
      have e := H.emb.right j q hj
      subst e
      simp only [List.foldl_cons, List.filterMap_cons, hj]
      exact ih _ _ (stepProc_erel_matched H h q)

theorem commitSlot_erel {a b : EState} (h : ERel σ τ a b) (i : Nat) :
    ERel σ τ (commitSlot psA a i) (commitSlot psB b i) := by
  unfold commitSlot
  simp only [h.curr, h.next]
  split
  · exact h
  · refine ⟨rfl, rfl, h.now, h.deltas, h.obs, ?_, h.timers, h.extraT⟩
    intro q
    simp only [List.getElem?_zipWith, H.defs q, h.locals q]

theorem commit_erel (order : List Nat) : ∀ (a b : EState), ERel σ τ a b →
    ERel σ τ (commit psA order a) (commit psB order b) := by
  unfold commit
  induction order with
  | nil => intro a b h; exact h
  | cons i rest ih => intro a b h; exact ih _ _ (commitSlot_erel H h i)

/-- the schedule of `B`: at every delta, the `B`-indices of the owners `A`'s schedule lists -/
def mapSched (τ : Nat → Option Nat) (a : Sched) : Sched := fun k => ⟨(a k).procs.filterMap τ, (a k).slots⟩

theorem delta_erel {a b : EState} (h : ERel σ τ a b) (o : Orders) :
    ERel σ τ (delta psA o a).1 (delta psB ⟨o.procs.filterMap τ, o.slots⟩ b).1 ∧
    (delta psB ⟨o.procs.filterMap τ, o.slots⟩ b).2 = (delta psA o a).2 := by
  have h2 := runProcs_erel H o.procs _ _ (trigPhase_erel H h)
  have h3 := commit_erel H o.slots _ _ h2
  unfold delta
  refine ⟨⟨h3.curr, h3.next, h3.now, by simp only [h3.deltas], h3.obs, h3.locals, h3.timers, h3.extraT⟩, ?_⟩
  simp only [anyChange, h2.curr, h2.next]

theorem settle_erel (sched : Sched) (fuel : Nat) : ∀ (a b : EState), ERel σ τ a b →
    ERel σ τ (settle psA sched fuel a).1 (settle psB (mapSched τ sched) fuel b).1 := by
  induction fuel with
  | zero => intro a b h; exact h
  | succ n ih =>
    intro a b h
    simp only [settle, mapSched, h.deltas]
    obtain ⟨h1, h2⟩ := delta_erel H h (sched a.deltas)
    rw [h2]
    split
    · exact h1
    · exact ih _ _ h1

theorem advanceTime_erel {a b : EState} (h : ERel σ τ a b) :
    ERel σ τ (advanceTime psA a).1 (advanceTime psB b).1 := by
  have hget : ∀ q, psA.getD (σ q) default = psB.getD q default := by
    intro q; rw [List.getD_eq_getElem?_getD, List.getD_eq_getElem?_getD, H.defs q]
  rcases advanceTime_spec psA a with ⟨eA, nA⟩ | ⟨dA, ⟨iA, hiA⟩, minA, _, nowA, tmA, locA, cA, nxA, obA, dlA⟩
  · rcases advanceTime_spec psB b with ⟨eB, _⟩ | ⟨dB, ⟨iB, hiB⟩, _⟩
    · rw [eA, eB]; exact h
    · exact absurd (by rw [h.timers iB]; exact hiB) (nA (σ iB) dB)
  · rcases advanceTime_spec psB b with ⟨_, nB⟩ | ⟨dB, ⟨iB, hiB⟩, minB, _, nowB, tmB, locB, cB, nxB, obB, dlB⟩
    · exfalso
      cases hτ : τ iA with
      | none => exact h.extraT iA hτ dA hiA
      | some q =>
        have := H.emb.right iA q hτ
        subst this
        exact nB q dA (by rw [← h.timers q]; exact hiA)
    · have hd : dA = dB := by
        have h1 : dA ≤ dB := minA (σ iB) dB (by rw [h.timers iB]; exact hiB)
        have h2 : dB ≤ dA := by
          cases hτ : τ iA with
          | none => exact absurd hiA (h.extraT iA hτ dA)
          | some q =>
            have := H.emb.right iA q hτ
            subst this
            exact minB q dA (by rw [← h.timers q]; exact hiA)
        omega
      subst hd
      refine ⟨by rw [cA, cB]; exact h.curr, by rw [nxA, nxB]; exact h.next, by rw [nowA, nowB],
        by rw [dlA, dlB]; exact h.deltas, by rw [obA, obB]; exact h.obs, ?_, ?_, ?_⟩
      · intro q
        rw [locA (σ q), locB q, h.timers q, h.locals q, hget q]
      · intro q
        rw [tmA (σ q), tmB q, h.timers q]
      · intro j hj d
        rw [tmA j]
        split
        · simp
        · exact h.extraT j hj d

end

/-! ## Simulations built by `mkSim` -/

/-- the process lists are related by `σ`: process `σ q` of `A` is process `q` of `B`, testbench `t` of
`A` is testbench `t` of `B`, the other processes of `A` are inert -/
structure KindsEmbed (D : Design) (σ : Nat → Nat) (τ : Nat → Option Nat) (kindsA kindsB : List ProcKind) : Prop where
  emb : Embed σ τ
  procs : ∀ q, q < kindsB.length → kindsA[σ q]? = kindsB[q]?
  tbs : ∀ t, σ (kindsB.length + t) = kindsA.length + t
  extra : ∀ j, τ j = none → ∃ k, kindsA[j]? = some k ∧ Inert (k.toDef D)

theorem kindsEmbed_lt {D : Design} {σ : Nat → Nat} {τ : Nat → Option Nat} {kindsA kindsB : List ProcKind}
    (K : KindsEmbed D σ τ kindsA kindsB) (q : Nat) (hq : q < kindsB.length) : σ q < kindsA.length := by
  have := K.procs q hq
  rw [List.getElem?_eq_getElem hq] at this
  exact (List.getElem?_eq_some_iff.mp this).1

theorem simDefs_embed {D : Design} {σ : Nat → Nat} {τ : Nat → Option Nat} {kindsA kindsB : List ProcKind}
    (K : KindsEmbed D σ τ kindsA kindsB) (scripts : List (List TbOp)) :
    DefsEmbed σ τ (simDefs D kindsA scripts) (simDefs D kindsB scripts) := by
  refine ⟨K.emb, ?_, ?_⟩
  · intro q
    rcases Nat.lt_or_ge q kindsB.length with hq | hq
    · have hk : kindsB[q]? = some kindsB[q] := List.getElem?_eq_getElem hq
      rw [simDefs_proc D kindsB scripts q _ hk, simDefs_proc D kindsA scripts (σ q) _ ((K.procs q hq).trans hk)]
    · obtain ⟨t, rfl⟩ : ∃ t, q = kindsB.length + t := ⟨q - kindsB.length, by omega⟩
      rw [K.tbs t]
      unfold simDefs
      rw [List.getElem?_append_right (by simp), List.getElem?_append_right (by simp)]
      simp
  · intro j hj d hd
    obtain ⟨k, hk, hin⟩ := K.extra j hj
    rw [simDefs_proc D kindsA scripts j k hk] at hd
    cases hd
    exact hin

theorem getD_corr {α : Type} {l1 l2 : List α} {i j : Nat} (h : l1[i]? = l2[j]?) (x : α) : l1.getD i x = l2.getD j x := by
  rw [List.getD_eq_getElem?_getD, List.getD_eq_getElem?_getD, h]

theorem reindex_simRel (D : Design) (σ : Nat → Nat) (τ : Nat → Option Nat) (kindsA kindsB : List ProcKind)
    (K : KindsEmbed D σ τ kindsA kindsB) (scripts : List (List TbOp)) (sched : Sched) (fuel : Nat) :
    SimRel (mkSim D kindsA scripts sched fuel) (mkSim D kindsB scripts (mapSched τ sched) fuel) (ERel σ τ)
      (fun _ => True) where
  ctx := rfl
  doms := rfl
  scripts := rfl
  fuel := rfl
  curr := fun _ _ h => h.curr
  next := fun _ _ h => h.next
  now := fun _ _ h => h.now
  obs := fun _ _ h => h.obs
  loc := fun a b t h => by
    show getLoc b (kindsB.length + t) = getLoc a (kindsA.length + t)
    unfold getLoc
    rw [← K.tbs t]
    exact (getD_corr (h.locals _) default).symm
  setLoc := fun a b t l h => by
    show ERel σ τ (setLoc a (kindsA.length + t) l) (setLoc b (kindsB.length + t) l)
    refine ⟨h.curr, h.next, h.now, h.deltas, h.obs, ?_, h.timers, h.extraT⟩
    intro q
    simp only [setLoc]
    rw [← K.tbs t]
    exact set_getElem?_corr _ _ _ _ _ (h.locals _) (h.locals q) ⟨fun e => K.emb.inj e, fun e => by rw [e]⟩
  addObs := fun a b x h => ⟨h.curr, h.next, h.now, h.deltas, by simp only [h.obs], h.locals, h.timers, h.extraT⟩
  setTimer := fun a b t x h => by
    show ERel σ τ { a with timers := a.timers.set (kindsA.length + t) x } { b with timers := b.timers.set (kindsB.length + t) x }
    refine ⟨h.curr, h.next, h.now, h.deltas, h.obs, h.locals, ?_, ?_⟩
    · intro q
      simp only
      rw [← K.tbs t]
      exact set_getElem?_corr _ _ _ _ _ (h.timers _) (h.timers q) ⟨fun e => K.emb.inj e, fun e => by rw [e]⟩
    · intro j hj d
      simp only
      rw [← K.tbs t, List.getElem?_set_ne (K.emb.notImage hj _)]
      exact h.extraT j hj d
  write := fun a b tgt v h _ => ⟨h.curr, by simp only [h.next], h.now, h.deltas, h.obs, h.locals, h.timers, h.extraT⟩
  step := fun a b h => settle_erel (simDefs_embed K scripts) sched fuel a b h
  time := fun a b h => advanceTime_erel (simDefs_embed K scripts) h
  scriptsOk := fun sc _ op _ => by cases op <;> trivial

end Amaranth.Engine
