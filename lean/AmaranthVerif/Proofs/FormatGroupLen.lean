import AmaranthVerif.Proofs.FormatGroup

/-!
# Grouped digits with zero fill are at most one character longer than asked for
-/

namespace Amaranth
namespace Fmt

/-- length of `n` digits grouped by `g` -/
def natLen (g n : Nat) : Nat := if n = 0 then 0 else n + (n - 1) / g

theorem natLen_step (g r : Nat) (hg : 1 ≤ g) (hr : g < r) : g + 1 + natLen g (r - g) = natLen g r := by
  unfold natLen
  have h1 : r - g ≠ 0 := by omega
  have h2 : r ≠ 0 := by omega
  simp only [h1, h2, if_false]
  have : (r - 1) / g = (r - g - 1) / g + 1 := by
    have e : r - 1 = (r - g - 1) + g := by omega
    rw [e, Nat.add_div_right _ (by omega)]
  omega

theorem natLen_ge (g n : Nat) : n ≤ natLen g n := by
  unfold natLen
  split
  · omega
  · exact Nat.le_add_right _ _

theorem natLen_ge2 (g r : Nat) (hg : 1 ≤ g) (hr : g < r) : g + 2 ≤ natLen g r := by
  have := natLen_step g r hg hr
  have h2 := natLen_ge g (r - g)
  omega

theorem groupRev_length (g : Nat) (hg : 1 ≤ g) (sep : Char) :
    ∀ (fuel : Nat) (ds : List Char) (minW : Nat) (useSep : Bool),
      ds.length + minW + 1 ≤ fuel + 1 → 0 < fuel →
      (groupRev g sep fuel ds minW useSep).length ≤
        max ((if useSep then 1 else 0) + natLen g ds.length) ((if useSep then 1 else 0) + minW + 1) := by
  intro fuel
  induction fuel with
  | zero => intro ds minW useSep _ h0; omega
  | succ f ih =>
    intro ds minW useSep hfuel _
    simp only [groupRev]
    have hsl : (if useSep = true then [sep] else []).length = (if useSep = true then 1 else 0) := by
      cases useSep <;> rfl
    generalize hL : min g (max (max ds.length minW) 1) = L
    have hL1 : 1 ≤ L := by omega
    have hLg : L ≤ g := by omega
    by_cases hstop : ((ds.drop (min ds.length L)).isEmpty && (minW - L == 0)) = true
    · simp only [hstop, if_true]
      simp only [Bool.and_eq_true, List.isEmpty_iff, beq_iff_eq] at hstop
      have hd : ds.length ≤ L := by
        have := congrArg List.length hstop.1
        simp only [List.length_drop, List.length_nil] at this
        omega
      simp only [List.length_append, List.length_replicate, List.length_take, hsl]
      have := natLen_ge g ds.length
      omega
    · simp only [hstop, Bool.false_eq_true, if_false]
      simp only [Bool.and_eq_true, List.isEmpty_iff, beq_iff_eq, not_and] at hstop
      have hlen : (ds.drop (min ds.length L)).length = ds.length - min ds.length L := List.length_drop
      by_cases hd : ds.drop (min ds.length L) = []
      · -- all digits used, still width to fill
        have hm := hstop hd
        have hdl : ds.length ≤ L := by rw [hd] at hlen; simp at hlen; omega
        have hf : 0 < f := by omega
        have := ih (ds.drop (min ds.length L)) (minW - L - 1) true (by rw [hlen]; omega) hf
        rw [hd] at this
        simp only [List.length_nil, natLen, if_true] at this
        simp only [List.length_append, List.length_replicate, List.length_take, hsl, hd]
        omega
      · have hpos : 0 < (ds.drop (min ds.length L)).length := List.length_pos_iff.mpr hd
        have hgl : L < ds.length := by rw [hlen] at hpos; omega
        have hLeq : L = g := by omega
        have hf : 0 < f := by omega
        have := ih (ds.drop (min ds.length L)) (minW - L - 1) true (by rw [hlen]; omega) hf
        rw [hlen] at this
        have hmin : min ds.length L = L := by omega
        rw [hmin, hLeq] at this
        simp only [List.length_append, List.length_replicate, List.length_take, hsl]
        have hstep := natLen_step g ds.length hg (by omega)
        have hge2 := natLen_ge2 g ds.length hg (by omega)
        rw [hmin, hLeq]
        simp only [if_true] at this
        omega

/-- grouped digits with a minimum width are at most one longer than the larger of their natural
length and the minimum width -/
theorem groupDigits_length (g : Nat) (hg : 1 ≤ g) (sep : Char) (minW : Nat) (ds : List Char) :
    (groupDigits g sep minW ds).length ≤ max (natLen g ds.length) (minW + 1) := by
  unfold groupDigits
  have := groupRev_length g hg sep (ds.length + minW + 1) ds.reverse minW false (by simp) (by omega)
  simpa using this

end Fmt
end Amaranth
