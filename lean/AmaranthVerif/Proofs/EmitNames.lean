import AmaranthVerif.Proofs.EmitMain

/-!
# The wires the emitter declares have distinct generated names; the concrete evaluator context and environment
(helper lemmas for `C04.emit_expr_correct`)
-/

namespace Amaranth.Rtlil
open Amaranth

/-- the declared wires are generated names with strictly increasing indices in `[k, n)` -/
def WiresIn : Nat → Nat → List (String × Nat) → Prop
  | k, n, [] => k ≤ n
  | k, n, p :: rest => ∃ j, k ≤ j ∧ p.1 = autoName j ∧ WiresIn (j + 1) n rest

theorem WiresIn.le : ∀ {k n : Nat} {ws : List (String × Nat)}, WiresIn k n ws → k ≤ n
  | _, _, [], h => h
  | _, _, _ :: _, ⟨_, hj, _, h⟩ => le_trans (le_trans hj (Nat.le_succ _)) h.le

theorem WiresIn.mono_left : ∀ {k k' n : Nat} {ws : List (String × Nat)}, WiresIn k n ws → k' ≤ k → WiresIn k' n ws
  | _, _, _, [], h, hk => le_trans hk h
  | _, _, _, _ :: _, ⟨j, hj, e, h⟩, hk => ⟨j, le_trans hk hj, e, h⟩

theorem WiresIn.mono_right : ∀ {k n n' : Nat} {ws : List (String × Nat)}, WiresIn k n ws → n ≤ n' → WiresIn k n' ws
  | _, _, _, [], h, hn => le_trans h hn
  | _, _, _, _ :: _, ⟨j, hj, e, h⟩, hn => ⟨j, hj, e, h.mono_right hn⟩

theorem WiresIn.append : ∀ {k n1 n2 : Nat} {a b : List (String × Nat)}, WiresIn k n1 a → WiresIn n1 n2 b →
    WiresIn k n2 (a ++ b)
  | _, _, _, [], _, ha, hb => hb.mono_left ha
  | _, _, _, _ :: _, _, ⟨j, hj, e, h⟩, hb => ⟨j, hj, e, h.append hb⟩

theorem wiresIn_nil (k : Nat) : WiresIn k k [] := Nat.le_refl k

/-! ## every emission function -/

theorem emitUnary_wiresIn (o : NOp1) (a : Val) (k : Nat) : WiresIn k (emitUnary o a k).next (emitUnary o a k).wires :=
  ⟨k, Nat.le_refl k, rfl, show k + 1 ≤ k + 2 by omega⟩

theorem emitBinary_wiresIn (o : NOp2) (a b : Val) (k : Nat) : WiresIn k (emitBinary o a b k).next (emitBinary o a b k).wires := by
  unfold emitBinary
  simp only
  split
  · exact ⟨k, Nat.le_refl k, rfl, k + 1, Nat.le_refl _, rfl, k + 3, by omega, rfl, show k + 3 + 1 ≤ k + 6 by omega⟩
  · exact ⟨k, Nat.le_refl k, rfl, show k + 1 ≤ k + 2 by omega⟩

theorem emitMux_wiresIn (cv t f : Val) (k : Nat) : WiresIn k (emitMux cv t f k).next (emitMux cv t f k).wires :=
  ⟨k, Nat.le_refl k, rfl, show k + 1 ≤ k + 2 by omega⟩

theorem emitPart_wiresIn (v : Val) (s : Bool) (off : Val) (w st k : Nat) :
    WiresIn k (emitPart v s off w st k).next (emitPart v s off w st k).wires := by
  unfold emitPart
  simp only
  split
  · exact ⟨k, Nat.le_refl k, rfl, show k + 1 ≤ k + 2 by omega⟩
  · exact ⟨k, Nat.le_refl k, rfl, k + 1, Nat.le_refl _, rfl, show k + 1 + 1 ≤ k + 4 by omega⟩

theorem emitAssignList_wiresIn (t : Val) (cs : List (List Pat × Val)) (w k : Nat) :
    WiresIn k (emitAssignList t cs w k).next (emitAssignList t cs w k).wires :=
  ⟨k, Nat.le_refl k, rfl, show k + 1 ≤ k + 2 by omega⟩

theorem after_wiresIn {k : Nat} {ws : List (String × Nat)} {ns : List Node} {n1 : Nat} {e : Emitted} (sg : Bool)
    (h1 : WiresIn k n1 ws) (h2 : WiresIn n1 e.next e.wires) :
    WiresIn k (Res.after ws ns e sg).next (Res.after ws ns e sg).wires := h1.append h2

/-- the wires of a result are well numbered from `k` -/
def ResW (k : Nat) (r : Res) : Prop := WiresIn k r.next r.wires

theorem emitOp1_wiresIn (o : Op1) (k : Nat) (ra : Res) (h : ResW k ra) : ResW k (emitOp1 o ra) := by
  cases o
  · exact after_wiresIn _ h (emitUnary_wiresIn _ _ _)
  · exact after_wiresIn _ h (emitUnary_wiresIn _ _ _)
  · exact after_wiresIn _ h (emitUnary_wiresIn _ _ _)
  · exact after_wiresIn _ h (emitUnary_wiresIn _ _ _)
  · exact after_wiresIn _ h (emitUnary_wiresIn _ _ _)
  · exact after_wiresIn _ h (emitUnary_wiresIn _ _ _)
  · exact h
  · exact h

theorem emitOp2_wiresIn (o : Op2) (k : Nat) (ra rb : Res) (ha : ResW k ra) (hb : ResW ra.next rb) :
    ResW k (emitOp2 o ra rb) := by
  have hab : WiresIn k rb.next (ra.wires ++ rb.wires) := ha.append hb
  cases o <;> first
    | exact after_wiresIn _ hab (emitBinary_wiresIn _ _ _ _)
    | exact hab.append (emitBinary_wiresIn _ _ _ _)

theorem runCases_wiresIn : ∀ (cs : List (List Pat × (Nat → Res))), (∀ pf ∈ cs, ∀ k, ResW k (pf.2 k)) → ∀ k,
    WiresIn k (runCases cs k).next (runCases cs k).wires
  | [], _, k => wiresIn_nil k
  | pf :: rest, h, k => by
    obtain ⟨p, f⟩ := pf
    show WiresIn k (runCases rest (f k).next).next ((f k).wires ++ (runCases rest (f k).next).wires)
    exact (h (p, f) List.mem_cons_self k).append (runCases_wiresIn rest (fun q hq => h q (List.mem_cons_of_mem _ hq)) _)

theorem emitSwitch_wiresIn (k : Nat) (rt : Res) (cs : List (List Pat × (Nat → Res))) (ht : ResW k rt)
    (h : ∀ pf ∈ cs, ∀ k, ResW k (pf.2 k)) : ResW k (emitSwitch rt cs) := by
  have hg : ResW k (emitSwitchGeneral rt cs) := by
    unfold emitSwitchGeneral
    exact after_wiresIn _ (ht.append (runCases_wiresIn cs h rt.next)) (emitAssignList_wiresIn _ _ _ _)
  unfold emitSwitch
  split
  · rename_i p0 f0 p1 f1
    split
    · have h1 := h (p1, f1) (by simp) rt.next
      have h0 := h (p0, f0) (by simp) (f1 rt.next).next
      have h3 : WiresIn k (f0 (f1 rt.next).next).next (rt.wires ++ (f1 rt.next).wires ++ (f0 (f1 rt.next).next).wires) :=
        (ht.append h1).append h0
      unfold emitSwitchMux
      simp only
      split
      · exact after_wiresIn _ h3 (emitMux_wiresIn _ _ _ _)
      · exact after_wiresIn _ (h3.append (emitUnary_wiresIn _ _ _)) (emitMux_wiresIn _ _ _ _)
    · exact hg
  · exact hg

theorem emitE_wiresIn (ctx : Amaranth.Ctx) : ∀ e : Expr,
    (∀ k, ResW k (emitE ctx e k)) ∧ ∀ pf ∈ (emitX ctx e).2, ∀ k, ResW k (pf.2 k) := by
  intro e
  induction e with
  | const v s => exact ⟨fun k => wiresIn_nil k, fun pf h => by simp [emitX] at h⟩
  | sig i => exact ⟨fun k => wiresIn_nil k, fun pf h => by simp [emitX] at h⟩
  | op1 o a iha => exact ⟨fun k => emitOp1_wiresIn o k _ (iha.1 k), fun pf h => by simp [emitX] at h⟩
  | op2 o a b iha ihb =>
    exact ⟨fun k => emitOp2_wiresIn o k _ _ (iha.1 k) (ihb.1 _), fun pf h => by simp [emitX] at h⟩
  | slice a s t iha => exact ⟨fun k => iha.1 k, fun pf h => by simp [emitX] at h⟩
  | part a off w st iha iho =>
    exact ⟨fun k => after_wiresIn _ ((iha.1 k).append (iho.1 _)) (emitPart_wiresIn _ _ _ _ _ _), fun pf h => by simp [emitX] at h⟩
  | cat lo hi ihl ihh => exact ⟨fun k => (ihl.1 k).append (ihh.1 _), fun pf h => by simp [emitX] at h⟩
  | ite t p a b iht iha ihb =>
    have hch : ∀ pf ∈ (emitX ctx (.ite t p a b)).2, ∀ k, ResW k (pf.2 k) := by
      intro pf hpf
      have : pf = (p, (emitX ctx a).1) ∨ pf ∈ (emitX ctx b).2 := by simpa [emitX] using hpf
      rcases this with rfl | h
      · exact iha.1
      · exact ihb.2 pf h
    exact ⟨fun k => emitSwitch_wiresIn k _ _ (iht.1 k) hch, hch⟩

/-! ## distinct keys: looking up a map built by successive `insert`s -/

theorem foldl_insert_other (l : List (String × Nat)) : ∀ (m : Std.HashMap String Nat) (n : String),
    (∀ p ∈ l, p.1 ≠ n) → (l.foldl (fun m w => m.insert w.1 w.2) m).getD n 0 = m.getD n 0 := by
  induction l with
  | nil => intro m n _; rfl
  | cons p rest ih =>
    intro m n h
    rw [List.foldl_cons, ih _ n (fun q hq => h q (List.mem_cons_of_mem _ hq))]
    exact getD_insert_ne m p.1 n p.2 (fun e => h p List.mem_cons_self e.symm)

theorem foldl_insert_mem (l : List (String × Nat)) (hnd : (l.map (·.1)).Nodup) : ∀ (m : Std.HashMap String Nat)
    (p : String × Nat), p ∈ l → (l.foldl (fun m w => m.insert w.1 w.2) m).getD p.1 0 = p.2 := by
  induction l with
  | nil => intro m p h; simp at h
  | cons q rest ih =>
    intro m p hp
    rw [List.map_cons, List.nodup_cons] at hnd
    rw [List.foldl_cons]
    rcases List.mem_cons.mp hp with rfl | hp'
    · rw [foldl_insert_other rest _ p.1 (fun r hr e => hnd.1 (e ▸ List.mem_map_of_mem hr))]
      exact Std.HashMap.getD_insert_self
    · exact ih hnd.2 _ p hp'

/-- generated names above `k` do not occur among well-numbered wires from `k'` when … -/
theorem WiresIn.not_mem : ∀ {k n : Nat} {ws : List (String × Nat)}, WiresIn k n ws → ∀ j, j < k → autoName j ∉ ws.map (·.1)
  | _, _, [], _, _, _ => by simp
  | _, _, p :: rest, ⟨i, hi, e, h⟩, j, hj => by
    rw [List.map_cons, List.mem_cons, not_or]
    refine ⟨fun ej => ?_, h.not_mem j (by omega)⟩
    rw [e] at ej
    have := autoName_inj ej
    omega

theorem WiresIn.nodup : ∀ {k n : Nat} {ws : List (String × Nat)}, WiresIn k n ws → (ws.map (·.1)).Nodup
  | _, _, [], _ => by simp
  | _, _, p :: rest, ⟨j, _, e, h⟩ => by
    rw [List.map_cons, List.nodup_cons]
    exact ⟨by rw [e]; exact h.not_mem j (Nat.lt_succ_self j), h.nodup⟩

theorem WiresIn.not_sig : ∀ {k n : Nat} {ws : List (String × Nat)}, WiresIn k n ws → ∀ i, sigName i ∉ ws.map (·.1)
  | _, _, [], _, _ => by simp
  | _, _, p :: rest, ⟨j, _, e, h⟩, i => by
    rw [List.map_cons, List.mem_cons, not_or]
    exact ⟨fun ei => sigName_ne_autoName i j (ei.trans e), h.not_sig i⟩

end Amaranth.Rtlil
