import AmaranthVerif.Model.MemQueue
import AmaranthVerif.Proofs.MemoryClosed

namespace Amaranth.Mem

theorem commit_eq_iff (rows : List Int) (q : Queue) :
    commit rows q = rows ↔ ∀ a, a < rows.length → pending rows q a = rows.getD a 0 := by
  constructor
  · intro h a ha
    have := commit_getElem rows q a ha
    rw [← this]
    simp only [h]
    rw [List.getD_eq_getElem?_getD, List.getElem?_eq_getElem ha]; rfl
  · intro h
    apply List.ext_getElem (length_commit rows q)
    intro a h1 h2
    rw [commit_getElem rows q a h2, h a h2, List.getD_eq_getElem?_getD, List.getElem?_eq_getElem h2]; rfl

theorem rowChanged_iff (rows : List Int) (q : Queue) (a : Nat) :
    (match q.getD a none with
      | some v => v != rows.getD a 0
      | none => false) = true ↔ pending rows q a ≠ rows.getD a 0 := by
  unfold pending
  cases q.getD a none with
  | none => exact ⟨fun h => Bool.noConfusion h, fun h => absurd rfl h⟩
  | some v =>
    show (v != rows.getD a 0) = true ↔ v ≠ rows.getD a 0
    exact bne_iff_ne

/-- `commit()` returns `True` exactly when it changes some row -/
theorem commitChanged_iff (rows : List Int) (q : Queue) :
    commitChanged rows q = true ↔ commit rows q ≠ rows := by
  rw [Ne, commit_eq_iff]
  unfold commitChanged
  rw [List.any_eq_true]
  constructor
  · rintro ⟨a, ha, hx⟩ hall
    exact (rowChanged_iff rows q a).mp hx (hall a (List.mem_range.mp ha))
  · intro hne
    have : ∃ a, ¬ (a < rows.length → pending rows q a = rows.getD a 0) := Classical.not_forall.mp hne
    obtain ⟨a, hx⟩ := this
    have hx' : a < rows.length ∧ pending rows q a ≠ rows.getD a 0 := Classical.not_imp.mp hx
    exact ⟨a, List.mem_range.mpr hx'.1, (rowChanged_iff rows q a).mpr hx'.2⟩

/-- writes to two different rows commute, whatever the masks -/
theorem qwrite_comm_rows (sh : Shape) (rows : List Int) (q : Queue) (a b : Nat) (v1 m1 v2 m2 : Int)
    (hab : a ≠ b) (hq : q.length = rows.length) :
    qwrite sh rows (qwrite sh rows q a v1 m1) b v2 m2 = qwrite sh rows (qwrite sh rows q b v2 m2) a v1 m1 := by
  unfold qwrite
  by_cases ha : a < rows.length <;> by_cases hb : b < rows.length <;> simp only [ha, hb, if_true, if_false]
  rw [pending_set rows q a b _ (by omega), pending_set rows q b a _ (by omega), if_neg (Ne.symm hab), if_neg hab]
  exact List.set_comm _ _ hab

/-- what is committed for a row is what the queue holds for it; untouched rows keep their value -/
theorem commit_getD (rows : List Int) (q : Queue) (a : Nat) (ha : a < rows.length) :
    (commit rows q).getD a 0 = pending rows q a := by
  rw [List.getD_eq_getElem?_getD, List.getElem?_eq_getElem (by rw [length_commit]; exact ha), commit_getElem rows q a ha]; rfl

/-- a write to row `a` leaves what is pending for every other row as it was -/
theorem pending_qwrite_other (sh : Shape) (rows : List Int) (q : Queue) (a b : Nat) (v m : Int) (hab : b ≠ a)
    (hq : q.length = rows.length) : pending rows (qwrite sh rows q a v m) b = pending rows q b := by
  unfold qwrite
  split
  · rw [pending_set rows q a b _ (by omega), if_neg hab]
  · rfl

/-- a write to row `a` makes the merged, sign-fixed value pending for it: masked bits from the value, the others
from what was pending (the committed row on the first write of the delta, the queued row afterwards) -/
theorem pending_qwrite_same (sh : Shape) (rows : List Int) (q : Queue) (a : Nat) (v m : Int) (ha : a < rows.length)
    (hq : q.length = rows.length) :
    pending rows (qwrite sh rows q a v m) a = resign sh (pyMerge v m (pending rows q a)) := by
  unfold qwrite
  rw [if_pos ha, pending_set rows q a a _ (by omega), if_pos rfl]

end Amaranth.Mem
