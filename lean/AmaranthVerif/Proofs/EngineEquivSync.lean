import AmaranthVerif.Proofs.EngineEquivComb3

/-!
# A register and the process that replaces it

`kA = sync d (out := e)` against `kB = userSync d (exprSigs e) out e` at the same position of the
process list, for a domain without asynchronous reset (so that the compiler creates no reset-only
companion process). The compiled process is woken by the commit that makes the clock equal to the
domain's active level; the user process waits on `tick(d).sample(*ins)`, whose trigger is activated
by an edge of bit 0 of the clock with the domain's polarity. For a 1-bit clock whose values lie in
its shape these are the same commits. In the delta after the edge, phase 1a samples the inputs (and
the reset) from `curr` and makes the user process runnable; phase 1b runs both; both write
`init` if the reset is high and `e` on the current values otherwise.
-/

namespace Amaranth.Engine
open Amaranth

/-! ## The trigger of `tick(d).sample(*ins)` without asynchronous reset -/

/-- the reset as the trigger samples it -/
def rstExpr (cfg : DomCfg) : Expr :=
  match cfg.rst with
  | some r => .sig r
  | none => .const 0 (Shape.u 1)

theorem tickTrigger_sync (cfg : DomCfg) (hna : (cfg.async && cfg.rst.isSome) = false) (es : List Expr) :
    tickTrigger cfg es =
      [.edge cfg.clk 0 cfg.posedge, .sample (.const 0 (Shape.u 1)), .sample (rstExpr cfg)] ++ es.map .sample := by
  unfold tickTrigger rstExpr
  cases ha : cfg.async <;> cases hr : cfg.rst <;> simp_all

/-- the reset is high in `cur` -/
def rstOn (cfg : DomCfg) (cur : Env) : Bool :=
  match cfg.rst with
  | some r => cur.val r != 0
  | none => false

theorem evalTb_rstExpr (ctx : Ctx) (cfg : DomCfg) (cur : Env) :
    (evalTb ctx cur (rstExpr cfg) != 0) = rstOn cfg cur := by
  unfold rstExpr rstOn
  cases cfg.rst <;> simp [evalTb]

/-- what a completed tick returns when the clock edge was recorded: `(1, rst, *inputs)` -/
theorem sync_tickResult (ctx : Ctx) (cfg : DomCfg) (hna : (cfg.async && cfg.rst.isSome) = false) (ins : List Nat)
    (hits : List Bool) (cur : Env) (hlen : hits.length = (tickTrigger cfg (ins.map .sig)).length)
    (h0 : hits[0]? = some true) :
    (tickResult (trigResult ctx (tickTrigger cfg (ins.map .sig)) hits cur)).getD 0 0 = 1 ∧
    ((tickResult (trigResult ctx (tickTrigger cfg (ins.map .sig)) hits cur)).getD 1 0 != 0) = rstOn cfg cur ∧
    (tickResult (trigResult ctx (tickTrigger cfg (ins.map .sig)) hits cur)).drop 2 = ins.map cur.val := by
  rw [tickTrigger_sync cfg hna] at hlen ⊢
  match hits, hlen, h0 with
  | b0 :: b1 :: b2 :: bs, hlen, h0 =>
    simp only [List.getElem?_cons_zero, Option.some.injEq] at h0
    subst h0
    have hbs : bs.length = (ins.map Expr.sig).length := by simpa using hlen
    unfold trigResult tickResult
    simp only [List.cons_append, List.nil_append, List.zipWith_cons_cons, List.getD_cons_zero, List.getD_cons_succ,
      List.drop_succ_cons, List.drop_zero]
    refine ⟨rfl, ?_, (zipWith_samples ctx cur _ bs hbs).trans ?_⟩
    · have := evalTb_rstExpr ctx cfg cur
      cases hr : rstOn cfg cur
      · rw [hr] at this
        have h2 : evalTb ctx cur (rstExpr cfg) = 0 := by simpa using this
        simp [evalTb, h2, b2i]
      · rw [hr] at this
        simp [evalTb, this, b2i]
    · simp [List.map_map, Function.comp_def, evalTb]

/-- for a clock whose old and new values are 0 or 1 and differ, "an edge of bit 0 with the domain's
polarity" is "the new value is the active level" -/
theorem edge_cond (old new : Int) (ho : 0 ≤ old ∧ old < 2) (hn : 0 ≤ new ∧ new < 2) (hne : old ≠ new) (pol : Bool) :
    (bitOf old 0 != bitOf new 0 && bitOf new 0 == pol) = (new == (if pol then 1 else 0)) := by
  have h1 : old = 0 ∨ old = 1 := by omega
  have h2 : new = 0 ∨ new = 1 := by omega
  rcases h1 with rfl | rfl <;> rcases h2 with rfl | rfl <;> cases pol <;> first | (exfalso; exact hne rfl) | decide

/-- the slot wakers of the user process: only the clock edge activates the trigger, and it is recorded -/
theorem tickWake_spec (cfg : DomCfg) (hna : (cfg.async && cfg.rst.isSome) = false) (es : List Expr) (l : Local)
    (hw : l.waiting = true) (hlen : l.hits.length = (tickTrigger cfg es).length) (slot : Nat) (old new : Int) :
    (trigWake (tickTrigger cfg es) l slot old new).runnable = l.runnable ∧
    (trigWake (tickTrigger cfg es) l slot old new).initial = l.initial ∧
    (trigWake (tickTrigger cfg es) l slot old new).waiting = true ∧
    (trigWake (tickTrigger cfg es) l slot old new).hits.length = (tickTrigger cfg es).length ∧
    ((trigWake (tickTrigger cfg es) l slot old new).active =
      (l.active || (cfg.clk == slot && bitOf old 0 != bitOf new 0 && bitOf new 0 == cfg.posedge))) ∧
    (l.hits[0]? = some true → (trigWake (tickTrigger cfg es) l slot old new).hits[0]? = some true) ∧
    ((cfg.clk == slot && bitOf old 0 != bitOf new 0 && bitOf new 0 == cfg.posedge) = true →
      (trigWake (tickTrigger cfg es) l slot old new).hits[0]? = some true) := by
  have hm := trigWake_mono (tickTrigger cfg es) l hlen slot old new
  rw [tickTrigger_sync cfg hna] at hlen ⊢
  match hh : l.hits, hlen with
  | b0 :: bs, hlen =>
    simp only [trigWake, hw, if_true, hh]
    refine ⟨by first | trivial | rfl, by first | trivial | rfl, by first | trivial | rfl, ?_, ?_, ?_, ?_⟩
    · simp only [List.length_zipWith]
      simp only [List.length_cons, List.length_append, List.length_map, List.length_nil] at hlen ⊢
      omega
    · have hany : ∀ (xs : List Expr), (xs.any fun _ => false) = false := by
        intro xs; induction xs <;> simp_all
      simp [TrigElem.firesOn, List.any_map, Function.comp_def, hany]
    · intro h
      simp only [List.getElem?_cons_zero, Option.some.injEq] at h
      subst h
      simp
    · intro h
      simp [TrigElem.hitOn, h]

/-! ## The values written -/

section
variable (D : Design) (d out : Nat) (e : Expr)

/-- what both owners write after an active edge: the initial value under reset, `e` otherwise -/
def syncV (cur : Env) : Int :=
  if rstOn (D.doms.getD d default) cur then D.inits.val out else combV D out e cur

/-- what is assumed about the domain: no asynchronous reset (no reset-only companion process), a 1-bit
unsigned clock and reset, `out` resettable when the domain has a reset, initial values inside the shapes -/
structure SyncHyp : Prop where
  noArst : ((D.doms.getD d default).async && (D.doms.getD d default).rst.isSome) = false
  clk1 : D.ctx.shape (D.doms.getD d default).clk = Shape.u 1
  clkLt : (D.doms.getD d default).clk < D.ctx.length
  rst1 : ∀ r, (D.doms.getD d default).rst = some r →
    D.ctx.shape r = Shape.u 1 ∧ r < D.ctx.length ∧ D.resetLess.getD out false = false
  inits : EnvN D.ctx D.inits

variable {D d out e}

theorem bit_of_u1 {ctx : Ctx} {E : Env} (hE : EnvN ctx E) (i : Nat) (hi : i < ctx.length) (hs : ctx.shape i = Shape.u 1) :
    0 ≤ E.val i ∧ E.val i < 2 := by
  have := (hE.ok i hi).2
  rw [hs] at this
  have h2 : (Shape.mk 1 false).contains (E.val i) := this
  rw [Shape.contains_u] at h2
  omega

/-- the compiled process' test of the reset is the user process' test -/
theorem rst_test (H : SyncHyp D d out) (cur : Env) (hcur : EnvN D.ctx cur) (r : Nat)
    (hr : (D.doms.getD d default).rst = some r) : (pyAnd 1 (cur.val r) != 0) = (cur.val r != 0) := by
  obtain ⟨h1, h2, _⟩ := H.rst1 r hr
  have := bit_of_u1 hcur r h2 h1
  have h3 : cur.val r = 0 ∨ cur.val r = 1 := by omega
  rcases h3 with h | h <;> rw [h] <;> decide

theorem syncNext_val (H : SyncHyp D d out) (hout : out < D.ctx.length) (hwf : e.wf D.ctx = true) (cur : Env)
    (hcur : EnvN D.ctx cur) :
    (syncNext D.ctx D.inits D.resetLess ((D.doms.getD d default).rst.map cur.val) (.assign (.sig out) e) cur).val out =
      syncV D d out e cur := by
  have hV : (execRtl D.ctx cur (.assign (.sig out) e) cur).val out = combV D out e cur := by
    simp only [execRtl, assignRtlG]
    rw [val_put_eq _ _ _ (by rw [hcur.len]; exact hout), rtlValue_eq_evalTb _ _ (envN_envOk hcur) e hwf]; rfl
  unfold syncNext syncV rstOn
  cases hr : (D.doms.getD d default).rst with
  | none => simp only [Option.map_none]; exact hV
  | some r =>
    simp only [Option.map_some]
    rw [rst_test H cur hcur r hr]
    obtain ⟨_, _, hrl⟩ := H.rst1 r hr
    rw [List.getD_eq_getElem?_getD] at hrl
    by_cases hon : (cur.val r != 0) = true
    · simp only [hon, if_true]
      rw [val_map_range _ _ _ hout]
      simp [stmtSigs, lhsSigs, hrl]
    · simp only [hon, Bool.false_eq_true, if_false]
      exact hV

theorem syncV_contains (H : SyncHyp D d out) (hout : out < D.ctx.length) (cur : Env) :
    (D.ctx.shape out).contains (syncV D d out e cur) := by
  unfold syncV
  split
  · exact (H.inits.ok out hout).2
  · exact norm_contains _ (H.inits.ok out hout).1 _

/-- the updates of a compiled single assignment, applied: `out` gets the computed value -/
theorem assign_apply (ctx : Ctx) (out : Nat) (ex : Expr) (nx nxt : Env) (hout : out < ctx.length)
    (hnxt : EnvN ctx nxt) (hV : (ctx.shape out).contains (nx.val out)) :
    applyAll nxt (procUpdates ctx (.assign (.sig out) ex) nx) = modAt nxt out (fun _ => nx.val out) := by
  obtain ⟨hswf, _⟩ := hnxt.ok out hout
  rw [procUpdates_assign _ _ _ _ hout]
  by_cases hw : (ctx.shape out).width = 0
  · simp only [hw, if_true]
    symm
    apply modAt_id_of_val
    intro x hx
    have hxc := (hnxt.ok out hout).2
    rw [val_of_getElem? _ _ _ hx] at hxc
    generalize hs : ctx.shape out = s at *
    generalize nx.val out = V at *
    obtain ⟨w, sg⟩ := s
    simp only at hw
    subst hw
    cases sg with
    | true => exact absurd (hswf rfl) (by decide)
    | false =>
      rw [Shape.contains_u] at hxc hV
      omega
  · simp only [hw, if_false]
    show Engine.applyTo nxt _ = _
    unfold Engine.applyTo
    apply modAt_eq_of_val
    intro x hx
    have hxc := (hnxt.ok out hout).2
    rw [val_of_getElem? _ _ _ hx] at hxc
    exact compiled_write _ hswf _ _ hV hxc (by omega) _

theorem syncA_next (H : SyncHyp D d out) (hout : out < D.ctx.length) (hwf : e.wf D.ctx = true) (cur nxt : Env)
    (hcur : EnvN D.ctx cur) (hnxt : EnvN D.ctx nxt) :
    applyAll nxt (procUpdates D.ctx (.assign (.sig out) e)
      (syncNext D.ctx D.inits D.resetLess ((D.doms.getD d default).rst.map cur.val) (.assign (.sig out) e) cur)) =
      modAt nxt out (fun _ => syncV D d out e cur) := by
  rw [assign_apply D.ctx out e _ nxt hout hnxt (by rw [syncNext_val H hout hwf cur hcur]; exact syncV_contains H hout cur),
    syncNext_val H hout hwf cur hcur]

theorem setUpd_apply (ctx : Ctx) (out : Nat) (v : Int) (nxt : Env) :
    applyAll nxt [setUpd ctx out v] = modAt nxt out (fun _ => norm (ctx.shape out) v) := by
  show Engine.applyTo nxt _ = _
  unfold Engine.applyTo
  apply modAt_eq_of_val
  intro x _
  exact full_write _ _ _

theorem syncV_val (H : SyncHyp D d out) (hout : out < D.ctx.length) (cur nxt : Env) (hnxt : EnvN D.ctx nxt) :
    EnvN D.ctx (modAt nxt out (fun _ => syncV D d out e cur)) := by
  have hlen : out < nxt.length := by rw [hnxt.len]; exact hout
  refine ⟨by rw [modAt_length]; exact hnxt.len, fun j hj => ?_⟩
  by_cases hji : out = j
  · subst hji
    rw [val_modAt_self _ _ _ hlen]
    exact ⟨(hnxt.ok _ hj).1, syncV_contains H hout cur⟩
  · rw [val_modAt_ne _ _ _ _ hji]; exact hnxt.ok j hj

end

end Amaranth.Engine
