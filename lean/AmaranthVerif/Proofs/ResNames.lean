import AmaranthVerif.Model.Res
import AmaranthVerif.Spec.Res

/-! # Helper lemmas for C19 (connector chains) -/

namespace Amaranth.Res

/-- the wiring relation of a flat connector-pin table: `a` is wired to `b` -/
def Link (m : List (String × String)) (a b : String) : Prop := m.lookup a = some b
/-- a name is connector-relative when it contains a colon -/
def Relative (x : String) : Prop := hasColon x = true

abbrev ResolvesIn (m : List (String × String)) : String → String → Prop :=
  Spec.Resolves (Link m) Relative

theorem mapName_sound (m : List (String × String)) : ∀ (f : Nat) (x y : String),
    mapName m f x = .ok y → ResolvesIn m x y
  | 0, x, y, h => by
    unfold mapName at h
    by_cases hc : hasColon x = true
    · simp [hc] at h
    · simp only [hc] at h
      cases h
      exact .here hc
  | f + 1, x, y, h => by
    unfold mapName at h
    by_cases hc : hasColon x = true
    · simp only [hc, if_true] at h
      cases hl : m.lookup x with
      | none => simp [hl] at h
      | some v =>
        simp only [hl] at h
        exact .hop hc hl (mapName_sound m f v y h)
    · simp only [hc] at h
      cases h
      exact .here hc

theorem resolves_functional (m : List (String × String)) {x y z : String}
    (h1 : ResolvesIn m x y) (h2 : ResolvesIn m x z) : y = z := by
  induction h1 generalizing z with
  | here hn =>
    cases h2 with
    | here _ => rfl
    | hop hr _ _ => exact absurd hr hn
  | hop hr hl _ ih =>
    cases h2 with
    | here hn => exact absurd hr hn
    | hop _ hl' h' =>
      have : Link m _ _ := hl
      unfold Link at hl hl'
      rw [hl] at hl'
      cases hl'
      exact ih h'

/-- with enough fuel the model finds every resolution -/
theorem mapName_complete (m : List (String × String)) {x y : String} (h : ResolvesIn m x y) :
    ∃ f, ∀ f', f ≤ f' → mapName m f' x = .ok y := by
  induction h with
  | @here x0 hn =>
    refine ⟨0, fun f' _ => ?_⟩
    have hc : hasColon x0 = false := by simpa [Relative] using hn
    cases f' <;> simp [mapName, hc]
  | @hop x0 y0 z0 hr hl _ ih =>
    obtain ⟨f, hf⟩ := ih
    refine ⟨f + 1, fun f' hle => ?_⟩
    obtain ⟨f'', rfl⟩ : ∃ f'', f' = f'' + 1 := ⟨f' - 1, by omega⟩
    have hc : hasColon x0 = true := hr
    unfold Link at hl
    simp only [mapName, hc, if_true, hl]
    exact hf f'' (by omega)

/-- a NameError of the model means that the chain is dangling: there is nothing the name resolves to -/
theorem mapName_dangling (m : List (String × String)) : ∀ (f : Nat) (x : String),
    mapName m f x = .error .name → ∀ y, ¬ ResolvesIn m x y
  | 0, x, h => by
    unfold mapName at h
    by_cases hc : hasColon x = true <;> simp [hc] at h
  | f + 1, x, h => by
    unfold mapName at h
    by_cases hc : hasColon x = true
    · simp only [hc, if_true] at h
      intro y hy
      cases hl : m.lookup x with
      | none =>
        cases hy with
        | here hn => exact hn hc
        | hop _ hl' _ => unfold Link at hl'; rw [hl] at hl'; cases hl'
      | some v =>
        simp only [hl] at h
        cases hy with
        | here hn => exact hn hc
        | hop _ hl' h' =>
          unfold Link at hl'
          rw [hl] at hl'
          cases hl'
          exact mapName_dangling m f v h y h'
    · simp [hc] at h

theorem mapNames_sound (m : List (String × String)) (f : Nat) : ∀ (xs ys : List String),
    mapNames m f xs = .ok ys → Spec.BitsInOrder (ResolvesIn m) xs ys
  | [], ys, h => by
    simp only [mapNames] at h
    cases h
    trivial
  | x :: xs, ys, h => by
    simp only [mapNames] at h
    cases hx : mapName m f x with
    | error e => simp [hx] at h
    | ok y =>
      simp only [hx] at h
      cases hxs : mapNames m f xs with
      | error e => simp [hxs] at h
      | ok ys' =>
        simp only [hxs] at h
        cases h
        exact ⟨mapName_sound m f x y hx, mapNames_sound m f xs ys' hxs⟩

theorem bitsInOrder_length {R : String → String → Prop} : ∀ (xs ys : List String),
    Spec.BitsInOrder R xs ys → xs.length = ys.length
  | [], [], _ => rfl
  | [], _ :: _, h => by cases h
  | _ :: _, [], h => by cases h
  | _ :: xs, _ :: ys, h => by
    simp only [List.length_cons]
    rw [bitsInOrder_length xs ys h.2]

/-! ## Termination on acyclic connector tables -/

theorem mem_of_lookup : ∀ (l : List (String × String)) (k v : String), l.lookup k = some v → (k, v) ∈ l
  | [], _, _, h => by simp [List.lookup] at h
  | (a, b) :: l, k, v, h => by
    by_cases hk : k = a
    · subst hk
      simp [List.lookup] at h
      subst h
      exact List.mem_cons_self
    · have : (k == a) = false := by simpa using hk
      simp only [List.lookup, this] at h
      exact List.mem_cons_of_mem _ (mem_of_lookup l k v h)

theorem filter_length_lt {α : Type} (p q : α → Bool) (hpq : ∀ x, p x = true → q x = true) :
    ∀ (l : List α) (a : α), a ∈ l → q a = true → p a = false →
      (l.filter p).length < (l.filter q).length
  | [], a, h, _, _ => by cases h
  | b :: l, a, h, hq, hp => by
    have hmono : (l.filter p).length ≤ (l.filter q).length := by
      clear h
      induction l with
      | nil => simp
      | cons c l ih =>
        by_cases hc : p c = true
        · simp [hc, hpq c hc, ih]
        · have hc' : p c = false := by simpa using hc
          by_cases hqc : q c = true
          · simp [hc', hqc]; omega
          · have hqc' : q c = false := by simpa using hqc
            simp [hc', hqc', ih]
    rcases List.mem_cons.mp h with rfl | h'
    · simp [hq, hp]; omega
    · have ih := filter_length_lt p q hpq l a h' hq hp
      by_cases hb : p b = true
      · simp [hb, hpq b hb]; omega
      · have hb' : p b = false := by simpa using hb
        by_cases hqb : q b = true
        · simp [hb', hqb]; omega
        · have hqb' : q b = false := by simpa using hqb
          simp [hb', hqb']; omega

/-- how many of the `n` classes rank at most `r` -/
def below (n : Nat) (rank : Nat → Nat) (r : Nat) : Nat :=
  ((List.range n).filter fun i => decide (rank i ≤ r)).length

theorem below_le (n : Nat) (rank : Nat → Nat) (r : Nat) : below n rank r ≤ n := by
  unfold below
  calc _ ≤ (List.range n).length := List.length_filter_le _ _
    _ = n := List.length_range

theorem below_lt (n : Nat) (rank : Nat → Nat) (i j : Nat) (hi : i < n) (h : rank j < rank i) :
    below n rank (rank j) < below n rank (rank i) := by
  unfold below
  apply filter_length_lt _ _ _ _ i (List.mem_range.mpr hi)
  · simp
  · simp; omega
  · intro x hx
    simp at hx ⊢
    omega

/-- the generic counting argument: classes (`own`) of keys, `n` of them, ranked so that every hop goes to a
strictly lower class — then `n + 1` units of fuel are never exhausted -/
theorem mapName_fuel (m : List (String × String)) (own : String → Nat) (n : Nat) (rank : Nat → Nat)
    (h1 : ∀ k v, m.lookup k = some v → own k < n)
    (h2 : ∀ k v v', m.lookup k = some v → m.lookup v = some v' → rank (own v) < rank (own k)) :
    ∀ (f : Nat) (x : String), 1 ≤ f →
      ((∃ v, m.lookup x = some v) → below n rank (rank (own x)) < f) →
      mapName m f x ≠ .error .fuel
  | 0, _, hf, _ => by omega
  | f + 1, x, _, hb => by
    unfold mapName
    by_cases hc : hasColon x = true
    · simp only [hc, if_true]
      cases hl : m.lookup x with
      | none => simp
      | some v =>
        simp only
        have hbx := hb ⟨v, hl⟩
        have hpos : 1 ≤ below n rank (rank (own x)) := by
          unfold below
          have hmem : own x ∈ (List.range n).filter fun i => decide (rank i ≤ rank (own x)) := by
            simp [List.mem_filter, h1 x v hl]
          exact List.length_pos_of_mem hmem
        apply mapName_fuel m own n rank h1 h2 f v (by omega)
        rintro ⟨v', hv'⟩
        have := below_lt n rank (own x) (own v) (h1 x v hl) (h2 x v v' hl hv')
        omega
    · simp [hc]

/-- the connector (index) that defines the connector pin `k` -/
def owner (cs : List Connector) (k : String) : Nat :=
  cs.findIdx fun c => c.pairs.any fun kv => kv.1 == k

/-- **Acyclic connector table**: the connectors can be ranked so that whenever a pin of one connector is
wired to a pin of another connector, the second one ranks strictly lower. -/
def Acyclic (cs : List Connector) : Prop :=
  ∃ rank : Nat → Nat, ∀ k v v',
    (connPins cs).lookup k = some v → (connPins cs).lookup v = some v' →
    rank (owner cs v) < rank (owner cs k)

theorem owner_lt (cs : List Connector) (k v : String) (h : (connPins cs).lookup k = some v) :
    owner cs k < cs.length := by
  have hm := mem_of_lookup _ _ _ h
  unfold connPins at hm
  obtain ⟨c, hc, hkv⟩ := List.mem_flatMap.mp hm
  unfold owner
  apply List.findIdx_lt_length_of_exists
  exact ⟨c, hc, by simp only [List.any_eq_true]; exact ⟨(k, v), hkv, by simp⟩⟩

/-- a checkable certificate of acyclicity -/
def acyclicCert (cs : List Connector) (rank : Nat → Nat) : Bool :=
  (connPins cs).all fun kv =>
    match (connPins cs).lookup kv.2 with
    | none => true
    | some _ => decide (rank (owner cs kv.2) < rank (owner cs kv.1))

theorem acyclic_of_cert (cs : List Connector) (rank : Nat → Nat) (h : acyclicCert cs rank = true) :
    Acyclic cs := by
  refine ⟨rank, fun k v v' hk hv => ?_⟩
  have hm := mem_of_lookup _ _ _ hk
  unfold acyclicCert at h
  have := List.all_eq_true.mp h (k, v) hm
  simp only [hv] at this
  exact of_decide_eq_true this

theorem mapName_terminates (cs : List Connector) (h : Acyclic cs) (fuel : Nat)
    (hf : cs.length + 1 ≤ fuel) (x : String) : mapName (connPins cs) fuel x ≠ .error .fuel := by
  obtain ⟨rank, hr⟩ := h
  apply mapName_fuel (connPins cs) (owner cs) cs.length rank (owner_lt cs) hr fuel x (by omega)
  intro _
  have := below_le cs.length rank (rank (owner cs x))
  omega

theorem mapNames_terminates (cs : List Connector) (h : Acyclic cs) (fuel : Nat)
    (hf : cs.length + 1 ≤ fuel) : ∀ (xs : List String), mapNames (connPins cs) fuel xs ≠ .error .fuel
  | [] => by simp [mapNames]
  | x :: xs => by
    simp only [mapNames]
    cases hx : mapName (connPins cs) fuel x with
    | error e =>
      simp only
      intro he
      cases he
      exact mapName_terminates cs h fuel hf x hx
    | ok y =>
      simp only
      cases hxs : mapNames (connPins cs) fuel xs with
      | error e =>
        simp only
        intro he
        cases he
        exact mapNames_terminates cs h fuel hf xs hxs
      | ok ys => simp

end Amaranth.Res
