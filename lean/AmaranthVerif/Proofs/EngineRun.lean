import AmaranthVerif.Proofs.EngineTime

/-!
# Whole runs: schedules, settled states, the timeline step
-/

namespace Amaranth.Engine
open Amaranth

/-! ## `_PyTimeline.advance()` in closed form -/

theorem advanceTime_spec (ps : List ProcDef) (s : EState) :
    (advanceTime ps s = (s, false) ∧ ∀ (i d : Nat), s.timers[i]? ≠ some (some d)) ∨
    ∃ d : Nat, (∃ i : Nat, s.timers[i]? = some (some d)) ∧
      (∀ (i d' : Nat), s.timers[i]? = some (some d') → d ≤ d') ∧
      (advanceTime ps s).2 = true ∧ (advanceTime ps s).1.now = d ∧
      (∀ i : Nat, (advanceTime ps s).1.timers[i]? =
        if s.timers[i]? = some (some d) then some none else s.timers[i]?) ∧
      (∀ i : Nat, (advanceTime ps s).1.locals[i]? =
        if s.timers[i]? = some (some d) then s.locals[i]?.map (ps.getD i default).fire else s.locals[i]?) ∧
      (advanceTime ps s).1.curr = s.curr ∧ (advanceTime ps s).1.next = s.next ∧
      (advanceTime ps s).1.obs = s.obs ∧ (advanceTime ps s).1.deltas = s.deltas := by
  have h := nearest_spec s.timers
  unfold advanceTime
  generalize scanNearest (entriesFrom 0 s.timers) = r at h
  obtain ⟨r1, ws⟩ := r
  cases r1 with
  | none => exact Or.inl ⟨rfl, h.1⟩
  | some d =>
    obtain ⟨hex, hmin, hws⟩ := h
    refine Or.inr ⟨d, hex, hmin, rfl, rfl, ?_, ?_, rfl, rfl, rfl, rfl⟩
    · intro i
      simp only [getElem?_mapIdxFrom, Nat.zero_add]
      by_cases hi : s.timers[i]? = some (some d)
      · have hm : i ∈ ws := (hws i).mpr hi
        simp [hi, hm]
      · have hm : i ∉ ws := fun h => hi ((hws i).mp h)
        simp only [hi, if_false]
        cases hx : s.timers[i]? with
        | none => simp
        | some x => simp [hm]
    · intro i
      simp only [getElem?_mapIdxFrom, Nat.zero_add]
      by_cases hi : s.timers[i]? = some (some d)
      · have hm : i ∈ ws := (hws i).mpr hi
        simp [hi, hm]
      · have hm : i ∉ ws := fun h => hi ((hws i).mp h)
        simp only [hi, if_false]
        cases hx : s.locals[i]? with
        | none => simp
        | some x => simp [hm]

/-! ## Schedules -/

/-- two schedules use, at every delta, permutations of the same process list and slot list -/
def SchedEquiv (a b : Sched) : Prop := ∀ k, (a k).Equiv (b k)

/-- no process is listed twice in one delta (the engine iterates a set) -/
def SchedNodup (a : Sched) : Prop := ∀ k, (a k).procs.Nodup

/-- at every state, the runnable processes write compatible updates -/
def CompatWrites (ps : List ProcDef) : Prop := ∀ s, CompatAt ps s

/-- at every state, no two runnable processes write the same bit of the same signal: what C06
guarantees for compiled processes (one driver per bit); a hypothesis for user processes -/
def DisjointWrites (ps : List ProcDef) : Prop := ∀ s, DisjointWritesAt ps s

theorem DisjointWrites.compat {ps : List ProcDef} (h : DisjointWrites ps) : CompatWrites ps :=
  fun s => (h s).compatAt

theorem settle_sched_perm (ps : List ProcDef) (hw : WakeComm ps) (hc : CompatWrites ps) (a b : Sched)
    (hn : SchedNodup a) (he : SchedEquiv a b) (fuel : Nat) (s : EState) :
    settle ps a fuel s = settle ps b fuel s := by
  induction fuel generalizing s with
  | zero => rfl
  | succ n ih =>
    simp only [settle]
    rw [delta_perm_at ps hw s (a s.deltas) (b s.deltas) (hc _) (hn _) (he _)]
    split
    · rfl
    · exact ih _

/-! ## Settled states -/

/-- processes clear their `runnable` flag when they run and do not touch trigger activation;
running a trigger deactivates it -/
def WellBehaved (ps : List ProcDef) : Prop :=
  ∀ d ∈ ps, (∀ l cur, l.runnable = false → (d.run l cur).loc.runnable = false) ∧
    (∀ l cur, (d.run l cur).loc.active = l.active) ∧
    (∀ l cur, (d.trig l cur).active = false)

/-- nothing is pending: `curr = next` on every slot, no listed process is runnable, no trigger is active -/
def Quiet (o : Orders) (s : EState) : Prop :=
  (∀ i ∈ o.slots, s.curr.val i = s.next.val i) ∧
  (∀ p ∈ o.procs, ∀ l, s.locals[p]? = some l → l.runnable = false) ∧
  (∀ l ∈ s.locals, l.active = false)

theorem commit_of_quiet (ps : List ProcDef) (order : List Nat) (s : EState)
    (h : ∀ i ∈ order, s.curr.val i = s.next.val i) : commit ps order s = s := by
  unfold commit
  induction order with
  | nil => rfl
  | cons i rest ih =>
    simp only [List.foldl_cons]
    rw [commitSlot_of_eq ps s i (h i (List.mem_cons_self ..))]
    exact ih (fun j hj => h j (List.mem_cons_of_mem _ hj))

theorem anyChange_false_iff (order : List Nat) (s : EState) :
    anyChange order s = false ↔ ∀ i ∈ order, s.curr.val i = s.next.val i := by
  unfold anyChange
  rw [List.any_eq_false]
  constructor
  · intro h i hi; have := h i hi; simpa using this
  · intro h i hi; simpa using h i hi

theorem trigPhase_of_inactive (ps : List ProcDef) (s : EState) (hlen : ps.length = s.locals.length)
    (h : ∀ l ∈ s.locals, l.active = false) : trigPhase ps s = s := by
  unfold trigPhase
  have : List.zipWith (fun d l => if l.active then d.trig l s.curr else l) ps s.locals = s.locals := by
    generalize s.locals = ls at h hlen
    generalize s.curr = cur
    induction ps generalizing ls with
    | nil => cases ls with
      | nil => rfl
      | cons _ _ => simp at hlen
    | cons d ps ih =>
      cases ls with
      | nil => simp at hlen
      | cons l ls =>
        simp only [List.zipWith_cons_cons]
        rw [ih ls (fun x hx => h x (List.mem_cons_of_mem _ hx)) (by simpa using hlen)]
        simp [h l (List.mem_cons_self ..)]
  rw [this]

theorem stepProc_of_not_runnable (ps : List ProcDef) (s : EState) (p : Nat)
    (h : ∀ l, s.locals[p]? = some l → l.runnable = false) : stepProc ps s p = s := by
  unfold stepProc effectOf
  cases hd : ps[p]? with
  | none => rfl
  | some d =>
    cases hl : s.locals[p]? with
    | none => rfl
    | some l => simp [h l hl, applyEffect]

theorem runProcs_of_quiet (ps : List ProcDef) (order : List Nat) (s : EState)
    (h : ∀ p ∈ order, ∀ l, s.locals[p]? = some l → l.runnable = false) : runProcs ps order s = s := by
  unfold runProcs
  induction order with
  | nil => rfl
  | cons p rest ih =>
    simp only [List.foldl_cons]
    rw [stepProc_of_not_runnable ps s p (h p (List.mem_cons_self ..))]
    exact ih (fun q hq => h q (List.mem_cons_of_mem _ hq))

/-- a quiet state is a fixpoint of `delta` (up to the delta counter), whatever the order -/
theorem delta_of_quiet (ps : List ProcDef) (o : Orders) (s : EState) (hlen : ps.length = s.locals.length)
    (h : Quiet o s) : delta ps o s = ({ s with deltas := s.deltas + 1 }, true) := by
  obtain ⟨hs, hp, ha⟩ := h
  unfold delta
  simp only
  rw [trigPhase_of_inactive ps s hlen ha, runProcs_of_quiet ps o.procs s hp, commit_of_quiet ps o.slots s hs]
  rw [(anyChange_false_iff o.slots s).mpr hs]
  rfl

theorem Quiet.of_equiv {a b : Orders} {s : EState} (h : Quiet a s) (he : a.Equiv b) : Quiet b s :=
  ⟨fun i hi => h.1 i (he.2.mem_iff.mpr hi), fun p hp => h.2.1 p (he.1.mem_iff.mpr hp), h.2.2⟩

/-! ### a converged delta leaves a quiet state -/

theorem trigPhase_inactive (ps : List ProcDef) (hwb : WellBehaved ps) (s : EState) :
    ∀ l ∈ (trigPhase ps s).locals, l.active = false := by
  unfold trigPhase
  simp only
  generalize s.locals = ls
  generalize s.curr = cur
  induction ps generalizing ls with
  | nil => intro l hl; simp at hl
  | cons d ps ih =>
    cases ls with
    | nil => intro l hl; simp at hl
    | cons x xs =>
      intro l hl
      simp only [List.zipWith_cons_cons, List.mem_cons] at hl
      rcases hl with hl | hl
      · subst hl
        by_cases hx : x.active = true
        · simp only [hx, if_true]; exact (hwb d (List.mem_cons_self ..)).2.2 x cur
        · simp only [hx]; simpa using hx
      · exact ih (fun d' hd' => hwb d' (List.mem_cons_of_mem _ hd')) xs l hl

theorem trigPhase_length (ps : List ProcDef) (s : EState) (hlen : ps.length = s.locals.length) :
    ps.length = (trigPhase ps s).locals.length := by
  unfold trigPhase; simp [hlen]

@[simp] theorem trigPhase_curr (ps : List ProcDef) (s : EState) : (trigPhase ps s).curr = s.curr := rfl
@[simp] theorem trigPhase_next (ps : List ProcDef) (s : EState) : (trigPhase ps s).next = s.next := rfl
@[simp] theorem trigPhase_now (ps : List ProcDef) (s : EState) : (trigPhase ps s).now = s.now := rfl
@[simp] theorem trigPhase_timers (ps : List ProcDef) (s : EState) : (trigPhase ps s).timers = s.timers := rfl

theorem stepProc_locals_length (ps : List ProcDef) (s : EState) (p : Nat) :
    (stepProc ps s p).locals.length = s.locals.length := by
  unfold stepProc
  cases effectOf ps s p <;> simp [applyEffect]

theorem stepProc_locals_ne (ps : List ProcDef) (s : EState) (p q : Nat) (h : p ≠ q) :
    (stepProc ps s p).locals[q]? = s.locals[q]? := applyEffect_locals_ne _ _ _ _ h

theorem stepProc_clears (ps : List ProcDef) (hwb : WellBehaved ps) (s : EState) (p : Nat)
    (hlen : ps.length = s.locals.length) :
    ∀ l, (stepProc ps s p).locals[p]? = some l → l.runnable = false := by
  intro l hl
  unfold stepProc effectOf at hl
  cases hd : ps[p]? with
  | none =>
    have : s.locals[p]? = none := by
      rw [List.getElem?_eq_none_iff] at hd ⊢; omega
    simp [hd, this, applyEffect] at hl
  | some d =>
    cases hx : s.locals[p]? with
    | none => simp [hd, hx, applyEffect] at hl
    | some x =>
      have hdm : d ∈ ps := List.mem_of_getElem? hd
      by_cases hr : x.runnable = true
      · simp only [hd, hx, hr, if_true, applyEffect] at hl
        have hp : p < s.locals.length := by
          rcases Nat.lt_or_ge p s.locals.length with h | h
          · exact h
          · rw [List.getElem?_eq_none h] at hx; cases hx
        rw [List.getElem?_set_self hp] at hl
        cases hl
        exact (hwb d hdm).1 _ _ rfl
      · have hnr : ∀ y, s.locals[p]? = some y → y.runnable = false := by
          intro y hy; rw [hx] at hy; cases hy; simpa using hr
        have e := stepProc_of_not_runnable ps s p hnr
        unfold stepProc effectOf at e
        rw [e] at hl
        exact hnr l hl

theorem stepProc_keeps_not_runnable (ps : List ProcDef) (s : EState) (p q : Nat)
    (h : ∀ l, s.locals[p]? = some l → l.runnable = false) :
    ∀ l, (stepProc ps s q).locals[p]? = some l → l.runnable = false := by
  by_cases hqp : q = p
  · subst hqp; rw [stepProc_of_not_runnable ps s q h]; exact h
  · rw [stepProc_locals_ne ps s q p hqp]; exact h

theorem stepProc_inactive (ps : List ProcDef) (hwb : WellBehaved ps) (s : EState) (p : Nat)
    (h : ∀ l ∈ s.locals, l.active = false) : ∀ l ∈ (stepProc ps s p).locals, l.active = false := by
  unfold stepProc effectOf
  cases hd : ps[p]? with
  | none => simpa [applyEffect] using h
  | some d =>
    cases hx : s.locals[p]? with
    | none => simpa [applyEffect] using h
    | some x =>
      by_cases hr : x.runnable = true
      · simp only [hr, if_true, applyEffect]
        intro l hl
        rcases List.mem_or_eq_of_mem_set hl with hl | hl
        · exact h l hl
        · subst hl
          rw [(hwb d (List.mem_of_getElem? hd)).2.1 _ _]
          exact h x (List.mem_of_getElem? hx)
      · simpa [hr, applyEffect] using h

theorem runProcs_quiet (ps : List ProcDef) (hwb : WellBehaved ps) (order : List Nat) (s : EState)
    (hlen : ps.length = s.locals.length) (ha : ∀ l ∈ s.locals, l.active = false) :
    (∀ p ∈ order, ∀ l, (runProcs ps order s).locals[p]? = some l → l.runnable = false) ∧
    (∀ l ∈ (runProcs ps order s).locals, l.active = false) ∧
    ps.length = (runProcs ps order s).locals.length := by
  unfold runProcs
  induction order generalizing s with
  | nil => exact ⟨fun p hp => by simp at hp, ha, hlen⟩
  | cons p rest ih =>
    simp only [List.foldl_cons]
    have hlen' : ps.length = (stepProc ps s p).locals.length := by rw [stepProc_locals_length]; exact hlen
    obtain ⟨h1, h2, h3⟩ := ih (stepProc ps s p) hlen' (stepProc_inactive ps hwb s p ha)
    refine ⟨?_, h2, h3⟩
    intro q hq
    rcases List.mem_cons.mp hq with hq | hq
    · subst hq
      -- `q` has just run; the rest of the list keeps it not runnable
      have base := stepProc_clears ps hwb s q hlen
      clear ih h1 h2 h3 hlen' hq
      generalize stepProc ps s q = z at base
      induction rest generalizing z with
      | nil => exact base
      | cons r rest ih2 =>
        simp only [List.foldl_cons]
        exact ih2 (stepProc ps z r) (stepProc_keeps_not_runnable ps z q r base)
    · exact h1 q hq

theorem commit_locals_of_quiet (ps : List ProcDef) (order : List Nat) (s : EState)
    (h : anyChange order s = false) : commit ps order s = s :=
  commit_of_quiet ps order s ((anyChange_false_iff order s).mp h)

/-- when `delta` reports convergence the state it returns is quiet -/
theorem delta_converged_quiet (ps : List ProcDef) (hwb : WellBehaved ps) (o : Orders) (s : EState)
    (hlen : ps.length = s.locals.length) (hconv : (delta ps o s).2 = true) :
    Quiet o (delta ps o s).1 ∧ ps.length = (delta ps o s).1.locals.length := by
  unfold delta at hconv ⊢
  simp only at hconv ⊢
  have hno : anyChange o.slots (runProcs ps o.procs (trigPhase ps s)) = false := by
    cases h : anyChange o.slots (runProcs ps o.procs (trigPhase ps s)) with
    | false => rfl
    | true => rw [h] at hconv; cases hconv
  rw [commit_locals_of_quiet ps o.slots _ hno]
  obtain ⟨h1, h2, h3⟩ := runProcs_quiet ps hwb o.procs (trigPhase ps s) (trigPhase_length ps s hlen)
    (trigPhase_inactive ps hwb s)
  exact ⟨⟨(anyChange_false_iff _ _).mp hno, h1, h2⟩, h3⟩

theorem delta_locals_length (ps : List ProcDef) (o : Orders) (s : EState) (hlen : ps.length = s.locals.length) :
    ps.length = (delta ps o s).1.locals.length := by
  unfold delta
  simp only
  have h1 : ps.length = (runProcs ps o.procs (trigPhase ps s)).locals.length := by
    unfold runProcs
    have : ∀ (l : List Nat) (z : EState), ps.length = z.locals.length → ps.length = (l.foldl (stepProc ps) z).locals.length := by
      intro l
      induction l with
      | nil => intro z h; exact h
      | cons p rest ih => intro z h; exact ih _ (by rw [stepProc_locals_length]; exact h)
    exact this _ _ (trigPhase_length ps s hlen)
  generalize runProcs ps o.procs (trigPhase ps s) = z at h1
  unfold commit
  have : ∀ (l : List Nat) (z : EState), ps.length = z.locals.length → ps.length = (l.foldl (commitSlot ps) z).locals.length := by
    intro l
    induction l with
    | nil => intro z h; exact h
    | cons i rest ih =>
      intro z h
      apply ih
      unfold commitSlot
      simp only
      split
      · exact h
      · simp [h]
  exact this _ _ h1

/-- `step_design()` returns a settled state: when the loop ends because a commit changed nothing, the
state is quiet for the orders of its last delta — hence a fixpoint of `delta` for every order -/
theorem settle_settled (ps : List ProcDef) (hwb : WellBehaved ps) (sched : Sched) (fuel : Nat) (s : EState)
    (hlen : ps.length = s.locals.length) (hconv : (settle ps sched fuel s).2 = true) :
    ∃ k, Quiet (sched k) (settle ps sched fuel s).1 ∧ ps.length = (settle ps sched fuel s).1.locals.length := by
  induction fuel generalizing s with
  | zero => simp [settle] at hconv
  | succ n ih =>
    simp only [settle] at hconv ⊢
    by_cases hc : (delta ps (sched s.deltas) s).2 = true
    · simp only [hc, if_true] at hconv ⊢
      exact ⟨s.deltas, delta_converged_quiet ps hwb _ s hlen hc⟩
    · simp only [hc] at hconv ⊢
      exact ih _ (delta_locals_length ps _ s hlen) hconv

end Amaranth.Engine
