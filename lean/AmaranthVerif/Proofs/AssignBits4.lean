import AmaranthVerif.Proofs.AssignBits3

/-! # `lastWrite` under appends, windows and padding -/

namespace Amaranth

theorem lastWrite_shift : ∀ (locs : List Loc) (k0 i b : Nat),
    lastWrite locs k0 i b = (lastWrite locs 0 i b).map (· + k0) := by
  intro locs
  induction locs with
  | nil => intro k0 i b; rfl
  | cons l ls ih =>
    intro k0 i b
    simp only [lastWrite]
    rw [ih (k0 + 1), ih (0 + 1)]
    cases lastWrite ls 0 i b with
    | some k => simp only [Option.map_some]; congr 1; omega
    | none =>
      simp only [Option.map_none]
      split <;> simp

theorem lastWrite_none_iff : ∀ (locs : List Loc) (k0 i b : Nat),
    lastWrite locs k0 i b = none ↔ some (i, b) ∉ locs := by
  intro locs
  induction locs with
  | nil => intro k0 i b; simp [lastWrite]
  | cons l ls ih =>
    intro k0 i b
    simp only [lastWrite, List.mem_cons, not_or]
    cases h : lastWrite ls (k0 + 1) i b with
    | some k =>
      have := (ih (k0 + 1) i b).not.mp (by rw [h]; simp)
      simp only [reduceCtorEq, false_iff, not_and, not_not]
      intro _; exact Classical.not_not.mp this
    | none =>
      have hn := (ih (k0 + 1) i b).mp h
      by_cases hl : l = some (i, b)
      · simp [hl]
      · simp only [hl, if_false, true_iff]
        exact ⟨fun e => hl e.symm, hn⟩

theorem lastWrite_bound : ∀ (locs : List Loc) (k0 i b k : Nat),
    lastWrite locs k0 i b = some k → k0 ≤ k ∧ k < k0 + locs.length ∧ locs.getD (k - k0) none = some (i, b) := by
  intro locs
  induction locs with
  | nil => intro k0 i b k h; simp [lastWrite] at h
  | cons l ls ih =>
    intro k0 i b k h
    simp only [lastWrite] at h
    cases hl : lastWrite ls (k0 + 1) i b with
    | some k' =>
      rw [hl] at h; simp only [Option.some.injEq] at h; subst h
      obtain ⟨h1, h2, h3⟩ := ih (k0 + 1) i b k' hl
      refine ⟨by omega, by simp only [List.length_cons]; omega, ?_⟩
      have : k' - k0 = (k' - (k0 + 1)) + 1 := by omega
      rw [this, List.getD_cons_succ]; exact h3
    | none =>
      rw [hl] at h; simp only at h
      split at h
      · simp only [Option.some.injEq] at h; subst h
        refine ⟨Nat.le_refl _, by simp only [List.length_cons]; omega, ?_⟩
        simp only [Nat.sub_self, List.getD_cons_zero]; assumption
      · cases h

theorem lastWrite_append (l1 l2 : List Loc) (i b : Nat) :
    lastWrite (l1 ++ l2) 0 i b =
      match lastWrite l2 l1.length i b with
      | some k => some k
      | none => lastWrite l1 0 i b := by
  suffices ∀ k0, lastWrite (l1 ++ l2) k0 i b =
      match lastWrite l2 (k0 + l1.length) i b with
      | some k => some k
      | none => lastWrite l1 k0 i b by simpa using this 0
  induction l1 with
  | nil => intro k0; simp only [List.nil_append, List.length_nil, Nat.add_zero, lastWrite]; cases lastWrite l2 k0 i b <;> rfl
  | cons l ls ih =>
    intro k0
    simp only [List.cons_append, lastWrite, List.length_cons]
    rw [ih (k0 + 1)]
    have : k0 + 1 + ls.length = k0 + (ls.length + 1) := by omega
    rw [this]
    cases lastWrite l2 (k0 + (ls.length + 1)) i b <;> rfl

/-- the locations that are present, in order -/
def somes (locs : List Loc) : List (Nat × Nat) := locs.filterMap id

theorem somes_nodup_getD {locs : List Loc} (h : (somes locs).Nodup) {k1 k2 : Nat} {x : Nat × Nat}
    (h1 : locs.getD k1 none = some x) (h2 : locs.getD k2 none = some x) : k1 = k2 := by
  induction locs generalizing k1 k2 with
  | nil => simp at h1
  | cons l ls ih =>
    unfold somes at h ih
    cases l with
    | none =>
      simp only [List.filterMap_cons, id] at h
      cases k1 with
      | zero => simp at h1
      | succ k1 =>
        cases k2 with
        | zero => simp at h2
        | succ k2 =>
          simp only [List.getD_cons_succ] at h1 h2
          rw [ih h h1 h2]
    | some y =>
      simp only [List.filterMap_cons, id, List.nodup_cons] at h
      have hmem : ∀ k, ls.getD k none = some x → x ∈ ls.filterMap id := by
        intro k hk
        rw [List.mem_filterMap]
        refine ⟨some x, ?_, rfl⟩
        rw [List.getD_eq_getElem?_getD] at hk
        cases hg : ls[k]? with
        | none => rw [hg] at hk; cases hk
        | some z =>
          rw [hg] at hk; simp only [Option.getD_some] at hk; subst hk
          exact List.mem_of_getElem? hg
      cases k1 with
      | zero =>
        simp only [List.getD_cons_zero, Option.some.injEq] at h1; subst h1
        cases k2 with
        | zero => rfl
        | succ k2 =>
          simp only [List.getD_cons_succ] at h2
          exact absurd (hmem k2 h2) h.1
      | succ k1 =>
        simp only [List.getD_cons_succ] at h1
        cases k2 with
        | zero =>
          simp only [List.getD_cons_zero, Option.some.injEq] at h2; subst h2
          exact absurd (hmem k1 h1) h.1
        | succ k2 =>
          simp only [List.getD_cons_succ] at h2
          rw [ih h.2 h1 h2]

/-- with every location occurring at most once, `lastWrite` finds *the* position -/
theorem lastWrite_of_getD {locs : List Loc} (h : (somes locs).Nodup) {k i b : Nat}
    (hk : locs.getD k none = some (i, b)) : lastWrite locs 0 i b = some k := by
  cases hl : lastWrite locs 0 i b with
  | none =>
    have := (lastWrite_none_iff locs 0 i b).mp hl
    exfalso; apply this
    rw [List.getD_eq_getElem?_getD] at hk
    cases hg : locs[k]? with
    | none => rw [hg] at hk; cases hk
    | some z => rw [hg] at hk; simp only [Option.getD_some] at hk; subst hk; exact List.mem_of_getElem? hg
  | some k' =>
    obtain ⟨_, _, h3⟩ := lastWrite_bound locs 0 i b k' hl
    simp only [Nat.sub_zero] at h3
    rw [somes_nodup_getD h h3 hk]

/-- the window `[s, s+n)` of a duplicate-free location list -/
theorem lastWrite_window {locs : List Loc} (h : (somes locs).Nodup) (s n i b : Nat) :
    lastWrite ((locs.drop s).take n) 0 i b =
      match lastWrite locs 0 i b with
      | some k => if s ≤ k ∧ k < s + n then some (k - s) else none
      | none => none := by
  have hsub : (somes ((locs.drop s).take n)).Nodup := by
    unfold somes at *
    have h1 : ((locs.drop s).take n).Sublist locs := (List.take_sublist _ _).trans (List.drop_sublist _ _)
    exact (h1.filterMap id).nodup h
  have hget : ∀ j, ((locs.drop s).take n).getD j none = if j < n then locs.getD (s + j) none else none := by
    intro j
    simp only [List.getD_eq_getElem?_getD, List.getElem?_take, List.getElem?_drop]
    split <;> rfl
  cases hl : lastWrite locs 0 i b with
  | none =>
    simp only
    rw [lastWrite_none_iff] at hl ⊢
    intro hm
    exact hl (List.mem_of_mem_drop (List.mem_of_mem_take hm))
  | some k =>
    obtain ⟨_, _, h3⟩ := lastWrite_bound locs 0 i b k hl
    simp only [Nat.sub_zero] at h3
    simp only
    by_cases hw : s ≤ k ∧ k < s + n
    · simp only [hw, and_self, if_true]
      apply lastWrite_of_getD hsub
      rw [hget]
      have : k - s < n := by omega
      simp only [this, if_true]
      have : s + (k - s) = k := by omega
      rw [this]; exact h3
    · simp only [hw, if_false]
      rw [lastWrite_none_iff]
      intro hm
      obtain ⟨j, hj⟩ := List.getElem?_of_mem hm
      have hj' : ((locs.drop s).take n).getD j none = some (i, b) := by
        rw [List.getD_eq_getElem?_getD, hj]; rfl
      rw [hget] at hj'
      by_cases hjn : j < n
      · simp only [hjn, if_true] at hj'
        have := somes_nodup_getD h hj' h3
        omega
      · simp [hjn] at hj'

theorem lastWrite_padTo (n : Nat) (l : List Loc) (k0 i b : Nat) :
    lastWrite (padTo n l) k0 i b = lastWrite (l.take n) k0 i b := by
  unfold padTo
  rw [lastWrite_shift (l.take n ++ _), lastWrite_append, lastWrite_shift (l.take n) k0]
  have : lastWrite (List.replicate (n - l.length) (none : Loc)) (l.take n).length i b = none := by
    rw [lastWrite_none_iff]
    intro hm; have := List.eq_of_mem_replicate hm; cases this
  rw [this]

end Amaranth
