import AmaranthVerif.Proofs.EngineEquivSync

/-!
# `sync d (out := e)` and `userSync d (exprSigs e) out e`: one delta, `step_design()`, whole runs
-/

namespace Amaranth.Engine
open Amaranth

/-- the process list with the compiled register -/
def syncKindsA (pre post : List ProcKind) (d out : Nat) (e : Expr) : List ProcKind :=
  pre ++ ProcKind.sync d (.assign (.sig out) e) :: post

/-- the process list with the documented process form instead -/
def syncKindsB (pre post : List ProcKind) (d out : Nat) (e : Expr) : List ProcKind :=
  pre ++ ProcKind.userSync d (exprSigs e) out e :: post

section defs
variable (D : Design) (d out : Nat) (e : Expr)

/-- the trigger the user process waits on -/
def syncT : Trigger := tickTrigger (D.doms.getD d default) ((exprSigs e).map .sig)

/-- the definition of the user process -/
def syncDefB : ProcDef := userSyncDef D.ctx (D.doms.getD d default) (exprSigs e) out e (D.inits.val out)

/-- the user process is suspended on its tick -/
def SIdle (l : Local) : Prop :=
  l.runnable = false ∧ l.initial = false ∧ l.waiting = true ∧ l.hits.length = (syncT D d e).length

/-- the replaced owner on both sides, at the start of a delta: at time 0 only the user process is
runnable; afterwards the compiled process is runnable exactly when the user process' trigger is
activated (the last commit was an active clock edge), and then the edge is recorded -/
def SyncQ (lA lB : Local) (cur nxt : Env) : Prop :=
  EnvN D.ctx cur ∧ EnvN D.ctx nxt ∧
  ((lA.runnable = false ∧ lB.runnable = true ∧ lB.initial = true ∧ lB.active = false ∧ lB.waiting = false) ∨
   (lA.runnable = true ∧ SIdle D d e lB ∧ lB.active = true ∧ lB.hits[0]? = some true) ∨
   (lA.runnable = false ∧ SIdle D d e lB ∧ lB.active = false))

/-- after phase 1a -/
def SyncQ1 (lA lB : Local) (cur : Env) : Prop :=
  (lA.runnable = false ∧ lB.runnable = true ∧ lB.initial = true ∧ lB.active = false) ∨
  (lA.runnable = true ∧ lB.runnable = true ∧ lB.initial = false ∧ lB.active = false ∧
    (tickResult lB.result).getD 0 0 = 1 ∧
    ((tickResult lB.result).getD 1 0 != 0) = rstOn (D.doms.getD d default) cur ∧
    (tickResult lB.result).drop 2 = (exprSigs e).map cur.val) ∨
  (lA.runnable = false ∧ SIdle D d e lB ∧ lB.active = false)

/-- what the commit keeps -/
def SyncC (lA lB : Local) : Prop :=
  SIdle D d e lB ∧ lA.runnable = lB.active ∧ (lB.active = true → lB.hits[0]? = some true)

end defs

theorem sync_sameOff (D : Design) (pre post : List ProcKind) (scripts : List (List TbOp)) (d out : Nat) (e : Expr) :
    SameOff pre.length (simDefs D (syncKindsA pre post d out e) scripts) (simDefs D (syncKindsB pre post d out e) scripts) :=
  simDefs_replace D pre post scripts _ _

theorem sync_atA (D : Design) (pre post : List ProcKind) (scripts : List (List TbOp)) (d out : Nat) (e : Expr) :
    (simDefs D (syncKindsA pre post d out e) scripts)[pre.length]? = some (syncDef D d (.assign (.sig out) e)) :=
  simDefs_at D pre post scripts _

theorem sync_atB (D : Design) (pre post : List ProcKind) (scripts : List (List TbOp)) (d out : Nat) (e : Expr) :
    (simDefs D (syncKindsB pre post d out e) scripts)[pre.length]? = some (syncDefB D d out e) :=
  simDefs_at D pre post scripts _

section
variable {D : Design} {pre post : List ProcKind} {scripts : List (List TbOp)} {d out : Nat} {e : Expr}

/-- phase 1a on the replaced owner -/
theorem sync_trig (H : SyncHyp D d out) (lA lB : Local) (cur nxt : Env) (h : SyncQ D d e lA lB cur nxt) :
    SyncQ1 D d e (if lA.active then (syncDef D d (.assign (.sig out) e)).trig lA cur else lA)
      (if lB.active then (syncDefB D d out e).trig lB cur else lB) cur := by
  have hA : (if lA.active then (syncDef D d (.assign (.sig out) e)).trig lA cur else lA).runnable = lA.runnable := by
    split <;> rfl
  obtain ⟨_, _, h | h | h⟩ := h
  · obtain ⟨h1, h2, h3, h4, _⟩ := h
    left
    simp only [h4, Bool.false_eq_true, if_false]
    exact ⟨hA.trans h1, h2, h3, by simp [h4]⟩
  · obtain ⟨h1, ⟨_, h3, _, h5⟩, h6, h7⟩ := h
    right; left
    simp only [h6, if_true]
    obtain ⟨r1, r2, r3⟩ := sync_tickResult D.ctx (D.doms.getD d default) H.noArst (exprSigs e) lB.hits cur h5 h7
    exact ⟨hA.trans h1, rfl, h3, rfl, r1, r2, r3⟩
  · obtain ⟨h1, h2, h3⟩ := h
    right; right
    simp only [h3, Bool.false_eq_true, if_false]
    exact ⟨hA.trans h1, h2, by simp [h3]⟩

/-- the replaced owner's turn in the process phase, on both sides -/
theorem sync_pstep (H : SyncHyp D d out) (hout : out < D.ctx.length) (hwf : e.wf D.ctx = true) (p : Nat)
    (psA psB : List ProcDef)
    (hdA : psA[p]? = some (syncDef D d (.assign (.sig out) e))) (hdB : psB[p]? = some (syncDefB D d out e))
    (a1 b1 : EState) (hc1 : b1.curr = a1.curr) (lA1 lB1 : Local)
    (hlA : a1.locals[p]? = some lA1) (hlB : b1.locals[p]? = some lB1) (hcur : EnvN D.ctx a1.curr)
    (za zb : EState) (hm : Mid p za zb) (hn : EnvN D.ctx za.next)
    (hzA : za.locals[p]? = some lA1) (hzB : zb.locals[p]? = some lB1)
    (hq : SyncQ1 D d e lA1 lB1 a1.curr) :
    Mid p (applyEffect za p (effectOf psA a1 p)) (applyEffect zb p (effectOf psB b1 p)) ∧
    EnvN D.ctx (applyEffect za p (effectOf psA a1 p)).next ∧
    (∃ lA2, (applyEffect za p (effectOf psA a1 p)).locals[p]? = some lA2 ∧ lA2.runnable = false) ∧
    (∃ lB2, (applyEffect zb p (effectOf psB b1 p)).locals[p]? = some lB2 ∧ SIdle D d e lB2 ∧ lB2.active = false) := by
  rw [effectOf_at psA a1 p _ lA1 hdA hlA, effectOf_at psB b1 p _ lB1 hdB hlB, hc1]
  rcases hq with ⟨h1, h2, h3, h4⟩ | ⟨h1, h2, h3, h4, r1, r2, r3⟩ | ⟨h1, ⟨g1, g2, g3, g4⟩, h3⟩
  · -- time 0: the user process starts and suspends on its first tick; nothing is written
    simp only [h1, h2, Bool.false_eq_true, if_false, if_true]
    have eB : (syncDefB D d out e).run { lB1 with runnable := false } a1.curr =
        { loc := { lB1 with runnable := false, initial := false, waiting := true,
                            hits := List.replicate (syncT D d e).length false } } := by
      simp only [syncDefB, userSyncDef, h3, if_true]; rfl
    rw [eB]
    refine ⟨⟨hm.curr, hm.next, hm.timers, hm.now, hm.deltas, hm.obs, ?_, ?_⟩, hn, ⟨lA1, hzA, h1⟩,
      ⟨_, applyEffect_at_self _ _ _ _ hzB, ⟨rfl, rfl, rfl, by simp⟩, h4⟩⟩
    · simp only [applyEffect, List.length_set, hm.len]
    · intro r hr
      simp only [applyEffect]
      rw [List.getElem?_set_ne (Ne.symm hr)]
      exact hm.off r hr
  · -- after an active edge: both write `syncV`
    simp only [h1, h2, if_true]
    have eA : (applyEffect za p (some ((syncDef D d (.assign (.sig out) e)).run { lA1 with runnable := false } a1.curr))).next =
        modAt za.next out (fun _ => syncV D d out e a1.curr) := by
      simp only [applyEffect, syncDef]
      exact syncA_next H hout hwf _ _ hcur hn
    have eBu : ((syncDefB D d out e).run { lB1 with runnable := false } a1.curr).updates =
        [setUpd D.ctx out (if rstOn (D.doms.getD d default) a1.curr then D.inits.val out
          else evalTb D.ctx (sampleEnv D.ctx.length (exprSigs e) ((exprSigs e).map a1.curr.val)) e)] := by
      simp only [syncDefB, userSyncDef, h3, Bool.false_eq_true, if_false]
      by_cases hr : rstOn (D.doms.getD d default) a1.curr = true
      · simp only [r2, hr, if_true]
      · simp only [r2, hr, if_false, Bool.false_eq_true, r1, r3]
        simp
    have eBl : ((syncDefB D d out e).run { lB1 with runnable := false } a1.curr).loc =
        { lB1 with runnable := false, initial := false, waiting := true,
                   hits := List.replicate (syncT D d e).length false } ∧
        ((syncDefB D d out e).run { lB1 with runnable := false } a1.curr).timer = none := by
      simp only [syncDefB, userSyncDef, h3, Bool.false_eq_true, if_false]
      split
      · exact ⟨rfl, rfl⟩
      · split <;> exact ⟨rfl, rfl⟩
    have eB : (applyEffect zb p (some ((syncDefB D d out e).run { lB1 with runnable := false } a1.curr))).next =
        modAt za.next out (fun _ => syncV D d out e a1.curr) := by
      simp only [applyEffect, eBu, hm.next]
      rw [setUpd_apply]
      congr 1
      funext _
      unfold syncV
      split
      · exact norm_of_contains _ (H.inits.ok out hout).1 (H.inits.ok out hout).2
      · rw [evalTb_sampleEnv _ _ _ hwf]; rfl
    refine ⟨⟨hm.curr, by rw [eA, eB], ?_, hm.now, hm.deltas, hm.obs, ?_, ?_⟩, by rw [eA]; exact syncV_val H hout _ _ hn,
      ⟨_, applyEffect_at_self _ _ _ _ hzA, rfl⟩, ⟨_, applyEffect_at_self _ _ _ _ hzB, ?_, ?_⟩⟩
    · simp only [applyEffect, syncDef, eBl.2, hm.timers]
    · simp only [applyEffect, List.length_set, hm.len]
    · intro r hr
      simp only [applyEffect]
      rw [List.getElem?_set_ne (Ne.symm hr), List.getElem?_set_ne (Ne.symm hr)]
      exact hm.off r hr
    · rw [eBl.1]; exact ⟨rfl, rfl, rfl, by simp⟩
    · rw [eBl.1]; exact h4
  · -- no edge: neither runs
    simp only [h1, g1, Bool.false_eq_true, if_false]
    exact ⟨hm, hn, ⟨lA1, hzA, h1⟩, ⟨lB1, hzB, ⟨g1, g2, g3, g4⟩, h3⟩⟩

/-- the process phase of a delta, on both sides -/
theorem sync_run (H : ReplHyp D pre post out) (HS : SyncHyp D d out) (hwf : e.wf D.ctx = true)
    (a1 b1 : EState) (hm : Mid pre.length a1 b1) (hcur : EnvN D.ctx a1.curr) (hn : EnvN D.ctx a1.next)
    (lA1 lB1 : Local) (hlA : a1.locals[pre.length]? = some lA1) (hlB : b1.locals[pre.length]? = some lB1)
    (hq : SyncQ1 D d e lA1 lB1 a1.curr)
    (order : List Nat) (hnd : order.Nodup) (hp : pre.length ∈ order) :
    Mid pre.length (runProcs (simDefs D (syncKindsA pre post d out e) scripts) order a1)
      (runProcs (simDefs D (syncKindsB pre post d out e) scripts) order b1) ∧
    EnvN D.ctx (runProcs (simDefs D (syncKindsA pre post d out e) scripts) order a1).next ∧
    (∃ lA2, (runProcs (simDefs D (syncKindsA pre post d out e) scripts) order a1).locals[pre.length]? = some lA2 ∧
      lA2.runnable = false) ∧
    (∃ lB2, (runProcs (simDefs D (syncKindsB pre post d out e) scripts) order b1).locals[pre.length]? = some lB2 ∧
      SIdle D d e lB2 ∧ lB2.active = false) := by
  have hps := sync_sameOff D pre post scripts d out e
  rw [runProcs_eq_parallel _ a1 order hnd, runProcs_eq_parallel _ b1 order hnd]
  obtain ⟨s1, s2, rfl⟩ := List.append_of_mem hp
  have hp1 : pre.length ∉ s1 := by
    intro h
    have := (List.nodup_append.mp hnd).2.2 _ h _ (List.mem_cons_self ..)
    exact this rfl
  have hp2 : pre.length ∉ s2 := (List.nodup_cons.mp (List.nodup_append.mp hnd).2.1).1
  have hsame : ∀ q, q ≠ pre.length →
      effectOf (simDefs D (syncKindsB pre post d out e) scripts) b1 q =
      effectOf (simDefs D (syncKindsA pre post d out e) scripts) a1 q := fun q hq => effectOf_off hps hm q hq
  have hsafe := fun q (hq : q ≠ pre.length) eff he =>
    other_effect D pre post scripts (ProcKind.sync d (.assign (.sig out) e)) out H a1 hcur q hq eff he
  simp only [List.foldl_append, List.foldl_cons]
  obtain ⟨m1, n1, _, lA', lB', _⟩ := others_fold D.ctx out pre.length _ _ hsame hsafe s1 hp1 a1 b1 hm hn
  obtain ⟨m2, n2, ⟨lA2, hA2, hrA⟩, ⟨lB2, hB2, hidle, hact⟩⟩ :=
    sync_pstep HS H.hout hwf pre.length _ _ (sync_atA D pre post scripts d out e) (sync_atB D pre post scripts d out e)
      a1 b1 hm.curr lA1 lB1 hlA hlB hcur _ _ m1 n1 (lA'.trans hlA) (lB'.trans hlB) hq
  obtain ⟨m3, n3, _, lA3, lB3, _⟩ := others_fold D.ctx out pre.length _ _ hsame hsafe s2 hp2 _ _ m2 n2
  exact ⟨m3, n3, ⟨lA2, lA3.trans hA2, hrA⟩, ⟨lB2, lB3.trans hB2, hidle, hact⟩⟩

/-! ## The commit -/

theorem sync_commitSlot (HS : SyncHyp D d out) (za zb : EState) (i : Nat) (hm : Mid pre.length za zb)
    (hcur : EnvN D.ctx za.curr) (hn : EnvN D.ctx za.next) (lA lB : Local)
    (hlA : za.locals[pre.length]? = some lA) (hlB : zb.locals[pre.length]? = some lB)
    (hc : SyncC D d e lA lB) :
    Mid pre.length (commitSlot (simDefs D (syncKindsA pre post d out e) scripts) za i)
      (commitSlot (simDefs D (syncKindsB pre post d out e) scripts) zb i) ∧
    EnvN D.ctx (commitSlot (simDefs D (syncKindsA pre post d out e) scripts) za i).curr ∧
    ∃ lA' lB', (commitSlot (simDefs D (syncKindsA pre post d out e) scripts) za i).locals[pre.length]? = some lA' ∧
      (commitSlot (simDefs D (syncKindsB pre post d out e) scripts) zb i).locals[pre.length]? = some lB' ∧
      SyncC D d e lA' lB' := by
  have hps := sync_sameOff D pre post scripts d out e
  refine ⟨commitSlot_mid hps hm i, ?_, ?_⟩
  · by_cases hi : za.curr.val i = za.next.val i
    · rw [commitSlot_of_eq _ za i hi]; exact hcur
    · rw [commitSlot_of_ne _ za i hi]
      show EnvN D.ctx (za.curr.put i (za.next.val i))
      exact hcur.put i _ (fun hlt => (hn.ok i hlt).2)
  · have eA := commitSlot_at _ za i pre.length _ lA (sync_atA D pre post scripts d out e) hlA
    have eB := commitSlot_at _ zb i pre.length _ lB (sync_atB D pre post scripts d out e) hlB
    rw [hm.curr, hm.next] at eB
    by_cases hi : za.curr.val i = za.next.val i
    · simp only [hi, if_true] at eA eB
      exact ⟨lA, lB, eA, eB, hc⟩
    · simp only [hi, if_false] at eA eB
      refine ⟨_, _, eA, eB, ?_⟩
      obtain ⟨⟨hr, hini, hw, hl⟩, hra, hh0⟩ := hc
      obtain ⟨w1, w2, w3, w4, w5, w6, w7⟩ := tickWake_spec (D.doms.getD d default) HS.noArst ((exprSigs e).map .sig) lB hw hl
        i (za.curr.val i) (za.next.val i)
      -- the two wake conditions coincide
      have hcond : ((D.doms.getD d default).clk == i && bitOf (za.curr.val i) 0 != bitOf (za.next.val i) 0 &&
            bitOf (za.next.val i) 0 == (D.doms.getD d default).posedge) =
          (i == (D.doms.getD d default).clk && za.next.val i == (if (D.doms.getD d default).posedge then 1 else 0)) := by
        by_cases hic : i = (D.doms.getD d default).clk
        · subst hic
          simp only [beq_self_eq_true, Bool.true_and]
          have := edge_cond (za.curr.val _) (za.next.val _) (bit_of_u1 hcur _ HS.clkLt HS.clk1) (bit_of_u1 hn _ HS.clkLt HS.clk1)
            hi (D.doms.getD d default).posedge
          simpa using this
        · have h1 : ((D.doms.getD d default).clk == i) = false := by simpa using fun h => hic h.symm
          have h2 : (i == (D.doms.getD d default).clk) = false := by simpa using hic
          simp only [h1, h2, Bool.false_and]
      have hAr : ((syncDef D d (.assign (.sig out) e)).wake lA i (za.curr.val i) (za.next.val i)).runnable =
          (lA.runnable || (i == (D.doms.getD d default).clk &&
            za.next.val i == (if (D.doms.getD d default).posedge then 1 else 0))) := by
        by_cases hc : (i == (D.doms.getD d default).clk &&
            za.next.val i == (if (D.doms.getD d default).posedge then 1 else 0)) = true
        · simp only [syncDef, hc, if_true, Bool.or_true]
        · simp only [syncDef, hc, Bool.false_eq_true, if_false]
          rw [Bool.or_false]
      refine ⟨⟨w1.trans hr, w2.trans hini, w3, w4⟩, ?_, ?_⟩
      · show ((syncDef D d (.assign (.sig out) e)).wake lA i _ _).runnable =
          ((syncDefB D d out e).wake lB i _ _).active
        rw [hAr, hra]
        exact (w5.trans (by rw [hcond])).symm
      · intro ha
        have ha' : (lB.active || ((D.doms.getD d default).clk == i && bitOf (za.curr.val i) 0 != bitOf (za.next.val i) 0 &&
            bitOf (za.next.val i) 0 == (D.doms.getD d default).posedge)) = true := w5.symm.trans ha
        rcases Bool.or_eq_true _ _ |>.mp ha' with h | h
        · exact w6 (hh0 h)
        · exact w7 h

theorem sync_commit (HS : SyncHyp D d out) (order : List Nat) : ∀ (za zb : EState), Mid pre.length za zb →
    EnvN D.ctx za.curr → EnvN D.ctx za.next → ∀ (lA lB : Local),
    za.locals[pre.length]? = some lA → zb.locals[pre.length]? = some lB → SyncC D d e lA lB →
    Mid pre.length (commit (simDefs D (syncKindsA pre post d out e) scripts) order za)
      (commit (simDefs D (syncKindsB pre post d out e) scripts) order zb) ∧
    EnvN D.ctx (commit (simDefs D (syncKindsA pre post d out e) scripts) order za).curr ∧
    (commit (simDefs D (syncKindsA pre post d out e) scripts) order za).next = za.next ∧
    ∃ lA' lB', (commit (simDefs D (syncKindsA pre post d out e) scripts) order za).locals[pre.length]? = some lA' ∧
      (commit (simDefs D (syncKindsB pre post d out e) scripts) order zb).locals[pre.length]? = some lB' ∧
      SyncC D d e lA' lB' := by
  unfold commit
  induction order with
  | nil => intro za zb hm hc _ lA lB h1 h2 h3; exact ⟨hm, hc, rfl, lA, lB, h1, h2, h3⟩
  | cons i rest ih =>
    intro za zb hm hc hn lA lB h1 h2 h3
    simp only [List.foldl_cons]
    obtain ⟨m1, c1, lA', lB', a1, b1, q1⟩ := sync_commitSlot (pre := pre) (post := post) (scripts := scripts)
      HS za zb i hm hc hn lA lB h1 h2 h3
    have hn1 : EnvN D.ctx (commitSlot (simDefs D (syncKindsA pre post d out e) scripts) za i).next := by
      rw [commitSlot_next]; exact hn
    obtain ⟨r1, r2, r3, r4⟩ := ih _ _ m1 c1 hn1 lA' lB' a1 b1 q1
    exact ⟨r1, r2, by rw [r3, commitSlot_next], r4⟩

/-! ## One delta, `step_design()` -/

/-- the two simulations, state by state -/
def SyncRel (D : Design) (pre : List ProcKind) (d out : Nat) (e : Expr) (a b : EState) : Prop :=
  Mid pre.length a b ∧ ∃ lA lB, a.locals[pre.length]? = some lA ∧ b.locals[pre.length]? = some lB ∧
    SyncQ D d e lA lB a.curr a.next

theorem sync_delta (H : ReplHyp D pre post out) (HS : SyncHyp D d out) (hwf : e.wf D.ctx = true) (o : Orders)
    (hnd : o.procs.Nodup) (hp : pre.length ∈ o.procs) (a b : EState) (hr : SyncRel D pre d out e a b) :
    SyncRel D pre d out e (delta (simDefs D (syncKindsA pre post d out e) scripts) o a).1
      (delta (simDefs D (syncKindsB pre post d out e) scripts) o b).1 ∧
    (delta (simDefs D (syncKindsB pre post d out e) scripts) o b).2 =
      (delta (simDefs D (syncKindsA pre post d out e) scripts) o a).2 := by
  obtain ⟨hm, lA, lB, hlA, hlB, hq⟩ := hr
  have hps := sync_sameOff D pre post scripts d out e
  have hcur := hq.1
  have hn := hq.2.1
  have m1 := trigPhase_mid hps hm
  have tA := trigPhase_at _ a pre.length _ lA (sync_atA D pre post scripts d out e) hlA
  have tB := trigPhase_at _ b pre.length _ lB (sync_atB D pre post scripts d out e) hlB
  rw [hm.curr] at tB
  have q1 := sync_trig HS lA lB a.curr a.next hq
  obtain ⟨m2, n2, ⟨lA2, hA2, hrA⟩, ⟨lB2, hB2, hidle, hact⟩⟩ :=
    sync_run (scripts := scripts) H HS hwf _ _ m1 hcur hn _ _ tA tB q1 o.procs hnd hp
  have c2 : (runProcs (simDefs D (syncKindsA pre post d out e) scripts) o.procs
      (trigPhase (simDefs D (syncKindsA pre post d out e) scripts) a)).curr = a.curr := by
    rw [runProcs_curr, trigPhase_curr]
  have hc2 : SyncC D d e lA2 lB2 := ⟨hidle, hrA.trans hact.symm, fun h => by rw [hact] at h; cases h⟩
  obtain ⟨m3, cu3, nx3, lA3, lB3, hA3, hB3, ⟨hidle3, hra3, hh3⟩⟩ :=
    sync_commit (pre := pre) (post := post) (scripts := scripts) HS o.slots _ _ m2
      (by rw [c2]; exact hcur) n2 lA2 lB2 hA2 hB2 hc2
  unfold delta
  refine ⟨⟨⟨m3.curr, m3.next, m3.timers, m3.now, by simp only [m3.deltas], m3.obs, m3.len, m3.off⟩,
    lA3, lB3, hA3, hB3, cu3, by rw [nx3]; exact n2, ?_⟩, ?_⟩
  · by_cases hb : lB3.active = true
    · exact Or.inr (Or.inl ⟨hra3.trans hb, hidle3, hb, hh3 hb⟩)
    · have hb : lB3.active = false := by simpa using hb
      exact Or.inr (Or.inr ⟨hra3.trans hb, hidle3, hb⟩)
  · simp only [anyChange_mid hps m2]

theorem sync_settle (H : ReplHyp D pre post out) (HS : SyncHyp D d out) (hwf : e.wf D.ctx = true) (sched : Sched)
    (hnd : SchedNodup sched) (hl : ∀ k, pre.length ∈ (sched k).procs) (fuel : Nat) (a b : EState)
    (hr : SyncRel D pre d out e a b) :
    SyncRel D pre d out e (settle (simDefs D (syncKindsA pre post d out e) scripts) sched fuel a).1
      (settle (simDefs D (syncKindsB pre post d out e) scripts) sched fuel b).1 := by
  induction fuel generalizing a b with
  | zero => exact hr
  | succ n ih =>
    simp only [settle]
    rw [hr.1.deltas]
    obtain ⟨h1, h2⟩ := sync_delta (scripts := scripts) H HS hwf (sched a.deltas) (hnd _) (hl _) a b hr
    rw [h2]
    split
    · exact h1
    · exact ih _ _ h1

end

end Amaranth.Engine
