import AmaranthVerif.Proofs.EngineEquivAsync2

/-!
# `arst` + `sync` against a placeholder + `userSync`: the process phase, the commit, one delta
-/

namespace Amaranth.Engine
open Amaranth

/-- `foldl_two_front` for two folds over the same order at once -/
theorem foldl_two_front2 {α β : Type} (f : α → Nat → α) (g : β → Nat → β) (x y : Nat) (hxy : x ≠ y)
    (order : List Nat) (hnd : order.Nodup) (hx : x ∈ order) (hy : y ∈ order)
    (hfx : ∀ z q, q ≠ x → f (f z q) x = f (f z x) q) (hfy : ∀ z q, q ≠ y → f (f z q) y = f (f z y) q)
    (hgx : ∀ z q, q ≠ x → g (g z q) x = g (g z x) q) (hgy : ∀ z q, q ≠ y → g (g z q) y = g (g z y) q) :
    ∃ rest, x ∉ rest ∧ y ∉ rest ∧
      (∀ z, order.foldl f z = (x :: y :: rest).foldl f z) ∧ (∀ z, order.foldl g z = (x :: y :: rest).foldl g z) := by
  obtain ⟨s1, s2, rfl⟩ := List.append_of_mem hx
  have hx1 : x ∉ s1 := fun h => (List.nodup_append.mp hnd).2.2 _ h _ (List.mem_cons_self ..) rfl
  have hx2 : x ∉ s2 := (List.nodup_cons.mp (List.nodup_append.mp hnd).2.1).1
  have hy' : y ∈ s1 ++ s2 := by
    rcases List.mem_append.mp hy with h | h
    · exact List.mem_append_left _ h
    · rcases List.mem_cons.mp h with h | h
      · exact absurd h.symm hxy
      · exact List.mem_append_right _ h
  have hnd' : (s1 ++ s2).Nodup := by
    have h1 := List.nodup_append.mp hnd
    exact List.nodup_append.mpr ⟨h1.1, (List.nodup_cons.mp h1.2.1).2, fun a ha b hb => h1.2.2 a ha b (List.mem_cons_of_mem _ hb)⟩
  obtain ⟨t1, t2, ht⟩ := List.append_of_mem hy'
  have hy1 : y ∉ t1 := fun h => by
    rw [ht] at hnd'; exact (List.nodup_append.mp hnd').2.2 _ h _ (List.mem_cons_self ..) rfl
  have hy2 : y ∉ t2 := by
    rw [ht] at hnd'; exact (List.nodup_cons.mp (List.nodup_append.mp hnd').2.1).1
  have hsub : ∀ q ∈ t1 ++ t2, q ∈ s1 ++ s2 := by
    intro q hq
    rw [ht]
    rcases List.mem_append.mp hq with h | h
    · exact List.mem_append_left _ h
    · exact List.mem_append_right _ (List.mem_cons_of_mem _ h)
  refine ⟨t1 ++ t2, ?_, ?_, ?_, ?_⟩
  · intro h
    rcases List.mem_append.mp (hsub x h) with h | h
    · exact hx1 h
    · exact hx2 h
  · intro h
    rcases List.mem_append.mp h with h | h
    · exact hy1 h
    · exact hy2 h
  · intro z
    rw [foldl_bubble f x s1 s2 z (fun z' q hq => hfx z' q (fun e => hx1 (e ▸ hq)))]
    simp only [List.foldl_cons]
    rw [ht, foldl_bubble f y t1 t2 _ (fun z' q hq => hfy z' q (fun e => hy1 (e ▸ hq)))]
    rfl
  · intro z
    rw [foldl_bubble g x s1 s2 z (fun z' q hq => hgx z' q (fun e => hx1 (e ▸ hq)))]
    simp only [List.foldl_cons]
    rw [ht, foldl_bubble g y t1 t2 _ (fun z' q hq => hgy z' q (fun e => hy1 (e ▸ hq)))]
    rfl

theorem procUpdates_assign_slot (ctx : Ctx) (out : Nat) (e : Expr) (nx : Env) (hout : out < ctx.length) (u : Update)
    (hu : u ∈ procUpdates ctx (.assign (.sig out) e) nx) : u.slot = out := by
  rw [procUpdates_assign _ _ _ _ hout] at hu
  split at hu
  · simp at hu
  · simp only [List.mem_singleton] at hu; rw [hu]

section
variable {D : Design} {pre post : List ProcKind} {scripts : List (List TbOp)} {d out r : Nat} {e : Expr}

/-- the process phase of a delta, on both sides -/
theorem async_run (H : ReplHyp D pre post out) (HA : AsyncHyp D d out r) (hwf : e.wf D.ctx = true)
    (a1 b1 : EState) (hm : MidP (PP pre) a1 b1) (hcur : EnvN D.ctx a1.curr) (hn : EnvN D.ctx a1.next)
    (lR lS lD lB : Local)
    (hlR : a1.locals[pre.length]? = some lR) (hlS : a1.locals[pre.length + 1]? = some lS)
    (hlD : b1.locals[pre.length]? = some lD) (hlB : b1.locals[pre.length + 1]? = some lB)
    (hq : AQ1 D d r e lR lS lB a1.curr)
    (order : List Nat) (hnd : order.Nodup) (hp : pre.length ∈ order) (hp1 : pre.length + 1 ∈ order) :
    MidP (PP pre) (runProcs (simDefs D (asyncKindsA pre post d out e) scripts) order a1)
      (runProcs (simDefs D (asyncKindsB pre post d out e) scripts) order b1) ∧
    EnvN D.ctx (runProcs (simDefs D (asyncKindsA pre post d out e) scripts) order a1).next ∧
    (∃ lR2, (runProcs (simDefs D (asyncKindsA pre post d out e) scripts) order a1).locals[pre.length]? = some lR2 ∧
      lR2.runnable = false) ∧
    (∃ lS2, (runProcs (simDefs D (asyncKindsA pre post d out e) scripts) order a1).locals[pre.length + 1]? = some lS2 ∧
      lS2.runnable = false) ∧
    (∃ lB2, (runProcs (simDefs D (asyncKindsB pre post d out e) scripts) order b1).locals[pre.length + 1]? = some lB2 ∧
      SIdle D d e lB2 ∧ lB2.active = false ∧ lB2.hits[0]? = some false ∧ lB2.hits[1]? = some false) := by
  have hps := async_sameOff D pre post scripts d out e
  have hdR := async_atR D pre post scripts d out e
  have hdS := async_atS D pre post scripts d out e
  have hdD := async_atD D pre post scripts d out e
  have hdB := async_atB D pre post scripts d out e
  have hout := H.hout
  have hpp : pre.length ≠ pre.length + 1 := by omega
  have hR1 : lR.runnable = true → a1.curr.val r = 1 := by
    intro h
    rcases hq with ⟨h1, _⟩ | ⟨_, _, _, _, _, _, _, h6⟩ | ⟨h1, _⟩
    · rw [h1] at h; cases h
    · exact h6 h
    · rw [h1] at h; cases h
  have eR := effectOf_at _ a1 pre.length _ lR hdR hlR
  have eS := effectOf_at _ a1 (pre.length + 1) _ lS hdS hlS
  have eD := effectOf_at _ b1 pre.length _ lD hdD hlD
  have eB := effectOf_at _ b1 (pre.length + 1) _ lB hdB hlB
  -- slots of the special effects
  have slotR : ∀ x, effectOf (simDefs D (asyncKindsA pre post d out e) scripts) a1 pre.length = some x →
      (∀ u ∈ x.updates, u.slot = out) ∧ lR.runnable = true ∧
      x = (arstDef D d (.assign (.sig out) e)).run { lR with runnable := false } a1.curr := by
    intro x hx
    rw [eR] at hx
    by_cases hr : lR.runnable = true
    · simp only [hr, if_true, Option.some.injEq] at hx
      refine ⟨fun u hu => ?_, hr, hx.symm⟩
      rw [← hx, arst_updates HA hout] at hu
      exact procUpdates_assign_slot _ _ _ _ hout u hu
    · simp only [hr] at hx; cases hx
  have slotS : ∀ x, effectOf (simDefs D (asyncKindsA pre post d out e) scripts) a1 (pre.length + 1) = some x →
      (∀ u ∈ x.updates, u.slot = out) ∧
      x = (syncDef D d (.assign (.sig out) e)).run { lS with runnable := false } a1.curr := by
    intro x hx
    rw [eS] at hx
    by_cases hs : lS.runnable = true
    · simp only [hs, if_true, Option.some.injEq] at hx
      refine ⟨fun u hu => ?_, hx.symm⟩
      rw [← hx] at hu
      exact procUpdates_assign_slot _ _ _ _ hout u hu
    · simp only [hs] at hx; cases hx
  have slotD : ∀ x, effectOf (simDefs D (asyncKindsB pre post d out e) scripts) b1 pre.length = some x →
      x.updates = [] := by
    intro x hx
    rw [eD] at hx
    by_cases hd : lD.runnable = true
    · simp only [hd, if_true, Option.some.injEq] at hx
      rw [← hx]; exact (inert_comb_skip D _ _).1
    · simp only [hd] at hx; cases hx
  have slotB : ∀ x, effectOf (simDefs D (asyncKindsB pre post d out e) scripts) b1 (pre.length + 1) = some x →
      ∀ u ∈ x.updates, u.slot = out := by
    intro x hx u hu
    obtain ⟨dd, l, hd1, rfl⟩ := effectOf_some _ _ _ _ hx
    rw [hdB] at hd1
    cases hd1
    have := toDef_run_masks D (ProcKind.userSync d (exprSigs e) out e) l b1.curr u hu
    simp only [kindMasks, List.mem_singleton, Prod.mk.injEq] at this
    exact this.1
  have slotO : ∀ q, ¬ PP pre q → ∀ x, effectOf (simDefs D (asyncKindsA pre post d out e) scripts) a1 q = some x →
      ∀ u ∈ x.updates, u.slot ≠ out := fun q hq x hx =>
    (async_other_effect D pre post scripts d out e H a1 hcur q hq x hx).1
  have hsame : ∀ q, ¬ PP pre q →
      effectOf (simDefs D (asyncKindsB pre post d out e) scripts) b1 q =
      effectOf (simDefs D (asyncKindsA pre post d out e) scripts) a1 q := fun q hq => effectOf_offP hps hm q hq
  -- commutations
  have compatRS : ∀ x y, effectOf (simDefs D (asyncKindsA pre post d out e) scripts) a1 pre.length = some x →
      effectOf (simDefs D (asyncKindsA pre post d out e) scripts) a1 (pre.length + 1) = some y →
      ∀ u ∈ x.updates, ∀ v ∈ y.updates, Compat u v := by
    intro x y hx hy u hu v hv
    obtain ⟨_, hr, rfl⟩ := slotR x hx
    obtain ⟨_, rfl⟩ := slotS y hy
    exact arst_sync_compat D d _ r HA.rst _ _ a1.curr (hR1 hr) u hu v hv
  have notPP : ∀ q, q ≠ pre.length → q ≠ pre.length + 1 → ¬ PP pre q := fun q h1 h2 h => by
    rcases h with h | h
    · exact h1 h
    · exact h2 h
  have hfx : ∀ (z : EState) q, q ≠ pre.length →
      applyEffect (applyEffect z q (effectOf (simDefs D (asyncKindsA pre post d out e) scripts) a1 q)) pre.length
        (effectOf (simDefs D (asyncKindsA pre post d out e) scripts) a1 pre.length) =
      applyEffect (applyEffect z pre.length (effectOf (simDefs D (asyncKindsA pre post d out e) scripts) a1 pre.length)) q
        (effectOf (simDefs D (asyncKindsA pre post d out e) scripts) a1 q) := by
    intro z q hq
    apply applyEffect_comm z q pre.length _ _ hq
    intro a ha b hb u hu v hv
    by_cases hq1 : q = pre.length + 1
    · subst hq1
      exact (compatRS b a hb ha v hv u hu).symm
    · left
      rw [(slotR b hb).1 v hv]
      exact slotO q (notPP q hq hq1) a ha u hu
  have hfy : ∀ (z : EState) q, q ≠ pre.length + 1 →
      applyEffect (applyEffect z q (effectOf (simDefs D (asyncKindsA pre post d out e) scripts) a1 q)) (pre.length + 1)
        (effectOf (simDefs D (asyncKindsA pre post d out e) scripts) a1 (pre.length + 1)) =
      applyEffect (applyEffect z (pre.length + 1) (effectOf (simDefs D (asyncKindsA pre post d out e) scripts) a1 (pre.length + 1))) q
        (effectOf (simDefs D (asyncKindsA pre post d out e) scripts) a1 q) := by
    intro z q hq
    apply applyEffect_comm z q (pre.length + 1) _ _ hq
    intro a ha b hb u hu v hv
    by_cases hq0 : q = pre.length
    · subst hq0
      exact compatRS a b ha hb u hu v hv
    · left
      rw [(slotS b hb).1 v hv]
      exact slotO q (notPP q hq0 hq) a ha u hu
  have hgx : ∀ (z : EState) q, q ≠ pre.length →
      applyEffect (applyEffect z q (effectOf (simDefs D (asyncKindsB pre post d out e) scripts) b1 q)) pre.length
        (effectOf (simDefs D (asyncKindsB pre post d out e) scripts) b1 pre.length) =
      applyEffect (applyEffect z pre.length (effectOf (simDefs D (asyncKindsB pre post d out e) scripts) b1 pre.length)) q
        (effectOf (simDefs D (asyncKindsB pre post d out e) scripts) b1 q) := by
    intro z q hq
    apply applyEffect_comm z q pre.length _ _ hq
    intro a _ b hb u _ v hv
    rw [slotD b hb] at hv
    cases hv
  have hgy : ∀ (z : EState) q, q ≠ pre.length + 1 →
      applyEffect (applyEffect z q (effectOf (simDefs D (asyncKindsB pre post d out e) scripts) b1 q)) (pre.length + 1)
        (effectOf (simDefs D (asyncKindsB pre post d out e) scripts) b1 (pre.length + 1)) =
      applyEffect (applyEffect z (pre.length + 1) (effectOf (simDefs D (asyncKindsB pre post d out e) scripts) b1 (pre.length + 1))) q
        (effectOf (simDefs D (asyncKindsB pre post d out e) scripts) b1 q) := by
    intro z q hq
    apply applyEffect_comm z q (pre.length + 1) _ _ hq
    intro a ha b hb u hu v hv
    by_cases hq0 : q = pre.length
    · subst hq0
      rw [slotD a ha] at hu
      cases hu
    · left
      rw [slotB b hb v hv]
      rw [hsame q (notPP q hq0 hq)] at ha
      exact slotO q (notPP q hq0 hq) a ha u hu
  rw [runProcs_eq_parallel _ a1 order hnd, runProcs_eq_parallel _ b1 order hnd]
  obtain ⟨rest, hr0, hr1, eqA, eqB⟩ := foldl_two_front2
    (fun z q => applyEffect z q (effectOf (simDefs D (asyncKindsA pre post d out e) scripts) a1 q))
    (fun z q => applyEffect z q (effectOf (simDefs D (asyncKindsB pre post d out e) scripts) b1 q))
    pre.length (pre.length + 1) hpp order hnd hp hp1 hfx hfy hgx hgy
  rw [eqA a1, eqB b1]
  simp only [List.foldl_cons]
  obtain ⟨m2, n2, ⟨lR2, hR2, hR2'⟩, ⟨lS2, hS2, hS2'⟩, _, ⟨lB2, hB2, hB2'⟩⟩ :=
    async_pstep HA hout hwf pre.length _ _ hdR hdS hdD hdB (PP pre)
      (fun q hq => ⟨fun h => hq (Or.inl h), fun h => hq (Or.inr h)⟩) a1 b1 hm lR lS lD lB hlR hlS hlD hlB hcur hn hq
  have hrest : ∀ q ∈ rest, ¬ PP pre q := by
    intro q hq h
    rcases h with h | h
    · exact hr0 (h ▸ hq)
    · exact hr1 (h ▸ hq)
  have hsafe := fun q (hq : ¬ PP pre q) eff he =>
    async_other_effect D pre post scripts d out e H a1 hcur q hq eff he
  obtain ⟨m3, n3, _, lA3, lB3, _⟩ := others_foldP D.ctx out (PP pre) _ _ hsame hsafe rest hrest _ _ m2 n2
  exact ⟨m3, n3, ⟨lR2, (lA3 _ (Or.inl rfl)).trans hR2, hR2'⟩, ⟨lS2, (lA3 _ (Or.inr rfl)).trans hS2, hS2'⟩,
    ⟨lB2, (lB3 _ (Or.inr rfl)).trans hB2, hB2'⟩⟩

end

end Amaranth.Engine
