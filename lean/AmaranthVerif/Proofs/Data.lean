import AmaranthVerif.Model.Data
import AmaranthVerif.Spec.Data

/-! # Helper lemmas for C15 (core Lean only) -/

namespace Amaranth.Data
open Spec

/-! ## `ofBits` -/

theorem ofBits_lt (n : Nat) (f : Nat → Bool) : ofBits n f < 2 ^ n := by
  induction n with
  | zero => simp [ofBits]
  | succ n ih =>
    simp only [ofBits]
    have : 2 ^ (n + 1) = 2 * 2 ^ n := by rw [Nat.pow_succ]; omega
    split <;> omega

theorem testBit_ofBits (n : Nat) (f : Nat → Bool) (i : Nat) :
    (ofBits n f).testBit i = (decide (i < n) && f i) := by
  induction n with
  | zero => simp [ofBits]
  | succ n ih =>
    simp only [ofBits]
    have hlt := ofBits_lt n f
    by_cases hf : f n
    · simp only [hf, if_true]
      rw [Nat.add_comm]
      by_cases h1 : i < n
      · rw [Nat.testBit_two_pow_add_gt h1, ih]; simp [h1, show i < n + 1 by omega]
      · by_cases h2 : i = n
        · subst h2
          rw [Nat.testBit_two_pow_add_eq, Nat.testBit_lt_two_pow hlt]; simp [hf]
        · have h3 : n + 1 ≤ i := by omega
          have : 2 ^ n + ofBits n f < 2 ^ i := by
            have : 2 ^ (n + 1) ≤ 2 ^ i := Nat.pow_le_pow_right (by omega) h3
            have : 2 ^ (n + 1) = 2 * 2 ^ n := by rw [Nat.pow_succ]; omega
            omega
          rw [Nat.testBit_lt_two_pow this]; simp [show ¬ i < n + 1 by omega]
    · have hz : (if f n = true then 2 ^ n else 0) = 0 := by simp [hf]
      rw [hz, Nat.add_zero, ih]
      by_cases h2 : i = n
      · subst h2; simp [hf]
      · have : (i < n + 1) = (i < n) := by apply propext; omega
        simp [this]

theorem ofBits_testBit_of_lt {x n : Nat} (h : x < 2 ^ n) : ofBits n x.testBit = x := by
  apply Nat.eq_of_testBit_eq; intro i
  rw [testBit_ofBits]
  by_cases hi : i < n
  · simp [hi]
  · have : x < 2 ^ i := Nat.lt_of_lt_of_le h (Nat.pow_le_pow_right (by omega) (by omega))
    simp [hi, Nat.testBit_lt_two_pow this]

theorem ofBits_congr {n : Nat} {f g : Nat → Bool} (h : ∀ i, i < n → f i = g i) : ofBits n f = ofBits n g := by
  apply Nat.eq_of_testBit_eq; intro i
  rw [testBit_ofBits, testBit_ofBits]
  by_cases hi : i < n
  · simp [hi, h i hi]
  · simp [hi]

/-! ## Slices -/

theorem testBit_slice (raw off w i : Nat) :
    (slice raw off w).testBit i = (decide (i < w) && raw.testBit (off + i)) := by
  simp [slice]

theorem slice_eq_sliceBits (raw off w : Nat) : slice raw off w = sliceBits raw off w := by
  apply Nat.eq_of_testBit_eq; intro i
  rw [testBit_slice, sliceBits, testBit_ofBits]

theorem evalSlice_eq_slice (raw off w : Nat) : evalSlice raw off (off + w) = slice raw off w := by
  simp [evalSlice, slice]

theorem slice_lt (raw off w : Nat) : slice raw off w < 2 ^ w := by
  rw [slice_eq_sliceBits]; exact ofBits_lt _ _

theorem slice_slice (raw o₁ w₁ o₂ w₂ : Nat) (h : o₂ + w₂ ≤ w₁) :
    slice (slice raw o₁ w₁) o₂ w₂ = slice raw (o₁ + o₂) w₂ := by
  apply Nat.eq_of_testBit_eq; intro i
  simp only [testBit_slice]
  by_cases hi : i < w₂
  · simp [hi, show o₂ + i < w₁ by omega, Nat.add_assoc]
  · simp [hi]

theorem slice_of_lt {raw w : Nat} (h : raw < 2 ^ w) : slice raw 0 w = raw := by
  apply Nat.eq_of_testBit_eq; intro i
  rw [testBit_slice]
  by_cases hi : i < w
  · simp [hi]
  · have : raw < 2 ^ i := Nat.lt_of_lt_of_le h (Nat.pow_le_pow_right (by omega) (by omega))
    simp [hi, Nat.testBit_lt_two_pow this]

/-! ## `norm` on bit patterns is the two's-complement reading -/

theorem norm_unsigned (w : Nat) (v : Int) : norm ⟨w, false⟩ v = v % 2 ^ w := rfl

theorem norm_signed (w : Nat) (v : Int) :
    norm ⟨w, true⟩ v = if v % 2 ^ w ≥ 2 ^ (w - 1) then v % 2 ^ w - 2 ^ w else v % 2 ^ w := rfl

theorem norm_cases (s : Shape) (v : Int) :
    norm s v = v % 2 ^ s.width ∨ (s.signed = true ∧ norm s v = v % 2 ^ s.width - 2 ^ s.width) := by
  obtain ⟨w, sg⟩ := s
  cases sg with
  | false => left; rfl
  | true =>
    rw [norm_signed]
    by_cases h : v % 2 ^ w ≥ 2 ^ (w - 1)
    · right; exact ⟨rfl, if_pos h⟩
    · left; exact if_neg h

theorem two_pow_pred {w : Nat} (h : 0 < w) : 2 ^ w = 2 * 2 ^ (w - 1) := by
  have : w = (w - 1) + 1 := by omega
  conv => lhs; rw [this, Nat.pow_succ]
  omega

theorem two_pow_pos_int (w : Nat) : (0 : Int) < 2 ^ w := by
  have := Nat.two_pow_pos w
  exact_mod_cast this

theorem emod_of_nat_lt {w x : Nat} (h : x < 2 ^ w) : ((x : Int)) % (2 ^ w : Int) = x := by
  apply Int.emod_eq_of_lt (by omega)
  exact_mod_cast h

theorem norm_unsigned_of_lt {w x : Nat} (h : x < 2 ^ w) : norm ⟨w, false⟩ (x : Int) = x := by
  rw [norm_unsigned, emod_of_nat_lt h]

theorem norm_eq_reinterpret (s : Shape) (hs : s.WF) {x : Nat} (h : x < 2 ^ s.width) :
    norm s (x : Int) = reinterpret s x := by
  obtain ⟨w, sg⟩ := s
  cases sg with
  | false =>
    rw [norm_unsigned_of_lt h]
    simp [reinterpret, ofBits_testBit_of_lt h]
  | true =>
    have hw : 0 < w := hs rfl
    simp only at h
    have hsplit : ofBits (w - 1) x.testBit + (if x.testBit (w - 1) then 2 ^ (w - 1) else 0) = x := by
      have := ofBits_testBit_of_lt h
      have e : w = (w - 1) + 1 := by omega
      rw [e, ofBits] at this
      simpa using this
    have hlow := ofBits_lt (w - 1) x.testBit
    have h2 := two_pow_pred hw
    rw [norm_signed, emod_of_nat_lt h]
    simp only [reinterpret, if_true]
    have h2' : (2 ^ w : Int) = 2 * 2 ^ (w - 1) := by exact_mod_cast h2
    have hP' : (2 ^ (w - 1) : Int) = ((2 ^ (w - 1) : Nat) : Int) := by push_cast; rfl
    rw [h2', hP']
    generalize (2 ^ (w - 1) : Nat) = P at *
    by_cases hb : x.testBit (w - 1) = true
    · rw [if_pos hb] at hsplit
      rw [if_pos hb, if_pos (by omega)]
      omega
    · rw [if_neg hb] at hsplit
      rw [if_neg hb, if_neg (by omega)]
      omega

theorem pattern_eq_lowBits (w : Nat) (v : Int) : pattern w v = lowBits w v := rfl

theorem pattern_cast (w : Nat) (v : Int) : ((pattern w v : Nat) : Int) = v % 2 ^ w := by
  have h1 := two_pow_pos_int w
  have := Int.emod_nonneg v (Int.ne_of_gt h1)
  show (((v % 2 ^ w).toNat : Nat) : Int) = v % 2 ^ w
  omega

theorem pattern_lt (w : Nat) (v : Int) : pattern w v < 2 ^ w := by
  have h1 := two_pow_pos_int w
  have h2 := Int.emod_lt_of_pos v h1
  have h3 := pattern_cast w v
  have : ((pattern w v : Nat) : Int) < ((2 ^ w : Nat) : Int) := by push_cast; omega
  exact_mod_cast this

theorem emod_emod_self (v m : Int) : v % m % m = v % m := Int.emod_emod_of_dvd v (Int.dvd_refl m)

/-- re-signing the stored pattern gives back the normalised value -/
theorem norm_pattern (s : Shape) (v : Int) : norm s (pattern s.width v : Int) = norm s v := by
  obtain ⟨w, sg⟩ := s
  cases sg with
  | false => simp only [norm_unsigned, pattern_cast, emod_emod_self]
  | true => simp only [norm_signed, pattern_cast, emod_emod_self]

theorem norm_emod (s : Shape) (v : Int) : norm s v % 2 ^ s.width = v % 2 ^ s.width := by
  rcases norm_cases s v with h | ⟨_, h⟩
  · rw [h, emod_emod_self]
  · rw [h, Int.sub_emod, Int.emod_self, Int.sub_zero, emod_emod_self, emod_emod_self]

theorem norm_congr (s : Shape) {a b : Int} (h : a % 2 ^ s.width = b % 2 ^ s.width) : norm s a = norm s b := by
  obtain ⟨w, sg⟩ := s
  cases sg with
  | false => simpa only [norm_unsigned] using h
  | true =>
    simp only at h
    simp only [norm_signed, h]

theorem norm_norm (s : Shape) (v : Int) : norm s (norm s v) = norm s v :=
  norm_congr s (norm_emod s v)

theorem pattern_congr (w : Nat) {a b : Int} (h : a % 2 ^ w = b % 2 ^ w) : pattern w a = pattern w b := by
  show (a % 2 ^ w).toNat = (b % 2 ^ w).toNat
  rw [h]

theorem pattern_norm (s : Shape) (v : Int) : pattern s.width (norm s v) = pattern s.width v :=
  pattern_congr _ (norm_emod s v)

theorem pattern_of_nat_lt {w x : Nat} (h : x < 2 ^ w) : pattern w (x : Int) = x := by
  have := pattern_cast w x
  rw [emod_of_nat_lt h] at this
  omega

theorem norm_of_contains (s : Shape) (hs : s.WF) {v : Int} (h : s.contains v) : norm s v = v := by
  obtain ⟨w, sg⟩ := s
  have h1 := two_pow_pos_int w
  cases sg with
  | false =>
    simp only [Shape.contains, Shape.lo, Shape.hi] at h
    rw [norm_unsigned]
    exact Int.emod_eq_of_lt (by simpa using h.1) (by simpa using h.2)
  | true =>
    have hw : 0 < w := hs rfl
    simp only [Shape.contains, Shape.lo, Shape.hi, if_true] at h
    have h2 : (2 ^ w : Int) = 2 * 2 ^ (w - 1) := by exact_mod_cast two_pow_pred hw
    rw [norm_signed]
    by_cases hv : 0 ≤ v
    · have : v % 2 ^ w = v := Int.emod_eq_of_lt hv (by omega)
      rw [this, if_neg (by omega)]
    · have : v % 2 ^ w = v + 2 ^ w := by
        rw [← Int.add_mul_emod_self_left v (2 ^ w) 1, Int.mul_one]
        exact Int.emod_eq_of_lt (by omega) (by omega)
      rw [this, if_pos (by omega)]
      omega

/-! ## `Layout.const`: masks, one step, the loop -/

theorem testBit_fieldMask (off w i : Nat) :
    (fieldMask off w).testBit i = (decide (off ≤ i) && decide (i < off + w)) := by
  simp only [fieldMask, Nat.testBit_shiftLeft, Nat.testBit_two_pow_sub_one]
  by_cases h : off ≤ i
  · have : (i - off < w) = (i < off + w) := by apply propext; omega
    simp [h, this]
  · simp [h]

theorem testBit_clearMask (x m i : Nat) : (clearMask x m).testBit i = (x.testBit i && !m.testBit i) := by
  simp only [clearMask, Nat.testBit_xor, Nat.testBit_and]
  cases x.testBit i <;> cases m.testBit i <;> rfl

theorem testBit_setField (acc off w : Nat) (v : Int) (i : Nat) :
    (setField acc off w v).testBit i =
      if off ≤ i ∧ i < off + w then (pattern w v).testBit (i - off) else acc.testBit i := by
  simp only [setField, Nat.testBit_or, Nat.testBit_and, testBit_clearMask, testBit_fieldMask,
    Nat.testBit_shiftLeft]
  by_cases h1 : off ≤ i
  · by_cases h2 : i < off + w
    · simp [h1, h2]
    · simp [h1, h2]
  · simp [h1]

/-- the model's entries as the spec's writes -/
def Entry.toWrite (e : Entry) : Write := (e.off, e.w, e.v)

theorem testBit_pack (es : List Entry) (acc i : Nat) :
    (pack es acc).testBit i =
      if (es.map Entry.toWrite).any (fun e => e.covers i) then writtenBit (es.map Entry.toWrite) i
      else acc.testBit i := by
  induction es generalizing acc with
  | nil => simp [pack]
  | cons e rest ih =>
    simp only [pack, List.map_cons, List.any_cons, writtenBit]
    rw [ih, testBit_setField]
    by_cases hr : (rest.map Entry.toWrite).any (fun e => e.covers i) = true
    · simp [hr]
    · have hc : e.toWrite.covers i = (decide (e.off ≤ i) && decide (i < e.off + e.w)) := rfl
      by_cases h1 : e.off ≤ i ∧ i < e.off + e.w
      · have : e.toWrite.covers i = true := by rw [hc]; simp [h1.1, h1.2]
        simp only [hr, this, h1]
        simp [Entry.toWrite, pattern_eq_lowBits]
      · have : e.toWrite.covers i = false := by
          rw [hc]
          by_cases h3 : e.off ≤ i
          · have : ¬ i < e.off + e.w := fun h => h1 ⟨h3, h⟩
            simp [h3, this]
          · simp [h3]
        simp [hr, this, h1]

/-- entries all lie within `size` bits -/
def InBounds (size : Nat) (es : List Entry) : Prop := ∀ e ∈ es, e.off + e.w ≤ size

theorem pack_eq_constBits {size : Nat} {es : List Entry} (hb : InBounds size es) :
    pack es 0 = constBits size (es.map Entry.toWrite) := by
  apply Nat.eq_of_testBit_eq; intro i
  rw [testBit_pack, constBits, testBit_ofBits]
  by_cases hi : i < size
  · simp only [hi, decide_true, Bool.true_and, Nat.zero_testBit]
    split
    · rfl
    · rename_i hn
      -- no write covers the bit: the spec's bit is false too
      have : ∀ (ws : List Write), ws.any (fun e => e.covers i) = false → writtenBit ws i = false := by
        intro ws
        induction ws with
        | nil => intro _; rfl
        | cons a r ih =>
          intro h
          simp only [List.any_cons, Bool.or_eq_false_iff] at h
          simp [writtenBit, h.1, h.2]
      exact (this _ (by simpa using hn)).symm
  · have hnc : (es.map Entry.toWrite).any (fun e => e.covers i) = false := by
      rw [List.any_eq_false]
      intro w hw
      obtain ⟨e, he, rfl⟩ := List.mem_map.1 hw
      have := hb e he
      have hc : e.toWrite.covers i = (decide (e.off ≤ i) && decide (i < e.off + e.w)) := rfl
      rw [hc]
      have : ¬ i < e.off + e.w := by omega
      simp [this]
    simp [hnc, hi]

theorem pack_lt {size : Nat} {es : List Entry} (hb : InBounds size es) : pack es 0 < 2 ^ size := by
  rw [pack_eq_constBits hb]; exact ofBits_lt _ _

/-- the bit a list of writes leaves at `p`, when write number `i` covers `p` and no later one does -/
theorem writtenBit_at (ws : List Write) (i : Nat) (e : Write) (p : Nat)
    (hi : ws[i]? = some e) (hc : e.covers p = true)
    (hlater : ∀ j e', i < j → ws[j]? = some e' → e'.covers p = false) :
    writtenBit ws p = (lowBits e.2.1 e.2.2).testBit (p - e.1) := by
  induction ws generalizing i with
  | nil => simp at hi
  | cons a rest ih =>
    cases i with
    | zero =>
      simp only [List.getElem?_cons_zero, Option.some.injEq] at hi
      subst hi
      have : rest.any (fun e' => e'.covers p) = false := by
        rw [List.any_eq_false]
        intro e' he'
        obtain ⟨j, hj, hje⟩ := List.getElem_of_mem he'
        have := hlater (j + 1) e' (by omega) (by simp [hj, hje])
        simp [this]
      simp [writtenBit, this, hc]
    | succ i =>
      simp only [List.getElem?_cons_succ] at hi
      have hany : rest.any (fun e' => e'.covers p) = true := by
        rw [List.any_eq_true]
        exact ⟨e, List.mem_of_getElem? hi, hc⟩
      simp only [writtenBit, hany, if_true]
      exact ih i hi (fun j e' hj he' => hlater (j + 1) e' (by omega) (by simpa [List.getElem?_cons_succ] using he'))

/-- **reading back one field of a packed constant**: if entry number `i` is not overlapped by a later
entry, the bits of its field are the low bits of its value -/
theorem slice_pack (es : List Entry) (i : Nat) (e : Entry) (acc : Nat)
    (hi : es[i]? = some e)
    (hlater : ∀ j e', i < j → es[j]? = some e' → Spec.Disjoint e.off e.w e'.off e'.w) :
    slice (pack es acc) e.off e.w = pattern e.w e.v := by
  apply Nat.eq_of_testBit_eq; intro b
  rw [testBit_slice]
  by_cases hb : b < e.w
  · simp only [hb, decide_true, Bool.true_and]
    rw [testBit_pack]
    have hcov : e.toWrite.covers (e.off + b) = true := by
      show (decide (e.off ≤ e.off + b) && decide (e.off + b < e.off + e.w)) = true
      simp [hb]
    have hmem : (es.map Entry.toWrite)[i]? = some e.toWrite := by simp [hi]
    have hany' : (es.map Entry.toWrite).any (fun x => x.covers (e.off + b)) = true := by
      rw [List.any_eq_true]
      exact ⟨e.toWrite, List.mem_of_getElem? hmem, hcov⟩
    rw [if_pos hany']
    rw [writtenBit_at _ i e.toWrite (e.off + b) hmem hcov]
    · simp [Entry.toWrite, pattern_eq_lowBits]
    · intro j w' hj hw'
      rw [List.getElem?_map] at hw'
      cases hej : es[j]? with
      | none => simp [hej] at hw'
      | some e' =>
        simp only [hej, Option.map_some, Option.some.injEq] at hw'
        subst hw'
        have hd := hlater j e' hj hej
        show (decide (e'.off ≤ e.off + b) && decide (e.off + b < e'.off + e'.w)) = false
        rcases hd with hd | hd
        · have : ¬ e'.off ≤ e.off + b := by omega
          simp [this]
        · have : ¬ e.off + b < e'.off + e'.w := by omega
          simp [this]
  · have := pattern_lt e.w e.v
    have : pattern e.w e.v < 2 ^ b := Nat.lt_of_lt_of_le this (Nat.pow_le_pow_right (by omega) (by omega))
    simp [hb, Nat.testBit_lt_two_pow this]

/-! ## Assignment to a slice of a signal -/

theorem two_pow_sub_two_pow {start stop : Nat} (h : start ≤ stop) :
    2 ^ stop - 2 ^ start = fieldMask start (stop - start) := by
  rw [fieldMask, Nat.shiftLeft_eq, Nat.sub_mul, ← Nat.pow_add, Nat.one_mul]
  congr 2; omega

theorem assignBits_eq_assigned {raw len off w : Nat} (v : Int) (hraw : raw < 2 ^ len) (hb : off + w ≤ len) :
    assignBits raw len off (off + w) v = assigned len raw off w v := by
  have hraw' : ofBits len raw.testBit = raw := ofBits_testBit_of_lt hraw
  simp only [assignBits]
  by_cases hs : off ≥ len
  · rw [if_pos hs]
    have hw : w = 0 := by omega
    subst hw
    rw [assigned, ← hraw']
    apply ofBits_congr
    intro i hi
    have : ¬ (off ≤ i ∧ i < off + 0) := by omega
    rw [if_neg this, hraw']
  · rw [if_neg hs]
    have hmin : min (off + w) len = off + w := by omega
    rw [hmin, two_pow_sub_two_pow (by omega), show off + w - off = w by omega]
    apply Nat.eq_of_testBit_eq; intro i
    rw [assigned, testBit_ofBits, Nat.testBit_and, Nat.testBit_two_pow_sub_one]
    have := testBit_setField raw off w v i
    simp only [setField] at this
    rw [this]
    by_cases hi : i < len
    · simp [hi, pattern_eq_lowBits]
    · have : raw < 2 ^ i := Nat.lt_of_lt_of_le hraw (Nat.pow_le_pow_right (by omega) (by omega))
      simp [hi]

/-- bit-level reading of `Spec.assigned` -/
theorem testBit_assigned (size raw off w : Nat) (v : Int) (i : Nat) :
    (assigned size raw off w v).testBit i =
      (decide (i < size) && if off ≤ i ∧ i < off + w then (lowBits w v).testBit (i - off) else raw.testBit i) := by
  rw [assigned, testBit_ofBits]

/-! ## Placement -/

/-- widths of a member list -/
def widthsOf (l : List (Key × FieldShape × Nat)) : List Nat := l.map fun e => e.2.1.width

def Members.widths (ms : Members) : List Nat := widthsOf ms.toList

theorem structEnd_eq : ∀ (ms : Members) (off : Nat),
    ms.structEnd off = if ms.toList = [] then 0 else off + ms.widths.sum
  | .nil, _ => by simp [Members.structEnd, Members.toList]
  | .cons k sh o rest, off => by
    have ih := structEnd_eq rest (off + sh.width)
    simp only [Members.structEnd, Members.toList, Members.widths, widthsOf, List.map_cons, List.sum_cons] at ih ⊢
    rw [ih]
    split
    · rename_i h; simp [h]
    · simp only [reduceCtorEq, if_false]
      omega

theorem struct_size_eq (ms : Members) : (Layout.struct ms).size = Spec.structSize ms.widths := by
  simp only [Layout.size, structEnd_eq, Spec.structSize]
  split
  · rename_i h; simp [Members.widths, widthsOf, h]
  · omega

theorem unionSize_eq : ∀ (ms : Members), ms.unionSize = Spec.unionSize ms.widths
  | .nil => by simp [Members.unionSize, Spec.unionSize, Members.widths, widthsOf, Members.toList]
  | .cons k sh o rest => by
    have ih := unionSize_eq rest
    simp only [Members.unionSize, Spec.unionSize, Members.widths, widthsOf, Members.toList,
      List.map_cons, List.foldr_cons] at ih ⊢
    rw [ih]

theorem isLargest_unionSize (ws : List Nat) : Spec.IsLargest ws (Spec.unionSize ws) := by
  induction ws with
  | nil => exact ⟨by simp, Or.inr ⟨rfl, rfl⟩⟩
  | cons w ws ih =>
    simp only [Spec.unionSize, List.foldr_cons] at ih ⊢
    obtain ⟨h1, h2⟩ := ih
    refine ⟨?_, Or.inl ?_⟩
    · intro x hx
      rcases List.mem_cons.1 hx with rfl | hx
      · omega
      · have := h1 x hx; omega
    · by_cases hle : List.foldr max 0 ws ≤ w
      · rw [Nat.max_eq_left hle]; exact List.mem_cons_self
      · rw [Nat.max_eq_right (by omega)]
        rcases h2 with h2 | ⟨h2, h3⟩
        · exact List.mem_cons_of_mem _ h2
        · exfalso; subst h2; simp at hle

theorem structOffsets_cons (w : Nat) (ws : List Nat) :
    Spec.structOffsets (w :: ws) = 0 :: (Spec.structOffsets ws).map (· + w) := by
  simp only [Spec.structOffsets, List.length_cons, List.range_succ_eq_map, List.map_cons, List.take_zero,
    List.sum_nil, List.map_map]
  congr 1
  apply List.map_congr_left
  intro i _
  simp [Nat.add_comm]

theorem structFields_offsets (l : List (Key × FieldShape × Nat)) (off : Nat) :
    (structFields l off).map (fun kf => kf.2.offset) = (Spec.structOffsets (widthsOf l)).map (· + off) := by
  induction l generalizing off with
  | nil => simp [structFields, widthsOf, Spec.structOffsets]
  | cons a rest ih =>
    obtain ⟨k, sh, o⟩ := a
    simp only [structFields, List.map_cons, widthsOf] at ih ⊢
    rw [structOffsets_cons, ih]
    simp only [List.map_cons, List.map_map, Nat.zero_add]
    congr 1
    apply List.map_congr_left
    intro i _
    simp only [Function.comp]
    omega

theorem structFields_keys_shapes (l : List (Key × FieldShape × Nat)) (off : Nat) :
    (structFields l off).map (fun kf => (kf.1, kf.2.shape)) = l.map (fun e => (e.1, e.2.1)) := by
  induction l generalizing off with
  | nil => rfl
  | cons a rest ih =>
    obtain ⟨k, sh, o⟩ := a
    simp only [structFields, List.map_cons, ih]

theorem structFields_bounds (l : List (Key × FieldShape × Nat)) (off : Nat) (kf : Key × Field)
    (h : kf ∈ structFields l off) :
    off ≤ kf.2.offset ∧ kf.2.offset + kf.2.width ≤ off + (widthsOf l).sum := by
  induction l generalizing off with
  | nil => simp [structFields] at h
  | cons a rest ih =>
    obtain ⟨k, sh, o⟩ := a
    simp only [structFields, List.mem_cons] at h
    simp only [widthsOf, List.map_cons, List.sum_cons]
    rcases h with rfl | h
    · simp only [Field.width]; omega
    · have := ih (off + sh.width) h
      simp only [widthsOf] at this
      omega

theorem structFields_pairwise (l : List (Key × FieldShape × Nat)) (off : Nat) :
    (structFields l off).Pairwise (fun a b => a.2.offset + a.2.width ≤ b.2.offset) := by
  induction l generalizing off with
  | nil => simp [structFields]
  | cons a rest ih =>
    obtain ⟨k, sh, o⟩ := a
    simp only [structFields, List.pairwise_cons]
    refine ⟨?_, ih _⟩
    intro kf hkf
    have := structFields_bounds rest (off + sh.width) kf hkf
    simp only [Field.width]; omega

theorem arrayFields_eq (e : FieldShape) (n idx off : Nat) :
    arrayFields e n idx off =
      (List.range n).map fun i => (Key.idx (idx + i), (⟨e, off + i * e.width⟩ : Field)) := by
  induction n generalizing idx off with
  | zero => simp [arrayFields]
  | succ n ih =>
    simp only [arrayFields, List.range_succ_eq_map, List.map_cons, List.map_map, ih]
    congr 1
    · simp
    · apply List.map_congr_left
      intro i _
      simp only [Function.comp, Nat.succ_eq_add_one, Nat.add_mul, Nat.one_mul]
      have h1 : idx + 1 + i = idx + (i + 1) := by omega
      have h2 : off + e.width + i * e.width = off + (i * e.width + e.width) := by omega
      rw [h1, h2]

theorem lookup_arrayFields (e : FieldShape) (n idx off i : Nat) :
    lookup (.idx i) (arrayFields e n idx off) =
      if idx ≤ i ∧ i < idx + n then some ⟨e, off + (i - idx) * e.width⟩ else none := by
  induction n generalizing idx off with
  | zero =>
    simp only [arrayFields, lookup]
    rw [if_neg (by omega)]
  | succ n ih =>
    simp only [arrayFields, lookup]
    by_cases h : idx = i
    · subst h
      rw [if_pos rfl, if_pos (by omega)]
      simp
    · have hk : ¬ (Key.idx idx = Key.idx i) := by intro hk; injection hk; contradiction
      rw [if_neg hk, ih]
      by_cases h2 : idx + 1 ≤ i ∧ i < idx + 1 + n
      · rw [if_pos h2, if_pos (by omega)]
        have : i - idx = (i - (idx + 1)) + 1 := by omega
        rw [this, Nat.add_mul, Nat.one_mul]
        congr 2; omega
      · rw [if_neg h2, if_neg (by omega)]

/-- for arrays `__getitem__` (a multiplication) and `__iter__` (a running sum) agree -/
theorem array_get_eq_lookup (e : FieldShape) (n : Nat) (k : Key) :
    (Layout.array e n).get? k = lookup k (Layout.array e n).fields := by
  cases k with
  | name s =>
    simp only [Layout.get?, Layout.fields]
    -- no name key occurs in an array
    have : ∀ n idx off, lookup (.name s) (arrayFields e n idx off) = none := by
      intro n
      induction n with
      | zero => intros; rfl
      | succ n ih => intro idx off; simp [arrayFields, lookup, ih]
    rw [this]
  | idx i =>
    simp only [Layout.get?, Layout.fields, lookup_arrayFields]
    by_cases h : i < n
    · rw [if_pos h, if_pos (by omega)]; simp
    · rw [if_neg h, if_neg (by omega)]

theorem get?_eq_lookup (l : Layout) (k : Key) : l.get? k = lookup k l.fields := by
  cases l with
  | array e n => exact array_get_eq_lookup e n k
  | struct ms => simp [Layout.get?]
  | union ms => simp [Layout.get?]
  | flex sz fs => simp [Layout.get?]

theorem lookup_mem {k : Key} {f : Field} {l : List (Key × Field)} (h : lookup k l = some f) : (k, f) ∈ l := by
  induction l with
  | nil => simp [lookup] at h
  | cons a rest ih =>
    obtain ⟨k', f'⟩ := a
    simp only [lookup] at h
    by_cases hk : k' = k
    · rw [if_pos hk] at h
      simp only [Option.some.injEq] at h
      subst hk; subst h
      exact List.mem_cons_self
    · rw [if_neg hk] at h
      exact List.mem_cons_of_mem _ (ih h)

theorem get?_mem {l : Layout} {k : Key} {f : Field} (h : l.get? k = some f) : (k, f) ∈ l.fields := by
  rw [get?_eq_lookup] at h; exact lookup_mem h

/-- every field lies inside the layout -/
theorem fields_in_bounds (l : Layout) (hok : l.Ok) (kf : Key × Field) (h : kf ∈ l.fields) :
    kf.2.offset + kf.2.width ≤ l.size := by
  cases l with
  | struct ms =>
    rw [struct_size_eq]
    have := structFields_bounds ms.toList 0 kf h
    simp only [Spec.structSize, Members.widths]; omega
  | union ms =>
    simp only [Layout.fields, List.mem_map] at h
    obtain ⟨⟨k, sh, o⟩, hm, rfl⟩ := h
    simp only [Layout.size, unionSize_eq, Field.width, Nat.zero_add]
    have := (isLargest_unionSize ms.widths).1 sh.width
      (by simp only [Members.widths, widthsOf, List.mem_map]; exact ⟨_, hm, rfl⟩)
    exact this
  | array e n =>
    simp only [Layout.fields, arrayFields_eq, List.mem_map, List.mem_range] at h
    obtain ⟨i, hi, rfl⟩ := h
    simp only [Layout.size, Field.width, Nat.zero_add]
    calc i * e.width + e.width = (i + 1) * e.width := by rw [Nat.add_mul, Nat.one_mul]
      _ ≤ n * e.width := Nat.mul_le_mul_right _ hi
      _ = e.width * n := Nat.mul_comm _ _
  | flex sz fs =>
    simp only [Layout.fields, List.mem_map] at h
    obtain ⟨⟨k, sh, o⟩, hm, rfl⟩ := h
    exact hok _ hm

theorem get?_in_bounds {l : Layout} (hok : l.Ok) {k : Key} {f : Field} (h : l.get? k = some f) :
    f.offset + f.width ≤ l.size :=
  fields_in_bounds l hok (k, f) (get?_mem h)

/-! ## Deep well-formedness -/

theorem inBounds_spec : ∀ (ms : Members) (sz : Nat), ms.inBounds sz = true →
    ∀ e ∈ ms.toList, e.2.2 + e.2.1.width ≤ sz
  | .nil, _, _ => by simp [Members.toList]
  | .cons k sh off rest, sz, h => by
    simp only [Members.inBounds, Bool.and_eq_true, decide_eq_true_eq] at h
    intro e he
    simp only [Members.toList, List.mem_cons] at he
    rcases he with rfl | he
    · exact h.1
    · exact inBounds_spec rest sz h.2 e he

theorem deepOk_members : ∀ (ms : Members), ms.deepOk = true → ∀ e ∈ ms.toList, e.2.1.deepOk = true
  | .nil, _ => by simp [Members.toList]
  | .cons k sh off rest, h => by
    simp only [Members.deepOk, Bool.and_eq_true] at h
    intro e he
    simp only [Members.toList, List.mem_cons] at he
    rcases he with rfl | he
    · exact h.1
    · exact deepOk_members rest h.2 e he

theorem deepOk_ok (l : Layout) (h : l.deepOk = true) : l.Ok := by
  cases l with
  | flex sz fs =>
    simp only [Layout.deepOk, Bool.and_eq_true] at h
    exact inBounds_spec fs sz h.2
  | struct ms => trivial
  | union ms => trivial
  | array e n => trivial

theorem deepOk_field (l : Layout) (h : l.deepOk = true) (kf : Key × Field) (hm : kf ∈ l.fields) :
    kf.2.shape.deepOk = true := by
  cases l with
  | struct ms =>
    simp only [Layout.deepOk] at h
    have h1 : (kf.1, kf.2.shape) ∈ (structFields ms.toList 0).map (fun kf => (kf.1, kf.2.shape)) :=
      List.mem_map.2 ⟨kf, hm, rfl⟩
    rw [structFields_keys_shapes] at h1
    obtain ⟨e, he, heq⟩ := List.mem_map.1 h1
    have := deepOk_members ms h e he
    simp only [Prod.mk.injEq] at heq
    rw [← heq.2]; exact this
  | union ms =>
    simp only [Layout.deepOk] at h
    simp only [Layout.fields, List.mem_map] at hm
    obtain ⟨e, he, rfl⟩ := hm
    exact deepOk_members ms h e he
  | array e n =>
    simp only [Layout.deepOk] at h
    simp only [Layout.fields, arrayFields_eq, List.mem_map] at hm
    obtain ⟨i, _, rfl⟩ := hm
    exact h
  | flex sz fs =>
    simp only [Layout.deepOk, Bool.and_eq_true] at h
    simp only [Layout.fields, List.mem_map] at hm
    obtain ⟨e, he, rfl⟩ := hm
    exact deepOk_members fs h.1 e he

/-! ## Non-overlap -/

/-- two different keys never name overlapping fields -/
def Layout.NonOverlapping (l : Layout) : Prop :=
  ∀ k k' f f', k ≠ k' → l.get? k = some f → l.get? k' = some f' →
    Spec.Disjoint f.offset f.width f'.offset f'.width

theorem pairwise_mem {α : Type} {R : α → α → Prop} {l : List α} (h : l.Pairwise R) {a b : α}
    (ha : a ∈ l) (hb : b ∈ l) (hne : a ≠ b) : R a b ∨ R b a := by
  induction l with
  | nil => simp at ha
  | cons x rest ih =>
    rw [List.pairwise_cons] at h
    rcases List.mem_cons.1 ha with ha1 | ha1 <;> rcases List.mem_cons.1 hb with hb1 | hb1
    · exact absurd (ha1.trans hb1.symm) hne
    · rw [ha1]; exact Or.inl (h.1 _ hb1)
    · rw [hb1]; exact Or.inr (h.1 _ ha1)
    · exact ih h.2 ha1 hb1

theorem struct_nonoverlapping (ms : Members) : (Layout.struct ms).NonOverlapping := by
  intro k k' f f' hne hf hf'
  have h1 := get?_mem hf
  have h2 := get?_mem hf'
  have hp := structFields_pairwise ms.toList 0
  have : (k, f) ≠ (k', f') := by intro h; injection h with h _; exact hne h
  rcases pairwise_mem hp h1 h2 this with h | h
  · exact Or.inl h
  · exact Or.inr h

theorem array_nonoverlapping (e : FieldShape) (n : Nat) : (Layout.array e n).NonOverlapping := by
  intro k k' f f' hne hf hf'
  cases k with
  | name s => simp [Layout.get?] at hf
  | idx i =>
    cases k' with
    | name s => simp [Layout.get?] at hf'
    | idx j =>
      simp only [Layout.get?] at hf hf'
      split at hf <;> simp only [Option.some.injEq, reduceCtorEq] at hf
      split at hf' <;> simp only [Option.some.injEq, reduceCtorEq] at hf'
      subst hf; subst hf'
      simp only [Field.width, Spec.Disjoint]
      have hij : i ≠ j := fun h => hne (by rw [h])
      rcases Nat.lt_or_gt_of_ne hij with h | h
      · left
        calc i * e.width + e.width = (i + 1) * e.width := by rw [Nat.add_mul, Nat.one_mul]
          _ ≤ j * e.width := Nat.mul_le_mul_right _ h
      · right
        calc j * e.width + e.width = (j + 1) * e.width := by rw [Nat.add_mul, Nat.one_mul]
          _ ≤ i * e.width := Nat.mul_le_mul_right _ h

/-! ## `entriesOf` position by position -/

theorem entriesOf_spec : ∀ (l : Layout) (kvs : Inits) (es : List Entry), entriesOf l kvs = .ok es →
    es.length = kvs.toList.length ∧
    ∀ (i : Nat) (k : Key) (v : Init), kvs.toList[i]? = some (k, v) →
      ∃ (f : Field) (x : Int), l.get? k = some f ∧ valueOf f.shape v = .ok x ∧
        es[i]? = some (Entry.mk f.offset f.width x)
  | l, .nil, es, h => by
    simp only [entriesOf, Except.ok.injEq] at h
    subst h
    simp [Inits.toList]
  | l, .cons k0 v0 rest, es, h => by
    simp only [entriesOf] at h
    split at h
    · cases h
    · rename_i f hf
      split at h
      · cases h
      · rename_i x hx
        split at h
        · cases h
        · rename_i es' hes'
          simp only [Except.ok.injEq] at h
          subst h
          have ih := entriesOf_spec l rest es' hes'
          refine ⟨by simp [Inits.toList, ih.1], ?_⟩
          intro i k v hi
          cases i with
          | zero =>
            simp only [Inits.toList, List.getElem?_cons_zero, Option.some.injEq, Prod.mk.injEq] at hi
            obtain ⟨rfl, rfl⟩ := hi
            exact ⟨f, x, hf, hx, by simp⟩
          | succ i =>
            simp only [Inits.toList, List.getElem?_cons_succ] at hi
            obtain ⟨f', x', h1, h2, h3⟩ := ih.2 i k v hi
            exact ⟨f', x', h1, h2, by simpa using h3⟩

theorem entriesOf_inBounds {l : Layout} (hok : l.Ok) {kvs : Inits} {es : List Entry}
    (h : entriesOf l kvs = .ok es) : InBounds l.size es := by
  intro e he
  obtain ⟨i, hi, hie⟩ := List.getElem_of_mem he
  have hspec := entriesOf_spec l kvs es h
  have hi' : i < kvs.toList.length := by omega
  obtain ⟨f, x, hf, _, hes⟩ := hspec.2 i (kvs.toList[i]).1 (kvs.toList[i]).2 (by simp [hi'])
  have : es[i]? = some e := by simp [hi, hie]
  rw [this] at hes
  simp only [Option.some.injEq] at hes
  subst hes
  exact get?_in_bounds hok hf

/-! ## Enumerations and flags -/

theorem subset_iff_testBit (x m : Nat) : x &&& m = x ↔ ∀ i, x.testBit i = true → m.testBit i = true := by
  constructor
  · intro h i hi
    have := congrArg (fun y => y.testBit i) h
    simp only [Nat.testBit_and, hi, Bool.true_and] at this
    exact this
  · intro h
    apply Nat.eq_of_testBit_eq; intro i
    rw [Nat.testBit_and]
    cases hx : x.testBit i
    · rfl
    · simp [h i hx]

theorem testBit_invW (w a i : Nat) : (invW w a).testBit i = (decide (i < w) && !a.testBit i) := by
  simp only [invW, Nat.testBit_xor, Nat.testBit_two_pow_sub_one, Nat.testBit_mod_two_pow]
  cases decide (i < w) <;> cases a.testBit i <;> rfl

theorem foldl_or_lt (w : Nat) (ms : List Int) (h : ∀ m ∈ ms, m.toNat < 2 ^ w) (acc : Nat) (hacc : acc < 2 ^ w) :
    ms.foldl (fun acc m => acc ||| m.toNat) acc < 2 ^ w := by
  induction ms generalizing acc with
  | nil => exact hacc
  | cons m rest ih =>
    simp only [List.foldl_cons]
    exact ih (fun x hx => h x (List.mem_cons_of_mem _ hx)) _
      (Nat.or_lt_two_pow hacc (h m List.mem_cons_self))

theorem flagMask_lt (e : EnumTy) (w : Nat) (h : ∀ m ∈ e.members, m.toNat < 2 ^ w) : e.flagMask < 2 ^ w :=
  foldl_or_lt w e.members h 0 (Nat.two_pow_pos w)

theorem foldl_singles_subset (ms : List Int) (a b : Nat) (hab : ∀ i, a.testBit i = true → b.testBit i = true) :
    ∀ i, (ms.foldl (fun acc m => if m.toNat &&& (m.toNat - 1) = 0 then acc ||| m.toNat else acc) a).testBit i = true →
      (ms.foldl (fun acc m => acc ||| m.toNat) b).testBit i = true := by
  induction ms generalizing a b with
  | nil => exact hab
  | cons m rest ih =>
    simp only [List.foldl_cons]
    apply ih
    intro i hi
    split at hi
    · simp only [Nat.testBit_or, Bool.or_eq_true] at hi ⊢
      rcases hi with hi | hi
      · exact Or.inl (hab i hi)
      · exact Or.inr hi
    · simp only [Nat.testBit_or, Bool.or_eq_true]
      exact Or.inl (hab i hi)

/-- single-bit members are members: `_singles_mask_ ⊆ _flag_mask_` -/
theorem singles_subset_flagMask (e : EnumTy) (i : Nat) (h : e.singlesMask.testBit i = true) :
    e.flagMask.testBit i = true :=
  foldl_singles_subset e.members 0 0 (fun _ h => h) i h

/-- a value accepted by a well-formed enumeration class is representable in its shape -/
theorem valid_contains (e : EnumTy) (hwf : e.WF) {n : Int} (hv : e.valid n = true) : e.shape.contains n := by
  cases hfl : e.flag with
  | none =>
    simp only [EnumTy.valid, hfl, List.contains_iff_mem] at hv
    exact hwf.2.1 n hv
  | some b =>
    simp only [EnumTy.valid, hfl, Bool.and_eq_true, decide_eq_true_eq, beq_iff_eq] at hv
    have huns : e.shape.signed = false := hwf.2.2.1 (by simp [hfl])
    have hm : ∀ m ∈ e.members, m.toNat < 2 ^ e.shape.width := by
      intro m hm
      have := hwf.2.1 m hm
      simp only [Shape.contains, Shape.lo, Shape.hi, huns, Bool.false_eq_true, if_false] at this
      have h2 : ((m.toNat : Nat) : Int) < ((2 ^ e.shape.width : Nat) : Int) := by
        push_cast
        omega
      exact_mod_cast h2
    have hlt := flagMask_lt e _ hm
    have hle : n.toNat ≤ e.flagMask := by rw [← hv.2]; exact Nat.and_le_right
    simp only [Shape.contains, Shape.lo, Shape.hi, huns, Bool.false_eq_true, if_false]
    refine ⟨hv.1, ?_⟩
    have h2 : ((n.toNat : Nat) : Int) < ((2 ^ e.shape.width : Nat) : Int) := by
      exact_mod_cast (Nat.lt_of_le_of_lt hle hlt)
    push_cast at h2
    omega

end Amaranth.Data
