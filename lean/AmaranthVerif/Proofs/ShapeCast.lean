import AmaranthVerif.Model.ShapeCast
import AmaranthVerif.Spec.ShapeCast
import AmaranthVerif.Spec.Denote
import AmaranthVerif.Proofs.ShapeLemmas

/-! # Helper lemmas for C10 (bit counts, Python bit operators on masks, ranges, enum folds) -/

namespace Amaranth

theorem natpow_cast (k : Nat) : ((2 ^ k : Nat) : Int) = (2 : Int) ^ k := by
  simp

/-! ## `bit_length`, `ceil_log2`, `bits_for` -/

theorem bitLength_le_iff (n k : Nat) : bitLength n ≤ k ↔ n < 2 ^ k := by
  unfold bitLength
  by_cases h : n = 0
  · subst h; simp [Nat.two_pow_pos]
  · simp only [h, if_false]
    rw [← Nat.log2_lt h]; omega

theorem ceilLog2_le_iff (n k : Nat) : ceilLog2 n ≤ k ↔ n ≤ 2 ^ k := by
  unfold ceilLog2
  by_cases h : n = 0
  · subst h; simp
  · simp only [h, if_false]
    rw [bitLength_le_iff]; omega


theorem bitsFor_le_iff {n : Int} (hn : n ≠ 0) (rs : Bool) (k : Nat) :
    bitsFor n rs ≤ k ↔
      (Shape.mk k (decide (n < 0) || rs)).WF ∧ (Shape.mk k (decide (n < 0) || rs)).contains n := by
  have hp := two_pow_pos' k
  have hc := natpow_cast k
  unfold bitsFor
  by_cases hpos : n > 0
  · simp only [hpos, if_true]
    have hneg : decide (n < 0) = false := by simp; omega
    rw [hneg, Bool.false_or]
    cases rs with
    | false =>
      simp only [Shape.WF, Shape.contains_u, Bool.false_eq_true, if_false, Nat.add_zero, false_implies, true_and]
      rw [ceilLog2_le_iff]
      omega
    | true =>
      simp only [Shape.WF, Shape.contains_s, if_true, true_implies]
      constructor
      · intro h
        have hk : 0 < k := by omega
        have h' : ceilLog2 (n.toNat + 1) ≤ k - 1 := by omega
        rw [ceilLog2_le_iff] at h'
        have hc' := natpow_cast (k - 1)
        have := two_pow_pos' (k - 1)
        refine ⟨hk, ?_, ?_⟩ <;> omega
      · rintro ⟨hk, _, h2⟩
        have hc' := natpow_cast (k - 1)
        have : ceilLog2 (n.toNat + 1) ≤ k - 1 := by
          rw [ceilLog2_le_iff]; omega
        omega
  · simp only [hpos, if_false]
    have hneg : decide (n < 0) = true := by simp; omega
    rw [hneg, Bool.true_or]
    simp only [Shape.WF, Shape.contains_s, true_implies]
    constructor
    · intro h
      have hk : 0 < k := by omega
      have h' : ceilLog2 (-n).toNat ≤ k - 1 := by omega
      rw [ceilLog2_le_iff] at h'
      have hc' := natpow_cast (k - 1)
      have := two_pow_pos' (k - 1)
      refine ⟨hk, ?_, ?_⟩ <;> omega
    · rintro ⟨hk, h1, _⟩
      have hc' := natpow_cast (k - 1)
      have : ceilLog2 (-n).toNat ≤ k - 1 := by
        rw [ceilLog2_le_iff]; omega
      omega

/-! ## Python `&`, `|` against masks; `Const.__init__` -/


theorem negSucc_emod_two_pow (m w : Nat) :
    Int.negSucc m % (2 ^ w : Int) = ((2 ^ w - 1 - m % 2 ^ w : Nat) : Int) := by
  have hp : 0 < 2 ^ w := Nat.two_pow_pos w
  have hlt : m % 2 ^ w < 2 ^ w := Nat.mod_lt _ hp
  rw [Int.emod_negSucc, ← natpow_cast, Int.natAbs_natCast, Int.subNatNat_of_le (by omega)]
  congr 1; omega

/-- `v & ((1 << w) - 1)` -/
theorem pyAnd_mask (v : Int) (w : Nat) : pyAnd v (pyShl 1 w - 1) = v % (2 ^ w : Int) := by
  have hp : 0 < 2 ^ w := Nat.two_pow_pos w
  have e : pyShl 1 w - 1 = ((2 ^ w - 1 : Nat) : Int) := by
    unfold pyShl; rw [← natpow_cast]; omega
  rw [e]
  cases v with
  | ofNat m =>
    show ((m &&& (2 ^ w - 1) : Nat) : Int) = _
    rw [Nat.and_two_pow_sub_one_eq_mod, ← natpow_cast]; rfl
  | negSucc m =>
    show (((2 ^ w - 1) - ((2 ^ w - 1) &&& m) : Nat) : Int) = _
    rw [Nat.and_comm, Nat.and_two_pow_sub_one_eq_mod, negSucc_emod_two_pow]

/-- `v | -(1 << w)` -/
theorem pyOr_negpow (v : Int) (w : Nat) : pyOr v (-(pyShl 1 w)) = v % (2 ^ w : Int) - 2 ^ w := by
  have hp : 0 < 2 ^ w := Nat.two_pow_pos w
  have e : -(pyShl 1 w) = Int.negSucc (2 ^ w - 1) := by
    unfold pyShl; rw [Int.negSucc_eq, ← natpow_cast]; omega
  rw [e]
  cases v with
  | ofNat m =>
    show Int.negSucc ((2 ^ w - 1) - ((2 ^ w - 1) &&& m)) = _
    rw [Nat.and_comm, Nat.and_two_pow_sub_one_eq_mod, Int.negSucc_eq, ← natpow_cast]
    have hlt : m % 2 ^ w < 2 ^ w := Nat.mod_lt _ hp
    have : (Int.ofNat m) % ((2 ^ w : Nat) : Int) = ((m % 2 ^ w : Nat) : Int) := rfl
    rw [this]; omega
  | negSucc m =>
    show Int.negSucc (m &&& (2 ^ w - 1)) = _
    rw [Nat.and_two_pow_sub_one_eq_mod, negSucc_emod_two_pow, Int.negSucc_eq, ← natpow_cast]
    have hlt : m % 2 ^ w < 2 ^ w := Nat.mod_lt _ hp
    omega

theorem pyAnd_one (x : Int) : pyAnd x 1 = x % 2 := by
  have := pyAnd_mask x 1
  simpa [pyShl] using this


/-- bit `w-1` of `v` is set iff the low `w` bits of `v` are at least `2^(w-1)` -/
theorem signbit_test (v : Int) (P : Int) (hP : 0 < P) :
    (v / P) % 2 = if v % (2 * P) ≥ P then 1 else 0 := by
  have h0 : 0 ≤ v % (2 * P) := Int.emod_nonneg _ (by omega)
  have h1 : v % (2 * P) < 2 * P := Int.emod_lt_of_pos _ (by omega)
  have hv : v = v % (2 * P) + (2 * (v / (2 * P))) * P := by
    have := Int.mul_ediv_add_emod v (2 * P)
    rw [Int.mul_assoc, Int.mul_comm (v / (2 * P)) P, ← Int.mul_assoc]; omega
  generalize v % (2 * P) = r at *
  generalize v / (2 * P) = q at *
  rw [hv, Int.add_mul_ediv_right _ _ (by omega)]
  by_cases hr : r < P
  · rw [Int.ediv_eq_zero_of_lt h0 hr]
    have : ¬ (r ≥ P) := by omega
    simp only [this, if_false]; omega
  · have e : r = (r - P) + 1 * P := by omega
    have : (r - P) / P = 0 := Int.ediv_eq_zero_of_lt (by omega) (by omega)
    rw [e, Int.add_mul_ediv_right _ _ (by omega), this]
    have : r - P + 1 * P ≥ P := by omega
    simp only [this, if_true]; omega

/-- `Const.__init__`'s wrap is `norm` -/
theorem constNorm_eq_norm (v : Int) (s : Shape) (h : s.WF) : constNorm v s = norm s v := by
  obtain ⟨w, sg⟩ := s
  unfold constNorm
  cases sg with
  | false => simp only [Bool.false_and, Bool.false_eq_true, if_false]; rw [pyAnd_mask, norm_u]
  | true =>
    have hw : 0 < w := h rfl
    simp only [Bool.true_and, pyAnd_one, pyShr, pyAnd_mask, pyOr_negpow, norm_s]
    have e := two_pow_pred w hw
    have hp := two_pow_pos' (w - 1)
    rw [signbit_test v _ hp, ← e]
    by_cases hc : v % 2 ^ w ≥ 2 ^ (w - 1) <;> simp [hc]


open Spec

/-! ## `Const.cast` -/

theorem constNorm_u (v : Int) (w : Nat) : constNorm v ⟨w, false⟩ = v % (2 ^ w : Int) := by
  rw [constNorm_eq_norm _ _ (by intro h; cases h), norm_u]

/-- `lo | (hi << w)` is `lo + 2^w * hi` when `lo` fits in `w` bits -/
theorem pyOr_cat (a b : Int) (w : Nat) (ha0 : 0 ≤ a) (ha1 : a < 2 ^ w) (hb : 0 ≤ b) :
    pyOr (pyOr 0 (pyShl a 0)) (pyShl b w) = a + 2 ^ w * b := by
  obtain ⟨m, rfl⟩ := Int.eq_ofNat_of_zero_le ha0
  obtain ⟨n, rfl⟩ := Int.eq_ofNat_of_zero_le hb
  have h1 : pyShl (m : Int) 0 = (m : Int) := by simp [pyShl]
  have h2 : pyShl (n : Int) w = ((2 ^ w * n : Nat) : Int) := by
    simp [pyShl, Int.mul_comm]
  have hm : m < 2 ^ w := by
    have := natpow_cast w; omega
  rw [h1, h2]
  show (((0 ||| m) ||| (2 ^ w * n) : Nat) : Int) = _
  rw [Nat.zero_or, Nat.or_comm, ← Nat.two_pow_add_eq_or_of_lt hm]
  simp [Int.add_comm]

theorem const_cast_eval_aux (e : Expr) (h : e.isConstTree = true) :
    constCast e = some (denote [] [] e, shapeOf [] e) := by
  induction e with
  | const v s => rfl
  | slice a start stop ih =>
    simp only [Expr.isConstTree] at h
    simp only [constCast, ih h, constNorm_u, pyShr, denote, shapeOf]
  | cat lo hi ihl ihh =>
    simp only [Expr.isConstTree, Bool.and_eq_true] at h
    simp only [constCast, ihl h.1, ihh h.2, constNorm_u, denote, shapeOf, widthOf]
    generalize (shapeOf [] lo).width = wl
    generalize (shapeOf [] hi).width = wh
    generalize denote [] [] lo = x
    generalize denote [] [] hi = y
    have hl0 : 0 ≤ x % 2 ^ wl := Int.emod_nonneg _ (Int.ne_of_gt (two_pow_pos' wl))
    have hl1 : x % 2 ^ wl < 2 ^ wl := Int.emod_lt_of_pos _ (two_pow_pos' wl)
    have hh0 : 0 ≤ y % 2 ^ wh := Int.emod_nonneg _ (Int.ne_of_gt (two_pow_pos' wh))
    have hh1 : y % 2 ^ wh < 2 ^ wh := Int.emod_lt_of_pos _ (two_pow_pos' wh)
    rw [Nat.zero_add, pyOr_cat _ _ _ hl0 hl1 hh0]
    have hv0 : 0 ≤ x % 2 ^ wl + 2 ^ wl * (y % 2 ^ wh) := by
      have := Int.mul_nonneg (Int.le_of_lt (two_pow_pos' wl)) hh0; omega
    have hv1 : x % 2 ^ wl + 2 ^ wl * (y % 2 ^ wh) < 2 ^ (wl + wh) := by
      rw [two_pow_add']
      have : 2 ^ wl * (y % 2 ^ wh) ≤ 2 ^ wl * (2 ^ wh - 1) :=
        Int.mul_le_mul_of_nonneg_left (by omega) (Int.le_of_lt (two_pow_pos' wl))
      rw [Int.mul_sub, Int.mul_one] at this
      omega
    have hneg : decide (x % 2 ^ wl + 2 ^ wl * (y % 2 ^ wh) < 0) = false := by simp; omega
    simp only [constInt, hneg, Bool.false_and, Bool.false_eq_true, if_false, constNorm_u]
    rw [Int.emod_eq_of_lt hv0 hv1]
  | _ => simp [Expr.isConstTree] at h
/-! ## ranges -/

theorem rangeLenPos_nonpos {d k : Int} (h : d ≤ 0) : rangeLenPos d k = 0 := by
  simp [rangeLenPos, h]

theorem rangeLenPos_step {d k : Int} (hk : 0 < k) (hd : 0 < d) :
    rangeLenPos d k = rangeLenPos (d - k) k + 1 := by
  unfold rangeLenPos
  have h1 : ¬ d ≤ 0 := by omega
  simp only [h1, if_false]
  by_cases h2 : d - k ≤ 0
  · simp only [h2, if_true]
    rw [Int.ediv_eq_zero_of_lt (by omega) (by omega)]; rfl
  · simp only [h2, if_false]
    have e : d - k - 1 = (d - 1) + (-1) * k := by omega
    rw [e, Int.add_mul_ediv_right _ _ (by omega)]
    have : 1 ≤ (d - 1) / k := by
      rw [Int.le_ediv_iff_mul_le hk]; omega
    omega

theorem rangeLen_step_pos {a b k : Int} (hk : 0 < k) (h : a < b) :
    rangeLen a b k = rangeLen (a + k) b k + 1 := by
  unfold rangeLen
  simp only [hk, if_true]
  rw [rangeLenPos_step hk (by omega)]
  congr 2; omega

theorem rangeLen_step_neg {a b k : Int} (hk : k < 0) (h : b < a) :
    rangeLen a b k = rangeLen (a + k) b k + 1 := by
  unfold rangeLen
  have : ¬ k > 0 := by omega
  simp only [this, hk, if_true, if_false]
  rw [rangeLenPos_step (by omega) (by omega)]
  congr 2; omega

theorem rangeLen_zero_of_not {a b k : Int} (h : ¬ ((0 < k ∧ a < b) ∨ (k < 0 ∧ b < a))) :
    rangeLen a b k = 0 := by
  unfold rangeLen
  by_cases h1 : k > 0
  · simp only [h1, if_true]; exact rangeLenPos_nonpos (by omega)
  · by_cases h2 : k < 0
    · simp only [h1, h2, if_true, if_false]; exact rangeLenPos_nonpos (by omega)
    · simp [h1, h2]

theorem rangeElemsAux_eq (b k : Int) : ∀ (fuel : Nat) (a : Int), rangeLen a b k ≤ fuel →
    rangeElemsAux fuel a b k = (List.range (rangeLen a b k)).map (rangeItem a k) := by
  intro fuel
  induction fuel with
  | zero => intro a h; have : rangeLen a b k = 0 := by omega
            simp [rangeElemsAux, this]
  | succ f ih =>
    intro a h
    unfold rangeElemsAux
    by_cases hc : (0 < k ∧ a < b) ∨ (k < 0 ∧ b < a)
    · simp only [hc, if_true]
      have hs : rangeLen a b k = rangeLen (a + k) b k + 1 := by
        rcases hc with ⟨h1, h2⟩ | ⟨h1, h2⟩
        · exact rangeLen_step_pos h1 h2
        · exact rangeLen_step_neg h1 h2
      rw [hs, List.range_succ_eq_map, List.map_cons, List.map_map, ih (a + k) (by omega)]
      congr 1
      · simp [rangeItem]
      · apply List.map_congr_left
        intro i _
        simp only [rangeItem, Function.comp, Nat.succ_eq_add_one]
        rw [Int.natCast_add, Int.add_mul]; omega
    · simp only [hc, if_false]
      rw [rangeLen_zero_of_not hc]; rfl

theorem rangeLenPos_le {d k : Int} (hk : 0 < k) : (rangeLenPos d k : Int) ≤ max d 0 := by
  unfold rangeLenPos
  by_cases h : d ≤ 0
  · simp only [h, if_true]; omega
  · simp only [h, if_false]
    have : (d - 1) / k ≤ d - 1 := Int.ediv_le_self _ (by omega)
    have : 0 ≤ (d - 1) / k := Int.ediv_nonneg (by omega) (by omega)
    omega

theorem rangeLen_le_natAbs (a b k : Int) : rangeLen a b k ≤ (b - a).natAbs := by
  unfold rangeLen
  by_cases h1 : k > 0
  · simp only [h1, if_true]
    have := @rangeLenPos_le (b - a) k h1; omega
  · by_cases h2 : k < 0
    · simp only [h1, h2, if_true, if_false]
      have := @rangeLenPos_le (a - b) (-k) (by omega); omega
    · simp [h1, h2]

/-- the loop reading of a range and the `len` / `[i]` reading agree -/
theorem rangeElems_eq (a b k : Int) :
    rangeElems a b k = (List.range (rangeLen a b k)).map (rangeItem a k) :=
  rangeElemsAux_eq b k _ a (rangeLen_le_natAbs a b k)

theorem mem_rangeElems {a b k x : Int} :
    x ∈ rangeElems a b k ↔ ∃ i, i < rangeLen a b k ∧ x = rangeItem a k i := by
  rw [rangeElems_eq]
  simp only [List.mem_map, List.mem_range]
  constructor
  · rintro ⟨i, hi, rfl⟩; exact ⟨i, hi, rfl⟩
  · rintro ⟨i, hi, rfl⟩; exact ⟨i, hi, rfl⟩


theorem lt_rangeLenPos_iff {d k : Int} (hk : 0 < k) (i : Nat) :
    i < rangeLenPos d k ↔ (i : Int) * k < d := by
  unfold rangeLenPos
  have hik : 0 ≤ (i : Int) * k := Int.mul_nonneg (by omega) (by omega)
  by_cases h : d ≤ 0
  · simp only [h, if_true]; omega
  · simp only [h, if_false]
    have h0 : 0 ≤ (d - 1) / k := Int.ediv_nonneg (by omega) (by omega)
    have : (i : Int) ≤ (d - 1) / k ↔ (i : Int) * k ≤ d - 1 := Int.le_ediv_iff_mul_le hk
    omega

theorem lt_rangeLen_iff {a b k : Int} (i : Nat) :
    i < rangeLen a b k ↔ ((0 < k ∧ rangeItem a k i < b) ∨ (k < 0 ∧ b < rangeItem a k i)) := by
  unfold rangeLen rangeItem
  by_cases h1 : k > 0
  · rw [if_pos h1, lt_rangeLenPos_iff h1]
    constructor
    · intro h; exact Or.inl ⟨h1, by omega⟩
    · rintro (⟨_, h⟩ | ⟨h, _⟩) <;> omega
  · by_cases h2 : k < 0
    · rw [if_neg h1, if_pos h2, lt_rangeLenPos_iff (by omega), Int.mul_neg]
      constructor
      · intro h; exact Or.inr ⟨h2, by omega⟩
      · rintro (⟨h, _⟩ | ⟨_, h⟩) <;> omega
    · rw [if_neg h1, if_neg h2]; omega

/-- the mathematical reading of `range(a, b, k)` -/
theorem mem_rangeElems_iff {a b k x : Int} :
    x ∈ rangeElems a b k ↔
      ∃ i : Nat, x = a + (i : Int) * k ∧ ((0 < k ∧ x < b) ∨ (k < 0 ∧ b < x)) := by
  rw [mem_rangeElems]
  constructor
  · rintro ⟨i, hi, rfl⟩
    exact ⟨i, rfl, (lt_rangeLen_iff i).1 hi⟩
  · rintro ⟨i, rfl, h⟩
    exact ⟨i, (lt_rangeLen_iff i).2 h, rfl⟩

theorem rangeContains_iff {a b k v : Int} :
    rangeContains a b k v = true ↔ v ∈ rangeElems a b k := by
  rw [mem_rangeElems_iff]
  unfold rangeContains
  by_cases h1 : k > 0
  · rw [if_pos h1]; simp only [Bool.and_eq_true, decide_eq_true_eq]
    constructor
    · rintro ⟨⟨h2, h3⟩, h4⟩
      have hq : 0 ≤ (v - a) / k := Int.ediv_nonneg (by omega) (by omega)
      obtain ⟨i, hi⟩ := Int.eq_ofNat_of_zero_le hq
      have := Int.mul_ediv_add_emod (v - a) k
      rw [h4, hi, Int.mul_comm] at this
      exact ⟨i, by omega, Or.inl ⟨h1, h3⟩⟩
    · rintro ⟨i, rfl, h⟩
      have hik : 0 ≤ (i : Int) * k := Int.mul_nonneg (by omega) (by omega)
      refine ⟨⟨by omega, by omega⟩, ?_⟩
      have : a + (i : Int) * k - a = (i : Int) * k := by omega
      rw [this, Int.mul_emod_left]
  · by_cases h2 : k < 0
    · rw [if_neg h1, if_pos h2]; simp only [Bool.and_eq_true, decide_eq_true_eq]
      constructor
      · rintro ⟨⟨h3, h4⟩, h5⟩
        have hq : 0 ≤ (a - v) / (-k) := Int.ediv_nonneg (by omega) (by omega)
        obtain ⟨i, hi⟩ := Int.eq_ofNat_of_zero_le hq
        have := Int.mul_ediv_add_emod (a - v) (-k)
        rw [h5, hi, Int.mul_comm, Int.mul_neg] at this
        exact ⟨i, by omega, Or.inr ⟨h2, h3⟩⟩
      · rintro ⟨i, rfl, h⟩
        have hik : 0 ≤ (i : Int) * (-k) := Int.mul_nonneg (by omega) (by omega)
        simp only [Int.mul_neg] at hik
        refine ⟨⟨by omega, by omega⟩, ?_⟩
        have : a - (a + (i : Int) * k) = (i : Int) * (-k) := by rw [Int.mul_neg]; omega
        rw [this, Int.mul_emod_left]
    · rw [if_neg h1, if_neg h2]
      constructor
      · intro h; cases h
      · rintro ⟨i, _, h⟩; omega

/-- every element lies between the first and the last one -/
theorem rangeItem_between {a k : Int} {n i : Nat} (hi : i < n) :
    (0 < k → a ≤ rangeItem a k i ∧ rangeItem a k i ≤ rangeItem a k (n - 1)) ∧
    (k < 0 → rangeItem a k (n - 1) ≤ rangeItem a k i ∧ rangeItem a k i ≤ a) := by
  unfold rangeItem
  have hle : (i : Int) ≤ ((n - 1 : Nat) : Int) := by omega
  constructor
  · intro hk
    have h1 : 0 ≤ (i : Int) * k := Int.mul_nonneg (by omega) (by omega)
    have h2 := Int.mul_le_mul_of_nonneg_right hle (Int.le_of_lt hk)
    omega
  · intro hk
    have h1 : 0 ≤ (i : Int) * (-k) := Int.mul_nonneg (by omega) (by omega)
    have h2 := Int.mul_le_mul_of_nonneg_right hle (show 0 ≤ -k by omega)
    simp only [Int.mul_neg] at h1 h2
    omega



/-! ## shapes as intervals -/

theorem contains_convex {s : Shape} {x y z : Int} (hx : s.contains x) (hy : s.contains y)
    (h1 : x ≤ z) (h2 : z ≤ y) : s.contains z :=
  ⟨Int.le_trans hx.1 h1, Int.lt_of_le_of_lt h2 hy.2⟩

theorem contains_zero (s : Shape) : s.contains 0 := by
  obtain ⟨w, sg⟩ := s
  have := two_pow_pos' w
  have := two_pow_pos' (w - 1)
  cases sg
  · rw [Shape.contains_u]; omega
  · rw [Shape.contains_s]; omega

/-- a constructible shape that holds a non-zero value is at least one bit wide -/
theorem width_pos_of_contains {s : Shape} (h : s.WF) {x : Int} (hx : s.contains x) (h0 : x ≠ 0) :
    1 ≤ s.width := by
  obtain ⟨w, sg⟩ := s
  cases sg
  · rw [Shape.contains_u] at hx
    cases w with
    | zero => simp at hx; omega
    | succ n => simp
  · exact h rfl

theorem bitsFor_pos_of_sign (n : Int) : 1 ≤ bitsFor n true := by
  unfold bitsFor; split <;> simp

theorem bitsFor_zero (rs : Bool) : bitsFor 0 rs = 1 := by
  simp [bitsFor, ceilLog2]

/-- `bits_for(n, sg)` bits are enough (when `sg` is set for negative `n`) -/
theorem bitsFor_contains {n : Int} {sg : Bool} (hs : n < 0 → sg = true) {w : Nat}
    (h : bitsFor n sg ≤ w) : (Shape.mk w sg).contains n := by
  by_cases h0 : n = 0
  · subst h0; exact contains_zero _
  · have := ((bitsFor_le_iff h0 sg w).1 h).2
    have e : (decide (n < 0) || sg) = sg := by
      by_cases hn : n < 0
      · simp [hn, hs hn]
      · simp [hn]
    rwa [e] at this

/-- … and no constructible shape of that signedness holding `n ≠ 0` is narrower -/
theorem bitsFor_min {n : Int} (h0 : n ≠ 0) {t : Shape} (ht : t.WF) (hc : t.contains n) :
    bitsFor n t.signed ≤ t.width := by
  obtain ⟨w, sg⟩ := t
  have hs : n < 0 → sg = true := by
    intro hn
    cases sg
    · rw [Shape.contains_u] at hc; omega
    · rfl
  have e : (decide (n < 0) || sg) = sg := by
    by_cases hn : n < 0
    · simp [hn, hs hn]
    · simp [hn]
  rw [bitsFor_le_iff h0 sg w, e]
  exact ⟨ht, hc⟩

/-! ## `Shape.cast(range)` -/

/-- `castRange` unfolded for a non-empty range -/
theorem castRange_of_pos {a b k : Int} (hn : rangeLen a b k ≠ 0) :
    castRange a b k =
      let first := a
      let last := rangeItem a k (rangeLen a b k - 1)
      let sg := decide (first < 0) || decide (last < 0)
      ⟨if first = 0 ∧ last = 0 then 0 else max (bitsFor first sg) (bitsFor last sg), sg⟩ := by
  unfold castRange
  rw [if_neg hn]
  simp only [rangeItem, Int.natCast_zero, Int.zero_mul, Int.add_zero]
  rfl

theorem castRange_WF (a b k : Int) : (castRange a b k).WF := by
  by_cases hn : rangeLen a b k = 0
  · simp [castRange, hn, Shape.WF]
  · rw [castRange_of_pos hn]
    intro hs
    simp only at hs ⊢
    rw [hs]
    have := bitsFor_pos_of_sign a
    have h0 : ¬ (a = 0 ∧ rangeItem a k (rangeLen a b k - 1) = 0) := by
      simp only [Bool.or_eq_true, decide_eq_true_eq] at hs; omega
    simp only [h0, if_false]
    omega

theorem castRange_contains_ends {a b k : Int} (hn : rangeLen a b k ≠ 0) :
    (castRange a b k).contains a ∧ (castRange a b k).contains (rangeItem a k (rangeLen a b k - 1)) := by
  rw [castRange_of_pos hn]
  simp only
  generalize rangeItem a k (rangeLen a b k - 1) = l
  by_cases h0 : a = 0 ∧ l = 0
  · rw [h0.1, h0.2]; exact ⟨contains_zero _, contains_zero _⟩
  · simp only [h0, if_false]
    constructor
    · apply bitsFor_contains
      · intro h; simp [h]
      · omega
    · apply bitsFor_contains
      · intro h; simp [h]
      · omega

theorem first_mem {a b k : Int} (hn : rangeLen a b k ≠ 0) : a ∈ rangeElems a b k :=
  mem_rangeElems.2 ⟨0, by omega, by simp [rangeItem]⟩

theorem last_mem {a b k : Int} (hn : rangeLen a b k ≠ 0) :
    rangeItem a k (rangeLen a b k - 1) ∈ rangeElems a b k :=
  mem_rangeElems.2 ⟨rangeLen a b k - 1, by omega, rfl⟩

theorem rangeLen_k_ne {a b k : Int} (hn : rangeLen a b k ≠ 0) : 0 < k ∨ k < 0 := by
  unfold rangeLen at hn
  by_cases h1 : k > 0
  · exact Or.inl h1
  · by_cases h2 : k < 0
    · exact Or.inr h2
    · simp [h1, h2] at hn

theorem castRange_holds (a b k : Int) : Holds (castRange a b k) (rangeElems a b k) := by
  intro x hx
  obtain ⟨i, hi, rfl⟩ := mem_rangeElems.1 hx
  have hn : rangeLen a b k ≠ 0 := by omega
  obtain ⟨hf, hl⟩ := castRange_contains_ends hn
  obtain ⟨hp, hm⟩ := @rangeItem_between a k _ _ hi
  rcases rangeLen_k_ne hn with hk | hk
  · exact contains_convex hf hl (hp hk).1 (hp hk).2
  · exact contains_convex hl hf (hm hk).1 (hm hk).2

theorem castRange_signed_iff (a b k : Int) :
    (castRange a b k).signed = true ↔ ∃ x ∈ rangeElems a b k, x < 0 := by
  by_cases hn : rangeLen a b k = 0
  · have : rangeElems a b k = [] := by rw [rangeElems_eq, hn]; rfl
    simp [castRange, hn, this]
  · rw [castRange_of_pos hn]
    simp only [Bool.or_eq_true, decide_eq_true_eq]
    constructor
    · rintro (h | h)
      · exact ⟨a, first_mem hn, h⟩
      · exact ⟨_, last_mem hn, h⟩
    · rintro ⟨x, hx, hneg⟩
      obtain ⟨i, hi, rfl⟩ := mem_rangeElems.1 hx
      obtain ⟨hp, hm⟩ := @rangeItem_between a k _ _ hi
      rcases rangeLen_k_ne hn with hk | hk
      · left; have := (hp hk).1; omega
      · right; have := (hm hk).1; omega

theorem castRange_least (a b k : Int) (t : Shape) (ht : t.WF)
    (hs : t.signed = (castRange a b k).signed) (hh : Holds t (rangeElems a b k)) :
    (castRange a b k).width ≤ t.width := by
  by_cases hn : rangeLen a b k = 0
  · simp [castRange, hn]
  · have hf := hh _ (first_mem hn)
    have hl := hh _ (last_mem hn)
    rw [castRange_of_pos hn] at hs ⊢
    simp only at hs ⊢
    generalize rangeItem a k (rangeLen a b k - 1) = l at *
    by_cases h0 : a = 0 ∧ l = 0
    · simp [h0]
    · simp only [h0, if_false]
      rw [← hs]
      by_cases ha : a = 0
      · have hl0 : l ≠ 0 := by omega
        have := bitsFor_min hl0 ht hl
        have := width_pos_of_contains ht hl hl0
        rw [ha, bitsFor_zero]; omega
      · by_cases hl0 : l = 0
        · have := bitsFor_min ha ht hf
          have := width_pos_of_contains ht hf ha
          rw [hl0, bitsFor_zero]; omega
        · have := bitsFor_min ha ht hf
          have := bitsFor_min hl0 ht hl
          omega

theorem castRange_narrowest (a b k : Int) : Narrowest (castRange a b k) (rangeElems a b k) :=
  ⟨castRange_WF a b k, castRange_holds a b k, castRange_signed_iff a b k,
   fun t ht hs hh => castRange_least a b k t ht hs hh⟩

theorem Spec.Narrowest.unique {s t : Shape} {xs : List Int} (hs : Narrowest s xs) (ht : Narrowest t xs) :
    s = t := by
  have e : s.signed = t.signed := by
    have a1 := hs.signed_iff; have a2 := ht.signed_iff
    cases h1 : s.signed <;> cases h2 : t.signed
    · rfl
    · have := a1.2 (a2.1 h2); rw [h1] at this; cases this
    · have := a2.2 (a1.1 h1); rw [h2] at this; cases this
    · rfl
  have h1 := hs.least t ht.wf e.symm ht.holds
  have h2 := ht.least s hs.wf e hs.holds
  obtain ⟨w, sg⟩ := s
  obtain ⟨w', sg'⟩ := t
  simp only at e h1 h2
  rw [e, show w = w' by omega]

theorem castRange_empty_or_zero {a b k : Int}
    (h : rangeElems a b k = [] ∨ rangeElems a b k = [0]) : castRange a b k = ⟨0, false⟩ := by
  rw [rangeElems_eq] at h
  rcases h with h | h
  · have : rangeLen a b k = 0 := by
      cases hn : rangeLen a b k with
      | zero => rfl
      | succ n => rw [hn, List.range_succ_eq_map] at h; simp at h
    simp [castRange, this]
  · have hn : rangeLen a b k = 1 := by
      have := congrArg List.length h
      simpa using this
    rw [hn] at h
    have ha : a = 0 := by simpa [rangeItem] using h
    subst ha
    simp [castRange, hn, rangeItem]

/-! ## `_cast_plain_enum` -/

theorem castEnumStep_eq_unify (a m : Shape) : castEnumStep a m = Shape.unify a m := by
  obtain ⟨wa, sa⟩ := a
  obtain ⟨wm, sm⟩ := m
  cases sa <;> cases sm <;> simp [castEnumStep, Shape.unify]

/-- every value of `a` is a value of `s`, stated on widths -/
def Shape.fits (a s : Shape) : Prop :=
  (a.signed = true → s.signed = true) ∧
    (if s.signed && !a.signed then a.width + 1 else a.width) ≤ s.width

theorem fits_trans {a b c : Shape} (h1 : a.fits b) (h2 : b.fits c) : a.fits c := by
  obtain ⟨wa, sa⟩ := a
  obtain ⟨wb, sb⟩ := b
  obtain ⟨wc, sc⟩ := c
  unfold Shape.fits at *
  cases sa <;> cases sb <;> cases sc <;> simp at * <;> omega

theorem fits_refl (a : Shape) : a.fits a := by
  obtain ⟨wa, sa⟩ := a
  cases sa <;> simp [Shape.fits]

theorem unify_fits_left (a b : Shape) : a.fits (Shape.unify a b) := by
  obtain ⟨wa, sa⟩ := a
  obtain ⟨wb, sb⟩ := b
  cases sa <;> cases sb <;> simp [Shape.fits, Shape.unify] <;> omega

theorem unify_fits_right (a b : Shape) : b.fits (Shape.unify a b) := by
  obtain ⟨wa, sa⟩ := a
  obtain ⟨wb, sb⟩ := b
  cases sa <;> cases sb <;> simp [Shape.fits, Shape.unify] <;> omega

theorem unify_least {a b s : Shape} (h1 : a.fits s) (h2 : b.fits s) : (Shape.unify a b).fits s := by
  obtain ⟨wa, sa⟩ := a
  obtain ⟨wb, sb⟩ := b
  obtain ⟨ws, ss⟩ := s
  unfold Shape.fits at *
  cases sa <;> cases sb <;> cases ss <;> simp [Shape.unify] at * <;> omega

theorem unify_WF' {a b : Shape} (ha : a.WF) (hb : b.WF) : (Shape.unify a b).WF := by
  obtain ⟨wa, sa⟩ := a
  obtain ⟨wb, sb⟩ := b
  unfold Shape.WF at *
  cases sa <;> cases sb <;> simp [Shape.unify] at * <;> omega

theorem unify_signed (a b : Shape) : (Shape.unify a b).signed = (a.signed || b.signed) := by
  obtain ⟨wa, sa⟩ := a
  obtain ⟨wb, sb⟩ := b
  cases sa <;> cases sb <;> simp [Shape.unify]

theorem foldl_unify_acc (ms : List Shape) : ∀ acc : Shape, acc.fits (ms.foldl Shape.unify acc) := by
  induction ms with
  | nil => intro acc; exact fits_refl acc
  | cons m ms ih => intro acc; exact fits_trans (unify_fits_left acc m) (ih _)

theorem foldl_unify_mem (ms : List Shape) :
    ∀ acc : Shape, ∀ m ∈ ms, m.fits (ms.foldl Shape.unify acc) := by
  induction ms with
  | nil => intro acc m hm; cases hm
  | cons m0 ms ih =>
    intro acc m hm
    rcases List.mem_cons.1 hm with rfl | h
    · exact fits_trans (unify_fits_right acc m) (foldl_unify_acc ms _)
    · exact ih _ m h

theorem foldl_unify_least (ms : List Shape) (s : Shape) :
    ∀ acc : Shape, acc.fits s → (∀ m ∈ ms, m.fits s) → (ms.foldl Shape.unify acc).fits s := by
  induction ms with
  | nil => intro acc h _; exact h
  | cons m0 ms ih =>
    intro acc h hm
    exact ih _ (unify_least h (hm m0 (List.mem_cons_self ..))) (fun m h' => hm m (List.mem_cons_of_mem _ h'))

theorem foldl_unify_signed (ms : List Shape) :
    ∀ acc : Shape, (ms.foldl Shape.unify acc).signed = true ↔ acc.signed = true ∨ ∃ m ∈ ms, m.signed = true := by
  induction ms with
  | nil => intro acc; simp
  | cons m0 ms ih =>
    intro acc
    rw [List.foldl_cons, ih, unify_signed]
    simp only [Bool.or_eq_true, List.mem_cons, exists_eq_or_imp, or_assoc]

theorem foldl_unify_WF (ms : List Shape) :
    ∀ acc : Shape, acc.WF → (∀ m ∈ ms, m.WF) → (ms.foldl Shape.unify acc).WF := by
  induction ms with
  | nil => intro acc h _; exact h
  | cons m0 ms ih =>
    intro acc h hm
    exact ih _ (unify_WF' h (hm m0 (List.mem_cons_self ..))) (fun m h' => hm m (List.mem_cons_of_mem _ h'))

theorem castEnumShapes_eq (ms : List Shape) : castEnumShapes ms = ms.foldl Shape.unify ⟨0, false⟩ := by
  unfold castEnumShapes
  congr 1
  funext a m
  exact castEnumStep_eq_unify a m

theorem zero_fits {s : Shape} (h : s.WF) : (Shape.mk 0 false).fits s := by
  obtain ⟨w, sg⟩ := s
  cases sg
  · simp [Shape.fits]
  · have : 0 < w := h rfl
    simp [Shape.fits]; omega

theorem constShape_WF (v : Int) : (constShape v).WF := by
  intro h
  simp only [constShape, decide_eq_true_eq] at h ⊢
  unfold bitsFor
  have : ¬ v > 0 := by omega
  simp [this]

theorem bitsFor_neg_flag {v : Int} (h : v < 0) (r : Bool) : bitsFor v r = bitsFor v false := by
  unfold bitsFor
  have : ¬ v > 0 := by omega
  simp [this]

theorem bitsFor_pos_flag {v : Int} (h : 0 < v) : bitsFor v true = bitsFor v false + 1 := by
  unfold bitsFor
  simp [h]

theorem one_lt_two_pow {w : Nat} : (1 : Int) < 2 ^ w ↔ 1 ≤ w := by
  cases w with
  | zero => simp
  | succ n => have := two_pow_pos' n; rw [two_pow_succ']; omega

/-- a member counts with the shape it has as a constant: for `v ≠ 0` that is "the shape holds `v`",
and for `v = 0` (one unsigned bit) it is "the shape holds 1" -/
theorem constShape_fits_iff {s : Shape} (hs : s.WF) (v : Int) :
    (constShape v).fits s ↔ s.contains v ∧ (v = 0 → s.contains 1) := by
  obtain ⟨w, sg⟩ := s
  by_cases h0 : v = 0
  · subst h0
    have hz := contains_zero ⟨w, sg⟩
    simp only [constShape, bitsFor_zero, Shape.fits, hz, true_and, true_implies]
    cases sg
    · rw [Shape.contains_u, one_lt_two_pow]; simp
    · have hw : 0 < w := hs rfl
      rw [Shape.contains_s, one_lt_two_pow]
      have := two_pow_pos' (w - 1)
      simp; omega
  · simp only [h0, false_implies, and_true]
    by_cases hneg : v < 0
    · simp only [constShape, Shape.fits, hneg, decide_true, true_implies, Bool.not_true, Bool.and_false,
        Bool.false_eq_true, if_false]
      constructor
      · rintro ⟨rfl, h⟩
        exact bitsFor_contains (fun _ => rfl) (by rw [bitsFor_neg_flag hneg]; exact h)
      · intro hc
        have hsg : sg = true := by
          cases sg
          · rw [Shape.contains_u] at hc; omega
          · rfl
        subst hsg
        have := bitsFor_min h0 hs hc
        rw [bitsFor_neg_flag hneg] at this
        exact ⟨rfl, this⟩
    · have hpos : 0 < v := by omega
      simp only [constShape, Shape.fits, hneg, decide_false, Bool.false_eq_true, false_implies, true_and,
        Bool.not_false, Bool.and_true]
      cases sg
      · simp only [Bool.false_eq_true, if_false]
        constructor
        · intro h; exact bitsFor_contains (by omega) h
        · intro hc; exact bitsFor_min h0 hs hc
      · simp only [if_true]
        rw [← bitsFor_pos_flag hpos]
        constructor
        · intro h; exact bitsFor_contains (by omega) h
        · intro hc; exact bitsFor_min h0 hs hc

theorem holds_footprint_iff {s : Shape} (hs : s.WF) (vs : List Int) :
    Holds s (enumFootprint vs) ↔ ∀ v ∈ vs, (constShape v).fits s := by
  unfold Holds enumFootprint
  constructor
  · intro h v hv
    rw [constShape_fits_iff hs]
    refine ⟨h v (List.mem_append_left _ hv), ?_⟩
    rintro rfl
    apply h
    simp [hv]
  · intro h x hx
    rcases List.mem_append.1 hx with hx | hx
    · exact ((constShape_fits_iff hs x).1 (h x hx)).1
    · by_cases h0 : (0 : Int) ∈ vs
      · simp only [h0, if_true, List.mem_singleton] at hx
        subst hx
        exact ((constShape_fits_iff hs 0).1 (h 0 h0)).2 rfl
      · simp [h0] at hx

theorem castEnum_eq (vs : List Int) :
    castEnum vs = (vs.map constShape).foldl Shape.unify ⟨0, false⟩ := castEnumShapes_eq _

theorem castEnum_WF (vs : List Int) : (castEnum vs).WF := by
  rw [castEnum_eq]
  apply foldl_unify_WF
  · intro h; cases h
  · intro m hm
    obtain ⟨v, _, rfl⟩ := List.mem_map.1 hm
    exact constShape_WF v

theorem castEnum_signed_iff (vs : List Int) :
    (castEnum vs).signed = true ↔ ∃ v ∈ vs, v < 0 := by
  rw [castEnum_eq, foldl_unify_signed]
  constructor
  · rintro (h | ⟨m, hm, h⟩)
    · cases h
    · obtain ⟨v, hv, rfl⟩ := List.mem_map.1 hm
      exact ⟨v, hv, by simpa [constShape] using h⟩
  · rintro ⟨v, hv, h⟩
    exact Or.inr ⟨constShape v, List.mem_map.2 ⟨v, hv, rfl⟩, by simp [constShape, h]⟩

theorem castEnum_narrowest (vs : List Int) : Narrowest (castEnum vs) (enumFootprint vs) := by
  have hwf := castEnum_WF vs
  refine ⟨hwf, ?_, ?_, ?_⟩
  · rw [holds_footprint_iff hwf]
    intro v hv
    rw [castEnum_eq]
    exact foldl_unify_mem _ _ _ (List.mem_map.2 ⟨v, hv, rfl⟩)
  · rw [castEnum_signed_iff]
    unfold enumFootprint
    constructor
    · rintro ⟨v, hv, h⟩; exact ⟨v, List.mem_append_left _ hv, h⟩
    · rintro ⟨x, hx, h⟩
      rcases List.mem_append.1 hx with hx | hx
      · exact ⟨x, hx, h⟩
      · split at hx
        · simp at hx; omega
        · cases hx
  · intro t ht hsg hh
    rw [holds_footprint_iff ht] at hh
    have : (castEnum vs).fits t := by
      rw [castEnum_eq]
      apply foldl_unify_least _ _ _ (zero_fits ht)
      intro m hm
      obtain ⟨v, hv, rfl⟩ := List.mem_map.1 hm
      exact hh v hv
    have h2 := this.2
    rw [hsg] at h2
    cases h : (castEnum vs).signed <;> simp [h] at h2 <;> exact h2


/-! ## the executable Spec functions meet their Prop-level meaning -/

theorem searchWidth_spec (sg : Bool) (xs : List Int) :
    ∀ (fuel w0 W : Nat), w0 ≤ W → W ≤ w0 + fuel → Holds ⟨W, sg⟩ xs →
      Holds ⟨searchWidth sg xs fuel w0, sg⟩ xs ∧ w0 ≤ searchWidth sg xs fuel w0 ∧
      ∀ w, w0 ≤ w → w < searchWidth sg xs fuel w0 → ¬ Holds ⟨w, sg⟩ xs := by
  intro fuel
  induction fuel with
  | zero =>
    intro w0 W h1 h2 hW
    have : W = w0 := by omega
    subst this
    exact ⟨hW, Nat.le_refl _, fun w a b => by simp only [searchWidth] at b; omega⟩
  | succ f ih =>
    intro w0 W h1 h2 hW
    unfold searchWidth
    by_cases hc : xs.all (fun x => decide ((Shape.mk w0 sg).contains x)) = true
    · simp only [hc, if_true]
      refine ⟨?_, Nat.le_refl _, fun w a b => by omega⟩
      intro x hx
      have := List.all_eq_true.1 hc x hx
      simpa using this
    · rw [if_neg hc]
      have hne : W ≠ w0 := by
        rintro rfl
        apply hc
        apply List.all_eq_true.2
        intro x hx
        simpa using hW x hx
      obtain ⟨a, b, c⟩ := ih (w0 + 1) W (by omega) (by omega) hW
      refine ⟨a, by omega, ?_⟩
      intro w hw1 hw2
      by_cases hw : w = w0
      · subst hw
        intro hh
        apply hc
        apply List.all_eq_true.2
        intro x hx
        simpa using hh x hx
      · exact c w (by omega) hw2

theorem natAbs_lt_two_pow (x : Int) : (x.natAbs : Int) < 2 ^ x.natAbs := by
  have := @Nat.lt_two_pow_self x.natAbs
  have := natpow_cast x.natAbs
  omega

theorem foldl_max_ge (xs : List Int) : ∀ (acc : Nat),
    acc ≤ xs.foldl (fun acc x => max acc (x.natAbs + 2)) acc ∧
    ∀ x ∈ xs, x.natAbs + 2 ≤ xs.foldl (fun acc x => max acc (x.natAbs + 2)) acc := by
  induction xs with
  | nil => intro acc; simp
  | cons y ys ih =>
    intro acc
    obtain ⟨h1, h2⟩ := ih (max acc (y.natAbs + 2))
    refine ⟨by simp only [List.foldl_cons]; omega, ?_⟩
    intro x hx
    rcases List.mem_cons.1 hx with rfl | hx
    · simp only [List.foldl_cons]; omega
    · exact h2 x hx

theorem contains_of_big {x : Int} {W : Nat} (h : x.natAbs + 2 ≤ W) (sg : Bool) (hs : x < 0 → sg = true) :
    (Shape.mk W sg).contains x := by
  have h1 := natAbs_lt_two_pow x
  have h2 : (2 : Int) ^ x.natAbs ≤ 2 ^ (W - 1) := two_pow_mono (by omega)
  have h3 : (2 : Int) ^ (W - 1) ≤ 2 ^ W := two_pow_mono (by omega)
  cases sg
  · rw [Shape.contains_u]
    have : ¬ x < 0 := fun h => by cases hs h
    omega
  · rw [Shape.contains_s]; omega

/-- the executable search of the Spec returns a narrowest shape -/
theorem narrowest_spec (xs : List Int) : Narrowest (narrowest xs) xs := by
  unfold narrowest
  simp only
  generalize hsg : xs.any (· < 0) = sg
  generalize hB : xs.foldl (fun acc x => max acc (x.natAbs + 2)) 2 = B
  have hany : sg = true ↔ ∃ x ∈ xs, x < 0 := by
    rw [← hsg]; simp
  obtain ⟨hB1, hB2⟩ := foldl_max_ge xs 2
  rw [hB] at hB1 hB2
  have hW : Holds ⟨B, sg⟩ xs := by
    intro x hx
    apply contains_of_big (hB2 x hx)
    intro hn; exact hany.2 ⟨x, hx, hn⟩
  obtain ⟨a, b, c⟩ := searchWidth_spec sg xs B (if sg = true then 1 else 0) B
    (by split <;> omega) (by omega) hW
  refine ⟨?_, a, hany, ?_⟩
  · intro hs
    simp only at hs
    subst hs
    simp only [if_true] at b
    exact b
  · intro t ht hts hh
    obtain ⟨w, s'⟩ := t
    simp only at hts ⊢
    subst hts
    apply Nat.le_of_not_lt
    intro hlt
    refine c w ?_ hlt hh
    split
    · next h => exact ht h
    · omega

theorem hi_eq_lo_add {s : Shape} (h : s.WF) : s.hi = s.lo + 2 ^ s.width := by
  obtain ⟨w, sg⟩ := s
  cases sg
  · simp [Shape.hi, Shape.lo]
  · have := two_pow_pred w (h rfl)
    simp only [Shape.hi, Shape.lo, if_true]; omega

theorem constOf_spec {s : Shape} (h : s.WF) (v : Int) : IsConstOf s v (constOf s v) := by
  unfold IsConstOf constOf Shape.contains
  rw [hi_eq_lo_add h]
  have hp := two_pow_pos' s.width
  have h0 := Int.emod_nonneg (v - s.lo) (Int.ne_of_gt hp)
  have h1 := Int.emod_lt_of_pos (v - s.lo) hp
  refine ⟨⟨by omega, by omega⟩, ?_⟩
  have := Int.mul_ediv_add_emod (v - s.lo) (2 ^ s.width)
  have e : s.lo + (v - s.lo) % 2 ^ s.width - v = 2 ^ s.width * (-((v - s.lo) / 2 ^ s.width)) := by
    rw [Int.mul_neg]; omega
  rw [e, Int.mul_emod_right]

theorem isConstOf_unique {s : Shape} (h : s.WF) {v r r' : Int} (h1 : IsConstOf s v r) (h2 : IsConstOf s v r') :
    r = r' := by
  have e1 : r % 2 ^ s.width = v % 2 ^ s.width := Int.emod_eq_emod_iff_emod_sub_eq_zero.2 h1.2
  have e2 : r' % 2 ^ s.width = v % 2 ^ s.width := Int.emod_eq_emod_iff_emod_sub_eq_zero.2 h2.2
  rw [← norm_of_contains s h h1.1, ← norm_of_contains s h h2.1]
  exact norm_congr s (e1.trans e2.symm)

theorem constNorm_isConstOf {s : Shape} (h : s.WF) (v : Int) : IsConstOf s v (constNorm v s) := by
  rw [constNorm_eq_norm v s h]
  exact ⟨norm_contains s h v, Int.emod_eq_emod_iff_emod_sub_eq_zero.1 (norm_emod s v)⟩

theorem constNorm_of_contains {s : Shape} (h : s.WF) {v : Int} (hc : s.contains v) : constNorm v s = v := by
  rw [constNorm_eq_norm v s h, norm_of_contains s h hc]

theorem constShape_contains (v : Int) : (constShape v).contains v := by
  unfold constShape
  apply bitsFor_contains (by intro h; simp [h])
  by_cases h : v < 0
  · rw [bitsFor_neg_flag h]; exact Nat.le_refl _
  · simp [h]

theorem constAuto_eq (v : Int) : constAuto v = (v, constShape v) := by
  unfold constAuto
  rw [constNorm_of_contains (constShape_WF v) (constShape_contains v)]



/-! ## initial values -/

def ShapeArg.WF : ShapeArg → Prop
  | .shape s => s.WF
  | .range _ _ _ => True

theorem ShapeArg.cast_WF {sh : ShapeArg} (h : sh.WF) : sh.cast.WF := by
  cases sh with
  | shape s => exact h
  | range a b k => exact castRange_WF a b k

theorem initWarn_none_iff {v : Int} (h0 : v ≠ 0) (h1 : v ≠ -1) {s : Shape} (hs : s.WF) :
    initWarn (.int v) (constShape v) s = .none ↔ s.contains v := by
  have happ : initWarnApplies (.int v) = true := by
    simp [initWarnApplies, h0, h1]
  have hf := constShape_fits_iff hs v
  simp only [h0, false_implies, and_true] at hf
  rw [← hf]
  unfold initWarn Shape.fits
  rw [happ]
  obtain ⟨w, sg⟩ := s
  generalize (constShape v).width = iw
  generalize (constShape v).signed = isg
  cases sg <;> cases isg <;> simp <;> omega

theorem initValue_int (v : Int) (sh : ShapeArg) :
    initValue (.int v) sh =
      if initOutOfRange sh (.int v) then .syntaxError
      else .ok (constNorm v sh.cast) (initWarn (.int v) (constShape v) sh.cast) := by
  simp [initValue, initConst, constAuto_eq]

theorem memInit_spec (elems : List InitArg) (sh : ShapeArg) (depth : Nat) :
    (depth < elems.length → memInit elems sh depth = none) ∧
    (elems.length ≤ depth → ∃ rows, memInit elems sh depth = some rows ∧ rows.length = depth ∧
      (∀ i (h : i < elems.length), rows[i]? = some (initValue elems[i] sh)) ∧
      (∀ i, elems.length ≤ i → i < depth → rows[i]? = some (.ok 0 .none))) := by
  unfold memInit
  constructor
  · intro h; simp [h]
  · intro h
    have : ¬ elems.length > depth := by omega
    simp only [this, if_false]
    refine ⟨_, rfl, by simp; omega, ?_, ?_⟩
    · intro i hi
      rw [List.getElem?_append_left (by simpa using hi)]
      simp [hi]
    · intro i h1 h2
      rw [List.getElem?_append_right (by simpa using h1)]
      simp only [List.length_map, List.getElem?_replicate]
      have : i - elems.length < depth - elems.length := by omega
      simp [this]

end Amaranth
