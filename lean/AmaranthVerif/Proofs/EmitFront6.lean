import AmaranthVerif.Proofs.EmitFront5
import AmaranthVerif.Proofs.EmitBackend4

/-!
# `emit_rhs`: `SwitchValue` (helper lemmas for `C04.emit_expr_correct`), part 6 — chains of cases and patterns
-/

namespace Amaranth.Rtlil
open Amaranth

/-! ## chains of cases -/

/-- what the simulator model computes for a chain of cases on a test value `t` -/
def chainVal (ctx : Amaranth.Ctx) (env : Amaranth.Env) (t : Int) : List (List Pat × Expr) → Int
  | [] => 0
  | (pats, v) :: rest =>
    if matchesAny pats t then norm (shapeOf ctx v) (evalRtl ctx env v) else chainVal ctx env t rest

def chainShape (ctx : Amaranth.Ctx) : List (List Pat × Expr) → Shape
  | [] => Shape.u 0
  | (_, v) :: rest => Shape.unify (shapeOf ctx v) (chainShape ctx rest)

theorem isSwTail_cases {e : Expr} (h : e.isSwTail = true) :
    (∃ t p a b, e = .ite t p a b) ∨ e = .const 0 ⟨0, false⟩ := by
  cases e with
  | ite t p a b => exact Or.inl ⟨t, p, a, b, rfl⟩
  | const v s =>
    right
    unfold Expr.isSwTail at h
    split at h
    · rename_i heq; cases heq
    · rename_i heq; exact heq
    · cases h
  | _ => simp [Expr.isSwTail] at h

theorem wf_ite {ctx : Amaranth.Ctx} {t : Expr} {p : List Pat} {a b : Expr} (h : (Expr.ite t p a b).wf ctx = true) :
    t.wf ctx = true ∧ a.wf ctx = true ∧ b.wf ctx = true ∧ b.isSwTail = true ∧
      p.all (fun q => q.length == widthOf ctx t) = true := by
  simp only [Expr.wf, Bool.and_eq_true] at h
  exact ⟨h.1.1.1.1, h.1.1.1.2, h.1.1.2, h.1.2, h.2⟩

theorem shapeOf_tail (ctx : Amaranth.Ctx) : ∀ e : Expr, e.isSwTail = true → e.wf ctx = true →
    shapeOf ctx e = chainShape ctx (chainOf e) := by
  intro e
  induction e with
  | ite t p a b _ _ ihb =>
    intro _ hwf
    obtain ⟨_, _, hb, htl, _⟩ := wf_ite hwf
    show Shape.unify (shapeOf ctx a) (shapeOf ctx b) = Shape.unify (shapeOf ctx a) (chainShape ctx (chainOf b))
    rw [ihb htl hb]
  | const v s =>
    intro h _
    rcases isSwTail_cases h with ⟨_, _, _, _, e⟩ | e
    · cases e
    · cases e; rfl
  | _ => intro h; cases h

theorem evalRtl_tail (ctx : Amaranth.Ctx) (env : Amaranth.Env) (test : Expr) : ∀ e : Expr, e.isSwTail = true →
    e.wf ctx = true → e.sameTest test = true →
    evalRtl ctx env e = chainVal ctx env (mask (widthOf ctx test) (evalRtl ctx env test)) (chainOf e) := by
  intro e
  induction e with
  | ite t p a b _ _ ihb =>
    intro _ hwf hst
    obtain ⟨_, _, hb, htl, _⟩ := wf_ite hwf
    unfold Expr.sameTest at hst
    simp only [Bool.and_eq_true, decide_eq_true_eq] at hst
    obtain ⟨rfl, hst'⟩ := hst
    show (if matchesAny p (mask (widthOf ctx t) (evalRtl ctx env t)) then norm (shapeOf ctx a) (evalRtl ctx env a)
        else evalRtl ctx env b) = _
    rw [ihb htl hb hst']
    rfl
  | const v s =>
    intro h _ _
    rcases isSwTail_cases h with ⟨_, _, _, _, e⟩ | e
    · cases e
    · cases e; rfl
  | _ => intro h; cases h

theorem emitX_chain (ctx : Amaranth.Ctx) : ∀ e : Expr,
    (emitX ctx e).2 = (chainOf e).map (fun pe => (pe.1, emitE ctx pe.2)) := by
  intro e
  induction e with
  | ite t p a b _ _ ihb =>
    show (p, (emitX ctx a).1) :: (emitX ctx b).2 = (p, emitE ctx a) :: (chainOf b).map _
    rw [ihb]; rfl
  | _ => rfl

/-- the pattern lists of a chain all have the width of the test -/
def ChainPats (tw : Nat) (L : List (List Pat × Expr)) : Prop := ∀ pe ∈ L, ∀ q ∈ pe.1, q.length = tw

theorem chainPats_tail (ctx : Amaranth.Ctx) (test : Expr) : ∀ e : Expr, e.wf ctx = true → e.sameTest test = true →
    ChainPats (widthOf ctx test) (chainOf e) := by
  intro e
  induction e with
  | ite t p a b _ _ ihb =>
    intro hwf hst
    obtain ⟨_, _, hb, _, hp⟩ := wf_ite hwf
    unfold Expr.sameTest at hst
    simp only [Bool.and_eq_true, decide_eq_true_eq] at hst
    obtain ⟨rfl, hst'⟩ := hst
    intro pe hpe q hq
    simp only [chainOf, List.mem_cons] at hpe
    rcases hpe with rfl | hpe
    · have := List.all_eq_true.mp hp q hq
      simpa using this
    · exact ihb hb hst' pe hpe q hq
  | _ => intro _ _ pe hpe; simp [chainOf] at hpe

/-! ## patterns: the evaluator's `case` matching is the simulator model's -/

theorem bit_beq_zero (n : Nat) : (n % 2 == 0) = !(n % 2 == 1) := by
  have : n % 2 = 0 ∨ n % 2 = 1 := by omega
  rcases this with h | h <;> simp [h]

theorem ibit_nat (T i : Nat) : ibit (T : Int) i = (T / 2 ^ i % 2 == 1) := by
  rw [ibit_ofNat, Nat.testBit_eq_decide_div_mod_eq]
  by_cases h : T / 2 ^ i % 2 = 1 <;> simp [h]

theorem zipIdx_all (T : Nat) : ∀ (l : List PatBit) (k : Nat),
    ((l.map patBit).zipIdx k).all (fun (b, i) => match b with
        | .b0 => (T / 2 ^ i) % 2 == 0
        | .b1 => (T / 2 ^ i) % 2 == 1
        | _ => true)
      = (List.range l.length).all (fun i => match l.getD i .any with
        | .any => true
        | .one => ibit (T : Int) (k + i)
        | .zero => !ibit (T : Int) (k + i))
  | [], k => rfl
  | a :: l, k => by
    rw [List.map_cons, List.zipIdx_cons, List.all_cons, zipIdx_all T l (k + 1), List.length_cons, List.range_succ_eq_map,
      List.all_cons, List.all_map]
    congr 1
    · cases a <;> simp [patBit, ibit_nat, bit_beq_zero]
    · congr 1
      funext i
      simp only [Function.comp, Nat.succ_eq_add_one, List.getD_cons_succ]
      rw [show k + 1 + i = k + (i + 1) by omega]

theorem patMatches_spec (p : Pat) (T : Nat) : patMatches (p.map patBit) T = p.matchesSpec (T : Int) := by
  have h := zipIdx_all T p.reverse 0
  simp only [List.map_reverse, List.length_reverse, Nat.zero_add] at h
  unfold patMatches Pat.matchesSpec
  refine Eq.trans ?_ (Eq.trans h ?_)
  · congr 1
  · congr 1

theorem matchesSpec_dontCare (tw : Nat) (v : Int) : (Pat.dontCare tw).matchesSpec v = true := by
  unfold Pat.matchesSpec Pat.dontCare
  rw [List.all_eq_true]
  intro i _
  have : (List.replicate tw PatBit.any).reverse.getD i .any = .any := by
    rw [List.reverse_replicate, List.getD_eq_getElem?_getD, List.getElem?_replicate]
    split <;> rfl
  rw [this]

theorem caseHit_eq (tw T : Nat) (pats : List Pat) (hlen : ∀ q ∈ pats, q.length = tw) (hT : T < 2 ^ tw) :
    caseHit tw T pats = matchesAny pats (T : Int) := by
  have hp : pats.all (fun q => q.length == tw) = true := by
    rw [List.all_eq_true]; intro q hq; simpa using hlen q hq
  have hm : mask tw (T : Int) = T := mask_of_range (by positivity) (by exact_mod_cast hT)
  have h1 := matchesAny_eq pats tw hp (T : Int) (T : Int) rfl
  rw [hm] at h1
  rw [h1]
  unfold caseHit
  have hany : pats.any (fun p => patMatches (p.map patBit) T) = pats.any (fun p => p.matchesSpec (T : Int)) := by
    congr 1; funext p; exact patMatches_spec p T
  rw [hany]
  by_cases hd : pats = [Pat.dontCare tw]
  · subst hd
    simp [matchesSpec_dontCare]
  · simp only [hd, decide_false, Bool.false_or]
    cases pats with
    | nil => rfl
    | cons a b => rfl

/-! ## the two patterns of the `Mux` form -/

theorem foldl_replicate (g : PatBit → Nat) (b : PatBit) : ∀ (w acc : Nat),
    (List.replicate w b).foldl (fun acc x => 2 * acc + g x) acc = acc * 2 ^ w + g b * (2 ^ w - 1)
  | 0, acc => by simp
  | w + 1, acc => by
    rw [List.replicate_succ, List.foldl_cons, foldl_replicate g b w]
    have := Nat.two_pow_pos w
    rw [Nat.pow_succ]
    have h1 : g b * (2 ^ w * 2 - 1) = g b * (2 ^ w - 1) + g b * 2 ^ w := by
      rw [← Nat.mul_add]; congr 1; omega
    rw [h1, Nat.add_mul]
    ring

theorem matchesAny_zeros (tw T : Nat) (hT : T < 2 ^ tw) : matchesAny [Pat.zeros tw] (T : Int) = decide (T = 0) := by
  have hv : (Pat.zeros tw).valueNat = 0 := by
    unfold Pat.valueNat Pat.zeros
    rw [foldl_replicate (fun b => if b = .one then 1 else 0)]; simp
  have hmk : (Pat.zeros tw).maskNat = 2 ^ tw - 1 := by
    unfold Pat.maskNat Pat.zeros
    rw [foldl_replicate (fun b => if b = .any then 0 else 1)]; simp
  simp only [matchesAny, List.any_cons, List.any_nil, Bool.or_false, hv, hmk]
  have : pyAnd ((2 ^ tw - 1 : Nat) : Int) (T : Int) = ((T : Nat) : Int) := by
    show (((2 ^ tw - 1) &&& T : Nat) : Int) = _
    rw [Nat.and_comm, Nat.and_two_pow_sub_one_eq_mod, Nat.mod_eq_of_lt hT]
  rw [this]
  by_cases h : T = 0
  · subst h; rfl
  · have : ¬ (0 : Int) = (T : Int) := by intro e; apply h; exact_mod_cast e.symm
    simp [h, this]

theorem matchesAny_dontCare (tw : Nat) (T : Nat) : matchesAny [Pat.dontCare tw] (T : Int) = true := by
  have hv : (Pat.dontCare tw).valueNat = 0 := by
    unfold Pat.valueNat Pat.dontCare
    rw [foldl_replicate (fun b => if b = .one then 1 else 0)]; simp
  have hmk : (Pat.dontCare tw).maskNat = 0 := by
    unfold Pat.maskNat Pat.dontCare
    rw [foldl_replicate (fun b => if b = .any then 0 else 1)]; simp
  simp only [matchesAny, List.any_cons, List.any_nil, Bool.or_false, hv, hmk]
  have : pyAnd ((0 : Nat) : Int) (T : Int) = ((0 : Nat) : Int) := by
    show ((0 &&& T : Nat) : Int) = _
    rw [Nat.zero_and]
  rw [this]
  rfl

end Amaranth.Rtlil
