import AmaranthVerif.Proofs.EngineAppended

/-!
# Two owner lists that differ on a set of indices

The generalisation of `Mid` / `SameOff` from one index to the indices satisfying a predicate `P`
(used with `P q := q = p ∨ q = p + 1`: the reset-only process and the synchronous process of one
body against an inert placeholder and the user process).
-/

namespace Amaranth.Engine
open Amaranth

structure MidP (P : Nat → Prop) (a b : EState) : Prop where
  curr : b.curr = a.curr
  next : b.next = a.next
  timers : b.timers = a.timers
  now : b.now = a.now
  deltas : b.deltas = a.deltas
  obs : b.obs = a.obs
  len : b.locals.length = a.locals.length
  off : ∀ q, ¬ P q → b.locals[q]? = a.locals[q]?

structure SameOffP (P : Nat → Prop) (psA psB : List ProcDef) : Prop where
  len : psB.length = psA.length
  off : ∀ q, ¬ P q → psB[q]? = psA[q]?

section
variable {P : Nat → Prop} {psA psB : List ProcDef} (hps : SameOffP P psA psB)
include hps

theorem trigPhase_midP {a b : EState} (h : MidP P a b) : MidP P (trigPhase psA a) (trigPhase psB b) := by
  refine ⟨h.curr, h.next, h.timers, h.now, h.deltas, h.obs, ?_, ?_⟩
  · simp only [trigPhase, List.length_zipWith, hps.len, h.len]
  · intro q hq
    simp only [trigPhase, List.getElem?_zipWith, hps.off q hq, h.off q hq, h.curr]

theorem effectOf_offP {a b : EState} (h : MidP P a b) (q : Nat) (hq : ¬ P q) :
    effectOf psB b q = effectOf psA a q := by
  unfold effectOf
  rw [hps.off q hq, h.off q hq, h.curr]

theorem commitSlot_midP {a b : EState} (h : MidP P a b) (i : Nat) :
    MidP P (commitSlot psA a i) (commitSlot psB b i) := by
  unfold commitSlot
  simp only [h.curr, h.next]
  split
  · exact h
  · refine ⟨rfl, rfl, h.timers, h.now, h.deltas, h.obs, ?_, ?_⟩
    · simp only [List.length_zipWith, hps.len, h.len]
    · intro q hq
      simp only [List.getElem?_zipWith, hps.off q hq, h.off q hq]

theorem anyChange_midP {a b : EState} (h : MidP P a b) (order : List Nat) : anyChange order b = anyChange order a := by
  unfold anyChange
  rw [h.curr, h.next]

theorem advanceTime_midP {a b : EState} (h : MidP P a b) :
    MidP P (advanceTime psA a).1 (advanceTime psB b).1 ∧
    (∀ p lA lB, a.locals[p]? = some lA → b.locals[p]? = some lB →
      (advanceTime psA a).1.locals[p]? = some (if (scanNearest (entriesFrom 0 a.timers)).2.contains p ∧
          (scanNearest (entriesFrom 0 a.timers)).1.isSome then (psA.getD p default).fire lA else lA) ∧
      (advanceTime psB b).1.locals[p]? = some (if (scanNearest (entriesFrom 0 a.timers)).2.contains p ∧
          (scanNearest (entriesFrom 0 a.timers)).1.isSome then (psB.getD p default).fire lB else lB)) := by
  unfold advanceTime
  rw [h.timers]
  cases hs : scanNearest (entriesFrom 0 a.timers) with
  | mk r ws =>
    cases r with
    | none =>
      refine ⟨h, fun p lA lB hA hB => ?_⟩
      simp [hA, hB]
    | some d =>
      refine ⟨⟨h.curr, h.next, ?_, rfl, h.deltas, h.obs, ?_, ?_⟩, fun p lA lB hA hB => ?_⟩
      · simp only [h.timers]
      · have e : ∀ {α β : Type} (f : Nat → α → β) (k : Nat) (l : List α), (mapIdxFrom f k l).length = l.length := by
          intro α β f k l
          induction l generalizing k with
          | nil => rfl
          | cons x xs ih => simp [mapIdxFrom, ih]
        simp only [e, h.len]
      · intro q hq
        simp only [getElem?_mapIdxFrom, Nat.zero_add, h.off q hq]
        have : psB.getD q default = psA.getD q default := by
          rw [List.getD_eq_getElem?_getD, List.getD_eq_getElem?_getD, hps.off q hq]
        rw [this]
      · simp only [getElem?_mapIdxFrom, Nat.zero_add, hA, hB, Option.map_some, Option.isSome_some, and_true]

end

theorem applyEffect_midP {P : Nat → Prop} {a b : EState} (h : MidP P a b) (q : Nat) (eff : Option Effect) :
    MidP P (applyEffect a q eff) (applyEffect b q eff) := by
  cases eff with
  | none => exact h
  | some e =>
    refine ⟨h.curr, ?_, ?_, h.now, h.deltas, h.obs, ?_, ?_⟩
    · simp only [applyEffect, h.next]
    · simp only [applyEffect, h.timers, h.now]
    · simp only [applyEffect, List.length_set, h.len]
    · intro r hr
      simp only [applyEffect, List.getElem?_set, h.len, h.off r hr]

/-- the effects of the owners outside `P`, applied on both sides -/
theorem others_foldP (ctx : Ctx) (out : Nat) (P : Nat → Prop) (effA effB : Nat → Option Effect)
    (hsame : ∀ q, ¬ P q → effB q = effA q)
    (hsafe : ∀ q, ¬ P q → ∀ eff, effA q = some eff → (∀ u ∈ eff.updates, u.slot ≠ out) ∧
      (∀ u ∈ eff.updates, ∀ x, (ctx.shape u.slot).contains x → (ctx.shape u.slot).contains (applyUpdate u x))) :
    ∀ (qs : List Nat), (∀ q ∈ qs, ¬ P q) → ∀ (za zb : EState), MidP P za zb → EnvN ctx za.next →
      MidP P (qs.foldl (fun z q => applyEffect z q (effA q)) za) (qs.foldl (fun z q => applyEffect z q (effB q)) zb) ∧
      EnvN ctx (qs.foldl (fun z q => applyEffect z q (effA q)) za).next ∧
      (qs.foldl (fun z q => applyEffect z q (effA q)) za).next.val out = za.next.val out ∧
      (∀ p, P p → (qs.foldl (fun z q => applyEffect z q (effA q)) za).locals[p]? = za.locals[p]?) ∧
      (∀ p, P p → (qs.foldl (fun z q => applyEffect z q (effB q)) zb).locals[p]? = zb.locals[p]?) ∧
      (qs.foldl (fun z q => applyEffect z q (effA q)) za).curr = za.curr := by
  intro qs
  induction qs with
  | nil => intro _ za zb hm hn; exact ⟨hm, hn, rfl, fun _ _ => rfl, fun _ _ => rfl, rfl⟩
  | cons q rest ih =>
    intro hp za zb hm hn
    have hq : ¬ P q := hp q (List.mem_cons_self ..)
    have hp' : ∀ q' ∈ rest, ¬ P q' := fun q' h => hp q' (List.mem_cons_of_mem _ h)
    simp only [List.foldl_cons]
    rw [hsame q hq]
    have hm1 := applyEffect_midP hm q (effA q)
    have hn1 : EnvN ctx (applyEffect za q (effA q)).next ∧ (applyEffect za q (effA q)).next.val out = za.next.val out := by
      cases he : effA q with
      | none => exact ⟨hn, rfl⟩
      | some eff =>
        obtain ⟨h1, h2⟩ := hsafe q hq eff he
        exact ⟨envN_applyAll hn _ h2, applyAll_val_of_slots _ _ _ h1⟩
    obtain ⟨r1, r2, r3, r4, r5, r6⟩ := ih hp' _ _ hm1 hn1.1
    refine ⟨r1, r2, by rw [r3, hn1.2], ?_, ?_, by rw [r6]; exact applyEffect_curr _ _ _⟩
    · intro p hpp
      rw [r4 p hpp]; exact applyEffect_locals_ne _ _ _ _ (fun e => hq (e ▸ hpp))
    · intro p hpp
      rw [r5 p hpp]; exact applyEffect_locals_ne _ _ _ _ (fun e => hq (e ▸ hpp))

/-! ## Bringing two steps of a fold to the front -/

theorem foldl_bubble {α : Type} (f : α → Nat → α) (x : Nat) : ∀ (s1 s2 : List Nat) (z : α),
    (∀ z q, q ∈ s1 → f (f z q) x = f (f z x) q) → (s1 ++ x :: s2).foldl f z = (x :: (s1 ++ s2)).foldl f z := by
  intro s1
  induction s1 with
  | nil => intro s2 z _; rfl
  | cons q s1 ih =>
    intro s2 z h
    simp only [List.cons_append, List.foldl_cons]
    rw [ih s2 (f z q) (fun z' q' hq' => h z' q' (List.mem_cons_of_mem _ hq'))]
    simp only [List.foldl_cons]
    rw [h z q (List.mem_cons_self ..)]

/-- in a duplicate-free order containing `x` and `y`, the steps of `x` and `y` can be taken first when
each of them commutes with every other step -/
theorem foldl_two_front {α : Type} (f : α → Nat → α) (x y : Nat) (hxy : x ≠ y) (order : List Nat) (hnd : order.Nodup)
    (hx : x ∈ order) (hy : y ∈ order)
    (hcx : ∀ z q, q ≠ x → f (f z q) x = f (f z x) q) (hcy : ∀ z q, q ≠ y → f (f z q) y = f (f z y) q) :
    ∃ rest, x ∉ rest ∧ y ∉ rest ∧ (∀ q ∈ rest, q ∈ order) ∧
      ∀ z, order.foldl f z = (x :: y :: rest).foldl f z := by
  obtain ⟨s1, s2, rfl⟩ := List.append_of_mem hx
  have hx1 : x ∉ s1 := fun h => (List.nodup_append.mp hnd).2.2 _ h _ (List.mem_cons_self ..) rfl
  have hx2 : x ∉ s2 := (List.nodup_cons.mp (List.nodup_append.mp hnd).2.1).1
  have hy' : y ∈ s1 ++ s2 := by
    rcases List.mem_append.mp hy with h | h
    · exact List.mem_append_left _ h
    · rcases List.mem_cons.mp h with h | h
      · exact absurd h.symm hxy
      · exact List.mem_append_right _ h
  have hnd' : (s1 ++ s2).Nodup := by
    have h1 := List.nodup_append.mp hnd
    refine List.nodup_append.mpr ⟨h1.1, (List.nodup_cons.mp h1.2.1).2, fun a ha b hb => h1.2.2 a ha b (List.mem_cons_of_mem _ hb)⟩
  obtain ⟨t1, t2, ht⟩ := List.append_of_mem hy'
  have hy1 : y ∉ t1 := fun h => by
    rw [ht] at hnd'; exact (List.nodup_append.mp hnd').2.2 _ h _ (List.mem_cons_self ..) rfl
  have hy2 : y ∉ t2 := by
    rw [ht] at hnd'; exact (List.nodup_cons.mp (List.nodup_append.mp hnd').2.1).1
  have hsub : ∀ q ∈ t1 ++ t2, q ∈ s1 ++ s2 := by
    intro q hq
    rw [ht]
    rcases List.mem_append.mp hq with h | h
    · exact List.mem_append_left _ h
    · exact List.mem_append_right _ (List.mem_cons_of_mem _ h)
  refine ⟨t1 ++ t2, ?_, ?_, ?_, ?_⟩
  · intro h
    rcases List.mem_append.mp (hsub x h) with h | h
    · exact hx1 h
    · exact hx2 h
  · intro h
    rcases List.mem_append.mp h with h | h
    · exact hy1 h
    · exact hy2 h
  · intro q hq
    rcases List.mem_append.mp (hsub q hq) with h | h
    · exact List.mem_append_left _ h
    · exact List.mem_append_right _ (List.mem_cons_of_mem _ h)
  · intro z
    rw [foldl_bubble f x s1 s2 z (fun z' q hq => hcx z' q (fun e => hx1 (e ▸ hq)))]
    simp only [List.foldl_cons]
    rw [ht, foldl_bubble f y t1 t2 _ (fun z' q hq => hcy z' q (fun e => hy1 (e ▸ hq)))]
    rfl

end Amaranth.Engine
