import AmaranthVerif.Proofs.EmitNames
import AmaranthVerif.Model.Rtlil.EmitCtx

/-!
# The concrete evaluator context and environment satisfy the hypotheses of the induction
(helper lemmas for `C04.emit_expr_correct`)
-/

namespace Amaranth.Rtlil
open Amaranth

theorem nodup_map_sigName : ∀ l : List Nat, l.Nodup → (l.map sigName).Nodup
  | [], _ => by simp
  | a :: l, h => by
    rw [List.nodup_cons] at h
    rw [List.map_cons, List.nodup_cons]
    refine ⟨fun hm => ?_, nodup_map_sigName l h.2⟩
    obtain ⟨b, hb, e⟩ := List.mem_map.mp hm
    have := sigName_inj e
    subst this
    exact h.1 hb

theorem nodup_sigNames (n : Nat) : ((List.range n).map sigName).Nodup := nodup_map_sigName _ List.nodup_range

theorem sigEnv_ok (ctx : Amaranth.Ctx) (env : Amaranth.Env) : SigEnv ctx env (sigEnv ctx env) := by
  intro i hi
  have hnd : (((List.range ctx.length).map (fun i => (sigName i, (mask (ctx.shape i).width (env.val i)).toNat))).map (·.1)).Nodup := by
    rw [List.map_map]; exact nodup_sigNames ctx.length
  have hmem : (sigName i, (mask (ctx.shape i).width (env.val i)).toNat)
      ∈ (List.range ctx.length).map (fun i => (sigName i, (mask (ctx.shape i).width (env.val i)).toNat)) :=
    List.mem_map.mpr ⟨i, List.mem_range.mpr hi, rfl⟩
  have h := foldl_insert_mem _ hnd {} _ hmem
  unfold sigEnv
  rw [h]
  obtain ⟨hc, hlt⟩ := mask_toNat (ctx.shape i).width (env.val i)
  rw [Nat.mod_eq_of_lt hlt, hc]

theorem init_wires_keys (ctx : Amaranth.Ctx) : (EmitState.init ctx).wires.map (·.1) = (List.range ctx.length).map sigName := by
  simp [EmitState.init, List.map_map, Function.comp]

/-- the context built from the declared wires gives every declared wire its width -/
theorem widthsOk_emitCtx (ctx : Amaranth.Ctx) (e : Expr) (xres : Bool) :
    WidthsOk (emitCtx (emitExpr ctx e (EmitState.init ctx)).2.wires xres) (emitExpr ctx e (EmitState.init ctx)).2.wires := by
  have hW := (emitE_wiresIn ctx e).1 (EmitState.init ctx).next
  have hnd : (((EmitState.init ctx).wires ++ (emitE ctx e (EmitState.init ctx).next).wires).map (·.1)).Nodup := by
    rw [List.map_append, init_wires_keys]
    rw [List.nodup_append]
    refine ⟨nodup_sigNames _, hW.nodup, ?_⟩
    intro a ha b hb e
    obtain ⟨i, _, rfl⟩ := List.mem_map.mp ha
    exact hW.not_sig i (e ▸ hb)
  intro p hp
  exact foldl_insert_mem _ hnd {} p hp

theorem emitCtx_shiftArith (wires : List (String × Nat)) (xres : Bool) : (emitCtx wires xres).shiftArith = false := rfl

end Amaranth.Rtlil
