import AmaranthVerif.Proofs.IntBits
import AmaranthVerif.Spec.AssignSpec
import AmaranthVerif.Model.Assign

/-! # Bit-level view of environments; `setBit`; writing one location -/

namespace Amaranth

theorem ibit_two_pow (b j : Nat) : ibit ((2 : Int) ^ b) j = decide (b = j) := by
  have : (2 : Int) ^ b = ((2 ^ b : Nat) : Int) := by push_cast; rfl
  rw [this, ibit_ofNat, Nat.testBit_two_pow]

theorem ibit_setBit (v : Int) (b j : Nat) (x : Bool) : ibit (setBit v b x) j = if j = b then x else ibit v j := by
  unfold setBit
  rw [ibit_pyOr, ibit_pyAnd, ibit_pyNot, ibit_two_pow]
  by_cases h : j = b
  · subst h
    cases x <;> simp [ibit_two_pow, ibit_zero']
  · have h' : ¬ b = j := fun e => h e.symm
    cases x <;> simp [h, h', ibit_two_pow, ibit_zero']

/-- the bit of signal `i` at position `b` -/
def bitAt (E : Env) (i b : Nat) : Bool := ibit (E.val i) b

/-- an environment whose entries are values of their signals' shapes -/
structure EnvN (ctx : Ctx) (E : Env) : Prop where
  len : E.length = ctx.length
  ok : ∀ i, i < ctx.length → (ctx.shape i).WF ∧ (ctx.shape i).contains (E.val i)

theorem val_put_eq (E : Env) (i : Nat) (v : Int) (h : i < E.length) : (E.put i v).val i = v := by
  unfold Env.put Env.val
  rw [List.getD_eq_getElem?_getD]
  simp [h]

theorem val_put_ne (E : Env) (i j : Nat) (v : Int) (h : j ≠ i) : (E.put i v).val j = E.val j := by
  unfold Env.put Env.val
  exact getD_set_ne_int E i j v h
where
  getD_set_ne_int (t : List Int) (i j : Nat) (v : Int) (h : j ≠ i) : (t.set i v).getD j 0 = t.getD j 0 := by
    simp [List.getD_eq_getElem?_getD, List.getElem?_set, Ne.symm h]

theorem put_length (E : Env) (i : Nat) (v : Int) : (E.put i v).length = E.length := by
  unfold Env.put; simp

theorem set_eq_put (E : Env) (i : Nat) (v : Int) : E.set i v = E.put i v := rfl

/-- writing a value of the signal's shape keeps the environment normalised -/
theorem EnvN.put {ctx : Ctx} {E : Env} (h : EnvN ctx E) (i : Nat) (v : Int)
    (hv : i < ctx.length → (ctx.shape i).contains v) : EnvN ctx (E.put i v) := by
  refine ⟨by rw [put_length]; exact h.len, ?_⟩
  intro j hj
  by_cases hji : j = i
  · subst hji
    rw [val_put_eq E j v (by rw [h.len]; exact hj)]
    exact ⟨(h.ok j hj).1, hv hj⟩
  · rw [val_put_ne E i j v hji]; exact h.ok j hj

/-- two normalised environments with the same bits are equal -/
theorem env_ext {ctx : Ctx} {A B : Env} (hA : EnvN ctx A) (hB : EnvN ctx B)
    (h : ∀ i b, i < ctx.length → b < (ctx.shape i).width → bitAt A i b = bitAt B i b) : A = B := by
  apply List.ext_getElem (by rw [hA.len, hB.len])
  intro i h1 h2
  have hi : i < ctx.length := by rw [← hA.len]; exact h1
  have e1 : A.val i = A[i] := by unfold Env.val; simp [List.getD_eq_getElem?_getD, h1]
  have e2 : B.val i = B[i] := by unfold Env.val; simp [List.getD_eq_getElem?_getD, h2]
  rw [← e1, ← e2]
  exact eq_of_ibits (ctx.shape i) (hA.ok i hi).1 (hA.ok i hi).2 (hB.ok i hi).2 (fun b hb => h i b hi hb)

end Amaranth
