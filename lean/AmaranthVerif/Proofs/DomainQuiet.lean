import AmaranthVerif.Proofs.DomainLemmas

/-! # A process only touches the signals its statements mention; quiet domains change nothing -/

namespace Amaranth

theorem getD_set_ne (t : List Int) (i j : Nat) (v : Int) (h : j ≠ i) : (t.set i v).getD j 0 = t.getD j 0 := by
  simp [List.getD_eq_getElem?_getD, List.getElem?_set, Ne.symm h]

theorem lhsMask_untouched (ctx : Ctx) (j : Nat) : ∀ (e : Expr) (m : Int) (t : MaskTab),
    j ∉ lhsSigs e → (lhsMask ctx e m t).get j = t.get j := by
  intro e
  induction e with
  | const v s => intro m t _; rfl
  | sig i =>
    intro m t h
    simp only [lhsSigs, List.mem_singleton] at h
    simp only [lhsMask, MaskTab.get]
    exact getD_set_ne t i j _ h
  | op1 o a ih =>
    intro m t h
    cases o <;> first | rfl | (simp only [lhsSigs] at h; simp only [lhsMask]; exact ih m t h)
  | op2 o a b _ _ => intro m t _; rfl
  | slice a s e ih => intro m t h; simp only [lhsSigs] at h; simp only [lhsMask]; exact ih _ t h
  | part a off w st ih _ => intro m t h; simp only [lhsSigs] at h; simp only [lhsMask]; exact ih _ t h
  | cat lo hi ihlo ihhi =>
    intro m t h
    simp only [lhsSigs, List.mem_append, not_or] at h
    simp only [lhsMask]
    rw [ihhi _ _ h.2, ihlo _ _ h.1]
  | ite test pats thn els _ ihthn ihels =>
    intro m t h
    simp only [lhsSigs, List.mem_append, not_or] at h
    simp only [lhsMask]
    rw [ihels _ _ h.2, ihthn _ _ h.1]

theorem stmtMask_untouched (ctx : Ctx) (j : Nat) : ∀ (s : Stmt) (t : MaskTab),
    j ∉ stmtSigs s → (stmtMask ctx s t).get j = t.get j := by
  intro s
  induction s with
  | skip => intro t _; rfl
  | seq a b iha ihb =>
    intro t h
    simp only [stmtSigs, List.mem_append, not_or] at h
    simp only [stmtMask]; rw [ihb _ h.2, iha _ h.1]
  | assign l r => intro t h; simp only [stmtSigs] at h; simp only [stmtMask]; exact lhsMask_untouched ctx j l _ t h
  | ite test pats thn els ihthn ihels =>
    intro t h
    simp only [stmtSigs, List.mem_append, not_or] at h
    simp only [stmtMask]; rw [ihels _ h.2, ihthn _ h.1]

theorem replicate_get (n j : Nat) : MaskTab.get (List.replicate n (0 : Int)) j = 0 := by
  unfold MaskTab.get
  rw [List.getD_eq_getElem?_getD, List.getElem?_replicate]
  split <;> rfl

theorem val_map_range (n j : Nat) (f : Nat → Int) (h : j < n) : Env.val ((List.range n).map f) j = f j := by
  unfold Env.val
  rw [List.getD_eq_getElem?_getD]
  simp [h]

theorem commitInto_untouched (ctx : Ctx) (body : Stmt) (nxt acc : Env) (j : Nat) (hj : j < ctx.length)
    (h : j ∉ stmtSigs body) : (commitInto ctx body nxt acc).val j = acc.val j := by
  unfold commitInto
  simp only
  rw [val_map_range _ _ _ hj, stmtMask_untouched ctx j body _ h, replicate_get, commitMask_zero]

theorem resetOnlyInto_untouched (ctx : Ctx) (inits : Env) (rl : List Bool) (body : Stmt) (acc : Env) (j : Nat)
    (hj : j < ctx.length) (h : j ∉ stmtSigs body) : (resetOnlyInto ctx inits rl body acc).val j = acc.val j := by
  unfold resetOnlyInto
  simp only
  rw [val_map_range _ _ _ hj]
  have : (stmtSigs body).contains j = false := by
    simpa using h
  rw [this]; rfl

/-- a process leaves alone every signal its statements do not mention, whatever the event -/
theorem procAtEvent_untouched (D : Design) (cur cur' : Env) (p : Proc) (acc : Env) (j : Nat)
    (hj : j < D.ctx.length) (h : j ∉ stmtSigs p.body) : (procAtEvent D cur cur' p acc).val j = acc.val j := by
  unfold procAtEvent
  cases hd : p.dom with
  | none => rfl
  | some d =>
    simp only
    split
    · rw [resetOnlyInto_untouched _ _ _ _ _ _ hj h]
      split
      · exact commitInto_untouched _ _ _ _ _ hj h
      · rfl
    · split
      · exact commitInto_untouched _ _ _ _ _ hj h
      · rfl

/-- a process whose domain sees neither an active clock edge nor a rising asynchronous reset does nothing -/
theorem procAtEvent_quiet (D : Design) (cur cur' : Env) (p : Proc) (acc : Env)
    (h : ∀ d, p.dom = some d →
      (D.doms.getD d default).clkFired cur cur' = false ∧ (D.doms.getD d default).rstFired cur cur' = false) :
    procAtEvent D cur cur' p acc = acc := by
  unfold procAtEvent
  cases hd : p.dom with
  | none => rfl
  | some d =>
    obtain ⟨h1, h2⟩ := h d hd
    simp only
    rw [h1, h2]; rfl

theorem foldl_procs_val (D : Design) (cur cur' : Env) (j : Nat) (hj : j < D.ctx.length) :
    ∀ (procs : List Proc) (acc : Env),
      (∀ p ∈ procs, j ∈ stmtSigs p.body → ∀ d, p.dom = some d →
        (D.doms.getD d default).clkFired cur cur' = false ∧ (D.doms.getD d default).rstFired cur cur' = false) →
      (procs.foldl (fun acc p => procAtEvent D cur cur' p acc) acc).val j = acc.val j := by
  intro procs
  induction procs with
  | nil => intro acc _; rfl
  | cons p ps ih =>
    intro acc h
    simp only [List.foldl_cons]
    rw [ih _ (fun q hq => h q (List.mem_cons_of_mem _ hq))]
    by_cases hm : j ∈ stmtSigs p.body
    · rw [procAtEvent_quiet D cur cur' p acc (h p (List.mem_cons_self ..) hm)]
    · exact procAtEvent_untouched D cur cur' p acc j hj hm

end Amaranth
