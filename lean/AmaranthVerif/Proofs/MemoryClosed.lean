import AmaranthVerif.Proofs.MemoryBits
import AmaranthVerif.Spec.MemoryRows

/-!
# Closed forms: what the write queue and the transparency patch compute, bit by bit

`seqBitI` (the simulator: every hitting port overwrites, the last one stays) and `newBitI` (the Spec: the
first hitting port) over a list of port indices; they agree when the hitting ports agree on the data bit.
-/

namespace Amaranth.Mem
open Amaranth.MemRows (Write newBit newRow toBits)

section closed
variable (hits data : Nat → Bool)

def seqBitI : List Nat → Bool → Bool
  | [], old => old
  | k :: r, old => seqBitI r (if hits k then data k else old)

def newBitI : List Nat → Bool → Bool
  | [], old => old
  | k :: r, old => if hits k then data k else newBitI r old

theorem seqBitI_const (ks : List Nat) (x : Bool) (h : ∀ j ∈ ks, hits j = true → data j = x) :
    seqBitI hits data ks x = x := by
  induction ks with
  | nil => rfl
  | cons k r ih =>
    simp only [seqBitI]
    have ih' := ih (fun j hj => h j (List.mem_cons_of_mem _ hj))
    by_cases hk : hits k = true
    · rw [if_pos hk, h k (List.mem_cons_self ..) hk]; exact ih'
    · rw [if_neg hk]; exact ih'

theorem seqBitI_nohit (ks : List Nat) (old : Bool) (h : ∀ j ∈ ks, hits j = false) :
    seqBitI hits data ks old = old :=
  seqBitI_const hits data ks old (fun j hj hh => by rw [h j hj] at hh; cases hh)

theorem newBitI_nohit (ks : List Nat) (old : Bool) (h : ∀ j ∈ ks, hits j = false) :
    newBitI hits data ks old = old := by
  induction ks with
  | nil => rfl
  | cons k r ih =>
    simp only [newBitI, h k (List.mem_cons_self ..)]
    exact ih (fun j hj => h j (List.mem_cons_of_mem _ hj))

/-- ports that hit the same bit carry the same data bit -/
def Compat (ks : List Nat) : Prop :=
  ∀ j1 ∈ ks, ∀ j2 ∈ ks, hits j1 = true → hits j2 = true → data j1 = data j2

theorem Compat.tail {k : Nat} {r : List Nat} (h : Compat hits data (k :: r)) : Compat hits data r :=
  fun j1 h1 j2 h2 => h j1 (List.mem_cons_of_mem _ h1) j2 (List.mem_cons_of_mem _ h2)

theorem seqBitI_eq_newBitI (ks : List Nat) (old : Bool) (h : Compat hits data ks) :
    seqBitI hits data ks old = newBitI hits data ks old := by
  induction ks generalizing old with
  | nil => rfl
  | cons k r ih =>
    simp only [seqBitI, newBitI]
    by_cases hk : hits k = true
    · rw [if_pos hk, if_pos hk]
      exact seqBitI_const hits data r _ (fun j hj hh =>
        h j (List.mem_cons_of_mem _ hj) k (List.mem_cons_self ..) hh hk)
    · rw [if_neg hk, if_neg hk]; exact ih old h.tail

theorem newBitI_hit (ks : List Nat) (old : Bool) (k : Nat) (hk : k ∈ ks) (hh : hits k = true)
    (h : Compat hits data ks) : newBitI hits data ks old = data k := by
  induction ks with
  | nil => cases hk
  | cons k' r ih =>
    simp only [newBitI]
    by_cases hk' : hits k' = true
    · rw [if_pos hk']; exact h k' (List.mem_cons_self ..) k hk hk' hh
    · rw [if_neg hk']
      rcases List.mem_cons.1 hk with rfl | hr
      · exact absurd hh hk'
      · exact ih hr h.tail

theorem seqBitI_append_single (ks : List Nat) (k : Nat) (old : Bool) :
    seqBitI hits data (ks ++ [k]) old = if hits k then data k else seqBitI hits data ks old := by
  induction ks generalizing old with
  | nil => rfl
  | cons k' r ih => simp only [List.cons_append, seqBitI]; exact ih _

theorem newBitI_append_single (ks : List Nat) (k : Nat) (old : Bool) :
    newBitI hits data (ks ++ [k]) old = newBitI hits data ks (if hits k then data k else old) := by
  induction ks with
  | nil => rfl
  | cons k' r ih => simp only [List.cons_append, newBitI]; rw [ih]

/-- the simulator's result is the Spec's rule applied to the ports in *reverse* order: the last hitting port wins -/
theorem seqBitI_eq_newBitI_reverse (ks : List Nat) (old : Bool) :
    seqBitI hits data ks old = newBitI hits data ks.reverse old := by
  induction ks generalizing old with
  | nil => rfl
  | cons k r ih =>
    rw [List.reverse_cons, newBitI_append_single]
    simp only [seqBitI]
    exact ih _

end closed

theorem seqBitI_congr {h1 d1 h2 d2 : Nat → Bool} (ks : List Nat) (old : Bool)
    (h : ∀ k ∈ ks, h1 k = h2 k ∧ d1 k = d2 k) : seqBitI h1 d1 ks old = seqBitI h2 d2 ks old := by
  induction ks generalizing old with
  | nil => rfl
  | cons k r ih =>
    simp only [seqBitI]
    rw [(h k (List.mem_cons_self ..)).1, (h k (List.mem_cons_self ..)).2]
    exact ih _ (fun j hj => h j (List.mem_cons_of_mem _ hj))

/-! ## The model side: write queue and transparency patch -/

/-- does write value `F k` hit bit `i` of row `a` -/
def mHits (F : Nat → Option WVal) (a i k : Nat) : Bool :=
  match F k with
  | some wv => decide (wv.addr = a) && ibit wv.en i
  | none => false

def mData (F : Nat → Option WVal) (i k : Nat) : Bool :=
  match F k with
  | some wv => ibit wv.data i
  | none => false

theorem mHits_none {F : Nat → Option WVal} {k : Nat} (a i : Nat) (h : F k = none) : mHits F a i k = false := by
  unfold mHits; rw [h]
theorem mHits_some {F : Nat → Option WVal} {k : Nat} {wv : WVal} (a i : Nat) (h : F k = some wv) :
    mHits F a i k = (decide (wv.addr = a) && ibit wv.en i) := by
  unfold mHits; rw [h]
theorem mData_none {F : Nat → Option WVal} {k : Nat} (i : Nat) (h : F k = none) : mData F i k = false := by
  unfold mData; rw [h]
theorem mData_some {F : Nat → Option WVal} {k : Nat} {wv : WVal} (i : Nat) (h : F k = some wv) :
    mData F i k = ibit wv.data i := by
  unfold mData; rw [h]

theorem pending_empty (rows : List Int) (n a : Nat) : pending rows (Queue.empty n) a = rows.getD a 0 := by
  unfold pending Queue.empty
  rw [List.getD_eq_getElem?_getD, List.getElem?_replicate]
  split <;> rfl

theorem pending_set (rows : List Int) (q : Queue) (addr a : Nat) (x : Int) (h : addr < q.length) :
    pending rows (q.set addr (some x)) a = if a = addr then x else pending rows q a := by
  unfold pending
  rw [List.getD_eq_getElem?_getD, List.getElem?_set]
  by_cases ha : a = addr
  · subst ha; simp [h]
  · rw [if_neg (Ne.symm ha), if_neg ha]; simp [List.getD_eq_getElem?_getD]

theorem length_qwrite (sh : Shape) (rows : List Int) (q : Queue) (addr : Nat) (v m : Int) :
    (qwrite sh rows q addr v m).length = q.length := by
  unfold qwrite; split <;> simp

theorem length_enqueue (sh : Shape) (rows : List Int) (wvs : List (Option WVal)) (q : Queue) :
    (enqueue sh rows q wvs).length = q.length := by
  induction wvs generalizing q with
  | nil => rfl
  | cons o r ih =>
    cases o with
    | none => exact ih q
    | some wv => simp only [enqueue]; rw [ih, length_qwrite]

theorem qwrite_bits (sh : Shape) (rows : List Int) (q : Queue) (wv : WVal) (a i : Nat)
    (hq : q.length = rows.length) (ha : a < rows.length) (hi : i < sh.width) :
    ibit (pending rows (qwrite sh rows q wv.addr wv.data wv.en) a) i =
      if (decide (wv.addr = a) && ibit wv.en i) = true then ibit wv.data i else ibit (pending rows q a) i := by
  unfold qwrite
  by_cases hlt : wv.addr < rows.length
  · rw [if_pos hlt, pending_set _ _ _ _ _ (by omega)]
    by_cases hea : a = wv.addr
    · subst hea
      rw [if_pos rfl, ibit_resign _ _ _ hi, ibit_pyMerge]
      simp
    · rw [if_neg hea]
      have : decide (wv.addr = a) = false := by simp [Ne.symm hea]
      simp [this]
  · rw [if_neg hlt]
    have : decide (wv.addr = a) = false := by simp; omega
    simp [this]

/-- what the write queue holds for bit `i` of row `a` after all `write` calls of the delta -/
theorem enqueue_bits (sh : Shape) (rows : List Int) (F : Nat → Option WVal) (a i : Nat)
    (ha : a < rows.length) (hi : i < sh.width) (ks : List Nat) (q : Queue) (hq : q.length = rows.length) :
    ibit (pending rows (enqueue sh rows q (ks.map F)) a) i =
      seqBitI (mHits F a i) (mData F i) ks (ibit (pending rows q a) i) := by
  induction ks generalizing q with
  | nil => rfl
  | cons k r ih =>
    rw [List.map_cons]
    simp only [seqBitI]
    rcases hF : F k with _ | wv
    · rw [mHits_none a i hF]; simp only [enqueue]; exact ih q hq
    · rw [mHits_some a i hF, mData_some i hF]
      simp only [enqueue]
      rw [ih _ (by rw [length_qwrite]; exact hq), qwrite_bits sh rows q wv a i hq ha hi]

theorem commit_getElem (rows : List Int) (q : Queue) (a : Nat) (ha : a < rows.length) :
    (commit rows q)[a]'(by unfold commit; rw [List.length_mapIdx]; exact ha) = pending rows q a := by
  unfold commit pending
  rw [List.getElem_mapIdx, List.getD_eq_getElem?_getD (l := rows), List.getElem?_eq_getElem ha]
  rfl

theorem length_commit (rows : List Int) (q : Queue) : (commit rows q).length = rows.length := by
  unfold commit; exact List.length_mapIdx

theorem patch_bits (d : Int) (raddr : Nat) (wv : WVal) (i : Nat) :
    ibit (patch d raddr wv) i =
      if (decide (wv.addr = raddr) && ibit wv.en i) = true then ibit wv.data i else ibit d i := by
  unfold patch
  by_cases h : raddr = wv.addr
  · rw [if_pos h, ibit_pyOr, ibit_pyAnd, ibit_pyAnd, ibit_pyNot]
    have : decide (wv.addr = raddr) = true := by simp [h]
    rw [this]
    cases ibit wv.en i <;> simp
  · rw [if_neg h]
    have : decide (wv.addr = raddr) = false := by simp; exact fun h' => h h'.symm
    simp [this]

/-- what the transparency patch-up leaves in bit `i` -/
theorem patchAll_bits (wvs : List (Option WVal)) (raddr i : Nat) (transp : List Nat) (d : Int) :
    ibit (patchAll wvs raddr d transp) i =
      seqBitI (mHits (fun k => wvs.getD k none) raddr i) (mData (fun k => wvs.getD k none) i) transp (ibit d i) := by
  induction transp generalizing d with
  | nil => rfl
  | cons k r ih =>
    simp only [patchAll, seqBitI]
    rcases hF : wvs.getD k none with _ | wv
    · rw [mHits_none (F := fun k => wvs.getD k none) raddr i hF]; exact ih d
    · rw [mHits_some (F := fun k => wvs.getD k none) raddr i hF, mData_some (F := fun k => wvs.getD k none) i hF]
      simp only []
      rw [ih, patch_bits]

/-! ## The Spec side -/

def sHits (W : Nat → Option Write) (a i k : Nat) : Bool :=
  match W k with
  | some w => w.hits a i
  | none => false

def sData (W : Nat → Option Write) (i k : Nat) : Bool :=
  match W k with
  | some w => w.data.getD i false
  | none => false

theorem newBit_filterMap (W : Nat → Option Write) (a i : Nat) (ks : List Nat) (old : Bool) :
    newBit (ks.filterMap W) a i old = newBitI (sHits W a i) (sData W i) ks old := by
  induction ks with
  | nil => rfl
  | cons k r ih =>
    simp only [List.filterMap_cons, newBitI]
    rcases hW : W k with _ | w
    · have : sHits W a i k = false := by unfold sHits; rw [hW]
      rw [this]; exact ih
    · have h1 : sHits W a i k = w.hits a i := by unfold sHits; rw [hW]
      have h2 : sData W i k = w.data.getD i false := by unfold sData; rw [hW]
      rw [h1, h2]; simp only [newBit]; rw [ih]

theorem toBits_length (w : Nat) (v : Int) : (toBits w v).length = w := by
  unfold toBits; simp

theorem toBits_getElem (w : Nat) (v : Int) (i : Nat) (h : i < (toBits w v).length) : (toBits w v)[i] = ibit v i := by
  simp [toBits]

theorem toBits_getD (w : Nat) (v : Int) (i : Nat) (h : i < w) : (toBits w v).getD i false = ibit v i := by
  rw [List.getD_eq_getElem?_getD, List.getElem?_eq_getElem (by rw [toBits_length]; exact h), toBits_getElem]
  rfl

/-- two integers denote the same row iff their low bits agree -/
theorem toBits_eq_iff (w : Nat) (u v : Int) : toBits w u = toBits w v ↔ ∀ i < w, ibit u i = ibit v i := by
  constructor
  · intro h i hi
    have := congrArg (fun l => l.getD i false) h
    simp only [toBits_getD _ _ _ hi] at this
    exact this
  · intro h
    apply List.ext_getElem
    · rw [toBits_length, toBits_length]
    · intro i h1 _
      rw [toBits_getElem, toBits_getElem]
      exact h i (by rw [toBits_length] at h1; exact h1)

theorem newRow_toBits (ws : List Write) (a w : Nat) (v v' : Int)
    (h : ∀ i < w, ibit v' i = newBit ws a i (ibit v i)) : toBits w v' = newRow ws a (toBits w v) := by
  apply List.ext_getElem
  · unfold newRow; rw [List.length_mapIdx, toBits_length, toBits_length]
  · intro i h1 h2
    simp only [newRow, List.getElem_mapIdx, toBits_getElem]
    exact h i (by rw [toBits_length] at h1; exact h1)

end Amaranth.Mem
