import AmaranthVerif.Model.Res
import AmaranthVerif.Spec.Res

/-! # Helper lemmas for C19 (allocation) -/

namespace Amaranth.Res

instance instDecEqExcept {ε α : Type} [DecidableEq ε] [DecidableEq α] : DecidableEq (Except ε α)
  | .ok a, .ok b => if h : a = b then isTrue (by rw [h]) else isFalse (by intro h'; cases h'; exact h rfl)
  | .error a, .error b => if h : a = b then isTrue (by rw [h]) else isFalse (by intro h'; cases h'; exact h rfl)
  | .ok _, .error _ => isFalse (by intro h; cases h)
  | .error _, .ok _ => isFalse (by intro h; cases h)

/-- a list of pins is free in a list of owned pins -/
def Free (owned pins : List String) : Prop := pins.Nodup ∧ ∀ x ∈ pins, x ∉ owned

instance (owned pins : List String) : Decidable (Free owned pins) := by unfold Free; infer_instance

theorem free_nil (owned : List String) : Free owned [] := ⟨List.nodup_nil, by simp⟩

theorem free_append {owned a b : List String} :
    Free owned (a ++ b) ↔ Free owned a ∧ Free (owned ++ a) b := by
  unfold Free
  simp only [List.nodup_append, List.mem_append]
  constructor
  · rintro ⟨⟨ha, hb, hab⟩, hf⟩
    refine ⟨⟨ha, fun x hx => hf x (Or.inl hx)⟩, hb, fun x hx => ?_⟩
    rintro (h | h)
    · exact hf x (Or.inr hx) h
    · exact hab x h x hx rfl
  · rintro ⟨⟨ha, hfa⟩, hb, hfb⟩
    refine ⟨⟨ha, hb, fun x hx y hy hxy => ?_⟩, fun x hx => ?_⟩
    · subst hxy; exact hfb x hy (Or.inr hx)
    · rcases hx with hx | hx
      · exact hfa x hx
      · exact fun h => hfb x hx (Or.inl h)

/-! ## The check-and-record loop -/

theorem recordPinsL_free (path : List String) : ∀ (xs : List String) (reqd : List (String × List String)),
    Free (reqd.map (·.1)) xs →
    recordPinsL path reqd xs = (reqd ++ xs.map (fun x => (x, path)), .ok ())
  | [], reqd, _ => by simp [recordPinsL]
  | x :: xs, reqd, h => by
    have hx : x ∉ reqd.map (·.1) := h.2 x (List.mem_cons_self)
    have hn := List.nodup_cons.mp h.1
    have h' : Free ((reqd ++ [(x, path)]).map (·.1)) xs := by
      refine ⟨hn.2, fun y hy => ?_⟩
      simp only [List.map_append, List.map_cons, List.map_nil, List.mem_append, List.mem_singleton]
      rintro (hy' | hy')
      · exact h.2 y (List.mem_cons_of_mem _ hy) hy'
      · subst hy'; exact hn.1 hy
    rw [recordPinsL, if_neg hx, recordPinsL_free path xs _ h']
    simp

theorem recordPinsL_not_free (path : List String) : ∀ (xs : List String) (reqd : List (String × List String)),
    ¬ Free (reqd.map (·.1)) xs → ∃ reqd', recordPinsL path reqd xs = (reqd', .error .resource)
  | [], reqd, h => absurd (free_nil _) h
  | x :: xs, reqd, h => by
    by_cases hx : x ∈ reqd.map (·.1)
    · exact ⟨reqd, by rw [recordPinsL, if_pos hx]⟩
    · rw [recordPinsL, if_neg hx]
      apply recordPinsL_not_free path xs
      intro h'
      apply h
      refine ⟨List.nodup_cons.mpr ⟨fun hmem => ?_, h'.1⟩, fun y hy => ?_⟩
      · exact h'.2 x hmem (by simp)
      · rcases List.mem_cons.mp hy with rfl | hy
        · exact hx
        · intro hy'
          exact h'.2 y hy (by simp [hy'])

/-! ## One leaf -/

theorem physPins_addClock (s : State) (n : String) (c : Option Nat) :
    (addClock s n c).physPins = s.physPins := by
  cases c <;> rfl

theorem requested_addClock (s : State) (n : String) (c : Option Nat) :
    (addClock s n c).requested = s.requested := by
  cases c <;> rfl

/-- what one granted leaf adds to the clock table -/
def leafClocks (pl : Planned) (port : PortM) : List (String × Nat) :=
  match pl.leaf.clock with
  | none => []
  | some p => [(port.clockName, p)]

theorem ioClocks_addClock (s : State) (pl : Planned) (port : PortM) :
    (addClock s port.clockName pl.leaf.clock).ioClocks = s.ioClocks ++ leafClocks pl port := by
  unfold leafClocks
  cases pl.leaf.clock <;> simp [addClock]

theorem pins_addClock (s : State) (n : String) (c : Option Nat) :
    (addClock s n c).pins = s.pins := by
  cases c <;> rfl

/-- what one granted leaf adds to `iter_pins()` -/
def leafPins (g : LeafGrant) : List LeafGrant := if g.pin.isSome then [g] else []

theorem finishLeafL_free (s : State) (pl : Planned) (port : PortM)
    (hf : Free s.physPins port.pins) (hr : plannedRateOk pl = true) :
    ∃ s', finishLeafL s pl port = (s', .ok (grantOf pl port)) ∧
      s'.physPins = s.physPins ++ port.pins ∧ s'.requested = s.requested ∧
      s'.ioClocks = s.ioClocks ∧ s'.pins = s.pins ++ leafPins (grantOf pl port) := by
  have hrec := recordPinsL_free pl.leaf.path port.pins s.physReqd hf
  unfold finishLeafL
  rw [hrec]
  unfold plannedRateOk at hr
  cases hd : pl.rdir with
  | dash =>
    refine ⟨_, rfl, ?_, rfl, rfl, ?_⟩
    · simp [State.physPins, List.map_append, List.map_map, Function.comp_def]
    · simp [leafPins, grantOf, hd]
  | bad => simp [hd] at hr
  | dir d =>
    rw [hd] at hr
    have hx : ¬ pl.xdr > 2 := by
      have := of_decide_eq_true hr
      omega
    simp only [hx, if_false]
    refine ⟨_, rfl, ?_, rfl, rfl, ?_⟩
    · simp [State.physPins, List.map_append, List.map_map, Function.comp_def]
    · simp [leafPins, grantOf, hd]

theorem finishLeafL_not_free (s : State) (pl : Planned) (port : PortM)
    (hf : ¬ Free s.physPins port.pins) :
    ∃ s', finishLeafL s pl port = (s', .error .resource) := by
  obtain ⟨reqd', h⟩ := recordPinsL_not_free pl.leaf.path port.pins s.physReqd hf
  exact ⟨_, by unfold finishLeafL; rw [h]⟩

theorem finishLeafL_bad_rate (s : State) (pl : Planned) (port : PortM)
    (hr : plannedRateOk pl = false) :
    ∃ s' e, finishLeafL s pl port = (s', .error e) := by
  unfold finishLeafL
  rcases hrec : recordPinsL pl.leaf.path s.physReqd port.pins with ⟨reqd, r⟩
  cases r with
  | error e => exact ⟨_, e, rfl⟩
  | ok u =>
    unfold plannedRateOk at hr
    cases hd : pl.rdir with
    | dash => simp [hd] at hr
    | bad => exact ⟨_, _, rfl⟩
    | dir d =>
      rw [hd] at hr
      have hx : pl.xdr > 2 := by
        have := of_decide_eq_false hr
        omega
      simp only [hx, if_true]
      exact ⟨_, _, rfl⟩

/-! ## All leaves of a request -/

/-- the grants a plan yields when every leaf goes well (independent of the state) -/
def expectedGrants (m : List (String × String)) (fuel : Nat) : List Planned → Option (List LeafGrant)
  | [] => some []
  | pl :: pls =>
    match plannedPortE m fuel pl, expectedGrants m fuel pls with
    | .ok port, some gs => some (grantOf pl port :: gs)
    | _, _ => none

/-- the clock entries a plan yields -/
def planClocks (m : List (String × String)) (fuel : Nat) : List Planned → List (String × Nat)
  | [] => []
  | pl :: pls =>
    (match plannedPortE m fuel pl with
     | .ok port => leafClocks pl port
     | .error _ => []) ++ planClocks m fuel pls

structure AllOk (m : List (String × String)) (fuel : Nat) (s s' : State) (pls : List Planned)
    (gs : List LeafGrant) : Prop where
  grants : expectedGrants m fuel pls = some gs
  phys : s'.physPins = s.physPins ++ grantPins gs
  requested : s'.requested = s.requested
  clocks : s'.ioClocks = s.ioClocks ++ planClocks m fuel pls
  pins : s'.pins = s.pins ++ gs.flatMap leafPins

theorem resolveAllL_char (m : List (String × String)) (fuel : Nat) : ∀ (pls : List Planned) (s : State),
    (∀ want, wantedOfPlan m fuel pls = some want →
      (Free s.physPins want →
        ∃ s' gs, resolveAllL m fuel s pls = (s', .ok gs) ∧ grantPins gs = want ∧ AllOk m fuel s s' pls gs) ∧
      (¬ Free s.physPins want → ∃ s', resolveAllL m fuel s pls = (s', .error .resource))) ∧
    (wantedOfPlan m fuel pls = none → ∃ s' e, resolveAllL m fuel s pls = (s', .error e))
  | [], s => by
    refine ⟨fun want hw => ?_, fun h => by simp [wantedOfPlan] at h⟩
    simp only [wantedOfPlan, Option.some.injEq] at hw
    subst hw
    refine ⟨fun _ => ⟨s, [], rfl, rfl, ⟨rfl, by simp [grantPins], rfl, by simp [planClocks], by simp⟩⟩,
            fun h => absurd (free_nil _) h⟩
  | pl :: pls, s => by
    cases hp : plannedPortE m fuel pl with
    | error e =>
      refine ⟨fun want hw => by simp [wantedOfPlan, hp] at hw, fun _ => ⟨s, e, ?_⟩⟩
      simp [resolveAllL, resolveLeafL, hp]
    | ok port =>
      let s0 := addClock s port.clockName pl.leaf.clock
      have hs0 : s0.physPins = s.physPins := physPins_addClock _ _ _
      cases hr : plannedRateOk pl with
      | false =>
        refine ⟨fun want hw => ?_, fun _ => ?_⟩
        · simp only [wantedOfPlan, hp, hr] at hw
          cases hw' : wantedOfPlan m fuel pls <;> simp [hw'] at hw
        · obtain ⟨s1, e, h1⟩ := finishLeafL_bad_rate s0 pl port hr
          have h1' : resolveLeafL m fuel s pl = (s1, .error e) := by
            simp only [resolveLeafL, hp]; exact h1
          exact ⟨s1, e, by simp only [resolveAllL, h1']⟩
      | true =>
        by_cases hf : Free s.physPins port.pins
        · -- this leaf is granted; continue with the rest
          obtain ⟨s1, h1, hphys, hreq, hclk, hpins⟩ := finishLeafL_free s0 pl port (hs0 ▸ hf) hr
          have hstep : resolveLeafL m fuel s pl = (s1, .ok (grantOf pl port)) := by
            simp only [resolveLeafL, hp]; exact h1
          have ih := resolveAllL_char m fuel pls s1
          have hphys1 : s1.physPins = s.physPins ++ port.pins := by rw [hphys, hs0]
          refine ⟨fun want hw => ?_, fun hnone => ?_⟩
          · simp only [wantedOfPlan, hp, hr] at hw
            cases hw' : wantedOfPlan m fuel pls with
            | none => simp [hw'] at hw
            | some rest =>
              simp only [hw', if_true, Option.some.injEq] at hw
              subst hw
              obtain ⟨ihf, ihn⟩ := ih.1 rest hw'
              refine ⟨fun hfree => ?_, fun hnf => ?_⟩
              · have hrest : Free s1.physPins rest := by
                  rw [hphys1]; exact (free_append.mp hfree).2
                obtain ⟨s2, gs, h2, hg, hok⟩ := ihf hrest
                refine ⟨s2, grantOf pl port :: gs, ?_, ?_, ?_⟩
                · simp only [resolveAllL, hstep, h2]
                · simp [grantPins, List.flatMap_cons, grantOf] at hg ⊢
                  exact hg
                · refine ⟨?_, ?_, ?_, ?_, ?_⟩
                  · simp [expectedGrants, hp, hok.grants]
                  · rw [hok.phys, hphys1]
                    simp [grantPins, List.flatMap_cons, grantOf, List.append_assoc]
                  · rw [hok.requested, hreq, requested_addClock]
                  · rw [hok.clocks, hclk, ioClocks_addClock]
                    simp [planClocks, hp, List.append_assoc]
                  · rw [hok.pins, hpins, pins_addClock]
                    simp [List.flatMap_cons, List.append_assoc]
              · have hrest : ¬ Free s1.physPins rest := by
                  rw [hphys1]; intro h; exact hnf (free_append.mpr ⟨hf, h⟩)
                obtain ⟨s2, h2⟩ := ihn hrest
                exact ⟨s2, by simp only [resolveAllL, hstep, h2]⟩
          · have hw' : wantedOfPlan m fuel pls = none := by
              simp only [wantedOfPlan, hp, hr] at hnone
              cases hw' : wantedOfPlan m fuel pls with
              | none => rfl
              | some rest => simp [hw'] at hnone
            obtain ⟨s2, e, h2⟩ := ih.2 hw'
            exact ⟨s2, e, by simp only [resolveAllL, hstep, h2]⟩
        · -- this leaf is refused: ResourceError
          obtain ⟨s1, h1⟩ := finishLeafL_not_free s0 pl port (hs0 ▸ hf)
          have hstep : resolveLeafL m fuel s pl = (s1, .error .resource) := by
            simp only [resolveLeafL, hp]; exact h1
          refine ⟨fun want hw => ?_, fun _ => ⟨s1, .resource, by simp only [resolveAllL, hstep]⟩⟩
          simp only [wantedOfPlan, hp, hr] at hw
          cases hw' : wantedOfPlan m fuel pls with
          | none => simp [hw'] at hw
          | some rest =>
            simp only [hw', if_true, Option.some.injEq] at hw
            subst hw
            refine ⟨fun hfree => absurd (free_append.mp hfree).1 hf,
                    fun _ => ⟨s1, by simp only [resolveAllL, hstep]⟩⟩

/-! ## One request -/

/-- everything that holds of a granted request -/
structure Granted (t : Table) (s : State) (r : Req) (s' : State) (gs : List LeafGrant) : Prop where
  wanted : wanted t r = some (grantPins gs)
  fresh : r.key ∉ s.requested
  free : Free s.physPins (grantPins gs)
  requested : s'.requested = s.requested ++ [r.key]
  phys : s'.physPins = s.physPins ++ grantPins gs
  pins : s'.pins = s.pins ++ gs.flatMap leafPins
  plan : ∃ res pls, t.lookup r.key = some res ∧ res.plan r.dir r.xdr = .ok pls ∧
    expectedGrants t.mapping t.fuel pls = some gs ∧
    s'.ioClocks = s.ioClocks ++ planClocks t.mapping t.fuel pls

theorem request_none (t : Table) (s : State) (r : Req) (h : wanted t r = none) :
    ∃ e, request t s r = .error e := by
  unfold request requestLeaky
  unfold wanted at h
  cases hl : t.lookup r.key with
  | none => exact ⟨_, rfl⟩
  | some res =>
    simp only [hl] at h ⊢
    by_cases hk : r.key ∈ s.requested
    · simp only [hk, if_true]; exact ⟨_, rfl⟩
    · simp only [hk, if_false]
      cases hp : res.plan r.dir r.xdr with
      | error e => exact ⟨_, rfl⟩
      | ok pls =>
        simp only [hp] at h ⊢
        obtain ⟨s', e, he⟩ := (resolveAllL_char t.mapping t.fuel pls s).2 h
        simp only [he]; exact ⟨_, rfl⟩

theorem request_refused (t : Table) (s : State) (r : Req) (want : List String)
    (h : wanted t r = some want) (hn : ¬ (r.key ∉ s.requested ∧ Free s.physPins want)) :
    request t s r = .error .resource := by
  unfold request requestLeaky
  unfold wanted at h
  cases hl : t.lookup r.key with
  | none => simp [hl] at h
  | some res =>
    simp only [hl] at h ⊢
    by_cases hk : r.key ∈ s.requested
    · simp only [hk, if_true]
    · simp only [hk, if_false]
      cases hp : res.plan r.dir r.xdr with
      | error e => simp [hp] at h
      | ok pls =>
        simp only [hp] at h ⊢
        have hnf : ¬ Free s.physPins want := fun hf => hn ⟨hk, hf⟩
        obtain ⟨s', he⟩ := ((resolveAllL_char t.mapping t.fuel pls s).1 want h).2 hnf
        simp only [he]

theorem request_granted (t : Table) (s : State) (r : Req) (want : List String)
    (h : wanted t r = some want) (hk : r.key ∉ s.requested) (hf : Free s.physPins want) :
    ∃ s' gs, request t s r = .ok (s', gs) ∧ grantPins gs = want ∧ Granted t s r s' gs := by
  unfold request requestLeaky
  have h0 := h
  unfold wanted at h
  cases hl : t.lookup r.key with
  | none => simp [hl] at h
  | some res =>
    simp only [hl] at h ⊢
    simp only [hk, if_false]
    cases hp : res.plan r.dir r.xdr with
    | error e => simp [hp] at h
    | ok pls =>
      simp only [hp] at h ⊢
      obtain ⟨s', gs, he, hg, hok⟩ := ((resolveAllL_char t.mapping t.fuel pls s).1 want h).1 hf
      simp only [he]
      refine ⟨_, gs, rfl, hg, ?_⟩
      subst hg
      exact ⟨h0, hk, hf, by simp [hok.requested], by simpa [State.physPins] using hok.phys,
             by simpa using hok.pins, res, pls, hl, hp, hok.grants, by simpa using hok.clocks⟩

theorem request_ok (t : Table) (s : State) (r : Req) (s' : State) (gs : List LeafGrant)
    (h : request t s r = .ok (s', gs)) : Granted t s r s' gs := by
  cases hw : wanted t r with
  | none =>
    obtain ⟨e, he⟩ := request_none t s r hw
    rw [he] at h; cases h
  | some want =>
    by_cases hc : r.key ∉ s.requested ∧ Free s.physPins want
    · obtain ⟨s'', gs', he, _, hg⟩ := request_granted t s r want hw hc.1 hc.2
      rw [he] at h
      cases h
      exact hg
    · rw [request_refused t s r want hw hc] at h; cases h

/-! ## Histories -/

/-- the invariant of the manager's state: one-to-one -/
def Inv (s : State) : Prop := s.requested.Nodup ∧ s.physPins.Nodup

instance (s : State) : Decidable (Inv s) := by unfold Inv; infer_instance

theorem Inv_init : Inv State.init := ⟨List.nodup_nil, List.nodup_nil⟩

theorem Granted.inv {t : Table} {s : State} {r : Req} {s' : State} {gs : List LeafGrant}
    (g : Granted t s r s' gs) (hi : Inv s) : Inv s' := by
  refine ⟨?_, ?_⟩
  · rw [g.requested]
    exact List.nodup_append.mpr ⟨hi.1, by simp, fun a ha b hb hab => by
      simp only [List.mem_singleton] at hb; subst hb; subst hab; exact g.fresh ha⟩
  · rw [g.phys]
    exact List.nodup_append.mpr ⟨hi.2, g.free.1, fun a ha b hb hab => by
      subst hab; exact g.free.2 a hb ha⟩

/-- the keys of the granted requests of a history, in order -/
def grantedKeys : List Req → List Outcome → List Key
  | r :: rs, .granted _ :: os => r.key :: grantedKeys rs os
  | _ :: rs, .refused _ :: os => grantedKeys rs os
  | _, _ => []

def outcomePins (os : List Outcome) : List String := os.flatMap Outcome.pins

theorem run_length (t : Table) : ∀ (rs : List Req) (s : State), (run t s rs).2.length = rs.length
  | [], _ => rfl
  | r :: rs, s => by
    simp only [run, List.length_cons]
    rw [run_length t rs]

theorem run_inv (t : Table) : ∀ (rs : List Req) (s : State), Inv s →
    Inv (run t s rs).1 ∧
    (run t s rs).1.physPins = s.physPins ++ outcomePins (run t s rs).2 ∧
    (run t s rs).1.requested = s.requested ++ grantedKeys rs (run t s rs).2
  | [], s, hi => by simp [run, outcomePins, grantedKeys, hi]
  | r :: rs, s, hi => by
    cases hq : request t s r with
    | error e =>
      have hs : step t s r = (s, .refused e) := by simp [step, hq]
      have ih := run_inv t rs s hi
      simp only [run, hs]
      refine ⟨ih.1, ?_, ?_⟩
      · rw [ih.2.1]; simp [outcomePins, Outcome.pins]
      · rw [ih.2.2]; simp [grantedKeys]
    | ok p =>
      obtain ⟨s1, gs⟩ := p
      have hs : step t s r = (s1, .granted gs) := by simp [step, hq]
      have g := request_ok t s r s1 gs hq
      have ih := run_inv t rs s1 (g.inv hi)
      simp only [run, hs]
      refine ⟨ih.1, ?_, ?_⟩
      · rw [ih.2.1, g.phys]; simp [outcomePins, Outcome.pins, List.append_assoc]
      · rw [ih.2.2, g.requested]; simp [grantedKeys, List.append_assoc]

end Amaranth.Res
