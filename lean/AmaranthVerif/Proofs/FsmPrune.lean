import AmaranthVerif.Model.Fsm

/-!
# Removing empty blocks changes nothing

The driver compares the model's statements with the ones amaranth built after `Stmt.prune` (empty sequences and
choices whose alternatives are all empty are dropped). Pruned and unpruned statements execute alike, drive the same
signals through the same masks, and therefore are the same process.
-/

namespace Amaranth

theorem isSkip_eq {s : Stmt} (h : s.isSkip = true) : s = .skip := by
  cases s <;> simp [Stmt.isSkip] at h ⊢

theorem prune_exec (ctx : Ctx) (cur : Env) : ∀ (s : Stmt) (nxt : Env), execRtl ctx cur s.prune nxt = execRtl ctx cur s nxt := by
  intro s
  induction s with
  | skip => intro nxt; rfl
  | seq a b iha ihb =>
    intro nxt
    simp only [Stmt.prune]
    split
    · rename_i h
      have := isSkip_eq h
      simp only [execRtl, ← iha, ← ihb, this]
    · split
      · rename_i _ h
        have := isSkip_eq h
        simp only [execRtl, ← iha, ← ihb, this]
      · simp only [execRtl, iha, ihb]
  | assign l r => intro nxt; rfl
  | ite t p thn els ih1 ih2 =>
    intro nxt
    simp only [Stmt.prune]
    split
    · rename_i h
      simp only [Bool.and_eq_true] at h
      have h1 := isSkip_eq h.1
      have h2 := isSkip_eq h.2
      simp only [execRtl, ← ih1, ← ih2, h1, h2, ite_self]
    · simp only [execRtl, ih1, ih2]

theorem prune_mask (ctx : Ctx) : ∀ (s : Stmt) (t : MaskTab), stmtMask ctx s.prune t = stmtMask ctx s t := by
  intro s
  induction s with
  | skip => intro t; rfl
  | seq a b iha ihb =>
    intro t
    simp only [Stmt.prune]
    split
    · rename_i h
      have := isSkip_eq h
      simp only [stmtMask, ← iha, ← ihb, this]
    · split
      · rename_i _ h
        have := isSkip_eq h
        simp only [stmtMask, ← iha, ← ihb, this]
      · simp only [stmtMask, iha, ihb]
  | assign l r => intro t; rfl
  | ite c p thn els ih1 ih2 =>
    intro t
    simp only [Stmt.prune]
    split
    · rename_i h
      simp only [Bool.and_eq_true] at h
      have h1 := isSkip_eq h.1
      have h2 := isSkip_eq h.2
      simp only [stmtMask, ← ih1, ← ih2, h1, h2]
    · simp only [stmtMask, ih1, ih2]

theorem prune_sigs : ∀ (s : Stmt), stmtSigs s.prune = stmtSigs s := by
  intro s
  induction s with
  | skip => rfl
  | seq a b iha ihb =>
    simp only [Stmt.prune]
    split
    · rename_i h
      have := isSkip_eq h
      simp only [stmtSigs, ← iha, ← ihb, this, List.nil_append]
    · split
      · rename_i _ h
        have := isSkip_eq h
        simp only [stmtSigs, ← iha, ← ihb, this, List.append_nil]
      · simp only [stmtSigs, iha, ihb]
  | assign l r => rfl
  | ite c p thn els ih1 ih2 =>
    simp only [Stmt.prune]
    split
    · rename_i h
      simp only [Bool.and_eq_true] at h
      have h1 := isSkip_eq h.1
      have h2 := isSkip_eq h.2
      simp only [stmtSigs, ← ih1, ← ih2, h1, h2, List.append_nil]
    · simp only [stmtSigs, ih1, ih2]

/-- pruned statements are the same combinational and the same synchronous process -/
theorem prune_process (ctx : Ctx) (inits : Env) (rl : List Bool) (rst : Option Int) (s : Stmt) (cur : Env) :
    combProcess ctx inits s.prune cur = combProcess ctx inits s cur ∧
    syncProcess ctx inits rl rst s.prune cur = syncProcess ctx inits rl rst s cur := by
  unfold combProcess syncProcess
  simp only [prune_mask, prune_sigs, prune_exec, and_self]

end Amaranth
