import AmaranthVerif.Proofs.EmitBackend3

/-!
# `Match` + `AssignmentList`: the emitted process (helper lemmas for `C04.emit_expr_correct`)

The process `assign lhs 0; switch test; case …: assign lhs v …` leaves on the output wire the value of the first case
whose pattern list the evaluator matches (`caseHit`), 0 if there is none.
-/

namespace Amaranth.Rtlil
open Amaranth

/-- the evaluator's reading of the emitted `case`s: the single all-don't-care pattern is the default case, an empty
pattern list is left out, otherwise some pattern must match -/
def caseHit (tw t : Nat) (pats : List Pat) : Bool :=
  decide (pats = [Pat.dontCare tw]) || (!pats.isEmpty && pats.any (fun p => patMatches (p.map patBit) t))

/-- the value of the first case that is hit, `d` if none is -/
def selCase (env : Env) (tw t d : Nat) : List (List Pat × Val) → Nat
  | [] => d
  | (pats, v) :: rest => if caseHit tw t pats then valOf env v else selCase env tw t d rest

/-! ## the left-hand side `$y [w-1:0]` -/

theorem runs_wireBits (y : String) : ∀ (w s : Nat), runs (wireBits y s (w + 1)) = [Run.wire y s (w + 1)]
  | 0, s => rfl
  | w + 1, s => by
    have ih := runs_wireBits y w (s + 1)
    rw [wireBits, runs, ih]
    simp [pushNet]

theorem emitSpec_wireBits (y : String) (w : Nat) :
    emitSpec (wireBits y 0 w) = if w = 0 then .cat [] else .one (if w = 1 then .bit y 0 else .slice y (w - 1) 0) := by
  cases w with
  | zero => rfl
  | succ w =>
    unfold emitSpec
    rw [runs_wireBits]
    simp [Run.chunk]

theorem setBits_zero_mod (old k v : Nat) : setBits old 0 k v % 2 ^ k = v % 2 ^ k := by
  unfold setBits
  simp only [Nat.pow_zero, Nat.mod_one, Nat.zero_add, Nat.mul_one]
  rw [Nat.add_mul_mod_self_right, Nat.mod_mod]

/-- writing `v` to the sigspec of the whole output wire -/
theorem writeLhs (c : Ctx) (env : Env) (y : String) (w v : Nat) :
    ∃ x, writeSpec c env (emitSpec (wireBits y 0 w)) v = (if w = 0 then env else env.insert y x) ∧ x % 2 ^ w = v % 2 ^ w := by
  rw [emitSpec_wireBits]
  by_cases h0 : w = 0
  · subst h0
    exact ⟨0, by simp [writeSpec, SigSpec.chunks], by simp [Nat.mod_one]⟩
  · simp only [h0, if_false]
    by_cases h1 : w = 1
    · subst h1
      refine ⟨setBits (env.getD y 0) 0 1 (v % 2 ^ 1), ?_, ?_⟩
      · simp [writeSpec, SigSpec.chunks, writeChunk, chunkWidthE]
      · rw [setBits_zero_mod]; simp
    · simp only [h1, if_false]
      have hk : w - 1 + 1 - 0 = w := by omega
      refine ⟨setBits (env.getD y 0) 0 w (v % 2 ^ w), ?_, ?_⟩
      · simp [writeSpec, SigSpec.chunks, writeChunk, chunkWidthE, hk]
      · rw [setBits_zero_mod]; simp

/-- the environments a process writing only the low `w` bits of `y` can produce from `env` -/
def LhsOnly (y : String) (w : Nat) (env env' : Env) (val : Nat) : Prop :=
  (∀ n, n ≠ y → env'.getD n 0 = env.getD n 0) ∧ valOf env' (wireBits y 0 w) = val % 2 ^ w

theorem lhsOnly_write (c : Ctx) (env0 env : Env) (y : String) (w v : Nat)
    (h0 : ∀ n, n ≠ y → env.getD n 0 = env0.getD n 0) :
    LhsOnly y w env0 (writeSpec c env (emitSpec (wireBits y 0 w)) v) v := by
  obtain ⟨x, hx, hm⟩ := writeLhs c env y w v
  rw [hx]
  by_cases hw : w = 0
  · subst hw
    simp only [if_true]
    exact ⟨h0, by simp [wireBits, valOf, Nat.mod_one]⟩
  · simp only [hw, if_false]
    refine ⟨fun n hn => by rw [getD_insert_ne _ _ _ _ hn]; exact h0 n hn, ?_⟩
    rw [valOf_wireBits, Std.HashMap.getD_insert_self, Nat.pow_zero, Nat.div_one, hm]

/-! ## the cases -/

theorem evalCases_mkCases (c : Ctx) (src env0 : Env) (y : String) (w tw t : Nat) :
    ∀ (cases : List (List Pat × Val)) (env : Env) (d : Nat), LhsOnly y w env0 env d →
      ∃ env', evalCases c src t (mkCases (emitSpec (wireBits y 0 w)) tw cases) env = env' ∧
        LhsOnly y w env0 env' (selCase src tw t d cases)
  | [], env, d, h => ⟨env, rfl, h⟩
  | (pats, v) :: rest, env, d, h => by
    unfold mkCases selCase caseHit
    by_cases hd : pats = [Pat.dontCare tw]
    · simp only [hd, if_true, decide_true, Bool.true_or, evalCases, List.isEmpty_nil, evalBody, specVal_emitSpec]
      exact ⟨_, rfl, lhsOnly_write c env0 env y w _ h.1⟩
    · simp only [hd, if_false, decide_false, Bool.false_or]
      by_cases he : pats.isEmpty = true
      · simp only [he, if_true, Bool.not_true, Bool.false_and, Bool.false_eq_true, if_false]
        exact evalCases_mkCases c src env0 y w tw t rest env d h
      · have he' : pats.isEmpty = false := by simpa using he
        have hne : (pats.map (fun p => p.map patBit)).isEmpty = false := by
          cases pats with
          | nil => simp at he'
          | cons a b => rfl
        simp only [he', Bool.false_eq_true, if_false, Bool.not_false, Bool.true_and, evalCases, hne, Bool.false_or, List.any_map]
        by_cases hm : (pats.any ((fun p => patMatches p t) ∘ fun p => p.map patBit)) = true
        · have hm' : pats.any (fun p => patMatches (p.map patBit) t) = true := hm
          simp only [hm, hm', if_true, evalBody, specVal_emitSpec]
          exact ⟨_, rfl, lhsOnly_write c env0 env y w _ h.1⟩
        · have hm' : pats.any (fun p => patMatches (p.map patBit) t) = false := by simpa using hm
          have hm2 : (pats.any ((fun p => patMatches p t) ∘ fun p => p.map patBit)) = false := by simpa using hm
          simp only [hm2, hm', Bool.false_eq_true, if_false]
          exact evalCases_mkCases c src env0 y w tw t rest env d h

/-- **The process of an `AssignmentList`**: the output wire gets the value of the first case the evaluator matches. -/
theorem emitAssignList_sound (c : Ctx) (m : Mems) (test : Val) (cases : List (List Pat × Val)) (width k : Nat) (env : Env) :
    EmSound c m k env (emitAssignList test cases width k)
      (fun out => out = selCase env test.length (valOf env test) 0 cases % 2 ^ width) := by
  have h1 : LhsOnly (autoName k) width env
      (writeSpec c env (emitSpec (wireBits (autoName k) 0 width)) (specVal c env (emitSpec (constBits 0 width)))) 0 := by
    have := lhsOnly_write c env env (autoName k) width (specVal c env (emitSpec (constBits 0 width))) (fun _ _ => rfl)
    rw [specVal_emitSpec, valOf_constBits_nat] at this ⊢
    simpa using this
  have key : ∃ env', evalNodes c m (emitAssignList test cases width k).nodes env = .ok env' ∧
      LhsOnly (autoName k) width env env' (selCase env test.length (valOf env test) 0 cases) := by
    unfold emitAssignList
    simp only
    by_cases hc : cases.isEmpty = true
    · have : cases = [] := List.isEmpty_iff.mp hc
      subst this
      exact ⟨_, evalNodes_single c m _ _ _ rfl, h1⟩
    · simp only [hc, Bool.false_eq_true, if_false]
      obtain ⟨env', he, hl⟩ := evalCases_mkCases c env env (autoName k) width test.length (valOf env test) cases _ 0 h1
      refine ⟨env', evalNodes_single c m _ _ _ ?_, hl⟩
      simp only [evalNode, evalBody, specVal_emitSpec] at he ⊢
      rw [← he]
  obtain ⟨env', hr, hf, hv⟩ := key
  refine ⟨show k ≤ k + 2 by omega, old_wireBits (oldName_auto (show k < k + 2 by omega)) _ _, env', hr, ?_, hv⟩
  intro n hn
  exact hf n (hn k (Nat.le_refl k))

end Amaranth.Rtlil
