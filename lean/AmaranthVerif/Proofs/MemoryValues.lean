import AmaranthVerif.Proofs.MemoryTb
import AmaranthVerif.Proofs.ShapeLemmas

/-!
# The integers a testbench sees are the rows of the Spec

* `toInt_toBits`: for an integer inside the row shape, `toInt (toBits v) = v`;
* `Vals`: every row and every read-port output is inside the row shape — an invariant of `step` and `tbWrite`.
-/

namespace Amaranth.Mem
open Amaranth.MemRows (toBits toNat toInt absState)

theorem ibit_succ (v : Int) (i : Nat) : ibit v (i + 1) = ibit (v / 2) i := by
  cases v with
  | ofNat m =>
    have : (Int.ofNat m) / 2 = Int.ofNat (m / 2) := by
      rw [show Int.ofNat m = (m : Int) from rfl, show Int.ofNat (m / 2) = ((m / 2 : Nat) : Int) from rfl,
        Int.natCast_ediv]; rfl
    rw [this]; simp only [ibit]; exact Nat.testBit_succ m i
  | negSucc m =>
    have : (Int.negSucc m) / 2 = Int.negSucc (m / 2) := by
      rw [Int.negSucc_ediv _ (by decide), Int.negSucc_eq]
      have : (m : Int).ediv 2 = ((m / 2 : Nat) : Int) := by rw [Int.natCast_ediv]; rfl
      rw [this]
    rw [this]; simp only [ibit]; rw [Nat.testBit_succ]

theorem ibit_zero (v : Int) : ibit v 0 = decide (v % 2 = 1) := by
  cases v with
  | ofNat m =>
    simp only [ibit, Nat.testBit_zero]
    rw [show Int.ofNat m = (m : Int) from rfl]
    have : ((m : Int) % 2 = 1) ↔ (m % 2 = 1) := by omega
    rw [decide_eq_decide]; exact this.symm
  | negSucc m =>
    simp only [ibit, Nat.testBit_zero]
    have : (Int.negSucc m % 2 = 1) ↔ ¬ (m % 2 = 1) := by rw [Int.negSucc_eq]; omega
    rw [← decide_not, decide_eq_decide]; exact this.symm

theorem toBits_succ (w : Nat) (v : Int) : toBits (w + 1) v = ibit v 0 :: toBits w (v / 2) := by
  unfold toBits
  rw [List.range_succ_eq_map, List.map_cons, List.map_map]
  congr 1
  apply List.map_congr_left
  intro i _
  exact ibit_succ v i

/-- the bits of `v`, read as a number, are `v mod 2^w` -/
theorem toNat_toBits (w : Nat) (v : Int) : (toNat (toBits w v) : Int) = v % 2 ^ w := by
  induction w generalizing v with
  | zero => simp [toBits, toNat]
  | succ w ih =>
    rw [toBits_succ, toNat]
    push_cast
    rw [ih (v / 2), ibit_zero]
    have hP : (0 : Int) < 2 ^ w := two_pow_pos' w
    have h2 : (2 : Int) ^ (w + 1) = 2 * 2 ^ w := two_pow_succ' w
    have hq := Int.mul_ediv_add_emod (v / 2) (2 ^ w)
    have hb0 := Int.emod_nonneg (v / 2) (Int.ne_of_gt hP)
    have hb1 := Int.emod_lt_of_pos (v / 2) hP
    have hv := Int.mul_ediv_add_emod v 2
    have hr := Int.emod_two_eq v
    have key : v / (2 ^ (w + 1)) = (v / 2) / 2 ^ w ∧
        v % (2 ^ (w + 1)) = (if decide (v % 2 = 1) = true then (1 : Int) else 0) + 2 * ((v / 2) % 2 ^ w) := by
      rw [Int.ediv_emod_unique (by omega)]
      rw [h2]
      have e : 2 * 2 ^ w * (v / 2 / 2 ^ w) = 2 * (2 ^ w * (v / 2 / 2 ^ w)) := Int.mul_assoc ..
      rw [e]
      rcases hr with hr | hr <;> simp [hr] <;> omega
    rw [key.2]
    split <;> simp

theorem toInt_toBits (sh : Shape) (hwf : sh.WF) (v : Int) (h : sh.contains v) :
    toInt sh.signed (toBits sh.width v) = v := by
  obtain ⟨w, sg⟩ := sh
  have hP := two_pow_pos' w
  unfold toInt
  cases sg with
  | false =>
    rw [Shape.contains_u] at h
    simp only [Bool.false_and, Bool.false_eq_true, if_false]
    rw [toNat_toBits, Int.emod_eq_of_lt h.1 h.2]
  | true =>
    have hw : 0 < w := hwf rfl
    rw [Shape.contains_s] at h
    have e := two_pow_pred w hw
    simp only [Bool.true_and]
    have hlast : (toBits w v).getLastD false = ibit v (w - 1) := by
      rw [List.getLastD_eq_getLast?, List.getLast?_eq_getElem?, toBits_length,
        List.getElem?_eq_getElem (by rw [toBits_length]; omega), toBits_getElem]
      rfl
    rw [hlast, toBits_length, toNat_toBits]
    by_cases hneg : v < 0
    · -- negative: the sign bit is set and `v mod 2^w = v + 2^w`
      have hbit : ibit v (w - 1) = true := by
        obtain ⟨m, rfl⟩ : ∃ m, v = Int.negSucc m := by
          cases v with
          | ofNat m => exact absurd hneg (by rw [show Int.ofNat m = (m : Int) from rfl]; omega)
          | negSucc m => exact ⟨m, rfl⟩
        simp only [ibit]
        have hm : m < 2 ^ (w - 1) := by
          have : ((m : Nat) : Int) < ((2 ^ (w - 1) : Nat) : Int) := by
            push_cast; rw [Int.negSucc_eq] at h; omega
          exact_mod_cast this
        rw [Nat.testBit_lt_two_pow hm]; rfl
      rw [if_pos hbit]
      have : v % 2 ^ w = v + 2 ^ w := by
        rw [← Int.add_emod_right, Int.emod_eq_of_lt (by omega) (by omega)]
      rw [this]; omega
    · have hbit : ibit v (w - 1) = false := by
        obtain ⟨m, rfl⟩ : ∃ m : Nat, v = (m : Int) := Int.eq_ofNat_of_zero_le (by omega)
        rw [ibit_ofNat]
        have hm : m < 2 ^ (w - 1) := by
          have : ((m : Nat) : Int) < ((2 ^ (w - 1) : Nat) : Int) := by push_cast; omega
          exact_mod_cast this
        exact Nat.testBit_lt_two_pow hm
      rw [if_neg (by rw [hbit]; decide)]
      exact Int.emod_eq_of_lt (by omega) (by omega)

/-! ## Every stored value is inside the row shape -/

theorem pyAnd_natCast_left (x : Nat) (y : Int) : 0 ≤ pyAnd (x : Int) y ∧ pyAnd (x : Int) y ≤ x := by
  cases y with
  | ofNat n =>
    show 0 ≤ ((x &&& n : Nat) : Int) ∧ ((x &&& n : Nat) : Int) ≤ x
    have : x &&& n ≤ x := Nat.and_le_left
    omega
  | negSucc n =>
    show 0 ≤ ((x - (x &&& n) : Nat) : Int) ∧ ((x - (x &&& n) : Nat) : Int) ≤ x
    omega

theorem pyAnd_natCast_right (y : Int) (x : Nat) : 0 ≤ pyAnd y (x : Int) ∧ pyAnd y (x : Int) ≤ x := by
  cases y with
  | ofNat n =>
    show 0 ≤ ((n &&& x : Nat) : Int) ∧ ((n &&& x : Nat) : Int) ≤ x
    have : n &&& x ≤ x := Nat.and_le_right
    omega
  | negSucc n =>
    show 0 ≤ ((x - (x &&& n) : Nat) : Int) ∧ ((x - (x &&& n) : Nat) : Int) ≤ x
    omega

theorem pyOr_lt_two_pow (a b : Int) (w : Nat) (ha0 : 0 ≤ a) (ha : a < 2 ^ w) (hb0 : 0 ≤ b) (hb : b < 2 ^ w) :
    0 ≤ pyOr a b ∧ pyOr a b < 2 ^ w := by
  obtain ⟨m, rfl⟩ := Int.eq_ofNat_of_zero_le ha0
  obtain ⟨n, rfl⟩ := Int.eq_ofNat_of_zero_le hb0
  show 0 ≤ ((m ||| n : Nat) : Int) ∧ ((m ||| n : Nat) : Int) < 2 ^ w
  have hm : m < 2 ^ w := by exact_mod_cast ha
  have hn : n < 2 ^ w := by exact_mod_cast hb
  have := Nat.or_lt_two_pow hm hn
  constructor
  · omega
  · exact_mod_cast this

/-- a masked merge into a value of an unsigned shape stays inside the shape, for any `value`, when the mask does -/
theorem pyMerge_lt (value mk old : Int) (w : Nat) (hm0 : 0 ≤ mk) (hm : mk < 2 ^ w) (ho0 : 0 ≤ old) (ho : old < 2 ^ w) :
    0 ≤ pyMerge value mk old ∧ pyMerge value mk old < 2 ^ w := by
  obtain ⟨m, rfl⟩ := Int.eq_ofNat_of_zero_le hm0
  obtain ⟨o, rfl⟩ := Int.eq_ofNat_of_zero_le ho0
  unfold pyMerge
  have h1 := pyAnd_natCast_right value m
  have h2 := pyAnd_natCast_left o (pyNot (m : Int))
  exact pyOr_lt_two_pow _ _ w h1.1 (by omega) h2.1 (by omega)

theorem resign_pyMerge_contains (sh : Shape) (hwf : sh.WF) (value mk old : Int)
    (hm0 : 0 ≤ mk) (hm : mk < 2 ^ sh.width) (ho : sh.contains old) :
    sh.contains (resign sh (pyMerge value mk old)) := by
  unfold resign
  split
  · exact norm_contains sh hwf _
  · next hs =>
    obtain ⟨w, sg⟩ := sh
    have : sg = false := by simpa using hs
    subst this
    rw [Shape.contains_u] at ho ⊢
    exact pyMerge_lt value mk old w hm0 hm ho.1 ho.2

/-- every row and every read-port output is a value of the row shape -/
structure Vals (c : Cfg) (s : State) : Prop where
  rows : ∀ a, a < s.rows.length → c.shape.contains (s.rows.getD a 0)
  rdata : ∀ k, k < s.rdata.length → c.shape.contains (s.rdata.getD k 0)

theorem pending_contains (sh : Shape) (rows : List Int) (q : Queue) (a : Nat)
    (hr : sh.contains (rows.getD a 0)) (hq : ∀ v, q.getD a none = some v → sh.contains v) :
    sh.contains (pending rows q a) := by
  unfold pending
  rcases h : q.getD a none with _ | v
  · exact hr
  · exact hq v h

theorem qwrite_contains (sh : Shape) (hwf : sh.WF) (rows : List Int) (q : Queue) (addr : Nat) (value mk : Int)
    (hm0 : 0 ≤ mk) (hm : mk < 2 ^ sh.width)
    (hrows : ∀ a, a < rows.length → sh.contains (rows.getD a 0))
    (hq : ∀ a v, q.getD a none = some v → sh.contains v) :
    ∀ a v, (qwrite sh rows q addr value mk).getD a none = some v → sh.contains v := by
  intro a v hv
  unfold qwrite at hv
  split at hv
  · next hlt =>
    rw [List.getD_eq_getElem?_getD, List.getElem?_set] at hv
    split at hv
    · next heq =>
      subst heq
      split at hv
      · simp only [Option.getD_some, Option.some.injEq] at hv
        subst hv
        exact resign_pyMerge_contains sh hwf _ _ _ hm0 hm
          (pending_contains sh rows q addr (hrows addr hlt) (hq addr))
      · simp at hv
    · rw [← List.getD_eq_getElem?_getD] at hv; exact hq a v hv
  · exact hq a v hv

theorem enqueue_contains (sh : Shape) (hwf : sh.WF) (rows : List Int)
    (hrows : ∀ a, a < rows.length → sh.contains (rows.getD a 0)) (wvs : List (Option WVal))
    (hw : ∀ wv, some wv ∈ wvs → 0 ≤ wv.en ∧ wv.en < 2 ^ sh.width) (q : Queue)
    (hq : ∀ a v, q.getD a none = some v → sh.contains v) :
    ∀ a v, (enqueue sh rows q wvs).getD a none = some v → sh.contains v := by
  induction wvs generalizing q with
  | nil => exact hq
  | cons o r ih =>
    cases o with
    | none => exact ih (fun wv h => hw wv (List.mem_cons_of_mem _ h)) q hq
    | some wv =>
      simp only [enqueue]
      have hen := hw wv (List.mem_cons_self ..)
      exact ih (fun wv h => hw wv (List.mem_cons_of_mem _ h)) _
        (qwrite_contains sh hwf rows q wv.addr wv.data wv.en hen.1 hen.2 hrows hq)

theorem empty_contains (sh : Shape) (n : Nat) : ∀ a v, (Queue.empty n).getD a none = some v → sh.contains v := by
  intro a v h
  unfold Queue.empty at h
  rw [List.getD_eq_getElem?_getD, List.getElem?_replicate] at h
  split at h <;> simp at h

theorem commit_contains (sh : Shape) (rows : List Int) (q : Queue)
    (hrows : ∀ a, a < rows.length → sh.contains (rows.getD a 0))
    (hq : ∀ a v, q.getD a none = some v → sh.contains v) :
    ∀ a, a < (commit rows q).length → sh.contains ((commit rows q).getD a 0) := by
  intro a ha
  rw [length_commit] at ha
  rw [List.getD_eq_getElem?_getD, List.getElem?_eq_getElem (by rw [length_commit]; exact ha), commit_getElem _ _ _ ha]
  exact pending_contains sh rows q a (hrows a ha) (hq a)

theorem vals_step (c : Cfg) (hwf : c.shape.WF) (s : State) (inp : Inputs) (e : Event) (hinv : Inv c s)
    (h : Vals c s) : Vals c (step c s inp e) := by
  constructor
  · unfold step stepG
    simp only
    apply commit_contains c.shape s.rows _ h.rows
    apply enqueue_contains c.shape hwf s.rows h.rows _ _ _ (empty_contains _ _)
    intro wv hmem
    unfold wvals at hmem
    rw [List.mem_map] at hmem
    obtain ⟨k, _, hk⟩ := hmem
    unfold wvalOf at hk
    simp only at hk
    split at hk
    · cases hk
      simp only [wval]
      exact ⟨mask_nonneg _ _, mask_lt _ _⟩
    · cases hk
  · intro k hk
    rw [step_rdata_length] at hk
    rw [step_rdata_getD c s inp e k hk]
    have hold : c.shape.contains (s.rdata.getD k 0) := h.rdata k (by rw [hinv.rdata]; exact hk)
    split
    · exact hold
    · split
      · unfold capture; exact norm_contains c.shape hwf _
      · exact hold

theorem vals_tbWrite (c : Cfg) (hwf : c.shape.WF) (s : State) (i start stop : Nat) (v : Int)
    (hss : start ≤ stop) (hsw : stop ≤ c.shape.width) (h : Vals c s) : Vals c (tbWrite c s i start stop v) := by
  constructor
  · unfold tbWrite
    simp only
    apply commit_contains c.shape s.rows _ h.rows
    apply qwrite_contains c.shape hwf s.rows _ _ _ _ _ _ h.rows (empty_contains _ _)
    · have := two_pow_mono hss; omega
    · have h1 := two_pow_mono hsw
      have h2 := two_pow_pos' start
      omega
  · exact h.rdata

/-- the integers held by the simulator are the integer reading of the Spec's rows -/
theorem values_are_rows (c : Cfg) (hwf : c.shape.WF) (s : State) (h : Vals c s) :
    (absState c s).mem.map (toInt c.shape.signed) = s.rows ∧
    (absState c s).rdata.map (toInt c.shape.signed) = s.rdata := by
  have key : ∀ (l : List Int), (∀ a, a < l.length → c.shape.contains (l.getD a 0)) →
      (l.map (toBits c.shape.width)).map (toInt c.shape.signed) = l := by
    intro l hl
    apply List.ext_getElem
    · simp
    · intro a h1 h2
      simp only [List.getElem_map]
      have := hl a h2
      rw [List.getD_eq_getElem?_getD, List.getElem?_eq_getElem h2] at this
      exact toInt_toBits c.shape hwf _ this
  exact ⟨key s.rows h.rows, key s.rdata h.rdata⟩

end Amaranth.Mem
