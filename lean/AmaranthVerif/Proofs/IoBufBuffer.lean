import AmaranthVerif.Proofs.IoBufBits

/-! # `Buffer` and `FFBuffer` on a simulation port compute the Spec's bit sentences (helper file of C18) -/

namespace Amaranth.IoBuf
open Spec (toBits ofBits)

/-- a model observation, bit by bit -/
def obsOf (w : Nat) (b : BufOut) : Spec.Obs :=
  ⟨b.portO.map (toBits w), b.portOe.map (toBits w), b.i.map (toBits w)⟩

def evOf (w : Nat) (e : FFEvent) : Spec.Ev :=
  ⟨toBits w e.x.o, e.x.oe, toBits w e.x.pi, e.tickI, e.tickO⟩

theorem zipWith_xor_cancel (a inv : List Bool) (h : a.length = inv.length) :
    List.zipWith xor (List.zipWith xor a inv) inv = a := by
  apply List.ext_getElem (by simp [h])
  intro k h1 h2
  simp [List.getElem_zipWith]

theorem toBits_muxBits_rep (w : Nat) (oe : Bool) (a b : Nat) :
    toBits w (muxBits w (replicateBit oe w) a b) = if oe then toBits w a else toBits w b := by
  cases oe
  · apply toBits_ext (by simp)
    intro k hk
    have hk' : k < w := by simpa using hk
    simp [testBit_muxBits, hk', replicateBit, getElem_toBits]
  · apply toBits_ext (by simp)
    intro k hk
    have hk' : k < w := by simpa using hk
    simp [testBit_muxBits, hk', replicateBit, Nat.testBit_two_pow_sub_one, getElem_toBits]

/-- `Buffer.elaborate` on a simulation port, all three directions -/
theorem buffer_refines (bdir : Dir) (inv : List Bool) (x : BufIn) :
    obsOf inv.length (Buffer.comb bdir inv x) =
      Spec.buffer bdir inv (toBits inv.length x.o) x.oe (toBits inv.length x.pi) := by
  cases bdir with
  | i =>
    simp only [Buffer.comb, obsOf, Spec.buffer, Option.map, toBits_xorInv, Spec.bufI]
    simp
  | o =>
    simp only [Buffer.comb, obsOf, Spec.buffer, Option.map, toBits_xorInv, toBits_replicateBit, Spec.portO,
      Spec.portOe]
    simp
  | io =>
    simp only [Buffer.comb, obsOf, Spec.buffer, Option.map, toBits_xorInv, toBits_replicateBit, Spec.portO,
      Spec.portOe, toBits_muxBits_rep, Spec.bufIBidir, Spec.bufI]
    cases x.oe
    · simp
    · simp [zipWith_xor_cancel]

theorem buffer_bounded (bdir : Dir) (inv : List Bool) (x : BufIn) (ho : x.o < 2 ^ inv.length)
    (hpi : x.pi < 2 ^ inv.length) :
    (∀ v, (Buffer.comb bdir inv x).portO = some v → v < 2 ^ inv.length) ∧
    (∀ v, (Buffer.comb bdir inv x).portOe = some v → v < 2 ^ inv.length) ∧
    (∀ v, (Buffer.comb bdir inv x).i = some v → v < 2 ^ inv.length) := by
  cases bdir <;> simp only [Buffer.comb] <;> refine ⟨?_, ?_, ?_⟩ <;> intro v hv <;>
    simp only [Option.some.injEq, reduceCtorEq] at hv <;> subst hv
  · exact xorInv_lt inv _ hpi
  · exact xorInv_lt inv _ ho
  · exact replicateBit_lt _ _
  · exact xorInv_lt inv _ ho
  · exact replicateBit_lt _ _
  · exact xorInv_lt inv _ (muxBits_lt _ _ _ _)

/-! ## registered buffer -/

theorem ff_refines (bdir : Dir) (inv : List Bool) (s : FFState) (es : List FFEvent) :
    (FFBuffer.run bdir inv s es).map (obsOf inv.length) =
      Spec.ffRun bdir inv (toBits inv.length s.oFf) s.oeFf (toBits inv.length s.iFf)
        (es.map (evOf inv.length)) := by
  induction es generalizing s with
  | nil => rfl
  | cons e es ih =>
    simp only [FFBuffer.run, List.map_cons, Spec.ffRun, evOf]
    have hb := buffer_refines bdir inv ⟨s.oFf, s.oeFf, e.x.pi⟩
    have hi : toBits inv.length ((FFBuffer.inner bdir inv s e.x.pi).i.getD s.iFf) =
        (Spec.buffer bdir inv (toBits inv.length s.oFf) s.oeFf (toBits inv.length e.x.pi)).i.getD
          (toBits inv.length s.iFf) := by
      rw [← hb]
      simp only [FFBuffer.inner, obsOf]
      cases (Buffer.comb bdir inv ⟨s.oFf, s.oeFf, e.x.pi⟩).i <;> rfl
    congr 1
    · -- the observation after this event
      have hb' := buffer_refines bdir inv ⟨(FFBuffer.step bdir inv s e).oFf, (FFBuffer.step bdir inv s e).oeFf, e.x.pi⟩
      simp only [FFBuffer.out, FFBuffer.inner, obsOf, Spec.Obs.mk.injEq]
      have h1 := congrArg Spec.Obs.portO hb'
      have h2 := congrArg Spec.Obs.portOe hb'
      simp only [obsOf] at h1 h2
      have ho : toBits inv.length (FFBuffer.step bdir inv s e).oFf =
          (if e.tickO then toBits inv.length e.x.o else toBits inv.length s.oFf) := by
        simp only [FFBuffer.step]; split <;> rfl
      have hoe : (FFBuffer.step bdir inv s e).oeFf = (if e.tickO then e.x.oe else s.oeFf) := rfl
      refine ⟨?_, ?_, ?_⟩
      · rw [h1, ho, hoe]
      · rw [h2, ho, hoe]
      · by_cases hd : bdir = .o
        · simp [hd]
        · simp only [hd, if_false, Option.map, Option.some.injEq]
          simp only [FFBuffer.step]
          split
          · exact hi
          · rfl
    · -- the rest of the run, from the new register contents
      rw [ih]
      congr 1
      · simp only [FFBuffer.step]; split <;> rfl
      · simp only [FFBuffer.step]
        split
        · exact hi
        · rfl

/-- with a single clock (every event is an edge of both domains) the two-clock reading is the
"delayed by exactly one" reading -/
theorem ffRun_single (bdir : Dir) (inv : List Bool) (ro : List Bool) (roe : Bool) (ri : List Bool)
    (evs : List Spec.Ev) (h : ∀ e ∈ evs, e.tickI = true ∧ e.tickO = true) :
    Spec.ffRun bdir inv ro roe ri evs =
      Spec.ffTrace bdir inv ro roe (evs.map fun e => (e.o, e.oe, e.pi)) := by
  induction evs generalizing ro roe ri with
  | nil => rfl
  | cons e evs ih =>
    obtain ⟨hti, hto⟩ := h e (by simp)
    simp only [Spec.ffRun, List.map_cons, Spec.ffTrace, hti, hto, if_true]
    congr 1
    · simp only [Spec.Obs.mk.injEq, true_and]
      cases bdir <;> simp [Spec.buffer]
    · exact ih _ _ _ (fun e' he' => h e' (by simp [he']))

end Amaranth.IoBuf
