import AmaranthVerif.Proofs.CrcBits

/-! # The one-bit step is linear; the wide register of `compute` follows the serial register -/

namespace Amaranth.Crc
open Amaranth.Williams

/-- the step with a zero message bit: shift and reduce -/
def S0 (w poly reg : Nat) : Nat := stepBit w poly reg false

/-- the register after a bit stream -/
abbrev feed (w poly reg : Nat) (bs : List Bool) : Nat := bs.foldl (stepBit w poly) reg

theorem xor_cancel_left (a b : Nat) : a ^^^ (a ^^^ b) = b := by
  rw [← Nat.xor_assoc, Nat.xor_self, Nat.zero_xor]

theorem xor_left_comm (a b c : Nat) : a ^^^ (b ^^^ c) = b ^^^ (a ^^^ c) := by
  rw [← Nat.xor_assoc, Nat.xor_comm a b, Nat.xor_assoc]

/-- normalise an equation between xor-sums of naturals -/
macro "xor_ac" : tactic =>
  `(tactic| simp only [Nat.xor_assoc, Nat.xor_comm, xor_left_comm, xor_cancel_left, Nat.xor_self,
      Nat.xor_zero, Nat.zero_xor])

theorem two_mul_eq_shiftLeft (x : Nat) : 2 * x = x <<< 1 := by
  rw [Nat.shiftLeft_eq]; omega

theorem S0_def (w poly reg : Nat) :
    S0 w poly reg = ((reg <<< 1) % 2 ^ w) ^^^ (if reg.testBit (w - 1) then poly else 0) := by
  simp only [S0, stepBit, two_mul_eq_shiftLeft]
  cases reg.testBit (w - 1) <;> simp

theorem stepBit_eq (w poly reg : Nat) (b : Bool) :
    stepBit w poly reg b = S0 w poly reg ^^^ (if b then poly else 0) := by
  simp only [S0, stepBit]
  cases b <;> cases reg.testBit (w - 1) <;> simp [Nat.xor_assoc]

theorem S0_xor (w poly a b : Nat) : S0 w poly (a ^^^ b) = S0 w poly a ^^^ S0 w poly b := by
  simp only [S0_def, Nat.shiftLeft_xor_distrib, Nat.xor_mod_two_pow, Nat.testBit_xor]
  cases a.testBit (w - 1) <;> cases b.testBit (w - 1) <;> simp <;> xor_ac

theorem S0_zero (w poly : Nat) : S0 w poly 0 = 0 := by simp [S0_def]

theorem S0_lt {w poly : Nat} (hp : poly < 2 ^ w) (reg : Nat) : S0 w poly reg < 2 ^ w := by
  rw [S0_def]
  apply Nat.xor_lt_two_pow (Nat.mod_lt _ (Nat.two_pow_pos w))
  split
  · exact hp
  · exact Nat.two_pow_pos w

theorem stepBit_lt {w poly : Nat} (hp : poly < 2 ^ w) (reg : Nat) (b : Bool) : stepBit w poly reg b < 2 ^ w := by
  rw [stepBit_eq]
  apply Nat.xor_lt_two_pow (S0_lt hp reg)
  split
  · exact hp
  · exact Nat.two_pow_pos w

theorem feed_lt {w poly reg : Nat} (hp : poly < 2 ^ w) (hr : reg < 2 ^ w) (bs : List Bool) : feed w poly reg bs < 2 ^ w := by
  induction bs generalizing reg with
  | nil => exact hr
  | cons b bs ih => exact ih (stepBit_lt hp reg b)

theorem feed_append (w poly reg : Nat) (as bs : List Bool) :
    feed w poly reg (as ++ bs) = feed w poly (feed w poly reg as) bs := by
  simp [feed, List.foldl_append]

/-- linearity of the step in register and message bit jointly -/
theorem stepBit_xor (w poly a b : Nat) (x y : Bool) :
    stepBit w poly (a ^^^ b) (x ^^ y) = stepBit w poly a x ^^^ stepBit w poly b y := by
  simp only [stepBit_eq, S0_xor]
  cases x <;> cases y <;> simp <;> xor_ac

theorem feed_xor (w poly : Nat) (bs cs : List Bool) (h : bs.length = cs.length) (a b : Nat) :
    feed w poly (a ^^^ b) (List.zipWith (fun x y => x ^^ y) bs cs) = feed w poly a bs ^^^ feed w poly b cs := by
  induction bs generalizing cs a b with
  | nil =>
    cases cs with
    | nil => rfl
    | cons c cs => simp at h
  | cons x bs ih =>
    cases cs with
    | nil => simp at h
    | cons y cs =>
      simp only [List.zipWith_cons_cons, List.foldl_cons, stepBit_xor]
      exact ih cs (by simpa using h) _ _

theorem feed_zeros (w poly reg n : Nat) : feed w poly reg (List.replicate n false) = iter (S0 w poly) n reg := by
  induction n generalizing reg with
  | zero => rfl
  | succ n ih => simp only [List.replicate_succ, List.foldl_cons, iter]; exact ih _

/-- `(x <<< a) % 2^(a+b) = (x % 2^b) <<< a` -/
theorem shiftLeft_mod (x a b : Nat) : (x <<< a) % 2 ^ (a + b) = (x % 2 ^ b) <<< a := by
  apply Nat.eq_of_testBit_eq; intro i
  simp only [Nat.testBit_mod_two_pow, Nat.testBit_shiftLeft]
  by_cases h1 : i ≥ a
  · by_cases h2 : i < a + b
    · have : i - a < b := by omega
      simp [h1, h2, this]
    · have : ¬ i - a < b := by omega
      simp [h1, h2, this]
  · simp [h1]

theorem shiftLeft_lt {x a b : Nat} (h : x < 2 ^ b) : x <<< a < 2 ^ (a + b) := by
  rw [Nat.shiftLeft_eq, Nat.pow_add, Nat.mul_comm]
  exact Nat.mul_lt_mul_of_pos_left h (Nat.two_pow_pos a)

/-- the wide step on a register shifted up by `D` is the narrow step shifted up by `D` -/
theorem S0_shift {w poly r : Nat} (D : Nat) (hw : 0 < w) :
    S0 (w + D) (poly <<< D) (r <<< D) = (S0 w poly r) <<< D := by
  simp only [S0_def, Nat.shiftLeft_xor_distrib]
  have h1 : (r <<< D).testBit (w + D - 1) = r.testBit (w - 1) := by
    rw [Nat.testBit_shiftLeft]
    have : w + D - 1 - D = w - 1 := by omega
    have h : w + D - 1 ≥ D := by omega
    simp [this, h]
  have h2 : ((r <<< D) <<< 1) % 2 ^ (w + D) = ((r <<< 1) % 2 ^ w) <<< D := by
    rw [← Nat.shiftLeft_add, Nat.add_comm D 1, Nat.shiftLeft_add, Nat.add_comm w D, shiftLeft_mod]
  rw [h1, h2]
  cases r.testBit (w - 1) <;> simp

/-- the wide step on the not-yet-consumed message bits: the top one leaves and selects the polynomial -/
theorem S0_pending {N ps x s k : Nat} (hN : N = s + 1 + k) :
    S0 N ps (x <<< s) = ((x % 2 ^ k) <<< (s + 1)) ^^^ (if x.testBit k then ps else 0) := by
  subst hN
  simp only [S0_def]
  have h1 : (x <<< s).testBit (s + 1 + k - 1) = x.testBit k := by
    rw [Nat.testBit_shiftLeft]
    have : s + 1 + k - 1 - s = k := by omega
    have h : s + 1 + k - 1 ≥ s := by omega
    simp
  have h2 : ((x <<< s) <<< 1) % 2 ^ (s + 1 + k) = (x % 2 ^ k) <<< (s + 1) := by
    rw [← Nat.shiftLeft_add, shiftLeft_mod]
  rw [h1, h2]

/-- **batch**: feeding the `k` bits of `x`, most significant first, into the `w`-bit register is
    `k` steps of the `(w+D)`-bit register that holds the old register `D` places up and the
    pending bits aligned with its top — for every `k ≤ D`, also when `D > w`. -/
theorem wide_feed {w poly D : Nat} (hw : 0 < w) :
    ∀ (k : Nat) (r x : Nat), k ≤ D → x < 2 ^ k →
      iter (S0 (w + D) (poly <<< D)) k ((r <<< D) ^^^ (x <<< (w + D - k)))
        = (feed w poly r (msbFirst k x)) <<< D := by
  intro k
  induction k with
  | zero =>
    intro r x _ hx
    have : x = 0 := by simpa using hx
    subst this
    simp [iter, msbFirst]
  | succ k ih =>
    intro r x hk hx
    simp only [iter, msbFirst, List.foldl_cons]
    rw [S0_xor, S0_shift D hw, S0_pending (k := k) (s := w + D - (k + 1)) (by omega)]
    have h1 : w + D - (k + 1) + 1 = w + D - k := by omega
    rw [h1, ← msbFirst_mod k x, ← ih (stepBit w poly r (x.testBit k)) (x % 2 ^ k) (by omega)
      (Nat.mod_lt _ (Nat.two_pow_pos k))]
    congr 1
    rw [stepBit_eq, Nat.shiftLeft_xor_distrib]
    cases x.testBit k <;> simp <;> ac_rfl

end Amaranth.Crc
