import AmaranthVerif.Proofs.DomainRefine

/-!
# C03: combinational leaves, settling, and the whole event

A leaf whose final domain is `comb` is untouched by every wrapper; its Model process (start from the initial values of
the signals it mentions, run the lowered program, commit through the masks) is the Spec's
`mergeDriven … (progStep … snap inits) …`. With `sync_phase_refines` this gives `eventStep (model) = specEvent`.
-/

namespace Amaranth

/-- a state of the design's shapes is within shapes everywhere (`EnvOk` also speaks about indices beyond the table) -/
theorem EnvN.toOk {ctx : Ctx} {E : Env} (h : EnvN ctx E) : EnvOk ctx E := by
  intro i
  by_cases hi : i < ctx.length
  · exact h.ok i hi
  · have hs : ctx.shape i = Shape.u 0 := by
      unfold Ctx.shape
      rw [List.getD_eq_getElem?_getD, List.getElem?_eq_none (by omega)]; rfl
    have hv : E.val i = 0 := by
      unfold Env.val
      rw [List.getD_eq_getElem?_getD, List.getElem?_eq_none (by rw [h.len]; omega)]; rfl
    rw [hs, hv]
    decide

/-! ## Wrappers never touch combinational logic -/

theorem finalDom_some : ∀ (ws : List Wrapper) (x : Nat), ∃ y,
    ws.foldl (fun d w => match w with
      | Wrapper.rename s t => if d == some s then some t else d
      | _ => d) (some x) = some y := by
  intro ws
  induction ws with
  | nil => intro x; exact ⟨x, rfl⟩
  | cons w ws ih =>
    intro x
    simp only [List.foldl_cons]
    cases w with
    | rename s t =>
      simp only
      split
      · exact ih t
      · exact ih x
    | reset d c => exact ih x
    | enable d c => exact ih x

theorem finalDom_none (l : Leaf) (h : l.finalDom = none) : l.dom = none := by
  cases hd : l.dom with
  | none => rfl
  | some x =>
    exfalso
    obtain ⟨y, hy⟩ := finalDom_some l.wrappers x
    unfold Leaf.finalDom at h
    rw [hd] at h
    have : some y = none := hy.symm.trans h
    cases this

theorem applyWrapper_comb (B : Design) (s : Stmt) (w : Wrapper) :
    applyWrapper B { dom := none, body := s } w = { dom := none, body := s } := by
  cases w <;> simp [applyWrapper, resetInserter, enableInserter, domainRenamer]

theorem leafProc_comb (D : SpecDesign) (l : Leaf) (h : l.finalDom = none) :
    leafProc D l = { dom := none, body := lowerList D.ctx l.prog } := by
  unfold leafProc
  rw [finalDom_none l h]
  induction l.wrappers with
  | nil => rfl
  | cons w ws ih => simp only [List.foldl_cons, applyWrapper_comb]; exact ih

/-! ## One combinational leaf -/

section
variable (D : SpecDesign) (l : Leaf) (snap : Env) (hC : EnvN D.ctx snap) (hI : EnvN D.ctx D.inits)
  (hl : LeafOk D snap l)

include hC hI hl in
/-- **A combinational leaf**: the Model's process (driven signals start from their initial values, the lowered program
runs, the masked bits are committed into `acc`) is the Spec's merge of `progStep … snap inits` into `acc`. -/
theorem leaf_comb_refines (hfd : l.finalDom = none) (acc : Env) (hA : EnvN D.ctx acc) :
    commitInto D.ctx (leafProc D l).body (combNext D.ctx D.inits (leafProc D l).body snap) acc =
      mergeDriven D.ctx l.prog (fun _ => true) (progStep D.ctx l.prog snap D.inits) acc := by
  have hok := hC.toOk
  have hwf : ∀ i, i < D.ctx.length → (D.ctx.shape i).WF := fun i hi => (hC.ok i hi).1
  have htw : ∀ e ∈ Prog.listTargets l.prog, e.twf D.ctx = true := fun e he => (hl.tgt e he).1
  have ht : ∀ w ∈ Prog.listWrites D.ctx snap l.prog, w.1.twf D.ctx = true ∧ w.1.noAlias D.ctx snap :=
    fun w hw => hl.tgt _ (listWrites_targets D.ctx snap l.prog w hw)
  rw [leafProc_comb D l hfd]
  show commitInto D.ctx (lowerList D.ctx l.prog) (combNext D.ctx D.inits (lowerList D.ctx l.prog) snap) acc = _
  unfold combNext
  simp only
  -- the Model's starting values
  set start : Env := (List.range D.ctx.length).map fun j =>
    if (stmtSigs (lowerList D.ctx l.prog)).contains j then D.inits.val j else snap.val j with hstart
  have hS : EnvN D.ctx start := by
    refine ⟨by simp [hstart], fun j hj => ?_⟩
    rw [hstart, val_map_range _ _ _ hj]
    split
    · exact hI.ok j hj
    · exact hC.ok j hj
  -- the Spec's starting values
  set base : Env := (List.range D.ctx.length).map fun i =>
    selectBits (D.ctx.shape i) (fun b => progDrives D.ctx l.prog i b) (D.inits.val i) (snap.val i) with hbase
  have hB : EnvN D.ctx base := by
    refine ⟨by simp [hbase], fun j hj => ?_⟩
    rw [hbase, val_map_range _ _ _ hj]
    exact ⟨hwf j hj, norm_contains _ (hwf j hj) _⟩
  have hps : progStep D.ctx l.prog snap D.inits = applyWrites D.ctx snap (Prog.listWrites D.ctx snap l.prog) base := rfl
  -- both run the same active writes
  obtain ⟨e1, _⟩ := applyWritesRtl_eq_spec D.ctx snap hok _ ht start hS
  have hX : execRtl D.ctx snap (lowerList D.ctx l.prog) start =
      applyWrites D.ctx snap (Prog.listWrites D.ctx snap l.prog) start := by
    rw [lower_sound_list D.ctx snap hok l.prog hl.prog start, e1]
  obtain ⟨x1, x2⟩ := applyWrites_bits D.ctx snap (Prog.listWrites D.ctx snap l.prog) start hS (fun w hw => (ht w hw).1)
  obtain ⟨p1, p2⟩ := applyWrites_bits D.ctx snap (Prog.listWrites D.ctx snap l.prog) base hB (fun w hw => (ht w hw).1)
  rw [hX, hps]
  obtain ⟨c1, c2⟩ := commitInto_bits D.ctx (lowerList D.ctx l.prog) _ acc x1 hA
  obtain ⟨m1, m2⟩ := mergeDriven_spec D.ctx hwf l.prog (fun _ => true)
    (applyWrites D.ctx snap (Prog.listWrites D.ctx snap l.prog) base) acc
  apply env_ext c1 m1
  intro i b hi hb
  have hmask := progMask_drives D.ctx l.prog htw i b
  unfold progMask at hmask
  rw [c2 i b hi hb, m2 i b hi hb, hmask]
  cases hdr : progDrives D.ctx l.prog i b with
  | false => simp
  | true =>
    simp only [Bool.and_true, if_true]
    rw [x2 i b hi hb, p2 i b hi hb]
    congr 1
    have hm : ibit ((stmtMask D.ctx (lowerList D.ctx l.prog) (List.replicate D.ctx.length 0)).get i) b = true := by
      rw [hmask]; exact hdr
    unfold bitAt
    rw [hstart, hbase, val_map_range _ _ _ hi, val_map_range _ _ _ hi, mask_bit_sig D.ctx _ i b hm,
        selectBits_bits _ _ _ _ _ hb, hdr]
    rfl

end

/-! ## One round of the combinational processes, and settling -/

theorem comb_delta_refines (D : SpecDesign) (snap : Env) (hC : EnvN D.ctx snap) (hI : EnvN D.ctx D.inits)
    (hl : ∀ l ∈ D.leaves, LeafOk D snap l) :
    combDelta D.model snap = specCombOnce D snap ∧ EnvN D.ctx (specCombOnce D snap) := by
  have hwf : ∀ i, i < D.ctx.length → (D.ctx.shape i).WF := fun i hi => (hC.ok i hi).1
  unfold combDelta specCombOnce
  show ((D.leaves.map (leafProc D)).foldl (fun acc p => match p.dom with
      | none => commitInto D.ctx p.body (combNext D.ctx D.inits p.body snap) acc
      | some _ => acc) snap = _) ∧ _
  rw [List.foldl_map]
  suffices h : ∀ (ls : List Leaf) (acc : Env), (∀ l ∈ ls, LeafOk D snap l) → EnvN D.ctx acc →
      ls.foldl (fun acc l => match (leafProc D l).dom with
        | none => commitInto D.ctx (leafProc D l).body (combNext D.ctx D.inits (leafProc D l).body snap) acc
        | some _ => acc) acc =
      ls.foldl (fun acc l => match l.finalDom with
        | none => mergeDriven D.ctx l.prog (fun _ => true) (progStep D.ctx l.prog snap D.inits) acc
        | some _ => acc) acc ∧
      EnvN D.ctx (ls.foldl (fun acc l => match l.finalDom with
        | none => mergeDriven D.ctx l.prog (fun _ => true) (progStep D.ctx l.prog snap D.inits) acc
        | some _ => acc) acc) from h D.leaves snap hl hC
  intro ls
  induction ls with
  | nil => intro acc _ hA; exact ⟨rfl, hA⟩
  | cons l ls ih =>
    intro acc hls hA
    simp only [List.foldl_cons]
    have hl0 := hls l (List.mem_cons_self ..)
    have hrest : ∀ l' ∈ ls, LeafOk D snap l' := fun l' hl' => hls l' (List.mem_cons_of_mem _ hl')
    obtain ⟨hdom, _, _⟩ := leaf_inv D l snap hC.toOk hC hI hl0
    rw [hdom]
    cases hfd : l.finalDom with
    | none =>
      simp only
      rw [leaf_comb_refines D l snap hC hI hl0 hfd acc hA]
      exact ih _ hrest (mergeDriven_spec D.ctx hwf _ _ _ _).1
    | some d => exact ih acc hrest hA

theorem settle_refines (D : SpecDesign) (hI : EnvN D.ctx D.inits)
    (hl : ∀ e, EnvN D.ctx e → ∀ l ∈ D.leaves, LeafOk D e l) : ∀ (fuel : Nat) (e : Env), EnvN D.ctx e →
    combSettle D.model fuel e = specEvent.settle (specCombOnce D) fuel e := by
  intro fuel
  induction fuel with
  | zero => intro e _; rfl
  | succ fuel ih =>
    intro e hE
    obtain ⟨e1, e2⟩ := comb_delta_refines D e hE hI (hl e hE)
    simp only [combSettle, specEvent.settle]
    rw [e1]
    split
    · rfl
    · exact ih _ e2

/-- **Model = Spec for a whole event.** -/
theorem event_refines (D : SpecDesign) (cur : Env) (changes : List (Nat × Int))
    (hC : EnvN D.ctx (applyChanges cur changes)) (hI : EnvN D.ctx D.inits)
    (hl : ∀ e, EnvN D.ctx e → ∀ l ∈ D.leaves, LeafOk D e l) :
    eventStep D.model cur changes = specEvent D cur changes := by
  have hwf : ∀ i, i < D.ctx.length → (D.ctx.shape i).WF := fun i hi => (hC.ok i hi).1
  rw [specEvent_eq]
  unfold eventStep
  simp only
  have hs := sync_phase_refines D cur (applyChanges cur changes) hC.toOk hC hI (hl _ hC)
  -- the state after the synchronous phase is a state of the design's shapes
  have hsN : EnvN D.ctx (specSyncPhase D cur (applyChanges cur changes)) := by
    unfold specSyncPhase
    suffices h : ∀ (ls : List Leaf) (acc : Env), (∀ l ∈ ls, l ∈ D.leaves) → EnvN D.ctx acc →
        EnvN D.ctx (ls.foldl (specLeafSync D cur (applyChanges cur changes)) acc) from h D.leaves _ (fun _ h => h) hC
    intro ls
    induction ls with
    | nil => intro acc _ hA; exact hA
    | cons l ls ih =>
      intro acc hin hA
      simp only [List.foldl_cons]
      exact ih _ (fun l' hl' => hin l' (List.mem_cons_of_mem _ hl'))
        (leaf_event_refines D l _ hC.toOk hC hI (hl _ hC l (hin l (List.mem_cons_self ..))) cur acc hA).2
  rw [hs]
  obtain ⟨d1, d2⟩ := comb_delta_refines D _ hsN hI (hl _ hsN)
  rw [d1]
  have hlen : D.model.procs.length = D.leaves.length := by simp [SpecDesign.model]
  rw [hlen]
  exact settle_refines D hI hl _ _ d2

end Amaranth
