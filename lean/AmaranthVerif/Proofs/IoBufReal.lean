import AmaranthVerif.Proofs.IoBufBuffer
import AmaranthVerif.Proofs.IoBufUse

/-!
# Buffers on real ports: cells, pads, registers (helper file of C18)

`padObsOf` reads the `IOBufferInstance`s of one buffer as what is on the pads (first cell: the pads of a
single-ended port or the true half of a pair; second cell, if any: the complementary half). `claimsOf` lists
which pads carry a cell, and in which direction.
-/

namespace Amaranth.IoBuf
open Spec (toBits ofBits)

variable {β : Type}

/-- the cells of one buffer as pad values, bit by bit -/
def padObsOf (w : Nat) (r : List (IOBCell β) × Option Nat) : Spec.PadObs :=
  { padO := (r.1.head?.bind (·.o)).map (toBits w)
    padN := ((r.1.drop 1).head?.bind (·.o)).map (toBits w)
    oe := r.1.head?.bind (·.oe)
    i := r.2.map (toBits w) }

/-- which pads carry a cell, and the cell's direction -/
def claimsOf (r : List (IOBCell β) × Option Nat) : List (List β × Dir) := r.1.map fun c => (c.port, c.dir)

/-! ## the combinational buffer -/

theorem single_claims (bdir : Dir) (p : SEPort β) (o : Nat) (oe : Bool) (pad : Nat) :
    claimsOf (Buffer.single bdir p o oe pad) = Spec.padClaims bdir p.io none := by
  cases bdir <;> rfl

theorem diff_claims (bdir : Dir) (p : DiffPort β) (o : Nat) (oe : Bool) (pad : Nat) :
    claimsOf (Buffer.diff bdir p o oe pad) = Spec.padClaims bdir p.p (some p.n) := by
  cases bdir <;> rfl

theorem single_refines (bdir : Dir) (p : SEPort β) (o : Nat) (oe : Bool) (pad : Nat) :
    padObsOf p.inv.length (Buffer.single bdir p o oe pad) =
      Spec.padBuffer false bdir p.inv (toBits p.inv.length o) oe (toBits p.inv.length pad) := by
  cases bdir <;>
    simp only [Buffer.single, padObsOf, List.head?, List.drop, Option.bind, Option.map, toBits_xorInv,
      Spec.padBuffer, Spec.padO, Spec.padI] <;> simp

theorem diff_refines (bdir : Dir) (p : DiffPort β) (o : Nat) (oe : Bool) (pad : Nat) :
    padObsOf p.inv.length (Buffer.diff bdir p o oe pad) =
      Spec.padBuffer true bdir p.inv (toBits p.inv.length o) oe (toBits p.inv.length pad) := by
  cases bdir <;>
    simp only [Buffer.diff, padObsOf, List.head?, List.drop, Option.bind, Option.map, toBits_xorInv, toBits_notBits,
      Spec.padBuffer, Spec.padO, Spec.padI, Spec.padON] <;> simp

/-- every cell of a driving buffer gets the buffer's `oe`; an input cell drives nothing -/
theorem diff_cells_oe (bdir : Dir) (p : DiffPort β) (o : Nat) (oe : Bool) (pad : Nat) :
    ∀ c ∈ (Buffer.diff bdir p o oe pad).1, c.oe = (if bdir = .i then none else some oe) ∧ (bdir = .i → c.o = none) := by
  cases bdir <;> simp [Buffer.diff]

/-! ## single use of the pads of one buffer -/

section use
variable [DecidableEq β]

/-- the pads of one generic buffer, cell by cell -/
def claimNets (bdir : Dir) (p : List β) (n : Option (List β)) : List (List β) := (Spec.padClaims bdir p n).map (·.1)

omit [DecidableEq β] in
theorem claimNets_flatten (bdir : Dir) (p : List β) (n : Option (List β)) :
    (claimNets bdir p n).flatten =
      p ++ (match n with | some n => if bdir = .i then [] else n | none => []) := by
  cases n with
  | none => simp [claimNets, Spec.padClaims]
  | some n =>
    by_cases h : bdir = .i <;> simp [claimNets, Spec.padClaims, h]

/-- the cells of one buffer on a port whose pads are pairwise different claim every `p` pad exactly once, every
`n` pad exactly once when the buffer drives and not at all when it is an input buffer, and pass the netlist
builder's single-use table -/
theorem claims_exactly_once (bdir : Dir) (p n : List β) (hnd : (p ++ n).Nodup) :
    (∀ b ∈ p, (claimNets bdir p (some n)).flatten.count b = 1) ∧
    (∀ b ∈ n, (claimNets bdir p (some n)).flatten.count b = if bdir = .i then 0 else 1) ∧
    emitAll [] (claimNets bdir p (some n)) = .ok (claimNets bdir p (some n)).flatten.reverse := by
  have hp : p.Nodup := (List.nodup_append.1 hnd).1
  have hn : n.Nodup := (List.nodup_append.1 hnd).2.1
  have hdisj : ∀ b, b ∈ p → b ∈ n → False := fun b h1 h2 => (List.nodup_append.1 hnd).2.2 b h1 b h2 rfl
  rw [emitAll_eq, claimNets_flatten]
  by_cases h : bdir = .i
  · simp only [h, if_true, List.append_nil]
    refine ⟨fun b hb => ?_, fun b hb => ?_, ?_⟩
    · rw [List.Nodup.count hp, if_pos hb]
    · exact List.count_eq_zero.2 (fun hbp => hdisj b hbp hb)
    · rw [if_pos ⟨hp, fun x _ hx => by cases hx⟩]
  · simp only [h, if_false]
    refine ⟨fun b hb => ?_, fun b hb => ?_, ?_⟩
    · rw [List.Nodup.count hnd, if_pos (List.mem_append_left _ hb)]
    · rw [List.Nodup.count hnd, if_pos (List.mem_append_right _ hb)]
    · rw [if_pos ⟨hnd, fun x _ hx => by cases hx⟩, List.append_nil]

theorem claims_exactly_once_single (bdir : Dir) (p : List β) (hnd : p.Nodup) :
    (∀ b ∈ p, (claimNets bdir p none).flatten.count b = 1) ∧
    emitAll [] (claimNets bdir p none) = .ok (claimNets bdir p none).flatten.reverse := by
  rw [emitAll_eq, claimNets_flatten]
  simp only [List.append_nil]
  exact ⟨fun b hb => by rw [List.Nodup.count hnd, if_pos hb],
    by rw [if_pos ⟨hnd, fun x _ hx => by cases hx⟩]⟩

end use

/-! ## the registered buffer on a real port -/

theorem ff_real_refines (diff : Bool) (bdir : Dir) (inv : List Bool) (inner : RealBuf β)
    (hinner : ∀ o oe pad, padObsOf inv.length (inner o oe pad) =
      Spec.padBuffer diff bdir inv (toBits inv.length o) oe (toBits inv.length pad))
    (s : FFState) (es : List FFEvent) :
    (FFBuffer.realRun inner bdir s es).map (padObsOf inv.length) =
      Spec.ffRunPads diff bdir inv (toBits inv.length s.oFf) s.oeFf (toBits inv.length s.iFf)
        (es.map (evOf inv.length)) := by
  induction es generalizing s with
  | nil => rfl
  | cons e es ih =>
    simp only [FFBuffer.realRun, List.map_cons, Spec.ffRunPads, evOf]
    have hb := hinner s.oFf s.oeFf e.x.pi
    have hi : toBits inv.length ((inner s.oFf s.oeFf e.x.pi).2.getD s.iFf) =
        (Spec.padBuffer diff bdir inv (toBits inv.length s.oFf) s.oeFf (toBits inv.length e.x.pi)).i.getD
          (toBits inv.length s.iFf) := by
      rw [← hb]
      simp only [padObsOf]
      cases (inner s.oFf s.oeFf e.x.pi).2 <;> rfl
    have ho : toBits inv.length (FFBuffer.realStep inner s e).oFf =
        (if e.tickO then toBits inv.length e.x.o else toBits inv.length s.oFf) := by
      simp only [FFBuffer.realStep]; split <;> rfl
    have hoe : (FFBuffer.realStep inner s e).oeFf = (if e.tickO then e.x.oe else s.oeFf) := rfl
    have hiff : toBits inv.length (FFBuffer.realStep inner s e).iFf =
        (if e.tickI then (Spec.padBuffer diff bdir inv (toBits inv.length s.oFf) s.oeFf
            (toBits inv.length e.x.pi)).i.getD (toBits inv.length s.iFf) else toBits inv.length s.iFf) := by
      simp only [FFBuffer.realStep]
      split
      · exact hi
      · rfl
    congr 1
    · have hb' := hinner (FFBuffer.realStep inner s e).oFf (FFBuffer.realStep inner s e).oeFf e.x.pi
      have hshape : padObsOf inv.length (FFBuffer.realOut inner bdir (FFBuffer.realStep inner s e) e.x.pi) =
          { padObsOf inv.length (inner (FFBuffer.realStep inner s e).oFf (FFBuffer.realStep inner s e).oeFf e.x.pi) with
            i := (if bdir = .o then none else some (FFBuffer.realStep inner s e).iFf).map (toBits inv.length) } := rfl
      rw [hshape, hb', ho, hoe]
      by_cases hd : bdir = .o
      · simp [hd]
      · simp only [hd, if_false, Option.map]
        rw [hiff]
    · rw [ih, ho, hoe, hiff]

/-- with one clock: after every edge the pads and `i` are what the combinational buffer makes of the values
applied before that edge — exactly one stage, and (no loop-back on pads) no dependence on earlier values -/
theorem ffRunPads_single (diff : Bool) (bdir : Dir) (inv : List Bool) (ro : List Bool) (roe : Bool) (ri : List Bool)
    (evs : List Spec.Ev) (h : ∀ e ∈ evs, e.tickI = true ∧ e.tickO = true) :
    Spec.ffRunPads diff bdir inv ro roe ri evs = evs.map fun e => Spec.padBuffer diff bdir inv e.o e.oe e.pi := by
  induction evs generalizing ro roe ri with
  | nil => rfl
  | cons e evs ih =>
    obtain ⟨hti, hto⟩ := h e (by simp)
    simp only [Spec.ffRunPads, List.map_cons, hti, hto, if_true]
    congr 1
    · cases bdir <;> simp [Spec.padBuffer]
    · exact ih _ _ _ (fun e' he' => h e' (by simp [he']))

/-- the cells of a registered buffer are those of the inner combinational buffer: same pads, same directions -/
theorem ff_real_claims (inner : RealBuf β) (bdir : Dir) (s : FFState) (pad : Nat) :
    claimsOf (FFBuffer.realOut inner bdir s pad) = claimsOf (inner s.oFf s.oeFf pad) := rfl

end Amaranth.IoBuf
