import AmaranthVerif.Proofs.FsmEnc
import AmaranthVerif.Proofs.Lowering

/-!
# The FSM lowering performs exactly the active items of the program as written

`lowerD_writes`: for every program with FSMs (any nesting), every domain and every state in which each FSM's register
holds what the configuration `σ` says (`Agrees`), the active assignments of the lowered `Prog` — the `Switch` over the
state register, `m.next` as a register load — are, in order, the Spec's events: the assignments of the selected State
bodies with the same values, and for every active `m.next = S` the load of `S`'s code into that FSM's register.
-/

namespace Amaranth

/-- what an event is in the lowered program -/
def Ev.toWrite : Ev → Expr × Int
  | .write l v => (l, v)
  | .goto h entries name => (.sig h.reg, (code (encOrder entries) name : Int))

/-- the configuration names, for every FSM of the list, the state its register holds -/
def Agrees (cur : Env) (σ : Conf) (fs : List (FsmHdr × FsmEntries)) : Prop :=
  ∀ f ∈ fs, σ f.1.reg = decode (encOrder f.2) (cur.val f.1.reg)

/-- the state registers are signals of the design with the shape `_pop_ctrl` gives them -/
def RegsOk (ctx : Ctx) (fs : List (FsmHdr × FsmEntries)) : Prop :=
  ∀ f ∈ fs, f.1.reg < ctx.length ∧ ctx.shape f.1.reg = ⟨fsmWidth (encOrder f.2).length, false⟩

theorem Agrees.mono {cur : Env} {σ : Conf} {a b : List (FsmHdr × FsmEntries)} (h : Agrees cur σ b)
    (hs : ∀ f ∈ a, f ∈ b) : Agrees cur σ a := fun f hf => h f (hs f hf)

theorem RegsOk.mono {ctx : Ctx} {a b : List (FsmHdr × FsmEntries)} (h : RegsOk ctx b)
    (hs : ∀ f ∈ a, f ∈ b) : RegsOk ctx a := fun f hf => h f (hs f hf)

section
variable (ctx : Ctx) (cur : Env)

theorem ifWrites_bodiesEmpty : ∀ (bs : List (Expr × List Prog)), bodiesEmpty bs = true →
    (match Prog.ifWrites ctx cur bs with | some ws => ws | none => []) = []
  | [], _ => rfl
  | (c, body) :: rest, h => by
    simp only [bodiesEmpty, Bool.and_eq_true, List.isEmpty_iff] at h
    simp only [Prog.ifWrites]
    by_cases hc : denote ctx cur c ≠ 0
    · rw [if_pos hc, h.1]; rfl
    · rw [if_neg hc]
      exact ifWrites_bodiesEmpty rest h.2

theorem caseWrites_bodiesEmpty (s : Shape) (v : Int) : ∀ (cs : List (Option (List UPat) × List Prog)),
    bodiesEmpty cs = true → Prog.caseWrites ctx cur s v cs = []
  | [], _ => rfl
  | (none, body) :: rest, h => by
    simp only [bodiesEmpty, Bool.and_eq_true, List.isEmpty_iff] at h
    simp only [Prog.caseWrites]; rw [h.1]; rfl
  | (some pats, body) :: rest, h => by
    simp only [bodiesEmpty, Bool.and_eq_true, List.isEmpty_iff] at h
    simp only [Prog.caseWrites]
    split
    · rw [h.1]; rfl
    · exact caseWrites_bodiesEmpty s v rest h.2

theorem listWrites_append : ∀ (a b : List Prog),
    Prog.listWrites ctx cur (a ++ b) = Prog.listWrites ctx cur a ++ Prog.listWrites ctx cur b
  | [], b => rfl
  | p :: a, b => by simp only [List.cons_append, Prog.listWrites, listWrites_append a b, List.append_assoc]

theorem listWrites_single (p : Prog) : Prog.listWrites ctx cur [p] = Prog.writes ctx cur p := by
  simp [Prog.listWrites]

variable (σ : Conf) (d : String)

/-- the state case of a name matches exactly when the configuration says the FSM is in that state -/
theorem state_case_matches (h : FsmHdr) (entries : FsmEntries)
    (hsh : ctx.shape h.reg = ⟨fsmWidth (encOrder entries).length, false⟩)
    (hag : σ h.reg = decode (encOrder entries) (cur.val h.reg))
    (name : String) (hn : name ∈ encOrder entries) :
    ([UPat.int (code (encOrder entries) name)].any fun p => p.matchesV (shapeOf ctx (.sig h.reg)) (cur.val h.reg)) =
      decide (σ h.reg = some name) := by
  simp only [List.any_cons, List.any_nil, Bool.or_false, UPat.matchesV, shapeOf, hsh]
  have hc : (Shape.mk (fsmWidth (encOrder entries).length) false).contains (code (encOrder entries) name : Int) :=
    code_contained hn
  simp only [hc, decide_true, Bool.true_and]
  have e : (σ h.reg = some name) ↔ cur.val h.reg = (code (encOrder entries) name : Int) := by
    rw [hag]; exact decode_eq_some_iff (encOrder_nodup entries) hn
  exact (decide_eq_decide.mpr e).symm

mutual
theorem lowerD_writes : ∀ (p : FProg) (cx : Option (FsmHdr × FsmEntries)),
    Agrees cur σ (FProg.fsms p) → RegsOk ctx (FProg.fsms p) →
    Prog.listWrites ctx cur (FProg.lowerD d cx p) = (FProg.events ctx cur σ d cx p).map Ev.toWrite
  | .assign dom l r, cx, _, _ => by
    simp only [FProg.lowerD, FProg.events]
    split <;> simp [Prog.listWrites, Prog.writes, Ev.toWrite]
  | .ifs branches els, cx, ha, hr => by
    have ih1 := lowerBranches_writes branches cx
      (ha.mono (by intro f hf; simp only [FProg.fsms, List.mem_append]; exact Or.inl hf))
      (hr.mono (by intro f hf; simp only [FProg.fsms, List.mem_append]; exact Or.inl hf))
    have ih2 := lowerListD_writes els cx
      (ha.mono (by intro f hf; simp only [FProg.fsms, List.mem_append]; exact Or.inr hf))
      (hr.mono (by intro f hf; simp only [FProg.fsms, List.mem_append]; exact Or.inr hf))
    have rhs : (FProg.events ctx cur σ d cx (.ifs branches els)).map Ev.toWrite =
        Prog.writes ctx cur (.ifs (FProg.lowerBranches d cx branches) (FProg.lowerListD d cx els)) := by
      simp only [FProg.events, Prog.writes, ih1, ih2]
      cases FProg.ifEvents ctx cur σ d cx branches <;> rfl
    rw [rhs]
    simp only [FProg.lowerD]
    split
    · rename_i hc
      simp only [Bool.and_eq_true, List.isEmpty_iff] at hc
      simp only [Prog.listWrites, Prog.writes]
      have := ifWrites_bodiesEmpty ctx cur _ hc.1
      rw [hc.2]
      simp only [Prog.listWrites]
      exact this.symm
    · exact listWrites_single ctx cur _
  | .switch test cases, cx, ha, hr => by
    have ih := lowerCasesD_writes cases cx (shapeOf ctx test) (denote ctx cur test) ha hr
    simp only [FProg.lowerD, FProg.events]
    rw [← ih]
    split
    · rename_i hc
      rw [caseWrites_bodiesEmpty ctx cur _ _ _ hc]; rfl
    · rw [listWrites_single]; rfl
  | .fsm h entries, cx, ha, hr => by
    have hme : (h, entries) ∈ FProg.fsms (.fsm h entries) := by simp [FProg.fsms]
    have hag := ha (h, entries) hme
    have hsh := (hr (h, entries) hme).2
    have ih := lowerStates_writes h entries entries
      (fun n hn => defined_mem_encOrder entries n hn) hsh hag
      (ha.mono (by intro f hf; simp only [FProg.fsms, List.mem_cons]; exact Or.inr hf))
      (hr.mono (by intro f hf; simp only [FProg.fsms, List.mem_cons]; exact Or.inr hf))
    have rhs : (FProg.events ctx cur σ d cx (.fsm h entries)).map Ev.toWrite =
        Prog.caseWrites ctx cur (shapeOf ctx (.sig h.reg)) (cur.val h.reg)
          (FProg.lowerStates d (h, entries) (encOrder entries) entries) := by
      rw [ih]
      simp only [FProg.events]
      cases σ h.reg <;> rfl
    rw [rhs]
    simp only [FProg.lowerD]
    split
    · rename_i hc
      rw [caseWrites_bodiesEmpty ctx cur _ _ _ hc]; rfl
    · rw [listWrites_single]; rfl
  | .next name, cx, _, _ => by
    simp only [FProg.lowerD, FProg.events]
    cases cx with
    | none => rfl
    | some me =>
      obtain ⟨h, entries⟩ := me
      simp only
      split <;> simp [Prog.listWrites, Prog.writes, nextAssign, constOf, denote, Ev.toWrite]
  | .watch _, cx, _, _ => rfl
theorem lowerListD_writes : ∀ (ps : List FProg) (cx : Option (FsmHdr × FsmEntries)),
    Agrees cur σ (FProg.listFsms ps) → RegsOk ctx (FProg.listFsms ps) →
    Prog.listWrites ctx cur (FProg.lowerListD d cx ps) = (FProg.listEvents ctx cur σ d cx ps).map Ev.toWrite
  | [], _, _, _ => rfl
  | p :: ps, cx, ha, hr => by
    have ih1 := lowerD_writes p cx
      (ha.mono (by intro f hf; simp only [FProg.listFsms, List.mem_append]; exact Or.inl hf))
      (hr.mono (by intro f hf; simp only [FProg.listFsms, List.mem_append]; exact Or.inl hf))
    have ih2 := lowerListD_writes ps cx
      (ha.mono (by intro f hf; simp only [FProg.listFsms, List.mem_append]; exact Or.inr hf))
      (hr.mono (by intro f hf; simp only [FProg.listFsms, List.mem_append]; exact Or.inr hf))
    simp only [FProg.lowerListD, FProg.listEvents, List.map_append, ← ih1, ← ih2]
    exact listWrites_append ctx cur _ _
theorem lowerBranches_writes : ∀ (bs : List (Expr × List FProg)) (cx : Option (FsmHdr × FsmEntries)),
    Agrees cur σ (FProg.ifFsms bs) → RegsOk ctx (FProg.ifFsms bs) →
    Prog.ifWrites ctx cur (FProg.lowerBranches d cx bs) =
      (FProg.ifEvents ctx cur σ d cx bs).map (fun evs => evs.map Ev.toWrite)
  | [], _, _, _ => rfl
  | (c, body) :: rest, cx, ha, hr => by
    have ih1 := lowerListD_writes body cx
      (ha.mono (by intro f hf; simp only [FProg.ifFsms, List.mem_append]; exact Or.inl hf))
      (hr.mono (by intro f hf; simp only [FProg.ifFsms, List.mem_append]; exact Or.inl hf))
    have ih2 := lowerBranches_writes rest cx
      (ha.mono (by intro f hf; simp only [FProg.ifFsms, List.mem_append]; exact Or.inr hf))
      (hr.mono (by intro f hf; simp only [FProg.ifFsms, List.mem_append]; exact Or.inr hf))
    simp only [FProg.lowerBranches, Prog.ifWrites, FProg.ifEvents]
    split
    · simp only [Option.map_some, ih1]
    · exact ih2
theorem lowerCasesD_writes : ∀ (cs : List (Option (List UPat) × List FProg)) (cx : Option (FsmHdr × FsmEntries))
    (s : Shape) (v : Int), Agrees cur σ (FProg.caseFsms cs) → RegsOk ctx (FProg.caseFsms cs) →
    Prog.caseWrites ctx cur s v (FProg.lowerCasesD d cx cs) =
      (FProg.caseEvents ctx cur σ d cx s v cs).map Ev.toWrite
  | [], _, _, _, _, _ => rfl
  | (none, body) :: rest, cx, s, v, ha, hr => by
    simp only [FProg.lowerCasesD, Prog.caseWrites, FProg.caseEvents]
    exact lowerListD_writes body cx
      (ha.mono (by intro f hf; simp only [FProg.caseFsms, List.mem_append]; exact Or.inl hf))
      (hr.mono (by intro f hf; simp only [FProg.caseFsms, List.mem_append]; exact Or.inl hf))
  | (some pats, body) :: rest, cx, s, v, ha, hr => by
    simp only [FProg.lowerCasesD, Prog.caseWrites, FProg.caseEvents]
    split
    · exact lowerListD_writes body cx
        (ha.mono (by intro f hf; simp only [FProg.caseFsms, List.mem_append]; exact Or.inl hf))
        (hr.mono (by intro f hf; simp only [FProg.caseFsms, List.mem_append]; exact Or.inl hf))
    · exact lowerCasesD_writes rest cx s v
        (ha.mono (by intro f hf; simp only [FProg.caseFsms, List.mem_append]; exact Or.inr hf))
        (hr.mono (by intro f hf; simp only [FProg.caseFsms, List.mem_append]; exact Or.inr hf))
theorem lowerStates_writes (h : FsmHdr) (entries : FsmEntries) : ∀ (es : FsmEntries),
    (∀ n ∈ definedStates es, n ∈ encOrder entries) →
    ctx.shape h.reg = ⟨fsmWidth (encOrder entries).length, false⟩ →
    σ h.reg = decode (encOrder entries) (cur.val h.reg) →
    Agrees cur σ (FProg.entryFsms es) → RegsOk ctx (FProg.entryFsms es) →
    Prog.caseWrites ctx cur (shapeOf ctx (.sig h.reg)) (cur.val h.reg)
        (FProg.lowerStates d (h, entries) (encOrder entries) es) =
      match σ h.reg with
      | some s => (FProg.stateEvents ctx cur σ d (some (h, entries)) s es).map Ev.toWrite
      | none => []
  | [], _, _, _, _, _ => by
    simp only [FProg.lowerStates, Prog.caseWrites, FProg.stateEvents]
    cases σ h.reg <;> rfl
  | (n, none) :: rest, hd, hsh, hag, ha, hr => by
    simp only [FProg.lowerStates, FProg.stateEvents]
    exact lowerStates_writes h entries rest (fun m hm => hd m (by simpa [definedStates] using hm)) hsh hag
      (ha.mono (by intro f hf; simpa only [FProg.entryFsms] using hf))
      (hr.mono (by intro f hf; simpa only [FProg.entryFsms] using hf))
  | (n, some body) :: rest, hd, hsh, hag, ha, hr => by
    have hn : n ∈ encOrder entries := hd n (by simp [definedStates])
    have hm := state_case_matches ctx cur σ h entries hsh hag n hn
    have ih1 := lowerListD_writes body (some (h, entries))
      (ha.mono (by intro f hf; simp only [FProg.entryFsms, List.mem_append]; exact Or.inl hf))
      (hr.mono (by intro f hf; simp only [FProg.entryFsms, List.mem_append]; exact Or.inl hf))
    have ih2 := lowerStates_writes h entries rest
      (fun m hm => hd m (by simp only [definedStates, List.mem_cons]; exact Or.inr hm)) hsh hag
      (ha.mono (by intro f hf; simp only [FProg.entryFsms, List.mem_append]; exact Or.inr hf))
      (hr.mono (by intro f hf; simp only [FProg.entryFsms, List.mem_append]; exact Or.inr hf))
    simp only [FProg.lowerStates, Prog.caseWrites, hm]
    cases hs : σ h.reg with
    | none =>
      simp only [reduceCtorEq, decide_false, Bool.false_eq_true, if_false]
      rw [ih2, hs]
    | some s =>
      simp only [Option.some.injEq, FProg.stateEvents]
      by_cases he : n = s
      · subst he
        simp only [decide_true, if_true]
        exact ih1
      · have he' : ¬ s = n := fun e => he e.symm
        simp only [he, he', decide_false, Bool.false_eq_true, if_false]
        rw [ih2, hs]
end

end

end Amaranth
