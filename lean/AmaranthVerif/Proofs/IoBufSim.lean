import AmaranthVerif.Proofs.IoBufPorts

/-! # `SimulationPort` refines the Spec's ports (helper file of C18)

A simulation wire is a triple of optional signal bits `((i, o), oe)`; the direction says which exist. -/

namespace Amaranth.IoBuf
open Spec (select positions)

namespace SimPort
variable {β : Type}

abbrev Wire (β : Type) := (Option β × Option β) × Option β

def optLane (n : Nat) : Option (List β) → List (Option β)
  | none => List.replicate n none
  | some xs => xs.map some

/-- a port of direction `d` has no input signal if `d` is output-only, no output signals if input-only -/
def restrict (d : Dir) : Wire β → Wire β :=
  Prod.map (Prod.map (fun x => if d = .o then none else x) (fun x => if d = .i then none else x))
    (fun x => if d = .i then none else x)

def WF (p : SimPort β) : Prop :=
  (∀ xs, p.i = some xs → xs.length = p.inv.length) ∧
  (∀ xs, p.o = some xs → xs.length = p.inv.length) ∧
  (∀ xs, p.oe = some xs → xs.length = p.inv.length) ∧
  (p.i.isSome ↔ p.dir ≠ .o) ∧ (p.o.isSome ↔ p.dir ≠ .i) ∧ (p.oe.isSome ↔ p.dir ≠ .i)

def den (p : SimPort β) : Spec.Port (Wire β) :=
  ⟨p.dir, (((optLane p.inv.length p.i).zip (optLane p.inv.length p.o)).zip (optLane p.inv.length p.oe)).zip p.inv⟩

theorem optLane_length {n : Nat} {l : Option (List β)} (h : ∀ xs, l = some xs → xs.length = n) :
    (optLane n l).length = n := by
  cases l with
  | none => simp [optLane]
  | some xs => simp [optLane, h xs rfl]

theorem den_length {p : SimPort β} (h : p.WF) : (den p).wires.length = p.inv.length := by
  obtain ⟨h1, h2, h3, _⟩ := h
  simp [den, List.length_zip, optLane_length h1, optLane_length h2, optLane_length h3]

theorem lane_ok {l : Option (List β)} {n : Nat} {key : Key} {ps : List Nat}
    (hl : ∀ xs, l = some xs → xs.length = n) (hpos : positions n key = .ok ps) :
    lane l key = .ok (l.map (select ps)) := by
  cases l with
  | none => rfl
  | some xs =>
    have : xs.length = n := hl xs rfl
    simp only [lane, ioGetItem_eq, this, hpos, Except.map, bind, Except.bind, pure, Except.pure, Option.map]

theorem lane_err {xs : List β} {key : Key} {e : Err} (hpos : positions xs.length key = .error e) :
    lane (some xs) key = .error e := by
  simp only [lane, ioGetItem_eq, hpos, Except.map, bind, Except.bind]

theorem optLane_select {l : Option (List β)} {n : Nat} {ps : List Nat}
    (hl : ∀ xs, l = some xs → xs.length = n) (hps : ∀ i ∈ ps, i < n) :
    optLane ps.length (l.map (select ps)) = select ps (optLane n l) := by
  cases l with
  | none => simp only [Option.map, optLane]; rw [select_replicate none hps]
  | some xs => simp only [Option.map, optLane, select_map]

theorem getItem_refines (p : SimPort β) (key : Key) (h : p.WF) :
    Refines WF den (p.getItem key) (Spec.getItem (den p) key) := by
  have hw := h
  obtain ⟨h1, h2, h3, hi, ho, hoe⟩ := h
  simp only [getItem, Spec.getItem, den_length hw, bind, Except.bind]
  cases hpos : positions p.inv.length key with
  | error e =>
    simp only [Refines]
    cases hpi : p.i with
    | some xs =>
      have := h1 xs hpi
      rw [lane_err (this ▸ hpos)]
    | none =>
      have hd : p.dir = .o := by
        apply Classical.byContradiction
        intro hne
        have := hi.2 hne
        simp [hpi] at this
      cases hpo : p.o with
      | none => have := ho.2 (by simp [hd]); simp [hpo] at this
      | some ys =>
        have hl := h2 ys hpo
        have e2 : lane (some ys) key = .error e := lane_err (hl ▸ hpos)
        simp only [show lane (none : Option (List β)) key = .ok none from rfl, e2]
  | ok ps =>
    have hlt := positions_lt hpos
    obtain ⟨a, ha, hsel⟩ := invGetItem_sim hpos
    have hlen : (select ps p.inv).length = ps.length := select_length_of_lt hlt
    simp only [lane_ok h1 hpos, lane_ok h2 hpos, lane_ok h3 hpos, ha, hsel, pure, Except.pure, Refines]
    refine ⟨⟨?_, ?_, ?_, ?_, ?_, ?_⟩, ?_⟩
    · intro xs hx
      cases hpi : p.i with
      | none => simp [hpi] at hx
      | some ys =>
        simp only [hpi, Option.map, Option.some.injEq] at hx
        subst hx
        exact select_length_eq ps (h1 ys hpi)
    · intro xs hx
      cases hpo : p.o with
      | none => simp [hpo] at hx
      | some ys =>
        simp only [hpo, Option.map, Option.some.injEq] at hx
        subst hx
        exact select_length_eq ps (h2 ys hpo)
    · intro xs hx
      cases hpe : p.oe with
      | none => simp [hpe] at hx
      | some ys =>
        simp only [hpe, Option.map, Option.some.injEq] at hx
        subst hx
        exact select_length_eq ps (h3 ys hpe)
    · simpa using hi
    · simpa using ho
    · simpa using hoe
    · simp only [den, hlen, optLane_select h1 hlt, optLane_select h2 hlt, optLane_select h3 hlt]
      have l1 := @optLane_length β _ _ h1
      have l2 := @optLane_length β _ _ h2
      have l3 := @optLane_length β _ _ h3
      rw [← select_zip ps _ _ (l1.trans l2.symm)]
      rw [← select_zip ps _ _ (by simp [List.length_zip, l1, l2, l3])]
      rw [← select_zip ps _ _ (by simp [List.length_zip, l1, l2, l3])]

theorem optLane_cat (c : Prop) [Decidable c] (a b : Option (List β)) (na nb : Nat)
    (ha : ∀ xs, a = some xs → xs.length = na) (hb : ∀ xs, b = some xs → xs.length = nb)
    (hp : ¬ c → a.isSome ∧ b.isSome) :
    optLane (na + nb) (if c then none else catLane a b) =
      (optLane na a ++ optLane nb b).map (fun x => if c then none else x) := by
  by_cases hc : c
  · simp only [hc, if_true]
    have : optLane (na + nb) (none : Option (List β)) = List.replicate (na + nb) none := rfl
    rw [this]
    apply List.ext_getElem
    · simp [optLane_length ha, optLane_length hb]
    · intro i h1 h2; simp only [List.getElem_replicate, List.getElem_map]
  · obtain ⟨hsa, hsb⟩ := hp hc
    cases a with
    | none => simp at hsa
    | some xs =>
      cases b with
      | none => simp at hsb
      | some ys => simp [hc, optLane, catLane]; rfl

theorem add_refines (p q : SimPort β) (hp : p.WF) (hq : q.WF) :
    Refines WF den (p.add q) (Spec.add restrict (den p) (den q)) := by
  obtain ⟨p1, p2, p3, pi, po, poe⟩ := hp
  obtain ⟨q1, q2, q3, qi, qo, qoe⟩ := hq
  simp only [add, Spec.add, meet_eq, bind, Except.bind, den]
  cases hd : Spec.dirMeet p.dir q.dir with
  | error e => simp [Refines]
  | ok d =>
    have hdo : ¬ d = .o → p.dir ≠ .o ∧ q.dir ≠ .o := by
      revert hd; cases p.dir <;> cases q.dir <;> simp [Spec.dirMeet, pure, Except.pure] <;>
        (intro h; subst h; simp)
    have hdi : ¬ d = .i → p.dir ≠ .i ∧ q.dir ≠ .i := by
      revert hd; cases p.dir <;> cases q.dir <;> simp [Spec.dirMeet, pure, Except.pure] <;>
        (intro h; subst h; simp)
    have ci := optLane_cat (d = .o) p.i q.i _ _ p1 q1 (fun h => ⟨pi.2 (hdo h).1, qi.2 (hdo h).2⟩)
    have co := optLane_cat (d = .i) p.o q.o _ _ p2 q2 (fun h => ⟨po.2 (hdi h).1, qo.2 (hdi h).2⟩)
    have coe := optLane_cat (d = .i) p.oe q.oe _ _ p3 q3 (fun h => ⟨poe.2 (hdi h).1, qoe.2 (hdi h).2⟩)
    simp only [pure, Except.pure, Refines]
    refine ⟨⟨?_, ?_, ?_, ?_, ?_, ?_⟩, ?_⟩
    · intro xs hx
      by_cases hc : d = .o
      · simp [hc] at hx
      · have ⟨ha, hb⟩ := hdo hc
        obtain ⟨xa, hxa⟩ := Option.isSome_iff_exists.1 (pi.2 ha)
        obtain ⟨xb, hxb⟩ := Option.isSome_iff_exists.1 (qi.2 hb)
        simp only [hc, if_false, catLane, hxa, hxb, Option.getD, Option.some.injEq] at hx
        subst hx
        simp [p1 xa hxa, q1 xb hxb]
    · intro xs hx
      by_cases hc : d = .i
      · simp [hc] at hx
      · have ⟨ha, hb⟩ := hdi hc
        obtain ⟨xa, hxa⟩ := Option.isSome_iff_exists.1 (po.2 ha)
        obtain ⟨xb, hxb⟩ := Option.isSome_iff_exists.1 (qo.2 hb)
        simp only [hc, if_false, catLane, hxa, hxb, Option.getD, Option.some.injEq] at hx
        subst hx
        simp [p2 xa hxa, q2 xb hxb]
    · intro xs hx
      by_cases hc : d = .i
      · simp [hc] at hx
      · have ⟨ha, hb⟩ := hdi hc
        obtain ⟨xa, hxa⟩ := Option.isSome_iff_exists.1 (poe.2 ha)
        obtain ⟨xb, hxb⟩ := Option.isSome_iff_exists.1 (qoe.2 hb)
        simp only [hc, if_false, catLane, hxa, hxb, Option.getD, Option.some.injEq] at hx
        subst hx
        simp [p3 xa hxa, q3 xb hxb]
    · by_cases hc : d = .o <;> simp [hc, catLane]
    · by_cases hc : d = .i <;> simp [hc, catLane]
    · by_cases hc : d = .i <;> simp [hc, catLane]
    · simp only [den, List.length_append, ci, co, coe]
      have l1 := @optLane_length β _ _ p1
      have l2 := @optLane_length β _ _ p2
      have l3 := @optLane_length β _ _ p3
      rw [List.zip_map, List.zip_append (l1.trans l2.symm)]
      rw [List.zip_map, List.zip_append (by simp [List.length_zip, l1, l2, l3])]
      rw [List.zip_map_left, List.zip_append (by simp [List.length_zip, l1, l2, l3])]
      rfl

theorem invert_refines (p : SimPort β) (hp : p.WF) :
    Refines WF den p.invert (Spec.invert (den p)) := by
  obtain ⟨p1, p2, p3, pi, po, poe⟩ := hp
  simp only [invert, Spec.invert, pure, Except.pure, Refines]
  refine ⟨⟨by simpa using p1, by simpa using p2, by simpa using p3, pi, po, poe⟩, ?_⟩
  simp [den, List.zip_map_right]

end SimPort
end Amaranth.IoBuf
