import Mathlib.Data.Int.ModEq
import Mathlib.Tactic.Ring
import Mathlib.Tactic.Linarith
import AmaranthVerif.Model.Rtlil.Cells

/-! # General-width lemmas about the RTLIL cell semantics (helper lemmas for `Properties/C04`) -/

namespace Amaranth.Rtlil

theorem two_pow_pos_int (w : Nat) : (0 : Int) < 2 ^ w := by positivity

theorem pow_le_pow_int {a b : Nat} (h : a ≤ b) : (2 : Int) ^ a ≤ 2 ^ b :=
  pow_le_pow_right₀ (by norm_num) h

theorem pow_dvd_pow_int {a b : Nat} (h : a ≤ b) : (2 : Int) ^ a ∣ 2 ^ b := pow_dvd_pow 2 h

/-- the number a vector denotes lies in the range of its shape -/
theorem toInt_range (s : Bool) (w a : Nat) (ha : a < 2 ^ w) :
    (if s && decide (0 < w) then -(2 : Int) ^ (w - 1) else 0) ≤ toInt s w a ∧
    toInt s w a < (if s && decide (0 < w) then (2 : Int) ^ (w - 1) else 2 ^ w) := by
  have haI : (a : Int) < 2 ^ w := by exact_mod_cast ha
  unfold toInt
  cases s
  · simp only [Bool.false_and, Bool.false_eq_true, if_false]
    exact ⟨by positivity, haI⟩
  · by_cases hw : 0 < w
    · have hsplit : (2 : Int) ^ w = 2 * 2 ^ (w - 1) := by
        conv_lhs => rw [show w = (w - 1) + 1 by omega]
        rw [pow_succ]; ring
      by_cases hm : 2 ^ (w - 1) ≤ a
      · have hmI : (2 : Int) ^ (w - 1) ≤ a := by exact_mod_cast hm
        simp only [Bool.true_and, hm, hw, decide_true, if_true]
        constructor <;> linarith
      · have hmI : (a : Int) < 2 ^ (w - 1) := by
          have : a < 2 ^ (w - 1) := by omega
          exact_mod_cast this
        simp only [Bool.true_and, hm, hw, decide_true, decide_false, Bool.false_and, if_true]
        constructor
        · have : (0 : Int) ≤ a := by positivity
          have h2 := two_pow_pos_int (w - 1)
          simp; linarith
        · simpa using hmI
    · have hw0 : w = 0 := by omega
      subst hw0
      simp at ha
      subst ha
      simp

theorem modEq_of_eq_add_mul {w : Nat} {a b k : Int} (h : b = a + 2 ^ w * k) : a ≡ b [ZMOD 2 ^ w] :=
  Int.modEq_iff_dvd.mpr (Dvd.intro k (by rw [h]; ring))

/-- two congruent numbers in the same window of length `M` are equal -/
theorem eq_of_modEq_of_range {M x y lo : Int} (hM : 0 < M) (h : x ≡ y [ZMOD M])
    (hx : lo ≤ x ∧ x < lo + M) (hy : lo ≤ y ∧ y < lo + M) : x = y := by
  have h' : (x - lo) % M = (y - lo) % M := h.sub_right lo
  rw [Int.emod_eq_of_lt (by linarith [hx.1]) (by linarith [hx.2]),
      Int.emod_eq_of_lt (by linarith [hy.1]) (by linarith [hy.2])] at h'
  linarith

/-- a vector and the number it denotes agree modulo `2^w` -/
theorem toInt_modEq (s : Bool) (w a : Nat) : toInt s w a ≡ (a : Int) [ZMOD 2 ^ w] := by
  unfold toInt
  split
  · exact (modEq_of_eq_add_mul (k := 1) (by ring))
  · rfl

theorem extend_lt (s : Bool) (aw w a : Nat) (ha : a < 2 ^ aw) : extend s aw w a < 2 ^ w := by
  unfold extend
  by_cases h : w ≤ aw
  · simp only [h, if_true]; exact Nat.mod_lt _ (Nat.two_pow_pos w)
  · have hlt : aw < w := by omega
    have hp : 2 ^ aw ≤ 2 ^ w := Nat.pow_le_pow_right (by norm_num) (by omega)
    simp only [h, if_false]
    split <;> omega

/-- extension (sign or zero, or truncation) preserves the denoted number modulo `2^w` -/
theorem extend_modEq (s : Bool) (aw w a : Nat) : (extend s aw w a : Int) ≡ toInt s aw a [ZMOD 2 ^ w] := by
  unfold extend
  by_cases h : w ≤ aw
  · simp only [h, if_true]
    have h1 : ((a % 2 ^ w : Nat) : Int) ≡ (a : Int) [ZMOD 2 ^ w] := by
      push_cast
      exact Int.mod_modEq _ _
    have h2 : toInt s aw a ≡ (a : Int) [ZMOD 2 ^ w] := by
      have := toInt_modEq s aw a
      exact Int.ModEq.of_dvd (pow_dvd_pow_int h) this
    exact h1.trans h2.symm
  · have hlt : aw < w := by omega
    have hp : 2 ^ aw ≤ 2 ^ w := Nat.pow_le_pow_right (by norm_num) (by omega)
    simp only [h, if_false]
    unfold toInt
    by_cases hc : (s && decide (0 < aw) && decide (2 ^ (aw - 1) ≤ a)) = true
    · have hc' : (s && decide (2 ^ (aw - 1) ≤ a) && decide (0 < aw)) = true := by
        simp only [Bool.and_eq_true, decide_eq_true_eq] at hc ⊢
        tauto
      simp only [hc, hc', if_true]
      push_cast [Nat.cast_sub hp]
      exact modEq_of_eq_add_mul (k := -1) (by ring)
    · have hc' : ¬ (s && decide (2 ^ (aw - 1) ≤ a) && decide (0 < aw)) = true := by
        simp only [Bool.and_eq_true, decide_eq_true_eq] at hc ⊢
        tauto
      simp only [hc, hc', if_false]
      rfl

/-- a natural number below `2^w` that is congruent to `i` is `ofInt w i` -/
theorem eq_ofInt {w n : Nat} {i : Int} (hn : n < 2 ^ w) (h : (n : Int) ≡ i [ZMOD 2 ^ w]) : n = ofInt w i := by
  unfold ofInt
  have hnI : (n : Int) < 2 ^ w := by exact_mod_cast hn
  have : (n : Int) % 2 ^ w = n := Int.emod_eq_of_lt (by positivity) hnI
  have h2 : i % 2 ^ w = n := by rw [← this]; exact h.symm
  rw [h2]
  simp

theorem natCast_mod_pow (x w : Nat) : ((x % 2 ^ w : Nat) : Int) ≡ (x : Int) [ZMOD 2 ^ w] := by
  push_cast
  exact Int.mod_modEq _ _

/-! ## arithmetic -/

theorem cellAdd_exact (sa sb : Bool) (aw bw yw a b : Nat) :
    cellAdd sa sb aw bw yw a b = ofInt yw (toInt sa aw a + toInt sb bw b) := by
  apply eq_ofInt (Nat.mod_lt _ (Nat.two_pow_pos yw))
  refine (natCast_mod_pow _ _).trans ?_
  push_cast
  exact (extend_modEq sa aw yw a).add (extend_modEq sb bw yw b)

theorem cellMul_exact (sa sb : Bool) (aw bw yw a b : Nat) :
    cellMul sa sb aw bw yw a b = ofInt yw (toInt sa aw a * toInt sb bw b) := by
  apply eq_ofInt (Nat.mod_lt _ (Nat.two_pow_pos yw))
  refine (natCast_mod_pow _ _).trans ?_
  push_cast
  exact (extend_modEq sa aw yw a).mul (extend_modEq sb bw yw b)

theorem cellSub_exact (sa sb : Bool) (aw bw yw a b : Nat) (hb : b < 2 ^ bw) :
    cellSub sa sb aw bw yw a b = ofInt yw (toInt sa aw a - toInt sb bw b) := by
  apply eq_ofInt (Nat.mod_lt _ (Nat.two_pow_pos yw))
  refine (natCast_mod_pow _ _).trans ?_
  have hlt := extend_lt sb bw yw b hb
  push_cast [Nat.cast_sub (Nat.le_of_lt hlt)]
  have h1 := extend_modEq sa aw yw a
  have h2 := extend_modEq sb bw yw b
  have h3 : (2 : Int) ^ yw - (extend sb bw yw b : Int) ≡ -(toInt sb bw b) [ZMOD 2 ^ yw] := by
    have : (2 : Int) ^ yw ≡ 0 [ZMOD 2 ^ yw] := (modEq_of_eq_add_mul (k := 1) (by ring)).symm
    simpa using this.sub h2
  have := h1.add h3
  simpa [sub_eq_add_neg] using this

theorem cellNeg_exact (sa : Bool) (aw yw a : Nat) (ha : a < 2 ^ aw) :
    cellNeg sa aw yw a = ofInt yw (-(toInt sa aw a)) := by
  apply eq_ofInt (Nat.mod_lt _ (Nat.two_pow_pos yw))
  refine (natCast_mod_pow _ _).trans ?_
  have hlt := extend_lt sa aw yw a ha
  push_cast [Nat.cast_sub (Nat.le_of_lt hlt)]
  have h2 := extend_modEq sa aw yw a
  have : (2 : Int) ^ yw ≡ 0 [ZMOD 2 ^ yw] := (modEq_of_eq_add_mul (k := 1) (by ring)).symm
  simpa using this.sub h2

theorem cellNot_exact (sa : Bool) (aw yw a : Nat) (ha : a < 2 ^ aw) :
    cellNot sa aw yw a = ofInt yw (-(toInt sa aw a) - 1) := by
  have hlt := extend_lt sa aw yw a ha
  have hpos := Nat.two_pow_pos yw
  apply eq_ofInt (by unfold cellNot; omega)
  unfold cellNot
  have h2 := extend_modEq sa aw yw a
  have e : ((2 ^ yw - 1 - extend sa aw yw a : Nat) : Int) = 2 ^ yw - 1 - (extend sa aw yw a : Int) := by
    have : extend sa aw yw a ≤ 2 ^ yw - 1 := by omega
    push_cast [Nat.cast_sub this, Nat.cast_sub hpos]
    ring
  rw [e]
  have : (2 : Int) ^ yw ≡ 0 [ZMOD 2 ^ yw] := (modEq_of_eq_add_mul (k := 1) (by ring)).symm
  have h3 := (this.sub (Int.ModEq.refl 1)).sub h2
  simpa [sub_eq_add_neg, add_comm, add_left_comm, add_assoc] using h3

/-! ## comparisons -/

/-- extension to at least the own width preserves the denoted number (when the signedness is kept) -/
theorem toInt_extend (s : Bool) (aw w a : Nat) (ha : a < 2 ^ aw) (hw : aw ≤ w) :
    toInt s w (extend s aw w a) = toInt s aw a := by
  -- both sides are congruent modulo 2^w and lie in the same window of length 2^w
  have hcong : toInt s w (extend s aw w a) ≡ toInt s aw a [ZMOD 2 ^ w] :=
    (toInt_modEq s w _).trans (extend_modEq s aw w a)
  have hr1 := toInt_range s w (extend s aw w a) (extend_lt s aw w a ha)
  have hr2 := toInt_range s aw a ha
  have hpw : (2 : Int) ^ aw ≤ 2 ^ w := pow_le_pow_int hw
  have h2w := two_pow_pos_int w
  cases s
  · simp only [Bool.false_and, Bool.false_eq_true, if_false] at hr1 hr2
    exact eq_of_modEq_of_range (lo := 0) h2w hcong ⟨hr1.1, by linarith [hr1.2]⟩ ⟨hr2.1, by linarith [hr2.2]⟩
  · by_cases haw : 0 < aw
    · have hw0 : 0 < w := by omega
      simp only [Bool.true_and, haw, hw0, decide_true, if_true] at hr1 hr2
      have hsplit : (2 : Int) ^ w = 2 * 2 ^ (w - 1) := by
        conv_lhs => rw [show w = (w - 1) + 1 by omega]
        rw [pow_succ]; ring
      have hle : (2 : Int) ^ (aw - 1) ≤ 2 ^ (w - 1) := pow_le_pow_int (by omega)
      exact eq_of_modEq_of_range (lo := -2 ^ (w - 1)) h2w hcong ⟨hr1.1, by linarith [hr1.2]⟩
        ⟨by linarith [hr2.1], by linarith [hr2.2]⟩
    · have haw0 : aw = 0 := by omega
      subst haw0
      simp at ha
      subst ha
      by_cases hw0 : w = 0
      · subst hw0; simp [extend, toInt]
      · simp [extend, toInt, hw0]

theorem vecLt_extend (s : Bool) (aw bw a b : Nat) (ha : a < 2 ^ aw) (hb : b < 2 ^ bw) :
    vecLt s (cmpWidth aw bw) (extend s aw (cmpWidth aw bw) a) (extend s bw (cmpWidth aw bw) b)
      = decide (toInt s aw a < toInt s bw b) := by
  unfold vecLt cmpWidth
  rw [toInt_extend s aw _ a ha (Nat.le_max_left _ _), toInt_extend s bw _ b hb (Nat.le_max_right _ _)]

theorem extend_eq_iff (s : Bool) (aw bw a b : Nat) (ha : a < 2 ^ aw) (hb : b < 2 ^ bw) :
    extend s aw (cmpWidth aw bw) a = extend s bw (cmpWidth aw bw) b ↔ toInt s aw a = toInt s bw b := by
  unfold cmpWidth
  constructor
  · intro h
    rw [← toInt_extend s aw _ a ha (Nat.le_max_left aw bw), ← toInt_extend s bw _ b hb (Nat.le_max_right aw bw), h]
  · intro h
    have h1 := extend_modEq s aw (max aw bw) a
    have h2 := extend_modEq s bw (max aw bw) b
    rw [h] at h1
    have hc := h1.trans h2.symm
    have l1 := extend_lt s aw (max aw bw) a ha
    have l2 := extend_lt s bw (max aw bw) b hb
    have e1 := eq_ofInt l1 hc
    have e2 := eq_ofInt l2 (Int.ModEq.refl _)
    rw [e1, ← e2]

theorem cellLt_exact (s : Bool) (aw bw yw a b : Nat) (ha : a < 2 ^ aw) (hb : b < 2 ^ bw) :
    cellLt s s aw bw yw a b = b2n (decide (toInt s aw a < toInt s bw b)) % 2 ^ yw := by
  unfold cellLt
  rw [Bool.and_self, vecLt_extend s aw bw a b ha hb]

theorem cellGt_exact (s : Bool) (aw bw yw a b : Nat) (ha : a < 2 ^ aw) (hb : b < 2 ^ bw) :
    cellGt s s aw bw yw a b = b2n (decide (toInt s bw b < toInt s aw a)) % 2 ^ yw := by
  unfold cellGt
  have := vecLt_extend s bw aw b a hb ha
  unfold cmpWidth at this ⊢
  rw [Bool.and_self, Nat.max_comm aw bw, this]

theorem not_decide_lt (x y : Int) : (!decide (y < x)) = decide (x ≤ y) := by
  by_cases h : y < x
  · simp [h, not_le.mpr h]
  · simp [h, not_lt.mp h]

theorem cellLe_exact (s : Bool) (aw bw yw a b : Nat) (ha : a < 2 ^ aw) (hb : b < 2 ^ bw) :
    cellLe s s aw bw yw a b = b2n (decide (toInt s aw a ≤ toInt s bw b)) % 2 ^ yw := by
  unfold cellLe
  have := vecLt_extend s bw aw b a hb ha
  unfold cmpWidth at this ⊢
  rw [Bool.and_self, Nat.max_comm aw bw, this, not_decide_lt]

theorem cellGe_exact (s : Bool) (aw bw yw a b : Nat) (ha : a < 2 ^ aw) (hb : b < 2 ^ bw) :
    cellGe s s aw bw yw a b = b2n (decide (toInt s bw b ≤ toInt s aw a)) % 2 ^ yw := by
  unfold cellGe
  rw [Bool.and_self, vecLt_extend s aw bw a b ha hb, not_decide_lt]

theorem cellEq_exact (s : Bool) (aw bw yw a b : Nat) (ha : a < 2 ^ aw) (hb : b < 2 ^ bw) :
    cellEq s s aw bw yw a b = b2n (decide (toInt s aw a = toInt s bw b)) % 2 ^ yw := by
  unfold cellEq
  congr 2
  have := extend_eq_iff s aw bw a b ha hb
  by_cases h : toInt s aw a = toInt s bw b
  · simp [h, this.mpr h]
  · have : extend s aw (cmpWidth aw bw) a ≠ extend s bw (cmpWidth aw bw) b := fun e => h (this.mp e)
    simp [h, this]

theorem cellNe_exact (s : Bool) (aw bw yw a b : Nat) (ha : a < 2 ^ aw) (hb : b < 2 ^ bw) :
    cellNe s s aw bw yw a b = b2n (decide (toInt s aw a ≠ toInt s bw b)) % 2 ^ yw := by
  unfold cellNe
  congr 2
  have := extend_eq_iff s aw bw a b ha hb
  by_cases h : toInt s aw a = toInt s bw b
  · simp [h, this.mpr h]
  · have : extend s aw (cmpWidth aw bw) a ≠ extend s bw (cmpWidth aw bw) b := fun e => h (this.mp e)
    simp [h, this]

end Amaranth.Rtlil
