import AmaranthVerif.Proofs.AsyncFifoRefine

/-! # AsyncFIFOBuffered: the output register on top of the AsyncFIFO invariant -/

namespace Amaranth.AsyncFifo
open Queue2

def bstepG (c : Cfg) (s : BState) (i : Inp) (w r : Bool) : BState :=
  let t := if w then bwEdge c s s i else s
  if r then brEdge c s t i else t

theorem bstep_eq_bstepG (c : Cfg) (s : BState) (e : Event) : bstep c s e = bstepG c s e.inp e.isW e.isR := by
  cases e <;> rfl

section fields
variable (c : Cfg) (s : BState) (i : Inp) (w r : Bool)

@[simp] theorem bstepG_inner : (bstepG c s i w r).inner = stepG c s.inner (s.innerInp i) w r := by
  cases w <;> cases r <;> rfl
@[simp] theorem bstepG_rData : (bstepG c s i w r).rData = if r then (if s.load i then s.inner.rData else s.rData) else s.rData := by
  cases w <;> cases r <;> rfl
@[simp] theorem bstepG_rRdy : (bstepG c s i w r).rRdy = if r then (if s.load i then s.inner.rRdy else s.rRdy) else s.rRdy := by
  cases w <;> cases r <;> rfl
@[simp] theorem bstepG_rLevel : (bstepG c s i w r).rLevel =
    if r then (s.inner.rLevel c + b2n (s.rConsumeBuffered i)) % 2 ^ c.blevelBits else s.rLevel := by
  cases w <;> cases r <;> rfl

end fields

structure BGhost where
  /-- ghost of the inner FIFO -/
  g : Ghost
  /-- every word delivered at the buffered FIFO's read port -/
  oLog : List Nat

def BGhost.init : BGhost := ⟨Ghost.init, []⟩

def bgstepG (c : Cfg) (bg : BGhost) (s : BState) (i : Inp) (w r : Bool) : BGhost :=
  { g := gstepG c bg.g s.inner (s.innerInp i) w r
    oLog := if r && (s.rRdy && i.rEn) then bg.oLog ++ [s.rData] else bg.oLog }

def bgstep (c : Cfg) (bg : BGhost) (s : BState) (e : Event) : BGhost := bgstepG c bg s e.inp e.isW e.isR

/-- words delivered at the outer read port: the inner count minus the one waiting in the output register -/
def BGhost.nread (bg : BGhost) (s : BState) : Nat := bg.g.nread - b2n s.rRdy

structure BInv (c : Cfg) (bg : BGhost) (s : BState) : Prop where
  inner : Inv c bg.g s.inner
  buf : s.rRdy = true → 1 ≤ bg.g.nread ∧ s.rData = bg.g.written.getD (bg.g.nread - 1) 0
  olog : bg.oLog = bg.g.written.take (bg.nread s)
  rlev : s.rLevel ≤ c.bdepth
  q3 : 3 ≤ bg.g.quiet → s.rRdy = true ∨ bg.g.nread = bg.g.P

theorem binv_init (c : Cfg) : BInv c BGhost.init binit := by
  constructor
  · exact inv_init c
  · simp [binit]
  · simp [BGhost.init, BGhost.nread, Ghost.init]
  · simp [binit]
  · simp [BGhost.init, Ghost.init]

theorem gstepG_nread (c : Cfg) (g : Ghost) (s : State) (i : Inp) (w r : Bool) :
    (gstepG c g s i w r).nread = g.nread + b2n (r && doRead s i) := by
  simp only [gstepG]; split <;> simp [b2n, *]

theorem gstepG_P (c : Cfg) (g : Ghost) (s : State) (i : Inp) (w r : Bool) :
    (gstepG c g s i w r).P = g.P + b2n (w && doWrite c s i) := by
  simp only [gstepG, Ghost.P]; split <;> simp [b2n, *]

theorem gstepG_getD (c : Cfg) (g : Ghost) (s : State) (i : Inp) (w r : Bool) (k : Nat) (hk : k < g.P) :
    (gstepG c g s i w r).written.getD k 0 = g.written.getD k 0 := by
  simp only [gstepG]; split
  · exact getD_snoc_lt _ _ _ hk
  · rfl

theorem gstepG_take (c : Cfg) (g : Ghost) (s : State) (i : Inp) (w r : Bool) (k : Nat) (hk : k ≤ g.P) :
    (gstepG c g s i w r).written.take k = g.written.take k := by
  simp only [gstepG]; split
  · exact List.take_append_of_le_length hk
  · rfl

theorem gstepG_quiet_ge (c : Cfg) (g : Ghost) (s : State) (i : Inp) (w r : Bool) (k : Nat)
    (hk : k + 1 ≤ (gstepG c g s i w r).quiet) :
    (w && doWrite c s i) = false ∧ (if r then k ≤ g.quiet else k + 1 ≤ g.quiet) := by
  simp only [gstepG] at hk
  cases hdw : (w && doWrite c s i)
  · simp only [hdw, Bool.false_eq_true, if_false] at hk
    refine ⟨rfl, ?_⟩
    cases r
    · simpa using hk
    · simp only [if_true] at hk ⊢; omega
  · simp [hdw] at hk

theorem BInv.stepG {c : Cfg} {bg : BGhost} {s : BState} (h : BInv c bg s) (hn : 1 ≤ c.ctrBits) (i : Inp) (w r : Bool) :
    BInv c (bgstepG c bg s i w r) (bstepG c s i w r) := by
  have hi := h.inner
  have hi' := hi.stepG hn (s.innerInp i) w r
  have ho := hi.ord
  have hD : 0 < c.depth := Nat.two_pow_pos _
  have hC' := gstepG_nread c bg.g s.inner (s.innerInp i) w r
  have hP' := gstepG_P c bg.g s.inner (s.innerInp i) w r
  have hgetD := gstepG_getD c bg.g s.inner (s.innerInp i) w r
  have htake := gstepG_take c bg.g s.inner (s.innerInp i) w r
  have hird := hi.rRdy_iff hn
  -- the inner FIFO pops exactly when the output register loads from a ready inner FIFO
  have hdr : doRead s.inner (s.innerInp i) = (s.inner.rRdy && s.load i) := rfl
  have hbuf := h.buf
  have holog := h.olog
  unfold BGhost.nread at holog
  refine { inner := by rw [bstepG_inner]; exact hi', buf := ?_, olog := ?_, rlev := ?_, q3 := ?_ }
  · -- buf
    show (bstepG c s i w r).rRdy = true →
      1 ≤ (gstepG c bg.g s.inner (s.innerInp i) w r).nread ∧
      (bstepG c s i w r).rData = (gstepG c bg.g s.inner (s.innerInp i) w r).written.getD ((gstepG c bg.g s.inner (s.innerInp i) w r).nread - 1) 0
    rw [hC', hdr, bstepG_rRdy, bstepG_rData]
    cases r
    · simp only [Bool.false_eq_true, if_false, Bool.false_and, b2n, Nat.add_zero]
      intro hr; obtain ⟨h1, h2⟩ := hbuf hr
      exact ⟨h1, by rw [hgetD _ (by omega)]; exact h2⟩
    · simp only [if_true, Bool.true_and]
      cases hl : s.load i
      · simp only [Bool.false_eq_true, if_false, Bool.and_false, b2n, Nat.add_zero]
        intro hr; obtain ⟨h1, h2⟩ := hbuf hr
        exact ⟨h1, by rw [hgetD _ (by omega)]; exact h2⟩
      · simp only [if_true, Bool.and_true]
        intro hr
        have hlt := hird.1 hr
        simp only [hr, b2n, if_true, Nat.add_sub_cancel]
        exact ⟨by omega, by rw [hgetD _ (by omega)]; exact hi.rdata (by omega)⟩
  · -- olog
    show (if (r && (s.rRdy && i.rEn)) = true then bg.oLog ++ [s.rData] else bg.oLog) =
      (gstepG c bg.g s.inner (s.innerInp i) w r).written.take
        ((gstepG c bg.g s.inner (s.innerInp i) w r).nread - b2n (bstepG c s i w r).rRdy)
    rw [hC', hdr, bstepG_rRdy]
    cases r
    · simp only [Bool.false_eq_true, if_false, Bool.false_and, b2n, Nat.add_zero]
      rw [htake _ (by omega)]; exact holog
    · simp only [if_true, Bool.true_and]
      cases hl : s.load i
      · have : (s.rRdy && i.rEn) = false := by
          unfold BState.load at hl; cases hr : s.rRdy <;> cases he : i.rEn <;> simp_all
        simp only [this, Bool.false_eq_true, if_false, Bool.and_false, b2n, Nat.add_zero]
        rw [htake _ (by omega)]; exact holog
      · simp only [if_true, Bool.and_true]
        have e : bg.g.nread + b2n s.inner.rRdy - b2n s.inner.rRdy = bg.g.nread := by omega
        rw [e, htake _ (by omega)]
        cases hr : s.rRdy
        · simp only [Bool.false_and, Bool.false_eq_true, if_false]
          rw [holog, hr]; simp [b2n]
        · have hen : i.rEn = true := by unfold BState.load at hl; simp [hr] at hl; exact hl
          obtain ⟨h1, h2⟩ := hbuf hr
          simp only [hen, Bool.and_true, if_true]
          rw [holog, hr, h2]
          simp only [b2n, if_true]
          have := take_succ_getD bg.g.written (bg.g.nread - 1) (by unfold Ghost.P at ho; omega)
          rw [show bg.g.nread - 1 + 1 = bg.g.nread by omega] at this
          exact this.symm
  · -- rlev
    rw [bstepG_rLevel]
    cases r
    · simpa using h.rlev
    · simp only [if_true]
      apply Nat.le_trans (Nat.mod_le _ _)
      rw [hi.rLevel_eq hn]
      have : b2n (s.rConsumeBuffered i) ≤ 1 := by unfold b2n; split <;> omega
      unfold Cfg.bdepth; omega
  · -- q3
    show 3 ≤ (gstepG c bg.g s.inner (s.innerInp i) w r).quiet →
      (bstepG c s i w r).rRdy = true ∨ (gstepG c bg.g s.inner (s.innerInp i) w r).nread = (gstepG c bg.g s.inner (s.innerInp i) w r).P
    intro hq
    obtain ⟨hdw, hq'⟩ := gstepG_quiet_ge c bg.g s.inner (s.innerInp i) w r 2 hq
    rw [hC', hP', hdw, hdr, bstepG_rRdy]
    cases r
    · simp only [Bool.false_eq_true, if_false, Bool.false_and, b2n, Nat.add_zero] at hq' ⊢
      exact h.q3 hq'
    · simp only [if_true, Bool.true_and, b2n, Bool.false_eq_true, if_false, Nat.add_zero] at hq' ⊢
      have hq2 := hi.q2 hq'
      cases hl : s.load i
      · left
        unfold BState.load at hl; cases hr : s.rRdy <;> simp_all
      · simp only [if_true, Bool.and_true]
        cases hr : s.inner.rRdy
        · right
          have : ¬ bg.g.nread < bg.g.p1 := by rw [← hird, hr]; simp
          simp; omega
        · left; rfl

theorem BInv.step {c : Cfg} {bg : BGhost} {s : BState} (h : BInv c bg s) (hn : 1 ≤ c.ctrBits) (e : Event) :
    BInv c (bgstep c bg s e) (bstep c s e) := by
  rw [bstep_eq_bstepG]; exact h.stepG hn _ _ _

/-- the outer read count advances exactly when the outer port delivers -/
theorem BInv.nread_step {c : Cfg} {bg : BGhost} {s : BState} (h : BInv c bg s) (i : Inp) (w r : Bool) :
    (bgstepG c bg s i w r).nread (bstepG c s i w r) = bg.nread s + b2n (r && (s.rRdy && i.rEn)) := by
  unfold BGhost.nread
  show (gstepG c bg.g s.inner (s.innerInp i) w r).nread - b2n (bstepG c s i w r).rRdy = _
  rw [gstepG_nread, bstepG_rRdy]
  have hdr : doRead s.inner (s.innerInp i) = (s.inner.rRdy && s.load i) := rfl
  rw [hdr]
  have hbuf := h.buf
  cases r
  · simp [b2n]
  · simp only [if_true, Bool.true_and]
    unfold BState.load
    cases hr : s.rRdy <;> cases he : i.rEn <;> cases hir : s.inner.rRdy <;> simp [b2n]
    all_goals (have := (hbuf hr).1; omega)

def bgrun (c : Cfg) : BGhost → BState → List Event → BGhost
  | g, _, [] => g
  | g, s, e :: es => bgrun c (bgstep c g s e) (bstep c s e) es

theorem BInv.run {c : Cfg} (hn : 1 ≤ c.ctrBits) : ∀ (es : List Event) {g : BGhost} {s : BState}, BInv c g s →
    BInv c (bgrun c g s es) (brun c s es)
  | [], _, _, h => h
  | e :: es, _, _, h => BInv.run hn es (h.step hn e)

theorem bgstep_written (c : Cfg) (g : BGhost) (s : BState) (e : Event) :
    (bgstep c g s e).g.written = g.g.written ++ (baccepted c s e).toList := by
  simp only [bgstep, bgstepG, gstepG, baccepted, doWrite, BState.innerInp]; split <;> simp_all

theorem bgstep_oLog (c : Cfg) (g : BGhost) (s : BState) (e : Event) :
    (bgstep c g s e).oLog = g.oLog ++ (bdelivered s e).toList := by
  simp only [bgstep, bgstepG, bdelivered]; split <;> simp

theorem bgrun_written (c : Cfg) : ∀ (es : List Event) (g : BGhost) (s : BState),
    (bgrun c g s es).g.written = g.g.written ++ bwrites c s es
  | [], g, s => by simp [bgrun, bwrites]
  | e :: es, g, s => by simp [bgrun, bwrites, bgrun_written c es, bgstep_written]

theorem bgrun_oLog (c : Cfg) : ∀ (es : List Event) (g : BGhost) (s : BState),
    (bgrun c g s es).oLog = g.oLog ++ breads c s es
  | [], g, s => by simp [bgrun, breads]
  | e :: es, g, s => by simp [bgrun, breads, bgrun_oLog c es, bgstep_oLog]

theorem bgrun_append (c : Cfg) : ∀ (es fs : List Event) (g : BGhost) (s : BState),
    bgrun c g s (es ++ fs) = bgrun c (bgrun c g s es) (brun c s es) fs
  | [], _, _, _ => rfl
  | e :: es, fs, g, s => by simp [bgrun, brun, bgrun_append c es]

theorem brun_append (c : Cfg) : ∀ (es fs : List Event) (s : BState), brun c s (es ++ fs) = brun c (brun c s es) fs
  | [], _, _ => rfl
  | e :: es, fs, s => by simp [brun, brun_append c es]

def bghostOf (c : Cfg) (es : List Event) : BGhost := bgrun c BGhost.init binit es

theorem breach_inv (c : Cfg) (hn : 1 ≤ c.ctrBits) (es : List Event) : BInv c (bghostOf c es) (brun c binit es) :=
  BInv.run hn es (binv_init c)

theorem bghostOf_written (c : Cfg) (es : List Event) : (bghostOf c es).g.written = bwrites c binit es := by
  simp [bghostOf, bgrun_written, BGhost.init, Ghost.init]

theorem bghostOf_oLog (c : Cfg) (es : List Event) : (bghostOf c es).oLog = breads c binit es := by
  simp [bghostOf, bgrun_oLog, BGhost.init]

section
variable {c : Cfg} {bg : BGhost} {s : BState}

theorem BInv.nread_le (h : BInv c bg s) : bg.nread s ≤ bg.g.written.length := by
  have := h.inner.nread_le; unfold BGhost.nread; omega

theorem BInv.oLog_length (h : BInv c bg s) : bg.oLog.length = bg.nread s := by
  rw [h.olog, List.length_take]; have := h.nread_le; omega

theorem BInv.rData_eq (h : BInv c bg s) (hr : s.rRdy = true) : bg.g.written[bg.nread s]? = some s.rData := by
  obtain ⟨h1, h2⟩ := h.buf hr
  have := h.inner.nread_le
  unfold BGhost.nread
  have hP : bg.g.nread - b2n s.rRdy < bg.g.written.length := by rw [hr]; simp [b2n]; omega
  rw [List.getElem?_eq_getElem hP, h2, List.getD_eq_getElem?_getD]
  simp only [hr, b2n, if_true] at hP ⊢
  rw [List.getElem?_eq_getElem hP]; rfl

theorem BInv.wRdy_lt (h : BInv c bg s) (hn : 1 ≤ c.ctrBits) (hw : s.inner.wRdy c = true) :
    bg.g.written.length - bg.nread s < c.bdepth := by
  have := h.inner.wRdy_lt hn hw
  have hb := h.buf
  unfold BGhost.nread Cfg.bdepth
  unfold Ghost.P at this
  cases hr : s.rRdy
  · simp [b2n]; omega
  · have := (hb hr).1; simp [b2n]; omega

theorem BInv.wLevel_le (h : BInv c bg s) : (boutputs c s).wLevel ≤ c.bdepth := by
  show (s.inner.wLevel + b2n s.sync3) % 2 ^ c.blevelBits ≤ c.bdepth
  apply Nat.le_trans (Nat.mod_le _ _)
  have := h.inner.wlev
  have : b2n s.sync3 ≤ 1 := by unfold b2n; split <;> omega
  unfold Cfg.bdepth; omega

end

/-- words accepted and not yet delivered by the buffered FIFO after the run `es` from power-on -/
def bheld (c : Cfg) (es : List Event) : Nat := (bwrites c binit es).length - (breads c binit es).length

theorem bheld_eq (c : Cfg) (hc : 1 ≤ c.ctrBits) (es : List Event) :
    bheld c es = (bghostOf c es).g.P - (bghostOf c es).nread (brun c binit es) := by
  unfold bheld Ghost.P
  rw [← bghostOf_written, ← bghostOf_oLog, (breach_inv c hc es).oLog_length]

/-- monitor state that corresponds to the ghost of an AsyncFIFOBuffered in state `s` -/
def BGMon (bg : BGhost) (s : BState) (m : Mon) : Prop := MonRel bg.g.written (bg.nread s) bg.g.quiet bg.oLog m

theorem basync_admits {c : Cfg} {bg : BGhost} {s : BState} {m : Mon} (h : BInv c bg s) (hn : 1 ≤ c.ctrBits)
    (hm : BGMon bg s m) : m.admits c.bdepth bdrainBound (toObs (boutputs c s)) = true := by
  apply admits_of
  · intro hr
    show m.held.head? = some s.rData
    rw [hm.held, head?_drop]; exact h.rData_eq hr
  · intro hw
    show m.held.length < c.bdepth
    rw [hm.held, List.length_drop]
    exact h.wRdy_lt hn hw
  · exact h.wLevel_le
  · exact h.rlev
  · intro hq hne
    show s.rRdy = true
    rw [hm.quiet] at hq
    cases hr : s.rRdy
    · exfalso
      rcases h.q3 hq with hr' | he
      · rw [hr] at hr'; cases hr'
      · rw [hm.held] at hne
        apply hne
        apply List.drop_eq_nil_of_le
        unfold BGhost.nread; rw [hr]; unfold Ghost.P at he; simp [b2n]; omega
    · rfl

theorem basync_gmon_step {c : Cfg} {bg : BGhost} {s : BState} {m : Mon} (h : BInv c bg s)
    (hm : BGMon bg s m) (e : Event) :
    BGMon (bgstep c bg s e) (bstep c s e) (m.step (toObs (boutputs c s)) (clockOf e) (strobesOf c e)) := by
  have := monRel_step hm h.nread_le (toObs (boutputs c s)) (clockOf e) (strobesOf c e) s.rData h.rData_eq
  simp only [clockOf_isW, clockOf_isR] at this
  unfold BGMon
  rw [bstep_eq_bstepG]
  unfold bgstep
  rw [h.nread_step]
  have e1 : (bgstepG c bg s e.inp e.isW e.isR).g.written =
      if (e.isW && (toObs (boutputs c s)).wRdy && (strobesOf c e).wEn) = true then bg.g.written ++ [(strobesOf c e).wData]
      else bg.g.written := by
    simp only [bgstepG, gstepG, doWrite, BState.innerInp, Bool.and_assoc]; rfl
  have e2 : (bgstepG c bg s e.inp e.isW e.isR).g.quiet =
      if (e.isW && (toObs (boutputs c s)).wRdy && (strobesOf c e).wEn) = true then 0
      else if e.isR = true then bg.g.quiet + 1 else bg.g.quiet := by
    simp only [bgstepG, gstepG, doWrite, BState.innerInp, Bool.and_assoc]; rfl
  have e3 : (bgstepG c bg s e.inp e.isW e.isR).oLog =
      if (e.isR && (toObs (boutputs c s)).rRdy && (strobesOf c e).rEn) = true then bg.oLog ++ [s.rData] else bg.oLog := by
    simp only [bgstepG, Bool.and_assoc]; rfl
  have e4 : bg.nread s + b2n (e.isR && (s.rRdy && e.inp.rEn)) =
      if (e.isR && (toObs (boutputs c s)).rRdy && (strobesOf c e).rEn) = true then bg.nread s + 1 else bg.nread s := by
    rw [Bool.and_assoc]
    show (bg.nread s + b2n (e.isR && (s.rRdy && e.inp.rEn))) =
      if (e.isR && (s.rRdy && e.inp.rEn)) = true then bg.nread s + 1 else bg.nread s
    cases (e.isR && (s.rRdy && e.inp.rEn)) <;> rfl
  rw [e1, e2, e3, e4]
  exact this

theorem basync_accepts_from {c : Cfg} (hn : 1 ≤ c.ctrBits) : ∀ (es : List Event) {bg : BGhost} {s : BState} {m : Mon} (k : Nat),
    BInv c bg s → BGMon bg s m →
    firstViolation c.bdepth bdrainBound m k (toObs (boutputs c s)) (bspecTrace c s es) = none
  | [], _, _, _, _, h, hm => by
    simp [bspecTrace, firstViolation, basync_admits h hn hm]
  | e :: es, _, _, _, k, h, hm => by
    simp only [bspecTrace, firstViolation, basync_admits h hn hm, if_true]
    exact basync_accepts_from hn es (k + 1) (h.step hn e) (basync_gmon_step h hm e)

theorem bgmon_init : BGMon BGhost.init binit Mon.init := by
  constructor <;> rfl

theorem bgstep_quiet_noWrite (c : Cfg) (bg : BGhost) (s : BState) (e : Event) (he : e.inp.wEn = false) :
    (bgstep c bg s e).g.quiet = bg.g.quiet + b2n e.isR := by
  simp only [bgstep, bgstepG, gstepG, doWrite, BState.innerInp, he, Bool.and_false, Bool.false_eq_true, if_false]
  cases e.isR <;> simp [b2n]

theorem bgrun_quiet (c : Cfg) : ∀ (post : List Event) (bg : BGhost) (s : BState), (∀ e ∈ post, e.inp.wEn = false) →
    bg.g.quiet + rEdges post ≤ (bgrun c bg s post).g.quiet
  | [], g, s, _ => by simp [bgrun, rEdges]
  | e :: post, g, s, h => by
    have he := h e (List.mem_cons_self)
    have := bgrun_quiet c post (bgstep c g s e) (bstep c s e) (fun x hx => h x (List.mem_cons_of_mem _ hx))
    rw [bgstep_quiet_noWrite c g s e he] at this
    simp only [bgrun, rEdges, List.filter_cons] at this ⊢
    cases hr : e.isR <;> simp [hr, b2n, rEdges] at this ⊢ <;> omega

/-! ## Draining the buffered FIFO -/

def BGhost.todo (bg : BGhost) (s : BState) : Nat := (bg.g.P - bg.nread s) + (3 - min 3 bg.g.quiet)

theorem BInv.todo_step {c : Cfg} {bg : BGhost} {s : BState} (h : BInv c bg s) (e : Event)
    (hw : e.inp.wEn = false) (hr : e.inp.rEn = true) :
    (bgstep c bg s e).todo (bstep c s e) ≤ bg.todo s - b2n e.isR := by
  have hq := bgstep_quiet_noWrite c bg s e hw
  have hP : (bgstep c bg s e).g.P = bg.g.P := by
    unfold Ghost.P
    simp [bgstep, bgstepG, gstepG, doWrite, BState.innerInp, hw]
  have hC := h.nread_step e.inp e.isW e.isR
  unfold BGhost.todo
  rw [bstep_eq_bstepG]
  unfold bgstep at hq hP ⊢
  rw [hP, hC, hq, hr, Bool.and_true]
  cases hR : e.isR
  · simp [b2n]
  · simp only [Bool.true_and, b2n, if_true]
    by_cases hq3 : 3 ≤ bg.g.quiet
    · rcases h.q3 hq3 with hrdy | he
      · have hb := (h.buf hrdy).1
        have := h.inner.nread_le
        unfold BGhost.nread Ghost.P
        simp only [hrdy, b2n, if_true]
        omega
      · have : ∀ b : Bool, bg.g.P - (bg.nread s + if b = true then 1 else 0) ≤ bg.g.P - bg.nread s := by
          intro b; split <;> omega
        have := this s.rRdy
        have hb := h.buf
        unfold BGhost.nread at this ⊢
        cases hrd : s.rRdy
        · simp only [b2n, Bool.false_eq_true, if_false]; omega
        · have := (hb hrd).1; simp only [b2n, if_true]; omega
    · have : ∀ b : Bool, bg.g.P - (bg.nread s + if b = true then 1 else 0) ≤ bg.g.P - bg.nread s := by
        intro b; split <;> omega
      have := this s.rRdy
      omega

theorem BInv.todo_run {c : Cfg} (hn : 1 ≤ c.ctrBits) : ∀ (post : List Event) {bg : BGhost} {s : BState}, BInv c bg s →
    (∀ e ∈ post, e.inp.wEn = false ∧ e.inp.rEn = true) →
    (bgrun c bg s post).todo (brun c s post) ≤ bg.todo s - rEdges post
  | [], _, _, _, _ => by simp [bgrun, brun, rEdges]
  | e :: post, g, s, h, hq => by
    have he := hq e (List.mem_cons_self)
    have h1 := h.todo_step e he.1 he.2
    have h2 := BInv.todo_run hn post (h.step hn e) (fun x hx => hq x (List.mem_cons_of_mem _ hx))
    simp only [bgrun, brun, rEdges, List.filter_cons] at h2 ⊢
    cases hr : e.isR <;> simp [hr, b2n, rEdges] at h1 h2 ⊢ <;> omega

end Amaranth.AsyncFifo
