import AmaranthVerif.Proofs.IoBufGetItem

/-! # Port classes refine the Spec's ports, operation by operation and for whole expressions
(helper file of C18) -/

namespace Amaranth.IoBuf
open Spec (select positions)

theorem meet_eq (a b : Dir) : a.meet b = Spec.dirMeet a b := by
  cases a <;> cases b <;> rfl

theorem invGetItem_norm' {inv : List Bool} {key : Key} {ps : List Nat} {m : Nat}
    (h : positions inv.length key = .ok ps) (hm : m = (select ps inv).length) :
    ∃ a, invGetItem inv key = .ok a ∧ normInvert m a = .ok (select ps inv) := by
  have := invGetItem_norm h hm
  cases hq : invGetItem inv key with
  | error e => simp [hq, bind, Except.bind] at this
  | ok a => exact ⟨a, rfl, by simpa [hq, bind, Except.bind] using this⟩

/-! ## refinement -/

/-- the model result `x` and the Spec result `y` agree: the same exception kind, or values related
by the denotation `den`, the model value being well-formed -/
def Refines {P S : Type} (WF : P → Prop) (den : P → S) (x : R P) (y : R S) : Prop :=
  match x, y with
  | .ok r, .ok s => WF r ∧ den r = s
  | .error e, .error e' => e = e'
  | _, _ => False

def PExpr.map {P S : Type} (f : P → S) : PExpr P → PExpr S
  | .leaf p => .leaf (f p)
  | .getItem e key => .getItem (e.map f) key
  | .add a b => .add (a.map f) (b.map f)
  | .invert a => .invert (a.map f)

def PExpr.AllLeaves {P : Type} (Q : P → Prop) : PExpr P → Prop
  | .leaf p => Q p
  | .getItem e _ => e.AllLeaves Q
  | .add a b => a.AllLeaves Q ∧ b.AllLeaves Q
  | .invert a => a.AllLeaves Q

theorem eval_refines {P S : Type} (mops : Ops P) (sops : Ops S) (WF : P → Prop) (den : P → S)
    (hget : ∀ p key, WF p → Refines WF den (mops.getItem p key) (sops.getItem (den p) key))
    (hadd : ∀ p q, WF p → WF q → Refines WF den (mops.add p q) (sops.add (den p) (den q)))
    (hinv : ∀ p, WF p → Refines WF den (mops.invert p) (sops.invert (den p)))
    (e : PExpr P) (hleaf : e.AllLeaves WF) :
    Refines WF den (e.eval mops) ((e.map den).eval sops) := by
  induction e with
  | leaf p => exact ⟨hleaf, rfl⟩
  | getItem e key ih =>
    have ih := ih hleaf
    simp only [PExpr.eval, PExpr.map, bind, Except.bind]
    cases hx : e.eval mops <;> cases hy : (e.map den).eval sops <;> simp only [hx, hy, Refines] at ih ⊢
    · exact ih
    · obtain ⟨hw, rfl⟩ := ih
      exact hget _ key hw
  | add a b iha ihb =>
    have iha := iha hleaf.1
    have ihb := ihb hleaf.2
    simp only [PExpr.eval, PExpr.map, bind, Except.bind]
    cases hx : a.eval mops <;> cases hy : (a.map den).eval sops <;> simp only [hx, hy, Refines] at iha ⊢
    · exact iha
    · obtain ⟨hwa, rfl⟩ := iha
      cases hx' : b.eval mops <;> cases hy' : (b.map den).eval sops <;> simp only [hx', hy', Refines] at ihb ⊢
      · exact ihb
      · obtain ⟨hwb, rfl⟩ := ihb
        exact hadd _ _ hwa hwb
  | invert a ih =>
    have ih := ih hleaf
    simp only [PExpr.eval, PExpr.map, bind, Except.bind]
    cases hx : a.eval mops <;> cases hy : (a.map den).eval sops <;> simp only [hx, hy, Refines] at ih ⊢
    · exact ih
    · obtain ⟨hw, rfl⟩ := ih
      exact hinv _ hw

/-! ## `SingleEndedPort` -/

namespace SEPort
variable {β : Type}

def WF (p : SEPort β) : Prop := p.io.length = p.inv.length
def den (p : SEPort β) : Spec.Port β := ⟨p.dir, p.io.zip p.inv⟩

theorem den_length {p : SEPort β} (h : p.WF) : (den p).wires.length = p.io.length := by
  have h : p.io.length = p.inv.length := h
  simp [den, List.length_zip, ← h]

theorem getItem_refines (p : SEPort β) (key : Key) (h : p.WF) :
    Refines WF den (p.getItem key) (Spec.getItem (den p) key) := by
  simp only [getItem, Spec.getItem, den_length h, ioGetItem_eq, bind, Except.bind]
  have h : p.io.length = p.inv.length := h
  cases hpos : positions p.io.length key with
  | error e => simp [Except.map, Refines]
  | ok ps =>
    have hpos' : positions p.inv.length key = .ok ps := by rw [← h]; exact hpos
    obtain ⟨a, ha, hn⟩ := invGetItem_norm' (m := (select ps p.io).length) hpos' (select_length_eq ps h)
    simp only [Except.map, ha, new, bind, Except.bind, hn, pure, Except.pure, Refines]
    exact ⟨select_length_eq ps h, by simp [den, select_zip ps _ _ h]⟩

theorem add_refines (p q : SEPort β) (hp : p.WF) (hq : q.WF) :
    Refines WF den (p.add q) (Spec.add (fun _ w => w) (den p) (den q)) := by
  have hp : p.io.length = p.inv.length := hp
  have hq : q.io.length = q.inv.length := hq
  simp only [add, Spec.add, meet_eq, bind, Except.bind, den]
  cases hd : Spec.dirMeet p.dir q.dir with
  | error e => simp [Refines]
  | ok d =>
    have hl : ¬ (p.inv ++ q.inv).length ≠ (p.io ++ q.io).length := by
      simp [hp, hq]
    simp only [new, normInvert, hl, if_false, bind, Except.bind, pure, Except.pure, Refines]
    refine ⟨by show (p.io ++ q.io).length = (p.inv ++ q.inv).length; simp [hp, hq], ?_⟩
    simp only [den, List.zip_append hp]
    congr 1
    have : (Prod.map (fun (w : β) => w) (id : Bool → Bool)) = id := by funext ⟨_, _⟩; rfl
    simp [this]

theorem invert_refines (p : SEPort β) (hp : p.WF) :
    Refines WF den p.invert (Spec.invert (den p)) := by
  have hp : p.io.length = p.inv.length := hp
  have hl : ¬ (p.inv.map not).length ≠ p.io.length := by simp [hp]
  simp only [invert, Spec.invert, new, normInvert, hl, if_false, bind, Except.bind, pure, Except.pure, Refines]
  refine ⟨by show p.io.length = (p.inv.map not).length; simp [hp], ?_⟩
  simp [den, List.zip_map_right]

end SEPort

/-! ## `DifferentialPort` -/

namespace DiffPort
variable {β : Type}

def WF (x : DiffPort β) : Prop := x.p.length = x.n.length ∧ x.p.length = x.inv.length
def den (x : DiffPort β) : Spec.Port (β × β) := ⟨x.dir, (x.p.zip x.n).zip x.inv⟩

theorem den_length {x : DiffPort β} (h : x.WF) : (den x).wires.length = x.p.length := by
  obtain ⟨h1, h2⟩ := h
  simp [den, List.length_zip, ← h1, ← h2]

theorem getItem_refines (x : DiffPort β) (key : Key) (h : x.WF) :
    Refines WF den (x.getItem key) (Spec.getItem (den x) key) := by
  simp only [getItem, Spec.getItem, den_length h, ioGetItem_eq, bind, Except.bind]
  have h : x.p.length = x.n.length ∧ x.p.length = x.inv.length := h
  cases hpos : positions x.p.length key with
  | error e => simp [Except.map, Refines]
  | ok ps =>
    have hposn : positions x.n.length key = .ok ps := by rw [← h.1]; exact hpos
    have hpos' : positions x.inv.length key = .ok ps := by rw [← h.2]; exact hpos
    obtain ⟨a, ha, hn⟩ := invGetItem_norm' (m := (select ps x.p).length) hpos' (select_length_eq ps h.2)
    have hl : ¬ (select ps x.p).length ≠ (select ps x.n).length := by
      simp [select_length_eq ps h.1]
    simp only [Except.map, hposn, ha, new, hl, if_false, bind, Except.bind, hn, pure, Except.pure, Refines]
    refine ⟨⟨select_length_eq ps h.1, select_length_eq ps h.2⟩, ?_⟩
    have hz : (x.p.zip x.n).length = x.inv.length := by simp [List.length_zip, ← h.1, ← h.2]
    simp [den, select_zip ps _ _ hz, select_zip ps _ _ h.1]

theorem add_refines (x y : DiffPort β) (hx : x.WF) (hy : y.WF) :
    Refines WF den (x.add y) (Spec.add (fun _ w => w) (den x) (den y)) := by
  simp only [add, Spec.add, meet_eq, bind, Except.bind, den]
  cases hd : Spec.dirMeet x.dir y.dir with
  | error e => simp [Refines]
  | ok d =>
    obtain ⟨hx1, hx2⟩ := hx
    obtain ⟨hy1, hy2⟩ := hy
    have hl0 : ¬ (x.p ++ y.p).length ≠ (x.n ++ y.n).length := by simp [hx1, hy1]
    have hl : ¬ (x.inv ++ y.inv).length ≠ (x.p ++ y.p).length := by simp [hx2, hy2]
    simp only [new, normInvert, hl0, hl, if_false, bind, Except.bind, pure, Except.pure, Refines]
    refine ⟨⟨by simp [hx1, hy1], by simp [hx2, hy2]⟩, ?_⟩
    have hz : (x.p.zip x.n).length = x.inv.length := by simp [List.length_zip, ← hx1, ← hx2]
    simp only [den, List.zip_append hx1, List.zip_append hz]
    congr 1
    have : (Prod.map (fun (w : β × β) => w) (id : Bool → Bool)) = id := by funext ⟨_, _⟩; rfl
    simp [this]

theorem invert_refines (x : DiffPort β) (hx : x.WF) :
    Refines WF den x.invert (Spec.invert (den x)) := by
  obtain ⟨hx1, hx2⟩ := hx
  have hl0 : ¬ x.p.length ≠ x.n.length := by simp [hx1]
  have hl : ¬ (x.inv.map not).length ≠ x.p.length := by simp [hx2]
  simp only [invert, Spec.invert, new, normInvert, hl0, hl, if_false, bind, Except.bind, pure, Except.pure, Refines]
  refine ⟨⟨hx1, by simp [hx2]⟩, ?_⟩
  simp [den, List.zip_map_right]

end DiffPort

end Amaranth.IoBuf

namespace Amaranth.IoBuf
open Spec (select positions)

/-- what `SingleEndedPort.__getitem__` returns when the key is accepted -/
theorem SEPort.getItem_ok {β : Type} (p : SEPort β) (key : Key) (h : p.WF) {ps : List Nat}
    (hpos : positions p.io.length key = .ok ps) :
    p.getItem key = .ok ⟨select ps p.io, select ps p.inv, p.dir⟩ := by
  have h : p.io.length = p.inv.length := h
  have hpos' : positions p.inv.length key = .ok ps := by rw [← h]; exact hpos
  obtain ⟨a, ha, hn⟩ := invGetItem_norm' (m := (select ps p.io).length) hpos' (select_length_eq ps h)
  simp only [SEPort.getItem, ioGetItem_eq, hpos, Except.map, ha, SEPort.new, bind, Except.bind, hn, pure, Except.pure]

/-- `p[a:b]` with `0 ≤ a ≤ b ≤ n` selects the run `a, a+1, …, b-1` -/
theorem positions_plain {n a b : Nat} (hab : a ≤ b) (hb : b ≤ n) :
    positions n (.slc (some (a : Int)) (some (b : Int)) none) = .ok (List.range' a (b - a)) := by
  have h1 : Py.sliceIndices n (some (a : Int)) (some (b : Int)) none = .ok ((a : Int), (b : Int), 1) := by
    simp only [Py.sliceIndices, Option.getD, Py.clip, pure, Except.pure]
    have : ¬ ((1 : Int) = 0) := by omega
    have h2 : ¬ ((1 : Int) < 0) := by omega
    have h3 : ¬ ((a : Int) < 0) := by omega
    have h4 : ¬ ((b : Int) < 0) := by omega
    have h5 : ¬ ((a : Int) > n) := by omega
    have h6 : ¬ ((b : Int) > n) := by omega
    simp only [this, h2, h3, h4, h5, h6, if_false]
  simp only [positions, bind, Except.bind, h1]
  have : ¬ (True ∧ (a : Int) > b) := by omega
  simp only [pure, Except.pure]
  rw [Py.range_one (by omega) (by omega), if_neg this]
  congr 2
  omega

end Amaranth.IoBuf
