import AmaranthVerif.Proofs.ResetSpec
import AmaranthVerif.Spec.DomainSpec
import AmaranthVerif.Spec.DrivenPart

/-!
# The static commit masks of a lowered program, against the Spec's "driven bit"

`LHSMaskCollector` (Model: `lhsMask` / `stmtMask`) marks bit `b` of signal `i` exactly when

* some position of a target can be that bit (`drivenBy`, the Spec's positional reading), or
* the bit belongs to the operand of a part-select that occurs *anywhere* in a target (`underPart`): the collector
  marks the whole operand of a `Part` whatever window an enclosing `Slice`/`Cat` later takes of it
  (`visit_value(value.value, ~0)`).

`stmtMask_drives` is that statement for a whole statement list, `lower_targets` says that lowering a program keeps
its targets, so the masks of a lowered program are characterised by the program's own targets (`progMask_iff`).
-/

namespace Amaranth

section
variable (ctx : Ctx)

/-- a position that can be a signal bit lies inside the target -/
theorem atPos_lt (i b : Nat) : ∀ (e : Expr), e.twf ctx = true → ∀ k,
    drivenBy.atPos e k i b ctx = true → k < widthOf ctx e := by
  intro e
  induction e with
  | const v s => intro _ k h; simp [drivenBy.atPos] at h
  | sig j =>
    intro _ k h
    simp only [drivenBy.atPos, Bool.and_eq_true, beq_iff_eq, decide_eq_true_eq] at h
    show k < (ctx.shape j).width
    omega
  | op1 o a ih =>
    intro htw k h
    cases o <;> simp only [Expr.twf, Bool.false_eq_true] at htw <;>
      (simp only [drivenBy.atPos] at h; exact ih htw k h)
  | op2 o a b _ _ => intro htw; simp [Expr.twf] at htw
  | slice a s e ih =>
    intro _ k h
    simp only [drivenBy.atPos, Bool.and_eq_true, decide_eq_true_eq] at h
    show k < e - s
    omega
  | part a off w st _ _ =>
    intro _ k h
    simp only [drivenBy.atPos, Bool.and_eq_true, decide_eq_true_eq] at h
    exact h.1
  | cat lo hi ihlo ihhi =>
    intro htw k h
    simp only [Expr.twf, Bool.and_eq_true] at htw
    simp only [drivenBy.atPos] at h
    show k < widthOf ctx lo + widthOf ctx hi
    split at h
    · omega
    · have := ihhi htw.2 _ h; omega
  | ite test pats thn els _ ihthn ihels =>
    intro htw k h
    simp only [Expr.twf, Bool.and_eq_true] at htw
    simp only [drivenBy.atPos, Bool.or_eq_true] at h
    have hw := Shape.unify_width_ge (shapeOf ctx thn) (shapeOf ctx els)
    show k < (Shape.unify (shapeOf ctx thn) (shapeOf ctx els)).width
    rcases h with h | h
    · have := ihthn htw.1.1.2 k h; unfold widthOf at this; omega
    · have := ihels htw.1.2 k h; unfold widthOf at this; omega

/-- `drivenBy ∨ underPart`, with the positional half as an existential over positions -/
theorem drivenP_iff (i b : Nat) : ∀ (e : Expr), e.twf ctx = true →
    (drivenP ctx e i b = true ↔ (∃ k, drivenBy.atPos e k i b ctx = true) ∨ underPart e i b ctx = true) := by
  intro e
  induction e with
  | const v s => intro _; simp [drivenP, drivenBy, drivenBy.atPos, underPart]
  | sig j =>
    intro _
    simp only [drivenP, drivenBy, drivenBy.atPos, underPart, Bool.or_false, Bool.and_eq_true, beq_iff_eq,
      decide_eq_true_eq, Bool.false_eq_true, or_false]
    constructor
    · rintro ⟨h1, h2⟩; exact ⟨b, ⟨h1, rfl⟩, h2⟩
    · rintro ⟨k, ⟨h1, _⟩, h2⟩; exact ⟨h1, h2⟩
  | op1 o a ih =>
    intro htw
    cases o <;> simp only [Expr.twf, Bool.false_eq_true] at htw <;>
      (have := ih htw; simp only [drivenP, drivenBy, drivenBy.atPos, underPart] at this ⊢; exact this)
  | op2 o a b _ _ => intro htw; simp [Expr.twf] at htw
  | slice a s e ih =>
    intro htw
    simp only [Expr.twf, Bool.and_eq_true, decide_eq_true_eq] at htw
    simp only [drivenP, drivenBy, drivenBy.atPos, underPart, Bool.or_eq_true, List.any_eq_true, List.mem_range,
      Bool.and_eq_true, decide_eq_true_eq]
    constructor
    · rintro (⟨k, _, ⟨h1, h2⟩, h3⟩ | h)
      · left; refine ⟨k - s, by omega, ?_⟩
        have : s + (k - s) = k := by omega
        rw [this]; exact h3
      · exact Or.inr h
    · rintro (⟨k, h1, h2⟩ | h)
      · left; exact ⟨s + k, by omega, ⟨by omega, h1⟩, h2⟩
      · exact Or.inr h
  | part a off w st iha _ =>
    intro htw
    simp only [Expr.twf, Bool.and_eq_true, decide_eq_true_eq, Bool.not_eq_true'] at htw
    have ia := iha htw.1.1.1
    simp only [drivenP, Bool.or_eq_true] at ia
    simp only [drivenP, drivenBy, drivenBy.atPos, underPart, Bool.or_eq_true, List.any_eq_true, List.mem_range,
      Bool.and_eq_true, decide_eq_true_eq]
    constructor
    · rintro (⟨k, _, h⟩ | h)
      · exact Or.inr (ia.mpr (Or.inl ⟨k, h⟩))
      · exact Or.inr h
    · rintro (⟨_, _, k, _, h⟩ | h)
      · exact Or.inr (ia.mpr (Or.inl ⟨k, h⟩))
      · exact Or.inr h
  | cat lo hi ihlo ihhi =>
    intro htw
    simp only [Expr.twf, Bool.and_eq_true] at htw
    have ilo := ihlo htw.1
    have ihi := ihhi htw.2
    simp only [drivenP, Bool.or_eq_true] at ilo ihi
    simp only [drivenP, drivenBy, drivenBy.atPos, underPart, Bool.or_eq_true]
    constructor
    · rintro ((h | h) | (h | h))
      · rcases ilo.mp (Or.inl h) with ⟨k, hk⟩ | h'
        · left; refine ⟨k, ?_⟩
          rw [if_pos (atPos_lt ctx i b lo htw.1 k hk)]; exact hk
        · exact Or.inr (Or.inl h')
      · rcases ihi.mp (Or.inl h) with ⟨k, hk⟩ | h'
        · left; refine ⟨k + widthOf ctx lo, ?_⟩
          rw [if_neg (by omega)]
          have : k + widthOf ctx lo - widthOf ctx lo = k := by omega
          rw [this]; exact hk
        · exact Or.inr (Or.inr h')
      · exact Or.inr (Or.inl h)
      · exact Or.inr (Or.inr h)
    · rintro (⟨k, hk⟩ | (h | h))
      · split at hk
        · rcases ilo.mpr (Or.inl ⟨k, hk⟩) with h | h
          · exact Or.inl (Or.inl h)
          · exact Or.inr (Or.inl h)
        · rcases ihi.mpr (Or.inl ⟨_, hk⟩) with h | h
          · exact Or.inl (Or.inr h)
          · exact Or.inr (Or.inr h)
      · exact Or.inr (Or.inl h)
      · exact Or.inr (Or.inr h)
  | ite test pats thn els _ ihthn ihels =>
    intro htw
    simp only [Expr.twf, Bool.and_eq_true] at htw
    have it := ihthn htw.1.1.2
    have ie := ihels htw.1.2
    simp only [drivenP, Bool.or_eq_true] at it ie
    simp only [drivenP, drivenBy, drivenBy.atPos, underPart, Bool.or_eq_true]
    constructor
    · rintro ((h | h) | (h | h))
      · rcases it.mp (Or.inl h) with ⟨k, hk⟩ | h'
        · exact Or.inl ⟨k, Or.inl hk⟩
        · exact Or.inr (Or.inl h')
      · rcases ie.mp (Or.inl h) with ⟨k, hk⟩ | h'
        · exact Or.inl ⟨k, Or.inr hk⟩
        · exact Or.inr (Or.inr h')
      · exact Or.inr (Or.inl h)
      · exact Or.inr (Or.inr h)
    · rintro (⟨k, hk | hk⟩ | (h | h))
      · rcases it.mpr (Or.inl ⟨k, hk⟩) with h | h
        · exact Or.inl (Or.inl h)
        · exact Or.inr (Or.inl h)
      · rcases ie.mpr (Or.inl ⟨k, hk⟩) with h | h
        · exact Or.inl (Or.inr h)
        · exact Or.inr (Or.inr h)
      · exact Or.inr (Or.inl h)
      · exact Or.inr (Or.inr h)

/-- **What `LHSMaskCollector.visit_value(e, m)` marks**: the bits already marked, the bits at positions of `e` selected
by `m`, and every operand bit of a part-select inside `e`. -/
theorem lhsMask_iff (i b : Nat) : ∀ (e : Expr), e.twf ctx = true → ∀ (m : Int) (t : MaskTab), t.length = ctx.length →
    (ibit ((lhsMask ctx e m t).get i) b = true ↔
      ibit (t.get i) b = true ∨ (∃ k, ibit m k = true ∧ drivenBy.atPos e k i b ctx = true) ∨
        underPart e i b ctx = true) := by
  intro e
  induction e with
  | const v s => intro _ m t _; simp [lhsMask, drivenBy.atPos, underPart]
  | sig j =>
    intro htw m t hlen
    simp only [Expr.twf, decide_eq_true_eq] at htw
    simp only [lhsMask, drivenBy.atPos, underPart, Bool.false_eq_true, or_false, Bool.and_eq_true, beq_iff_eq,
      decide_eq_true_eq]
    by_cases hij : i = j
    · subst hij
      rw [get_set_self t i _ (by omega), ibit_pyOr, ibit_pyAnd, ibit_ones]
      simp only [Bool.or_eq_true, Bool.and_eq_true, decide_eq_true_eq]
      constructor
      · rintro (h | ⟨h1, h2⟩)
        · exact Or.inl h
        · exact Or.inr ⟨b, h1, by simp, h2⟩
      · rintro (h | ⟨k, h1, h2, h3⟩)
        · exact Or.inl h
        · have hk : k = b := by simpa using h2
          subst hk; exact Or.inr ⟨h1, h3⟩
    · rw [get_set_other t j i _ hij]
      constructor
      · exact Or.inl
      · rintro (h | ⟨k, _, ⟨h, _⟩, _⟩)
        · exact h
        · exact absurd h hij
  | op1 o a ih =>
    intro htw m t hlen
    cases o <;> simp only [Expr.twf, Bool.false_eq_true] at htw <;>
      (have := ih htw m t hlen; simp only [lhsMask, drivenBy.atPos, underPart] at this ⊢; exact this)
  | op2 o a b _ _ => intro htw; simp [Expr.twf] at htw
  | slice a s e ih =>
    intro htw m t hlen
    simp only [Expr.twf, Bool.and_eq_true, decide_eq_true_eq] at htw
    simp only [lhsMask, drivenBy.atPos, underPart]
    rw [ih htw.1.1 _ t hlen]
    have hbit : ∀ k, ibit (pyAnd (pyShl m s) (pyShl 1 e - pyShl 1 s)) k = true ↔ (s ≤ k ∧ k < e ∧ ibit m (k - s) = true) := by
      intro k
      rw [ibit_pyAnd, ibit_pyShl, ibit_window_mask _ _ _ htw.1.2]
      simp only [Bool.and_eq_true, decide_eq_true_eq]
      constructor
      · rintro ⟨⟨h1, h2⟩, _, h3⟩; exact ⟨h1, h3, h2⟩
      · rintro ⟨h1, h2, h3⟩; exact ⟨⟨h1, h3⟩, h1, h2⟩
    constructor
    · rintro (h | ⟨k, h1, h2⟩ | h)
      · exact Or.inl h
      · obtain ⟨g1, g2, g3⟩ := (hbit k).mp h1
        refine Or.inr (Or.inl ⟨k - s, g3, ?_⟩)
        have : s + (k - s) = k := by omega
        rw [this]
        simp only [Bool.and_eq_true, decide_eq_true_eq]
        exact ⟨g2, h2⟩
      · exact Or.inr (Or.inr h)
    · rintro (h | ⟨k, h1, h2⟩ | h)
      · exact Or.inl h
      · simp only [Bool.and_eq_true, decide_eq_true_eq] at h2
        refine Or.inr (Or.inl ⟨s + k, (hbit _).mpr ⟨by omega, h2.1, ?_⟩, h2.2⟩)
        have : s + k - s = k := by omega
        rw [this]; exact h1
      · exact Or.inr (Or.inr h)
  | part a off w st iha _ =>
    intro htw m t hlen
    simp only [Expr.twf, Bool.and_eq_true, decide_eq_true_eq, Bool.not_eq_true'] at htw
    simp only [lhsMask, drivenBy.atPos, underPart]
    rw [iha htw.1.1.1 (-1) t hlen]
    have hd := drivenP_iff ctx i b a htw.1.1.1
    simp only [drivenP, Bool.or_eq_true] at hd
    simp only [ibit_neg_one, true_and, Bool.or_eq_true, Bool.and_eq_true, decide_eq_true_eq, List.any_eq_true,
      List.mem_range]
    constructor
    · rintro (h | h | h)
      · exact Or.inl h
      · exact Or.inr (Or.inr (hd.mpr (Or.inl h)))
      · exact Or.inr (Or.inr (hd.mpr (Or.inr h)))
    · rintro (h | ⟨_, _, _, k, _, h⟩ | h)
      · exact Or.inl h
      · exact Or.inr (Or.inl ⟨k, h⟩)
      · exact Or.inr (hd.mp h)
  | cat lo hi ihlo ihhi =>
    intro htw m t hlen
    simp only [Expr.twf, Bool.and_eq_true] at htw
    simp only [lhsMask, drivenBy.atPos, underPart, Bool.or_eq_true]
    rw [ihhi htw.2 _ _ (by rw [lhsMask_length]; exact hlen), ihlo htw.1 m t hlen]
    constructor
    · rintro ((h | ⟨k, h1, h2⟩ | h) | ⟨k, h1, h2⟩ | h)
      · exact Or.inl h
      · refine Or.inr (Or.inl ⟨k, h1, ?_⟩)
        rw [if_pos (atPos_lt ctx i b lo htw.1 k h2)]; exact h2
      · exact Or.inr (Or.inr (Or.inl h))
      · rw [ibit_pyShr] at h1
        refine Or.inr (Or.inl ⟨k + widthOf ctx lo, h1, ?_⟩)
        rw [if_neg (by omega)]
        have : k + widthOf ctx lo - widthOf ctx lo = k := by omega
        rw [this]; exact h2
      · exact Or.inr (Or.inr (Or.inr h))
    · rintro (h | ⟨k, h1, h2⟩ | (h | h))
      · exact Or.inl (Or.inl h)
      · split at h2
        · exact Or.inl (Or.inr (Or.inl ⟨k, h1, h2⟩))
        · refine Or.inr (Or.inl ⟨k - widthOf ctx lo, ?_, h2⟩)
          rw [ibit_pyShr]
          have : k - widthOf ctx lo + widthOf ctx lo = k := by omega
          rw [this]; exact h1
      · exact Or.inl (Or.inr (Or.inr h))
      · exact Or.inr (Or.inr h)
  | ite test pats thn els _ ihthn ihels =>
    intro htw m t hlen
    simp only [Expr.twf, Bool.and_eq_true] at htw
    simp only [lhsMask, drivenBy.atPos, underPart, Bool.or_eq_true]
    rw [ihels htw.1.2 _ _ (by rw [lhsMask_length]; exact hlen), ihthn htw.1.1.2 m t hlen]
    constructor
    · rintro ((h | ⟨k, h1, h2⟩ | h) | ⟨k, h1, h2⟩ | h)
      · exact Or.inl h
      · exact Or.inr (Or.inl ⟨k, h1, Or.inl h2⟩)
      · exact Or.inr (Or.inr (Or.inl h))
      · exact Or.inr (Or.inl ⟨k, h1, Or.inr h2⟩)
      · exact Or.inr (Or.inr (Or.inr h))
    · rintro (h | ⟨k, h1, h2 | h2⟩ | (h | h))
      · exact Or.inl (Or.inl h)
      · exact Or.inl (Or.inr (Or.inl ⟨k, h1, h2⟩))
      · exact Or.inr (Or.inl ⟨k, h1, h2⟩)
      · exact Or.inl (Or.inr (Or.inr h))
      · exact Or.inr (Or.inr h)

/-- a whole target (`visit_value(lhs, ~0)`) marks exactly the bits it drives in the code's sense -/
theorem lhsMask_drives (i b : Nat) (e : Expr) (htw : e.twf ctx = true) (t : MaskTab) (hlen : t.length = ctx.length) :
    ibit ((lhsMask ctx e (-1) t).get i) b = (ibit (t.get i) b || drivenP ctx e i b) := by
  rw [Bool.eq_iff_iff, lhsMask_iff ctx i b e htw (-1) t hlen, Bool.or_eq_true, drivenP_iff ctx i b e htw]
  simp only [ibit_neg_one, true_and]

/-- the masks of a statement list: what was marked before, and what some target drives -/
theorem stmtMask_drives (i b : Nat) : ∀ (s : Stmt) (t : MaskTab), (∀ e ∈ stmtTargets s, e.twf ctx = true) →
    t.length = ctx.length →
    ibit ((stmtMask ctx s t).get i) b = (ibit (t.get i) b || (stmtTargets s).any fun e => drivenP ctx e i b) := by
  intro s
  induction s with
  | skip => intro t _ _; simp [stmtMask, stmtTargets]
  | seq a b' iha ihb =>
    intro t htw hlen
    simp only [stmtTargets, List.mem_append] at htw
    simp only [stmtMask, stmtTargets, List.any_append]
    rw [ihb _ (fun e he => htw e (Or.inr he)) (by rw [stmtMask_length]; exact hlen),
        iha t (fun e he => htw e (Or.inl he)) hlen, Bool.or_assoc]
  | assign l r =>
    intro t htw hlen
    simp only [stmtMask, stmtTargets, List.any_cons, List.any_nil, Bool.or_false]
    exact lhsMask_drives ctx i b l (htw l (by simp [stmtTargets])) t hlen
  | ite c p thn els ih1 ih2 =>
    intro t htw hlen
    simp only [stmtTargets, List.mem_append] at htw
    simp only [stmtMask, stmtTargets, List.any_append]
    rw [ih2 _ (fun e he => htw e (Or.inr he)) (by rw [stmtMask_length]; exact hlen),
        ih1 t (fun e he => htw e (Or.inl he)) hlen, Bool.or_assoc]

end

/-! ## Lowering keeps the targets; active writes address targets -/

mutual
theorem lower_targets (ctx : Ctx) : ∀ (p : Prog), stmtTargets (lower ctx p) = Prog.targets p
  | .assign l r => rfl
  | .ifs branches els => by
    simp only [lower, Prog.targets]
    rw [lowerIf_targets ctx _ _ branches 0 (lowerList ctx els), lowerList_targets ctx els]
    simp
  | .switch test cases => by
    simp only [lower, Prog.targets]
    exact lowerCases_targets ctx test cases
theorem lowerList_targets (ctx : Ctx) : ∀ (ps : List Prog), stmtTargets (lowerList ctx ps) = Prog.listTargets ps
  | [] => rfl
  | p :: ps => by
    simp only [lowerList, stmtTargets, Prog.listTargets]
    rw [lower_targets ctx p, lowerList_targets ctx ps]
theorem lowerIf_targets (ctx : Ctx) (t : Expr) (n : Nat) : ∀ (rest : List (Expr × List Prog)) (i : Nat) (tail : Stmt),
    stmtTargets (lowerIf ctx t n i rest tail) = Prog.ifTargets rest ++ (stmtTargets tail ++ [])
  | [], i, tail => by simp [lowerIf, stmtTargets, Prog.ifTargets]
  | (c, body) :: rest, i, tail => by
    simp only [lowerIf, stmtTargets, Prog.ifTargets]
    rw [lowerList_targets ctx body, lowerIf_targets ctx t n rest (i + 1) tail, List.append_assoc]
theorem lowerCases_targets (ctx : Ctx) (test : Expr) : ∀ (cases : List (Option (List UPat) × List Prog)),
    stmtTargets (lowerCases ctx test cases) = Prog.caseTargets cases
  | [] => rfl
  | (none, body) :: rest => by
    simp only [lowerCases, stmtTargets, Prog.caseTargets]
    rw [lowerList_targets ctx body, lowerCases_targets ctx test rest]
  | (some pats, body) :: rest => by
    simp only [lowerCases, stmtTargets, Prog.caseTargets]
    rw [lowerList_targets ctx body, lowerCases_targets ctx test rest]
end

mutual
theorem writes_targets (ctx : Ctx) (env : Env) : ∀ (p : Prog) (w : Expr × Int),
    w ∈ Prog.writes ctx env p → w.1 ∈ Prog.targets p
  | .assign l r, w, h => by
    simp only [Prog.writes, List.mem_singleton] at h; subst h; simp [Prog.targets]
  | .ifs branches els, w, h => by
    simp only [Prog.writes] at h
    simp only [Prog.targets, List.mem_append]
    cases hi : Prog.ifWrites ctx env branches with
    | some ws => rw [hi] at h; exact Or.inl (ifWrites_targets ctx env branches ws hi w h)
    | none => rw [hi] at h; exact Or.inr (listWrites_targets ctx env els w h)
  | .switch test cases, w, h => by
    simp only [Prog.writes] at h
    simp only [Prog.targets]
    exact caseWrites_targets ctx env _ _ cases w h
theorem listWrites_targets (ctx : Ctx) (env : Env) : ∀ (ps : List Prog) (w : Expr × Int),
    w ∈ Prog.listWrites ctx env ps → w.1 ∈ Prog.listTargets ps
  | [], w, h => by simp [Prog.listWrites] at h
  | p :: ps, w, h => by
    simp only [Prog.listWrites, List.mem_append] at h
    simp only [Prog.listTargets, List.mem_append]
    exact h.imp (writes_targets ctx env p w) (listWrites_targets ctx env ps w)
theorem ifWrites_targets (ctx : Ctx) (env : Env) : ∀ (rest : List (Expr × List Prog)) (ws : List (Expr × Int)),
    Prog.ifWrites ctx env rest = some ws → ∀ w ∈ ws, w.1 ∈ Prog.ifTargets rest
  | [], ws, h, w, hw => by simp [Prog.ifWrites] at h
  | (c, body) :: rest, ws, h, w, hw => by
    simp only [Prog.ifWrites] at h
    simp only [Prog.ifTargets, List.mem_append]
    split at h
    · simp only [Option.some.injEq] at h; subst h
      exact Or.inl (listWrites_targets ctx env body w hw)
    · exact Or.inr (ifWrites_targets ctx env rest ws h w hw)
theorem caseWrites_targets (ctx : Ctx) (env : Env) (s : Shape) (v : Int) :
    ∀ (cases : List (Option (List UPat) × List Prog)) (w : Expr × Int),
    w ∈ Prog.caseWrites ctx env s v cases → w.1 ∈ Prog.caseTargets cases
  | [], w, h => by simp [Prog.caseWrites] at h
  | (none, body) :: rest, w, h => by
    simp only [Prog.caseWrites] at h
    simp only [Prog.caseTargets, List.mem_append]
    exact Or.inl (listWrites_targets ctx env body w h)
  | (some pats, body) :: rest, w, h => by
    simp only [Prog.caseWrites] at h
    simp only [Prog.caseTargets, List.mem_append]
    split at h
    · exact Or.inl (listWrites_targets ctx env body w h)
    · exact Or.inr (caseWrites_targets ctx env s v rest w h)
end

/-! ## The masks of a lowered program -/

/-- the static commit mask of the lowered program -/
def progMask (ctx : Ctx) (prog : List Prog) : MaskTab :=
  stmtMask ctx (lowerList ctx prog) (List.replicate ctx.length 0)

/-- **The static commit masks of a lowered program are the bits the program drives** (`progDrivesP`: positionally, or
as an operand bit of a part-select) -/
theorem progMask_iff (ctx : Ctx) (prog : List Prog) (htw : ∀ e ∈ Prog.listTargets prog, e.twf ctx = true) (i b : Nat) :
    ibit ((progMask ctx prog).get i) b = progDrivesP ctx prog i b := by
  unfold progMask
  rw [stmtMask_drives ctx i b _ _ (by rw [lowerList_targets]; exact htw) (by simp), lowerList_targets, replicate_get,
      ibit_zero', Bool.false_or]
  rfl

/-- the masks of a lowered program are the Spec's `progDrives` -/
theorem progMask_drives (ctx : Ctx) (prog : List Prog) (htw : ∀ e ∈ Prog.listTargets prog, e.twf ctx = true)
    (i b : Nat) : ibit ((progMask ctx prog).get i) b = progDrives ctx prog i b :=
  progMask_iff ctx prog htw i b

end Amaranth
