import AmaranthVerif.Proofs.ProcessSpec
import AmaranthVerif.Proofs.DerivedSpec

/-!
# One synchronous step: the executable Model is the executable Spec

`syncProcess` (Model/Stmt.lean: run the lowered statements on copies, commit through the masks — what the driver
evaluates as `model=` / `lowered=`) equals `progStep` (Spec/Prog.lean: the program's active writes applied to the
current values — what the driver evaluates as `spec=`), for every program and state, when the domain's reset is not
asserted.
-/

namespace Amaranth

/-- rebuilding a value of a shape from its own bits gives the value back -/
theorem rebuild_bits (s : Shape) (hs : s.WF) (v : Int) (hv : s.contains v) :
    norm s ((List.range s.width).foldl (fun acc b => acc + (if ibit v b then (2 : Int) ^ b else 0)) 0) = v := by
  have e : (List.range s.width).foldl (fun acc b => acc + (if ibit v b then (2 : Int) ^ b else 0)) 0 =
      bitSum (fun j => v / 2 ^ j % 2) s.width := by
    unfold bitSum
    congr 1
    funext acc b
    congr 1
    unfold ibit
    have h2 := Int.emod_two_eq (v / 2 ^ b)
    rcases h2 with h2 | h2 <;> simp [h2]
  rw [e, ← emod_two_pow_bits]
  apply norm_eq_of_congr s hs hv
  exact emod_emod_pow _ _

theorem progStep_base_self (ctx : Ctx) (prog : List Prog) (cur : Env) (hC : EnvN ctx cur) :
    progStep ctx prog cur cur = applyWrites ctx cur (Prog.listWrites ctx cur prog) cur := by
  unfold progStep
  simp only
  congr 1
  apply List.ext_getElem (by simp [hC.len])
  intro i h1 h2
  simp only [List.getElem_map, List.getElem_range, ite_self]
  have hi : i < ctx.length := by simpa using h1
  have hv : cur.val i = cur[i] := by unfold Env.val; simp [List.getD_eq_getElem?_getD, h2]
  rw [← hv]
  exact rebuild_bits (ctx.shape i) (hC.ok i hi).1 (cur.val i) (hC.ok i hi).2

theorem syncProcess_eq_commit (ctx : Ctx) (inits : Env) (rl : List Bool) (rst : Option Int) (body : Stmt) (cur : Env) :
    syncProcess ctx inits rl rst body cur = commitInto ctx body (syncNext ctx inits rl rst body cur) cur := rfl

theorem combProcess_eq_commit (ctx : Ctx) (inits : Env) (body : Stmt) (cur : Env) :
    combProcess ctx inits body cur = commitInto ctx body (combNext ctx inits body cur) cur := rfl

/-- **Model = Spec for one synchronous step** (no reset asserted). -/
theorem sync_step_model_eq_spec (ctx : Ctx) (cur : Env) (hok : EnvOk ctx cur) (hC : EnvN ctx cur) (inits : Env)
    (rl : List Bool) (prog : List Prog) (h : Prog.listOk ctx prog = true)
    (htg : ∀ e ∈ stmtTargets (lowerList ctx prog), e.twf ctx = true ∧ e.noAlias ctx cur)
    (ht : ∀ w ∈ Prog.listWrites ctx cur prog, w.1.twf ctx = true ∧ w.1.noAlias ctx cur) :
    syncProcess ctx inits rl none (lowerList ctx prog) cur = progStep ctx prog cur cur := by
  rw [syncProcess_eq_commit, progStep_base_self ctx prog cur hC]
  show commitInto ctx (lowerList ctx prog) (execRtl ctx cur (lowerList ctx prog) cur) cur = _
  rw [sync_process_effect ctx cur hok (lowerList ctx prog) cur hC hC htg (fun _ _ _ _ _ => rfl)]
  have hws : ∀ w ∈ stmtWrites ctx cur (lowerList ctx prog), w.1.twf ctx = true ∧ w.1.noAlias ctx cur :=
    fun w hw => htg _ (stmtWrites_targets ctx cur _ w hw)
  rw [← (applyWritesRtl_eq_spec ctx cur hok _ hws cur hC).1, ← execRtl_eq_writes,
      lower_sound_list ctx cur hok prog h cur, (applyWritesRtl_eq_spec ctx cur hok _ ht cur hC).1]

end Amaranth
