import AmaranthVerif.Proofs.EmitFront6

/-!
# `emit_rhs`: `SwitchValue` (helper lemmas for `C04.emit_expr_correct`), part 7 — the general form and the `Mux` form
-/

namespace Amaranth.Rtlil
open Amaranth

/-! ## shapes -/

theorem unify_comm (a b : Shape) : Shape.unify a b = Shape.unify b a := by
  unfold Shape.unify
  cases ha : a.signed <;> cases hb : b.signed <;> simp [Nat.max_comm]

theorem unify_u0 (s : Shape) (h : s.WF) : Shape.unify s (Shape.u 0) = s := by
  obtain ⟨w, sg⟩ := s
  cases sg with
  | false => simp [Shape.unify, Shape.u]
  | true =>
    have : 0 < w := h rfl
    simp only [Shape.unify, Shape.u, Bool.or_false, if_true, Bool.false_eq_true, if_false, Nat.zero_add]
    congr 1
    omega

theorem unify_width_ge (a b : Shape) : a.width ≤ (Shape.unify a b).width ∧ b.width ≤ (Shape.unify a b).width := by
  unfold Shape.unify
  cases a.signed <;> cases b.signed <;> simp <;> omega

theorem chainShape_ge (ctx : Amaranth.Ctx) : ∀ (L : List (List Pat × Expr)) (pe : List Pat × Expr), pe ∈ L →
    widthOf ctx pe.2 ≤ (chainShape ctx L).width
  | [], _, h => by simp at h
  | (p, v) :: rest, pe, h => by
    simp only [List.mem_cons] at h
    have hu := unify_width_ge (shapeOf ctx v) (chainShape ctx rest)
    rcases h with rfl | h
    · exact hu.1
    · exact le_trans (chainShape_ge ctx rest pe h) hu.2

/-! ## the values of the cases, emitted one after the other -/

structure CaseOk (ctx : Amaranth.Ctx) (env : Amaranth.Env) (renv : Env) (k : Nat) (pe : List Pat × Expr)
    (cs : List Pat × Val × Bool) : Prop where
  pats : cs.1 = pe.1
  old : cs.2.1.old k
  len : cs.2.1.length = widthOf ctx pe.2
  sgn : cs.2.2 = (shapeOf ctx pe.2).signed
  sv : sval cs.2.2 renv cs.2.1 = norm (shapeOf ctx pe.2) (evalRtl ctx env pe.2)
  ne : cs.2.2 = true → cs.2.1 ≠ []

def CasesOk (ctx : Amaranth.Ctx) (env : Amaranth.Env) (renv : Env) (k : Nat) :
    List (List Pat × Expr) → List (List Pat × Val × Bool) → Prop
  | [], [] => True
  | pe :: L, cs :: C => CaseOk ctx env renv k pe cs ∧ CasesOk ctx env renv k L C
  | _, _ => False

theorem CaseOk.frame {ctx : Amaranth.Ctx} {env : Amaranth.Env} {renv renv' : Env} {k k' : Nat} {pe : List Pat × Expr}
    {cs : List Pat × Val × Bool} (h : CaseOk ctx env renv k pe cs) (hf : Frame k renv renv') (hk : k ≤ k') :
    CaseOk ctx env renv' k' pe cs :=
  ⟨h.pats, h.old.mono hk, h.len, h.sgn, by rw [sval_frame hf h.old]; exact h.sv, h.ne⟩

theorem CasesOk.frame {ctx : Amaranth.Ctx} {env : Amaranth.Env} {renv renv' : Env} {k k' : Nat} (hf : Frame k renv renv')
    (hk : k ≤ k') : ∀ {L : List (List Pat × Expr)} {C : List (List Pat × Val × Bool)},
    CasesOk ctx env renv k L C → CasesOk ctx env renv' k' L C
  | [], [], _ => trivial
  | _ :: _, _ :: _, h => ⟨h.1.frame hf hk, CasesOk.frame hf hk h.2⟩
  | [], _ :: _, h => h.elim
  | _ :: _, [], h => h.elim

section
variable (c : Ctx) (m : Mems) (ctx : Amaranth.Ctx) (env : Amaranth.Env)

theorem runCases_sound : ∀ (L : List (List Pat × Expr)),
    (∀ pe ∈ L, EmitsOk c m ctx env pe.2 ∧ (shapeOf ctx pe.2).WF) →
    ∀ k renv, SigEnv ctx env renv →
      WidthsOk c (runCases (L.map (fun pe => (pe.1, emitE ctx pe.2))) k).wires →
      k ≤ (runCases (L.map (fun pe => (pe.1, emitE ctx pe.2))) k).next ∧
      ∃ renv', evalNodes c m (runCases (L.map (fun pe => (pe.1, emitE ctx pe.2))) k).nodes renv = .ok renv' ∧
        Frame k renv renv' ∧
        CasesOk ctx env renv' (runCases (L.map (fun pe => (pe.1, emitE ctx pe.2))) k).next L
          (runCases (L.map (fun pe => (pe.1, emitE ctx pe.2))) k).cases
  | [], _, k, renv, _, _ => ⟨Nat.le_refl k, renv, rfl, Frame.refl _ _, trivial⟩
  | pe :: L, hL, k, renv, hse, hw => by
    have hE : runCases ((pe :: L).map (fun pe => (pe.1, emitE ctx pe.2))) k
        = ⟨(pe.1, (emitE ctx pe.2 k).val, (emitE ctx pe.2 k).signed)
            :: (runCases (L.map (fun pe => (pe.1, emitE ctx pe.2))) (emitE ctx pe.2 k).next).cases,
           (runCases (L.map (fun pe => (pe.1, emitE ctx pe.2))) (emitE ctx pe.2 k).next).next,
           (emitE ctx pe.2 k).wires ++ (runCases (L.map (fun pe => (pe.1, emitE ctx pe.2))) (emitE ctx pe.2 k).next).wires,
           (emitE ctx pe.2 k).nodes ++ (runCases (L.map (fun pe => (pe.1, emitE ctx pe.2))) (emitE ctx pe.2 k).next).nodes⟩ := rfl
    rw [hE] at hw ⊢
    have hw' : WidthsOk c ((emitE ctx pe.2 k).wires
        ++ (runCases (L.map (fun pe => (pe.1, emitE ctx pe.2))) (emitE ctx pe.2 k).next).wires) := hw
    obtain ⟨ih0, hwf0⟩ := hL pe List.mem_cons_self
    have r0 := ih0 k renv hse hw'.left
    obtain ⟨renv1, run1, f1, v1⟩ := r0.run
    obtain ⟨hk2, renv2, run2, f2, hC⟩ := runCases_sound L (fun q hq => hL q (List.mem_cons_of_mem _ hq))
      (emitE ctx pe.2 k).next renv1 (hse.frame f1) hw'.right
    have c0 : CaseOk ctx env renv1 (emitE ctx pe.2 k).next pe (pe.1, (emitE ctx pe.2 k).val, (emitE ctx pe.2 k).signed) :=
      ⟨rfl, r0.old, r0.len, r0.sgn, r0.sval_eq hwf0 r0.len r0.sgn v1,
        fun h => ne_nil_of_len r0.len (hwf0 (by rw [← r0.sgn]; exact h))⟩
    exact ⟨le_trans r0.next_le hk2, renv2, evalNodes_append_ok c m run1 run2, f1.trans f2 r0.next_le,
      c0.frame f2 hk2, hC⟩

/-! ## the general form -/

theorem casesShape (renv : Env) (k : Nat) : ∀ (L : List (List Pat × Expr)) (C : List (List Pat × Val × Bool)),
    CasesOk ctx env renv k L C →
    C.foldr (fun cs (acc : Shape) => Shape.unify ⟨cs.2.1.length, cs.2.2⟩ acc) (Shape.u 0) = chainShape ctx L
  | [], [], _ => rfl
  | pe :: L, cs :: C, h => by
    obtain ⟨p, v⟩ := pe
    simp only [List.foldr_cons, chainShape]
    rw [casesShape renv k L C h.2, h.1.len, h.1.sgn]
    rfl
  | [], _ :: _, h => h.elim
  | _ :: _, [], h => h.elim

theorem mask_zero (w : Nat) : mask w 0 = 0 := by simp [mask]

theorem sel_chain (renv : Env) (k tw T W : Nat) (hT : T < 2 ^ tw) : ∀ (L : List (List Pat × Expr))
    (C : List (List Pat × Val × Bool)), CasesOk ctx env renv k L C → ChainPats tw L →
    (∀ pe ∈ L, widthOf ctx pe.2 ≤ W) →
    ((selCase renv tw T 0 (C.map (fun cs => (cs.1, extendV cs.2.1 cs.2.2 W))) : Nat) : Int)
      = mask W (chainVal ctx env (T : Int) L)
  | [], [], _, _, _ => by simp [selCase, chainVal, mask_zero]
  | pe :: L, cs :: C, h, hp, hW => by
    obtain ⟨p, v⟩ := pe
    obtain ⟨cp, cv, csg⟩ := cs
    have h1 := h.1
    have hpats : cp = p := h1.pats
    subst hpats
    have hhit := caseHit_eq tw T cp (hp (cp, v) List.mem_cons_self) hT
    simp only [List.map_cons, selCase, chainVal, hhit]
    by_cases hm : matchesAny cp (T : Int) = true
    · simp only [hm, if_true]
      have hle : cv.length ≤ W := by
        have := hW (cp, v) List.mem_cons_self
        rw [h1.len]; exact this
      rw [valOf_extendV_ofInt renv cv csg W hle h1.ne, h1.sv, ofInt_cast_mask]
    · simp only [hm, Bool.false_eq_true, if_false]
      exact sel_chain renv k tw T W hT L C h.2 (fun q hq => hp q (List.mem_cons_of_mem _ hq))
        (fun q hq => hW q (List.mem_cons_of_mem _ hq))
  | [], _ :: _, h, _, _ => h.elim
  | _ :: _, [], h, _, _ => h.elim

/-- the general form of a choice: `Match` + `AssignmentList` -/
theorem switchGeneral_sound (test e : Expr) (L : List (List Pat × Expr))
    (hshape : shapeOf ctx e = chainShape ctx L)
    (hval : evalRtl ctx env e = chainVal ctx env (mask (widthOf ctx test) (evalRtl ctx env test)) L)
    (hpats : ChainPats (widthOf ctx test) L) (iht : EmitsOk c m ctx env test)
    (hL : ∀ pe ∈ L, EmitsOk c m ctx env pe.2 ∧ (shapeOf ctx pe.2).WF) (k : Nat) (renv : Env) (hse : SigEnv ctx env renv)
    (hw : WidthsOk c (emitSwitchGeneral (emitE ctx test k) (L.map (fun pe => (pe.1, emitE ctx pe.2)))).wires) :
    ResSound c m ctx env e k renv (emitSwitchGeneral (emitE ctx test k) (L.map (fun pe => (pe.1, emitE ctx pe.2)))) := by
  simp only [emitSwitchGeneral] at hw ⊢
  generalize hrt : emitE ctx test k = rt at hw ⊢
  have hw0 : WidthsOk c (rt.wires ++ (runCases (L.map (fun pe => (pe.1, emitE ctx pe.2))) rt.next).wires) := WidthsOk.left hw
  have st : ResSound c m ctx env test k renv rt := by rw [← hrt]; exact iht k renv hse (by rw [hrt]; exact hw0.left)
  obtain ⟨renv1, run1, f1, v1⟩ := st.run
  obtain ⟨hk2, renv2, run2, f2, hC⟩ := runCases_sound c m ctx env L hL rt.next renv1 (hse.frame f1) hw0.right
  generalize hrc : runCases (L.map (fun pe => (pe.1, emitE ctx pe.2))) rt.next = rc at hw hk2 run2 hC ⊢
  have hsh := casesShape ctx env renv2 rc.next L rc.cases hC
  rw [hsh] at hw ⊢
  have vt2 : (valOf renv2 rt.val : Int) = mask (widthOf ctx test) (evalRtl ctx env test) := by
    rw [valOf_frame f2 st.old]; exact v1
  have hT := valOf_lt renv2 rt.val
  refine resSound_after c m ctx env e _ (evalNodes_append_ok c m run1 run2) (f1.trans f2 st.next_le) (le_trans st.next_le hk2)
    (emitAssignList_sound c m _ _ _ rc.next renv2) _ (by rw [hshape]) ?_ ?_
  · show (wireBits _ 0 _).length = _
    rw [wireBits_length, ← hshape]; rfl
  · intro out hout
    rw [hout, st.len] at *
    have hsel := sel_chain ctx env renv2 rc.next (widthOf ctx test) (valOf renv2 rt.val) (chainShape ctx L).width hT L rc.cases hC hpats
      (chainShape_ge ctx L)
    push_cast
    rw [hsel, vt2, ← hval, ← hshape]
    exact emod_emod_pow _ _

end

end Amaranth.Rtlil
