import AmaranthVerif.Proofs.CrcStep

/-! # `Parameters.compute` is the Williams CRC -/

namespace Amaranth.Crc
open Amaranth.Williams

theorem and_two_pow_ne_zero (c n : Nat) : (c &&& 2 ^ n != 0) = c.testBit n := by
  have h : c &&& 2 ^ n = if c.testBit n then 2 ^ n else 0 := by
    apply Nat.eq_of_testBit_eq; intro i
    rw [Nat.testBit_and, Nat.testBit_two_pow]
    by_cases hi : n = i
    · subst hi; cases c.testBit n <;> simp
    · cases c.testBit n <;> simp [hi]
  rw [h]
  cases c.testBit n
  · simp
  · have := Nat.two_pow_pos n
    simp

/-- the unmasked loop body, seen modulo `2^N`, is the `N`-bit step -/
theorem shiftStep_mod {N ps : Nat} (hN : 0 < N) (hps : ps < 2 ^ N) (c : Nat) :
    shiftStep (2 ^ (N - 1)) ps c % 2 ^ N = S0 N ps (c % 2 ^ N) := by
  have h1 : (c <<< 1) % 2 ^ N = ((c % 2 ^ N) <<< 1) % 2 ^ N := by
    rw [← two_mul_eq_shiftLeft, ← two_mul_eq_shiftLeft, Nat.mul_mod_mod]
  have h2 : (c % 2 ^ N).testBit (N - 1) = c.testBit (N - 1) := by
    rw [Nat.testBit_mod_two_pow]
    have : N - 1 < N := by omega
    simp [this]
  simp only [shiftStep, and_two_pow_ne_zero, S0_def, h2]
  cases c.testBit (N - 1)
  · simp [h1]
  · simp only [if_true, Nat.xor_mod_two_pow, Nat.mod_eq_of_lt hps, h1]

theorem iter_shiftStep_mod {N ps : Nat} (hN : 0 < N) (hps : ps < 2 ^ N) (k c : Nat) :
    iter (shiftStep (2 ^ (N - 1)) ps) k c % 2 ^ N = iter (S0 N ps) k (c % 2 ^ N) := by
  induction k generalizing c with
  | zero => rfl
  | succ k ih => simp only [iter]; rw [ih, shiftStep_mod hN hps]

/-- the bits of one word in the order in which they enter the register -/
def wordBits (p : Params) (dw x : Nat) : List Bool := if p.refin then lsbFirst dw x else msbFirst dw x

/-- one pass of the `for word in data` loop, starting from a register held `dw` places up -/
theorem computeWord_eq {p : Params} {dw : Nat} (hw : 0 < p.width) (hp : p.poly < 2 ^ p.width)
    {r x : Nat} (hr : r < 2 ^ p.width) (hx : x < 2 ^ dw) :
    computeWord p dw (r <<< dw) x = (feed p.width p.poly r (wordBits p dw x)) <<< dw := by
  have hps : p.poly <<< dw < 2 ^ (p.width + dw) := by
    rw [Nat.add_comm]; exact shiftLeft_lt hp
  -- the word as it is xor-ed in
  have key : ∀ y, y < 2 ^ dw →
      (iter (shiftStep (1 <<< (p.width + dw - 1)) (p.poly <<< dw)) dw (r <<< dw ^^^ y <<< p.width))
        &&& (1 <<< (p.width + dw) - 1) = (feed p.width p.poly r (msbFirst dw y)) <<< dw := by
    intro y hy
    simp only [Nat.one_shiftLeft]
    rw [Nat.and_two_pow_sub_one_eq_mod, iter_shiftStep_mod (by omega) hps]
    have hlt : r <<< dw ^^^ y <<< p.width < 2 ^ (p.width + dw) := by
      apply Nat.xor_lt_two_pow
      · rw [Nat.add_comm]; exact shiftLeft_lt hr
      · exact shiftLeft_lt hy
    rw [Nat.mod_eq_of_lt hlt]
    have := wide_feed (w := p.width) (poly := p.poly) (D := dw) hw dw r y (Nat.le_refl _) hy
    have h0 : p.width + dw - dw = p.width := by omega
    rw [h0] at this
    exact this
  unfold computeWord wordBits
  cases hri : p.refin
  · simpa using key x hx
  · simpa [msbFirst_reflect] using key (reflect x dw) (reflect_lt x dw)

theorem foldl_computeWord {p : Params} {dw : Nat} (hw : 0 < p.width) (hp : p.poly < 2 ^ p.width)
    (data : List Nat) (hd : ∀ x ∈ data, x < 2 ^ dw) {r : Nat} (hr : r < 2 ^ p.width) :
    data.foldl (computeWord p dw) (r <<< dw)
      = (feed p.width p.poly r (data.flatMap (wordBits p dw))) <<< dw := by
  induction data generalizing r with
  | nil => rfl
  | cons x xs ih =>
    simp only [List.foldl_cons, List.flatMap_cons, List.foldl_append]
    rw [computeWord_eq hw hp hr (hd x (by simp))]
    exact ih (fun y hy => hd y (by simp [hy])) (feed_lt hp hr _)

theorem stream_eq (p : Params) (dw : Nat) (data : List Nat) : stream p dw data = data.flatMap (wordBits p dw) := rfl

theorem computeReg_eq_register {p : Params} (hv : p.Valid) (dw : Nat) (data : List Nat)
    (hd : ∀ x ∈ data, x < 2 ^ dw) : computeReg p dw data = register p dw data := by
  obtain ⟨hw, hp, hi, _⟩ := hv
  rw [computeReg, foldl_computeWord hw hp data hd hi, Nat.shiftLeft_shiftRight, register, stream_eq]

theorem register_lt {p : Params} (hv : p.Valid) (dw : Nat) (data : List Nat) : register p dw data < 2 ^ p.width :=
  feed_lt hv.2.1 hv.2.2.1 _

end Amaranth.Crc
