import AmaranthVerif.Proofs.Exact
import AmaranthVerif.Proofs.TbLemmas

/-! # The testbench evaluator (`eval_value`) returns the exact integer -/

namespace Amaranth

theorem tb_exact_aux (ctx : Ctx) (env : Env) (hok : EnvOk ctx env) :
    ∀ e : Expr, e.wf ctx = true → evalTb ctx env e = denote ctx env e := by
  intro e
  induction e with
  | const v s => intro _; rfl
  | sig i => intro _; rfl
  | op1 o a iha =>
    intro hwf
    have hwf' := hwf
    simp only [Expr.wf, Bool.and_eq_true] at hwf
    have ha := iha hwf.1
    have hs := sound ctx env hok a hwf.1
    have hswf := hs.swf
    have hrng := hs.rng
    generalize hsa : shapeOf ctx a = sa at *
    obtain ⟨w, sg⟩ := sa
    have hp := two_pow_pos' w
    cases o with
    | inv =>
      simp only [evalTb, denote, hsa, widthOf, ha, pyNot, mask]
      cases sg
      · simp only [Bool.false_eq_true, if_false]
        rw [Shape.contains_u] at hrng
        have : -denote ctx env a - 1 = (2 ^ w - 1 - denote ctx env a) + 2 ^ w * (-1) := by omega
        rw [this, Int.add_mul_emod_self_left]
        apply Int.emod_eq_of_lt <;> omega
      · simp only [if_true]
    | neg => simp only [evalTb, denote, ha]
    | bool =>
      simp only [evalTb, denote, ha, b2i]
      by_cases h : denote ctx env a = 0 <;> simp [h]
    | rany =>
      simp only [evalTb, denote, ha, b2i]
      by_cases h : denote ctx env a = 0 <;> simp [h]
    | rall =>
      have hz := contains_emod_allones ⟨w, sg⟩ hswf hrng
      simp only [evalTb, denote, hsa, widthOf, ha, mask]
      simp only at hz
      by_cases h0 : (2 ^ w - 1 : Int) = denote ctx env a % 2 ^ w
      · rw [if_pos (hz.mp h0), show (denote ctx env a % 2 ^ w == (2 ^ w - 1 : Int)) = true from beq_iff_eq.mpr h0.symm]
        rfl
      · have : ¬ (if sg = true then denote ctx env a = -1 else denote ctx env a = 2 ^ w - 1) := fun h => h0 (hz.mpr h)
        rw [if_neg this, show (denote ctx env a % 2 ^ w == (2 ^ w - 1 : Int)) = false from beq_eq_false_iff_ne.mpr (fun h => h0 h.symm)]
        rfl
    | rxor => simp only [evalTb, denote, hsa, widthOf, ha, mask]
    | u => simp only [evalTb, denote, hsa, widthOf, ha, mask]
    | s =>
      have hw : 0 < w := by
        have := hwf.2; simp only [widthOf, hsa, decide_eq_true_eq] at this; exact this
      simp only [evalTb, denote, hsa, widthOf, ha]
      exact tb_signed w hw _
  | op2 o a b iha ihb =>
    intro hwf
    simp only [Expr.wf, Bool.and_eq_true] at hwf
    simp only [evalTb, denote, iha hwf.1.1, ihb hwf.1.2]
    cases o <;> simp only [binop, zdiv, zmod, pyShl, pyShr, b2i] <;>
      first
      | rfl
      | (by_cases h : denote ctx env a = denote ctx env b <;> simp [h])
      | (split <;> simp_all <;> omega)
  | slice a start stop iha =>
    intro hwf
    simp only [Expr.wf, Bool.and_eq_true] at hwf
    simp only [evalTb, denote, iha hwf.1.1, mask, pyShr]
  | part a off width stride iha ihoff =>
    intro hwf
    simp only [Expr.wf, Bool.and_eq_true] at hwf
    simp only [evalTb, denote, iha hwf.1.1.1, ihoff hwf.1.1.2, mask, pyShr]
  | cat lo hi ihlo ihhi =>
    intro hwf
    simp only [Expr.wf, Bool.and_eq_true] at hwf
    simp only [evalTb, denote, ihlo hwf.1, ihhi hwf.2]
    obtain ⟨A, hA⟩ := Int.eq_ofNat_of_zero_le (mask_nonneg (widthOf ctx lo) (denote ctx env lo))
    have h1 : pyOr 0 (pyShl (mask (widthOf ctx lo) (denote ctx env lo)) 0) = pyShl (mask (widthOf ctx lo) (denote ctx env lo)) 0 := by
      rw [pyShl_zero, hA]; exact pyOr_zero_left A
    rw [h1, cat_value]; rfl
  | ite test pats thn els iht ihthn ihels =>
    intro hwf
    simp only [Expr.wf, Bool.and_eq_true] at hwf
    have ht := iht hwf.1.1.1.1
    simp only [evalTb, denote, ht, ihthn hwf.1.1.1.2, ihels hwf.1.1.2]
    rw [matchesAny_emod pats (widthOf ctx test) hwf.2,
        matchesAny_eq pats (widthOf ctx test) hwf.2 (denote ctx env test) (denote ctx env test) rfl]

end Amaranth
