import AmaranthVerif.Proofs.MemoryRefine
import AmaranthVerif.Spec.MemoryRename

/-! # C11: the Model's `Cfg.rename` is the Spec's `Renamed`, and keeps a configuration well-formed -/

namespace Amaranth.Mem
open Amaranth.MemRows

theorem renameDom_eq_target (m : List (Nat × Nat)) (d : Nat) : renameDom m d = target m d := by
  induction m with
  | nil => rfl
  | cons p rest ih =>
    obtain ⟨s, t⟩ := p
    unfold target at ih ⊢
    simp only [renameDom, List.find?_cons]
    by_cases h : (s == d) = true
    · simp [h]
    · simp only [h, Bool.false_eq_true, if_false]; exact ih

theorem getD_map_lt {α β : Type} (f : α → β) (l : List α) (k : Nat) (hk : k < l.length) (a : α) (b : β) :
    (l.map f).getD k b = f (l.getD k a) := by
  simp [List.getD_eq_getElem?_getD, List.getElem?_map, List.getElem?_eq_getElem hk]

theorem rename_renamed (c : Cfg) (m : List (Nat × Nat)) : Renamed m c (c.rename m) := by
  refine ⟨rfl, rfl, rfl, rfl, rfl, by simp [Cfg.rename], by simp [Cfg.rename], ?_, ?_⟩
  · intro k hk
    simp only [Cfg.rename]
    rw [getD_map_lt _ c.wrs k hk default default]
    exact ⟨renameDom_eq_target m _, rfl, rfl⟩
  · intro k hk
    simp only [Cfg.rename]
    rw [getD_map_lt _ c.rds k hk default default]
    refine ⟨?_, rfl⟩
    cases (c.rds.getD k default).dom with
    | none => rfl
    | some d => simp [renameDom_eq_target]

theorem rename_wf (c : Cfg) (m : List (Nat × Nat)) (h : WF c) : WF (c.rename m) := by
  constructor
  · intro k hk
    have hk' : k < c.wrs.length := by simpa [Cfg.rename] using hk
    simp only [Cfg.rename]
    rw [getD_map_lt _ c.wrs k hk' default default]
    exact h.gran k hk'
  · intro k hk j hj
    have hk' : k < c.rds.length := by simpa [Cfg.rename] using hk
    simp only [Cfg.rename] at hj ⊢
    rw [getD_map_lt _ c.rds k hk' default default] at hj ⊢
    obtain ⟨h1, h2⟩ := h.transp k hk' j hj
    refine ⟨by simpa using h1, ?_⟩
    rw [getD_map_lt _ c.wrs j h1 default default]
    simp only [h2, Option.map_some]

end Amaranth.Mem
