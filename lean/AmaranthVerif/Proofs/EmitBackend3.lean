import AmaranthVerif.Proofs.EmitBackend2

/-!
# `Part`: the `$shift` cell (and the `$mul` for a stride) (helper lemmas for `C04.emit_expr_correct`)
-/

namespace Amaranth.Rtlil
open Amaranth

theorem lt_two_pow_bitsFor' (n : Nat) (hn : 0 < n) : n < 2 ^ bitsFor (n : Int) false := by
  have h1 : ((n : Int) > 0) := by exact_mod_cast hn
  have h2 : ((n : Int).toNat + 1) ≠ 0 := by omega
  have h3 : (n : Int).toNat + 1 - 1 = n := by simp
  have hn0 : n ≠ 0 := by omega
  simp only [bitsFor, h1, if_true, Bool.false_eq_true, if_false, Nat.add_zero, ceilLog2, h2, h3, bitLength, hn0]
  exact Nat.lt_log2_self

theorem cellShift_lt (sa : Bool) (aw yw a : Nat) (b : Int) : cellShift sa aw yw a b < 2 ^ yw := by
  unfold cellShift; split <;> exact Nat.mod_lt _ (Nat.two_pow_pos _)

theorem toInt_false (w n : Nat) : toInt false w n = n := by simp [toInt]

/-- what the emitted cells of a `Part` compute: the cell library's `$shift` of the value by `offset · stride` -/
theorem emitPart_sound (c : Ctx) (m : Mems) (value : Val) (vs : Bool) (offset : Val) (width stride k : Nat) (env : Env)
    (hsa : c.shiftArith = false) (hst : 0 < stride) (hv : value.old k)
    (hw : WidthsOk c (emitPart value vs offset width stride k).wires) :
    EmSound c m k env (emitPart value vs offset width stride k)
      (fun out => out = cellShift vs value.length width (valOf env value) ((valOf env offset * stride : Nat) : Int)) := by
  by_cases h1 : stride = 1
  · subst h1
    simp only [emitPart, if_true] at hw ⊢
    have hwid : c.width (autoName k) = width := hw (autoName k, width) (by simp)
    have hev := eval_shift c env (autoName (k + 1)) (autoName k) hsa vs value (emitSpec offset) offset.length width
    rw [specVal_emitSpec, toInt_false] at hev
    refine emSound_cell c m k env _ _ _ _ (conn_binary _ _ _ _ _ _ _ _) hev hwid (cellShift_lt _ _ _ _ _) ?_
    rw [Nat.mul_one]
  · simp only [emitPart, h1, if_false] at hw ⊢
    have hwy : c.width (autoName k) = width := hw (autoName k, width) (by simp)
    have hwp : c.width (autoName (k + 1)) = offset.length + (constBits (stride : Int) (bitsFor (stride : Int) false)).length :=
      hw (autoName (k + 1), _) (by simp)
    generalize hsc : constBits (stride : Int) (bitsFor (stride : Int) false) = sc at hw hwp ⊢
    have hscl : sc.length = bitsFor (stride : Int) false := by rw [← hsc, constBits_length]
    have hscv : valOf env sc = stride := by
      rw [← hsc, valOf_constBits_nat]
      have hlt := lt_two_pow_bitsFor' stride hst
      have : ((stride : Int)) % 2 ^ bitsFor (stride : Int) false = stride :=
        Int.emod_eq_of_lt (by positivity) (by exact_mod_cast hlt)
      rw [this]; simp
    -- the product
    have hprod : cellMul false false offset.length sc.length (offset.length + sc.length) (valOf env offset) (valOf env sc)
        = valOf env offset * stride := by
      rw [cellMul_exact, toInt_false, toInt_false, hscv]
      have hlt : valOf env offset * stride < 2 ^ (offset.length + sc.length) := by
        rw [Nat.pow_add]
        have h1 := valOf_lt env offset
        have h2 : stride < 2 ^ sc.length := by rw [hscl]; exact lt_two_pow_bitsFor' stride hst
        exact Nat.mul_lt_mul'' h1 h2
      have : ((valOf env offset : Int) * (stride : Int)) = ((valOf env offset * stride : Nat) : Int) := by push_cast; rfl
      rw [this]
      exact ofInt_natCast_of_lt hlt
    have hplt : valOf env offset * stride < 2 ^ (offset.length + sc.length) := by
      rw [← hprod, cellMul_exact]; exact ofInt_lt _ _
    have hev1 := eval_mul c env (autoName (k + 2)) (autoName (k + 1)) false offset sc (offset.length + sc.length)
    rw [hprod] at hev1
    obtain ⟨r1, f1, _⟩ := run_cell c m env _ (k + 1) _ _ k (conn_binary _ _ _ _ _ _ _ _) hev1 hwp hplt (by omega)
    -- the shift
    have hev2 := eval_shift c (env.insert (autoName (k + 1)) (valOf env offset * stride)) (autoName (k + 3)) (autoName k) hsa vs
      value (.one (.wire (autoName (k + 1)))) (offset.length + sc.length) width
    rw [specVal_wire, Std.HashMap.getD_insert_self, hwp, Nat.mod_eq_of_lt hplt, toInt_false, valOf_frame f1 hv] at hev2
    obtain ⟨r2, f2, v2⟩ := run_cell c m _ _ k width _ k (conn_binaryS _ _ _ _ _ _ _ _ _) hev2 hwy (cellShift_lt _ _ _ _ _) (Nat.le_refl k)
    have hrun := evalNodes_append_ok c m (a := [_]) (b := [_]) r1 r2
    exact ⟨show k ≤ k + 4 by omega, old_wireBits (oldName_auto (show k < k + 4 by omega)) _ _,
      ⟨_, hrun, f1.trans f2 (Nat.le_refl k), show valOf _ (wireBits (autoName k) 0 width) = _ from v2⟩⟩

end Amaranth.Rtlil
