import AmaranthVerif.Proofs.MemQueue

/-! Two masked writes to *one* row in one delta commute when their masks are disjoint. -/

namespace Amaranth.Mem

theorem ibit_ext {a b : Int} (h : ∀ i, ibit a i = ibit b i) : a = b := by
  cases a with
  | ofNat m =>
    cases b with
    | ofNat n =>
      congr 1
      exact Nat.eq_of_testBit_eq h
    | negSucc n =>
      exfalso
      have := h (m + n)
      simp only [ibit] at this
      have h1 : m.testBit (m + n) = false :=
        Nat.testBit_lt_two_pow (Nat.lt_of_lt_of_le Nat.lt_two_pow_self (Nat.pow_le_pow_right (by decide) (by omega)))
      have h2 : n.testBit (m + n) = false :=
        Nat.testBit_lt_two_pow (Nat.lt_of_lt_of_le Nat.lt_two_pow_self (Nat.pow_le_pow_right (by decide) (by omega)))
      rw [h1, h2] at this
      exact Bool.noConfusion this
  | negSucc m =>
    cases b with
    | ofNat n =>
      exfalso
      have := h (m + n)
      simp only [ibit] at this
      have h1 : m.testBit (m + n) = false :=
        Nat.testBit_lt_two_pow (Nat.lt_of_lt_of_le Nat.lt_two_pow_self (Nat.pow_le_pow_right (by decide) (by omega)))
      have h2 : n.testBit (m + n) = false :=
        Nat.testBit_lt_two_pow (Nat.lt_of_lt_of_le Nat.lt_two_pow_self (Nat.pow_le_pow_right (by decide) (by omega)))
      rw [h1, h2] at this
      exact Bool.noConfusion this
    | negSucc n =>
      congr 1
      apply Nat.eq_of_testBit_eq
      intro i
      have := h i
      simp only [ibit] at this
      cases h1 : m.testBit i <;> cases h2 : n.testBit i <;> simp_all

theorem mask_congr_bits (w : Nat) {a b : Int} (h : ∀ i, i < w → ibit a i = ibit b i) : mask w a = mask w b := by
  apply ibit_ext
  intro i
  rw [ibit_mask, ibit_mask]
  by_cases hi : i < w
  · simp [hi, h i hi]
  · simp [hi]

theorem resign_congr (sh : Shape) {a b : Int} (hall : ∀ i, ibit a i = ibit b i) : resign sh a = resign sh b := by
  rw [ibit_ext hall]

theorem norm_congr_bits (sh : Shape) {a b : Int} (h : ∀ i, i < sh.width → ibit a i = ibit b i) :
    norm sh a = norm sh b := by
  unfold norm
  rw [mask_congr_bits sh.width h]

theorem ibit_zero_q (i : Nat) : ibit 0 i = false := by
  show ibit (Int.ofNat 0) i = false
  simp [ibit]

/-- merging twice under disjoint masks does not depend on the order, bit by bit -/
theorem merge_comm_bit (v1 m1 v2 m2 o1 o2 : Int) (i : Nat) (hd : pyAnd m1 m2 = 0) (ho : ibit o1 i = ibit o2 i)
    (x y : Int) (hx : ibit x i = ibit (pyMerge v1 m1 o1) i) (hy : ibit y i = ibit (pyMerge v2 m2 o2) i) :
    ibit (pyMerge v2 m2 x) i = ibit (pyMerge v1 m1 y) i := by
  have hdis : (ibit m1 i && ibit m2 i) = false := by rw [← ibit_pyAnd, hd, ibit_zero_q]
  rw [ibit_pyMerge, ibit_pyMerge, hx, hy, ibit_pyMerge, ibit_pyMerge, ho]
  cases h1 : ibit m1 i <;> cases h2 : ibit m2 i <;> simp_all

theorem resign_merge_comm (sh : Shape) (v1 m1 v2 m2 o : Int) (hd : pyAnd m1 m2 = 0) :
    resign sh (pyMerge v2 m2 (resign sh (pyMerge v1 m1 o))) = resign sh (pyMerge v1 m1 (resign sh (pyMerge v2 m2 o))) := by
  by_cases hs : sh.signed = true
  · have hr : ∀ x, resign sh x = norm sh x := fun x => by unfold resign; rw [if_pos hs]
    rw [hr (pyMerge v2 m2 _), hr (pyMerge v1 m1 (resign sh _))]
    apply norm_congr_bits
    intro i hi
    exact merge_comm_bit v1 m1 v2 m2 o o i hd rfl _ _ (ibit_resign sh _ i hi) (ibit_resign sh _ i hi)
  · have hr : ∀ x, resign sh x = x := fun x => by unfold resign; rw [if_neg hs]
    simp only [hr]
    apply ibit_ext
    intro i
    exact merge_comm_bit v1 m1 v2 m2 o o i hd rfl _ _ rfl rfl

/-- two writes to one row whose masks share no bit commute: the queued row does not depend on which process ran first -/
theorem qwrite_comm_same_row (sh : Shape) (rows : List Int) (q : Queue) (a : Nat) (v1 m1 v2 m2 : Int)
    (hd : pyAnd m1 m2 = 0) (hq : q.length = rows.length) :
    qwrite sh rows (qwrite sh rows q a v1 m1) a v2 m2 = qwrite sh rows (qwrite sh rows q a v2 m2) a v1 m1 := by
  unfold qwrite
  by_cases ha : a < rows.length
  · simp only [ha, if_true]
    rw [pending_set rows q a a _ (by omega), pending_set rows q a a _ (by omega), if_pos rfl, if_pos rfl,
      resign_merge_comm sh v1 m1 v2 m2 _ hd]
    simp [List.set_set]
  · simp only [ha, if_false]

end Amaranth.Mem
