import AmaranthVerif.Proofs.EngineEquivComb2

/-!
# `comb (out := e)` replaced by `userComb (exprSigs e) out e`: whole runs
-/

namespace Amaranth.Engine
open Amaranth

section
variable {D : Design} {pre post : List ProcKind} {scripts : List (List TbOp)} {out : Nat} {e : Expr}

theorem combKinds_length : (combKindsB pre post out e).length = (combKindsA pre post out e).length := by
  simp [combKindsA, combKindsB]

theorem combKindsA_length : (combKindsA pre post out e).length = pre.length + 1 + post.length := by
  simp [combKindsA]; omega

theorem getLoc_of_off {p : Nat} {a b : EState} (hm : Mid p a b) (q : Nat) (hq : q ≠ p) : getLoc b q = getLoc a q := by
  unfold getLoc
  rw [List.getD_eq_getElem?_getD, List.getD_eq_getElem?_getD, hm.off q hq]

theorem mid_setLoc {p : Nat} {a b : EState} (hm : Mid p a b) (o : Nat) (ho : o ≠ p) (l : Local) :
    Mid p (setLoc a o l) (setLoc b o l) ∧
    (setLoc a o l).locals[p]? = a.locals[p]? ∧ (setLoc b o l).locals[p]? = b.locals[p]? := by
  refine ⟨⟨hm.curr, hm.next, hm.timers, hm.now, hm.deltas, hm.obs, ?_, ?_⟩, List.getElem?_set_ne ho, List.getElem?_set_ne ho⟩
  · simp only [setLoc, List.length_set, hm.len]
  · intro q hq
    simp only [setLoc, List.getElem?_set, hm.len, hm.off q hq]

/-- the relation is kept by everything a run does -/
theorem comb_simRel (H : ReplHyp D pre post out) (hwf : e.wf D.ctx = true)
    (hsc : ∀ sc ∈ scripts, ScriptWrites (writeOk D.ctx out) sc) (sched : Sched)
    (hnd : SchedNodup sched) (hl : ∀ k, pre.length ∈ (sched k).procs) (fuel : Nat) :
    SimRel (mkSim D (combKindsA pre post out e) scripts sched fuel) (mkSim D (combKindsB pre post out e) scripts sched fuel)
      (CombRel D pre out e) (writeOk D.ctx out) where
  ctx := rfl
  doms := rfl
  scripts := rfl
  fuel := rfl
  curr := fun _ _ hr => hr.1.curr
  next := fun _ _ hr => hr.1.next
  now := fun _ _ hr => hr.1.now
  obs := fun _ _ hr => hr.1.obs
  loc := fun a b t hr => by
    show getLoc b ((combKindsB pre post out e).length + t) = getLoc a ((combKindsA pre post out e).length + t)
    rw [combKinds_length]
    exact getLoc_of_off hr.1 _ (by rw [combKindsA_length]; omega)
  setLoc := by
    intro a b t l ⟨hm, lA, lB, hlA, hlB, hq⟩
    have ho : (combKindsA pre post out e).length + t ≠ pre.length := by rw [combKindsA_length]; omega
    obtain ⟨m, eA, eB⟩ := mid_setLoc hm _ ho l
    have elen : (combKindsB pre post out e).length = (combKindsA pre post out e).length := combKinds_length
    show CombRel D pre out e (setLoc a ((combKindsA pre post out e).length + t) l) (setLoc b ((combKindsB pre post out e).length + t) l)
    rw [elen]
    exact ⟨m, lA, lB, eA.trans hlA, eB.trans hlB, hq⟩
  addObs := by
    intro a b x ⟨hm, lA, lB, hlA, hlB, hq⟩
    exact ⟨⟨hm.curr, hm.next, hm.timers, hm.now, hm.deltas, by simp only [hm.obs], hm.len, hm.off⟩, lA, lB, hlA, hlB, hq⟩
  setTimer := by
    intro a b t x ⟨hm, lA, lB, hlA, hlB, hq⟩
    have elen : (combKindsB pre post out e).length = (combKindsA pre post out e).length := combKinds_length
    exact ⟨⟨hm.curr, hm.next, by
      show b.timers.set ((combKindsB pre post out e).length + t) x = a.timers.set ((combKindsA pre post out e).length + t) x
      rw [elen, hm.timers], hm.now, hm.deltas, hm.obs, hm.len, hm.off⟩, lA, lB, hlA, hlB, hq⟩
  write := by
    intro a b tgt v ⟨hm, lA, lB, hlA, hlB, hq⟩ hw
    obtain ⟨hcur, hn, hcase⟩ := hq
    obtain ⟨hn', hv⟩ := tbWrite_frame D.ctx a.curr a.next tgt v out hcur hn hw
    refine ⟨⟨hm.curr, by simp only [hm.next], hm.timers, hm.now, hm.deltas, hm.obs, hm.len, hm.off⟩,
      lA, lB, hlA, hlB, hcur, hn', ?_⟩
    rcases hcase with h | h | ⟨h1, h2, h3⟩
    · exact Or.inl h
    · exact Or.inr (Or.inl h)
    · exact Or.inr (Or.inr ⟨h1, h2, hv.trans h3⟩)
  step := fun a b hr => comb_settle (scripts := scripts) H hwf sched hnd hl fuel a b hr
  time := by
    intro a b ⟨hm, lA, lB, hlA, hlB, hq⟩
    have hps := comb_sameOff D pre post scripts out e
    obtain ⟨m, hloc⟩ := advanceTime_mid hps hm
    obtain ⟨eA, eB⟩ := hloc lA lB hlA hlB
    have gA : (simDefs D (combKindsA pre post out e) scripts).getD pre.length default = combDef D (.assign (.sig out) e) := by
      rw [List.getD_eq_getElem?_getD, comb_atA]; rfl
    have gB : (simDefs D (combKindsB pre post out e) scripts).getD pre.length default = userCombDef D.ctx (exprSigs e) out e := by
      rw [List.getD_eq_getElem?_getD, comb_atB]; rfl
    rw [gA] at eA
    rw [gB] at eB
    have eA' : (advanceTime (simDefs D (combKindsA pre post out e) scripts) a).1.locals[pre.length]? = some lA := by
      rw [eA]; split <;> rfl
    have eB' : (advanceTime (simDefs D (combKindsB pre post out e) scripts) b).1.locals[pre.length]? = some lB := by
      rw [eB]; split <;> rfl
    have hc : (advanceTime (simDefs D (combKindsA pre post out e) scripts) a).1.curr = a.curr ∧
        (advanceTime (simDefs D (combKindsA pre post out e) scripts) a).1.next = a.next := by
      rcases advanceTime_spec (simDefs D (combKindsA pre post out e) scripts) a with ⟨h, _⟩ | ⟨_, _, _, _, _, _, _, h1, h2, _⟩
      · rw [h]; exact ⟨rfl, rfl⟩
      · exact ⟨h1, h2⟩
    refine ⟨m, lA, lB, eA', eB', ?_⟩
    show CombQ D out e lA lB (advanceTime (simDefs D (combKindsA pre post out e) scripts) a).1.curr
      (advanceTime (simDefs D (combKindsA pre post out e) scripts) a).1.next
    rw [hc.1, hc.2]; exact hq
  scriptsOk := hsc

/-- the initial states correspond: at time 0 both owners are runnable, the user process with its
`initial` wake-up pending -/
theorem comb_init (hinit : EnvN D.ctx D.inits) :
    CombRel D pre out e (initState D (combKindsA pre post out e) scripts) (initState D (combKindsB pre post out e) scripts) := by
  refine ⟨⟨rfl, rfl, ?_, rfl, rfl, rfl, ?_, ?_⟩, { runnable := true }, { runnable := true }, ?_, ?_, hinit, hinit, Or.inl ⟨rfl, rfl, rfl, rfl, rfl⟩⟩
  · simp only [initState, combKinds_length]
  · simp [initState, combKindsA, combKindsB]
  · intro q hq
    simp only [initState, combKindsA, combKindsB, List.map_append, List.map_cons, List.append_assoc, List.cons_append]
    exact getElem?_append_cons_ne _ _ _ _ q (by simpa using hq)
  · simp only [initState, combKindsA, List.map_append, List.map_cons, List.append_assoc, List.cons_append]
    rw [List.getElem?_append_right (by simp)]
    simp [ProcKind.initLocal]
  · simp only [initState, combKindsB, List.map_append, List.map_cons, List.append_assoc, List.cons_append]
    rw [List.getElem?_append_right (by simp)]
    simp [ProcKind.initLocal]

end

end Amaranth.Engine
