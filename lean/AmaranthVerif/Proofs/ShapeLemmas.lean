import AmaranthVerif.Model.Shape

/-! # Basic facts about shapes, `mask` and `norm` (helper lemmas for C01, C05, C10) -/

namespace Amaranth

theorem two_pow_pos' (n : Nat) : (0 : Int) < 2 ^ n := by
  have : (0 : Nat) < 2 ^ n := Nat.two_pow_pos n
  exact_mod_cast this

theorem two_pow_succ' (n : Nat) : (2 : Int) ^ (n + 1) = 2 * 2 ^ n := by
  rw [Int.pow_succ]; omega

theorem two_pow_pred (n : Nat) (h : 0 < n) : (2 : Int) ^ n = 2 * 2 ^ (n - 1) := by
  have : n = (n - 1) + 1 := by omega
  rw [this, two_pow_succ']; simp

theorem two_pow_mono {a b : Nat} (h : a ≤ b) : (2 : Int) ^ a ≤ 2 ^ b := by
  have : (2 : Nat) ^ a ≤ 2 ^ b := Nat.pow_le_pow_right (by decide) h
  exact_mod_cast this

theorem two_pow_add' (a b : Nat) : (2 : Int) ^ (a + b) = 2 ^ a * 2 ^ b := Int.pow_add ..

theorem mask_nonneg (w : Nat) (v : Int) : 0 ≤ mask w v :=
  Int.emod_nonneg _ (Int.ne_of_gt (two_pow_pos' w))

theorem mask_lt (w : Nat) (v : Int) : mask w v < 2 ^ w :=
  Int.emod_lt_of_pos _ (two_pow_pos' w)

theorem mask_mask (w : Nat) (v : Int) : mask w (mask w v) = mask w v := by
  unfold mask; exact Int.emod_emod_of_dvd _ (Int.dvd_refl _)

theorem mask_of_range {w : Nat} {v : Int} (h0 : 0 ≤ v) (h1 : v < 2 ^ w) : mask w v = v :=
  Int.emod_eq_of_lt h0 h1

namespace Shape

theorem contains_u {w : Nat} {v : Int} : (Shape.mk w false).contains v ↔ 0 ≤ v ∧ v < 2 ^ w := by
  simp [contains, lo, hi]

theorem contains_s {w : Nat} {v : Int} :
    (Shape.mk w true).contains v ↔ -(2 ^ (w - 1) : Int) ≤ v ∧ v < 2 ^ (w - 1) := by
  simp [contains, lo, hi]

end Shape

theorem norm_u (w : Nat) (v : Int) : norm ⟨w, false⟩ v = v % 2 ^ w := rfl

theorem norm_s (w : Nat) (v : Int) :
    norm ⟨w, true⟩ v = if v % 2 ^ w ≥ 2 ^ (w - 1) then v % 2 ^ w - 2 ^ w else v % 2 ^ w := rfl

/-- `norm` lands in the shape. -/
theorem norm_contains (s : Shape) (h : s.WF) (v : Int) : s.contains (norm s v) := by
  obtain ⟨w, sg⟩ := s
  have hp := two_pow_pos' w
  have h0 := mask_nonneg w v
  have h1 := mask_lt w v
  unfold mask at h0 h1
  cases sg with
  | false => rw [norm_u, Shape.contains_u]; exact ⟨h0, h1⟩
  | true =>
    have hw : 0 < w := h rfl
    have e := two_pow_pred w hw
    rw [norm_s, Shape.contains_s]
    split <;> omega

/-- a value already in the shape is left alone -/
theorem norm_of_contains (s : Shape) (h : s.WF) {v : Int} (hc : s.contains v) : norm s v = v := by
  obtain ⟨w, sg⟩ := s
  have hp := two_pow_pos' w
  cases sg with
  | false =>
    rw [Shape.contains_u] at hc
    rw [norm_u]
    exact Int.emod_eq_of_lt hc.1 hc.2
  | true =>
    have hw : 0 < w := h rfl
    have e := two_pow_pred w hw
    rw [Shape.contains_s] at hc
    rw [norm_s]
    by_cases hv : 0 ≤ v
    · have : v % 2 ^ w = v := Int.emod_eq_of_lt hv (by omega)
      rw [this]; split <;> omega
    · have : v % 2 ^ w = v + 2 ^ w := by
        have h2 : (v + 2 ^ w) % 2 ^ w = v + 2 ^ w := Int.emod_eq_of_lt (by omega) (by omega)
        rw [← h2]; simp
      rw [this]; split <;> omega

theorem norm_congr (s : Shape) {a b : Int} (h : a % 2 ^ s.width = b % 2 ^ s.width) : norm s a = norm s b := by
  obtain ⟨w, sg⟩ := s
  simp only at h
  cases sg with
  | false => rw [norm_u, norm_u, h]
  | true => rw [norm_s, norm_s, h]

theorem norm_emod (s : Shape) (v : Int) : norm s v % 2 ^ s.width = v % 2 ^ s.width := by
  obtain ⟨w, sg⟩ := s
  cases sg with
  | false => rw [norm_u]; exact Int.emod_emod_of_dvd _ (Int.dvd_refl _)
  | true =>
    rw [norm_s]
    split
    · simp [Int.sub_emod]
    · exact Int.emod_emod_of_dvd _ (Int.dvd_refl _)

/-- the key transfer lemma: a raw value congruent to an in-range value normalises to it -/
theorem norm_eq_of_congr (s : Shape) (h : s.WF) {r d : Int} (hc : s.contains d)
    (he : r % 2 ^ s.width = d % 2 ^ s.width) : norm s r = d := by
  rw [norm_congr s he, norm_of_contains s h hc]

theorem norm_idem (s : Shape) (h : s.WF) (v : Int) : norm s (norm s v) = norm s v :=
  norm_of_contains s h (norm_contains s h v)

end Amaranth
