import AmaranthVerif.Proofs.EngineTickRun

/-!
# Testbench order: what a later testbench sees

Within one pass over `_testbenches`, testbench `n + 1` runs after testbench `n`. If testbench `n`
performs `ctx.set(tgt, v)` (its last operation in this turn), the design settles before `set`
returns, and a `ctx.get(e)` of testbench `n + 1` in the same pass is evaluated on that settled state.
-/

namespace Amaranth.Engine
open Amaranth

theorem tbExec_set (S : Sim) (t : Nat) (script : List TbOp) (n : Nat) (s : EState) (tgt : Expr) (v : Int)
    (hop : script[(getLoc s (S.nproc + t)).pc]? = some (.set tgt v)) (hrep : (getLoc s (S.nproc + t)).report = false) :
    tbExec S t script (n + 1) s =
      tbExec S t script n
        (setLoc (S.step { s with next := assignTbG true S.ctx s.curr tgt 0 v (widthOf S.ctx tgt) s.next }) (S.nproc + t)
          { getLoc (S.step { s with next := assignTbG true S.ctx s.curr tgt 0 v (widthOf S.ctx tgt) s.next }) (S.nproc + t)
            with pc := (getLoc s (S.nproc + t)).pc + 1 }) := by
  simp only [tbExec, hop, hrep, Bool.false_eq_true, if_false]

theorem tbExec_get (S : Sim) (t : Nat) (script : List TbOp) (n : Nat) (s : EState) (e : Expr)
    (hop : script[(getLoc s (S.nproc + t)).pc]? = some (.get e)) (hrep : (getLoc s (S.nproc + t)).report = false) :
    tbExec S t script (n + 1) s =
      tbExec S t script n
        (setLoc { s with obs := (t, s.now, [evalTb S.ctx s.curr e]) :: s.obs } (S.nproc + t)
          { getLoc s (S.nproc + t) with pc := (getLoc s (S.nproc + t)).pc + 1 }) := by
  simp only [tbExec, hop, hrep, Bool.false_eq_true, if_false]

theorem tbExec_end (S : Sim) (t : Nat) (script : List TbOp) (n : Nat) (s : EState)
    (hop : script[(getLoc s (S.nproc + t)).pc]? = none) :
    tbExec S t script (n + 1) s = setLoc s (S.nproc + t) { getLoc s (S.nproc + t) with done := true } := by
  simp only [tbExec, hop]

theorem getLoc_of_getElem? (s : EState) (o : Nat) (l : Local) (h : s.locals[o]? = some l) : getLoc s o = l := by
  simp [getLoc, List.getD_eq_getElem?_getD, h]

theorem getLoc_setLoc_self (s : EState) (o : Nat) (l : Local) (h : o < s.locals.length) : getLoc (setLoc s o l) o = l := by
  simp [getLoc, setLoc, List.getD_eq_getElem?_getD, List.getElem?_set_self h]

theorem getElem?_setLoc_ne (s : EState) (o p : Nat) (l : Local) (h : o ≠ p) : (setLoc s o l).locals[p]? = s.locals[p]? :=
  List.getElem?_set_ne h

/-- **A later testbench sees an earlier testbench's write, settled.** In a pass, let testbench `n` be
runnable with `ctx.set(tgt, v)` as the last operation of its script, and let `s₂` be the state
`step_design()` returns after that write. If testbench `n + 1` is then runnable with `ctx.get(e)` as
its next operation, its turn — the very next one in the pass — records the value of `e` in `s₂`. -/
theorem tb_sees_earlier_set (S : Sim) (hobs : ∀ z, (S.step z).obs = z.obs)
    (acc : EState × Bool) (n : Nat) (tgt : Expr) (v : Int) (e : Expr)
    (l : Local) (hl : acc.1.locals[S.nproc + n]? = some l) (hrun : l.runnable = true) (hrep : l.report = false)
    (hop : (S.scripts.getD n [])[l.pc]? = some (.set tgt v)) (hend : (S.scripts.getD n [])[l.pc + 1]? = none)
    (s₂ : EState)
    (hs₂ : s₂ = S.step { setLoc acc.1 (S.nproc + n) { l with runnable := false } with
                          next := assignTbG true S.ctx acc.1.curr tgt 0 v (widthOf S.ctx tgt) acc.1.next })
    (hlen₂ : S.nproc + n < s₂.locals.length)
    (l' : Local) (hl' : s₂.locals[S.nproc + (n + 1)]? = some l') (hrun' : l'.runnable = true) (hrep' : l'.report = false)
    (hop' : (S.scripts.getD (n + 1) [])[l'.pc]? = some (.get e)) :
    (n + 1, s₂.now, [evalTb S.ctx s₂.curr e]) ∈ (tbTurn S (tbTurn S acc n) (n + 1)).1.obs := by
  have hlt : S.nproc + n < acc.1.locals.length := (List.getElem?_eq_some_iff.mp hl).1
  -- the turn of testbench `n`
  have hturn : (tbTurn S acc n).1 =
      setLoc (setLoc s₂ (S.nproc + n) { getLoc s₂ (S.nproc + n) with pc := l.pc + 1 }) (S.nproc + n)
        { getLoc s₂ (S.nproc + n) with pc := l.pc + 1, done := true } := by
    unfold tbTurn
    simp only [getLoc_of_getElem? _ _ _ hl, hrun, if_true]
    rw [show 2 * (S.scripts.getD n []).length + 2 = (2 * (S.scripts.getD n []).length) + 1 + 1 from rfl]
    have hg : getLoc (setLoc acc.1 (S.nproc + n) { l with runnable := false }) (S.nproc + n) = { l with runnable := false } :=
      getLoc_setLoc_self _ _ _ hlt
    rw [tbExec_set S n _ _ _ tgt v (by rw [hg]; exact hop) (by rw [hg]; exact hrep)]
    rw [hg]
    have e1 : S.step { setLoc acc.1 (S.nproc + n) { l with runnable := false } with
        next := assignTbG true S.ctx (setLoc acc.1 (S.nproc + n) { l with runnable := false }).curr tgt 0 v (widthOf S.ctx tgt)
          (setLoc acc.1 (S.nproc + n) { l with runnable := false }).next } = s₂ := hs₂.symm
    rw [e1]
    have hg2 : getLoc (setLoc s₂ (S.nproc + n) { getLoc s₂ (S.nproc + n) with pc := l.pc + 1 }) (S.nproc + n) =
        { getLoc s₂ (S.nproc + n) with pc := l.pc + 1 } := getLoc_setLoc_self _ _ _ hlen₂
    rw [tbExec_end S n _ _ _ (by rw [hg2]; exact hend), hg2]
  -- the turn of testbench `n + 1`
  have hne : S.nproc + n ≠ S.nproc + (n + 1) := by omega
  have hl'' : (tbTurn S acc n).1.locals[S.nproc + (n + 1)]? = some l' := by
    rw [hturn, getElem?_setLoc_ne _ _ _ _ hne, getElem?_setLoc_ne _ _ _ _ hne]; exact hl'
  have hlt' : S.nproc + (n + 1) < (tbTurn S acc n).1.locals.length := (List.getElem?_eq_some_iff.mp hl'').1
  have hcurr : (tbTurn S acc n).1.curr = s₂.curr := by rw [hturn]; rfl
  have hnow : (tbTurn S acc n).1.now = s₂.now := by rw [hturn]; rfl
  clear hturn
  generalize tbTurn S acc n = zacc at hl'' hlt' hcurr hnow ⊢
  unfold tbTurn
  simp only [getLoc_of_getElem? _ _ _ hl'', hrun', if_true]
  rw [show 2 * (S.scripts.getD (n + 1) []).length + 2 = (2 * (S.scripts.getD (n + 1) []).length + 1) + 1 from rfl]
  have hg : getLoc (setLoc zacc.1 (S.nproc + (n + 1)) { l' with runnable := false }) (S.nproc + (n + 1)) =
      { l' with runnable := false } := getLoc_setLoc_self _ _ _ hlt'
  rw [tbExec_get S (n + 1) _ _ _ e (by rw [hg]; exact hop') (by rw [hg]; exact hrep')]
  refine (tbExec_rel S (n + 1) ObsExt ObsExt.refl ObsExt.trans (fun _ _ _ _ _ h => h)
    (fun s => ⟨[], by rw [hobs]; rfl⟩) _ _ _).mem ?_
  have e2 : (setLoc zacc.1 (S.nproc + (n + 1)) { l' with runnable := false }).curr = s₂.curr := hcurr
  have e3 : (setLoc zacc.1 (S.nproc + (n + 1)) { l' with runnable := false }).now = s₂.now := hnow
  rw [e2, e3]
  exact List.mem_cons_self ..

/-! ## Schedules used in the examples -/

theorem identitySched_nodup (n m : Nat) : SchedNodup (identitySched n m) := fun _ => List.nodup_range

theorem identity_reverse_equiv (n m : Nat) : SchedEquiv (identitySched n m) (reverseSched n m) :=
  fun _ => ⟨(List.reverse_perm _).symm, (List.reverse_perm _).symm⟩

theorem identitySched_lists (n m : Nat) : SchedLists (identitySched n m) n :=
  fun _ _ hp => List.mem_range.mpr hp

/-! ## Designs without asynchronous resets -/

/-- no reset-only process among the processes -/
def noArst (kinds : List ProcKind) : Bool :=
  kinds.all fun k => match k with | .arst _ _ => false | _ => true

theorem staticDisjoint_of_pairOK (D : Design) (kinds : List ProcKind) (h : kinds.Pairwise (PairOK D))
    (hn : noArst kinds = true) : StaticDisjoint D kinds := by
  unfold StaticDisjoint
  refine List.Pairwise.imp_of_mem ?_ h
  intro a b ha hb hab
  unfold noArst at hn
  rw [List.all_eq_true] at hn
  rcases hab with h | ⟨d, body, r, rfl, _, _⟩ | ⟨d, body, r, rfl, _, _⟩
  · exact h
  · have := hn _ ha; simp at this
  · have := hn _ hb; simp at this

end Amaranth.Engine
