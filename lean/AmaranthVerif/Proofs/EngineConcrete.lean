import AmaranthVerif.Proofs.EngineRun

/-!
# The concrete owners satisfy the hypotheses of the abstract theorems

* the wakers of every compiled process, clock, user process and testbench commute (`WakeComm`);
* they are `WellBehaved` (running clears `runnable`, running a trigger deactivates it).
-/

namespace Amaranth.Engine
open Amaranth

theorem zipWith_or_comm (t : Trigger) (hs : List Bool) (f g : TrigElem → Bool) :
    List.zipWith (fun el h => h || g el) t (List.zipWith (fun el h => h || f el) t hs) =
    List.zipWith (fun el h => h || f el) t (List.zipWith (fun el h => h || g el) t hs) := by
  induction t generalizing hs with
  | nil => rfl
  | cons el t ih =>
    cases hs with
    | nil => rfl
    | cons h hs => simp only [List.zipWith_cons_cons, ih, Bool.or_right_comm]

theorem trigWake_comm (t : Trigger) (l : Local) (i j : Nat) (oi ni oj nj : Int) :
    trigWake t (trigWake t l i oi ni) j oj nj = trigWake t (trigWake t l j oj nj) i oi ni := by
  unfold trigWake
  by_cases hw : l.waiting = true
  · simp only [hw, if_true]
    rw [zipWith_or_comm, Bool.or_right_comm]
  · simp [hw]

@[simp] theorem trigWake_pc (t : Trigger) (l : Local) (i : Nat) (o n : Int) : (trigWake t l i o n).pc = l.pc := by
  unfold trigWake; split <;> rfl

theorem flag_comm (l : Local) (a b : Bool) :
    (if b then { (if a then { l with runnable := true } else l) with runnable := true } else (if a then { l with runnable := true } else l)) =
    (if a then { (if b then { l with runnable := true } else l) with runnable := true } else (if b then { l with runnable := true } else l)) := by
  cases a <;> cases b <;> rfl

theorem toDef_wakeComm (D : Design) (k : ProcKind) (l : Local) (i j : Nat) (oi ni oj nj : Int) :
    (k.toDef D).wake ((k.toDef D).wake l i oi ni) j oj nj = (k.toDef D).wake ((k.toDef D).wake l j oj nj) i oi ni := by
  cases k with
  | comb body => exact flag_comm l _ _
  | sync d body => exact flag_comm l _ _
  | arst d body => exact flag_comm l _ _
  | clock slot phase period => rfl
  | userComb ins out e => exact trigWake_comm _ l i j oi ni oj nj
  | userSync d ins out e => exact trigWake_comm _ l i j oi ni oj nj
  | userSyncPart d ins out lo hi e => exact trigWake_comm _ l i j oi ni oj nj
  | userLateComb n ins out e =>
    simp only [ProcKind.toDef, userLateCombDef]
    by_cases h : l.pc = 0
    · simp [h]
    · have hw : ∀ (l' : Local) s o n', (trigWake (ins.map .changed) l' s o n').pc = l'.pc := by
        intro l' s o n'; unfold trigWake; split <;> rfl
      simp only [beq_iff_eq, h, if_false, hw]
      exact trigWake_comm _ l i j oi ni oj nj

theorem tbDef_wakeComm (ctx : Ctx) (doms : List DomCfg) (script : List TbOp) (l : Local) (i j : Nat) (oi ni oj nj : Int) :
    (tbDef ctx doms script).wake ((tbDef ctx doms script).wake l i oi ni) j oj nj =
    (tbDef ctx doms script).wake ((tbDef ctx doms script).wake l j oj nj) i oi ni := by
  simp only [tbDef, tbTrigger, trigWake_pc]
  exact trigWake_comm _ l i j oi ni oj nj

/-- the wakers of every owner of a simulation built by `mkSim` commute -/
theorem simDefs_wakeComm (D : Design) (kinds : List ProcKind) (scripts : List (List TbOp)) :
    WakeComm (simDefs D kinds scripts) := by
  intro d hd l i j oi ni oj nj _
  unfold simDefs at hd
  rcases List.mem_append.mp hd with hd | hd
  · obtain ⟨k, _, rfl⟩ := List.mem_map.mp hd
    exact toDef_wakeComm D k l i j oi ni oj nj
  · obtain ⟨sc, _, rfl⟩ := List.mem_map.mp hd
    exact tbDef_wakeComm D.ctx D.doms sc l i j oi ni oj nj

theorem toDef_wellBehaved (D : Design) (k : ProcKind) :
    (∀ l cur, l.runnable = false → ((k.toDef D).run l cur).loc.runnable = false) ∧
    (∀ l cur, ((k.toDef D).run l cur).loc.active = l.active) ∧
    (∀ l cur, ((k.toDef D).trig l cur).active = false) := by
  cases k with
  | comb body => exact ⟨fun l cur h => h, fun l cur => rfl, fun l cur => rfl⟩
  | sync d body => exact ⟨fun l cur h => h, fun l cur => rfl, fun l cur => rfl⟩
  | arst d body => exact ⟨fun l cur h => h, fun l cur => rfl, fun l cur => rfl⟩
  | clock slot phase period =>
    refine ⟨fun l cur h => ?_, fun l cur => ?_, fun l cur => rfl⟩
    · simp only [ProcKind.toDef, clockDef]; split <;> rfl
    · simp only [ProcKind.toDef, clockDef]; split <;> rfl
  | userComb ins out e => exact ⟨fun l cur h => h, fun l cur => rfl, fun l cur => rfl⟩
  | userSync d ins out e =>
    refine ⟨fun l cur h => ?_, fun l cur => ?_, fun l cur => rfl⟩
    · simp only [ProcKind.toDef, userSyncDef]
      split
      · exact h
      · split
        · exact h
        · split <;> exact h
    · simp only [ProcKind.toDef, userSyncDef]
      split
      · rfl
      · split
        · rfl
        · split <;> rfl
  | userSyncPart d ins out lo hi e =>
    refine ⟨fun l cur h => ?_, fun l cur => ?_, fun l cur => rfl⟩
    · simp only [ProcKind.toDef, userSyncPartDef]
      split
      · exact h
      · split
        · exact h
        · split <;> exact h
    · simp only [ProcKind.toDef, userSyncPartDef]
      split
      · rfl
      · split
        · rfl
        · split <;> rfl
  | userLateComb n ins out e =>
    refine ⟨fun l cur h => ?_, fun l cur => ?_, fun l cur => ?_⟩
    · simp only [ProcKind.toDef, userLateCombDef]
      split
      · exact h
      · split <;> exact h
    · simp only [ProcKind.toDef, userLateCombDef]
      split
      · rfl
      · split <;> rfl
    · simp only [ProcKind.toDef, userLateCombDef]
      split <;> rfl

theorem simDefs_wellBehaved (D : Design) (kinds : List ProcKind) (scripts : List (List TbOp)) :
    WellBehaved (simDefs D kinds scripts) := by
  intro d hd
  unfold simDefs at hd
  rcases List.mem_append.mp hd with hd | hd
  · obtain ⟨k, _, rfl⟩ := List.mem_map.mp hd
    exact toDef_wellBehaved D k
  · obtain ⟨sc, _, rfl⟩ := List.mem_map.mp hd
    exact ⟨fun l cur h => h, fun l cur => rfl, fun l cur => rfl⟩

end Amaranth.Engine
