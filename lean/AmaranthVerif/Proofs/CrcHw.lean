import AmaranthVerif.Proofs.CrcCompute

/-! # The XOR network of `Processor.elaborate` computes a word-step of the serial register -/

namespace Amaranth.Crc
open Amaranth.Williams

/-- the serial register after one `dw`-bit word (already input-reflected), from register `r` -/
abbrev batch (p : Params) (dw r x : Nat) : Nat := feed p.width p.poly r (msbFirst dw x)

theorem batch_xor (p : Params) (dw a b x y : Nat) :
    batch p dw (a ^^^ b) (x ^^^ y) = batch p dw a x ^^^ batch p dw b y := by
  simp only [batch, msbFirst_xor]
  exact feed_xor _ _ _ _ (by simp) a b

theorem plain_valid {p : Params} (hv : p.Valid) {r : Nat} (hr : r < 2 ^ p.width) : (plain p r).Valid :=
  ⟨hv.1, hv.2.1, hr, Nat.two_pow_pos _⟩

theorem compute_plain {p : Params} (hv : p.Valid) {dw r x : Nat} (hr : r < 2 ^ p.width) (hx : x < 2 ^ dw) :
    compute (plain p r) dw [x] = batch p dw r x := by
  rw [compute, computeReg_eq_register (plain_valid hv hr) dw [x] (by simpa using hx)]
  simp [finish, plain, register, stream]

theorem xorRows_append (as bs : List Nat) (j v i : Nat) :
    xorRows (as ++ bs) j v i = (xorRows as j v i ^^ xorRows bs (j + as.length) v i) := by
  induction as generalizing j with
  | nil => simp [xorRows]
  | cons a as ih =>
    simp only [List.cons_append, xorRows, ih, List.length_cons, Bool.xor_assoc]
    have : j + 1 + as.length = j + (as.length + 1) := by omega
    rw [this]

theorem mod_two_pow_succ_xor (v n : Nat) : v % 2 ^ (n + 1) = (v % 2 ^ n) ^^^ (if v.testBit n then 2 ^ n else 0) := by
  apply Nat.eq_of_testBit_eq; intro i
  simp only [Nat.testBit_xor, Nat.testBit_mod_two_pow]
  by_cases hi : i = n
  · subst hi
    cases h : v.testBit i <;> simp
  · have h1 : (if v.testBit n then 2 ^ n else 0).testBit i = false := by
      split
      · simp [Nat.testBit_two_pow]; omega
      · simp
    rw [h1]
    by_cases h2 : i < n
    · have : i < n + 1 := by omega
      simp [h2, this]
    · have : ¬ i < n + 1 := by omega
      simp [h2, this]

/-- a linear map is determined by its values on the unit vectors: bit `i` of the image is the xor
    of the selected matrix entries (this is what the hardware's XOR network evaluates) -/
theorem linear_rows (L : Nat → Nat) (hL : ∀ a b, L (a ^^^ b) = L a ^^^ L b) (v i : Nat) :
    ∀ n, (L (v % 2 ^ n)).testBit i = xorRows ((List.range n).map fun j => L (2 ^ j)) 0 v i := by
  have h0 : L 0 = 0 := by
    have := hL 0 0
    simp only [Nat.xor_self] at this
    have h := congrArg (fun t => t ^^^ L 0) this
    simpa [Nat.xor_self] using h.symm
  intro n
  induction n with
  | zero => simp [Nat.mod_one, h0, xorRows]
  | succ n ih =>
    rw [mod_two_pow_succ_xor, hL, Nat.testBit_xor, ih, List.range_succ, List.map_append, xorRows_append]
    congr 1
    simp only [List.map_cons, List.map_nil, xorRows, List.length_map, List.length_range, Nat.zero_add,
      Bool.xor_false]
    cases h : v.testBit n <;> simp [h0]

theorem matF_eq {p : Params} (hv : p.Valid) (dw : Nat) :
    matF p dw = (List.range p.width).map fun j => batch p dw (2 ^ j) 0 := by
  unfold matF
  apply List.map_congr_left
  intro j hj
  have hj' : j < p.width := by simpa using hj
  exact compute_plain hv (Nat.pow_lt_pow_right (by omega) hj') (Nat.two_pow_pos dw)

theorem matG_eq {p : Params} (hv : p.Valid) (dw : Nat) :
    matG p dw = (List.range dw).map fun j => batch p dw 0 (2 ^ j) := by
  unfold matG
  apply List.map_congr_left
  intro j hj
  have hj' : j < dw := by simpa using hj
  exact compute_plain hv (Nat.two_pow_pos _) (Nat.pow_lt_pow_right (by omega) hj')

/-- the network: register bits through F, data bits through G -/
theorem network_eq {p : Params} (hv : p.Valid) (dw : Nat) {src : Nat} (hs : src < 2 ^ p.width) (din : Nat) :
    ofFn p.width (fun i => (xorRows (matF p dw) 0 src i ^^ xorRows (matG p dw) 0 din i)) = batch p dw src din := by
  apply Nat.eq_of_testBit_eq; intro i
  rw [testBit_ofFn]
  by_cases hi : i < p.width
  · have hF := linear_rows (fun v => batch p dw v 0)
      (fun a b => by simpa using batch_xor p dw a b 0 0) src i p.width
    have hG := linear_rows (fun x => batch p dw 0 x)
      (fun a b => by simpa using batch_xor p dw 0 0 a b) din i dw
    simp only [Nat.mod_eq_of_lt hs] at hF
    rw [matF_eq hv, matG_eq hv, ← hF, ← hG, ← Nat.testBit_xor]
    have := batch_xor p dw src 0 0 (din % 2 ^ dw)
    simp only [Nat.xor_zero, Nat.zero_xor] at this
    rw [← this]
    simp [hi, batch, msbFirst_mod]
  · have : (batch p dw src din).testBit i = false :=
      testBit_of_lt (feed_lt hv.2.1 hs _) (by omega)
    simp [hi, this]

/-- a valid cycle: the register (or the initial value, on `start`) takes in the data word -/
theorem hwStep_valid {p : Params} (hv : p.Valid) (dw : Nat) {reg : Nat} (hr : reg < 2 ^ p.width)
    (start : Bool) (data : Nat) :
    hwStep (Processor.create p dw) reg start true data
      = feed p.width p.poly (if start then p.init else reg) (wordBits p dw data) := by
  have hs : (if start then p.init else reg) < 2 ^ p.width := by
    cases start
    · simpa using hr
    · simpa using hv.2.2.1
  simp only [hwStep, Processor.create, if_true]
  rw [network_eq hv dw hs]
  unfold wordBits batch
  by_cases hri : p.refin = true
  · simp [hri, rev_eq_reflect, msbFirst_reflect]
  · simp [hri]

theorem register_snoc (p : Params) (dw : Nat) (ws : List Nat) (x : Nat) :
    register p dw (ws ++ [x]) = feed p.width p.poly (register p dw ws) (wordBits p dw x) := by
  simp [register, stream, List.flatMap_append, List.foldl_append, wordBits]

theorem hwRun_eq_register {p : Params} (hv : p.Valid) (dw : Nat) (cycles : List Cycle) :
    hwRun (Processor.create p dw) cycles = register p dw (wordsSince cycles) := by
  unfold hwRun wordsSince
  have gen : ∀ (cs : List Cycle) (reg : Nat) (ws : List Nat), reg = register p dw ws →
      cs.foldl (fun reg c => hwStep (Processor.create p dw) reg c.start c.valid c.data) reg
        = register p dw (cs.foldl (fun ws c =>
            let ws := if c.start then [] else ws
            if c.valid then ws ++ [c.data] else ws) ws) := by
    intro cs
    induction cs with
    | nil => intro reg ws h; simpa using h
    | cons c cs ih =>
      intro reg ws h
      simp only [List.foldl_cons]
      apply ih
      have hr : reg < 2 ^ p.width := h ▸ register_lt hv dw ws
      cases hval : c.valid
      · cases hst : c.start
        · simp [hwStep, h]
        · simp [hwStep, Processor.create, register, stream]
      · rw [hwStep_valid hv dw hr]
        cases hst : c.start
        · simp [register_snoc, h]
        · simp [register, stream, wordBits]
  exact gen cycles p.init [] (by simp [register, stream])

theorem wordsSince_mem (cycles : List Cycle) : ∀ x ∈ wordsSince cycles, ∃ c ∈ cycles, c.valid = true ∧ x = c.data := by
  unfold wordsSince
  have gen : ∀ (cs : List Cycle) (ws : List Nat) (P : Nat → Prop), (∀ x ∈ ws, P x) →
      (∀ c ∈ cs, c.valid = true → P c.data) →
      ∀ x ∈ cs.foldl (fun ws c =>
            let ws := if c.start then [] else ws
            if c.valid then ws ++ [c.data] else ws) ws, P x := by
    intro cs
    induction cs with
    | nil => intro ws P h _; simpa using h
    | cons c cs ih =>
      intro ws P h hc
      simp only [List.foldl_cons]
      apply ih
      · intro x hx
        cases hval : c.valid <;> cases hst : c.start <;> simp [hval, hst] at hx
        · exact h x hx
        · rcases hx with hx | hx
          · exact h x hx
          · subst hx; exact hc c (by simp) hval
        · subst hx; exact hc c (by simp) hval
      · intro c' hc'; exact hc c' (by simp [hc'])
  exact gen cycles [] (fun x => ∃ c ∈ cycles, c.valid = true ∧ x = c.data) (by simp)
    (fun c hc hv => ⟨c, hc, hv, rfl⟩)

end Amaranth.Crc
