import AmaranthVerif.Proofs.DomainRefineBits

/-!
# C03: the Model's wrappers refine the Spec's wrappers

The Model treats a leaf of a `SpecDesign` (a program in a domain under a stack of wrappers, innermost first) the way the
code does: lower the program to `Switch` statements, rewrite the statements once per wrapper (`resetInserter`,
`enableInserter`, `domainRenamer` — `hdl/_xfrm.py`), run the resulting process, commit through its static masks.
The Spec (`Spec/DomainSpec.lean`) reads the wrappers semantically, inside out, per driven bit (`Leaf.edgeValue`).

`wrap_fold` is the induction over the wrapper stack; its invariant relates the Model's statements so far `s` with the
Spec's value so far `v`: the statements drive what the lowered program drives (`StatInv`), and running them on the
current values gives, on every driven bit, the bit of `v` (`DynInv`).
-/

namespace Amaranth

/-! ## The Model's reading of a `SpecDesign` (what `Driver/DomainIO.lean` builds as `model=`) -/

/-- the Model's treatment of one wrapper -/
def applyWrapper (B : Design) (p : Proc) : Wrapper → Proc
  | .reset d c => resetInserter B d c p
  | .enable d c => enableInserter B d c p
  | .rename s t => domainRenamer s t p

/-- the design's tables without processes -/
def SpecDesign.base (D : SpecDesign) : Design :=
  { ctx := D.ctx, inits := D.inits, resetLess := D.resetLess, doms := D.doms, procs := [] }

/-- the Model's process of a leaf: the lowered program, rewritten by the wrappers in stack order -/
def leafProc (D : SpecDesign) (l : Leaf) : Proc :=
  l.wrappers.foldl (applyWrapper D.base) { dom := l.dom, body := lowerList D.ctx l.prog }

/-- the Model's design: one process per leaf -/
def SpecDesign.model (D : SpecDesign) : Design :=
  { ctx := D.ctx, inits := D.inits, resetLess := D.resetLess, doms := D.doms, procs := D.leaves.map (leafProc D) }

/-! ## The Spec's event, named piece by piece (`specEvent_eq`: these *are* the pieces of `specEvent`) -/

/-- one wrapper acting on (current domain, value so far): the step of `Leaf.edgeValue` -/
def specWrap (D : SpecDesign) (prog : List Prog) (cur : Env) (st : Option Nat × Env) (w : Wrapper) : Option Nat × Env :=
  let (d, v) := st
  match w with
  | .rename s t => (if d == some s then some t else d, v)
  | .reset dom ctl =>
    if d == some dom && decide (denote D.ctx cur ctl = 1) then
      (d, mergeDriven D.ctx prog (fun i => !(D.resetLess.getD i false)) D.inits v)
    else (d, v)
  | .enable dom ctl =>
    if d == some dom && !decide (denote D.ctx cur ctl = 1) then
      (d, mergeDriven D.ctx prog (fun _ => true) cur v)
    else (d, v)

theorem edgeValue_eq (D : SpecDesign) (l : Leaf) (cur : Env) :
    l.edgeValue D cur = (l.wrappers.foldl (specWrap D l.prog cur) (l.dom, progStep D.ctx l.prog cur cur)).2 := rfl

/-- what one leaf contributes to the synchronous phase of `specEvent` -/
def specLeafSync (D : SpecDesign) (cur cur' : Env) (acc : Env) (l : Leaf) : Env :=
  match l.finalDom with
  | none => acc
  | some d =>
    let cfg := D.doms.getD d default
    let clkEdge := edgeFired cur cur' cfg.clk (if cfg.posedge then 1 else 0)
    let rstVal : Int := match cfg.rst with | some r => cur'.val r | none => 0
    let rstRise := cfg.async && (match cfg.rst with | some r => edgeFired cur cur' r 1 | none => false)
    if clkEdge then
      let v := l.edgeValue D cur'
      let v := if rstVal % 2 = 1 then mergeDriven D.ctx l.prog (fun i => !(D.resetLess.getD i false)) D.inits v else v
      mergeDriven D.ctx l.prog (fun _ => true) v acc
    else if rstRise then
      mergeDriven D.ctx l.prog (fun i => !(D.resetLess.getD i false)) D.inits acc
    else acc

/-- the synchronous phase of `specEvent` -/
def specSyncPhase (D : SpecDesign) (cur cur' : Env) : Env :=
  D.leaves.foldl (specLeafSync D cur cur') cur'

/-- one round of the combinational leaves of `specEvent` -/
def specCombOnce (D : SpecDesign) (snap : Env) : Env :=
  D.leaves.foldl (fun acc l => match l.finalDom with
    | none => mergeDriven D.ctx l.prog (fun _ => true) (progStep D.ctx l.prog snap D.inits) acc
    | some _ => acc) snap

/-- `specEvent` is: apply the changes, the synchronous phase, then the combinational leaves settle -/
theorem specEvent_eq (D : SpecDesign) (cur : Env) (changes : List (Nat × Int)) :
    specEvent D cur changes =
      specEvent.settle (specCombOnce D) (D.leaves.length + 2)
        (specCombOnce D (specSyncPhase D cur (applyChanges cur changes))) := rfl

/-! ## Well-formedness of a leaf -/

def Wrapper.ctlWf (ctx : Ctx) : Wrapper → Bool
  | .reset _ c => c.wf ctx
  | .enable _ c => c.wf ctx
  | .rename _ _ => true

/-- what the refinement needs of a leaf in state `cur'` -/
structure LeafOk (D : SpecDesign) (cur' : Env) (l : Leaf) : Prop where
  /-- the program is what the DSL accepts (well-formed conditions, tests, right-hand sides, patterns) -/
  prog : Prog.listOk D.ctx l.prog = true
  /-- targets are assignable and no slice/part-select operand addresses one signal bit twice (finding F9) -/
  tgt : ∀ e ∈ Prog.listTargets l.prog, e.twf D.ctx = true ∧ e.noAlias D.ctx cur'
  /-- the controls of the inserters are well-formed expressions -/
  ctl : ∀ w ∈ l.wrappers, w.ctlWf D.ctx = true

/-! ## The induction over the wrapper stack -/

/-- static half of the invariant: the statements so far drive exactly what the lowered program drives -/
structure StatInv (ctx : Ctx) (M0 : MaskTab) (sigs0 : List Nat) (s : Stmt) : Prop where
  twf : ∀ e ∈ stmtTargets s, e.twf ctx = true
  mask : stmtMask ctx s (List.replicate ctx.length 0) = M0
  sigs : ∀ i, (stmtSigs s).contains i = sigs0.contains i

/-- dynamic half: running the statements so far on the current values gives the Spec's value on every driven bit -/
structure DynInv (ctx : Ctx) (cur : Env) (M0 : MaskTab) (s : Stmt) (v : Env) : Prop where
  vN : EnvN ctx v
  xN : EnvN ctx (execRtl ctx cur s cur)
  bits : ∀ i b, i < ctx.length → b < (ctx.shape i).width → ibit (M0.get i) b = true →
    bitAt (execRtl ctx cur s cur) i b = bitAt v i b

theorem wrapStat_step (B : Design) (M0 : MaskTab) (sigs0 : List Nat) (d : Option Nat) (s : Stmt)
    (h : StatInv B.ctx M0 sigs0 s) (w : Wrapper) :
    StatInv B.ctx M0 sigs0 (applyWrapper B { dom := d, body := s } w).body := by
  cases w with
  | rename src dst =>
    simp only [applyWrapper, domainRenamer]
    split <;> exact h
  | reset dom ctl =>
    simp only [applyWrapper, resetInserter]
    split
    · obtain ⟨k1, k2, k3⟩ := reset_wrap_keeps_drive B.ctx B.inits B.resetLess ctl (onePattern B.ctx ctl) s h.twf
      exact ⟨k3, k1.trans h.mask, fun i => (k2 i).trans (h.sigs i)⟩
    · exact h
  | enable dom ctl =>
    simp only [applyWrapper, enableInserter]
    split
    · refine ⟨?_, h.mask, ?_⟩
      · intro e he
        simp only [stmtTargets, List.append_nil] at he
        exact h.twf e he
      · intro i
        simp only [stmtSigs, List.append_nil]
        exact h.sigs i
    · exact h

section
variable (D : SpecDesign) (prog : List Prog) (cur : Env) (hok : EnvOk D.ctx cur) (hC : EnvN D.ctx cur)
  (hI : EnvN D.ctx D.inits) (M0 : MaskTab) (sigs0 : List Nat)
  (hdrv : ∀ i b, i < D.ctx.length → b < (D.ctx.shape i).width → ibit (M0.get i) b = progDrives D.ctx prog i b)
  (hsig : ∀ i b, ibit (M0.get i) b = true → sigs0.contains i = true)

include hok hC hI hdrv hsig in
theorem wrapDyn_step (d : Option Nat) (s : Stmt) (v : Env) (hs : StatInv D.ctx M0 sigs0 s)
    (hd : DynInv D.ctx cur M0 s v) (w : Wrapper) (hw : w.ctlWf D.ctx = true) :
    (applyWrapper D.base { dom := d, body := s } w).dom = (specWrap D prog cur (d, v) w).1 ∧
    DynInv D.ctx cur M0 (applyWrapper D.base { dom := d, body := s } w).body (specWrap D prog cur (d, v) w).2 := by
  have hwf : ∀ i, i < D.ctx.length → (D.ctx.shape i).WF := fun i hi => (hC.ok i hi).1
  cases w with
  | rename src dst =>
    simp only [applyWrapper, domainRenamer, specWrap]
    by_cases hdom : (d == some src) = true
    · simp only [hdom, if_true]; exact ⟨trivial, hd⟩
    · simp only [hdom, Bool.false_eq_true, if_false]; exact ⟨trivial, hd⟩
  | reset dom ctl =>
    simp only [Wrapper.ctlWf] at hw
    simp only [applyWrapper, resetInserter, specWrap]
    by_cases hdom : (d == some dom) = true
    · simp only [hdom, if_true, Bool.true_and]
      have hex : execRtl D.ctx cur (Stmt.seq s (.ite ctl (onePattern D.base.ctx ctl)
            (resetStmts D.base.ctx D.base.inits D.base.resetLess s) .skip)) cur =
          if decide (denote D.ctx cur ctl = 1) then
            execRtl D.ctx cur (resetStmts D.ctx D.inits D.resetLess s) (execRtl D.ctx cur s cur)
          else execRtl D.ctx cur s cur := by
        show (if matchesAny (onePattern D.ctx ctl) (mask (widthOf D.ctx ctl) (evalRtl D.ctx cur ctl)) = true then _ else _) = _
        rw [ctl_is_one D.ctx cur hok ctl hw]; rfl
      by_cases h1 : denote D.ctx cur ctl = 1
      · simp only [h1, decide_true, if_true] at hex ⊢
        obtain ⟨r1, r2⟩ := resetStmts_bits D.ctx cur hok D.inits hI D.resetLess s hs.twf _ hd.xN
        obtain ⟨m1, m2⟩ := mergeDriven_spec D.ctx hwf prog (fun i => !(D.resetLess.getD i false)) D.inits v
        refine ⟨trivial, ⟨m1, by rw [hex]; exact r1, fun i b hi hb hm => ?_⟩⟩
        rw [hex, r2 i b hi hb, m2 i b hi hb, hs.mask, hs.sigs i, hsig i b hm, hm, ← hdrv i b hi hb, hm,
            hd.bits i b hi hb hm]
        simp
      · simp only [h1, decide_false, Bool.false_eq_true, if_false] at hex ⊢
        exact ⟨trivial, ⟨hd.vN, by rw [hex]; exact hd.xN, fun i b hi hb hm => by rw [hex]; exact hd.bits i b hi hb hm⟩⟩
    · simp only [hdom, Bool.false_eq_true, if_false, Bool.false_and]; exact ⟨trivial, hd⟩
  | enable dom ctl =>
    simp only [Wrapper.ctlWf] at hw
    simp only [applyWrapper, enableInserter, specWrap]
    by_cases hdom : (d == some dom) = true
    · simp only [hdom, if_true, Bool.true_and]
      have hex : execRtl D.ctx cur (Stmt.ite ctl (onePattern D.base.ctx ctl) s .skip) cur =
          if decide (denote D.ctx cur ctl = 1) then execRtl D.ctx cur s cur else cur := by
        show (if matchesAny (onePattern D.ctx ctl) (mask (widthOf D.ctx ctl) (evalRtl D.ctx cur ctl)) = true then _ else _) = _
        rw [ctl_is_one D.ctx cur hok ctl hw]; rfl
      by_cases h1 : denote D.ctx cur ctl = 1
      · simp only [h1, decide_true, if_true, Bool.not_true, Bool.false_eq_true, if_false] at hex ⊢
        exact ⟨trivial, ⟨hd.vN, by rw [hex]; exact hd.xN, fun i b hi hb hm => by rw [hex]; exact hd.bits i b hi hb hm⟩⟩
      · simp only [h1, decide_false, Bool.false_eq_true, if_false, Bool.not_false, if_true] at hex ⊢
        obtain ⟨m1, m2⟩ := mergeDriven_spec D.ctx hwf prog (fun _ => true) cur v
        refine ⟨trivial, ⟨m1, by rw [hex]; exact hC, fun i b hi hb hm => ?_⟩⟩
        rw [hex, m2 i b hi hb, ← hdrv i b hi hb, hm]
        simp
    · simp only [hdom, Bool.false_eq_true, if_false, Bool.false_and]; exact ⟨trivial, hd⟩

include hok hC hI hdrv hsig in
/-- **The induction over the wrapper stack.** -/
theorem wrap_fold : ∀ (ws : List Wrapper), (∀ w ∈ ws, w.ctlWf D.ctx = true) → ∀ (d : Option Nat) (s : Stmt) (v : Env),
    StatInv D.ctx M0 sigs0 s → DynInv D.ctx cur M0 s v →
    (ws.foldl (applyWrapper D.base) { dom := d, body := s }).dom = (ws.foldl (specWrap D prog cur) (d, v)).1 ∧
    StatInv D.ctx M0 sigs0 (ws.foldl (applyWrapper D.base) { dom := d, body := s }).body ∧
    DynInv D.ctx cur M0 (ws.foldl (applyWrapper D.base) { dom := d, body := s }).body
      (ws.foldl (specWrap D prog cur) (d, v)).2 := by
  intro ws
  induction ws with
  | nil => intro _ d s v hs hd; exact ⟨rfl, hs, hd⟩
  | cons w ws ih =>
    intro hws d s v hs hd
    simp only [List.foldl_cons]
    have hs' := wrapStat_step D.base M0 sigs0 d s hs w
    obtain ⟨e1, hd'⟩ := wrapDyn_step D prog cur hok hC hI M0 sigs0 hdrv hsig d s v hs hd w (hws w (List.mem_cons_self ..))
    have := ih (fun w' hw' => hws w' (List.mem_cons_of_mem _ hw')) (applyWrapper D.base { dom := d, body := s } w).dom
      (applyWrapper D.base { dom := d, body := s } w).body (specWrap D prog cur (d, v) w).2 hs' hd'
    have e2 : specWrap D prog cur (d, v) w =
        ((applyWrapper D.base { dom := d, body := s } w).dom, (specWrap D prog cur (d, v) w).2) := by
      rw [e1]
    rw [e2]
    exact this

end

/-- the domain component of the Spec's fold is `Leaf.finalDom` -/
theorem specWrap_dom (D : SpecDesign) (prog : List Prog) (cur : Env) : ∀ (ws : List Wrapper) (d : Option Nat) (v : Env),
    (ws.foldl (specWrap D prog cur) (d, v)).1 =
      ws.foldl (fun d w => match w with
        | .rename s t => if d == some s then some t else d
        | _ => d) d := by
  intro ws
  induction ws with
  | nil => intro d v; rfl
  | cons w ws ih =>
    intro d v
    simp only [List.foldl_cons]
    cases w with
    | rename s t => exact ih _ _
    | reset dom ctl =>
      simp only [specWrap]
      split <;> exact ih _ _
    | enable dom ctl =>
      simp only [specWrap]
      split <;> exact ih _ _

/-! ## One leaf -/

section
variable (D : SpecDesign) (l : Leaf) (cur' : Env) (hok : EnvOk D.ctx cur') (hC : EnvN D.ctx cur')
  (hI : EnvN D.ctx D.inits) (hl : LeafOk D cur' l)

include hok hC hI hl in
/-- what the induction gives for a leaf: the Model's process sits in the Spec's final domain, drives what the program
drives, and its statements compute `Leaf.edgeValue` on the driven bits -/
theorem leaf_inv :
    (leafProc D l).dom = l.finalDom ∧
    StatInv D.ctx (progMask D.ctx l.prog) (stmtSigs (lowerList D.ctx l.prog)) (leafProc D l).body ∧
    DynInv D.ctx cur' (progMask D.ctx l.prog) (leafProc D l).body (l.edgeValue D cur') := by
  have htw : ∀ e ∈ Prog.listTargets l.prog, e.twf D.ctx = true := fun e he => (hl.tgt e he).1
  obtain ⟨x1, x2⟩ := exec_eq_progStep D.ctx cur' hok hC l.prog hl.prog hl.tgt
  have hs0 : StatInv D.ctx (progMask D.ctx l.prog) (stmtSigs (lowerList D.ctx l.prog)) (lowerList D.ctx l.prog) :=
    ⟨by rw [lowerList_targets]; exact htw, rfl, fun _ => rfl⟩
  have hd0 : DynInv D.ctx cur' (progMask D.ctx l.prog) (lowerList D.ctx l.prog) (progStep D.ctx l.prog cur' cur') :=
    ⟨x2, by rw [x1]; exact x2, fun i b _ _ _ => by rw [x1]⟩
  obtain ⟨e1, e2, e3⟩ := wrap_fold D l.prog cur' hok hC hI (progMask D.ctx l.prog) (stmtSigs (lowerList D.ctx l.prog))
    (fun i b hi hb => progMask_drives D.ctx l.prog htw i b)
    (fun i b hm => mask_bit_sig D.ctx (lowerList D.ctx l.prog) i b hm)
    l.wrappers hl.ctl l.dom (lowerList D.ctx l.prog) (progStep D.ctx l.prog cur' cur') hs0 hd0
  refine ⟨?_, e2, ?_⟩
  · show (l.wrappers.foldl (applyWrapper D.base) _).dom = _
    rw [e1, specWrap_dom]; rfl
  · rw [edgeValue_eq]; exact e3

include hok hC hI hl in
/-- **Active clock edge**: the Model's process of the leaf, run with the domain's reset value `rst` and committed into
`acc` through its static masks, is the Spec's merge of `Leaf.edgeValue` (then the domain reset) into `acc`. -/
theorem leaf_edge_refines (rst : Option Int) (acc : Env) (hA : EnvN D.ctx acc) :
    commitInto D.ctx (leafProc D l).body (syncNext D.ctx D.inits D.resetLess rst (leafProc D l).body cur') acc =
      mergeDriven D.ctx l.prog (fun _ => true)
        (if rst.getD 0 % 2 = 1 then
          mergeDriven D.ctx l.prog (fun i => !(D.resetLess.getD i false)) D.inits (l.edgeValue D cur')
         else l.edgeValue D cur') acc := by
  have hwf : ∀ i, i < D.ctx.length → (D.ctx.shape i).WF := fun i hi => (hC.ok i hi).1
  have htw : ∀ e ∈ Prog.listTargets l.prog, e.twf D.ctx = true := fun e he => (hl.tgt e he).1
  obtain ⟨_, hs, hd⟩ := leaf_inv D l cur' hok hC hI hl
  obtain ⟨n1, n2⟩ := syncNext_bits D.ctx D.inits hI D.resetLess rst (leafProc D l).body cur' hd.xN
  obtain ⟨c1, c2⟩ := commitInto_bits D.ctx (leafProc D l).body _ acc n1 hA
  obtain ⟨r1, r2⟩ := mergeDriven_spec D.ctx hwf l.prog (fun i => !(D.resetLess.getD i false)) D.inits (l.edgeValue D cur')
  have hvN : EnvN D.ctx (if rst.getD 0 % 2 = 1 then
      mergeDriven D.ctx l.prog (fun i => !(D.resetLess.getD i false)) D.inits (l.edgeValue D cur')
      else l.edgeValue D cur') := by
    split
    · exact r1
    · exact hd.vN
  obtain ⟨m1, m2⟩ := mergeDriven_spec D.ctx hwf l.prog (fun _ => true) _ acc
  apply env_ext c1 m1
  intro i b hi hb
  rw [c2 i b hi hb, m2 i b hi hb, hs.mask, progMask_drives D.ctx l.prog htw i b]
  cases hdr : progDrives D.ctx l.prog i b with
  | false => simp
  | true =>
    have hm : ibit ((progMask D.ctx l.prog).get i) b = true := by
      rw [progMask_drives D.ctx l.prog htw i b]; exact hdr
    simp only [Bool.and_true, if_true]
    rw [n2 i b hi hb, hs.sigs i, mask_bit_sig D.ctx _ i b hm, hd.bits i b hi hb hm]
    by_cases hr : rst.getD 0 % 2 = 1
    · simp only [hr, decide_true, Bool.true_and, if_true]
      rw [r2 i b hi hb, hdr]
      simp
    · simp [hr]

include hok hC hI hl in
/-- **Asynchronous reset rising**: the Model's reset-only process of the leaf is the Spec's merge of the initial values
into the driven bits of the non-reset-less signals. -/
theorem leaf_arst_refines (acc : Env) (hA : EnvN D.ctx acc) :
    resetOnlyInto D.ctx D.inits D.resetLess (leafProc D l).body acc =
      mergeDriven D.ctx l.prog (fun i => !(D.resetLess.getD i false)) D.inits acc := by
  have hwf : ∀ i, i < D.ctx.length → (D.ctx.shape i).WF := fun i hi => (hC.ok i hi).1
  have htw : ∀ e ∈ Prog.listTargets l.prog, e.twf D.ctx = true := fun e he => (hl.tgt e he).1
  obtain ⟨_, hs, _⟩ := leaf_inv D l cur' hok hC hI hl
  obtain ⟨a1, a2⟩ := resetOnlyInto_bits D.ctx D.inits hI D.resetLess (leafProc D l).body acc hA
  obtain ⟨m1, m2⟩ := mergeDriven_spec D.ctx hwf l.prog (fun i => !(D.resetLess.getD i false)) D.inits acc
  apply env_ext a1 m1
  intro i b hi hb
  rw [a2 i b hi hb, m2 i b hi hb, hs.mask, hs.sigs i, progMask_drives D.ctx l.prog htw i b]
  cases hdr : progDrives D.ctx l.prog i b with
  | false => simp
  | true =>
    have hm : ibit ((progMask D.ctx l.prog).get i) b = true := by
      rw [progMask_drives D.ctx l.prog htw i b]; exact hdr
    rw [mask_bit_sig D.ctx _ i b hm]
    simp

include hok hC hI hl in
/-- **One leaf at an event**: what the Model's process of the leaf does at the event `cur → cur'` (its statements at an
active clock edge, its reset-only process at a rising asynchronous reset) is what the leaf contributes to the
synchronous phase of `specEvent`. -/
theorem leaf_event_refines (cur : Env) (acc : Env) (hA : EnvN D.ctx acc) :
    procAtEvent D.model cur cur' (leafProc D l) acc = specLeafSync D cur cur' acc l ∧
    EnvN D.ctx (specLeafSync D cur cur' acc l) := by
  have hwf : ∀ i, i < D.ctx.length → (D.ctx.shape i).WF := fun i hi => (hC.ok i hi).1
  obtain ⟨hdom, _, hd⟩ := leaf_inv D l cur' hok hC hI hl
  unfold procAtEvent specLeafSync
  rw [hdom]
  cases hfd : l.finalDom with
  | none => exact ⟨rfl, hA⟩
  | some d =>
    simp only
    show (if (DomCfg.rstFired (D.doms.getD d default) cur cur') = true then
        resetOnlyInto D.ctx D.inits D.resetLess (leafProc D l).body
          (if (DomCfg.clkFired (D.doms.getD d default) cur cur') = true then
            commitInto D.ctx (leafProc D l).body (syncNext D.ctx D.inits D.resetLess
              (Option.map (fun r => cur'.val r) (D.doms.getD d default).rst) (leafProc D l).body cur') acc else acc)
        else (if (DomCfg.clkFired (D.doms.getD d default) cur cur') = true then
            commitInto D.ctx (leafProc D l).body (syncNext D.ctx D.inits D.resetLess
              (Option.map (fun r => cur'.val r) (D.doms.getD d default).rst) (leafProc D l).body cur') acc else acc)) = _ ∧ _
    generalize hcfg : D.doms.getD d default = cfg
    have hrv : (match cfg.rst with | some r => cur'.val r | none => (0 : Int)) =
        (Option.map (fun r => cur'.val r) cfg.rst).getD 0 := by
      cases cfg.rst <;> rfl
    have hclk : edgeFired cur cur' cfg.clk (if cfg.posedge then 1 else 0) = cfg.clkFired cur cur' := rfl
    have hrst : (cfg.async && (match cfg.rst with | some r => edgeFired cur cur' r 1 | none => false)) =
        cfg.rstFired cur cur' := rfl
    rw [hrv, hclk, hrst]
    have hedge := leaf_edge_refines D l cur' hok hC hI hl (Option.map (fun r => cur'.val r) cfg.rst) acc hA
    obtain ⟨r1, r2⟩ := mergeDriven_spec D.ctx hwf l.prog (fun i => !(D.resetLess.getD i false)) D.inits (l.edgeValue D cur')
    have hvN : EnvN D.ctx (if (Option.map (fun r => cur'.val r) cfg.rst).getD 0 % 2 = 1 then
        mergeDriven D.ctx l.prog (fun i => !(D.resetLess.getD i false)) D.inits (l.edgeValue D cur')
        else l.edgeValue D cur') := by
      split
      · exact r1
      · exact hd.vN
    cases hc : cfg.clkFired cur cur' with
    | false =>
      simp only [Bool.false_eq_true, if_false]
      cases hr : cfg.rstFired cur cur' with
      | false => exact ⟨rfl, hA⟩
      | true =>
        simp only [if_true]
        exact ⟨leaf_arst_refines D l cur' hok hC hI hl acc hA, (mergeDriven_spec D.ctx hwf _ _ _ _).1⟩
    | true =>
      simp only [if_true]
      rw [hedge]
      obtain ⟨m1, m2⟩ := mergeDriven_spec D.ctx hwf l.prog (fun _ => true)
        (if (Option.map (fun r => cur'.val r) cfg.rst).getD 0 % 2 = 1 then
          mergeDriven D.ctx l.prog (fun i => !(D.resetLess.getD i false)) D.inits (l.edgeValue D cur')
          else l.edgeValue D cur') acc
      refine ⟨?_, m1⟩
      cases hr : cfg.rstFired cur cur' with
      | false => rfl
      | true =>
        simp only [if_true]
        -- the reset rises in the same event as the active edge: the reset value is 1, the edge already loaded the
        -- initial values, the reset-only process loads them again
        have hone : (Option.map (fun r => cur'.val r) cfg.rst).getD 0 = 1 := by
          unfold DomCfg.rstFired at hr
          cases hrs : cfg.rst with
          | none => rw [hrs] at hr; simp at hr
          | some r =>
            rw [hrs] at hr
            simp only [edgeFired, Bool.and_eq_true, beq_iff_eq] at hr
            simp only [Option.map_some, Option.getD_some]
            exact hr.2.2
        rw [leaf_arst_refines D l cur' hok hC hI hl _ m1]
        obtain ⟨q1, q2⟩ := mergeDriven_spec D.ctx hwf l.prog (fun i => !(D.resetLess.getD i false)) D.inits
          (mergeDriven D.ctx l.prog (fun _ => true)
            (if (Option.map (fun r => cur'.val r) cfg.rst).getD 0 % 2 = 1 then
              mergeDriven D.ctx l.prog (fun i => !(D.resetLess.getD i false)) D.inits (l.edgeValue D cur')
              else l.edgeValue D cur') acc)
        apply env_ext q1 m1
        intro i b hi hb
        rw [q2 i b hi hb, m2 i b hi hb]
        have h11 : ((1 : Int) % 2 = 1) := by decide
        simp only [hone, h11, if_true]
        rw [r2 i b hi hb]
        cases progDrives D.ctx l.prog i b <;> cases D.resetLess.getD i false <;> simp

end

/-! ## The synchronous phase of a whole event -/

/-- **Model = Spec on the synchronous phase.** For every design whose leaves are well-formed, every state and every
event (any set of coinciding clock edges and reset rises), the Model's synchronous phase — per leaf: lowered program,
the inserter rewritings of `_xfrm.py` in stack order, one run of the process, commit through the static masks — is the
synchronous phase of `specEvent`. No disjointness of drivers is needed: both sides merge a leaf's driven bits into what
the leaves before it left. -/
theorem sync_phase_refines (D : SpecDesign) (cur cur' : Env) (hok : EnvOk D.ctx cur') (hC : EnvN D.ctx cur')
    (hI : EnvN D.ctx D.inits) (hl : ∀ l ∈ D.leaves, LeafOk D cur' l) :
    syncPhase D.model cur cur' = specSyncPhase D cur cur' := by
  unfold syncPhase specSyncPhase
  show (D.leaves.map (leafProc D)).foldl (fun acc p => procAtEvent D.model cur cur' p acc) cur' = _
  rw [List.foldl_map]
  suffices h : ∀ (ls : List Leaf) (acc : Env), (∀ l ∈ ls, LeafOk D cur' l) → EnvN D.ctx acc →
      ls.foldl (fun acc l => procAtEvent D.model cur cur' (leafProc D l) acc) acc =
        ls.foldl (specLeafSync D cur cur') acc from h D.leaves cur' hl hC
  intro ls
  induction ls with
  | nil => intro acc _ _; rfl
  | cons l ls ih =>
    intro acc hls hA
    simp only [List.foldl_cons]
    obtain ⟨e1, e2⟩ := leaf_event_refines D l cur' hok hC hI (hls l (List.mem_cons_self ..)) cur acc hA
    rw [e1]
    exact ih _ (fun l' hl' => hls l' (List.mem_cons_of_mem _ hl')) e2

end Amaranth
