import AmaranthVerif.Proofs.FormatParse

/-!
# Every string of the documented grammar is accepted

The character classes of the parts of the grammar are pairwise disjoint (`cls`), so each stage of the
recogniser finds its own part and nothing else.
-/

namespace Amaranth
namespace Fmt

/-- which part of the grammar (after `[[fill]align]`) a character can begin: 1 sign, 2 `#`, 3 `0`,
4 width, 5 grouping, 6 type; 7 for every other character -/
def cls (c : Char) : Nat :=
  if (signOf? c).isSome then 1 else if c = '#' then 2 else if c = '0' then 3
  else if isDigit19 c then 4 else if (grpOf? c).isSome then 5 else if (tyOf? c).isSome then 6 else 7

def lead : List Char → Nat
  | [] => 8
  | c :: _ => cls c

theorem lead_append (a b : List Char) : lead (a ++ b) = if a = [] then lead b else lead a := by
  cases a <;> simp [lead]

theorem cls_sign (s : Sign) : cls s.char = 1 := by cases s <;> decide
theorem cls_hash : cls '#' = 2 := by decide
theorem cls_zero : cls '0' = 3 := by decide
theorem cls_grp (g : Grp) : cls g.char = 5 := by cases g <;> decide
theorem cls_ty (t : Ty) : cls t.char = 6 := by cases t <;> decide

theorem digit19_ne {c : Char} (h : isDigit19 c = true) (x : Char) (hx : isDigit19 x = false) : c ≠ x := by
  intro hc; subst hc; rw [h] at hx; cases hx

theorem cls_digit19 {c : Char} (h : isDigit19 c = true) : cls c = 4 := by
  have h1 : signOf? c = none := by
    unfold signOf?
    rw [if_neg (digit19_ne h '-' (by decide)), if_neg (digit19_ne h '+' (by decide)),
        if_neg (digit19_ne h ' ' (by decide))]
  unfold cls
  simp [h1, digit19_ne h '#' (by decide), digit19_ne h '0' (by decide), h]

theorem isDigit_cases {c : Char} (h : isDigit c = true) : c = '0' ∨ isDigit19 c = true := by
  unfold isDigit at h; unfold isDigit19
  simp only [Bool.and_eq_true, decide_eq_true_eq] at *
  by_cases h0 : c = '0'
  · left; exact h0
  · right
    refine ⟨?_, h.2⟩
    have h1 := h.1
    rw [Char.le_def] at h1 ⊢
    have : c.val ≠ ('0' : Char).val := fun hv => h0 (Char.ext hv)
    simp only [Char.reduceVal] at *
    rw [UInt32.le_iff_toNat_le] at *
    have : c.val.toNat ≠ (48 : UInt32).toNat := fun hv => this (UInt32.toNat_inj.mp hv)
    simp at *
    omega

theorem cls_digit {c : Char} (h : isDigit c = true) : cls c ≤ 4 := by
  rcases isDigit_cases h with rfl | h
  · decide
  · rw [cls_digit19 h]; omega

theorem cls_le_of_sign {c : Char} (h : (signOf? c).isSome = true) : cls c = 1 := by
  unfold cls; simp [h]

/-! ## the stages find their own part -/

theorem signOf?_char_self (s : Sign) : signOf? s.char = some s := by cases s <;> decide
theorem grpOf?_char_self (g : Grp) : grpOf? g.char = some g := by cases g <;> decide
theorem tyOf?_char_self (t : Ty) : tyOf? t.char = some t := by cases t <;> decide
theorem alignOf?_char_self (a : Align) : alignOf? a.char = some a := by cases a <;> decide

theorem stage_sign (sg : Option Sign) (rest : List Char) (h : 1 < lead rest) :
    optHead signOf? ((sg.map Sign.char).toList ++ rest) = (sg, rest) := by
  cases sg with
  | some s => simp [optHead, signOf?_char_self]
  | none =>
    cases rest with
    | nil => rfl
    | cons c r =>
      simp only [lead] at h
      have : signOf? c = none := by
        cases hs : signOf? c with
        | none => rfl
        | some s => have := cls_le_of_sign (c := c) (by simp [hs]); omega
      simp [optHead, this]

theorem stage_flag (ch : Char) (k : Nat) (hk : cls ch = k) (b : Bool) (rest : List Char) (h : k < lead rest) :
    flag ch ((if b then [ch] else []) ++ rest) = (b, rest) := by
  cases b with
  | true => simp [flag]
  | false =>
    cases rest with
    | nil => rfl
    | cons c r =>
      simp only [lead] at h
      have : c ≠ ch := by intro hc; subst hc; omega
      simp [flag, this]

theorem takeWhile_digits (ds rest : List Char) (hd : ds.all isDigit = true) (h : 4 < lead rest) :
    (ds ++ rest).takeWhile isDigit = ds ∧ (ds ++ rest).dropWhile isDigit = rest := by
  induction ds with
  | nil =>
    cases rest with
    | nil => simp
    | cons c r =>
      simp only [lead] at h
      have : isDigit c = false := by
        cases hc : isDigit c with
        | false => rfl
        | true => have := cls_digit hc; omega
      simp [this]
  | cons d ds ih =>
    simp only [List.all_cons, Bool.and_eq_true] at hd
    obtain ⟨i1, i2⟩ := ih hd.2
    simp [hd.1, i1, i2]

theorem stage_width (wd rest : List Char) (hw : WidthStr wd) (h : 4 < lead rest) :
    takeWidth (wd ++ rest) = (wd, rest) := by
  rcases hw with rfl | ⟨d, ds, rfl, hd, hds⟩
  · cases rest with
    | nil => rfl
    | cons c r =>
      simp only [lead] at h
      have : isDigit19 c = false := by
        cases hc : isDigit19 c with
        | false => rfl
        | true => have := cls_digit19 hc; omega
      simp [takeWidth, this]
  · have hall : (d :: ds).all isDigit = true := by simp [isDigit_of_19 hd, hds]
    obtain ⟨i1, i2⟩ := takeWhile_digits (d :: ds) rest hall h
    simp only [List.cons_append] at i1 i2
    simp only [List.cons_append, takeWidth, hd, if_true, i1, i2]

theorem stage_grp (g : Option Grp) (rest : List Char) (h : 5 < lead rest) :
    optHead grpOf? ((g.map Grp.char).toList ++ rest) = (g, rest) := by
  cases g with
  | some s => simp [optHead, grpOf?_char_self]
  | none =>
    cases rest with
    | nil => rfl
    | cons c r =>
      simp only [lead] at h
      have : grpOf? c = none := by
        cases hs : grpOf? c with
        | none => rfl
        | some s =>
          have : cls c ≤ 5 := by
            unfold cls; simp only [hs, Option.isSome_some, if_true]
            split; · omega
            split; · omega
            split; · omega
            split <;> omega
          omega
      simp [optHead, this]

theorem stage_ty (t : Option Ty) : optHead tyOf? ((t.map Ty.char).toList) = (t, []) := by
  cases t with
  | some t' => simp [optHead, tyOf?_char_self]
  | none => rfl

/-! ## where each suffix of the tail starts -/

def text6 (sp : Spec) : List Char := (sp.ty.map Ty.char).toList
def text5 (sp : Spec) : List Char := (sp.group.map Grp.char).toList ++ text6 sp
def text4 (sp : Spec) (wd : List Char) : List Char := wd ++ text5 sp
def text3 (sp : Spec) (wd : List Char) : List Char := (if sp.zero then ['0'] else []) ++ text4 sp wd
def text2 (sp : Spec) (wd : List Char) : List Char := (if sp.alt then ['#'] else []) ++ text3 sp wd

theorem tailText_eq (sp : Spec) (wd : List Char) :
    tailText sp wd = (sp.sign.map Sign.char).toList ++ text2 sp wd := by
  simp [tailText, text2, text3, text4, text5, text6, List.append_assoc]

theorem lead6 (sp : Spec) : 6 ≤ lead (text6 sp) := by
  unfold text6
  cases sp.ty with
  | none => simp [lead]
  | some t => simp [lead, cls_ty]

theorem lead5 (sp : Spec) : 5 ≤ lead (text5 sp) := by
  unfold text5
  rw [lead_append]
  cases sp.group with
  | none => have := lead6 sp; simp; omega
  | some g => simp [lead, cls_grp]

theorem lead4 (sp : Spec) (wd : List Char) (hw : WidthStr wd) : 4 ≤ lead (text4 sp wd) := by
  unfold text4
  rw [lead_append]
  rcases hw with rfl | ⟨d, ds, rfl, hd, _⟩
  · have := lead5 sp; simp; omega
  · simp [lead, cls_digit19 hd]

theorem lead3 (sp : Spec) (wd : List Char) (hw : WidthStr wd) : 3 ≤ lead (text3 sp wd) := by
  unfold text3
  rw [lead_append]
  cases sp.zero with
  | false => have := lead4 sp wd hw; simp; omega
  | true => simp [lead, cls_zero]

theorem lead2 (sp : Spec) (wd : List Char) (hw : WidthStr wd) : 2 ≤ lead (text2 sp wd) := by
  unfold text2
  rw [lead_append]
  cases sp.alt with
  | false => have := lead3 sp wd hw; simp; omega
  | true => simp [lead, cls_hash]

/-- the recogniser finds every part of a well-formed tail -/
theorem parseTail_complete (sp : Spec) (wd : List Char) (hw : WidthStr wd)
    (hwd : sp.width = (if wd = [] then none else some (digitsVal wd))) :
    parseTail sp.fill sp.align (tailText sp wd) = some sp := by
  unfold parseTail
  simp only
  rw [tailText_eq, stage_sign _ _ (by have := lead2 sp wd hw; omega)]
  simp only
  unfold text2
  rw [stage_flag '#' 2 cls_hash _ _ (by have := lead3 sp wd hw; omega)]
  simp only
  unfold text3
  rw [stage_flag '0' 3 cls_zero _ _ (by have := lead4 sp wd hw; omega)]
  simp only
  unfold text4
  rw [stage_width wd _ hw (by have := lead5 sp; omega)]
  simp only
  unfold text5
  rw [stage_grp _ _ (by have := lead6 sp; omega)]
  simp only
  unfold text6
  rw [stage_ty]
  simp only [if_true, ← hwd]

/-! ## the `[[fill]align]` dispatch -/

theorem cls_align (a : Align) : cls a.char = 7 := by cases a <;> decide

theorem not_align_of_cls {c : Char} (h : cls c ≤ 6) : alignOf? c = none := by
  cases ha : alignOf? c with
  | none => rfl
  | some a =>
    have := alignOf?_char ha
    rw [← this, cls_align] at h
    omega

theorem cls_tail (sp : Spec) (wd : List Char) (hw : WidthStr wd) : ∀ c ∈ tailText sp wd, cls c ≤ 6 := by
  intro c hc
  unfold tailText at hc
  simp only [List.mem_append] at hc
  rcases hc with ((((hc | hc) | hc) | hc) | hc) | hc
  · cases hs : sp.sign with
    | none => simp [hs] at hc
    | some s => simp [hs] at hc; subst hc; rw [cls_sign]; omega
  · simp only [List.mem_ite_nil_right, List.mem_singleton] at hc
    obtain ⟨_, rfl⟩ := hc; decide
  · simp only [List.mem_ite_nil_right, List.mem_singleton] at hc
    obtain ⟨_, rfl⟩ := hc; decide
  · rcases hw with rfl | ⟨d, ds, rfl, hd, hds⟩
    · simp at hc
    · have hall : (d :: ds).all isDigit = true := by simp [isDigit_of_19 hd, hds]
      have := cls_digit (List.all_eq_true.mp hall c hc)
      omega
  · cases hs : sp.group with
    | none => simp [hs] at hc
    | some s => simp [hs] at hc; subst hc; rw [cls_grp]; omega
  · cases hs : sp.ty with
    | none => simp [hs] at hc
    | some t' => simp [hs] at hc; subst hc; rw [cls_ty]; omega

theorem parseSpecL_complete (sp : Spec) (wd : List Char) (hw : WidthStr wd)
    (hwd : sp.width = (if wd = [] then none else some (digitsVal wd)))
    (hfa : sp.fill.isSome → sp.align.isSome) (hnl : sp.fill ≠ some '\n') :
    parseSpecL (specText' sp wd) = some sp := by
  have hT := parseTail_complete sp wd hw hwd
  have hcls := cls_tail sp wd hw
  unfold specText'
  cases hf : sp.fill with
  | some f =>
    cases ha : sp.align with
    | none => rw [hf, ha] at hfa; simp at hfa
    | some a =>
      rw [hf, ha] at hT
      have hne : f ≠ '\n' := by intro h; subst h; exact hnl hf
      simp only [Option.toList_some, Option.map_some, List.cons_append, List.nil_append, parseSpecL,
        alignOf?_char_self, hne, if_false]
      exact hT
  | none =>
    cases ha : sp.align with
    | some a =>
      rw [hf, ha] at hT
      simp only [Option.toList_none, Option.map_some, Option.toList_some, List.nil_append, List.cons_append]
      cases hTT : tailText sp wd with
      | nil =>
        rw [hTT] at hT
        simp only [parseSpecL, alignOf?_char_self]
        exact hT
      | cons c r =>
        rw [hTT] at hT
        have hc : alignOf? c = none := not_align_of_cls (hcls c (by simp [hTT]))
        simp only [parseSpecL, hc, alignOf?_char_self]
        exact hT
    | none =>
      rw [hf, ha] at hT
      simp only [Option.toList_none, Option.map_none, List.nil_append]
      cases hTT : tailText sp wd with
      | nil => rw [hTT] at hT; simpa [parseSpecL] using hT
      | cons c r =>
        rw [hTT] at hT
        have hc : alignOf? c = none := not_align_of_cls (hcls c (by simp [hTT]))
        cases r with
        | nil => simp only [parseSpecL, hc]; exact hT
        | cons c2 r2 =>
          have hc2 : alignOf? c2 = none := not_align_of_cls (hcls c2 (by simp [hTT]))
          simp only [parseSpecL, hc, hc2]
          exact hT

/-! ## from the documented grammar to the recogniser -/

/-- the specification a string of the documented grammar denotes -/
def Parts.toSpec (p : Parts) : Spec :=
  { fill := p.fill, align := p.align.bind alignOf?, sign := p.sign.bind signOf?, alt := p.alt, zero := p.zero,
    width := if p.width = [] then none else some (digitsVal p.width),
    group := if p.group then some .under else none, ty := p.ty.bind tyOf? }

theorem parts_text (p : Parts) (hwf : p.WF) : specText' p.toSpec p.width = p.text := by
  unfold specText' tailText Parts.text Parts.toSpec
  simp only
  have ha : ((p.align.bind alignOf?).map Align.char).toList = p.align.toList := by
    cases h : p.align with
    | none => rfl
    | some a =>
      rcases hwf.align_ok a h with rfl | rfl | rfl <;> rfl
  have hs : ((p.sign.bind signOf?).map Sign.char).toList = p.sign.toList := by
    cases h : p.sign with
    | none => rfl
    | some a =>
      rcases hwf.sign_ok a h with rfl | rfl | rfl <;> rfl
  have ht : ((p.ty.bind tyOf?).map Ty.char).toList = p.ty.toList := by
    cases h : p.ty with
    | none => rfl
    | some a =>
      rcases hwf.ty_ok a h with rfl | rfl | rfl | rfl | rfl | rfl | rfl <;> rfl
  have hg : ((if p.group = true then some Grp.under else none).map Grp.char).toList =
      (if p.group = true then ['_'] else []) := by
    cases p.group <;> rfl
  rw [ha, hs, ht, hg]
  simp only [List.append_assoc]

/-- every string of the documented grammar (for a shape) is accepted by `Format` (for that shape) -/
theorem documented_accepts (s : List Char) (sh : Shape) (h : Documented s sh) : acceptsL s sh = true := by
  obtain ⟨p, hwf, hok, rfl⟩ := h
  have hparse : parseSpecL p.text = some p.toSpec := by
    rw [← parts_text p hwf]
    apply parseSpecL_complete
    · exact hwf.width_ok
    · rfl
    · intro hf
      have := hwf.fill_needs_align hf
      cases ha : p.align with
      | none => rw [ha] at this; cases this
      | some a =>
        rcases hwf.align_ok a ha with rfl | rfl | rfl <;> simp [Parts.toSpec, ha] <;> decide
    · exact hwf.fill_not_newline
  unfold acceptsL rejectL
  rw [hparse]
  simp only [Option.isNone_iff_eq_none]
  -- the extra rules
  have hal : p.toSpec.align ≠ some .center := by
    cases ha : p.align with
    | none => simp [Parts.toSpec, ha]
    | some a => rcases hwf.align_ok a ha with rfl | rfl | rfl <;> simp [Parts.toSpec, ha] <;> decide
  have hgr : p.toSpec.group ≠ some .comma := by
    cases hg : p.group <;> simp [Parts.toSpec, hg]
  have hty : ∀ t, p.toSpec.ty = some t → ∃ c, p.ty = some c ∧ tyOf? c = some t := by
    intro t ht
    cases hc : p.ty with
    | none => simp [Parts.toSpec, hc] at ht
    | some c => exact ⟨c, rfl, by simpa [Parts.toSpec, hc] using ht⟩
  have hn : p.toSpec.ty ≠ some .n := by
    intro ht
    obtain ⟨c, hc, hcn⟩ := hty _ ht
    rcases hwf.ty_ok c hc with rfl | rfl | rfl | rfl | rfl | rfl | rfl <;> revert hcn <;> decide
  unfold Spec.reject
  rw [if_neg hal, if_neg hgr, if_neg hn]
  by_cases hcs : p.toSpec.ty = some .c ∨ p.toSpec.ty = some .s
  · rw [if_pos hcs]
    have hcs' : p.ty = some 'c' ∨ p.ty = some 's' := by
      rcases hcs with ht | ht
      · obtain ⟨c, hc, hcn⟩ := hty _ ht
        left
        rcases hwf.ty_ok c hc with rfl | rfl | rfl | rfl | rfl | rfl | rfl <;> first | exact hc | (exfalso; revert hcn; decide)
      · obtain ⟨c, hc, hcn⟩ := hty _ ht
        right
        rcases hwf.ty_ok c hc with rfl | rfl | rfl | rfl | rfl | rfl | rfl <;> first | exact hc | (exfalso; revert hcn; decide)
    have hu := hok.cs_unsigned hcs'
    obtain ⟨h1, h2, h3, h4, h5⟩ := hok.cs_plain hcs'
    have e1 : p.toSpec.align ≠ some .eq := by
      cases ha : p.align with
      | none => simp [Parts.toSpec, ha]
      | some a =>
        rcases hwf.align_ok a ha with rfl | rfl | rfl
        · simp [Parts.toSpec, ha]; decide
        · simp [Parts.toSpec, ha]; decide
        · exact absurd ha h1
    have e2 : p.toSpec.sign.isSome = false := by simp [Parts.toSpec, h2]
    have e3 : p.toSpec.group.isSome = false := by simp [Parts.toSpec, h5]
    have e4 : p.toSpec.alt = false := h3
    have e5 : p.toSpec.zero = false := h4
    rw [if_neg (by simp [hu]), if_neg e1, if_neg (by simp [e4]), if_neg (by simp [e5]), if_neg (by simp [e2]),
        if_neg (by simp [e3])]
    by_cases hs : p.toSpec.ty = some .s
    · have hs' : p.ty = some 's' := by
        obtain ⟨c, hc, hcn⟩ := hty _ hs
        rcases hwf.ty_ok c hc with rfl | rfl | rfl | rfl | rfl | rfl | rfl <;> first | exact hc | (exfalso; revert hcn; decide)
      have := hok.s_bytes hs'
      rw [if_neg (by simp [this])]
    · rw [if_neg (by simp [hs])]
  · rw [if_neg hcs]

end Fmt
end Amaranth
