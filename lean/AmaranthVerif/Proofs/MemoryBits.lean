import AmaranthVerif.Model.Memory

/-!
# Bits of Python integers: `&`, `|`, `~`, masking, re-signing, the replicated enable
-/

namespace Amaranth.Mem

/-! ## Nat: `m - (m &&& n)` clears the bits of `n` -/

theorem and_mod_two (m n : Nat) : (m &&& n) % 2 = 1 ↔ (m % 2 = 1 ∧ n % 2 = 1) := by
  have h := Nat.testBit_and m n 0
  simp only [Nat.testBit_zero] at h
  have h2 : (decide ((m &&& n) % 2 = 1) = true) ↔ (m % 2 = 1 ∧ n % 2 = 1) := by rw [h]; simp
  rwa [decide_eq_true_iff] at h2

theorem testBit_sub_and (m n i : Nat) : (m - (m &&& n)).testBit i = (m.testBit i && !n.testBit i) := by
  induction i generalizing m n with
  | zero =>
    have hle : m &&& n ≤ m := Nat.and_le_left
    have hm := and_mod_two m n
    simp only [Nat.testBit_zero]
    by_cases h1 : m % 2 = 1 <;> by_cases h2 : n % 2 = 1
    · have : (m &&& n) % 2 = 1 := hm.2 ⟨h1, h2⟩
      simp [h1, h2]; omega
    · have : ¬ (m &&& n) % 2 = 1 := fun h => h2 (hm.1 h).2
      simp [h1, h2]; omega
    · have : ¬ (m &&& n) % 2 = 1 := fun h => h1 (hm.1 h).1
      simp [h1, h2]; omega
    · have : ¬ (m &&& n) % 2 = 1 := fun h => h1 (hm.1 h).1
      simp [h1, h2]; omega
  | succ i ih =>
    have hle : m &&& n ≤ m := Nat.and_le_left
    have hm := and_mod_two m n
    have hd : (m &&& n) / 2 = m / 2 &&& n / 2 := Nat.and_div_two
    have : (m - (m &&& n)) / 2 = m / 2 - (m / 2 &&& n / 2) := by
      rw [← hd]
      by_cases h1 : (m &&& n) % 2 = 1
      · have := (hm.1 h1).1; omega
      · omega
    rw [Nat.testBit_succ, this, ih, Nat.testBit_succ, Nat.testBit_succ]

/-! ## Int -/

theorem ibit_ofNat (m i : Nat) : ibit (m : Int) i = m.testBit i := rfl

theorem ibit_pyAnd (a b : Int) (i : Nat) : ibit (pyAnd a b) i = (ibit a i && ibit b i) := by
  cases a <;> cases b <;> simp only [pyAnd, ibit]
  · exact Nat.testBit_and _ _ _
  · exact testBit_sub_and _ _ _
  · rw [testBit_sub_and, Bool.and_comm]
  · rw [Nat.testBit_or]; simp

theorem ibit_pyOr (a b : Int) (i : Nat) : ibit (pyOr a b) i = (ibit a i || ibit b i) := by
  cases a <;> cases b <;> simp only [pyOr, ibit]
  · exact Nat.testBit_or _ _ _
  · rw [testBit_sub_and]; cases Nat.testBit _ i <;> cases Nat.testBit _ i <;> rfl
  · rw [testBit_sub_and]; cases Nat.testBit _ i <;> cases Nat.testBit _ i <;> rfl
  · rw [Nat.testBit_and]; simp

theorem ibit_pyNot (a : Int) (i : Nat) : ibit (pyNot a) i = !ibit a i := by
  cases a with
  | ofNat m =>
    have : pyNot (Int.ofNat m) = Int.negSucc m := by
      simp only [pyNot, Int.negSucc_eq]; rw [show Int.ofNat m = (m : Int) from rfl]; omega
    rw [this]; rfl
  | negSucc m =>
    have : pyNot (Int.negSucc m) = Int.ofNat m := by
      simp only [pyNot, Int.negSucc_eq]; rw [show Int.ofNat m = (m : Int) from rfl]; omega
    rw [this]; simp [ibit]

/-- bit `i` of `(value & mask) | (old & ~mask)` -/
theorem ibit_pyMerge (v m o : Int) (i : Nat) :
    ibit (pyMerge v m o) i = if ibit m i then ibit v i else ibit o i := by
  simp only [pyMerge, ibit_pyOr, ibit_pyAnd, ibit_pyNot]
  cases ibit m i <;> simp

/-- bit `i` of `v & ((1 << w) - 1)` -/
theorem ibit_mask (w : Nat) (v : Int) (i : Nat) : ibit (mask w v) i = (decide (i < w) && ibit v i) := by
  unfold mask
  cases v with
  | ofNat m =>
    have : (Int.ofNat m) % (2 ^ w : Int) = ((m % 2 ^ w : Nat) : Int) := by
      rw [show Int.ofNat m = (m : Int) from rfl]; norm_cast
    rw [this, ibit_ofNat, Nat.testBit_mod_two_pow]; rfl
  | negSucc m =>
    have hpos : (0 : Int) < 2 ^ w := Int.pow_pos (by decide)
    have hlt : m % 2 ^ w < 2 ^ w := Nat.mod_lt _ (Nat.two_pow_pos w)
    have : (Int.negSucc m) % (2 ^ w : Int) = ((2 ^ w - (m % 2 ^ w + 1) : Nat) : Int) := by
      rw [Int.negSucc_emod _ hpos]
      have : ((2 : Int) ^ w) = ((2 ^ w : Nat) : Int) := by norm_cast
      rw [this]
      have h2 : ((m : Int) % ((2 ^ w : Nat) : Int)) = ((m % 2 ^ w : Nat) : Int) := by norm_cast
      rw [h2]
      omega
    rw [this, ibit_ofNat, Nat.testBit_two_pow_sub_succ hlt, Nat.testBit_mod_two_pow]
    simp only [ibit]
    cases decide (i < w) <;> simp

/-- normalising to a shape does not change the bits inside the shape -/
theorem ibit_norm (sh : Shape) (v : Int) (i : Nat) (hi : i < sh.width) : ibit (norm sh v) i = ibit v i := by
  have hm : ibit (mask sh.width v) i = ibit v i := by rw [ibit_mask]; simp [hi]
  unfold norm
  simp only
  split
  · split
    · -- mask - 2^w : a negative number whose low bits are those of mask
      next hge =>
      have hpos : (0 : Int) < 2 ^ sh.width := Int.pow_pos (by decide)
      have h0 : 0 ≤ mask sh.width v := Int.emod_nonneg _ (by omega)
      have hlt : mask sh.width v < 2 ^ sh.width := Int.emod_lt_of_pos _ hpos
      obtain ⟨k, hk⟩ := Int.eq_ofNat_of_zero_le h0
      have hk2 : k < 2 ^ sh.width := by
        have : ((k : Nat) : Int) < ((2 ^ sh.width : Nat) : Int) := by rw [← hk]; push_cast; exact hlt
        exact_mod_cast this
      have : mask sh.width v - 2 ^ sh.width = Int.negSucc (2 ^ sh.width - (k + 1)) := by
        rw [Int.negSucc_eq, hk]
        have : ((2 : Int) ^ sh.width) = ((2 ^ sh.width : Nat) : Int) := by norm_cast
        rw [this]; omega
      rw [← hm, this, hk, ibit_ofNat]
      show (!(2 ^ sh.width - (k + 1)).testBit i) = k.testBit i
      rw [Nat.testBit_two_pow_sub_succ hk2]
      simp [hi]
    · exact hm
  · exact hm

theorem ibit_resign (sh : Shape) (v : Int) (i : Nat) (hi : i < sh.width) : ibit (resign sh v) i = ibit v i := by
  unfold resign; split
  · exact ibit_norm sh v i hi
  · rfl

/-! ## The replicated enable -/

theorem replMask_lt (g n en : Nat) : replMask g n en < 2 ^ (n * g) := by
  induction n generalizing en with
  | zero => simp [replMask]
  | succ n ih =>
    simp only [replMask]
    have h := ih (en / 2)
    have hg : 0 < 2 ^ g := Nat.two_pow_pos g
    have : 2 ^ ((n + 1) * g) = 2 ^ g * 2 ^ (n * g) := by rw [← Nat.pow_add]; congr 1; rw [Nat.succ_mul]; omega
    rw [this]
    have h1 : (if en % 2 = 1 then 2 ^ g - 1 else 0) < 2 ^ g := by split <;> omega
    calc _ < 2 ^ g + 2 ^ g * replMask g n (en / 2) := by omega
      _ = 2 ^ g * (replMask g n (en / 2) + 1) := by rw [Nat.mul_add]; omega
      _ ≤ 2 ^ g * 2 ^ (n * g) := Nat.mul_le_mul_left _ h

/-- bit `i` of `Cat(bit.replicate(g) for bit in en)` is enable bit `i / g` -/
theorem testBit_replMask (g n en i : Nat) :
    (replMask g n en).testBit i = (decide (i < n * g) && en.testBit (i / g)) := by
  induction n generalizing en i with
  | zero => simp [replMask]
  | succ n ih =>
    simp only [replMask]
    have h1 : (if en % 2 = 1 then 2 ^ g - 1 else 0) < 2 ^ g := by
      have : 0 < 2 ^ g := Nat.two_pow_pos g
      split <;> omega
    rw [Nat.add_comm, Nat.testBit_two_pow_mul_add _ h1]
    by_cases hg : g = 0
    · subst hg; simp [ih]
    have hgpos : 0 < g := Nat.pos_of_ne_zero hg
    split
    · next hlt =>
      have hdiv : i / g = 0 := Nat.div_eq_of_lt hlt
      have hi : i < (n + 1) * g := by rw [Nat.succ_mul]; omega
      rw [hdiv, Nat.testBit_zero]
      split
      · next he => simp [Nat.testBit_two_pow_sub_one, hlt, he, hi]
      · next he => simp [he]
    · next hge =>
      have hge : g ≤ i := Nat.le_of_not_lt hge
      rw [ih]
      have hdiv : i / g = (i - g) / g + 1 := by
        have := Nat.div_eq_sub_div hgpos hge
        omega
      have hlt : decide (i - g < n * g) = decide (i < (n + 1) * g) := by
        rw [decide_eq_decide, Nat.succ_mul]; omega
      rw [hlt, hdiv, Nat.testBit_succ]

end Amaranth.Mem
