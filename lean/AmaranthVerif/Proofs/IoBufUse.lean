import AmaranthVerif.Model.IoBuf
import AmaranthVerif.Spec.IoBuf

/-! # The single-use table of the netlist builder (helper file of C18) -/

namespace Amaranth.IoBuf

variable {β : Type} [DecidableEq β]

theorem emitIoUse_eq (used nets : List β) :
    emitIoUse used nets =
      if nets.Nodup ∧ (∀ x ∈ nets, x ∉ used) then .ok (nets.reverse ++ used) else .error .driverConflict := by
  induction nets generalizing used with
  | nil => simp [emitIoUse, pure, Except.pure]
  | cons n ns ih =>
    simp only [emitIoUse]
    by_cases hn : n ∈ used
    · have : ¬ ((n :: ns).Nodup ∧ ∀ x ∈ n :: ns, x ∉ used) := by
        intro h; exact h.2 n (by simp) hn
      simp [hn, this, throw, throwThe, MonadExceptOf.throw]
    · simp only [hn, if_false, ih]
      by_cases hc : ns.Nodup ∧ ∀ x ∈ ns, x ∉ n :: used
      · have hc' : (n :: ns).Nodup ∧ ∀ x ∈ n :: ns, x ∉ used := by
          obtain ⟨h1, h2⟩ := hc
          refine ⟨List.nodup_cons.2 ⟨?_, h1⟩, ?_⟩
          · intro hmem; exact h2 n hmem (by simp)
          · intro x hx
            rcases List.mem_cons.1 hx with rfl | hx
            · exact hn
            · intro hu; exact h2 x hx (by simp [hu])
        rw [if_pos hc, if_pos hc']
        simp
      · have hc' : ¬ ((n :: ns).Nodup ∧ ∀ x ∈ n :: ns, x ∉ used) := by
          intro ⟨h1, h2⟩
          apply hc
          obtain ⟨h3, h4⟩ := List.nodup_cons.1 h1
          refine ⟨h4, ?_⟩
          intro x hx hu
          rcases List.mem_cons.1 hu with rfl | hu
          · exact h3 hx
          · exact h2 x (by simp [hx]) hu
        rw [if_neg hc, if_neg hc']

theorem emitAll_eq (used : List β) (cells : List (List β)) :
    emitAll used cells =
      if cells.flatten.Nodup ∧ (∀ x ∈ cells.flatten, x ∉ used) then .ok (cells.flatten.reverse ++ used)
      else .error .driverConflict := by
  induction cells generalizing used with
  | nil => simp [emitAll, pure, Except.pure]
  | cons c cs ih =>
    simp only [emitAll, emitIoUse_eq, bind, Except.bind, List.flatten_cons]
    by_cases h1 : c.Nodup ∧ ∀ x ∈ c, x ∉ used
    · rw [if_pos h1]
      simp only [ih]
      by_cases h2 : cs.flatten.Nodup ∧ ∀ x ∈ cs.flatten, x ∉ c.reverse ++ used
      · have h3 : (c ++ cs.flatten).Nodup ∧ ∀ x ∈ c ++ cs.flatten, x ∉ used := by
          refine ⟨List.nodup_append.2 ⟨h1.1, h2.1, ?_⟩, ?_⟩
          · intro a ha b hb hab
            subst hab
            exact h2.2 a hb (by simp [ha])
          · intro x hx
            rcases List.mem_append.1 hx with hx | hx
            · exact h1.2 x hx
            · intro hu; exact h2.2 x hx (by simp [hu])
        rw [if_pos h2, if_pos h3]
        simp
      · have h3 : ¬ ((c ++ cs.flatten).Nodup ∧ ∀ x ∈ c ++ cs.flatten, x ∉ used) := by
          intro ⟨h4, h5⟩
          apply h2
          obtain ⟨_, h6, h7⟩ := List.nodup_append.1 h4
          refine ⟨h6, ?_⟩
          intro x hx hu
          rcases List.mem_append.1 hu with hu | hu
          · exact h7 x (by simpa using hu) x hx rfl
          · exact h5 x (by simp [hx]) hu
        rw [if_neg h2, if_neg h3]
    · have h3 : ¬ ((c ++ cs.flatten).Nodup ∧ ∀ x ∈ c ++ cs.flatten, x ∉ used) := by
        intro ⟨h4, h5⟩
        apply h1
        obtain ⟨h6, _, _⟩ := List.nodup_append.1 h4
        exact ⟨h6, fun x hx => h5 x (by simp [hx])⟩
      rw [if_neg h1, if_neg h3]

end Amaranth.IoBuf
