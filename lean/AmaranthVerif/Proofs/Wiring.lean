import AmaranthVerif.Model.Wiring
import AmaranthVerif.Spec.Wiring

/-! # Helper lemmas for C14 (signatures, flipping, flattening, compliance) -/

namespace Amaranth.Wiring

theorem Flow.flip_flip (f : Flow) : f.flip.flip = f := by cases f <;> rfl

theorem Member.flip_flip (m : Member) : m.flip.flip = m := by
  cases m <;> simp [Member.flip, Flow.flip_flip]

theorem Sig.flip_flip : (s : Sig) → s.flip.flip = s
  | .nil => rfl
  | .cons n m r => by simp [Sig.flip, Member.flip_flip, Sig.flip_flip r]

theorem flipIf_flip (f : Flow) (fl : Bool) : f.flip.flipIf fl = f.flipIf (!fl) := by
  cases f <;> cases fl <;> rfl

theorem flipIf_not (f : Flow) (fl : Bool) : f.flipIf (!fl) = (f.flipIf fl).flip := by
  cases f <;> cases fl <;> rfl

theorem subFlag_flip (fl : Bool) (f : Flow) (df : Bool) : subFlag fl f.flip df = subFlag (!fl) f df := by
  cases f <;> cases fl <;> cases df <;> rfl

theorem subFlag_not (fl : Bool) (f : Flow) (df : Bool) : subFlag (!fl) f df = !subFlag fl f df := by
  cases f <;> cases fl <;> cases df <;> rfl

/-- seeing a signature flipped (the flag) is the same as materialising `Sig.flip` -/
theorem Sig.leavesAux_flip (fl : Bool) (pre : Path) : (s : Sig) →
    Sig.leavesAux fl pre s.flip = Sig.leavesAux (!fl) pre s
  | .nil => by simp [Sig.flip, Sig.leavesAux]
  | .cons n m r => by
    have ih := Sig.leavesAux_flip fl pre r
    cases m <;> simp [Sig.flip, Member.flip, Sig.leavesAux, Member.leavesAux, ih, flipIf_flip, subFlag_flip]

def flipL (x : Path × Leaf) : Path × Leaf := (x.1, x.2.flip)

mutual
theorem Sig.leavesAux_not (fl : Bool) (pre : Path) : (s : Sig) →
    Sig.leavesAux (!fl) pre s = (Sig.leavesAux fl pre s).map flipL
  | .nil => by simp [Sig.leavesAux]
  | .cons n m r => by
    simp [Sig.leavesAux, Member.leavesAux_not fl _ m, Sig.leavesAux_not fl pre r]
theorem Member.leavesAux_not (fl : Bool) (pre : Path) : (m : Member) →
    Member.leavesAux (!fl) pre m = (Member.leavesAux fl pre m).map flipL
  | .port f p d => by
    simp [Member.leavesAux, flipL, Leaf.flip, flipIf_not, Function.comp_def]
  | .iface f df s d => by
    simp only [Member.leavesAux, List.map_flatMap, subFlag_not]
    congr 1; funext ix
    exact Sig.leavesAux_not (subFlag fl f df) _ s
end


/-! ## indices -/

theorem mem_indices_length {d : List Nat} {ix : List Nat} (h : ix ∈ indices d) : ix.length = d.length := by
  induction d generalizing ix with
  | nil => simp [indices] at h; simp [h]
  | cons a ds ih =>
    simp only [indices, List.mem_flatMap, List.mem_map] at h
    obtain ⟨i, _, t, ht, rfl⟩ := h
    simp [ih ht]

theorem indices_nodup (d : List Nat) : (indices d).Nodup := by
  induction d with
  | nil => simp [indices]
  | cons a ds ih =>
    simp only [indices, List.nodup_iff_pairwise_ne]
    rw [List.pairwise_flatMap]
    refine ⟨fun i _ => ?_, ?_⟩
    · rw [List.pairwise_map]
      exact ih.imp (fun h => by simpa using h)
    · have := @List.nodup_range a
      exact this.imp (fun {i j} hij x hx y hy => by
        simp only [List.mem_map] at hx hy
        obtain ⟨_, _, rfl⟩ := hx
        obtain ⟨_, _, rfl⟩ := hy
        simp [hij])

theorem idxPath_inj {a b : List Nat} (h : idxPath a = idxPath b) : a = b := by
  induction a generalizing b with
  | nil => cases b <;> simp_all [idxPath]
  | cons x xs ih =>
    cases b with
    | nil => simp [idxPath] at h
    | cons y ys =>
      simp only [idxPath, List.map_cons, List.cons.injEq, Item.idx.injEq] at h
      rw [h.1, ih (by simpa [idxPath] using h.2)]

open WiringSpec in
theorem takeIdx_of_mem {d : List Nat} {ix : List Nat} (h : ix ∈ indices d) (q : Path) :
    takeIdx d (idxPath ix ++ q) = some q := by
  induction d generalizing ix with
  | nil => simp [indices] at h; simp [h, takeIdx, idxPath]
  | cons a ds ih =>
    simp only [indices, List.mem_flatMap, List.mem_map, List.mem_range] at h
    obtain ⟨i, hi, t, ht, rfl⟩ := h
    simp [idxPath, takeIdx, hi]
    exact ih ht

open WiringSpec in
theorem mem_of_takeIdx {d : List Nat} {p q : Path} (h : takeIdx d p = some q) :
    ∃ ix ∈ indices d, p = idxPath ix ++ q := by
  induction d generalizing p with
  | nil => simp [takeIdx] at h; exact ⟨[], by simp [indices], by simp [idxPath, h]⟩
  | cons a ds ih =>
    match p, h with
    | .idx i :: p', h =>
      simp only [takeIdx] at h
      split at h
      · rename_i hi
        obtain ⟨ix, hix, rfl⟩ := ih h
        refine ⟨i :: ix, ?_, by simp [idxPath]⟩
        simp only [indices, List.mem_flatMap, List.mem_map, List.mem_range]
        exact ⟨i, hi, ix, hix, rfl⟩
      · simp at h
    | .name _ :: _, h => simp [takeIdx] at h
    | [], h => simp [takeIdx] at h


/-! ## `flatten` covers exactly the leaves -/

open WiringSpec

theorem innerReversed_eq (fl : Bool) (f : Flow) (df : Bool) : innerReversed fl f df = subFlag fl f df := by
  cases f <;> cases fl <;> cases df <;> rfl

theorem sigLeafAt_head {fl : Bool} : (s : Sig) → {q : Path} → {l : Leaf} → sigLeafAt fl s q = some l →
    ∃ x rest, q = .name x :: rest ∧ x ∈ s.names
  | .nil, _, _, h => by simp [sigLeafAt] at h
  | .cons n m r, q, l, h => by
    match q, h with
    | .name x :: rest, h =>
      simp only [sigLeafAt] at h
      by_cases hx : n = x
      · exact ⟨x, rest, rfl, by simp [Sig.names, hx]⟩
      · simp only [hx, if_false] at h
        obtain ⟨x', rest', h1, h2⟩ := sigLeafAt_head r h
        exact ⟨x', rest', h1, by simp [Sig.names, h2]⟩
    | .idx _ :: _, h => simp [sigLeafAt] at h
    | [], h => simp [sigLeafAt] at h

mutual
theorem Sig.mem_leavesAux (fl : Bool) (pre : Path) : (s : Sig) → s.wf = true → ∀ p l,
    (p, l) ∈ Sig.leavesAux fl pre s ↔ ∃ q, p = pre ++ q ∧ sigLeafAt fl s q = some l
  | .nil, _, p, l => by simp [Sig.leavesAux, sigLeafAt]
  | .cons n m r, hwf, p, l => by
    simp only [Sig.wf, Bool.and_eq_true, Bool.not_eq_true', List.contains_eq_mem, decide_eq_false_iff_not] at hwf
    obtain ⟨⟨hn, hm⟩, hr⟩ := hwf
    have ihm := Member.mem_leavesAux fl (pre ++ [.name n]) m hm p l
    have ihr := Sig.mem_leavesAux fl pre r hr p l
    simp only [Sig.leavesAux, List.mem_append, ihm, ihr]
    constructor
    · rintro (⟨q, rfl, hq⟩ | ⟨q, rfl, hq⟩)
      · exact ⟨.name n :: q, by simp, by simp [sigLeafAt, hq]⟩
      · refine ⟨q, rfl, ?_⟩
        obtain ⟨x, rest, rfl, hx⟩ := sigLeafAt_head r hq
        have : n ≠ x := fun h => hn (h ▸ hx)
        simp [sigLeafAt, this]
        exact hq
    · rintro ⟨q, rfl, hq⟩
      match q, hq with
      | .name x :: rest, hq =>
        simp only [sigLeafAt] at hq
        by_cases hx : n = x
        · subst hx
          simp only [if_true] at hq
          exact Or.inl ⟨rest, by simp, hq⟩
        · simp only [hx, if_false] at hq
          exact Or.inr ⟨_, rfl, hq⟩
      | .idx _ :: _, hq => simp [sigLeafAt] at hq
      | [], hq => simp [sigLeafAt] at hq
theorem Member.mem_leavesAux (fl : Bool) (pre : Path) : (m : Member) → m.wf = true → ∀ p l,
    (p, l) ∈ Member.leavesAux fl pre m ↔ ∃ q, p = pre ++ q ∧ memberLeafAt fl m q = some l
  | .port f pd d, _, p, l => by
    simp only [Member.leavesAux, List.mem_map, memberLeafAt, Prod.mk.injEq]
    constructor
    · rintro ⟨ix, hix, rfl, rfl⟩
      refine ⟨idxPath ix, rfl, ?_⟩
      have := takeIdx_of_mem hix []
      simp only [List.append_nil] at this
      simp [this, dirSeen, Flow.flipIf]
    · rintro ⟨q, rfl, hq⟩
      split at hq
      · rename_i ht
        obtain ⟨ix, hix, rfl⟩ := mem_of_takeIdx ht
        refine ⟨ix, hix, by simp, ?_⟩
        simp only [Option.some.injEq] at hq
        rw [← hq]; simp [dirSeen, Flow.flipIf]
      · simp at hq
  | .iface f df s d, hwf, p, l => by
    simp only [Member.wf] at hwf
    simp only [Member.leavesAux, List.mem_flatMap, memberLeafAt, innerReversed_eq]
    constructor
    · rintro ⟨ix, hix, hmem⟩
      obtain ⟨q, rfl, hq⟩ := (Sig.mem_leavesAux (subFlag fl f df) (pre ++ idxPath ix) s hwf p l).1 hmem
      refine ⟨idxPath ix ++ q, by simp, ?_⟩
      simp [takeIdx_of_mem hix q, hq]
    · rintro ⟨q, rfl, hq⟩
      split at hq
      · rename_i rest ht
        obtain ⟨ix, hix, rfl⟩ := mem_of_takeIdx ht
        exact ⟨ix, hix, (Sig.mem_leavesAux (subFlag fl f df) (pre ++ idxPath ix) s hwf _ l).2 ⟨rest, by simp, hq⟩⟩
      · simp at hq
end


/-! ## `flatten` visits every leaf once -/

mutual
theorem Sig.leavesAux_prefix (fl : Bool) (pre : Path) : (s : Sig) → ∀ x ∈ Sig.leavesAux fl pre s,
    ∃ n q, n ∈ s.names ∧ x.1 = pre ++ .name n :: q
  | .nil, x, h => by simp [Sig.leavesAux] at h
  | .cons n m r, x, h => by
    simp only [Sig.leavesAux, List.mem_append] at h
    rcases h with h | h
    · obtain ⟨q, hq⟩ := Member.leavesAux_prefix fl _ m x h
      exact ⟨n, q, by simp [Sig.names], by simp [hq]⟩
    · obtain ⟨n', q, hn, hq⟩ := Sig.leavesAux_prefix fl pre r x h
      exact ⟨n', q, by simp [Sig.names, hn], hq⟩
theorem Member.leavesAux_prefix (fl : Bool) (pre : Path) : (m : Member) → ∀ x ∈ Member.leavesAux fl pre m,
    ∃ q, x.1 = pre ++ q
  | .port f pd d, x, h => by
    simp only [Member.leavesAux, List.mem_map] at h
    obtain ⟨ix, _, rfl⟩ := h
    exact ⟨_, rfl⟩
  | .iface f df s d, x, h => by
    simp only [Member.leavesAux, List.mem_flatMap] at h
    obtain ⟨ix, _, h⟩ := h
    obtain ⟨n, q, _, hq⟩ := Sig.leavesAux_prefix _ _ s x h
    exact ⟨idxPath ix ++ .name n :: q, by simp [hq]⟩
end

theorem idx_prefix_ne {d : List Nat} {ix ix' : List Nat} (h : ix ∈ indices d) (h' : ix' ∈ indices d)
    (hne : ix ≠ ix') (pre q q' : Path) : pre ++ idxPath ix ++ q ≠ pre ++ idxPath ix' ++ q' := by
  intro heq
  simp only [List.append_assoc, List.append_cancel_left_eq] at heq
  have hl : (idxPath ix).length = (idxPath ix').length := by
    simp [idxPath, mem_indices_length h, mem_indices_length h']
  exact hne (idxPath_inj (List.append_inj heq hl).1)

mutual
theorem Sig.leavesAux_nodup (fl : Bool) (pre : Path) : (s : Sig) → s.wf = true →
    (Sig.leavesAux fl pre s).Pairwise (fun a b => a.1 ≠ b.1)
  | .nil, _ => by simp [Sig.leavesAux]
  | .cons n m r, hwf => by
    simp only [Sig.wf, Bool.and_eq_true, Bool.not_eq_true', List.contains_eq_mem, decide_eq_false_iff_not] at hwf
    obtain ⟨⟨hn, hm⟩, hr⟩ := hwf
    simp only [Sig.leavesAux, List.pairwise_append]
    refine ⟨Member.leavesAux_nodup fl _ m hm, Sig.leavesAux_nodup fl pre r hr, ?_⟩
    intro a ha b hb heq
    obtain ⟨q, hq⟩ := Member.leavesAux_prefix fl _ m a ha
    obtain ⟨n', q', hn', hq'⟩ := Sig.leavesAux_prefix fl pre r b hb
    rw [hq, hq'] at heq
    simp at heq
    exact hn (heq.1 ▸ hn')
theorem Member.leavesAux_nodup (fl : Bool) (pre : Path) : (m : Member) → m.wf = true →
    (Member.leavesAux fl pre m).Pairwise (fun a b => a.1 ≠ b.1)
  | .port f pd d, _ => by
    simp only [Member.leavesAux, List.pairwise_map]
    have := indices_nodup d
    refine this.imp_of_mem (fun {a b} ha hb hab => ?_)
    have := idx_prefix_ne ha hb hab pre [] []
    simpa using this
  | .iface f df s d, hwf => by
    simp only [Member.wf] at hwf
    simp only [Member.leavesAux, List.pairwise_flatMap]
    refine ⟨fun ix _ => Sig.leavesAux_nodup _ _ s hwf, ?_⟩
    have := indices_nodup d
    refine this.imp_of_mem (fun {a b} ha hb hab x hx y hy => ?_)
    obtain ⟨n, q, _, hq⟩ := Sig.leavesAux_prefix _ _ s x hx
    obtain ⟨n', q', _, hq'⟩ := Sig.leavesAux_prefix _ _ s y hy
    rw [hq, hq']
    exact idx_prefix_ne ha hb hab pre _ _
end


/-! ## An object created from a signature complies with it -/

mutual
theorem Sig.beq_refl : (s : Sig) → Sig.beq s s = true
  | .nil => by simp [Sig.beq]
  | .cons n m r => by simp [Sig.beq, Member.beq_refl m, Sig.beq_refl r]
theorem Member.beq_refl : (m : Member) → Member.beq m m = true
  | .port f p d => by simp [Member.beq]
  | .iface f df s d => by simp [Member.beq, Sig.beq_refl s]
end

theorem SigV.eqv_refl (sv : SigV) : SigV.eqv sv sv = true := Sig.beq_refl _

theorem allM_true {α ε} {f : α → Except ε Bool} {l : List α} (h : ∀ x ∈ l, f x = .ok true) :
    allM f l = .ok true := by
  induction l with
  | nil => rfl
  | cons x xs ih =>
    simp only [allM, h x (by simp)]
    exact ih (fun y hy => h y (by simp [hy]))

theorem checkDims_mkArr {chk : Obj → Except GetErr Bool} {leaf : Obj} (h : chk leaf = .ok true) (d : List Nat) :
    checkDims chk d (mkArr d leaf) = .ok true := by
  induction d with
  | nil => simpa [checkDims, mkArr] using h
  | cons a ds ih =>
    simp only [mkArr, checkDims, List.length_replicate, bne_self_eq_false, Bool.false_eq_true, if_false]
    exact allM_true (fun x hx => by rw [(List.mem_replicate.1 hx).2]; exact ih)

theorem mapM_replicate_ok {f : Obj → Except GetErr Obj} {x y : Obj} (h : f x = .ok y) (n : Nat) :
    (List.replicate n x).mapM f = .ok (List.replicate n y) := by
  induction n with
  | zero => rfl
  | succ k ih => simp [List.replicate_succ, List.mapM_cons, h, ih]; rfl

theorem flipDims_mkArr (w fl : Bool) (s : Sig) (a : List (String × Obj)) (d : List Nat) :
    flipDims d.length (mkArr d (.iface w fl s a)) = .ok (mkArr d (.iface (!w) fl s a)) := by
  induction d with
  | nil => rfl
  | cons n ds ih =>
    simp only [List.length_cons, mkArr, flipDims, mapM_replicate_ok ih]
    rfl

def Sig.toList : Sig → List (String × Member)
  | .nil => []
  | .cons n m r => (n, m) :: r.toList

theorem Sig.mem_names_of_mem_toList : (s : Sig) → ∀ {n m}, (n, m) ∈ s.toList → n ∈ s.names
  | .nil, _, _, h => by simp [Sig.toList] at h
  | .cons n0 m0 r, n, m, h => by
    simp only [Sig.toList, List.mem_cons, Prod.mk.injEq] at h
    rcases h with ⟨rfl, _⟩ | h
    · simp [Sig.names]
    · simp [Sig.names, Sig.mem_names_of_mem_toList r h]

/-- with unique names, every member is found under its name, and so is the attribute created for it -/
theorem Sig.find_lookup : (s0 : Sig) → s0.wf = true → ∀ {n m}, (n, m) ∈ s0.toList →
    s0.find? n = some m ∧ (Sig.createAttrs s0).lookup n = some (Member.createVal m)
  | .nil, _, _, _, h => by simp [Sig.toList] at h
  | .cons n0 m0 r, hwf, n, m, h => by
    simp only [Sig.wf, Bool.and_eq_true, Bool.not_eq_true', List.contains_eq_mem, decide_eq_false_iff_not] at hwf
    obtain ⟨⟨hn, _⟩, hr⟩ := hwf
    simp only [Sig.toList, List.mem_cons, Prod.mk.injEq] at h
    rcases h with ⟨rfl, rfl⟩ | h
    · simp [Sig.find?, Sig.createAttrs]
    · have hne : n0 ≠ n := fun e => hn (e ▸ Sig.mem_names_of_mem_toList r h)
      have := Sig.find_lookup r hr h
      have hne' : (n == n0) = false := by simpa using fun e => hne e.symm
      simp [Sig.find?, Sig.createAttrs, List.lookup, hne, hne', this]

mutual
theorem Sig.compliantMembers_sub : (s : Sig) → (s0 : Sig) → (w : Bool) → s.wf = true →
    (∀ x ∈ s.toList, s0.find? x.1 = some x.2 ∧ (Sig.createAttrs s0).lookup x.1 = some (Member.createVal x.2)) →
    Sig.compliantMembers true w (.iface w false s0 (Sig.createAttrs s0)) s = .ok true
  | .nil, _, _, _, _ => by simp [Sig.compliantMembers]
  | .cons n m r, s0, w, hwf, h => by
    simp only [Sig.wf, Bool.and_eq_true] at hwf
    obtain ⟨⟨_, hm⟩, hr⟩ := hwf
    obtain ⟨h1, h2⟩ := h (n, m) (by simp [Sig.toList])
    have ihr := Sig.compliantMembers_sub r s0 w hr (fun x hx => h x (by simp [Sig.toList, hx]))
    have ihm := Member.compliantVal_create m w hm
    simp only at h1 h2
    simp only [Sig.compliantMembers, Obj.getattr, h1, h2]
    by_cases hwi : (w && m.isIface) = true
    · simp only [hwi, if_true] at ihm ⊢
      obtain ⟨v, hv, hc⟩ := ihm
      simp only [hv, hc, ihr]
    · simp only [hwi] at ihm ⊢
      obtain ⟨v, hv, hc⟩ := ihm
      simp only [Bool.false_eq_true, if_false] at hv ⊢
      cases hv
      simp only [hc, ihr]
/-- the attribute created for a member, as `getattr` returns it through an object seen with flag `w`,
passes `check_dimensions` -/
theorem Member.compliantVal_create : (m : Member) → (w : Bool) → m.wf = true →
    ∃ v, (if (w && m.isIface) = true then flipDims m.dims.length (Member.createVal m) else .ok (Member.createVal m)) = .ok v ∧
      Member.compliantVal true w m v = .ok true
  | .port f p d, w, _ => by
    refine ⟨Member.createVal (.port f p d), by simp [Member.isIface], ?_⟩
    simp only [Member.compliantVal, Member.createVal]
    exact checkDims_mkArr (by simp [portOk]) d
  | .iface f df s d, w, hwf => by
    simp only [Member.wf] at hwf
    have key : ∀ w', w' = subFlag w f df →
        checkDims (fun x => match x.signature? with
          | none => .ok false
          | some sv => if (!SigV.eqv (subFlag w f df, s) sv) = true then .ok false
                       else Sig.compliantMembers true (subFlag w f df) x s) d
          (mkArr d (.iface w' false s (Sig.createAttrs s))) = .ok true := by
      intro w' hw'
      subst hw'
      apply checkDims_mkArr
      have := Sig.compliantMembers_sub s s (subFlag w f df) hwf (fun x hx => Sig.find_lookup s hwf hx)
      simp [Obj.signature?, SigV.eqv_refl, this]
    cases w with
    | false =>
      refine ⟨Member.createVal (.iface f df s d), by simp, ?_⟩
      simp only [Member.compliantVal, Member.createVal]
      exact key _ rfl
    | true =>
      refine ⟨mkArr d (.iface (!subFlag false f df) false s (Sig.createAttrs s)),
        by simp [Member.isIface, Member.dims, Member.createVal, flipDims_mkArr], ?_⟩
      simp only [Member.compliantVal]
      exact key _ (by rw [← subFlag_not]; rfl)
end

theorem SigV.create_compliant (sv : SigV) (hwf : sv.2.wf = true) : sv.isCompliant sv.create = .ok true := by
  obtain ⟨fl, s⟩ := sv
  simp only [SigV.isCompliant, SigV.isCompliantG, SigV.create, Obj.signature?, Bool.xor_false, SigV.eqv_refl]
  exact Sig.compliantMembers_sub s s fl hwf (fun x hx => Sig.find_lookup s hwf hx)

end Amaranth.Wiring
