import AmaranthVerif.Proofs.DomainRefine
import AmaranthVerif.Model.DomainRename
import AmaranthVerif.Spec.DomainRenameMap

/-!
# C03: a renaming map, written with one-entry renamings, renames simultaneously

`renStep` is the step of `Leaf.finalDom`. `expansion_fold`: the stack `renameMapWrappers k m` moves every domain
`d < fresh ≤ k` to `simulRename m d`, provided no source or target of the map is `≥ fresh`. `expansion_model`: the
Model's one-entry `domainRenamer`s applied in that order are the Model's `domainRenamerMap` (one dictionary lookup).
-/

namespace Amaranth

/-- the step of `Leaf.finalDom` -/
def renStep (d : Option Nat) (w : Wrapper) : Option Nat :=
  match w with
  | .rename s t => if d == some s then some t else d
  | _ => d

theorem finalDom_eq_fold (l : Leaf) : l.finalDom = l.wrappers.foldl renStep l.dom := rfl

theorem renStep_none (ws : List Wrapper) : ws.foldl renStep none = none := by
  induction ws with
  | nil => rfl
  | cons w ws ih =>
    simp only [List.foldl_cons]
    cases w <;> simpa [renStep] using ih

theorem simulRename_cons (s t : Nat) (rest : List (Nat × Nat)) (d : Nat) :
    simulRename ((s, t) :: rest) d = if s == d then t else simulRename rest d := by
  unfold simulRename
  simp only [List.find?_cons]
  by_cases h : (s == d) = true <;> simp [h]

theorem dictGet_eq_simulRename (m : List (Nat × Nat)) (d : Nat) : dictGet m d = simulRename m d := by
  induction m with
  | nil => rfl
  | cons p rest ih =>
    obtain ⟨s, t⟩ := p
    rw [simulRename_cons, dictGet, ih]

theorem simulRename_lt (fresh : Nat) (m : List (Nat × Nat)) (hm : ∀ p ∈ m, p.1 < fresh ∧ p.2 < fresh) (d : Nat)
    (hd : d < fresh) : simulRename m d < fresh := by
  induction m with
  | nil => exact hd
  | cons p rest ih =>
    obtain ⟨s, t⟩ := p
    rw [simulRename_cons]
    split
    · exact (hm (s, t) (List.mem_cons_self ..)).2
    · exact ih (fun p hp => hm p (List.mem_cons_of_mem _ hp))

/-- a name that is no source and lies below the private names is left alone -/
theorem expansion_fixes (m : List (Nat × Nat)) : ∀ (k x : Nat), x < k → (∀ p ∈ m, p.1 ≠ x) →
    (renameMapWrappers k m).foldl renStep (some x) = some x := by
  induction m with
  | nil => intro k x _ _; rfl
  | cons p rest ih =>
    intro k x hx hs
    obtain ⟨s, t⟩ := p
    have hsx : s ≠ x := hs (s, t) (List.mem_cons_self ..)
    simp only [renameMapWrappers, List.foldl_cons, List.foldl_append, List.foldl_nil]
    have h1 : renStep (some x) (Wrapper.rename s k) = some x := by
      simp only [renStep]
      have : (some x == some s) = false := by simp; omega
      simp [this]
    rw [h1, ih (k + 1) x (by omega) (fun p hp => hs p (List.mem_cons_of_mem _ hp))]
    simp only [renStep]
    have : (some x == some k) = false := by simp; omega
    simp [this]

/-- **the stack of one-entry renamings acts as the simultaneous renaming** -/
theorem expansion_fold (fresh : Nat) (m : List (Nat × Nat)) : ∀ (k : Nat), fresh ≤ k →
    (∀ p ∈ m, p.1 < fresh ∧ p.2 < fresh) → ∀ d, d < fresh →
    (renameMapWrappers k m).foldl renStep (some d) = some (simulRename m d) := by
  induction m with
  | nil => intro k _ _ d _; rfl
  | cons p rest ih =>
    intro k hk hm d hd
    obtain ⟨s, t⟩ := p
    have hst := hm (s, t) (List.mem_cons_self ..)
    have hrest : ∀ p ∈ rest, p.1 < fresh ∧ p.2 < fresh := fun p hp => hm p (List.mem_cons_of_mem _ hp)
    simp only [renameMapWrappers, List.foldl_cons, List.foldl_append, List.foldl_nil]
    rw [simulRename_cons]
    by_cases h : s = d
    · subst h
      have h1 : renStep (some s) (Wrapper.rename s k) = some k := by simp [renStep]
      rw [h1, expansion_fixes rest (k + 1) k (by omega) (fun p hp => by have := (hrest p hp).1; omega)]
      simp [renStep]
    · have h1 : renStep (some d) (Wrapper.rename s k) = some d := by
        simp only [renStep]
        have : (some d == some s) = false := by simp; omega
        simp [this]
      rw [h1, ih (k + 1) (by omega) hrest d hd]
      have hlt := simulRename_lt fresh rest hrest d hd
      have hne : (s == d) = false := by simp; exact h
      simp only [renStep, hne, Bool.false_eq_true, if_false]
      have : (some (simulRename rest d) == some k) = false := by simp; omega
      simp [this]

/-- the Model's one-entry renamers only move the domain key, as `renStep` does -/
theorem rename_fold_model (B : Design) (m : List (Nat × Nat)) : ∀ (k : Nat) (p : Proc),
    (renameMapWrappers k m).foldl (applyWrapper B) p =
      { p with dom := (renameMapWrappers k m).foldl renStep p.dom } := by
  induction m with
  | nil => intro k p; rfl
  | cons q rest ih =>
    intro k p
    obtain ⟨s, t⟩ := q
    simp only [renameMapWrappers, List.foldl_cons, List.foldl_append, List.foldl_nil]
    rw [ih]
    simp only [applyWrapper, domainRenamer, renStep]
    by_cases h1 : (p.dom == some s) = true
    · simp only [h1, if_true]
      split <;> rfl
    · simp only [h1, Bool.false_eq_true, if_false]
      split <;> rfl

end Amaranth
