import AmaranthVerif.Model.CombCycle
import AmaranthVerif.Spec.Cycle

/-!
# Helper lemmas for C06 (combinational cycles)

Part 1 works with arbitrary `succ extra : Net → List Net` subject to `SibOK` ("`extra` lists the
other members of a class of nets that share all successors"); part 2 shows that `Graph.succ` and
`Graph.extra` are such a pair and connects them with the Spec's `Edge`/`SameWord`.
-/

namespace Amaranth.CombCycle

/-! ## Part 0: lists -/

theorem nodup_length_le {α} [DecidableEq α] : ∀ (l U : List α), l.Nodup → (∀ x ∈ l, x ∈ U) → l.length ≤ U.length
  | [], _, _, _ => Nat.zero_le _
  | a :: l, U, hn, hs => by
    have ha : a ∈ U := hs a List.mem_cons_self
    have hn' := List.nodup_cons.mp hn
    have := nodup_length_le l (U.erase a) hn'.2 (fun x hx => by
      have hxa : x ≠ a := fun h => hn'.1 (h ▸ hx)
      exact (List.mem_erase_of_ne hxa).mpr (hs x (List.mem_cons_of_mem _ hx)))
    have hl := List.length_erase_of_mem ha
    have hpos : 0 < U.length := List.length_pos_of_mem ha
    simp only [List.length_cons]
    omega

/-! ## Part 1: the traversal over abstract `succ`/`extra` -/

section Abstract
variable (succ extra : Net → List Net)

/-- `extra n` are the other members of `n`'s class; classes share all successors -/
structure SibOK : Prop where
  succ_eq : ∀ n m, m ∈ extra n → succ m = succ n
  symm : ∀ n m, m ∈ extra n → n ∈ extra m
  trans : ∀ n m k, m ∈ extra n → k ∈ extra m → k = n ∨ k ∈ extra n
  irrefl : ∀ n, n ∉ extra n
  nodup : ∀ n, (extra n).Nodup

/-- reachability over `succ` in one or more steps -/
inductive AReach : Net → Net → Prop
  | step {a b} : b ∈ succ a → AReach a b
  | trans {a b c} : b ∈ succ a → AReach b c → AReach a c

/-- finishing order, newest first: each net's successors were finished earlier -/
inductive Topo : List Net → Prop
  | nil : Topo []
  | cons {v c} : (∀ s ∈ succ v, s ∈ c) → v ∉ c → Topo c → Topo (v :: c)

theorem topo_closed {c : List Net} (ht : Topo succ c) : ∀ a ∈ c, ∀ b, AReach succ a b → b ∈ c := by
  induction ht with
  | nil => intro a ha; simp at ha
  | @cons v c hs hv _ ih =>
    have key : ∀ a b, AReach succ a b → (a ∈ c ∨ a = v) → b ∈ c := by
      intro a b hr
      induction hr with
      | @step a b hab =>
        intro ha
        rcases ha with ha | rfl
        · exact ih a ha b (AReach.step hab)
        · exact hs b hab
      | @trans a b d hab _ ih2 =>
        intro ha
        have hb : b ∈ c := by
          rcases ha with ha | rfl
          · exact ih a ha b (AReach.step hab)
          · exact hs b hab
        exact ih2 (Or.inl hb)
    intro a ha b hr
    rcases List.mem_cons.mp ha with rfl | h2
    · exact List.mem_cons_of_mem _ (key _ b hr (Or.inr rfl))
    · exact List.mem_cons_of_mem _ (key a b hr (Or.inl h2))

theorem topo_acyclic {c : List Net} (ht : Topo succ c) : ∀ a ∈ c, ¬ AReach succ a a := by
  induction ht with
  | nil => intro a ha; simp at ha
  | @cons v c hs hv ht' ih =>
    intro a ha hr
    rcases List.mem_cons.mp ha with rfl | h2
    · cases hr with
      | step h => exact hv (hs _ h)
      | trans h h' => exact hv (topo_closed succ ht' _ (hs _ h) _ h')
    · exact ih a h2 hr

/-- a block of nets whose successors are all finished can be put on top of a finishing order -/
theorem topo_append {c : List Net} (ht : Topo succ c) :
    ∀ l : List Net, (∀ e ∈ l, ∀ s ∈ succ e, s ∈ c) → l.Nodup → (∀ e ∈ l, e ∉ c) → Topo succ (l ++ c)
  | [], _, _, _ => ht
  | e :: l, hs, hn, hc => by
    have hn' := List.nodup_cons.mp hn
    have ih := topo_append ht l (fun x hx => hs x (List.mem_cons_of_mem _ hx)) hn'.2
      (fun x hx => hc x (List.mem_cons_of_mem _ hx))
    refine Topo.cons (fun s h => List.mem_append_right _ (hs e List.mem_cons_self s h)) ?_ ih
    intro h
    rcases List.mem_append.mp h with h | h
    · exact hn'.1 h
    · exact hc e List.mem_cons_self h

/-! ### equations -/

theorem loopEdges_nil (f : List Net → List Net → Net → Res) (b c : List Net) :
    loopEdges f b c [] = .ret b c none := rfl

theorem loopEdges_cons (f : List Net → List Net → Net → Res) (b c : List Net) (s : Net) (ss : List Net) :
    loopEdges f b c (s :: ss) = (f b c s).andThen fun b' c' => loopEdges f b' c' ss := rfl

theorem traverse_zero (fix : Bool) (b c : List Net) (n : Net) :
    traverse succ extra fix 0 b c n = .outOfFuel := rfl

theorem traverse_succ (fix : Bool) (fuel : Nat) (busy checked : List Net) (n : Net) :
    traverse succ extra fix (fuel + 1) busy checked n =
      if n ∈ checked then .ret busy checked none
      else if n ∈ busy then .ret busy checked (some ⟨n, []⟩)
      else
        if (extra n).any (fun e => decide (e ∈ checked)) then .assertFail
        else
          finish fix n (extra n)
            (loopEdges (traverse succ extra fix fuel) ((extra n).reverse ++ n :: busy) checked (succ n)) := rfl

theorem removeAll_restore (n : Net) (ex busy : List Net) (hn : n ∉ busy) (he : ∀ e ∈ ex, e ∉ busy) :
    removeAll (n :: ex) (ex.reverse ++ n :: busy) = busy := by
  unfold removeAll
  rw [List.filter_append]
  have h1 : (ex.reverse).filter (fun x => !(n :: ex).contains x) = [] := by
    rw [List.filter_eq_nil_iff]
    intro a ha
    have : a ∈ n :: ex := List.mem_cons_of_mem _ (List.mem_reverse.mp ha)
    simp [this]
  have h2 : (n :: busy).filter (fun x => !(n :: ex).contains x) = busy := by
    rw [List.filter_cons]
    have : (!(n :: ex).contains n) = false := by simp
    rw [this]
    simp only [Bool.false_eq_true, if_false]
    rw [List.filter_eq_self]
    intro a ha
    have hne : a ≠ n := fun h => hn (h ▸ ha)
    have hnex : a ∉ ex := fun h => he a h ha
    simp [hne, hnex]
  rw [h1, h2]; rfl

/-! ### soundness: whatever is reported is a walk (any `fix`, no assumption) -/

/-- walk over `succ`, same shape as the Spec's `Walk` -/
def AWalk : Net → List Net → Net → Prop
  | a, [], s => a = s
  | a, m :: p, s => m = a ∧ ∃ k, k ∈ succ a ∧ AWalk k p s

def SoundPost (fix : Bool) (ss : List Net) : Res → Prop
  | .ret _ _ (some cy) => ∃ s ∈ ss, AWalk succ s cy.path cy.start
  | .raise p => ∃ n rest s, p = n :: rest ∧ AWalk succ n p s ∧ (s = n ∨ (fix = true ∧ s ∈ extra n))
  | _ => True

theorem sound_andThen (fix : Bool) (s : Net) (ss : List Net) (r : Res) (k : List Net → List Net → Res)
    (h1 : SoundPost succ extra fix [s] r) (h2 : ∀ b c, SoundPost succ extra fix ss (k b c)) :
    SoundPost succ extra fix (s :: ss) (r.andThen k) := by
  cases r with
  | ret b c cyc =>
    cases cyc with
    | none =>
      simp only [Res.andThen]
      have := h2 b c
      revert this
      cases k b c with
      | ret b2 c2 cyc2 =>
        cases cyc2 with
        | none => intro _; trivial
        | some cy2 =>
          simp only [SoundPost]
          rintro ⟨s', hs', hw⟩
          exact ⟨s', List.mem_cons_of_mem _ hs', hw⟩
      | raise p => simp only [SoundPost]; exact id
      | assertFail => intro _; trivial
      | outOfFuel => intro _; trivial
    | some cy =>
      simp only [Res.andThen, SoundPost] at h1 ⊢
      obtain ⟨s', hs', hw⟩ := h1
      simp only [List.mem_singleton] at hs'
      subst hs'
      exact ⟨s', List.mem_cons_self, hw⟩
  | raise p => simpa [Res.andThen, SoundPost] using h1
  | assertFail => trivial
  | outOfFuel => trivial

theorem sound_finish (fix : Bool) (n : Net) (r : Res) (h1 : SoundPost succ extra fix (succ n) r) :
    SoundPost succ extra fix [n] (finish fix n (extra n) r) := by
  cases r with
  | ret b c cyc =>
    cases cyc with
    | none => trivial
    | some cy =>
      simp only [SoundPost] at h1
      obtain ⟨s', hs', hw⟩ := h1
      simp only [finish]
      by_cases hcond : (decide (cy.start = n) || (fix && (extra n).contains cy.start)) = true
      · rw [if_pos hcond]
        simp only [SoundPost]
        refine ⟨n, cy.path, cy.start, rfl, ⟨rfl, s', hs', hw⟩, ?_⟩
        simp only [Bool.or_eq_true, decide_eq_true_eq, Bool.and_eq_true, List.contains_iff_mem] at hcond
        rcases hcond with h | ⟨h1, h2⟩
        · exact Or.inl h
        · exact Or.inr ⟨h1, h2⟩
      · rw [if_neg hcond]
        simp only [SoundPost]
        exact ⟨n, List.mem_singleton.mpr rfl, rfl, s', hs', hw⟩
  | raise p => simpa [finish, SoundPost] using h1
  | assertFail => trivial
  | outOfFuel => trivial

theorem traverse_sound (fix : Bool) : ∀ (fuel : Nat) (busy checked : List Net) (n : Net),
    SoundPost succ extra fix [n] (traverse succ extra fix fuel busy checked n) := by
  intro fuel
  induction fuel with
  | zero => intro b c n; simp [traverse_zero, SoundPost]
  | succ fuel ih =>
    have loop : ∀ (ss : List Net) (b c : List Net),
        SoundPost succ extra fix ss (loopEdges (traverse succ extra fix fuel) b c ss) := by
      intro ss
      induction ss with
      | nil => intro b c; simp [loopEdges_nil, SoundPost]
      | cons s ss ihs =>
        intro b c
        rw [loopEdges_cons]
        exact sound_andThen succ extra fix s ss _ _ (ih b c s) (fun b' c' => ihs b' c')
    intro busy checked n
    rw [traverse_succ]
    by_cases hc : n ∈ checked
    · simp [hc, SoundPost]
    · by_cases hb : n ∈ busy
      · simp only [hc, hb, if_true, if_false, SoundPost]
        exact ⟨n, List.mem_singleton.mpr rfl, rfl⟩
      · simp only [hc, hb, if_false]
        by_cases hany : (extra n).any (fun e => decide (e ∈ checked)) = true
        · rw [if_pos hany]; trivial
        · rw [if_neg hany]
          exact sound_finish succ extra fix n _ (loop _ _ _)

/-- a walk of length ≥ 1 gives reachability -/
theorem awalk_reach : ∀ (p : List Net) (a k s : Net), k ∈ succ a → AWalk succ k p s → AReach succ a s
  | [], a, k, s, hk, hw => by
    have : k = s := hw
    subst this; exact AReach.step hk
  | m :: p, a, k, s, hk, hw => by
    obtain ⟨_, k', hk', hw'⟩ := hw
    exact AReach.trans hk (awalk_reach p k k' s hk' hw')

/-- a reported cycle is a cycle over `succ` -/
theorem cycle_areach (h : SibOK succ extra) {p : List Net}
    (hp : ∃ n rest s, p = n :: rest ∧ AWalk succ n p s ∧ (s = n ∨ s ∈ extra n)) : ∃ s, AReach succ s s := by
  obtain ⟨n, rest, s, rfl, hw, hs⟩ := hp
  obtain ⟨_, k, hk, hw'⟩ := hw
  refine ⟨s, ?_⟩
  have hk' : k ∈ succ s := by
    rcases hs with rfl | hs
    · exact hk
    · rw [h.succ_eq n s hs]; exact hk
  exact awalk_reach succ rest s k s hk' hw'

/-! ### the state invariant (repaired traversal) -/

structure Inv (U busy checked : List Net) : Prop where
  gcB : ∀ n m, m ∈ extra n → m ∈ busy → n ∈ busy
  gcC : ∀ n m, m ∈ extra n → m ∈ checked → n ∈ checked
  topo : Topo succ checked
  disj : ∀ x ∈ checked, x ∉ busy
  nodupB : busy.Nodup
  subB : ∀ x ∈ busy, x ∈ U

/-- what a call (or a run of the edge loop over `ss`) guarantees when entered in a good state -/
def Post (U busy checked ss : List Net) : Res → Prop
  | .ret b c none => b = busy ∧ Inv succ extra U busy c ∧ (∀ x ∈ checked, x ∈ c) ∧ ∀ s ∈ ss, s ∈ c
  | .ret b _ (some cy) => b = busy ∧ cy.start ∈ busy
  | .raise _ => True
  | .assertFail => False
  | .outOfFuel => False

theorem post_andThen (U busy checked : List Net) (s : Net) (ss : List Net) (r : Res)
    (k : List Net → List Net → Res)
    (h1 : Post succ extra U busy checked [s] r)
    (h2 : ∀ c, Inv succ extra U busy c → Post succ extra U busy c ss (k busy c)) :
    Post succ extra U busy checked (s :: ss) (r.andThen k) := by
  cases r with
  | ret b' c' cyc =>
    cases cyc with
    | none =>
      simp only [Post] at h1
      obtain ⟨rfl, hI', hmono, hs⟩ := h1
      simp only [Res.andThen]
      have := h2 c' hI'
      revert this
      cases k b' c' with
      | ret b2 c2 cyc2 =>
        cases cyc2 with
        | none =>
          simp only [Post]
          rintro ⟨rfl, hI2, hmono2, hs2⟩
          refine ⟨rfl, hI2, fun x hx => hmono2 x (hmono x hx), ?_⟩
          intro t ht
          rcases List.mem_cons.mp ht with rfl | ht
          · exact hmono2 _ (hs _ (List.mem_singleton.mpr rfl))
          · exact hs2 t ht
        | some cy2 => simp only [Post]; exact id
      | raise p => intro _; trivial
      | assertFail => simp only [Post]; exact id
      | outOfFuel => simp only [Post]; exact id
    | some cy => simpa only [Res.andThen, Post] using h1
  | raise p => trivial
  | assertFail => exact h1
  | outOfFuel => exact h1

theorem traverse_post (h : SibOK succ extra) (U : List Net)
    (hUs : ∀ n ∈ U, ∀ s ∈ succ n, s ∈ U) (hUe : ∀ n ∈ U, ∀ m ∈ extra n, m ∈ U) :
    ∀ (fuel : Nat) (busy checked : List Net) (n : Net),
      Inv succ extra U busy checked → n ∈ U → U.length + 1 ≤ fuel + busy.length →
      Post succ extra U busy checked [n] (traverse succ extra true fuel busy checked n) := by
  intro fuel
  induction fuel with
  | zero =>
    intro busy checked n hI _ hf
    have := nodup_length_le busy U hI.nodupB hI.subB
    omega
  | succ fuel ih =>
    have loop : ∀ (ss : List Net) (busy checked : List Net), (∀ s ∈ ss, s ∈ U) →
        Inv succ extra U busy checked → U.length + 1 ≤ fuel + busy.length →
        Post succ extra U busy checked ss (loopEdges (traverse succ extra true fuel) busy checked ss) := by
      intro ss
      induction ss with
      | nil =>
        intro busy checked _ hI _
        rw [loopEdges_nil]
        exact ⟨rfl, hI, fun x hx => hx, by simp⟩
      | cons s ss ihs =>
        intro busy checked hss hI hf
        rw [loopEdges_cons]
        exact post_andThen succ extra U busy checked s ss _ _
          (ih busy checked s hI (hss s List.mem_cons_self) hf)
          (fun c hIc => ihs busy c (fun x hx => hss x (List.mem_cons_of_mem _ hx)) hIc hf)
    intro busy checked n hI hnU hf
    rw [traverse_succ]
    by_cases hc : n ∈ checked
    · rw [if_pos hc]
      exact ⟨rfl, hI, fun x hx => hx, by simpa using hc⟩
    · by_cases hb : n ∈ busy
      · rw [if_neg hc, if_pos hb]
        exact ⟨rfl, hb⟩
      · simp only [hc, hb, if_false]
        -- the fused siblings are neither checked nor busy
        have hexC : ∀ e ∈ extra n, e ∉ checked := fun e he hec => hc (hI.gcC n e he hec)
        have hexB : ∀ e ∈ extra n, e ∉ busy := fun e he heb => hb (hI.gcB n e he heb)
        have hany : (extra n).any (fun e => decide (e ∈ checked)) = false := by
          rw [List.any_eq_false]
          intro e he
          simpa using hexC e he
        rw [hany]
        simp only [Bool.false_eq_true, if_false]
        -- the state in which the edge loop starts
        have grp : ∀ k m, m ∈ extra k → (m ∈ extra n ∨ m = n) → (k ∈ extra n ∨ k = n) := by
          intro k m hmk hm
          rcases hm with hm | rfl
          · rcases h.trans n m k hm (h.symm k m hmk) with h1 | h1
            · exact Or.inr h1
            · exact Or.inl h1
          · exact Or.inl (h.symm k m hmk)
        have hI1 : Inv succ extra U ((extra n).reverse ++ n :: busy) checked := by
          refine ⟨?_, hI.gcC, hI.topo, ?_, ?_, ?_⟩
          · intro k m hmk hm
            simp only [List.mem_append, List.mem_reverse, List.mem_cons] at hm ⊢
            rcases hm with hm | hm | hm
            · rcases grp k m hmk (Or.inl hm) with h1 | h1
              · exact Or.inl h1
              · exact Or.inr (Or.inl h1)
            · rcases grp k m hmk (Or.inr hm) with h1 | h1
              · exact Or.inl h1
              · exact Or.inr (Or.inl h1)
            · exact Or.inr (Or.inr (hI.gcB k m hmk hm))
          · intro x hx hx1
            simp only [List.mem_append, List.mem_reverse, List.mem_cons] at hx1
            rcases hx1 with h1 | rfl | h1
            · exact hexC x h1 hx
            · exact hc hx
            · exact hI.disj x hx h1
          · rw [List.nodup_append]
            refine ⟨List.pairwise_reverse.mpr ((h.nodup n).imp fun hab => Ne.symm hab), ?_, ?_⟩
            · exact List.nodup_cons.mpr ⟨hb, hI.nodupB⟩
            · intro a ha b hb'
              have ha' := List.mem_reverse.mp ha
              rcases List.mem_cons.mp hb' with rfl | hb'
              · intro hab; subst hab; exact h.irrefl _ ha'
              · intro hab; subst hab; exact hexB _ ha' hb'
          · intro x hx
            simp only [List.mem_append, List.mem_reverse, List.mem_cons] at hx
            rcases hx with h1 | rfl | h1
            · exact hUe n hnU x h1
            · exact hnU
            · exact hI.subB x h1
        have hf1 : U.length + 1 ≤ fuel + ((extra n).reverse ++ n :: busy).length := by
          simp only [List.length_append, List.length_cons, List.length_reverse]
          omega
        have h2 := loop (succ n) _ checked (hUs n hnU) hI1 hf1
        revert h2
        cases loopEdges (traverse succ extra true fuel) ((extra n).reverse ++ n :: busy) checked (succ n) with
        | ret b2 c2 cyc2 =>
          cases cyc2 with
          | none =>
            simp only [Post, finish]
            rintro ⟨rfl, hI2, hmono2, hs2⟩
            refine ⟨removeAll_restore n (extra n) busy hb hexB, ?_, ?_, ?_⟩
            · -- the invariant after moving `n` and its siblings to `checked`
              have hnc2 : ∀ e, (e ∈ extra n ∨ e = n) → e ∉ c2 := by
                intro e he hec
                refine hI2.disj e hec ?_
                simp only [List.mem_append, List.mem_reverse, List.mem_cons]
                rcases he with he | he
                · exact Or.inl he
                · exact Or.inr (Or.inl he)
              refine ⟨hI.gcB, ?_, ?_, ?_, hI.nodupB, hI.subB⟩
              · intro k m hmk hm
                simp only [List.mem_append, List.mem_reverse, List.mem_cons] at hm ⊢
                rcases hm with hm | hm | hm
                · rcases grp k m hmk (Or.inl hm) with h1 | h1
                  · exact Or.inl h1
                  · exact Or.inr (Or.inl h1)
                · rcases grp k m hmk (Or.inr hm) with h1 | h1
                  · exact Or.inl h1
                  · exact Or.inr (Or.inl h1)
                · exact Or.inr (Or.inr (hI2.gcC k m hmk hm))
              · have : (extra n).reverse ++ n :: c2 = ((extra n).reverse ++ [n]) ++ c2 := by simp
                rw [this]
                refine topo_append succ hI2.topo _ ?_ ?_ ?_
                · intro e he s hs
                  simp only [List.mem_append, List.mem_reverse, List.mem_singleton] at he
                  rcases he with he | rfl
                  · rw [h.succ_eq n e he] at hs; exact hs2 s hs
                  · exact hs2 s hs
                · rw [List.nodup_append]
                  refine ⟨List.pairwise_reverse.mpr ((h.nodup n).imp fun hab => Ne.symm hab), by simp, ?_⟩
                  intro a ha b hb'
                  simp only [List.mem_singleton] at hb'
                  subst hb'
                  intro hab; subst hab
                  exact h.irrefl _ (List.mem_reverse.mp ha)
                · intro e he
                  simp only [List.mem_append, List.mem_reverse, List.mem_singleton] at he
                  exact hnc2 e he
              · intro x hx hxb
                simp only [List.mem_append, List.mem_reverse, List.mem_cons] at hx
                rcases hx with h1 | rfl | h1
                · exact hexB x h1 hxb
                · exact hb hxb
                · exact hI2.disj x h1 (by simp [hxb])
            · intro x hx
              simp only [List.mem_append, List.mem_reverse, List.mem_cons]
              exact Or.inr (Or.inr (hmono2 x hx))
            · intro s hs
              simp only [List.mem_singleton] at hs
              subst hs
              simp
          | some cy =>
            simp only [finish]
            rintro ⟨rfl, hst⟩
            by_cases hcond : (decide (cy.start = n) || (true && (extra n).contains cy.start)) = true
            · rw [if_pos hcond]; trivial
            · rw [if_neg hcond]
              simp only [Bool.true_and, Bool.or_eq_true, decide_eq_true_eq, List.contains_iff_mem, not_or] at hcond
              simp only [Post]
              refine ⟨removeAll_restore n (extra n) busy hb hexB, ?_⟩
              simp only [List.mem_append, List.mem_reverse, List.mem_cons] at hst
              rcases hst with h1 | h1 | h1
              · exact absurd h1 hcond.2
              · exact absurd h1 hcond.1
              · exact h1
        | raise p => intro _; trivial
        | assertFail => simp only [Post, finish]; exact id
        | outOfFuel => simp only [Post, finish]; exact id

/-! ### the two final loops -/

theorem run_sound (fix : Bool) (fuel : Nat) : ∀ (rs busy checked : List Net) (p : List Net),
    run succ extra fix fuel rs busy checked = .cycle p →
    ∃ n rest s, p = n :: rest ∧ AWalk succ n p s ∧ (s = n ∨ (fix = true ∧ s ∈ extra n))
  | [], _, _, p, h => by simp [run] at h
  | r :: rs, busy, checked, p, h => by
    simp only [run] at h
    have h1 := traverse_sound succ extra fix fuel busy checked r
    revert h h1
    cases traverse succ extra fix fuel busy checked r with
    | ret b c cyc =>
      cases cyc with
      | none => intro h _; exact run_sound fix fuel rs b c p h
      | some cy => intro h; simp at h
    | raise q =>
      simp only [SoundPost]
      intro h h1
      have : q = p := by simpa using h
      subst this; exact h1
    | assertFail => intro h; simp at h
    | outOfFuel => intro h; simp at h

/-- the repaired detector, started with an empty `busy`, either raises or ends in a state in which
every root is checked and `checked` is a finishing order -/
theorem run_post (h : SibOK succ extra) (U : List Net)
    (hUs : ∀ n ∈ U, ∀ s ∈ succ n, s ∈ U) (hUe : ∀ n ∈ U, ∀ m ∈ extra n, m ∈ U) (fuel : Nat)
    (hf : U.length + 1 ≤ fuel) : ∀ (rs checked : List Net), (∀ r ∈ rs, r ∈ U) →
    Inv succ extra U [] checked →
    (∃ p, run succ extra true fuel rs [] checked = .cycle p) ∨
    (run succ extra true fuel rs [] checked = .ok ∧
      ∃ c, Topo succ c ∧ (∀ x ∈ checked, x ∈ c) ∧ ∀ r ∈ rs, r ∈ c)
  | [], checked, _, hI => Or.inr ⟨rfl, checked, hI.topo, fun x hx => hx, by simp⟩
  | r :: rs, checked, hrs, hI => by
    simp only [run]
    have h1 := traverse_post succ extra h U hUs hUe fuel [] checked r hI (hrs r List.mem_cons_self) (by simpa using hf)
    revert h1
    cases traverse succ extra true fuel [] checked r with
    | ret b c cyc =>
      cases cyc with
      | none =>
        simp only [Post]
        rintro ⟨rfl, hI', hmono, hr⟩
        rcases run_post h U hUs hUe fuel hf rs c (fun x hx => hrs x (List.mem_cons_of_mem _ hx)) hI' with h2 | ⟨h2, c', ht, hm, hr'⟩
        · exact Or.inl h2
        · refine Or.inr ⟨h2, c', ht, fun x hx => hm x (hmono x hx), ?_⟩
          intro t ht'
          rcases List.mem_cons.mp ht' with rfl | ht'
          · exact hm _ (hr _ (List.mem_singleton.mpr rfl))
          · exact hr' t ht'
      | some cy => simp [Post]
    | raise p => intro _; exact Or.inl ⟨p, rfl⟩
    | assertFail => simp [Post]
    | outOfFuel => simp [Post]

theorem inv_init (U : List Net) : Inv succ extra U [] [] :=
  ⟨fun _ _ _ h => by simp at h, fun _ _ _ h => by simp at h, Topo.nil, fun _ h => by simp at h,
   List.nodup_nil, fun _ h => by simp at h⟩

/-! ### more fuel does not change an answer -/

theorem andThen_ne_fuel {r : Res} {k : List Net → List Net → Res} (h : r.andThen k ≠ .outOfFuel) :
    r ≠ .outOfFuel := by
  intro hr; subst hr; exact h rfl

theorem finish_ne_fuel {fix : Bool} {n : Net} {ex : List Net} {r : Res}
    (h : finish fix n ex r ≠ .outOfFuel) : r ≠ .outOfFuel := by
  intro hr; subst hr; exact h rfl

theorem loopEdges_congr (f f' : List Net → List Net → Net → Res)
    (hf : ∀ b c s, f b c s ≠ .outOfFuel → f' b c s = f b c s) :
    ∀ (ss b c : List Net), loopEdges f b c ss ≠ .outOfFuel → loopEdges f' b c ss = loopEdges f b c ss
  | [], _, _, _ => rfl
  | s :: ss, b, c, h => by
    rw [loopEdges_cons] at h ⊢
    rw [loopEdges_cons, hf b c s (andThen_ne_fuel h)]
    cases hr : f b c s with
    | ret b' c' cyc =>
      cases cyc with
      | none =>
        rw [hr] at h
        simp only [Res.andThen] at h ⊢
        exact loopEdges_congr f f' hf ss b' c' h
      | some cy => rfl
    | raise p => rfl
    | assertFail => rfl
    | outOfFuel => rfl

theorem traverse_mono (fix : Bool) : ∀ (fuel : Nat) (b c : List Net) (n : Net),
    traverse succ extra fix fuel b c n ≠ .outOfFuel →
    traverse succ extra fix (fuel + 1) b c n = traverse succ extra fix fuel b c n := by
  intro fuel
  induction fuel with
  | zero => intro b c n h; exact absurd rfl h
  | succ fuel ih =>
    intro b c n h
    rw [traverse_succ] at h
    rw [traverse_succ succ extra fix (fuel + 1), traverse_succ succ extra fix fuel]
    by_cases hc : n ∈ c
    · simp only [hc, if_true]
    · by_cases hb : n ∈ b
      · simp only [hc, hb, if_true, if_false]
      · simp only [hc, hb, if_false] at h ⊢
        by_cases hany : (extra n).any (fun e => decide (e ∈ c)) = true
        · simp only [hany, if_true]
        · rw [if_neg hany] at h
          rw [if_neg hany, if_neg hany]
          rw [loopEdges_congr _ _ ih _ _ _ (finish_ne_fuel h)]

theorem run_mono (fix : Bool) (fuel : Nat) : ∀ (rs b c : List Net),
    run succ extra fix fuel rs b c ≠ .outOfFuel →
    run succ extra fix (fuel + 1) rs b c = run succ extra fix fuel rs b c
  | [], _, _, _ => rfl
  | r :: rs, b, c, h => by
    simp only [run] at h ⊢
    have ht : traverse succ extra fix fuel b c r ≠ .outOfFuel := by
      intro hr; rw [hr] at h; exact h rfl
    rw [traverse_mono succ extra fix fuel b c r ht]
    cases hr : traverse succ extra fix fuel b c r with
    | ret b' c' cyc =>
      cases cyc with
      | none =>
        rw [hr] at h
        exact run_mono fix fuel rs b' c' h
      | some cy => rfl
    | raise p => rfl
    | assertFail => rfl
    | outOfFuel => rfl

theorem run_mono_add (fix : Bool) (fuel : Nat) (rs b c : List Net)
    (h : run succ extra fix fuel rs b c ≠ .outOfFuel) :
    ∀ k, run succ extra fix (fuel + k) rs b c = run succ extra fix fuel rs b c
  | 0 => rfl
  | k + 1 => by
    have ih := run_mono_add fix fuel rs b c h k
    have : run succ extra fix (fuel + k) rs b c ≠ .outOfFuel := by rw [ih]; exact h
    rw [← Nat.add_assoc, run_mono succ extra fix (fuel + k) rs b c this, ih]

end Abstract

/-! ## Part 2: `Graph.succ` / `Graph.extra` and the Spec -/

theorem edge_iff (g : Graph) (a b : Net) : Edge g a b ↔ b ∈ g.succ a := by
  unfold Edge Graph.succ
  cases hc : g.cells[a.1]? with
  | none => simp
  | some c =>
    simp only [Option.some.injEq, exists_eq_left']
    by_cases hw : a.2 < c.width
    · simp only [hw, true_and, if_true]
      cases hf : c.fused with
      | true => simp
      | false =>
        simp only [Bool.false_eq_true, false_and, false_or, true_and, if_false]
        rw [List.getD_eq_getElem?_getD]
        cases hl : c.bitIns[a.2]? with
        | none => simp
        | some l => simp
    · simp [hw]

theorem mem_extra_iff (g : Graph) (n m : Net) :
    m ∈ g.extra n ↔ ∃ c, g.cells[n.1]? = some c ∧ c.fused = true ∧ n.2 < c.width ∧
      m.1 = n.1 ∧ m.2 < c.width ∧ m.2 ≠ n.2 := by
  unfold Graph.extra
  cases hc : g.cells[n.1]? with
  | none => simp
  | some c =>
    simp only [Option.some.injEq, exists_eq_left']
    by_cases hcond : c.fused = true ∧ n.2 < c.width
    · have : (c.fused && decide (n.2 < c.width)) = true := by simp [hcond.1, hcond.2]
      rw [this]
      simp only [if_true, List.mem_map, List.mem_filter, List.mem_range, bne_iff_ne, ne_eq]
      constructor
      · rintro ⟨b, ⟨hb1, hb2⟩, rfl⟩
        exact ⟨hcond.1, hcond.2, rfl, hb1, hb2⟩
      · rintro ⟨_, _, h1, h2, h3⟩
        refine ⟨m.2, ⟨h2, h3⟩, ?_⟩
        rw [← h1]
    · have : (c.fused && decide (n.2 < c.width)) = false := by
        cases hf : c.fused <;> simp_all
      rw [this]
      simp only [Bool.false_eq_true, if_false, List.not_mem_nil, false_iff]
      rintro ⟨h1, h2, _⟩
      exact hcond ⟨h1, h2⟩

theorem extra_sameWord (g : Graph) (n m : Net) (h : m ∈ g.extra n) : SameWord g m n := by
  obtain ⟨c, hc, hf, hn, h1, h2, _⟩ := (mem_extra_iff g n m).mp h
  exact ⟨c, by rw [h1]; exact hc, hf, h1, h2, hn⟩

theorem sibOK (g : Graph) : SibOK g.succ g.extra where
  succ_eq := by
    intro n m h
    obtain ⟨c, hc, hf, hn, h1, h2, _⟩ := (mem_extra_iff g n m).mp h
    unfold Graph.succ
    rw [h1, hc]
    simp [hn, h2, hf]
  symm := by
    intro n m h
    obtain ⟨c, hc, hf, hn, h1, h2, h3⟩ := (mem_extra_iff g n m).mp h
    exact (mem_extra_iff g m n).mpr ⟨c, by rw [h1]; exact hc, hf, h2, h1.symm, hn, fun e => h3 e.symm⟩
  trans := by
    intro n m k h1 h2
    obtain ⟨c, hc, hf, hn, e1, w1, d1⟩ := (mem_extra_iff g n m).mp h1
    obtain ⟨c', hc', _, _, e2, w2, _⟩ := (mem_extra_iff g m k).mp h2
    rw [e1, hc] at hc'
    have : c' = c := by simpa using hc'.symm
    subst this
    by_cases hk : k.2 = n.2
    · left
      exact Prod.ext (by rw [e2, e1]) hk
    · right
      exact (mem_extra_iff g n k).mpr ⟨c', hc, hf, hn, by rw [e2, e1], w2, hk⟩
  irrefl := by
    intro n h
    obtain ⟨_, _, _, _, _, _, h3⟩ := (mem_extra_iff g n n).mp h
    exact h3 rfl
  nodup := by
    intro n
    unfold Graph.extra
    cases g.cells[n.1]? with
    | none => exact List.nodup_nil
    | some c =>
      simp only []
      split
      · rw [List.Nodup, List.pairwise_map]
        exact (List.Pairwise.filter _ List.nodup_range).imp (fun hab h => hab (congrArg Prod.snd h))
      · exact List.nodup_nil

theorem mem_nets_iff (g : Graph) (n : Net) :
    n ∈ g.nets ↔ ∃ c, g.cells[n.1]? = some c ∧ n.2 < c.width := by
  unfold Graph.nets
  simp only [List.mem_flatMap, List.mem_range, List.mem_map]
  constructor
  · rintro ⟨i, hi, b, hb, rfl⟩
    refine ⟨g.cells[i], by simp [hi], ?_⟩
    simpa [List.getD_eq_getElem?_getD, hi] using hb
  · rintro ⟨c, hc, hw⟩
    have hi : n.1 < g.cells.length := by
      rcases List.getElem?_eq_some_iff.mp hc with ⟨h, _⟩; exact h
    refine ⟨n.1, hi, n.2, ?_, rfl⟩
    simpa [List.getD_eq_getElem?_getD, hc] using hw

theorem succ_sub_targets (g : Graph) (n s : Net) (h : s ∈ g.succ n) : s ∈ g.targets := by
  unfold Graph.succ at h
  unfold Graph.targets
  cases hc : g.cells[n.1]? with
  | none => simp [hc] at h
  | some c =>
    rw [hc] at h
    simp only [] at h
    have hcm : c ∈ g.cells := List.mem_of_getElem? hc
    rw [List.mem_flatMap]
    refine ⟨c, hcm, ?_⟩
    split at h
    · split at h
      · exact List.mem_append_left _ h
      · refine List.mem_append_right _ ?_
        rw [List.getD_eq_getElem?_getD] at h
        cases hl : c.bitIns[n.2]? with
        | none => simp [hl] at h
        | some l =>
          rw [hl] at h
          exact List.mem_flatten.mpr ⟨l, List.mem_of_getElem? hl, h⟩
    · simp at h

theorem universe_succ (g : Graph) : ∀ n ∈ g.universe, ∀ s ∈ g.succ n, s ∈ g.universe := by
  intro n _ s hs
  exact List.mem_append_right _ (succ_sub_targets g n s hs)

theorem universe_extra (g : Graph) : ∀ n ∈ g.universe, ∀ m ∈ g.extra n, m ∈ g.universe := by
  intro n _ m hm
  obtain ⟨c, hc, _, _, h1, h2, _⟩ := (mem_extra_iff g n m).mp hm
  refine List.mem_append_left _ (List.mem_append_left _ ?_)
  exact (mem_nets_iff g m).mpr ⟨c, by rw [h1]; exact hc, h2⟩

theorem reach_iff (g : Graph) (a b : Net) : Reach g a b ↔ AReach g.succ a b := by
  constructor
  · intro h
    induction h with
    | step e => exact AReach.step ((edge_iff g _ _).mp e)
    | trans e _ ih => exact AReach.trans ((edge_iff g _ _).mp e) ih
  · intro h
    induction h with
    | step e => exact Reach.step ((edge_iff g _ _).mpr e)
    | trans e _ ih => exact Reach.trans ((edge_iff g _ _).mpr e) ih

theorem walk_iff (g : Graph) : ∀ (p : List Net) (a s : Net), Walk g a p s ↔ AWalk g.succ a p s
  | [], a, s => Iff.rfl
  | m :: p, a, s => by
    simp only [Walk, AWalk]
    constructor
    · rintro ⟨h1, k, hk, hw⟩
      exact ⟨h1, k, (edge_iff g _ _).mp hk, (walk_iff g p k s).mp hw⟩
    · rintro ⟨h1, k, hk, hw⟩
      exact ⟨h1, k, (edge_iff g _ _).mpr hk, (walk_iff g p k s).mpr hw⟩

/-- only an output net of a cell can lie on a cycle -/
theorem reach_mem_nets (g : Graph) {a b : Net} (h : Reach g a b) : a ∈ g.nets := by
  have he : ∃ k, Edge g a k := by
    cases h with
    | step e => exact ⟨_, e⟩
    | trans e _ => exact ⟨_, e⟩
  obtain ⟨k, c, hc, hw, _⟩ := he
  exact (mem_nets_iff g a).mpr ⟨c, hc, hw⟩

theorem reach_succ_ne (g : Graph) {a b : Net} (h : Reach g a b) : g.succ a ≠ [] := by
  have he : ∃ k, Edge g a k := by
    cases h with
    | step e => exact ⟨_, e⟩
    | trans e _ => exact ⟨_, e⟩
  obtain ⟨k, hk⟩ := he
  intro h0
  have := (edge_iff g a k).mp hk
  rw [h0] at this
  cases this

/-! ## Part 3: the certificate checkers -/

theorem walkB_iff (g : Graph) : ∀ (p : List Net) (a s : Net), walkB g a p s = true ↔ AWalk g.succ a p s
  | [], a, s => by simp [walkB, AWalk]
  | m :: p, a, s => by
    simp only [walkB, AWalk, Bool.and_eq_true, beq_iff_eq, List.any_eq_true]
    constructor
    · rintro ⟨h1, k, hk, hw⟩
      exact ⟨h1, k, hk, (walkB_iff g p k s).mp hw⟩
    · rintro ⟨h1, k, hk, hw⟩
      exact ⟨h1, k, hk, (walkB_iff g p k s).mpr hw⟩

theorem topoB_iff (g : Graph) : ∀ (c : List Net), topoB g c = true → Topo g.succ c
  | [], _ => Topo.nil
  | v :: c, h => by
    simp only [topoB, Bool.and_eq_true, List.all_eq_true, Bool.not_eq_eq_eq_not,
      Bool.not_true, List.contains_eq_mem, decide_eq_false_iff_not, decide_eq_true_eq] at h
    exact Topo.cons h.1.1 h.1.2 (topoB_iff g c h.2)

end Amaranth.CombCycle
