import AmaranthVerif.Proofs.CrcHw

/-! # The residue: what a trailing CRC leaves in the register, and when only it does -/

namespace Amaranth.Crc
open Amaranth.Williams

/-- feeding the `w` bits of `x` into the `w`-bit register `r` is feeding `w` zero bits into `r ^^^ x` -/
theorem feed_word_eq_zeros {w poly : Nat} (hw : 0 < w) {x : Nat} (hx : x < 2 ^ w) (r : Nat) :
    feed w poly r (msbFirst w x) = iter (S0 w poly) w (r ^^^ x) := by
  have h1 := wide_feed (w := w) (poly := poly) (D := w) hw w r x (Nat.le_refl _) hx
  have h2 := wide_feed (w := w) (poly := poly) (D := w) hw w (r ^^^ x) 0 (Nat.le_refl _) (Nat.two_pow_pos w)
  have h0 : w + w - w = w := by omega
  rw [h0] at h1 h2
  rw [Nat.shiftLeft_xor_distrib, Nat.zero_shiftLeft, Nat.xor_zero] at h2
  rw [h2] at h1
  have := congrArg (· >>> w) h1
  simp only [Nat.shiftLeft_shiftRight] at this
  rw [← this, msbFirst_zero, feed_zeros]

theorem trailerChunks_bits (dw k v : Nat) :
    (trailerChunks dw k v).flatMap (msbFirst dw) = msbFirst (k * dw) v := by
  induction k with
  | zero => simp [trailerChunks, msbFirst]
  | succ k ih =>
    have : (k + 1) * dw = dw + k * dw := by rw [Nat.add_mul]; omega
    rw [this, msbFirst_add]
    simp [trailerChunks, ih, msbFirst_mod]

theorem length_trailerChunks (dw k v : Nat) : (trailerChunks dw k v).length = k := by
  induction k with
  | zero => rfl
  | succ k ih => simp [trailerChunks, ih]

theorem trailerChunks_lt (dw k v : Nat) : ∀ c ∈ trailerChunks dw k v, c < 2 ^ dw := by
  induction k with
  | zero => simp [trailerChunks]
  | succ k ih =>
    intro c hc
    simp only [trailerChunks, List.mem_cons] at hc
    rcases hc with hc | hc
    · subst hc; exact Nat.mod_lt _ (Nat.two_pow_pos dw)
    · exact ih c hc

theorem wordBits_unreflect (p : Params) (dw c : Nat) :
    wordBits p dw (if p.refin then reflect c dw else c) = msbFirst dw c := by
  unfold wordBits
  by_cases h : p.refin = true
  · simp [h, lsbFirst_reflect]
  · simp [h]

/-- the bit stream of a trailer is the value it carries, most significant bit first -/
theorem trailer_bits (p : Params) (dw c : Nat) :
    (trailer p dw c).flatMap (wordBits p dw)
      = msbFirst (p.width / dw * dw) (if p.refout then reflect c p.width else c) := by
  simp only [trailer, List.flatMap_map, wordBits_unreflect]
  exact trailerChunks_bits _ _ _

theorem length_trailer (p : Params) (dw c : Nat) : (trailer p dw c).length = p.width / dw := by
  simp [trailer, length_trailerChunks]

theorem trailer_lt (p : Params) (dw c : Nat) : ∀ x ∈ trailer p dw c, x < 2 ^ dw := by
  intro x hx
  simp only [trailer, List.mem_map] at hx
  obtain ⟨y, hy, rfl⟩ := hx
  split
  · exact reflect_lt _ _
  · exact trailerChunks_lt _ _ _ y hy

/-- `XorOut` as it sits in the register -/
def xorReg (p : Params) : Nat := if p.refout then reflect p.xorout p.width else p.xorout

theorem xorReg_lt {p : Params} (hv : p.Valid) : xorReg p < 2 ^ p.width := by
  unfold xorReg; split
  · exact reflect_lt _ _
  · exact hv.2.2.2

/-- the register value every codeword ends in -/
def residueReg (p : Params) : Nat := iter (S0 p.width p.poly) p.width (xorReg p)

theorem iter_S0_lt {w poly : Nat} (hp : poly < 2 ^ w) (n : Nat) {r : Nat} (hr : r < 2 ^ w) :
    iter (S0 w poly) n r < 2 ^ w := by
  induction n generalizing r with
  | zero => exact hr
  | succ n ih => exact ih (S0_lt hp r)

theorem residueReg_lt {p : Params} (hv : p.Valid) : residueReg p < 2 ^ p.width :=
  iter_S0_lt hv.2.1 _ (xorReg_lt hv)

theorem residue_eq {p : Params} (hv : p.Valid) :
    residue p = if p.refout then reflect (residueReg p) p.width else residueReg p := by
  have hv' : ({ p with init := xorReg p, refin := false, xorout := 0 } : Params).Valid :=
    ⟨hv.1, hv.2.1, xorReg_lt hv, Nat.two_pow_pos _⟩
  unfold residue
  show compute { p with init := xorReg p, refin := false, xorout := 0 } p.width [0] = _
  rw [compute, computeReg_eq_register hv' p.width [0] (by simp [Nat.two_pow_pos])]
  simp [finish, register, stream, msbFirst_zero, feed_zeros, residueReg]

/-- the value a transmitted CRC carries is the register xor-ed with the placed `XorOut` -/
theorem trailer_value {p : Params} {r : Nat} (hr : r < 2 ^ p.width) :
    (if p.refout then reflect ((if p.refout then reflect r p.width else r) ^^^ p.xorout) p.width
      else (if p.refout then reflect r p.width else r) ^^^ p.xorout) = r ^^^ xorReg p := by
  unfold xorReg
  by_cases h : p.refout = true
  · simp [h, reflect_xor, reflect_reflect hr]
  · simp [h]

/-- after a message and `k = width / dw` further words, the register is `width` zero-steps applied
    to (register after the message) xor (value carried by those words) -/
theorem register_trailer {p : Params} (hv : p.Valid) {dw : Nat}
    (msg t : List Nat) {v : Nat} (hv' : v < 2 ^ p.width)
    (ht : t.flatMap (wordBits p dw) = msbFirst p.width v) :
    register p dw (msg ++ t) = iter (S0 p.width p.poly) p.width (register p dw msg ^^^ v) := by
  have : register p dw (msg ++ t) = feed p.width p.poly (register p dw msg) (t.flatMap (wordBits p dw)) := by
    simp only [register, stream_eq, List.flatMap_append, List.foldl_append]
  rw [this, ht, feed_word_eq_zeros hv.1 hv']

theorem register_codeword {p : Params} (hv : p.Valid) {dw : Nat} (hdiv : p.width / dw * dw = p.width)
    (msg : List Nat) : register p dw (msg ++ trailer p dw (crc p dw msg)) = residueReg p := by
  have hr := register_lt hv dw msg
  have hval : register p dw msg ^^^ xorReg p < 2 ^ p.width := Nat.xor_lt_two_pow hr (xorReg_lt hv)
  rw [register_trailer hv msg _ hval]
  · rw [← Nat.xor_assoc, Nat.xor_self, Nat.zero_xor]; rfl
  · rw [trailer_bits, hdiv]
    unfold crc
    simp only []
    rw [trailer_value hr]

/-! ## odd polynomial: the step is injective -/

theorem xor_eq_zero {a b : Nat} (h : a ^^^ b = 0) : a = b := by
  have := xor_cancel_left a b
  rw [h, Nat.xor_zero] at this
  exact this

theorem S0_kernel {w poly : Nat} (hodd : poly.testBit 0 = true) {c : Nat} (hc : c < 2 ^ w)
    (h : S0 w poly c = 0) : c = 0 := by
  rw [S0_def] at h
  have top : c.testBit (w - 1) = false := by
    have h0 := congrArg (fun t => t.testBit 0) h
    simp only [Nat.testBit_xor, Nat.testBit_mod_two_pow, Nat.testBit_shiftLeft, Nat.zero_testBit] at h0
    cases ht : c.testBit (w - 1)
    · rfl
    · simp [ht, hodd] at h0
  rw [top] at h
  simp only [Bool.false_eq_true, if_false, Nat.xor_zero] at h
  apply Nat.eq_of_testBit_eq; intro i
  rw [Nat.zero_testBit]
  by_cases hi : i + 1 < w
  · have h1 := congrArg (fun t => t.testBit (i + 1)) h
    simp only [Nat.testBit_mod_two_pow, Nat.testBit_shiftLeft, Nat.zero_testBit] at h1
    simpa [hi] using h1
  · by_cases hi' : i = w - 1
    · rw [hi', top]
    · exact testBit_of_lt hc (by omega)

theorem S0_inj {w poly : Nat} (hodd : poly.testBit 0 = true) {a b : Nat}
    (ha : a < 2 ^ w) (hb : b < 2 ^ w) (h : S0 w poly a = S0 w poly b) : a = b := by
  apply xor_eq_zero
  apply S0_kernel hodd (Nat.xor_lt_two_pow ha hb)
  rw [S0_xor, h, Nat.xor_self]

theorem iter_S0_inj {w poly : Nat} (hp : poly < 2 ^ w) (hodd : poly.testBit 0 = true) (n : Nat)
    {a b : Nat} (ha : a < 2 ^ w) (hb : b < 2 ^ w) (h : iter (S0 w poly) n a = iter (S0 w poly) n b) : a = b := by
  induction n generalizing a b with
  | zero => exact h
  | succ n ih => exact S0_inj hodd ha hb (ih (S0_lt hp a) (S0_lt hp b) h)

theorem length_wordBits (p : Params) (dw x : Nat) : (wordBits p dw x).length = dw := by
  unfold wordBits; split <;> simp [lsbFirst]

theorem wordBits_inj (p : Params) {dw x y : Nat} (hx : x < 2 ^ dw) (hy : y < 2 ^ dw)
    (h : wordBits p dw x = wordBits p dw y) : x = y := by
  unfold wordBits at h
  split at h
  · simp only [lsbFirst, List.reverse_inj] at h
    exact msbFirst_inj hx hy h
  · exact msbFirst_inj hx hy h

theorem length_flatMap_wordBits (p : Params) (dw : Nat) (t : List Nat) :
    (t.flatMap (wordBits p dw)).length = t.length * dw := by
  induction t with
  | nil => simp
  | cons x xs ih => simp [List.flatMap_cons, length_wordBits, ih, Nat.add_mul, Nat.add_comm]

theorem flatMap_wordBits_inj (p : Params) (dw : Nat) :
    ∀ (s t : List Nat), s.length = t.length → (∀ x ∈ s, x < 2 ^ dw) → (∀ x ∈ t, x < 2 ^ dw) →
      s.flatMap (wordBits p dw) = t.flatMap (wordBits p dw) → s = t := by
  intro s
  induction s with
  | nil => intro t hl _ _ _; cases t with
    | nil => rfl
    | cons y ys => simp at hl
  | cons x xs ih =>
    intro t hl hs ht h
    cases t with
    | nil => simp at hl
    | cons y ys =>
      simp only [List.flatMap_cons] at h
      have := List.append_inj h (by simp [length_wordBits])
      have hxy := wordBits_inj p (hs x (by simp)) (ht y (by simp)) this.1
      subst hxy
      congr 1
      exact ih ys (by simpa using hl) (fun z hz => hs z (by simp [hz])) (fun z hz => ht z (by simp [hz])) this.2

/-- with an odd polynomial, only the true trailer leads to the residue -/
theorem register_residue_only {p : Params} (hv : p.Valid) (hodd : p.poly.testBit 0 = true) {dw : Nat}
    (hdiv : p.width / dw * dw = p.width) (msg t : List Nat) (hlen : t.length = p.width / dw)
    (ht : ∀ x ∈ t, x < 2 ^ dw) (h : register p dw (msg ++ t) = residueReg p) :
    t = trailer p dw (crc p dw msg) := by
  have hr := register_lt hv dw msg
  -- the value carried by `t`
  have hbl : (t.flatMap (wordBits p dw)).length = p.width := by rw [length_flatMap_wordBits, hlen, hdiv]
  have hvlt : ofMsbFirst (t.flatMap (wordBits p dw)) < 2 ^ p.width := hbl ▸ ofMsbFirst_lt _
  have hbits : t.flatMap (wordBits p dw) = msbFirst p.width (ofMsbFirst (t.flatMap (wordBits p dw))) := by
    have := msbFirst_ofMsbFirst (t.flatMap (wordBits p dw))
    rw [hbl] at this
    exact this.symm
  rw [register_trailer hv msg t hvlt hbits] at h
  have h2 := iter_S0_inj hv.2.1 hodd p.width (Nat.xor_lt_two_pow hr hvlt) (xorReg_lt hv) h
  -- so `t` carries `register ^^^ xorReg`, which is what the true trailer carries
  have h3 : ofMsbFirst (t.flatMap (wordBits p dw)) = register p dw msg ^^^ xorReg p := by
    rw [← h2, xor_cancel_left]
  apply flatMap_wordBits_inj p dw t _ (by rw [hlen, length_trailer]) ht (trailer_lt p dw _)
  rw [hbits, h3, trailer_bits, hdiv]
  unfold crc
  simp only []
  rw [trailer_value hr]

/-! ## even polynomial: the step has a kernel, so a corrupted trailer also leads to the residue -/

/-- the non-zero register value that one step sends to zero when the polynomial is even -/
def kernelWord (w poly : Nat) : Nat := 2 ^ (w - 1) ^^^ (poly >>> 1)

theorem kernelWord_lt {w poly : Nat} (hw : 0 < w) (hp : poly < 2 ^ w) : kernelWord w poly < 2 ^ w := by
  apply Nat.xor_lt_two_pow (Nat.pow_lt_pow_right (by omega) (by omega))
  apply Nat.lt_pow_two_of_testBit; intro i hi
  rw [Nat.testBit_shiftRight]; exact testBit_of_lt hp (by omega)

theorem kernelWord_top {w poly : Nat} (hw : 0 < w) (hp : poly < 2 ^ w) : (kernelWord w poly).testBit (w - 1) = true := by
  have : (poly >>> 1).testBit (w - 1) = false := by
    rw [Nat.testBit_shiftRight]; exact testBit_of_lt hp (by omega)
  simp [kernelWord, Nat.testBit_xor, this]

theorem kernelWord_ne_zero {w poly : Nat} (hw : 0 < w) (hp : poly < 2 ^ w) : kernelWord w poly ≠ 0 := by
  intro h
  have := kernelWord_top hw hp
  simp [h] at this

theorem S0_kernelWord {w poly : Nat} (hw : 0 < w) (hp : poly < 2 ^ w) (heven : poly.testBit 0 = false) :
    S0 w poly (kernelWord w poly) = 0 := by
  rw [S0_def, kernelWord_top hw hp]
  apply Nat.eq_of_testBit_eq; intro i
  simp only [if_true, Nat.testBit_xor, Nat.testBit_mod_two_pow, Nat.testBit_shiftLeft, kernelWord,
    Nat.testBit_shiftRight, Nat.testBit_two_pow, Nat.zero_testBit]
  by_cases h0 : i = 0
  · subst h0; simp [heven]
  · by_cases hi : i < w
    · have h1 : i ≥ 1 := by omega
      have h2 : ¬ (w - 1 = i - 1) := by omega
      have h3 : 1 + (i - 1) = i := by omega
      simp [hi, h1, h2, h3]
    · simp [hi, testBit_of_lt hp (by omega : w ≤ i)]

theorem iter_S0_kernelWord {w poly : Nat} (hw : 0 < w) (hp : poly < 2 ^ w) (heven : poly.testBit 0 = false)
    (r : Nat) : iter (S0 w poly) w (r ^^^ kernelWord w poly) = iter (S0 w poly) w r := by
  obtain ⟨n, rfl⟩ : ∃ n, w = n + 1 := ⟨w - 1, by omega⟩
  simp only [iter]
  rw [S0_xor, S0_kernelWord hw hp heven, Nat.xor_zero]

/-- with an even polynomial, the trailer whose carried value is off by `kernelWord` is a different
    trailer and still leads to the residue -/
theorem register_even_false_match {p : Params} (hv : p.Valid) (heven : p.poly.testBit 0 = false) {dw : Nat}
    (hdiv : p.width / dw * dw = p.width) (msg : List Nat) :
    let e := if p.refout then reflect (kernelWord p.width p.poly) p.width else kernelWord p.width p.poly
    let t := trailer p dw (crc p dw msg ^^^ e)
    t ≠ trailer p dw (crc p dw msg) ∧ register p dw (msg ++ t) = residueReg p := by
  intro e t
  have hr := register_lt hv dw msg
  have hk := kernelWord_lt hv.1 hv.2.1
  -- the value carried by `t`
  have hval : (if p.refout then reflect (crc p dw msg ^^^ e) p.width else crc p dw msg ^^^ e)
      = (register p dw msg ^^^ xorReg p) ^^^ kernelWord p.width p.poly := by
    have h1 := trailer_value (p := p) hr
    unfold crc
    simp only []
    by_cases h : p.refout = true
    · simp only [e, h, if_true] at h1 ⊢
      rw [reflect_xor, h1, reflect_reflect hk]
    · simp only [e, h, if_false, Bool.false_eq_true] at h1 ⊢
      rw [h1]
  have hvlt : (register p dw msg ^^^ xorReg p) ^^^ kernelWord p.width p.poly < 2 ^ p.width :=
    Nat.xor_lt_two_pow (Nat.xor_lt_two_pow hr (xorReg_lt hv)) hk
  have hbits : t.flatMap (wordBits p dw)
      = msbFirst p.width ((register p dw msg ^^^ xorReg p) ^^^ kernelWord p.width p.poly) := by
    rw [trailer_bits, hdiv, hval]
  constructor
  · intro heq
    have hb := trailer_bits p dw (crc p dw msg)
    rw [← heq, hbits, hdiv] at hb
    have hv2 : (if p.refout then reflect (crc p dw msg) p.width else crc p dw msg)
        = register p dw msg ^^^ xorReg p := by
      unfold crc; simp only []; exact trailer_value hr
    rw [hv2] at hb
    have := msbFirst_inj hvlt (Nat.xor_lt_two_pow hr (xorReg_lt hv)) hb
    have h0 : kernelWord p.width p.poly = 0 := by
      have h := congrArg (fun z => (register p dw msg ^^^ xorReg p) ^^^ z) this
      simpa [xor_cancel_left, Nat.xor_self] using h
    exact kernelWord_ne_zero hv.1 hv.2.1 h0
  · rw [register_trailer hv msg t hvlt hbits, ← Nat.xor_assoc, ← Nat.xor_assoc, Nat.xor_self, Nat.zero_xor,
      iter_S0_kernelWord hv.1 hv.2.1 heven]
    rfl

end Amaranth.Crc
