import AmaranthVerif.Model.Rtlil.WF

/-! # Soundness of the clauses of the RTLIL validator (helper lemmas for `Properties/C07`) -/

namespace Amaranth.Rtlil

theorem nodupB_sound : ∀ l : List String, nodupB l = true → l.Nodup
  | [], _ => List.nodup_nil
  | a :: rest, h => by
    simp only [nodupB, Bool.and_eq_true, Bool.not_eq_eq_eq_not, Bool.not_true] at h
    refine List.nodup_cons.mpr ⟨?_, nodupB_sound rest h.2⟩
    intro hm
    have : rest.contains a = true := List.contains_iff_mem.mpr hm
    rw [this] at h
    simp at h

theorem wire?_some {m : Module} {n : String} {w : Wire} (h : m.wire? n = some w) :
    w ∈ m.wires ∧ w.name = n := by
  unfold Module.wire? at h
  refine ⟨List.mem_of_find?_eq_some h, ?_⟩
  have := List.find?_some h
  simpa using this

theorem chunkRefOkB_sound {m : Module} {c : Chunk} (h : m.chunkRefOkB c = true) : ChunkRefOk m c := by
  intro n hn
  unfold Module.chunkRefOkB at h
  rw [hn] at h
  simp only at h
  obtain ⟨w, hw⟩ := Option.isSome_iff_exists.mp h
  exact ⟨w, (wire?_some hw).1, (wire?_some hw).2⟩

theorem chunkInBoundsB_sound {m : Module} {c : Chunk} (h : m.chunkInBoundsB c = true) : ChunkInBounds m c := by
  cases c with
  | const bs => trivial
  | wire n => trivial
  | slice n hi lo =>
    simp only [Module.chunkInBoundsB, Bool.and_eq_true, decide_eq_true_eq] at h
    obtain ⟨h1, h2⟩ := h
    cases hw : m.wire? n with
    | none => simp [hw] at h2
    | some w =>
      simp only [hw, decide_eq_true_eq] at h2
      exact ⟨h1, w, (wire?_some hw).1, (wire?_some hw).2, h2⟩
  | bit n i =>
    simp only [Module.chunkInBoundsB] at h
    cases hw : m.wire? n with
    | none => simp [hw] at h
    | some w =>
      simp only [hw, decide_eq_true_eq] at h
      exact ⟨w, (wire?_some hw).1, (wire?_some hw).2, h⟩

theorem sameWidthB_sound {m : Module} {l r : SigSpec} (h : m.sameWidthB l r = true) : SameWidth m l r := by
  unfold Module.sameWidthB at h
  cases hl : m.specWidth l with
  | none => simp [hl] at h
  | some a =>
    cases hr : m.specWidth r with
    | none => simp [hl, hr] at h
    | some b =>
      simp only [hl, hr, beq_iff_eq] at h
      exact ⟨a, hl, by rw [hr, h]⟩

theorem caseWidthB_sound {m : Module} {sw : SigSpec × List Pats} (h : m.caseWidthB sw = true) :
    ∃ n, m.specWidth sw.1 = some n ∧ ∀ pats ∈ sw.2, ∀ pat ∈ pats, pat.length = n := by
  unfold Module.caseWidthB at h
  cases hs : m.specWidth sw.1 with
  | none => simp [hs] at h
  | some n =>
    simp only [hs, List.all_eq_true, beq_iff_eq] at h
    exact ⟨n, rfl, h⟩

theorem portIds_sound {l : List Nat} (h : (l == List.range l.length) = true) :
    ∀ k (hk : k < l.length), l[k] = k := by
  intro k hk
  have h' : l = List.range l.length := by simpa using h
  have : l[k]? = (List.range l.length)[k]? := by rw [← h']
  rw [List.getElem?_eq_getElem hk, List.getElem?_range hk] at this
  exact Option.some.inj this

/-! ## cells -/

theorem dirOkB_sound {m : Module} {dir : Dir} {s : SigSpec} (h : dirOkB m dir s = true) : DirOk m dir s := by
  cases dir with
  | input => trivial
  | output =>
    simp only [dirOkB, List.all_eq_true] at h
    intro c hc bs hbs
    have := h c hc
    rw [hbs] at this
    simp at this
  | inout =>
    simp only [dirOkB, List.all_eq_true] at h
    intro c hc
    have := h c hc
    cases hn : c.wireName with
    | none => simp [hn] at this
    | some n =>
      simp only [hn] at this
      cases hw : m.wire? n with
      | none => simp [hw] at this
      | some w =>
        simp only [hw] at this
        exact ⟨n, rfl, w, (wire?_some hw).1, (wire?_some hw).2, this⟩

theorem connsMatchB_sound {m : Module} {c : Cell} {sig : List PortSig} (h : connsMatchB m c sig = true) :
    ConnsMatch m c sig := by
  simp only [connsMatchB, Bool.and_eq_true, List.all_eq_true] at h
  obtain ⟨⟨h1, h2⟩, h3⟩ := h
  refine ⟨nodupB_sound _ h1, ?_, ?_⟩
  · intro pn s hps
    have := h2 (pn, s) hps
    cases hf : sig.find? (·.name == pn) with
    | none => simp [hf] at this
    | some p =>
      simp only [hf, Bool.and_eq_true, beq_iff_eq] at this
      have hp := List.find?_some hf
      exact ⟨p, List.mem_of_find?_eq_some hf, by simpa using hp, this.1, dirOkB_sound this.2⟩
  · intro p hp
    have := h3 p hp
    have hm : p.name ∈ c.conns.map (·.1) := List.contains_iff_mem.mp this
    obtain ⟨ps, hps, hname⟩ := List.mem_map.mp hm
    exact ⟨ps.2, by rw [← hname]; exact hps⟩

theorem memRefOkB_sound {m : Module} {c : Cell} (h : memRefOkB m c = true) : MemRefOk m c := by
  intro hmem
  simp only [memRefOkB, hmem, if_true] at h
  cases hid : c.strParam? "\\MEMID" with
  | none => simp [hid] at h
  | some id =>
    simp only [hid] at h
    cases hf : m.memories.find? (·.name == id) with
    | none => simp [hf] at h
    | some mem =>
      simp only [hf, Bool.and_eq_true, beq_iff_eq] at h
      refine ⟨id, rfl, mem, List.mem_of_find?_eq_some hf, by simpa using List.find?_some hf, h.1, ?_⟩
      intro ht
      have h2 := h.2
      simp only [ht, if_true] at h2
      cases hw : c.natParam? "\\WORDS" with
      | none => simp [hw] at h2
      | some n =>
        simp only [hw, decide_eq_true_eq] at h2
        exact ⟨n, rfl, h2⟩

theorem isWholeWireB_sound {n : String} {w : Nat} {s : SigSpec} (h : isWholeWireB n w s = true) :
    IsWholeWire n w s := by
  simp only [isWholeWireB, Bool.or_eq_true, Bool.and_eq_true, beq_iff_eq] at h
  rcases h with (h | h) | h
  · exact Or.inl h
  · exact Or.inr (Or.inl h)
  · exact Or.inr (Or.inr h)

theorem module?_some {d : Doc} {n : String} {m : Module} (h : d.module? n = some m) : m ∈ d ∧ m.name = n := by
  unfold Doc.module? at h
  exact ⟨List.mem_of_find?_eq_some h, by simpa using List.find?_some h⟩

theorem module?_none {d : Doc} {n : String} (h : d.module? n = none) : ∀ m ∈ d, m.name ≠ n := by
  unfold Doc.module? at h
  intro m hm hn
  have := List.find?_eq_none.mp h m hm
  simp [hn] at this

theorem cellOkB_sound {d : Doc} {exp : List Foreign} {m : Module} {c : Cell} (h : cellOkB d exp m c = true) :
    CellWF d exp m c := by
  unfold cellOkB at h
  by_cases hi : isInternal c.type = true
  · simp only [hi, if_true] at h
    cases hs : cellSig c with
    | none => simp [hs] at h
    | some sig =>
      simp only [hs, Bool.and_eq_true, List.all_eq_true] at h
      obtain ⟨⟨⟨⟨⟨h1, h2⟩, h3⟩, h4⟩, h5⟩, h6⟩ := h
      exact CellWF.internal sig hi hs (nodupB_sound _ h1)
        (fun n hn => List.contains_iff_mem.mp (h2 n hn))
        (fun n hn => List.contains_iff_mem.mp (h3 n hn))
        h4 (memRefOkB_sound h5) (connsMatchB_sound h6)
  · have hi' : isInternal c.type = false := by simpa using hi
    simp only [hi', Bool.false_eq_true, if_false] at h
    cases hm : d.module? c.type with
    | some m' =>
      simp only [hm, Bool.and_eq_true, List.isEmpty_iff] at h
      exact CellWF.submodule m' hi' (module?_some hm).1 (module?_some hm).2 h.1 (connsMatchB_sound h.2)
    | none =>
      simp only [hm] at h
      cases hf : exp.find? (·.type == c.type) with
      | none => simp [hf] at h
      | some f =>
        simp only [hf, Bool.and_eq_true, beq_iff_eq] at h
        obtain ⟨⟨⟨h1, h2⟩, h3⟩, h4⟩ := h
        refine CellWF.foreign f hi' (module?_none hm) (List.mem_of_find?_eq_some hf)
          (by simpa using List.find?_some hf) h1 h2 (connsMatchB_sound h3) ?_
        intro p hp n hn s hs
        simp only [foreignWiresB, List.all_eq_true] at h4
        have := h4 p hp
        simp only [hn, List.all_eq_true] at this
        have := this (p.name, s) hs
        simp only [beq_self_eq_true, if_true] at this
        exact isWholeWireB_sound this

/-! ## drivers -/

theorem countP_map_any (procs : List Process) (n : String) (i : Nat) :
    (procs.map (·.lhsChunks)).countP (fun cs => cs.any (·.covers n i)) =
      procs.countP (fun p => p.lhsChunks.any (·.covers n i)) := by
  rw [List.countP_map]
  rfl

theorem driversOkB_sound {d : Doc} {exp : List Foreign} {m : Module} (h : driversOkB d exp m = true) :
    ∀ w ∈ m.wires, w.isInout = false → ∀ i, i < w.width → driverCount d exp m w.name i = 1 := by
  intro w hw hio i hi
  simp only [driversOkB, List.all_eq_true, Bool.or_eq_true] at h
  rcases h w hw with h1 | h1
  · rw [hio] at h1; exact absurd h1 (by simp)
  · have := h1 i (List.mem_range.mpr hi)
    rw [countP_map_any] at this
    simpa [driverCount] using this

/-! ## the structure of `check` -/

theorem firstFailing_none {cs : List (Clause × Bool)} (h : firstFailing cs = none) : ∀ p ∈ cs, p.2 = true := by
  intro p hp
  unfold firstFailing at h
  have h' : cs.find? (fun p => !p.2) = none := by
    cases hf : cs.find? (fun p => !p.2) with
    | none => rfl
    | some x => simp [hf] at h
  have := List.find?_eq_none.mp h' p hp
  simpa using this

theorem check_ok {d : Doc} {exp : List Foreign} (h : check d exp = .ok ()) :
    nodupB (d.map (·.name)) = true ∧ ∀ m ∈ d, ∀ p ∈ moduleClauses d exp m, p.2 = true := by
  unfold check at h
  by_cases hn : nodupB (d.map (·.name)) = true
  · refine ⟨hn, ?_⟩
    simp only [hn, Bool.not_true, Bool.false_eq_true, if_false] at h
    cases hf : d.findSome? (fun m => (firstFailing (moduleClauses d exp m)).map (fun c => (m.name, c))) with
    | some e => simp [hf] at h
    | none =>
      intro m hm
      have := List.findSome?_eq_none_iff.mp hf m hm
      apply firstFailing_none
      cases hff : firstFailing (moduleClauses d exp m) with
      | none => rfl
      | some c => simp [hff] at this
  · simp [hn] at h

end Amaranth.Rtlil
