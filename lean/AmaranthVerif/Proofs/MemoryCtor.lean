import AmaranthVerif.Proofs.MemoryValues

/-!
# What the constructors of a memory guarantee (`mkCfg`), and decision procedures for the run hypotheses

* `enWidth_covers`, `readPortCheck_ok`, `readPortsCheck_ok`, `mkCfg_wf`, `mkCfg_inv`: a configuration that
  `mkCfg` returns satisfies `WF`, and its initial state satisfies `Inv`.
* `noCollisionB`, `readsInRangeB`, `inputsOkB`, `runOkB`: Boolean versions of the hypotheses of the refinement
  theorems with their soundness lemmas, so that concrete instances can be exhibited by evaluation.
-/

namespace Amaranth.Mem
open Amaranth.MemRows (Write activeEdge activeWrite writeOf)

/-! ## write ports -/

/-- `len(en) * _granularity ≥ width` whenever `WritePort.Signature` accepts the granularity -/
theorem enWidth_covers (k : RowKind) (g : GranArg) (n : Nat) (h : enWidth k g = .ok n) :
    k.width ≤ n * granBits k.width n := by
  unfold granBits
  by_cases hw : k.width = 0
  · rw [hw]; exact Nat.zero_le _
  rw [if_neg hw]
  cases g with
  | none =>
    simp only [enWidth] at h
    cases h
    simp
  | other => simp [enWidth] at h
  | int g =>
    cases k with
    | plain s =>
      simp only [enWidth, RowKind.width] at h hw ⊢
      by_cases h1 : g < 0
      · simp [h1] at h
      by_cases h2 : s.signed = true
      · simp [h1, h2] at h
      by_cases h3 : g = 0
      · simp [h2, hw, h3] at h
      by_cases h4 : s.width % g.toNat = 0
      · simp [h1, h2, hw, h3, h4] at h
        subst h
        have hq := Nat.div_add_mod s.width g.toNat
        rw [h4, Nat.add_zero] at hq
        have hqpos : 0 < s.width / g.toNat := by
          rcases Nat.eq_zero_or_pos (s.width / g.toNat) with h0 | h0
          · rw [h0, Nat.mul_zero] at hq; omega
          · exact h0
        have : s.width / (s.width / g.toNat) = g.toNat := by
          conv => lhs; lhs; rw [← hq]
          rw [Nat.mul_comm, Nat.mul_div_cancel_left _ hqpos]
        rw [this, Nat.mul_comm, hq]
        exact Nat.le_refl _
      · simp [h1, h2, hw, h3, h4] at h
    | array ew len =>
      simp only [enWidth, RowKind.width] at h hw ⊢
      by_cases h1 : g < 0
      · simp [h1] at h
      by_cases h2 : len = 0
      · rw [h2, Nat.mul_zero] at hw; exact absurd rfl hw
      by_cases h3 : g = 0
      · simp [h2, h3] at h
      by_cases h4 : len % g.toNat = 0
      · simp [h1, h2, h3, h4] at h
        subst h
        have hq := Nat.div_add_mod len g.toNat
        rw [h4, Nat.add_zero] at hq
        have hqpos : 0 < len / g.toNat := by
          rcases Nat.eq_zero_or_pos (len / g.toNat) with h0 | h0
          · rw [h0, Nat.mul_zero] at hq; omega
          · exact h0
        have : ew * len / (len / g.toNat) = ew * g.toNat := by
          conv => lhs; lhs; rw [← hq]
          rw [← Nat.mul_assoc, Nat.mul_div_cancel _ hqpos]
        rw [this]
        calc ew * len = ew * (g.toNat * (len / g.toNat)) := by rw [hq]
          _ = len / g.toNat * (ew * g.toNat) := by
            rw [← Nat.mul_assoc, Nat.mul_comm]
          _ ≤ _ := Nat.le_refl _
      · simp [h1, h2, h3, h4] at h
    | castable w =>
      simp only [enWidth] at h
      by_cases h1 : g < 0 <;> simp [h1] at h

theorem RowKind.shape_width (k : RowKind) : k.shape.width = k.width := by
  cases k <;> rfl

theorem mkWr_covers (k : RowKind) (a : WrArg) (w : WrCfg) (h : mkWr k a = .ok w) : k.width ≤ w.enw * w.gran := by
  unfold mkWr at h
  rcases hn : enWidth k a.gran with e | n
  · rw [hn] at h; cases h
  · rw [hn] at h
    simp only at h
    rcases hd : a.dom with _ | d
    · rw [hd] at h; cases h
    · rw [hd] at h
      simp only at h
      cases h
      exact enWidth_covers k a.gran n hn

theorem mkWrs_covers (k : RowKind) (args : List WrArg) (ws : List WrCfg) (h : mkWrs k args = .ok ws) :
    ∀ j < ws.length, k.width ≤ (ws.getD j default).enw * (ws.getD j default).gran := by
  induction args generalizing ws with
  | nil =>
    simp only [mkWrs] at h
    cases h
    intro j hj
    exact absurd hj (Nat.not_lt_zero _)
  | cons a rest ih =>
    simp only [mkWrs] at h
    rcases hw : mkWr k a with e | w
    · rw [hw] at h; cases h
    · rw [hw] at h
      simp only at h
      rcases hr : mkWrs k rest with e | ws'
      · rw [hr] at h; cases h
      · rw [hr] at h
        simp only at h
        cases h
        intro j hj
        cases j with
        | zero => exact mkWr_covers k a w hw
        | succ j =>
          have := ih ws' hr j (by simpa using hj)
          simpa using this

/-! ## read ports: the transparency rule -/

/-- `ReadPort.__init__` accepts a transparency set iff every element is a write port of the same memory and of
the read port's own domain -/
theorem readPortCheck_ok (dom : Option Nat) (args : List TranspArg) :
    readPortCheck dom args = .ok () ↔ ∀ a ∈ args, ∃ d, a = .port true d ∧ dom = some d := by
  induction args with
  | nil => simp [readPortCheck]
  | cons a rest ih =>
    cases a with
    | notAPort =>
      simp only [readPortCheck]
      constructor
      · intro h; cases h
      · intro h
        obtain ⟨d, hd, _⟩ := h _ (List.mem_cons_self ..)
        cases hd
    | port same d =>
      simp only [readPortCheck]
      cases same with
      | false =>
        simp only [Bool.not_false, if_true]
        constructor
        · intro h; cases h
        · intro h
          obtain ⟨d', hd, _⟩ := h _ (List.mem_cons_self ..)
          cases hd
      | true =>
        simp only [Bool.not_true, Bool.false_eq_true, if_false]
        by_cases hd : dom = some d
        · rw [if_neg (fun h => h hd), ih]
          constructor
          · intro h a ha
            rcases List.mem_cons.1 ha with rfl | ha
            · exact ⟨d, rfl, hd⟩
            · exact h a ha
          · intro h a ha
            exact h a (List.mem_cons_of_mem _ ha)
        · rw [if_pos hd]
          constructor
          · intro h; cases h
          · intro h
            obtain ⟨d', hd', hdom⟩ := h _ (List.mem_cons_self ..)
            cases hd'
            exact absurd hdom hd

/-- … in terms of the indices of a configuration -/
theorem readPortCheck_transpArgs (wrs : List WrCfg) (dom : Option Nat) (transp : List Nat) :
    readPortCheck dom (transpArgs wrs transp) = .ok () ↔
      ∀ j ∈ transp, j < wrs.length ∧ dom = some (wrs.getD j default).dom := by
  rw [readPortCheck_ok]
  unfold transpArgs
  constructor
  · intro h j hj
    obtain ⟨d, hd, hdom⟩ := h _ (List.mem_map.2 ⟨j, hj, rfl⟩)
    by_cases hlt : j < wrs.length
    · rw [if_pos hlt] at hd
      cases hd
      exact ⟨hlt, hdom⟩
    · rw [if_neg hlt] at hd
      cases hd
  · intro h a ha
    obtain ⟨j, hj, rfl⟩ := List.mem_map.1 ha
    obtain ⟨hlt, hdom⟩ := h j hj
    exact ⟨_, by rw [if_pos hlt], hdom⟩

theorem readPortsCheck_ok (wrs : List WrCfg) (rds : List RdCfg) :
    readPortsCheck wrs rds = .ok () ↔
      ∀ k < rds.length, ∀ j ∈ (rds.getD k default).transp,
        j < wrs.length ∧ (rds.getD k default).dom = some (wrs.getD j default).dom := by
  induction rds with
  | nil =>
    simp only [readPortsCheck, true_iff]
    intro k hk
    exact absurd hk (Nat.not_lt_zero _)
  | cons r rest ih =>
    simp only [readPortsCheck]
    rcases hc : readPortCheck r.dom (transpArgs wrs r.transp) with e | u
    · simp only
      constructor
      · intro h; cases h
      · intro h
        have := (readPortCheck_transpArgs wrs r.dom r.transp).2 (by simpa using h 0 (by simp))
        rw [hc] at this
        cases this
    · simp only
      rw [ih]
      have h0 := (readPortCheck_transpArgs wrs r.dom r.transp).1 (by rw [hc])
      constructor
      · intro h k hk
        cases k with
        | zero => simpa using h0
        | succ k => simpa using h k (by simpa using hk)
      · intro h k hk
        simpa using h (k + 1) (by simpa using hk)

/-! ## the whole configuration -/

theorem mkCfg_parts (kd : RowKind) (depth : Nat) (initRows : List Int) (doms : List DomCfg) (wrArgs : List WrArg)
    (rdArgs : List RdCfg) (c : Cfg) (h : mkCfg kd depth initRows doms wrArgs rdArgs = .ok c) :
    initRows.length ≤ depth ∧ (∃ wrs, mkWrs kd wrArgs = .ok wrs ∧ readPortsCheck wrs rdArgs = .ok () ∧
      c = { shape := kd.shape, depth := depth,
            init := initRows.map (norm kd.shape) ++ List.replicate (depth - initRows.length) 0,
            doms := doms, rds := rdArgs, wrs := wrs, rdInit := List.replicate rdArgs.length 0 }) := by
  unfold mkCfg at h
  rcases hi : initCheck (some (depth : Int)) initRows.length with e | u
  · rw [hi] at h; cases h
  rw [hi] at h
  simp only at h
  have hlen : initRows.length ≤ depth := by
    unfold initCheck at hi
    simp only at hi
    split at hi
    · cases hi
    · split at hi
      · cases hi
      · omega
  rcases hw : mkWrs kd wrArgs with e | wrs
  · rw [hw] at h; cases h
  rw [hw] at h
  simp only at h
  rcases hr : readPortsCheck wrs rdArgs with e | u
  · rw [hr] at h; cases h
  rw [hr] at h
  simp only at h
  cases h
  exact ⟨hlen, wrs, rfl, hr, rfl⟩

/-- every configuration the constructors return is well formed -/
theorem mkCfg_wf (kd : RowKind) (depth : Nat) (initRows : List Int) (doms : List DomCfg) (wrArgs : List WrArg)
    (rdArgs : List RdCfg) (c : Cfg) (h : mkCfg kd depth initRows doms wrArgs rdArgs = .ok c) : WF c := by
  obtain ⟨_, wrs, hw, hr, rfl⟩ := mkCfg_parts kd depth initRows doms wrArgs rdArgs c h
  constructor
  · intro k hk
    simp only [RowKind.shape_width]
    exact mkWrs_covers kd wrArgs wrs hw k hk
  · exact (readPortsCheck_ok wrs rdArgs).1 hr

/-- … and its initial state has one row per address and one register per read port -/
theorem mkCfg_inv (kd : RowKind) (depth : Nat) (initRows : List Int) (doms : List DomCfg) (wrArgs : List WrArg)
    (rdArgs : List RdCfg) (c : Cfg) (h : mkCfg kd depth initRows doms wrArgs rdArgs = .ok c) : Inv c (init c) := by
  obtain ⟨hlen, wrs, _, _, rfl⟩ := mkCfg_parts kd depth initRows doms wrArgs rdArgs c h
  constructor
  · simp only [init, List.length_append, List.length_map, List.length_replicate]
    omega
  · simp only [init, List.length_replicate]

/-! ## Boolean versions of the run hypotheses -/

def inputsOkB (c : Cfg) (inp : Inputs) : Bool :=
  inp.wr.all (fun w => decide (w.addr < 2 ^ c.abits)) && inp.rd.all (fun r => decide (r.addr < 2 ^ c.abits))

theorem inputsOk_of_check (c : Cfg) (inp : Inputs) (h : inputsOkB c inp = true) : InputsOk c inp := by
  simp only [inputsOkB, Bool.and_eq_true, List.all_eq_true, decide_eq_true_eq] at h
  have hpos : 0 < 2 ^ c.abits := Nat.two_pow_pos _
  constructor
  · intro k
    by_cases hk : k < inp.wr.length
    · rw [List.getD_eq_getElem?_getD, List.getElem?_eq_getElem hk]
      exact h.1 _ (List.getElem_mem hk)
    · rw [List.getD_eq_getElem?_getD, List.getElem?_eq_none (by omega)]
      exact hpos
  · intro k
    by_cases hk : k < inp.rd.length
    · rw [List.getD_eq_getElem?_getD, List.getElem?_eq_getElem hk]
      exact h.2 _ (List.getElem_mem hk)
    · rw [List.getD_eq_getElem?_getD, List.getElem?_eq_none (by omega)]
      exact hpos

/-- two active write ports hit a common bit only in the row both address: it is enough to look there -/
def noCollisionB (c : Cfg) (clk : List Bool) (inp : Inputs) (e : Event) : Bool :=
  (List.range c.wrs.length).all fun k1 => (List.range c.wrs.length).all fun k2 =>
    k1 == k2 ||
    match activeWrite c clk inp e k1, activeWrite c clk inp e k2 with
    | some w1, some w2 => (List.range c.shape.width).all fun i => !(w1.hits w1.addr i && w2.hits w1.addr i)
    | _, _ => true

theorem activeWrite_lt (c : Cfg) (clk : List Bool) (inp : Inputs) (e : Event) (k : Nat) (w : Write)
    (h : activeWrite c clk inp e k = some w) : k < c.wrs.length := by
  unfold activeWrite at h
  by_cases hk : k < c.wrs.length
  · exact hk
  · rw [if_neg (fun h' => hk h'.1)] at h; cases h

theorem noCollision_of_check (c : Cfg) (clk : List Bool) (inp : Inputs) (e : Event)
    (h : noCollisionB c clk inp e = true) : NoCollision c clk inp e := by
  intro k1 k2 w1 w2 hne h1 h2 a i hi hh
  simp only [noCollisionB, List.all_eq_true, List.mem_range] at h
  have := h k1 (activeWrite_lt c clk inp e k1 w1 h1) k2 (activeWrite_lt c clk inp e k2 w2 h2)
  rw [h1, h2] at this
  simp only [Bool.or_eq_true, beq_iff_eq, List.all_eq_true, List.mem_range] at this
  rcases this with heq | hall
  · exact hne heq
  · have ha : w1.addr = a := by
      have := hh.1
      simp only [Write.hits, Bool.and_eq_true, beq_iff_eq] at this
      exact this.1
    have := hall i hi
    rw [ha, hh.1, hh.2] at this
    cases this

def readsInRangeB (c : Cfg) (clk : List Bool) (inp : Inputs) (e : Event) : Bool :=
  (List.range c.rds.length).all fun k =>
    match (c.rds.getD k default).dom with
    | none => true
    | some d => !(activeEdge c clk e d && (inp.rd.getD k default).en) || decide ((inp.rd.getD k default).addr < c.depth)

theorem readsInRange_of_check (c : Cfg) (clk : List Bool) (inp : Inputs) (e : Event)
    (h : readsInRangeB c clk inp e = true) : ReadsInRange c clk inp e := by
  intro k d hdom hk hedge hen
  simp only [readsInRangeB, List.all_eq_true, List.mem_range] at h
  have := h k hk
  rw [hdom] at this
  simp only [hedge, hen, Bool.and_self, Bool.not_true, Bool.false_or, decide_eq_true_eq] at this
  exact this

/-- the hypotheses along a run -/
def RunOk (c : Cfg) : State → List (Inputs × Event) → Prop
  | _, [] => True
  | s, (inp, e) :: rest =>
    InputsOk c inp ∧ NoCollision c s.clk inp e ∧ ReadsInRange c s.clk inp e ∧ RunOk c (step c s inp e) rest

def runOkB (c : Cfg) : State → List (Inputs × Event) → Bool
  | _, [] => true
  | s, (inp, e) :: rest =>
    inputsOkB c inp && noCollisionB c s.clk inp e && readsInRangeB c s.clk inp e && runOkB c (step c s inp e) rest

theorem runOk_of_check (c : Cfg) (evs : List (Inputs × Event)) (s : State) (h : runOkB c s evs = true) :
    RunOk c s evs := by
  induction evs generalizing s with
  | nil => trivial
  | cons x rest ih =>
    obtain ⟨inp, e⟩ := x
    simp only [runOkB, Bool.and_eq_true] at h
    exact ⟨inputsOk_of_check c inp h.1.1.1, noCollision_of_check c s.clk inp e h.1.1.2,
      readsInRange_of_check c s.clk inp e h.1.2, ih _ h.2⟩

/-! ## testbench row access: the row lookup -/

theorem rowIndex_ok (depth : Nat) (index : Int) (i : Nat) :
    rowIndex depth index = .ok i ↔ (index = (i : Int) ∧ i < depth) := by
  unfold rowIndex
  split
  · next h =>
    constructor
    · intro hh
      cases hh
      omega
    · intro hh
      congr 1
      omega
  · next h =>
    constructor
    · intro hh; cases hh
    · intro hh; omega

theorem rowIndex_error (depth : Nat) (index : Int) (h : ¬ (0 ≤ index ∧ index < (depth : Int))) :
    rowIndex depth index = .error "IndexError" := by
  unfold rowIndex
  rw [if_neg h]

/-- `F22` only shows under reset: the simulator as found and the repaired one agree at every event at which no
reset signal of a domain with a reset is high and no asynchronous reset rises -/
theorem stepOld_eq_step (c : Cfg) (s : State) (inp : Inputs) (e : Event)
    (h : ∀ d, rstHigh c e d = false ∧ asyncRise c s e d = false) : stepOld c s inp e = step c s inp e := by
  unfold stepOld step stepG
  simp [h]

end Amaranth.Mem
