import AmaranthVerif.Spec.Format

/-!
# `pyFormat`: width, sign, and the digits lose nothing
-/

namespace Amaranth
namespace Fmt

/-! ## width -/

theorem padNumber_length (fill : Char) (align : Align) (w : Nat) (sgn pre body : PyStr) :
    (padNumber fill align w sgn pre body).length = max w (sgn.length + pre.length + body.length) := by
  unfold padNumber
  cases align <;> simp only [List.length_append, List.length_replicate] <;> omega

/-- the padding only adds fill characters: `a` before the sign, `b` between prefix and digits, `c` after -/
theorem padNumber_shape (fill : Char) (align : Align) (w : Nat) (sgn pre body : PyStr) :
    ∃ a b c, a + b + c = w - (sgn.length + pre.length + body.length) ∧
      padNumber fill align w sgn pre body =
        List.replicate a fill ++ sgn ++ pre ++ List.replicate b fill ++ body ++ List.replicate c fill := by
  unfold padNumber
  cases align
  · exact ⟨0, 0, w - (sgn.length + pre.length + body.length), by omega, by simp⟩
  · exact ⟨w - (sgn.length + pre.length + body.length), 0, 0, by omega, by simp⟩
  · exact ⟨0, w - (sgn.length + pre.length + body.length), 0, by omega, by simp⟩
  · exact ⟨(w - (sgn.length + pre.length + body.length)) / 2, 0,
      (w - (sgn.length + pre.length + body.length)) - (w - (sgn.length + pre.length + body.length)) / 2,
      by omega, by simp⟩

theorem zeroPad_length (minW : Nat) (ds : List Char) : (zeroPad minW ds).length = max minW ds.length := by
  unfold zeroPad; simp only [List.length_append, List.length_replicate]; omega

/-! ## digits -/

/-- the value of a digit character, either case -/
def charVal (c : Char) : Nat :=
  if '0' ≤ c ∧ c ≤ '9' then c.toNat - 48
  else if 'a' ≤ c ∧ c ≤ 'f' then c.toNat - 87
  else if 'A' ≤ c ∧ c ≤ 'F' then c.toNat - 55
  else 0

/-- `int(text, base)` for a plain digit string -/
def ofDigits (b : Nat) (l : List Char) : Nat := l.foldl (fun acc c => acc * b + charVal c) 0

def ofDigitsRev (b : Nat) : List Char → Nat
  | [] => 0
  | c :: cs => charVal c + b * ofDigitsRev b cs

theorem foldl_digits (b : Nat) (l : List Char) (acc : Nat) :
    l.foldl (fun acc c => acc * b + charVal c) acc = acc * b ^ l.length + ofDigits b l := by
  induction l generalizing acc with
  | nil => simp [ofDigits]
  | cons c cs ih =>
    simp only [List.foldl_cons, List.length_cons, ofDigits]
    rw [ih, ih (0 * b + charVal c)]
    simp only [Nat.zero_mul, Nat.zero_add, Nat.pow_succ, Nat.add_mul, Nat.add_assoc]
    congr 1
    rw [Nat.mul_assoc, Nat.mul_comm b]

theorem ofDigits_append (b : Nat) (l m : List Char) :
    ofDigits b (l ++ m) = ofDigits b l * b ^ m.length + ofDigits b m := by
  unfold ofDigits
  rw [List.foldl_append, foldl_digits]
  rfl

theorem ofDigits_reverse (b : Nat) (l : List Char) : ofDigits b l.reverse = ofDigitsRev b l := by
  induction l with
  | nil => rfl
  | cons c cs ih =>
    rw [List.reverse_cons, ofDigits_append, ih]
    simp [ofDigits, ofDigitsRev, Nat.mul_comm, Nat.add_comm]

theorem charVal_digitChar : ∀ d : Fin 16, charVal (digitChar d.val) = d.val := by decide

theorem charVal_digitChar_upper : ∀ d : Fin 16, charVal (digitChar d.val).toUpper = d.val := by decide

theorem digitsRev_value (b : Nat) (hb2 : 2 ≤ b) (hb16 : b ≤ 16) (h : Char → Char)
    (hh : ∀ d : Fin 16, charVal (h (digitChar d.val)) = d.val) :
    ∀ (fuel n : Nat), n < fuel → ofDigitsRev b ((digitsRev b fuel n).map h) = n := by
  intro fuel
  induction fuel with
  | zero => intro n hn; omega
  | succ f ih =>
    intro n hn
    have hmod : n % b < 16 := Nat.lt_of_lt_of_le (Nat.mod_lt _ (by omega)) hb16
    have hc := hh ⟨n % b, hmod⟩
    simp only at hc
    simp only [digitsRev, List.map_cons, ofDigitsRev, hc]
    by_cases hz : n / b = 0
    · simp only [hz, if_true, List.map_nil, ofDigitsRev, Nat.mul_zero, Nat.add_zero]
      have := Nat.div_add_mod n b
      rw [hz] at this; omega
    · simp only [hz, if_false]
      have hlt : n / b < n := Nat.div_lt_self (by
        rcases Nat.eq_zero_or_pos n with h0 | h0
        · subst h0; simp at hz
        · exact h0) (by omega)
      rw [ih (n / b) (by omega)]
      have := Nat.div_add_mod n b
      omega

theorem Spec.base_bounds (sp : Spec) : 2 ≤ sp.base ∧ sp.base ≤ 16 := by
  unfold Spec.base
  split <;> omega

/-- reading the digits back gives the absolute value (either case) -/
theorem digitStr_value (sp : Spec) (v : Int) : ofDigits sp.base (sp.digitStr v) = v.natAbs := by
  obtain ⟨h2, h16⟩ := sp.base_bounds
  unfold Spec.digitStr digits
  by_cases hu : sp.upper = true
  · simp only [hu, if_true]
    rw [List.map_reverse, ofDigits_reverse]
    exact digitsRev_value _ h2 h16 Char.toUpper charVal_digitChar_upper _ _ (by omega)
  · simp only [hu, Bool.false_eq_true, if_false]
    rw [ofDigits_reverse]
    have := digitsRev_value _ h2 h16 id charVal_digitChar (v.natAbs + 1) v.natAbs (by omega)
    simpa using this

theorem ofDigits_zeros (b z : Nat) (l : List Char) : ofDigits b (List.replicate z '0' ++ l) = ofDigits b l := by
  rw [ofDigits_append]
  have : ofDigits b (List.replicate z '0') = 0 := by
    induction z with
    | zero => rfl
    | succ k ih =>
      rw [List.replicate_succ]
      have e : '0' :: List.replicate k '0' = ['0'] ++ List.replicate k '0' := rfl
      rw [e, ofDigits_append, ih]
      simp [ofDigits, charVal]
  rw [this]; simp

end Fmt
end Amaranth
