import AmaranthVerif.Proofs.EngineTb

/-!
# Write-disjointness of the processes of a design, from a static condition on the design

A compiled process only ever calls `slots[i].update(value, mask_i)` with the masks
`LHSMaskCollector` computed for its statements (`procUpdates`): the masks are *static*. So when the
static masks of two processes are disjoint bit sets per signal — "one driver per bit", what C06 gives —
their updates are `Disjoint` in **every** state, reachable or not. The same holds for clocks and the
documented process forms, whose only update is `ctx.set` of one fixed signal (or bit range).

The reset-only process of an `async_reset` domain and the domain's synchronous process are the one
exception: both are compiled from the same statements and carry the same masks. They never disagree
in a *reachable* state (`Proofs/EngineReach.lean`).
-/

namespace Amaranth.Engine
open Amaranth

/-! ## Static footprints -/

/-- the commit masks of a compiled body: `(signal, mask)` for every signal with a non-zero mask, the
mask sign-extended for signed signals — exactly the `(slot, mask)` pairs of `procUpdates` -/
def bodyMasks (ctx : Ctx) (body : Stmt) : List (Nat × Int) :=
  let tab := stmtMask ctx body (List.replicate ctx.length 0)
  (List.range ctx.length).filterMap fun i =>
    let m := tab.get i
    if m == 0 then none else some (i, extMask (ctx.shape i) m)

/-- the static write footprint of a process: every update it can ever perform has one of these
`(slot, mask)` pairs -/
def kindMasks (D : Design) : ProcKind → List (Nat × Int)
  | .comb body => bodyMasks D.ctx body
  | .sync _ body => bodyMasks D.ctx body
  | .arst _ body => bodyMasks D.ctx body
  | .clock slot _ _ => [(slot, -1)]
  | .userComb _ out _ => [(out, -1)]
  | .userSync _ _ out _ => [(out, -1)]
  | .userSyncPart _ _ out lo hi _ => [(out, 2 ^ hi - 2 ^ lo)]
  | .userLateComb _ _ out _ => [(out, -1)]

/-- two footprints share no bit of any signal -/
def masksDisjoint (a b : List (Nat × Int)) : Bool :=
  a.all fun x => b.all fun y => x.1 != y.1 || pyAnd x.2 y.2 == 0

theorem disjoint_of_masks {a b : List (Nat × Int)} (h : masksDisjoint a b = true) {u v : Update}
    (hu : (u.slot, u.mask) ∈ a) (hv : (v.slot, v.mask) ∈ b) : Disjoint u v := by
  unfold masksDisjoint at h
  rw [List.all_eq_true] at h
  have h1 := h _ hu
  rw [List.all_eq_true] at h1
  have h2 := h1 _ hv
  simp only [Bool.or_eq_true, bne_iff_ne, ne_eq, beq_iff_eq] at h2
  exact h2

theorem procUpdates_mem (ctx : Ctx) (body : Stmt) (nxt : Env) (u : Update) (h : u ∈ procUpdates ctx body nxt) :
    (u.slot, u.mask) ∈ bodyMasks ctx body ∧ u.slot < ctx.length ∧ u.value = nxt.val u.slot := by
  unfold procUpdates at h
  simp only [List.mem_filterMap, List.mem_range] at h
  obtain ⟨i, hi, h⟩ := h
  by_cases hm : ((stmtMask ctx body (List.replicate ctx.length 0)).get i == 0) = true
  · simp [hm] at h
  · simp only [hm] at h
    simp only [Bool.false_eq_true, if_false, Option.some.injEq] at h
    subst h
    refine ⟨?_, hi, rfl⟩
    unfold bodyMasks
    simp only [List.mem_filterMap, List.mem_range]
    exact ⟨i, hi, by simp [hm]⟩

/-- every update a process performs, in any state, lies in its static footprint -/
theorem toDef_run_masks (D : Design) (k : ProcKind) (l : Local) (cur : Env) (u : Update)
    (h : u ∈ ((k.toDef D).run l cur).updates) : (u.slot, u.mask) ∈ kindMasks D k := by
  cases k with
  | comb body => exact (procUpdates_mem _ _ _ u h).1
  | sync d body => exact (procUpdates_mem _ _ _ u h).1
  | arst d body =>
    simp only [ProcKind.toDef, arstDef, List.mem_filter] at h
    exact (procUpdates_mem _ _ _ u h.1).1
  | clock slot phase period =>
    simp only [ProcKind.toDef, clockDef] at h
    split at h
    · simp at h
    · simp at h; subst h; simp [kindMasks]
  | userComb ins out e =>
    simp only [ProcKind.toDef, userCombDef, List.mem_singleton] at h
    subst h; simp [kindMasks, setUpd]
  | userSync d ins out e =>
    simp only [ProcKind.toDef, userSyncDef] at h
    split at h
    · simp at h
    · split at h
      · simp only [List.mem_singleton] at h; subst h; simp [kindMasks, setUpd]
      · split at h
        · simp only [List.mem_singleton] at h; subst h; simp [kindMasks, setUpd]
        · simp at h
  | userSyncPart d ins out lo hi e =>
    simp only [ProcKind.toDef, userSyncPartDef] at h
    split at h
    · simp at h
    · split at h
      · simp only [List.mem_singleton] at h; subst h; simp [kindMasks, setPartUpd]
      · split at h
        · simp only [List.mem_singleton] at h; subst h; simp [kindMasks, setPartUpd]
        · simp at h
  | userLateComb n ins out e =>
    simp only [ProcKind.toDef, userLateCombDef] at h
    split at h
    · simp at h
    · split at h
      · simp at h
      · simp only [List.mem_singleton] at h; subst h; simp [kindMasks, setUpd]

/-! ## The owners of a simulation -/

theorem simDefs_proc (D : Design) (kinds : List ProcKind) (scripts : List (List TbOp)) (p : Nat) (k : ProcKind)
    (h : kinds[p]? = some k) : (simDefs D kinds scripts)[p]? = some (k.toDef D) := by
  have hp : p < kinds.length := by
    rcases Nat.lt_or_ge p kinds.length with h' | h'
    · exact h'
    · rw [List.getElem?_eq_none h'] at h; cases h
  unfold simDefs
  rw [List.getElem?_append_left (by simpa using hp), List.getElem?_map, h]; rfl

theorem simDefs_tb (D : Design) (kinds : List ProcKind) (scripts : List (List TbOp)) (p : Nat) (d : ProcDef)
    (hp : kinds.length ≤ p) (h : (simDefs D kinds scripts)[p]? = some d) :
    ∃ sc, d = tbDef D.ctx D.doms sc := by
  unfold simDefs at h
  rw [List.getElem?_append_right (by simpa using hp), List.getElem?_map] at h
  simp only [Option.map_eq_some_iff] at h
  obtain ⟨sc, _, h⟩ := h
  exact ⟨sc, h.symm⟩

/-- an update of `updatesOf` comes from a runnable owner, run on `curr` with its flag cleared -/
theorem updatesOf_mem' (ps : List ProcDef) (s : EState) (p : Nat) (u : Update) (h : u ∈ updatesOf ps s p) :
    ∃ d l, ps[p]? = some d ∧ s.locals[p]? = some l ∧ l.runnable = true ∧
      u ∈ (d.run { l with runnable := false } s.curr).updates := by
  unfold updatesOf effectOf at h
  cases hd : ps[p]? with
  | none => simp [hd] at h
  | some d =>
    cases hl : s.locals[p]? with
    | none => simp [hd, hl] at h
    | some l =>
      by_cases hr : l.runnable = true
      · simp only [hd, hl, hr, if_true] at h
        exact ⟨d, l, rfl, rfl, hr, h⟩
      · simp [hd, hl, hr] at h

/-- an update of `updatesOf` in a simulation comes from one of the processes (testbenches are not in
`_processes`; their `run` writes nothing), and lies in that process' static footprint -/
theorem simDefs_updatesOf (D : Design) (kinds : List ProcKind) (scripts : List (List TbOp)) (s : EState) (p : Nat)
    (u : Update) (h : u ∈ updatesOf (simDefs D kinds scripts) s p) :
    ∃ k l, kinds[p]? = some k ∧ s.locals[p]? = some l ∧ l.runnable = true ∧
      u ∈ ((k.toDef D).run { l with runnable := false } s.curr).updates ∧ (u.slot, u.mask) ∈ kindMasks D k := by
  obtain ⟨d, l, hd, hl, hr, hu⟩ := updatesOf_mem' _ _ _ _ h
  rcases Nat.lt_or_ge p kinds.length with hp | hp
  · have hk : kinds[p]? = some kinds[p] := List.getElem?_eq_getElem hp
    rw [simDefs_proc D kinds scripts p _ hk] at hd
    cases hd
    exact ⟨kinds[p], l, hk, hl, hr, hu, toDef_run_masks D _ _ _ u hu⟩
  · obtain ⟨sc, rfl⟩ := simDefs_tb D kinds scripts p d hp hd
    simp [tbDef] at hu

/-! ## Disjoint static masks give `DisjointWrites`, in every state -/

/-- the static condition without asynchronous resets: the footprints of the processes are pairwise
disjoint. Decidable (`decide`). -/
def StaticDisjoint (D : Design) (kinds : List ProcKind) : Prop :=
  kinds.Pairwise fun a b => masksDisjoint (kindMasks D a) (kindMasks D b) = true

instance (D : Design) (kinds : List ProcKind) : Decidable (StaticDisjoint D kinds) := by
  unfold StaticDisjoint; infer_instance

/-- **One driver per bit gives `DisjointWrites`.** If the static masks of the processes of a
simulation are pairwise disjoint, then in every state — reachable or not — no two runnable processes
write the same bit of the same signal. -/
theorem static_disjoint_writes (D : Design) (kinds : List ProcKind) (scripts : List (List TbOp))
    (h : StaticDisjoint D kinds) : DisjointWrites (simDefs D kinds scripts) := by
  intro s p q hpq u hu v hv
  obtain ⟨k, l, hk, _, _, _, hmu⟩ := simDefs_updatesOf D kinds scripts s p u hu
  obtain ⟨k', l', hk', _, _, _, hmv⟩ := simDefs_updatesOf D kinds scripts s q v hv
  obtain ⟨hp, ek⟩ := List.getElem?_eq_some_iff.mp hk
  obtain ⟨hq, ek'⟩ := List.getElem?_eq_some_iff.mp hk'
  have hall := List.pairwise_iff_getElem.mp h
  rcases Nat.lt_or_ge p q with hlt | hge
  · have := hall p q hp hq hlt
    rw [ek, ek'] at this
    exact disjoint_of_masks this hmu hmv
  · have hlt : q < p := by omega
    have := hall q p hq hp hlt
    rw [ek, ek'] at this
    exact (disjoint_of_masks this hmv hmu).symm

end Amaranth.Engine
