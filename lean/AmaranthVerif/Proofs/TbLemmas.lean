import AmaranthVerif.Proofs.Patterns
import AmaranthVerif.Proofs.Arith

/-! # Bit-level lemmas needed for the testbench evaluator (negative operands of `&`, sign tests) -/

namespace Amaranth

theorem testBit_sub_and (m n i : Nat) : (m - (m &&& n)).testBit i = (m.testBit i && !n.testBit i) := by
  induction i generalizing m n with
  | zero =>
    simp only [Nat.testBit_zero]
    have h1 := @Nat.and_mod_two_eq_one m n
    have h2 : m &&& n ≤ m := Nat.and_le_left
    by_cases hm : m % 2 = 1 <;> by_cases hn : n % 2 = 1
    · have : (m &&& n) % 2 = 1 := h1.mpr ⟨hm, hn⟩
      have : (m - (m &&& n)) % 2 = 0 := by omega
      simp [hm, hn, this]
    · have : ¬ (m &&& n) % 2 = 1 := fun h => hn (h1.mp h).2
      have : (m - (m &&& n)) % 2 = 1 := by omega
      simp [hm, hn, this]
    · have : ¬ (m &&& n) % 2 = 1 := fun h => hm (h1.mp h).1
      have : ¬ (m - (m &&& n)) % 2 = 1 := by omega
      simp [hm, hn, this]
    · have : ¬ (m &&& n) % 2 = 1 := fun h => hm (h1.mp h).1
      have : ¬ (m - (m &&& n)) % 2 = 1 := by omega
      simp [hm, hn, this]
  | succ i ih =>
    rw [Nat.testBit_add_one, Nat.testBit_add_one, Nat.testBit_add_one]
    have h1 := @Nat.and_mod_two_eq_one m n
    have h2 : m &&& n ≤ m := Nat.and_le_left
    have h3 : (m &&& n) / 2 = m / 2 &&& n / 2 := Nat.and_div_two
    have : (m - (m &&& n)) / 2 = m / 2 - (m / 2 &&& n / 2) := by
      rw [← h3]
      by_cases hmn : (m &&& n) % 2 = 1
      · have := (h1.mp hmn).1; omega
      · omega
    rw [this, ih]

theorem maskNat_lt (p : Pat) : p.maskNat < 2 ^ p.length := by
  apply Nat.lt_pow_two_of_testBit
  intro i hi
  rw [maskNat_testBit]
  have : ¬ i < p.length := by omega
  simp [this]

/-- masking the test value to the pattern's width does not change `mask & test` -/
theorem pyAnd_emod (M w : Nat) (hM : M < 2 ^ w) (t : Int) :
    pyAnd (M : Int) t = pyAnd (M : Int) (t % 2 ^ w) := by
  have hp := two_pow_pos' w
  cases t with
  | ofNat T =>
    have e : (Int.ofNat T) % 2 ^ w = ((T % 2 ^ w : Nat) : Int) := by
      simp only [Int.ofNat_eq_natCast]; push_cast; rfl
    rw [e]
    show ((M &&& T : Nat) : Int) = ((M &&& T % 2 ^ w : Nat) : Int)
    have h1 : (M &&& T) % 2 ^ w = (M % 2 ^ w) &&& (T % 2 ^ w) := Nat.and_mod_two_pow
    have h2 : M &&& T < 2 ^ w := Nat.lt_of_le_of_lt Nat.and_le_left hM
    rw [Nat.mod_eq_of_lt h2, Nat.mod_eq_of_lt hM] at h1
    rw [h1]
  | negSucc n =>
    have hlt : n % 2 ^ w < 2 ^ w := Nat.mod_lt _ (Nat.two_pow_pos w)
    have e : (Int.negSucc n) % 2 ^ w = ((2 ^ w - (n % 2 ^ w + 1) : Nat) : Int) := by
      rw [Int.negSucc_emod n hp]
      have : ((n : Int) % 2 ^ w) = ((n % 2 ^ w : Nat) : Int) := by push_cast; rfl
      rw [this]
      have h2 : ((2 ^ w : Nat) : Int) = 2 ^ w := by push_cast; rfl
      omega
    rw [e]
    show ((M - (M &&& n) : Nat) : Int) = ((M &&& (2 ^ w - (n % 2 ^ w + 1)) : Nat) : Int)
    congr 1
    apply Nat.eq_of_testBit_eq
    intro i
    rw [testBit_sub_and, Nat.testBit_and, Nat.testBit_two_pow_sub_succ hlt, Nat.testBit_mod_two_pow]
    by_cases hi : i < w
    · simp [hi]
    · have : M.testBit i = false := by
        apply Nat.testBit_lt_two_pow
        exact Nat.lt_of_lt_of_le hM (Nat.pow_le_pow_right (by decide) (by omega))
      simp [this]

/-- `matchesAny` on the exact (possibly negative) test value equals `matchesAny` on the masked one -/
theorem matchesAny_emod (pats : List Pat) (w : Nat) (hp : pats.all (fun p => p.length == w) = true) (t : Int) :
    matchesAny pats t = matchesAny pats (mask w t) := by
  unfold matchesAny mask
  induction pats with
  | nil => rfl
  | cons p ps ih =>
    simp only [List.all_cons, Bool.and_eq_true, beq_iff_eq] at hp
    simp only [List.any_cons]
    have := maskNat_lt p
    rw [hp.1] at this
    rw [pyAnd_emod p.maskNat w this t, ih hp.2]

theorem and_two_pow_eq_zero (R k : Nat) : (R &&& 2 ^ k = 0) ↔ R.testBit k = false := by
  constructor
  · intro h
    have := congrArg (fun x => x.testBit k) h
    simpa [Nat.testBit_and, Nat.testBit_two_pow_self] using this
  · intro h
    apply Nat.eq_of_testBit_eq
    intro i
    rw [Nat.testBit_and, Nat.testBit_two_pow, Nat.zero_testBit]
    by_cases hik : k = i
    · subst hik; simp [h]
    · simp [hik]

/-- the sign test and sign extension of `eval_value`'s `"s"` operator are `norm` to the signed shape -/
theorem tb_signed (w : Nat) (hw : 0 < w) (v : Int) :
    (let r := mask w v
     if pyAnd r (pyShl 1 (w - 1)) != 0 then pyOr r (pyShl (-1) (w - 1)) else r) = norm ⟨w, true⟩ v := by
  have hp := two_pow_pos' w
  have hp1 := two_pow_pos' (w - 1)
  have e2 := two_pow_pred w hw
  obtain ⟨R, hR⟩ := Int.eq_ofNat_of_zero_le (mask_nonneg w v)
  have hRlt : R < 2 ^ w := by
    have := mask_lt w v; rw [hR] at this; exact_mod_cast this
  have e2n : 2 ^ w = 2 * 2 ^ (w - 1) := by
    have : w = (w - 1) + 1 := by omega
    rw [this, Nat.pow_succ]; simp; omega
  have hP : pyShl 1 (w - 1) = ((2 ^ (w - 1) : Nat) : Int) := by unfold pyShl; push_cast; omega
  have hPc : ((2 ^ (w - 1) : Nat) : Int) = (2 : Int) ^ (w - 1) := by push_cast; rfl
  have hNpos := Nat.two_pow_pos (w - 1)
  have hN : pyShl (-1) (w - 1) = Int.negSucc (2 ^ (w - 1) - 1) := by
    unfold pyShl; rw [Int.negSucc_eq]; omega
  have hm : mask w v = (R : Int) := hR
  rw [norm_s]
  show (if pyAnd (mask w v) (pyShl 1 (w - 1)) != 0 then pyOr (mask w v) (pyShl (-1) (w - 1)) else mask w v) = _
  rw [hm, hP, hN]
  have hv : v % 2 ^ w = (R : Int) := hR
  rw [hv]
  have hand : pyAnd (R : Int) ((2 ^ (w - 1) : Nat) : Int) = ((R &&& 2 ^ (w - 1) : Nat) : Int) := rfl
  rw [hand]
  have htb : R.testBit (w - 1) = decide (2 ^ (w - 1) ≤ R) := by
    rw [Nat.testBit_eq_decide_div_mod_eq]
    have hq : R / 2 ^ (w - 1) < 2 := by
      apply Nat.div_lt_of_lt_mul; omega
    by_cases hle : 2 ^ (w - 1) ≤ R
    · have : R / 2 ^ (w - 1) = 1 := by
        have : 0 < R / 2 ^ (w - 1) := Nat.div_pos hle (Nat.two_pow_pos _)
        omega
      simp [this, hle]
    · have : R / 2 ^ (w - 1) = 0 := Nat.div_eq_of_lt (by omega)
      simp [this, hle]
  by_cases hle : 2 ^ (w - 1) ≤ R
  · have hge : (R : Int) ≥ 2 ^ (w - 1) := by rw [← hPc]; exact_mod_cast hle
    have hne : R &&& 2 ^ (w - 1) ≠ 0 := by
      intro h0; have := (and_two_pow_eq_zero R (w - 1)).mp h0; rw [htb] at this; simp [hle] at this
    have : (((R &&& 2 ^ (w - 1) : Nat) : Int) != 0) = true := by
      simp only [bne_iff_ne, ne_eq]; exact_mod_cast hne
    rw [this, if_pos rfl, if_pos hge]
    show Int.negSucc ((2 ^ (w - 1) - 1) - ((2 ^ (w - 1) - 1) &&& R)) = _
    rw [Nat.and_comm, Nat.and_two_pow_sub_one_eq_mod]
    have hmod : R % 2 ^ (w - 1) = R - 2 ^ (w - 1) := by
      rw [Nat.mod_eq_sub_mod hle, Nat.mod_eq_of_lt (by omega)]
    rw [hmod, Int.negSucc_eq]
    omega
  · have hlt : ¬ (R : Int) ≥ 2 ^ (w - 1) := by
      intro h; apply hle; rw [← hPc] at h; exact_mod_cast h
    have h0 : R &&& 2 ^ (w - 1) = 0 := by
      rw [and_two_pow_eq_zero, htb]; simp [hle]
    have : (((R &&& 2 ^ (w - 1) : Nat) : Int) != 0) = false := by
      rw [h0]; rfl
    rw [this, if_neg (by simp), if_neg hlt]

end Amaranth
