import AmaranthVerif.Proofs.EngineReach

/-!
# A tick wait, end to end

A testbench suspended on `await ctx.tick(d).sample(*es)` is followed through the delta that commits
the clock edge, the next delta (phase 1a computes its result from `curr`), the rest of
`step_design()` and its resumption by `tbExec`:

* the commit of the edge activates the trigger and records the edge in `_triggers_hit`, whatever the
  order of the pending slots (`commit_fires_tick`);
* in the following delta the result is computed from `curr` exactly as that commit left it
  (`delta_samples_tick`); nothing touches it afterwards (`delta_tb_idle`, `settle_tb_idle`);
* `tbExec` records `1 :: rst :: es.map (evalTb ctx c₁)` where `c₁` is `curr` right after the edge's commit;
* a signal that is not pending at that commit has the same value in `c₁` as before the edge
  (`commit_curr_of_eq`): registers clocked by the edge are sampled with their pre-edge values.
-/

namespace Amaranth.Engine
open Amaranth

/-! ## The trigger of a tick -/

theorem tickTrigger_shape (cfg : DomCfg) (es : List Expr) :
    ∃ X Y, tickTrigger cfg es = .edge cfg.clk 0 cfg.posedge :: X :: Y :: es.map .sample := by
  unfold tickTrigger
  simp only
  split <;> exact ⟨_, _, rfl⟩

theorem tbTrigger_tick (doms : List DomCfg) (script : List TbOp) (l : Local) (d : Nat) (es : List Expr)
    (hop : script[l.pc]? = some (.tick d es)) : tbTrigger doms script l = tickTrigger (doms.getD d default) es := by
  unfold tbTrigger
  rw [hop]; rfl

/-- what the slot wakers of a trigger state may change: activation and hits only go up -/
structure TbMono (l l1 : Local) : Prop where
  waiting : l1.waiting = l.waiting
  pc : l1.pc = l.pc
  report : l1.report = l.report
  len : l1.hits.length = l.hits.length
  act : l.active = true → l1.active = true
  hit0 : l.hits[0]? = some true → l1.hits[0]? = some true

theorem TbMono.refl (l : Local) : TbMono l l := ⟨rfl, rfl, rfl, rfl, id, id⟩

theorem TbMono.trans {a b c : Local} (h1 : TbMono a b) (h2 : TbMono b c) : TbMono a c :=
  ⟨h2.waiting.trans h1.waiting, h2.pc.trans h1.pc, h2.report.trans h1.report, h2.len.trans h1.len,
   fun h => h2.act (h1.act h), fun h => h2.hit0 (h1.hit0 h)⟩

theorem trigWake_mono (T : Trigger) (l : Local) (hlen : l.hits.length = T.length) (slot : Nat) (old new : Int) :
    TbMono l (trigWake T l slot old new) := by
  unfold trigWake
  by_cases hw : l.waiting = true
  · simp only [hw, if_true]
    refine ⟨hw.symm, rfl, rfl, ?_, ?_, ?_⟩
    · simp only [List.length_zipWith, hlen]; omega
    · intro h; simp [h]
    · intro h
      cases hh : l.hits with
      | nil => rw [hh] at h; simp at h
      | cons h0 hs =>
        cases T with
        | nil => rw [hh] at hlen; simp at hlen
        | cons e T' =>
          rw [hh] at h
          simp only [List.getElem?_cons_zero, Option.some.injEq] at h
          subst h
          simp
  · simp only [hw]
    exact TbMono.refl l

/-- the waker of the clock edge activates the trigger and records the edge -/
theorem trigWake_edge (cfg : DomCfg) (es : List Expr) (l : Local) (hw : l.waiting = true)
    (hlen : l.hits.length = (tickTrigger cfg es).length) (old new : Int)
    (hedge : (bitOf old 0 != bitOf new 0 && bitOf new 0 == cfg.posedge) = true) :
    (trigWake (tickTrigger cfg es) l cfg.clk old new).active = true ∧
    (trigWake (tickTrigger cfg es) l cfg.clk old new).hits[0]? = some true := by
  refine ⟨tick_activated cfg es l old new hw hedge, ?_⟩
  obtain ⟨X, Y, hT⟩ := tickTrigger_shape cfg es
  unfold trigWake
  simp only [hw, if_true]
  rw [hT] at hlen ⊢
  cases hh : l.hits with
  | nil => rw [hh] at hlen; simp at hlen
  | cons h0 hs =>
    simp only [List.zipWith_cons_cons, List.getElem?_cons_zero, TrigElem.hitOn, beq_self_eq_true, Bool.true_and, hedge,
      Bool.or_true]

/-! ## The commit of the edge -/

theorem tb_wake_eq (ctx : Ctx) (doms : List DomCfg) (script : List TbOp) (l l1 : Local) (d : Nat) (es : List Expr)
    (hop : script[l.pc]? = some (.tick d es)) (hpc : l1.pc = l.pc) (i : Nat) (old new : Int) :
    (tbDef ctx doms script).wake l1 i old new = trigWake (tickTrigger (doms.getD d default) es) l1 i old new := by
  show trigWake (tbTrigger doms script l1) l1 i old new = _
  rw [tbTrigger_tick doms script l1 d es (by rw [hpc]; exact hop)]

/-- Whatever the order in which the pending slots are committed: if the clock is among them and has an
active edge pending, the testbench waiting for the tick comes out of the commit activated, with the
edge recorded, and otherwise as it went in. -/
theorem commit_fires_tick (ps : List ProcDef) (ctx : Ctx) (doms : List DomCfg) (script : List TbOp) (o : Nat)
    (hdef : ps[o]? = some (tbDef ctx doms script)) (d : Nat) (es : List Expr) (l : Local)
    (hop : script[l.pc]? = some (.tick d es)) (hw : l.waiting = true)
    (hlen : l.hits.length = (tickTrigger (doms.getD d default) es).length) (c0 : Int)
    (order : List Nat) (z : EState) (l1 : Local) (hl1 : z.locals[o]? = some l1) (hm : TbMono l l1)
    (hedge : (bitOf c0 0 != bitOf (z.next.val (doms.getD d default).clk) 0 &&
              bitOf (z.next.val (doms.getD d default).clk) 0 == (doms.getD d default).posedge) = true)
    (hpend : (l1.active = true ∧ l1.hits[0]? = some true) ∨
             (z.curr.val (doms.getD d default).clk = c0 ∧ (doms.getD d default).clk ∈ order)) :
    ∃ l2, (commit ps order z).locals[o]? = some l2 ∧ TbMono l l2 ∧ l2.active = true ∧ l2.hits[0]? = some true := by
  unfold commit
  induction order generalizing z l1 with
  | nil =>
    rcases hpend with h | ⟨_, h⟩
    · exact ⟨l1, hl1, hm, h.1, h.2⟩
    · cases h
  | cons i rest ih =>
    simp only [List.foldl_cons]
    have hne : c0 ≠ z.next.val (doms.getD d default).clk := by
      intro h; rw [h] at hedge; simp at hedge
    by_cases hi : z.curr.val i = z.next.val i
    · rw [commitSlot_of_eq ps z i hi]
      apply ih z l1 hl1 hm hedge
      rcases hpend with h | ⟨h1, h2⟩
      · exact Or.inl h
      · right
        refine ⟨h1, ?_⟩
        rcases List.mem_cons.mp h2 with h | h
        · exfalso; rw [← h] at hi; rw [h1] at hi; exact hne hi
        · exact h
    · have hl2 : (commitSlot ps z i).locals[o]? =
          some (trigWake (tickTrigger (doms.getD d default) es) l1 i (z.curr.val i) (z.next.val i)) := by
        rw [commitSlot_of_ne ps z i hi]
        simp only [List.getElem?_zipWith, hdef, hl1]
        rw [tb_wake_eq ctx doms script l l1 d es hop hm.pc]
      have hlen1 : l1.hits.length = (tickTrigger (doms.getD d default) es).length := by rw [hm.len]; exact hlen
      have hmono := trigWake_mono (tickTrigger (doms.getD d default) es) l1 hlen1 i (z.curr.val i) (z.next.val i)
      apply ih (commitSlot ps z i) _ hl2 (hm.trans hmono) (by rw [commitSlot_next]; exact hedge)
      rcases hpend with h | ⟨h1, h2⟩
      · exact Or.inl ⟨hmono.act h.1, hmono.hit0 h.2⟩
      · by_cases hic : i = (doms.getD d default).clk
        · left
          subst hic
          rw [h1]
          exact trigWake_edge (doms.getD d default) es l1 (by rw [hm.waiting]; exact hw) hlen1 c0 _ hedge
        · right
          refine ⟨by rw [commitSlot_curr_ne _ _ _ _ hic]; exact h1, ?_⟩
          rcases List.mem_cons.mp h2 with h | h
          · exact absurd h.symm hic
          · exact h

/-! ## A process phase does not touch an owner that is not listed -/

theorem runProcs_locals_notin (ps : List ProcDef) (order : List Nat) (s : EState) (o : Nat) (h : o ∉ order) :
    (runProcs ps order s).locals[o]? = s.locals[o]? := by
  unfold runProcs
  induction order generalizing s with
  | nil => rfl
  | cons p rest ih =>
    simp only [List.foldl_cons]
    rw [ih _ (fun hm => h (List.mem_cons_of_mem _ hm))]
    exact stepProc_locals_ne ps s p o (fun e => h (e ▸ List.mem_cons_self ..))

/-- a testbench that is not waiting is not touched by a commit -/
theorem commit_tb_idle (ps : List ProcDef) (ctx : Ctx) (doms : List DomCfg) (script : List TbOp) (o : Nat)
    (hdef : ps[o]? = some (tbDef ctx doms script)) (order : List Nat) (z : EState) (l : Local)
    (hl : z.locals[o]? = some l) (hw : l.waiting = false) : (commit ps order z).locals[o]? = some l := by
  unfold commit
  induction order generalizing z with
  | nil => exact hl
  | cons i rest ih =>
    simp only [List.foldl_cons]
    apply ih
    unfold commitSlot
    simp only
    split
    · exact hl
    · simp only [List.getElem?_zipWith, hdef, hl]
      simp [tbDef, trigWake, hw]

/-- the edge's delta: the waiting testbench comes out activated, with the edge recorded -/
theorem delta_fires_tick (ps : List ProcDef) (ctx : Ctx) (doms : List DomCfg) (script : List TbOp) (o : Nat)
    (hdef : ps[o]? = some (tbDef ctx doms script)) (d : Nat) (es : List Expr) (s : EState) (l : Local)
    (hl : s.locals[o]? = some l) (hop : script[l.pc]? = some (.tick d es)) (hw : l.waiting = true)
    (ha : l.active = false) (hlen : l.hits.length = (tickTrigger (doms.getD d default) es).length)
    (ord : Orders) (hno : o ∉ ord.procs) (hclk : (doms.getD d default).clk ∈ ord.slots)
    (hedge : (bitOf (s.curr.val (doms.getD d default).clk) 0 !=
                bitOf ((runProcs ps ord.procs (trigPhase ps s)).next.val (doms.getD d default).clk) 0 &&
              bitOf ((runProcs ps ord.procs (trigPhase ps s)).next.val (doms.getD d default).clk) 0 ==
                (doms.getD d default).posedge) = true) :
    ∃ l1, (delta ps ord s).1.locals[o]? = some l1 ∧ TbMono l l1 ∧ l1.active = true ∧ l1.hits[0]? = some true := by
  have h0 : (runProcs ps ord.procs (trigPhase ps s)).locals[o]? = some l := by
    rw [runProcs_locals_notin ps ord.procs _ o hno]
    unfold trigPhase
    simp only [List.getElem?_zipWith, hdef, hl, ha, Bool.false_eq_true, if_false]
  obtain ⟨l2, h1, h2, h3, h4⟩ := commit_fires_tick ps ctx doms script o hdef d es l hop hw hlen
    (s.curr.val (doms.getD d default).clk) ord.slots _ l h0 (TbMono.refl l) hedge
    (Or.inr ⟨by rw [runProcs_curr, trigPhase_curr], hclk⟩)
  exact ⟨l2, h1, h2, h3, h4⟩

/-- the delta after the edge: phase 1a computes the result from `curr` as the edge's commit left it;
the testbench becomes runnable and nothing else in the delta touches it -/
theorem delta_samples (ps : List ProcDef) (ctx : Ctx) (doms : List DomCfg) (script : List TbOp) (o : Nat)
    (hdef : ps[o]? = some (tbDef ctx doms script)) (s : EState) (l : Local)
    (hl : s.locals[o]? = some l) (ha : l.active = true) (ord : Orders) (hno : o ∉ ord.procs) :
    (delta ps ord s).1.locals[o]? = some (trigRun ctx (tbTrigger doms script l) l s.curr) := by
  have h0 : (runProcs ps ord.procs (trigPhase ps s)).locals[o]? = some (trigRun ctx (tbTrigger doms script l) l s.curr) := by
    rw [runProcs_locals_notin ps ord.procs _ o hno]
    exact trigPhase_tb ps ctx doms script o hdef s l hl ha
  exact commit_tb_idle ps ctx doms script o hdef ord.slots _ _ h0 rfl

/-- a testbench that is neither waiting nor activated is not touched by a delta -/
theorem delta_tb_idle (ps : List ProcDef) (ctx : Ctx) (doms : List DomCfg) (script : List TbOp) (o : Nat)
    (hdef : ps[o]? = some (tbDef ctx doms script)) (s : EState) (l : Local)
    (hl : s.locals[o]? = some l) (hw : l.waiting = false) (ha : l.active = false) (ord : Orders) (hno : o ∉ ord.procs) :
    (delta ps ord s).1.locals[o]? = some l := by
  have h0 : (runProcs ps ord.procs (trigPhase ps s)).locals[o]? = some l := by
    rw [runProcs_locals_notin ps ord.procs _ o hno]
    unfold trigPhase
    simp only [List.getElem?_zipWith, hdef, hl, ha, Bool.false_eq_true, if_false]
  exact commit_tb_idle ps ctx doms script o hdef ord.slots _ _ h0 hw

theorem settle_tb_idle (ps : List ProcDef) (ctx : Ctx) (doms : List DomCfg) (script : List TbOp) (o : Nat)
    (hdef : ps[o]? = some (tbDef ctx doms script)) (sched : Sched) (hno : ∀ k, o ∉ (sched k).procs)
    (fuel : Nat) (s : EState) (l : Local)
    (hl : s.locals[o]? = some l) (hw : l.waiting = false) (ha : l.active = false) :
    (settle ps sched fuel s).1.locals[o]? = some l := by
  induction fuel generalizing s with
  | zero => exact hl
  | succ n ih =>
    simp only [settle]
    have h1 := delta_tb_idle ps ctx doms script o hdef s l hl hw ha (sched s.deltas) (hno _)
    split
    · exact h1
    · exact ih _ h1

/-! ## The result of the tick -/

theorem zipWith_samples (ctx : Ctx) (cur : Env) (es : List Expr) (hs : List Bool) (h : hs.length = es.length) :
    List.zipWith (fun el h => match el with
      | TrigElem.sample e => evalTb ctx cur e
      | TrigElem.changed sig => cur.val sig
      | _ => b2i h) (es.map TrigElem.sample) hs = es.map (evalTb ctx cur) := by
  induction es generalizing hs with
  | nil => simp
  | cons e es ih =>
    cases hs with
    | nil => simp at h
    | cons b bs =>
      simp only [List.map_cons, List.zipWith_cons_cons]
      rw [ih bs (by simpa using h)]

/-- the result of a tick whose clock edge was recorded: `clk_edge = 1`, and the sampled values are the
values of the expressions in the environment the result was computed from -/
theorem tick_result (ctx : Ctx) (cfg : DomCfg) (es : List Expr) (hits : List Bool) (cur : Env)
    (hlen : hits.length = (tickTrigger cfg es).length) (h0 : hits[0]? = some true) :
    ∃ rst, tickResult (trigResult ctx (tickTrigger cfg es) hits cur) = 1 :: rst :: es.map (evalTb ctx cur) := by
  obtain ⟨X, Y, hT⟩ := tickTrigger_shape cfg es
  rw [hT] at hlen ⊢
  match hits, hlen, h0 with
  | b0 :: b1 :: b2 :: bs, hlen, h0 =>
    simp only [List.getElem?_cons_zero, Option.some.injEq] at h0
    subst h0
    have hbs : bs.length = es.length := by simpa using hlen
    have h1 : (trigResult ctx (TrigElem.edge cfg.clk 0 cfg.posedge :: X :: Y :: es.map .sample) (true :: b1 :: b2 :: bs) cur).getD 0 0 = 1 := by
      unfold trigResult
      simp only [List.zipWith_cons_cons, List.getD_cons_zero]
      rfl
    have h2 : (trigResult ctx (TrigElem.edge cfg.clk 0 cfg.posedge :: X :: Y :: es.map .sample) (true :: b1 :: b2 :: bs) cur).drop 3 =
        es.map (evalTb ctx cur) := by
      unfold trigResult
      simp only [List.zipWith_cons_cons, List.drop_succ_cons, List.drop_zero]
      exact zipWith_samples ctx cur es bs hbs
    unfold tickResult
    exact ⟨_, by rw [h1, h2]⟩

/-! ## End to end: from the edge's delta to the resumed testbench -/

/-- `tbExec` on a testbench that resumes from a completed wait: it records what the wait returned -/
theorem tbExec_report (S : Sim) (t : Nat) (script : List TbOp) (n : Nat) (s : EState) (op : TbOp)
    (hop : script[(getLoc s (S.nproc + t)).pc]? = some op) (hrep : (getLoc s (S.nproc + t)).report = true) :
    tbExec S t script (n + 1) s =
      tbExec S t script n
        (setLoc { s with obs := (t, s.now, op.shown (getLoc s (S.nproc + t)).result) :: s.obs } (S.nproc + t)
          { getLoc s (S.nproc + t) with report := false, pc := (getLoc s (S.nproc + t)).pc + 1 }) := by
  simp only [tbExec, hop, hrep, if_true]

/-- **Tick sampling, on `step_design()`.** Let `s` be the state at the start of the delta whose commit
performs the active clock edge of domain `d` (the clock is pending after the process phase of that
delta, with an edge of the domain's polarity), and let testbench `o` be suspended on
`tick(d).sample(*es)`. Let `c₁` be `curr` right after that commit. Then when `step_design()` returns
(any fuel ≥ 2, any schedule that does not list the testbench among the processes), the testbench is
runnable, still has to report, and the wait returns `(1, rst, *es evaluated in c₁)`. Every signal
that is not pending at that commit has in `c₁` the value it had before the edge — in particular the
registers of the domain, whose processes are only woken by this commit. -/
theorem settle_tick (ps : List ProcDef) (ctx : Ctx) (doms : List DomCfg) (script : List TbOp) (o : Nat)
    (hdef : ps[o]? = some (tbDef ctx doms script)) (d : Nat) (es : List Expr) (s : EState) (l : Local)
    (hl : s.locals[o]? = some l) (hop : script[l.pc]? = some (.tick d es)) (hw : l.waiting = true)
    (ha : l.active = false) (hlen : l.hits.length = (tickTrigger (doms.getD d default) es).length)
    (sched : Sched) (hno : ∀ k, o ∉ (sched k).procs) (hclk : (doms.getD d default).clk ∈ (sched s.deltas).slots)
    (hedge : (bitOf (s.curr.val (doms.getD d default).clk) 0 !=
                bitOf ((runProcs ps (sched s.deltas).procs (trigPhase ps s)).next.val (doms.getD d default).clk) 0 &&
              bitOf ((runProcs ps (sched s.deltas).procs (trigPhase ps s)).next.val (doms.getD d default).clk) 0 ==
                (doms.getD d default).posedge) = true)
    (fuel : Nat) :
    let c₁ := (delta ps (sched s.deltas) s).1.curr
    (∃ l' rst, (settle ps sched (fuel + 2) s).1.locals[o]? = some l' ∧
      l'.runnable = true ∧ l'.waiting = false ∧ l'.active = false ∧ l'.report = l.report ∧ l'.pc = l.pc ∧
      TbOp.shown l'.result (.tick d es) = 1 :: rst :: es.map (evalTb ctx c₁)) ∧
    (∀ i, (runProcs ps (sched s.deltas).procs (trigPhase ps s)).next.val i = s.curr.val i → c₁.val i = s.curr.val i) := by
  intro c₁
  constructor
  · obtain ⟨l1, hl1, hm, hact, hhit⟩ := delta_fires_tick ps ctx doms script o hdef d es s l hl hop hw ha hlen
      (sched s.deltas) (hno _) hclk hedge
    -- the edge's delta does not converge: the clock changes
    have hnc : (delta ps (sched s.deltas) s).2 = false := by
      unfold delta
      simp only [Bool.not_eq_false', anyChange, List.any_eq_true]
      refine ⟨_, hclk, ?_⟩
      rw [runProcs_curr, trigPhase_curr]
      simp only [bne_iff_ne, ne_eq]
      intro h; rw [h] at hedge; simp at hedge
    have hT : tbTrigger doms script l1 = tickTrigger (doms.getD d default) es :=
      tbTrigger_tick doms script l1 d es (by rw [hm.pc]; exact hop)
    have hl2 := delta_samples ps ctx doms script o hdef _ l1 hl1 hact
      (sched (delta ps (sched s.deltas) s).1.deltas) (hno _)
    rw [hT] at hl2
    obtain ⟨rst, hres⟩ := tick_result ctx (doms.getD d default) es l1.hits c₁ (by rw [hm.len]; exact hlen) hhit
    refine ⟨trigRun ctx (tickTrigger (doms.getD d default) es) l1 c₁, rst, ?_, rfl, rfl, rfl, hm.report, hm.pc, hres⟩
    simp only [settle, hnc, Bool.false_eq_true, if_false]
    split
    · exact hl2
    · exact settle_tb_idle ps ctx doms script o hdef sched hno fuel _ _ hl2 rfl rfl
  · intro i hi
    show (commit ps (sched s.deltas).slots (runProcs ps (sched s.deltas).procs (trigPhase ps s))).curr.val i = _
    rw [commit_curr_of_eq ps _ _ i (by rw [runProcs_curr, trigPhase_curr]; exact hi), runProcs_curr, trigPhase_curr]

end Amaranth.Engine
