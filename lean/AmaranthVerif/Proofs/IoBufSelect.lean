import AmaranthVerif.Model.IoBuf
import AmaranthVerif.Spec.IoBuf

/-! # Lemmas about `Spec.select` and about Python subscripts (helper file of C18) -/

namespace Amaranth.IoBuf
open Spec (select positions)

/-! ## `select` -/

theorem select_nil (xs : List α) : select [] xs = [] := rfl

theorem select_cons (i : Nat) (ps : List Nat) (xs : List α) :
    select (i :: ps) xs = (match xs[i]? with | none => select ps xs | some x => x :: select ps xs) := by
  cases h : xs[i]? <;> simp [select, List.filterMap_cons, h]

theorem select_cons_lt {i : Nat} {ps : List Nat} {xs : List α} (h : i < xs.length) :
    select (i :: ps) xs = xs[i] :: select ps xs := by
  rw [select_cons]; simp [List.getElem?_eq_getElem h]

theorem select_zip (ps : List Nat) (xs : List α) (ys : List β) (h : xs.length = ys.length) :
    select ps (xs.zip ys) = (select ps xs).zip (select ps ys) := by
  induction ps with
  | nil => rfl
  | cons i ps ih =>
    by_cases hi : i < xs.length
    · have hi' : i < ys.length := h ▸ hi
      have hz : i < (xs.zip ys).length := by simp [List.length_zip]; omega
      rw [select_cons_lt hi, select_cons_lt hi', select_cons_lt hz, ih]
      simp
    · have hi' : ¬ i < ys.length := h ▸ hi
      have hz : ¬ i < (xs.zip ys).length := by simp [List.length_zip]; omega
      rw [select_cons, select_cons, select_cons]
      simp [List.getElem?_eq_none (Nat.le_of_not_lt hi), List.getElem?_eq_none (Nat.le_of_not_lt hi'),
        List.getElem?_eq_none (Nat.le_of_not_lt hz), ih]

theorem select_map (ps : List Nat) (xs : List α) (f : α → β) :
    select ps (xs.map f) = (select ps xs).map f := by
  induction ps with
  | nil => rfl
  | cons i ps ih =>
    rw [select_cons, select_cons, ih]
    cases h : xs[i]? <;> simp [h]

theorem select_length_of_lt {ps : List Nat} {xs : List α} (h : ∀ i ∈ ps, i < xs.length) :
    (select ps xs).length = ps.length := by
  induction ps with
  | nil => rfl
  | cons i ps ih =>
    have hi : i < xs.length := h i (by simp)
    rw [select_cons_lt hi]
    simp [ih (fun j hj => h j (by simp [hj]))]

theorem select_length_eq (ps : List Nat) {xs : List α} {ys : List β} (h : xs.length = ys.length) :
    (select ps xs).length = (select ps ys).length := by
  induction ps with
  | nil => rfl
  | cons i ps ih =>
    by_cases hi : i < xs.length
    · rw [select_cons_lt hi, select_cons_lt (h ▸ hi)]; simp [ih]
    · have hi' : ¬ i < ys.length := h ▸ hi
      rw [select_cons, select_cons]
      simp [List.getElem?_eq_none (Nat.le_of_not_lt hi), List.getElem?_eq_none (Nat.le_of_not_lt hi'), ih]

theorem select_replicate {ps : List Nat} {n : Nat} (a : α) (h : ∀ i ∈ ps, i < n) :
    select ps (List.replicate n a) = List.replicate ps.length a := by
  induction ps with
  | nil => rfl
  | cons i ps ih =>
    have hi : i < (List.replicate n a).length := by simp; exact h i (by simp)
    rw [select_cons_lt hi, ih (fun j hj => h j (by simp [hj]))]
    simp [List.replicate_succ]

theorem select_range' (xs : List α) (a len : Nat) (h : a + len ≤ xs.length) :
    select (List.range' a len) xs = (xs.drop a).take len := by
  induction len generalizing a with
  | zero => simp [select]
  | succ len ih =>
    have ha : a < xs.length := by omega
    rw [List.range'_succ, select_cons_lt ha, ih (a + 1) (by omega)]
    rw [List.drop_eq_getElem_cons ha, List.take_succ_cons]

theorem select_singleton {xs : List α} {j : Nat} (h : j < xs.length) : select [j] xs = [xs[j]] := by
  rw [select_cons_lt h, select_nil]

end Amaranth.IoBuf
