import AmaranthVerif.Proofs.FsmLower

/-!
# Well-formedness facts about programs with FSMs

* `events_goto`: every `m.next` event of an evaluation belongs to an FSM of the program (or to the enclosing one) and
  names a state of that FSM's encoding.
* `ok_regs`: what `FProg.ok` says about the state registers, as the flat predicate `RegsOk`.
* `lowerListD_ok`: the lowered program is accepted by `Prog.listOk` (so the theorems about `Prog` apply to it).
-/

namespace Amaranth

def GotoIn (fs : List (FsmHdr × FsmEntries)) : Ev → Prop
  | .write .. => True
  | .goto h es s => (h, es) ∈ fs ∧ s ∈ encOrder es

def GotoCx (cx : Option (FsmHdr × FsmEntries)) (ms : List String) : Ev → Prop
  | .write .. => False
  | .goto h es s => cx = some (h, es) ∧ s ∈ ms

theorem GotoIn.mono {a b : List (FsmHdr × FsmEntries)} {e : Ev} (h : GotoIn a e) (hs : ∀ f ∈ a, f ∈ b) : GotoIn b e := by
  cases e with
  | write => trivial
  | goto h' es s => exact ⟨hs _ h.1, h.2⟩

theorem GotoCx.mono {cx : Option (FsmHdr × FsmEntries)} {a b : List String} {e : Ev} (h : GotoCx cx a e)
    (hs : ∀ x ∈ a, x ∈ b) : GotoCx cx b e := by
  cases e with
  | write => exact h
  | goto h' es s => exact ⟨h.1, hs _ h.2⟩

theorem goto_or_mono {cx : Option (FsmHdr × FsmEntries)} {a b : List (FsmHdr × FsmEntries)} {m n : List String} {e : Ev}
    (h : GotoIn a e ∨ GotoCx cx m e) (h1 : ∀ f ∈ a, f ∈ b) (h2 : ∀ x ∈ m, x ∈ n) : GotoIn b e ∨ GotoCx cx n e :=
  h.imp (fun x => x.mono h1) (fun x => x.mono h2)

section
variable (ctx : Ctx) (cur : Env) (σ : Conf) (d : String)

mutual
theorem events_goto : ∀ (p : FProg) (cx : Option (FsmHdr × FsmEntries)) (e : Ev),
    e ∈ FProg.events ctx cur σ d cx p → GotoIn (FProg.fsms p) e ∨ GotoCx cx (FProg.mentions p) e
  | .assign dom l r, cx, e, he => by
    simp only [FProg.events] at he
    split at he
    · simp only [List.mem_singleton] at he; subst he; exact Or.inl trivial
    · simp at he
  | .ifs branches els, cx, e, he => by
    simp only [FProg.events] at he
    cases hi : FProg.ifEvents ctx cur σ d cx branches with
    | some evs =>
      rw [hi] at he
      exact goto_or_mono (ifEvents_goto branches cx evs hi e he)
        (by intro f hf; simp only [FProg.fsms, List.mem_append]; exact Or.inl hf)
        (by intro f hf; simp only [FProg.mentions, List.mem_append]; exact Or.inl hf)
    | none =>
      rw [hi] at he
      exact goto_or_mono (listEvents_goto els cx e he)
        (by intro f hf; simp only [FProg.fsms, List.mem_append]; exact Or.inr hf)
        (by intro f hf; simp only [FProg.mentions, List.mem_append]; exact Or.inr hf)
  | .switch test cases, cx, e, he => by
    simp only [FProg.events] at he
    exact caseEvents_goto cases cx _ _ e he
  | .fsm h entries, cx, e, he => by
    simp only [FProg.events] at he
    cases hs : σ h.reg with
    | none => rw [hs] at he; simp at he
    | some s =>
      rw [hs] at he
      rcases stateEvents_goto h entries s entries e he with h1 | h1
      · exact Or.inl (h1.mono (by intro f hf; simp only [FProg.fsms, List.mem_cons]; exact Or.inr hf))
      · cases e with
        | write => exact absurd h1 (by simp [GotoCx])
        | goto h' es' s' =>
          obtain ⟨h2, h3⟩ := h1
          simp only [Option.some.injEq, Prod.mk.injEq] at h2
          obtain ⟨e1, e2⟩ := h2
          subst e1 e2
          exact Or.inl ⟨by simp [FProg.fsms], (mem_encOrder _ _).2 h3⟩
  | .next name, cx, e, he => by
    simp only [FProg.events] at he
    cases cx with
    | none => simp at he
    | some me =>
      obtain ⟨h, entries⟩ := me
      simp only at he
      split at he
      · simp only [List.mem_singleton] at he; subst he
        exact Or.inr ⟨rfl, by simp [FProg.mentions]⟩
      · simp at he
  | .watch _, cx, e, he => by simp [FProg.events] at he
theorem listEvents_goto : ∀ (ps : List FProg) (cx : Option (FsmHdr × FsmEntries)) (e : Ev),
    e ∈ FProg.listEvents ctx cur σ d cx ps → GotoIn (FProg.listFsms ps) e ∨ GotoCx cx (FProg.listMentions ps) e
  | [], _, e, he => by simp [FProg.listEvents] at he
  | p :: ps, cx, e, he => by
    simp only [FProg.listEvents, List.mem_append] at he
    rcases he with he | he
    · exact goto_or_mono (events_goto p cx e he)
        (by intro f hf; simp only [FProg.listFsms, List.mem_append]; exact Or.inl hf)
        (by intro f hf; simp only [FProg.listMentions, List.mem_append]; exact Or.inl hf)
    · exact goto_or_mono (listEvents_goto ps cx e he)
        (by intro f hf; simp only [FProg.listFsms, List.mem_append]; exact Or.inr hf)
        (by intro f hf; simp only [FProg.listMentions, List.mem_append]; exact Or.inr hf)
theorem ifEvents_goto : ∀ (bs : List (Expr × List FProg)) (cx : Option (FsmHdr × FsmEntries)) (evs : List Ev),
    FProg.ifEvents ctx cur σ d cx bs = some evs → ∀ e ∈ evs,
    GotoIn (FProg.ifFsms bs) e ∨ GotoCx cx (FProg.ifMentions bs) e
  | [], _, _, h, _, _ => by simp [FProg.ifEvents] at h
  | (c, body) :: rest, cx, evs, h, e, he => by
    simp only [FProg.ifEvents] at h
    split at h
    · simp only [Option.some.injEq] at h; subst h
      exact goto_or_mono (listEvents_goto body cx e he)
        (by intro f hf; simp only [FProg.ifFsms, List.mem_append]; exact Or.inl hf)
        (by intro f hf; simp only [FProg.ifMentions, List.mem_append]; exact Or.inl hf)
    · exact goto_or_mono (ifEvents_goto rest cx evs h e he)
        (by intro f hf; simp only [FProg.ifFsms, List.mem_append]; exact Or.inr hf)
        (by intro f hf; simp only [FProg.ifMentions, List.mem_append]; exact Or.inr hf)
theorem caseEvents_goto : ∀ (cs : List (Option (List UPat) × List FProg)) (cx : Option (FsmHdr × FsmEntries))
    (s : Shape) (v : Int) (e : Ev), e ∈ FProg.caseEvents ctx cur σ d cx s v cs →
    GotoIn (FProg.caseFsms cs) e ∨ GotoCx cx (FProg.caseMentions cs) e
  | [], _, _, _, e, he => by simp [FProg.caseEvents] at he
  | (none, body) :: rest, cx, s, v, e, he => by
    simp only [FProg.caseEvents] at he
    exact goto_or_mono (listEvents_goto body cx e he)
      (by intro f hf; simp only [FProg.caseFsms, List.mem_append]; exact Or.inl hf)
      (by intro f hf; simp only [FProg.caseMentions, List.mem_append]; exact Or.inl hf)
  | (some pats, body) :: rest, cx, s, v, e, he => by
    simp only [FProg.caseEvents] at he
    split at he
    · exact goto_or_mono (listEvents_goto body cx e he)
        (by intro f hf; simp only [FProg.caseFsms, List.mem_append]; exact Or.inl hf)
        (by intro f hf; simp only [FProg.caseMentions, List.mem_append]; exact Or.inl hf)
    · exact goto_or_mono (caseEvents_goto rest cx s v e he)
        (by intro f hf; simp only [FProg.caseFsms, List.mem_append]; exact Or.inr hf)
        (by intro f hf; simp only [FProg.caseMentions, List.mem_append]; exact Or.inr hf)
theorem stateEvents_goto (h : FsmHdr) (entries : FsmEntries) (s : String) : ∀ (es : FsmEntries) (e : Ev),
    e ∈ FProg.stateEvents ctx cur σ d (some (h, entries)) s es →
    GotoIn (FProg.entryFsms es) e ∨ GotoCx (some (h, entries)) (entryMentions es) e
  | [], e, he => by simp [FProg.stateEvents] at he
  | (n, none) :: rest, e, he => by
    simp only [FProg.stateEvents] at he
    exact goto_or_mono (stateEvents_goto h entries s rest e he)
      (by intro f hf; simpa only [FProg.entryFsms] using hf)
      (by intro f hf; simp only [entryMentions, List.mem_cons]; exact Or.inr hf)
  | (n, some body) :: rest, e, he => by
    simp only [FProg.stateEvents] at he
    split at he
    · exact goto_or_mono (listEvents_goto body (some (h, entries)) e he)
        (by intro f hf; simp only [FProg.entryFsms, List.mem_append]; exact Or.inl hf)
        (by intro f hf; simp only [entryMentions, List.mem_cons, List.mem_append]; exact Or.inr (Or.inl hf))
    · exact goto_or_mono (stateEvents_goto h entries s rest e he)
        (by intro f hf; simp only [FProg.entryFsms, List.mem_append]; exact Or.inr hf)
        (by intro f hf; simp only [entryMentions, List.mem_cons, List.mem_append]; exact Or.inr (Or.inr hf))
end

/-- at module top level every `m.next` event belongs to an FSM of the program and names one of its encoded states -/
theorem top_events_goto (items : List FProg) (h : FsmHdr) (es : FsmEntries) (s : String)
    (hm : Ev.goto h es s ∈ FProg.listEvents ctx cur σ d none items) :
    (h, es) ∈ FProg.listFsms items ∧ s ∈ encOrder es := by
  rcases listEvents_goto ctx cur σ d items none _ hm with h1 | h1
  · exact h1
  · exact absurd h1.1 (by simp)

end

/-! ## `FProg.ok` → `RegsOk`, and the lowered program is a well-formed `Prog` -/

section
variable (ctx : Ctx)

mutual
theorem ok_regs : ∀ (p : FProg) (cx : Option (FsmHdr × FsmEntries)), FProg.ok ctx cx p = true → RegsOk ctx (FProg.fsms p)
  | .assign .., _, _ => by intro f hf; simp [FProg.fsms] at hf
  | .ifs branches els, cx, h => by
    simp only [FProg.ok, Bool.and_eq_true] at h
    intro f hf
    simp only [FProg.fsms, List.mem_append] at hf
    rcases hf with hf | hf
    · exact ifOk_regs branches cx h.1 f hf
    · exact listOk_regs els cx h.2 f hf
  | .switch test cases, cx, h => by
    simp only [FProg.ok, Bool.and_eq_true] at h
    exact casesOk_regs cases cx _ h.2
  | .fsm hd entries, cx, h => by
    simp only [FProg.ok, Bool.and_eq_true, decide_eq_true_eq] at h
    intro f hf
    simp only [FProg.fsms, List.mem_cons] at hf
    rcases hf with hf | hf
    · subst hf; exact ⟨h.1.1.1.1.1.2, h.1.1.1.1.2⟩
    · exact entriesOk_regs (hd, entries) entries h.2 f hf
  | .next _, _, _ => by intro f hf; simp [FProg.fsms] at hf
  | .watch _, _, _ => by intro f hf; simp [FProg.fsms] at hf
theorem listOk_regs : ∀ (ps : List FProg) (cx : Option (FsmHdr × FsmEntries)), FProg.listOk ctx cx ps = true →
    RegsOk ctx (FProg.listFsms ps)
  | [], _, _ => by intro f hf; simp [FProg.listFsms] at hf
  | p :: ps, cx, h => by
    simp only [FProg.listOk, Bool.and_eq_true] at h
    intro f hf
    simp only [FProg.listFsms, List.mem_append] at hf
    rcases hf with hf | hf
    · exact ok_regs p cx h.1 f hf
    · exact listOk_regs ps cx h.2 f hf
theorem ifOk_regs : ∀ (bs : List (Expr × List FProg)) (cx : Option (FsmHdr × FsmEntries)), FProg.ifOk ctx cx bs = true →
    RegsOk ctx (FProg.ifFsms bs)
  | [], _, _ => by intro f hf; simp [FProg.ifFsms] at hf
  | (c, body) :: rest, cx, h => by
    simp only [FProg.ifOk, Bool.and_eq_true] at h
    intro f hf
    simp only [FProg.ifFsms, List.mem_append] at hf
    rcases hf with hf | hf
    · exact listOk_regs body cx h.1.2 f hf
    · exact ifOk_regs rest cx h.2 f hf
theorem casesOk_regs : ∀ (cs : List (Option (List UPat) × List FProg)) (cx : Option (FsmHdr × FsmEntries)) (w : Nat),
    FProg.casesOk ctx cx w cs = true → RegsOk ctx (FProg.caseFsms cs)
  | [], _, _, _ => by intro f hf; simp [FProg.caseFsms] at hf
  | (none, body) :: rest, cx, w, h => by
    simp only [FProg.casesOk, Bool.and_eq_true] at h
    intro f hf
    simp only [FProg.caseFsms, List.mem_append] at hf
    rcases hf with hf | hf
    · exact listOk_regs body cx h.1 f hf
    · exact casesOk_regs rest cx w h.2 f hf
  | (some pats, body) :: rest, cx, w, h => by
    simp only [FProg.casesOk, Bool.and_eq_true] at h
    intro f hf
    simp only [FProg.caseFsms, List.mem_append] at hf
    rcases hf with hf | hf
    · exact listOk_regs body cx h.1.2 f hf
    · exact casesOk_regs rest cx w h.2 f hf
theorem entriesOk_regs (me : FsmHdr × FsmEntries) : ∀ (es : FsmEntries), FProg.entriesOk ctx me es = true →
    RegsOk ctx (FProg.entryFsms es)
  | [], _ => by intro f hf; simp [FProg.entryFsms] at hf
  | (n, none) :: rest, h => by
    simp only [FProg.entriesOk] at h
    intro f hf
    simp only [FProg.entryFsms] at hf
    exact entriesOk_regs me rest h f hf
  | (n, some body) :: rest, h => by
    simp only [FProg.entriesOk, Bool.and_eq_true] at h
    intro f hf
    simp only [FProg.entryFsms, List.mem_append] at hf
    rcases hf with hf | hf
    · exact listOk_regs body (some me) h.1 f hf
    · exact entriesOk_regs me rest h.2 f hf
end

theorem listOk_append : ∀ (a b : List Prog), Prog.listOk ctx (a ++ b) = (Prog.listOk ctx a && Prog.listOk ctx b)
  | [], b => by simp [Prog.listOk]
  | p :: a, b => by simp only [List.cons_append, Prog.listOk, listOk_append a b, Bool.and_assoc]

theorem upatOk_eq (w : Nat) :
    (fun (p : UPat) => match p with | .bits q => q.length == w | .int _ => true) = UPat.ok w := by
  funext p; cases p <;> rfl

variable (d : String)

/-- the enclosing FSM's register is a signal of the design -/
def CxOk (cx : Option (FsmHdr × FsmEntries)) : Prop := ∀ h es, cx = some (h, es) → h.reg < ctx.length

mutual
theorem lowerD_ok : ∀ (p : FProg) (cx : Option (FsmHdr × FsmEntries)), FProg.ok ctx cx p = true → CxOk ctx cx →
    Prog.listOk ctx (FProg.lowerD d cx p) = true
  | .assign dom l r, cx, h, _ => by
    simp only [FProg.ok] at h
    simp only [FProg.lowerD]
    split <;> simp [Prog.listOk, Prog.ok, h]
  | .ifs branches els, cx, h, hc => by
    simp only [FProg.ok, Bool.and_eq_true] at h
    simp only [FProg.lowerD]
    split
    · rfl
    · simp only [Prog.listOk, Prog.ok, Bool.and_true, Bool.and_eq_true]
      exact ⟨lowerBranches_ok branches cx h.1 hc, lowerListD_ok els cx h.2 hc⟩
  | .switch test cases, cx, h, hc => by
    simp only [FProg.ok, Bool.and_eq_true] at h
    simp only [FProg.lowerD]
    split
    · rfl
    · simp only [Prog.listOk, Prog.ok, Bool.and_true, Bool.and_eq_true]
      exact ⟨h.1, lowerCasesD_ok cases cx _ h.2 hc⟩
  | .fsm hd entries, cx, h, _ => by
    simp only [FProg.ok, Bool.and_eq_true, decide_eq_true_eq] at h
    have hr : hd.reg < ctx.length := h.1.1.1.1.1.2
    simp only [FProg.lowerD]
    split
    · rfl
    · simp only [Prog.listOk, Prog.ok, Bool.and_true, Bool.and_eq_true, Expr.wf, decide_eq_true_eq]
      refine ⟨hr, lowerStates_ok (hd, entries) (encOrder entries) _ entries h.2 ?_⟩
      intro h' es' e
      simp only [Option.some.injEq, Prod.mk.injEq] at e
      rw [← e.1]; exact hr
  | .next name, cx, _, hc => by
    simp only [FProg.lowerD]
    cases cx with
    | none => rfl
    | some me =>
      obtain ⟨h, entries⟩ := me
      simp only
      split
      · simp only [Prog.listOk, Prog.ok, nextAssign, Bool.and_true]
        exact constOf_wf ctx _
      · rfl
  | .watch _, _, _, _ => rfl
theorem lowerListD_ok : ∀ (ps : List FProg) (cx : Option (FsmHdr × FsmEntries)), FProg.listOk ctx cx ps = true →
    CxOk ctx cx → Prog.listOk ctx (FProg.lowerListD d cx ps) = true
  | [], _, _, _ => rfl
  | p :: ps, cx, h, hc => by
    simp only [FProg.listOk, Bool.and_eq_true] at h
    simp only [FProg.lowerListD, listOk_append, Bool.and_eq_true]
    exact ⟨lowerD_ok p cx h.1 hc, lowerListD_ok ps cx h.2 hc⟩
theorem lowerBranches_ok : ∀ (bs : List (Expr × List FProg)) (cx : Option (FsmHdr × FsmEntries)),
    FProg.ifOk ctx cx bs = true → CxOk ctx cx → Prog.ifOk ctx (FProg.lowerBranches d cx bs) = true
  | [], _, _, _ => rfl
  | (c, body) :: rest, cx, h, hc => by
    simp only [FProg.ifOk, Bool.and_eq_true] at h
    simp only [FProg.lowerBranches, Prog.ifOk, Bool.and_eq_true]
    exact ⟨⟨h.1.1, lowerListD_ok body cx h.1.2 hc⟩, lowerBranches_ok rest cx h.2 hc⟩
theorem lowerCasesD_ok : ∀ (cs : List (Option (List UPat) × List FProg)) (cx : Option (FsmHdr × FsmEntries)) (w : Nat),
    FProg.casesOk ctx cx w cs = true → CxOk ctx cx → Prog.casesOk ctx w (FProg.lowerCasesD d cx cs) = true
  | [], _, _, _, _ => rfl
  | (none, body) :: rest, cx, w, h, hc => by
    simp only [FProg.casesOk, Bool.and_eq_true] at h
    simp only [FProg.lowerCasesD, Prog.casesOk, Bool.and_eq_true]
    exact ⟨lowerListD_ok body cx h.1 hc, lowerCasesD_ok rest cx w h.2 hc⟩
  | (some pats, body) :: rest, cx, w, h, hc => by
    simp only [FProg.casesOk, Bool.and_eq_true] at h
    simp only [FProg.lowerCasesD, Prog.casesOk, Bool.and_eq_true]
    exact ⟨⟨h.1.1, lowerListD_ok body cx h.1.2 hc⟩, lowerCasesD_ok rest cx w h.2 hc⟩
theorem lowerStates_ok (me : FsmHdr × FsmEntries) (order : List String) (w : Nat) : ∀ (es : FsmEntries),
    FProg.entriesOk ctx me es = true → CxOk ctx (some me) →
    Prog.casesOk ctx w (FProg.lowerStates d me order es) = true
  | [], _, _ => rfl
  | (n, none) :: rest, h, hc => by
    simp only [FProg.entriesOk] at h
    simp only [FProg.lowerStates]
    exact lowerStates_ok me order w rest h hc
  | (n, some body) :: rest, h, hc => by
    simp only [FProg.entriesOk, Bool.and_eq_true] at h
    simp only [FProg.lowerStates, Prog.casesOk, Bool.and_eq_true]
    exact ⟨⟨by simp [UPat.ok], lowerListD_ok body (some me) h.1 hc⟩, lowerStates_ok me order w rest h.2 hc⟩
end

end

end Amaranth
