import AmaranthVerif.Proofs.FormatRender
import AmaranthVerif.Proofs.Lowering

/-!
# The compiled process runs exactly the active Prints / Properties, at exactly the active edges
-/

namespace Amaranth
namespace Fmt

/-! ## executed = active -/

theorem filter_guard (ctx : Ctx) (env : Env) (g : Guard) (l : List (Path × Leaf)) :
    (((l.map fun x => (g :: x.1, x.2)).filter fun x => selected ctx env x.1).map (·.2)) =
      if g.holds ctx env then ((l.filter fun x => selected ctx env x.1).map (·.2)) else [] := by
  induction l with
  | nil => simp
  | cons x xs ih =>
    cases hg : g.holds ctx env with
    | true =>
      rw [hg] at ih
      simp only [if_true] at ih ⊢
      have hsel : selected ctx env (g :: x.1) = selected ctx env x.1 := by simp [selected, hg]
      cases hs : selected ctx env x.1 with
      | true => simp [hsel, hs, ih]
      | false => simp [hsel, hs, ih]
    | false =>
      rw [hg] at ih
      simp only [Bool.false_eq_true, if_false] at ih ⊢
      have hsel : selected ctx env (g :: x.1) = false := by simp [selected, hg]
      simp [hsel, ih]

theorem activeLeaves_ite (ctx : Ctx) (env : Env) (t : Expr) (p : List Pat) (a b : PStmt) :
    activeLeaves ctx env (.ite t p a b) =
      if p.any (fun q => q.matchesSpec (denote ctx env t)) then activeLeaves ctx env a
      else activeLeaves ctx env b := by
  unfold activeLeaves
  simp only [occurrences, List.filter_append, List.map_append, filter_guard]
  by_cases h : p.any (fun q => q.matchesSpec (denote ctx env t)) = true
  · simp [Guard.holds, h]
  · simp [Guard.holds, h]

theorem activeLeaves_seq (ctx : Ctx) (env : Env) (a b : PStmt) :
    activeLeaves ctx env (.seq a b) = activeLeaves ctx env a ++ activeLeaves ctx env b := by
  unfold activeLeaves
  simp [occurrences, List.filter_append]

/-- the compiled process executes exactly the statements whose enclosing cases are all selected,
in program order -/
theorem collect_eq_active (ctx : Ctx) (cur : Env) (hok : EnvOk ctx cur) (s : PStmt) (h : s.ok ctx = true) :
    collect ctx cur s = activeLeaves ctx cur s := by
  induction s with
  | skip => rfl
  | assign _ _ => rfl
  | fx l => rfl
  | seq a b iha ihb =>
    simp only [PStmt.ok, Bool.and_eq_true] at h
    rw [collect, activeLeaves_seq, iha h.1, ihb h.2]
  | ite t p a b iha ihb =>
    simp only [PStmt.ok, Bool.and_eq_true] at h
    rw [collect, activeLeaves_ite, switch_test_eq ctx cur hok t h.1.1.1 p h.1.1.2, iha h.1.2, ihb h.2]

theorem mem_activeLeaves (ctx : Ctx) (env : Env) (s : PStmt) (l : Leaf) :
    l ∈ activeLeaves ctx env s ↔ ∃ path, (path, l) ∈ occurrences s ∧ selected ctx env path = true := by
  unfold activeLeaves
  simp only [List.mem_map, List.mem_filter]
  constructor
  · rintro ⟨⟨p, l'⟩, ⟨hm, hs⟩, rfl⟩
    exact ⟨p, hm, hs⟩
  · rintro ⟨p, hm, hs⟩
    exact ⟨(p, l), ⟨hm, hs⟩, rfl⟩

theorem occurrences_ok (ctx : Ctx) (s : PStmt) (h : s.ok ctx = true) :
    ∀ x ∈ occurrences s, x.2.ok ctx = true := by
  induction s with
  | skip => intro x hx; simp [occurrences] at hx
  | assign _ _ => intro x hx; simp [occurrences] at hx
  | fx l =>
    intro x hx
    simp only [occurrences, List.mem_singleton] at hx
    subst hx
    exact h
  | seq a b iha ihb =>
    simp only [PStmt.ok, Bool.and_eq_true] at h
    intro x hx
    simp only [occurrences, List.mem_append] at hx
    rcases hx with hx | hx
    · exact iha h.1 x hx
    · exact ihb h.2 x hx
  | ite t p a b iha ihb =>
    simp only [PStmt.ok, Bool.and_eq_true] at h
    intro x hx
    simp only [occurrences, List.mem_append, List.mem_map] at hx
    rcases hx with ⟨y, hy, rfl⟩ | ⟨y, hy, rfl⟩
    · exact iha h.1.2 y hy
    · exact ihb h.2 y hy

theorem activeLeaves_ok (ctx : Ctx) (env : Env) (s : PStmt) (h : s.ok ctx = true) :
    ∀ l ∈ activeLeaves ctx env s, l.ok ctx = true := by
  intro l hl
  obtain ⟨p, hm, _⟩ := (mem_activeLeaves ctx env s l).mp hl
  exact occurrences_ok ctx s h (p, l) hm

/-! ## one run -/

theorem runLeaves_eq_spec (ctx : Ctx) (cur : Env) (hok : EnvOk ctx cur) (ls : List Leaf)
    (h : ∀ l ∈ ls, l.ok ctx = true) : runLeaves true ctx cur ls = specRun ctx cur ls := by
  induction ls with
  | nil => rfl
  | cons l rest ih =>
    have hl := h l (by simp)
    have hr := ih (fun x hx => h x (by simp [hx]))
    cases l with
    | print id msg =>
      simp only [Leaf.ok] at hl
      simp only [runLeaves, specRun, render_eq_spec ctx cur hok msg hl, hr]
      cases specText ctx cur msg <;> rfl
    | prop id k test msg =>
      simp only [Leaf.ok, Bool.and_eq_true] at hl
      have hv : rtlValue ctx cur test = denote ctx cur test := (sound ctx cur hok test hl.1).sgn
      cases msg with
      | none => simp only [runLeaves, specRun, hv, hr]
      | some m =>
        simp only [runLeaves, specRun, hv, hr, render_eq_spec ctx cur hok m hl.2]
        by_cases h0 : denote ctx cur test = 0
        · simp only [h0, if_true]
          cases specText ctx cur m <;> rfl
        · simp only [h0, if_false]

/-- a run that is not stopped: every active Property holds -/
theorem specRun_no_stop (ctx : Ctx) (env : Env) (ls : List Leaf) (h : (specRun ctx env ls).stop = none) :
    ∀ id k t m, Leaf.prop id k t m ∈ ls → denote ctx env t ≠ 0 := by
  induction ls with
  | nil => intro id k t m hm; simp at hm
  | cons l rest ih =>
    cases l with
    | print pid msg =>
      simp only [specRun] at h
      cases hs : specText ctx env msg with
      | error e => simp [hs] at h
      | ok tx =>
        simp only [hs] at h
        intro id k t m hm
        simp only [List.mem_cons, reduceCtorEq, false_or] at hm
        exact ih h id k t m hm
    | prop pid pk ptest pmsg =>
      simp only [specRun] at h
      by_cases h0 : denote ctx env ptest = 0
      · simp only [h0, if_true] at h
        cases pmsg with
        | none => simp at h
        | some m' =>
          simp only at h
          cases hs : specText ctx env m' with
          | error e => simp [hs] at h
          | ok tx => simp [hs] at h
      · simp only [h0, if_false] at h
        intro id k t m hm
        simp only [List.mem_cons, Leaf.prop.injEq] at hm
        rcases hm with ⟨_, _, rfl, _⟩ | hm
        · exact h0
        · exact ih h id k t m hm

/-- a run stopped by an `AssertionError`: it is raised by an active Property whose condition is
zero, every active Property before it holds, and the error carries that Property's message -/
theorem specRun_assertion (ctx : Ctx) (env : Env) (ls : List Leaf) (id : Nat) (text : PyStr)
    (h : (specRun ctx env ls).stop = some (.assertion id text)) :
    ∃ pre k t m post, ls = pre ++ Leaf.prop id k t m :: post ∧ denote ctx env t = 0 ∧
      (∀ id' k' t' m', Leaf.prop id' k' t' m' ∈ pre → denote ctx env t' ≠ 0) ∧
      (match m with
       | none => text = k.text
       | some msg => ∃ tx, specText ctx env msg = .ok tx ∧ text = k.text ++ [':', ' '] ++ tx) := by
  induction ls with
  | nil => simp [specRun] at h
  | cons l rest ih =>
    cases l with
    | print pid msg =>
      simp only [specRun] at h
      cases hs : specText ctx env msg with
      | error e => simp [hs] at h
      | ok tx =>
        simp only [hs] at h
        obtain ⟨pre, k, t, m, post, he, h0, hpre, hm⟩ := ih h
        refine ⟨Leaf.print pid msg :: pre, k, t, m, post, by simp [he], h0, ?_, hm⟩
        intro id' k' t' m' hmem
        simp only [List.mem_cons, reduceCtorEq, false_or] at hmem
        exact hpre id' k' t' m' hmem
    | prop pid pk ptest pmsg =>
      simp only [specRun] at h
      by_cases h0 : denote ctx env ptest = 0
      · simp only [h0, if_true] at h
        cases pmsg with
        | none =>
          simp only [Option.some.injEq, Stop.assertion.injEq] at h
          obtain ⟨rfl, rfl⟩ := h
          exact ⟨[], pk, ptest, none, rest, rfl, h0, by intro _ _ _ _ hm; simp at hm, rfl⟩
        | some m' =>
          simp only at h
          cases hs : specText ctx env m' with
          | error e => simp [hs] at h
          | ok tx =>
            simp only [hs, Option.some.injEq, Stop.assertion.injEq] at h
            obtain ⟨rfl, rfl⟩ := h
            exact ⟨[], pk, ptest, some m', rest, rfl, h0, by intro _ _ _ _ hm; simp at hm, tx, hs, rfl⟩
      · simp only [h0, if_false] at h
        obtain ⟨pre, k, t, m, post, he, hz, hpre, hm⟩ := ih h
        refine ⟨Leaf.prop pid pk ptest pmsg :: pre, k, t, m, post, by simp [he], hz, ?_, hm⟩
        intro id' k' t' m' hmem
        simp only [List.mem_cons, Leaf.prop.injEq] at hmem
        rcases hmem with ⟨_, _, rfl, _⟩ | hmem
        · exact h0
        · exact hpre id' k' t' m' hmem

/-! ## the whole trace -/

theorem wakes_eq_activeEdge (d : Domain) (e : Event) : wakes d e = activeEdge d e := rfl

theorem simulate_eq_spec (d : Domain) (ctx : Ctx) (body : PStmt) (hb : body.ok ctx = true)
    (evs : List Event) (hok : ∀ ev ∈ evs, EnvOk ctx ev.env) (i : Nat) :
    simulate true d ctx body evs i = specSimulate d ctx body evs i := by
  induction evs generalizing i with
  | nil => rfl
  | cons ev rest ih =>
    have hev := hok ev (by simp)
    have hrest := fun j => ih (fun x hx => hok x (by simp [hx])) j
    unfold specSimulate at hrest ⊢
    simp only [simulate, specSimulateWith, wakes_eq_activeEdge]
    rw [collect_eq_active ctx ev.env hev body hb,
        runLeaves_eq_spec ctx ev.env hev _ (activeLeaves_ok ctx ev.env body hb)]
    simp only [hrest]
    by_cases ha : activeEdge d ev = true
    · simp only [ha, if_true]
      cases (specRun ctx ev.env (activeLeaves ctx ev.env body)).stop <;> rfl
    · simp only [ha]
      rfl

/-- something stops the run of the active statements `act` at this event -/
def failsWith (d : Domain) (ctx : Ctx) (act : Env → List Leaf) (e : Event) : Bool :=
  activeEdge d e && (specRun ctx e.env (act e.env)).stop.isSome

/-- the trace stops at the first event at which something fails, with what failed there, and
processes nothing after it; it does not stop if nothing fails -/
theorem specSimulate_stop (d : Domain) (ctx : Ctx) (act : Env → List Leaf) (evs : List Event) (i : Nat) :
    match (specSimulateWith d ctx act evs i).stop with
    | none =>
      (∀ ev ∈ evs, failsWith d ctx act ev = false) ∧ (specSimulateWith d ctx act evs i).outs.length = evs.length
    | some (k, st) =>
      ∃ j, k = i + j ∧ ∃ hj : j < evs.length,
        failsWith d ctx act evs[j] = true ∧
        (∀ j' (hj' : j' < j), failsWith d ctx act (evs[j']'(Nat.lt_trans hj' hj)) = false) ∧
        (specRun ctx evs[j].env (act evs[j].env)).stop = some st ∧
        (specSimulateWith d ctx act evs i).outs.length = j + 1 := by
  induction evs generalizing i with
  | nil => simp [specSimulateWith]
  | cons ev rest ih =>
    have ih' := ih (i + 1)
    simp only [specSimulateWith]
    by_cases ha : activeEdge d ev = true
    · simp only [ha, if_true]
      cases hs : (specRun ctx ev.env (act ev.env)).stop with
      | some st =>
        simp only
        refine ⟨0, rfl, by simp, ?_, ?_, ?_, by simp⟩
        · simp [failsWith, ha, hs]
        · intro j' hj'; omega
        · simpa using hs
      | none =>
        simp only
        have hf : failsWith d ctx act ev = false := by simp [failsWith, hs]
        revert ih'
        cases hstop : (specSimulateWith d ctx act rest (i + 1)).stop with
        | none =>
          intro ih'
          simp only at ih' ⊢
          refine ⟨?_, by simp [ih'.2]⟩
          intro e he
          simp only [List.mem_cons] at he
          rcases he with rfl | he
          · exact hf
          · exact ih'.1 e he
        | some ks =>
          obtain ⟨k, st⟩ := ks
          intro ih'
          simp only at ih' ⊢
          obtain ⟨j, hk, hj, h1, h2, h3, h4⟩ := ih'
          refine ⟨j + 1, by omega, by simp; omega, by simpa using h1, ?_, by simpa using h3, by simp [h4]⟩
          intro j' hj'
          cases j' with
          | zero => simpa using hf
          | succ j'' =>
            have := h2 j'' (by omega)
            simpa using this
    · simp only [ha]
      have hf : failsWith d ctx act ev = false := by simp [failsWith, ha]
      revert ih'
      cases hstop : (specSimulateWith d ctx act rest (i + 1)).stop with
      | none =>
        intro ih'
        simp only [Bool.false_eq_true, if_false] at ih' ⊢
        refine ⟨?_, by simp [ih'.2]⟩
        intro e he
        simp only [List.mem_cons] at he
        rcases he with rfl | he
        · exact hf
        · exact ih'.1 e he
      | some ks =>
        obtain ⟨k, st⟩ := ks
        intro ih'
        simp only [Bool.false_eq_true, if_false] at ih' ⊢
        obtain ⟨j, hk, hj, h1, h2, h3, h4⟩ := ih'
        refine ⟨j + 1, by omega, by simp; omega, by simpa using h1, ?_, by simpa using h3, by simp [h4]⟩
        intro j' hj'
        cases j' with
        | zero => simpa using hf
        | succ j'' =>
          have := h2 j'' (by omega)
          simpa using this

end Fmt
end Amaranth
