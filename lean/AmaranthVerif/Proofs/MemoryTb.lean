import AmaranthVerif.Proofs.MemoryRefine

/-!
# Testbench row access: `ctx.set(mem[i][start:stop], v)` replaces bits `[start, stop)` of row `i`
-/

namespace Amaranth.Mem
open Amaranth.MemRows (toBits absState rowWrite)

theorem ibit_pyShl (v : Int) (s j : Nat) : ibit (pyShl v s) j = (decide (s ≤ j) && ibit v (j - s)) := by
  unfold pyShl
  cases v with
  | ofNat m =>
    have : (Int.ofNat m) * (2 ^ s : Int) = ((2 ^ s * m : Nat) : Int) := by
      rw [show Int.ofNat m = (m : Int) from rfl]; push_cast; rw [Int.mul_comm]
    rw [this, ibit_ofNat, Nat.testBit_two_pow_mul]
    rfl
  | negSucc m =>
    have hpos : 0 < 2 ^ s := Nat.two_pow_pos s
    have : (Int.negSucc m) * (2 ^ s : Int) = Int.negSucc (2 ^ s * m + (2 ^ s - 1)) := by
      rw [Int.negSucc_eq, Int.negSucc_eq]
      have h2 : ((2 : Int) ^ s) = ((2 ^ s : Nat) : Int) := by norm_cast
      rw [h2]
      push_cast
      rw [show (((2 ^ s - 1 : Nat) : Int)) = ((2 ^ s : Nat) : Int) - 1 by omega]
      push_cast
      rw [Int.neg_mul, Int.add_mul, Int.mul_comm (m : Int)]
      omega
    rw [this]
    simp only [ibit]
    rw [Nat.testBit_two_pow_mul_add _ (by omega)]
    by_cases h : j < s
    · rw [if_pos h, Nat.testBit_two_pow_sub_one]
      have : ¬ s ≤ j := by omega
      simp [h, this]
    · rw [if_neg h]
      have : s ≤ j := by omega
      simp [this]

theorem ibit_two_pow_sub (start stop j : Nat) (h : start ≤ stop) :
    ibit ((2 : Int) ^ stop - 2 ^ start) j = (decide (start ≤ j) && decide (j < stop)) := by
  have hle : 2 ^ start ≤ 2 ^ stop := Nat.pow_le_pow_right (by decide) h
  have : (2 : Int) ^ stop - 2 ^ start = ((2 ^ start * (2 ^ (stop - start) - 1) : Nat) : Int) := by
    have h1 : 2 ^ stop = 2 ^ start * 2 ^ (stop - start) := by rw [← Nat.pow_add]; congr 1; omega
    have h2 : 2 ^ start * (2 ^ (stop - start) - 1) = 2 ^ stop - 2 ^ start := by
      rw [Nat.mul_sub, Nat.mul_one, ← h1]
    rw [h2]
    have h3 : ((2 : Int) ^ stop) = ((2 ^ stop : Nat) : Int) := by norm_cast
    have h4 : ((2 : Int) ^ start) = ((2 ^ start : Nat) : Int) := by norm_cast
    rw [h3, h4]; omega
  rw [this, ibit_ofNat, Nat.testBit_two_pow_mul, Nat.testBit_two_pow_sub_one]
  by_cases h1 : start ≤ j
  · have : (j - start < stop - start) = (j < stop) := by apply propext; omega
    simp [h1, this]
  · simp [h1]

theorem tbWrite_rows_length (c : Cfg) (s : State) (i start stop : Nat) (v : Int) :
    (tbWrite c s i start stop v).rows.length = s.rows.length := by
  unfold tbWrite; exact length_commit _ _

/-- bit `j` of row `a` after `ctx.set(mem[i][start:stop], v)` -/
theorem tbWrite_bits (c : Cfg) (s : State) (i start stop : Nat) (v : Int) (hss : start ≤ stop) (a j : Nat)
    (ha : a < s.rows.length) (hj : j < c.shape.width) :
    ibit ((tbWrite c s i start stop v).rows.getD a 0) j =
      if a = i ∧ start ≤ j ∧ j < stop then ibit v (j - start) else ibit (s.rows.getD a 0) j := by
  have h1 : (tbWrite c s i start stop v).rows.getD a 0 =
      pending s.rows (qwrite c.shape s.rows (Queue.empty s.rows.length) i (pyShl v start) ((2 : Int) ^ stop - 2 ^ start)) a := by
    unfold tbWrite
    simp only
    rw [List.getD_eq_getElem?_getD, List.getElem?_eq_getElem (by rw [length_commit]; exact ha), commit_getElem _ _ _ ha]
    rfl
  rw [h1, qwrite_bits c.shape s.rows _ ⟨i, pyShl v start, (2 : Int) ^ stop - 2 ^ start⟩ a j (by simp [Queue.empty]) ha hj,
    pending_empty, ibit_two_pow_sub _ _ _ hss, ibit_pyShl]
  by_cases hai : i = a
  · subst hai
    by_cases h2 : start ≤ j
    · by_cases h3 : j < stop
      · simp [h2, h3]
      · simp [h2, h3]
    · simp [h2]
  · have : ¬ a = i := fun h => hai h.symm
    simp [hai, this]

/-- a testbench row write is a write to the same array of rows -/
theorem refine_tbWrite (c : Cfg) (s : State) (i start stop : Nat) (v : Int) (hss : start ≤ stop) :
    absState c (tbWrite c s i start stop v) =
      rowWrite (absState c s) i start stop (toBits (stop - start) v) := by
  have hr : (absState c (tbWrite c s i start stop v)).rdata = (absState c s).rdata := rfl
  have hm : (absState c (tbWrite c s i start stop v)).mem =
      (rowWrite (absState c s) i start stop (toBits (stop - start) v)).mem := by
    simp only [absState, rowWrite]
    apply List.ext_getElem
    · simp [tbWrite_rows_length]
    · intro a h1 h2
      have ha : a < s.rows.length := by simpa [tbWrite_rows_length] using h1
      simp only [List.getElem_map, List.getElem_mapIdx]
      have hx : (tbWrite c s i start stop v).rows[a]'(by rw [tbWrite_rows_length]; exact ha) =
          (tbWrite c s i start stop v).rows.getD a 0 := by
        rw [List.getD_eq_getElem?_getD, List.getElem?_eq_getElem]; rfl
      have hy : s.rows[a] = s.rows.getD a 0 := by
        rw [List.getD_eq_getElem?_getD, List.getElem?_eq_getElem]; rfl
      rw [hx, hy]
      by_cases hai : a = i
      · rw [if_pos hai]
        apply List.ext_getElem
        · simp [toBits_length]
        · intro j hj1 hj2
          have hj : j < c.shape.width := by rw [toBits_length] at hj1; exact hj1
          simp only [List.getElem_mapIdx, toBits_getElem]
          rw [tbWrite_bits c s i start stop v hss a j ha hj]
          by_cases hin : start ≤ j ∧ j < stop
          · rw [if_pos ⟨hai, hin⟩, if_pos hin, toBits_getD _ _ _ (by omega)]
          · rw [if_neg (fun h => hin h.2), if_neg hin]
      · rw [if_neg hai]
        rw [toBits_eq_iff]
        intro j hj
        rw [tbWrite_bits c s i start stop v hss a j ha hj, if_neg (fun h => hai h.1)]
  cases hA : absState c (tbWrite c s i start stop v)
  cases hB : rowWrite (absState c s) i start stop (toBits (stop - start) v)
  rw [hA] at hr hm; rw [hB] at hm
  have hB2 : (rowWrite (absState c s) i start stop (toBits (stop - start) v)).rdata = (absState c s).rdata := rfl
  rw [hB] at hB2
  simp only at hr hm hB2
  rw [hm, hr, hB2]

end Amaranth.Mem
