import AmaranthVerif.Proofs.FsmStep
import AmaranthVerif.Proofs.FsmWf

/-!
# FSM theorems assembled: the step, `ongoing()`, reset, unused codes
-/

namespace Amaranth

/-! ## the step -/

section
variable (ctx : Ctx) (cur : Env)

/-- distinct FSMs have distinct state registers: two FSMs of the list with the same register are the same FSM -/
theorem same_fsm_of_reg : ∀ (fs : List (FsmHdr × FsmEntries)), (fs.map (·.1.reg)).Nodup →
    ∀ f ∈ fs, ∀ g ∈ fs, f.1.reg = g.1.reg → f = g
  | [], _, f, hf, _, _, _ => by simp at hf
  | x :: fs, hn, f, hf, g, hg, e => by
    simp only [List.map_cons, List.nodup_cons, List.mem_map, not_exists, not_and] at hn
    simp only [List.mem_cons] at hf hg
    rcases hf with hf | hf <;> rcases hg with hg | hg
    · rw [hf, hg]
    · subst hf; exact absurd e.symm (hn.1 g hg)
    · subst hg; exact absurd e (hn.1 f hf)
    · exact same_fsm_of_reg fs hn.2 f hf g hg e

/-- **One step of a synchronous domain, on the Spec's writes.** -/
theorem step_agrees (hC : EnvN ctx cur) (d : String) (items : List FProg)
    (hregs : RegsOk ctx (FProg.listFsms items))
    (hdist : ((FProg.listFsms items).map (·.1.reg)).Nodup)
    (σ : Conf) (hσ : Agrees cur σ (FProg.listFsms items))
    (ht : ∀ w ∈ Ev.writes (FProg.listEvents ctx cur σ d none items),
      w.1.twf ctx = true ∧ ∀ f ∈ FProg.listFsms items, ∀ b, some (f.1.reg, b) ∉ lbits ctx cur w.1) :
    let evs := FProg.listEvents ctx cur σ d none items
    Agrees (applyWrites ctx cur (evs.map Ev.toWrite) cur) (σ.after evs) (FProg.listFsms items) ∧
    ∀ i b, i < ctx.length → b < (ctx.shape i).width → (∀ f ∈ FProg.listFsms items, f.1.reg ≠ i) →
      bitAt (applyWrites ctx cur (evs.map Ev.toWrite) cur) i b = bitAt (applyWrites ctx cur (Ev.writes evs) cur) i b := by
  intro evs
  have hg : ∀ h es s, Ev.goto h es s ∈ evs → (h, es) ∈ FProg.listFsms items ∧ s ∈ encOrder es :=
    fun h es s hm => top_events_goto ctx cur σ d items h es s hm
  have hgl : ∀ h es s, Ev.goto h es s ∈ evs → h.reg < ctx.length :=
    fun h es s hm => (hregs _ (hg h es s hm).1).1
  have htw : ∀ w ∈ Ev.writes evs, w.1.twf ctx = true := fun w hw => (ht w hw).1
  constructor
  · intro f hf
    obtain ⟨hr, hsh⟩ := hregs f hf
    have key := reg_after ctx cur hC evs f.1.reg (encOrder f.2) hr hsh htw hgl
      (fun w hw b => (ht w hw).2 f hf b)
      (fun h es s hm e => by
        obtain ⟨h1, h2⟩ := hg h es s hm
        have := same_fsm_of_reg _ hdist (h, es) h1 f hf e
        subst this
        exact ⟨rfl, h2⟩)
    rw [after_eq evs σ f.1.reg, key]
    cases hl : lastGoto evs f.1.reg with
    | none => exact hσ f hf
    | some s =>
      simp only
      obtain ⟨h, es, hm, he⟩ := lastGoto_mem evs f.1.reg s hl
      obtain ⟨h1, h2⟩ := hg h es s hm
      have := same_fsm_of_reg _ hdist (h, es) h1 f hf he
      subst this
      exact (decode_code h2).symm
  · intro i b hi hb hn
    exact nonreg_after ctx cur hC evs htw hgl i b hi hb (fun h es s hm => hn _ (hg h es s hm).1)

end

/-! ## `ongoing()` -/

section
variable (ctx : Ctx) (cur : Env)

theorem ongoing_value (σ : Conf) (h : FsmHdr) (order : List String)
    (hag : σ h.reg = decode order (cur.val h.reg)) (hn : order.Nodup) (s : String) (hs : s ∈ order) :
    denote ctx cur (.op2 .eq (.sig h.reg) (constOf (code order s))) = ongoingSpec σ h.reg s := by
  simp only [denote, constOf, ongoingSpec, hag]
  have := decode_eq_some_iff (v := cur.val h.reg) hn hs
  by_cases e : cur.val h.reg = (code order s : Int)
  · rw [if_pos e, if_pos (this.2 e)]
  · have h2 : ¬ decode order (cur.val h.reg) = some s := fun x => e (this.1 x)
    rw [if_neg e, if_neg h2]

/-- the drivers of the `ongoing()` signals assign, to each, exactly `1 iff the FSM is in that state` -/
theorem ongoing_writes (σ : Conf) (h : FsmHdr) (order : List String)
    (hag : σ h.reg = decode order (cur.val h.reg)) (hn : order.Nodup) : ∀ (names : List String),
    (∀ s ∈ names, s ∈ order) →
    Prog.listWrites ctx cur (fsmOngoing h order names) =
      names.map (fun s => (Expr.sig ((h.og.lookup s).getD 0), ongoingSpec σ h.reg s))
  | [], _ => rfl
  | s :: rest, hs => by
    simp only [fsmOngoing, Prog.listWrites, Prog.writes, List.map_cons, List.singleton_append]
    rw [ongoing_value ctx cur σ h order hag hn s (hs s (List.mem_cons_self ..)),
        ongoing_writes σ h order hag hn rest (fun x hx => hs x (List.mem_cons_of_mem _ hx))]

/-- no write of the list addresses signal `i` -/
theorem wbit_sig_none (g : String → Nat) (v : String → Int) (i b : Nat) : ∀ (names : List String),
    (∀ s ∈ names, g s ≠ i) → wbit ctx cur (names.map (fun s => (Expr.sig (g s), v s))) i b = none
  | [], _ => rfl
  | s :: rest, h => by
    simp only [List.map_cons, wbit,
      wbit_sig_none g v i b rest (fun x hx => h x (List.mem_cons_of_mem _ hx)),
      lastWrite_sig_other ctx cur (g s) i b (h s (List.mem_cons_self ..)), Option.map_none]

/-- one write per signal: the last write to bit 0 of `g s` is the one of `s` -/
theorem wbit_sig_own (g : String → Nat) (v : String → Int) : ∀ (names : List String),
    (∀ a ∈ names, ∀ c ∈ names, g a = g c → a = c) → ∀ s ∈ names, 0 < (ctx.shape (g s)).width →
    wbit ctx cur (names.map (fun s => (Expr.sig (g s), v s))) (g s) 0 = some (ibit (v s) 0)
  | [], _, s, hs, _ => by simp at hs
  | n :: rest, hinj, s, hs, hw => by
    simp only [List.map_cons, wbit]
    by_cases hr : s ∈ rest
    · rw [wbit_sig_own g v rest (fun a ha c hc => hinj a (List.mem_cons_of_mem _ ha) c (List.mem_cons_of_mem _ hc)) s hr hw]
    · have hsn : s = n := by
        simp only [List.mem_cons] at hs
        rcases hs with hs | hs
        · exact hs
        · exact absurd hs hr
      subst hsn
      rw [wbit_sig_none ctx cur g v (g s) 0 rest (fun x hx e => hr (by
        have := hinj x (List.mem_cons_of_mem _ hx) s (List.mem_cons_self ..) e
        rw [← this]; exact hx))]
      simp only [lastWrite_sig_self ctx cur (g s) 0 hw, Option.map_some]

/-- **`ongoing(S)` reflects the current state**: after the FSM's `ongoing` drivers ran (on any pending state `X`),
the signal `fsm.ongoing(S)` holds 1 if the FSM is in state `S` and 0 otherwise. -/
theorem ongoing_signal (σ : Conf) (h : FsmHdr) (order : List String)
    (hag : σ h.reg = decode order (cur.val h.reg)) (hn : order.Nodup)
    (hog : ∀ s ∈ order, (h.og.lookup s).getD 0 < ctx.length ∧ ctx.shape ((h.og.lookup s).getD 0) = ⟨1, false⟩)
    (hinj : ∀ a ∈ order, ∀ c ∈ order, (h.og.lookup a).getD 0 = (h.og.lookup c).getD 0 → a = c)
    (X : Env) (hX : EnvN ctx X) (s : String) (hs : s ∈ order) :
    (applyWrites ctx cur (Prog.listWrites ctx cur (fsmOngoing h order order)) X).val ((h.og.lookup s).getD 0) =
      ongoingSpec σ h.reg s := by
  rw [ongoing_writes ctx cur σ h order hag hn order (fun _ hx => hx)]
  have htw : ∀ w ∈ order.map (fun s => (Expr.sig ((h.og.lookup s).getD 0), ongoingSpec σ h.reg s)), w.1.twf ctx = true := by
    intro w hw
    simp only [List.mem_map] at hw
    obtain ⟨x, hx, e⟩ := hw
    subst e
    simp only [Expr.twf, decide_eq_true_eq]
    exact (hog x hx).1
  obtain ⟨hN, hbits⟩ := applyWrites_bits ctx cur _ X hX htw
  obtain ⟨hlt, hshape⟩ := hog s hs
  have hc : (ctx.shape ((h.og.lookup s).getD 0)).contains (ongoingSpec σ h.reg s) := by
    rw [hshape, Shape.contains_u]; unfold ongoingSpec
    split <;> decide
  apply eq_of_ibits _ (hN.ok _ hlt).1 (hN.ok _ hlt).2 hc
  intro b hb
  rw [hshape] at hb
  have hb0 : b = 0 := by simp only at hb; omega
  subst hb0
  have := hbits _ 0 hlt (by rw [hshape]; decide)
  unfold bitAt at this
  rw [this, wbit_sig_own ctx cur (fun s => (h.og.lookup s).getD 0) (fun s => ongoingSpec σ h.reg s) order hinj s hs
    (by rw [hshape]; decide)]
  rfl

end

/-! ## reset -/

theorem stmtTargets_sigs : ∀ (s : Stmt) (e : Expr), e ∈ stmtTargets s → ∀ i ∈ lhsSigs e, i ∈ stmtSigs s := by
  intro s
  induction s with
  | skip => intro e h; simp [stmtTargets] at h
  | seq a b iha ihb =>
    intro e h i hi
    simp only [stmtTargets, List.mem_append] at h
    simp only [stmtSigs, List.mem_append]
    exact h.imp (fun x => iha e x i hi) (fun x => ihb e x i hi)
  | assign l r =>
    intro e h i hi
    simp only [stmtTargets, List.mem_singleton] at h
    subst h; exact hi
  | ite t p thn els ih1 ih2 =>
    intro e h i hi
    simp only [stmtTargets, List.mem_append] at h
    simp only [stmtSigs, List.mem_append]
    exact h.imp (fun x => ih1 e x i hi) (fun x => ih2 e x i hi)

/-- **The reset edge loads the initial value into every register the domain's statements drive as a whole signal.** -/
theorem reset_loads_init (ctx : Ctx) (cur : Env) (hC : EnvN ctx cur) (inits : Env) (hI : EnvN ctx inits)
    (rl : List Bool) (r : Int) (hr : (pyAnd 1 r != 0) = true) (body : Stmt)
    (htw : ∀ e ∈ stmtTargets body, e.twf ctx = true)
    (reg : Nat) (hreg : reg < ctx.length) (hdrv : Expr.sig reg ∈ stmtTargets body) (hrl : rl.getD reg false = false) :
    (syncProcess ctx inits rl (some r) body cur).val reg = inits.val reg := by
  have hz : MaskOk ctx (List.replicate ctx.length 0) := by
    intro j; rw [replicate_get, Shape.contains_u]; exact ⟨Int.le_refl _, two_pow_pos' _⟩
  have htabok := stmtMask_ok ctx body _ hz
  have hsig : (stmtSigs body).contains reg = true :=
    List.contains_iff_mem.mpr (stmtTargets_sigs body _ hdrv reg (by simp [lhsSigs]))
  have hval : (syncProcess ctx inits rl (some r) body cur).val reg =
      commitMask (ctx.shape reg) (cur.val reg) (inits.val reg)
        ((stmtMask ctx body (List.replicate ctx.length 0)).get reg) := by
    unfold syncProcess
    simp only [hr, if_true]
    rw [val_map_range _ _ _ hreg, val_map_range _ _ _ hreg, hsig, hrl]
    rfl
  rw [hval]
  obtain ⟨hc, hb⟩ := commitMask_bits (ctx.shape reg) (hC.ok reg hreg).1 (cur.val reg) (inits.val reg) _
    (hC.ok reg hreg).2 (hI.ok reg hreg).2 (htabok reg)
  apply eq_of_ibits (ctx.shape reg) (hC.ok reg hreg).1 hc (hI.ok reg hreg).2
  intro b hbw
  rw [hb b hbw]
  have hm := stmtMask_covers ctx cur reg b body (List.replicate ctx.length 0) (.sig reg) b hdrv htw (by simp)
    (sig_lbits_getD ctx cur reg b hbw)
  rw [hm]; rfl

/-- the initial code decodes to the Spec's initial state -/
theorem init_decodes (h : FsmHdr) (entries : FsmEntries)
    (hinit : ∀ s, h.init = some s → s ∈ definedStates entries)
    (hall : ∀ s ∈ encOrder entries, s ∈ definedStates entries) :
    decode (encOrder entries) (fsmInitCode h entries : Int) = specInit h entries := by
  unfold fsmInitCode specInit
  cases hi : h.init with
  | some s =>
    simp only
    exact decode_code (defined_mem_encOrder entries s (hinit s hi))
  | none =>
    simp only
    cases hd : definedStates entries with
    | nil =>
      have : encOrder entries = [] := by
        cases ho : encOrder entries with
        | nil => rfl
        | cons x xs =>
          have := hall x (by rw [ho]; exact List.mem_cons_self ..)
          rw [hd] at this; simp at this
      rw [this]; simp [decode]
    | cons n rest =>
      simp only [List.headD_cons, List.head?_cons]
      exact decode_code (defined_mem_encOrder entries n (by rw [hd]; exact List.mem_cons_self ..))

/-! ## a register value that is no state's code -/

section
variable (ctx : Ctx) (cur : Env)

theorem lowerStates_no_match (d : String) (h : FsmHdr) (entries : FsmEntries)
    (hv : decode (encOrder entries) (cur.val h.reg) = none) : ∀ (es : FsmEntries),
    (∀ n ∈ definedStates es, n ∈ encOrder entries) →
    Prog.caseWrites ctx cur (shapeOf ctx (.sig h.reg)) (cur.val h.reg)
      (FProg.lowerStates d (h, entries) (encOrder entries) es) = []
  | [], _ => rfl
  | (n, none) :: rest, hd => by
    simp only [FProg.lowerStates]
    exact lowerStates_no_match d h entries hv rest (fun m hm => hd m (by simpa [definedStates] using hm))
  | (n, some body) :: rest, hd => by
    have hn : n ∈ encOrder entries := hd n (by simp [definedStates])
    have hne : ¬ cur.val h.reg = (code (encOrder entries) n : Int) := by
      intro e
      have := decode_code hn
      rw [← e, hv] at this
      cases this
    simp only [FProg.lowerStates, Prog.caseWrites, List.any_cons, List.any_nil, Bool.or_false, UPat.matchesV, hne,
      decide_false, Bool.and_false, Bool.false_eq_true, if_false]
    exact lowerStates_no_match d h entries hv rest
      (fun m hm => hd m (by simp only [definedStates, List.mem_cons]; exact Or.inr hm))

/-- an FSM whose register holds no state's code executes nothing -/
theorem fsm_no_state_no_writes (d : String) (cx : Option (FsmHdr × FsmEntries)) (h : FsmHdr) (entries : FsmEntries)
    (hv : decode (encOrder entries) (cur.val h.reg) = none) :
    Prog.listWrites ctx cur (FProg.lowerD d cx (.fsm h entries)) = [] := by
  simp only [FProg.lowerD]
  split
  · rfl
  · rw [listWrites_single]
    simp only [Prog.writes]
    exact lowerStates_no_match ctx cur d h entries hv entries (fun n hn => defined_mem_encOrder entries n hn)

theorem decode_none_of_unused (order : List String) (v : Int) (h : v < 0 ∨ (order.length : Int) ≤ v) :
    decode order v = none := by
  unfold decode
  split
  · rename_i h0
    rw [List.getElem?_eq_none_iff]
    omega
  · rfl

end

end Amaranth
