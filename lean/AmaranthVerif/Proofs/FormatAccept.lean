import AmaranthVerif.Proofs.FormatParse

/-!
# Python never rejects a specification that `Format` accepts
-/

namespace Amaranth
namespace Fmt

theorem valueToString_err (v : Int) (e : PyErr) (h : valueToString v = .error e) : e = .decode := by
  unfold valueToString at h
  simp only at h
  split at h
  · cases h
  · cases h; rfl

/-- for a specification accepted for a shape, Python's formatting never raises `ValueError`
(what remains: `OverflowError` of `c` beyond U+10FFFF, `UnicodeDecodeError` of `s`, and lone
surrogates, which this model does not represent) -/
theorem accepted_no_valueError (spec : List Char) (sh : Shape) (h : acceptsL spec sh = true) (v : Int) :
    pythonText v spec ≠ .error .valueError := by
  unfold acceptsL rejectL at h
  cases hp : parseSpecL spec with
  | none => simp [hp] at h
  | some sp =>
    simp only [hp, Option.isNone_iff_eq_none] at h
    obtain ⟨h1, h2, h3, h4⟩ := reject_none sp sh h
    unfold pythonText
    simp only [hp]
    cases hty : sp.ty with
    | none =>
      rw [if_neg (by decide)]
      simp only [pyFormatInt, hty]
      rw [if_neg (fun hc => h2 hc.1)]
      simp
    | some t =>
      cases t with
      | s =>
        obtain ⟨_, ha, halt, _, hsg, hgr, _⟩ := h4 (Or.inr hty)
        rw [if_pos rfl]
        cases hv : valueToString v with
        | error e =>
          have := valueToString_err v e hv
          subst this
          simp
        | ok s =>
          have hal : sp.align.getD Align.left ≠ Align.eq := by
            cases hal : sp.align with
            | none => simp
            | some a => cases a <;> simp_all
          simp only [pyFormatStr, hsg, halt, hgr, hty, Spec.alignStr]
          simp [hal]
      | c =>
        obtain ⟨_, _, halt, _, hsg, hgr, _⟩ := h4 (Or.inl hty)
        rw [if_neg (by decide)]
        simp only [pyFormatInt, hty, hsg, halt, hgr]
        rw [if_neg (by simp)]
        split
        · simp
        · split <;> simp
      | n => exact absurd hty h3
      | b | o | d | x | X =>
        rw [if_neg (by decide)]
        simp only [pyFormatInt, hty]
        rw [if_neg (fun hc => h2 hc.1)]
        simp

end Fmt
end Amaranth
