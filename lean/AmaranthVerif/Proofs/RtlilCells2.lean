import AmaranthVerif.Proofs.RtlilCells
import AmaranthVerif.Proofs.Arith
import AmaranthVerif.Model.Rtlil.Eval

/-! # Guards, part-select shifts, operand shortening, power-on values (helper lemmas for `Properties/C04`) -/

namespace Amaranth.Rtlil

/-! ## `//` and `%` guarded against a zero divisor -/

theorem toInt_eq_zero_iff (s : Bool) (w b : Nat) (hb : b < 2 ^ w) : toInt s w b = 0 ↔ b = 0 := by
  have hbI : (b : Int) < 2 ^ w := by exact_mod_cast hb
  unfold toInt
  split
  · constructor
    · intro h; omega
    · intro h; subst h
      rename_i hc
      simp only [Bool.and_eq_true, decide_eq_true_eq] at hc
      have := Nat.two_pow_pos (w - 1)
      omega
  · constructor
    · intro h; exact_mod_cast h
    · intro h; subst h; rfl

theorem ofInt_lt (w : Nat) (i : Int) : ofInt w i < 2 ^ w := by
  unfold ofInt
  have h1 : 0 ≤ i % 2 ^ w := Int.emod_nonneg _ (by positivity)
  have h2 : i % 2 ^ w < 2 ^ w := Int.emod_lt_of_pos _ (by positivity)
  have : ((i % 2 ^ w).toNat : Int) < ((2 ^ w : Nat) : Int) := by
    rw [Int.toNat_of_nonneg h1]; exact_mod_cast h2
  exact_mod_cast this

theorem reduceBool_one (bw b : Nat) (hb : b < 2 ^ bw) : cellReduceOr bw 1 b % 2 = if b = 0 then 0 else 1 := by
  unfold cellReduceOr b2n
  rw [Nat.mod_eq_of_lt hb]
  by_cases h : b = 0 <;> simp [h]

/-- `$mux(S = $reduce_bool B, A = 0, B = $divfloor A B)` is Python's `//` with 0 for a zero divisor -/
theorem divfloor_guard (sa sb : Bool) (aw bw yw a b undef : Nat) (hb : b < 2 ^ bw) :
    cellMux yw 0 (cellDivFloor sa sb aw bw yw a b undef) (cellReduceOr bw 1 b)
      = ofInt yw (if toInt sb bw b = 0 then 0 else Int.fdiv (toInt sa aw a) (toInt sb bw b)) := by
  unfold cellMux
  rw [reduceBool_one bw b hb]
  by_cases h : b = 0
  · have hz : toInt sb bw b = 0 := (toInt_eq_zero_iff sb bw b hb).mpr h
    subst h
    simp [hz, ofInt]
  · have hz : toInt sb bw b ≠ 0 := fun e => h ((toInt_eq_zero_iff sb bw b hb).mp e)
    simp only [h, if_false, hz, cellDivFloor]
    simp only [show (1 : Nat) % 2 = 1 from rfl, if_true]
    exact Nat.mod_eq_of_lt (ofInt_lt _ _)

theorem modfloor_guard (sa sb : Bool) (aw bw yw a b undef : Nat) (hb : b < 2 ^ bw) :
    cellMux yw 0 (cellModFloor sa sb aw bw yw a b undef) (cellReduceOr bw 1 b)
      = ofInt yw (if toInt sb bw b = 0 then 0 else Int.fmod (toInt sa aw a) (toInt sb bw b)) := by
  unfold cellMux
  rw [reduceBool_one bw b hb]
  by_cases h : b = 0
  · have hz : toInt sb bw b = 0 := (toInt_eq_zero_iff sb bw b hb).mpr h
    subst h
    simp [hz, ofInt]
  · have hz : toInt sb bw b ≠ 0 := fun e => h ((toInt_eq_zero_iff sb bw b hb).mp e)
    simp only [h, if_false, hz, cellModFloor]
    simp only [show (1 : Nat) % 2 = 1 from rfl, if_true]
    exact Nat.mod_eq_of_lt (ofInt_lt _ _)

/-! ## part-select as a shift -/

/-- what a part-select of the number `v` reads: `width` bits from bit `off` up, of the two's
complement representation (sign bits above the most significant bit of a negative number) -/
def partOf (v : Int) (off width : Nat) : Nat := ((v / 2 ^ off) % 2 ^ width).toNat

theorem extend_unsigned (aw w a : Nat) (ha : a < 2 ^ aw) (hw : aw ≤ w) : extend false aw w a = a := by
  unfold extend
  by_cases h : w ≤ aw
  · have : w = aw := by omega
    subst this
    simp [Nat.mod_eq_of_lt ha]
  · simp [h]

/-- `$shift` of an unsigned operand by an unsigned amount is the part-select -/
theorem shift_unsigned (aw yw a b : Nat) (ha : a < 2 ^ aw) :
    cellShift false aw yw a (b : Int) = partOf (a : Int) b yw := by
  unfold cellShift partOf
  have hnn : ¬ ((b : Int) < 0) := by omega
  simp only [hnn, if_false, Int.toNat_natCast, extend_unsigned aw (max aw yw) a ha (Nat.le_max_left _ _)]
  have : (((a / 2 ^ b % 2 ^ yw : Nat)) : Int) = (a : Int) / 2 ^ b % 2 ^ yw := by push_cast; rfl
  rw [← this, Int.toNat_natCast]

/-- `$shift` of a signed operand agrees with the part-select as long as the window stays within
the extended operand (`max A_WIDTH Y_WIDTH` bits) -/
theorem shift_signed_within (aw yw a b : Nat) (ha : a < 2 ^ aw) (hwin : b + yw ≤ max aw yw) :
    cellShift true aw yw a (b : Int) = partOf (toInt true aw a) b yw := by
  unfold cellShift partOf
  have hnn : ¬ ((b : Int) < 0) := by omega
  simp only [hnn, if_false, Int.toNat_natCast]
  have hc := extend_modEq true aw (max aw yw) a
  have hs := Amaranth.slice_congr (a := (extend true aw (max aw yw) a : Int)) (b := toInt true aw a)
    (w := max aw yw) (s := b) (n := yw) hc hwin
  rw [← hs]
  have : (((extend true aw (max aw yw) a / 2 ^ b % 2 ^ yw : Nat)) : Int)
      = (extend true aw (max aw yw) a : Int) / 2 ^ b % 2 ^ yw := by push_cast; rfl
  rw [← this, Int.toNat_natCast]

/-- `$sshr` of a signed operand is the part-select for every offset -/
theorem sshr_signed (aw yw a b : Nat) : cellSshr true aw yw a b = partOf (toInt true aw a) b yw := by
  unfold cellSshr partOf ofInt
  simp only [if_true]

/-! ## operand shortening -/

/-- a net: one of the two constants or a variable -/
inductive SNet
  | c0 | c1
  | var (i : Nat)
deriving DecidableEq, Repr

def SNet.bit (ν : Nat → Bool) : SNet → Nat
  | .c0 => 0
  | .c1 => 1
  | .var i => b2n (ν i)

/-- value of a list of nets, most significant first -/
def valR (ν : Nat → Bool) : List SNet → Nat
  | [] => 0
  | a :: rest => a.bit ν * 2 ^ rest.length + valR ν rest

/-- `shorten_operand(signed=True)` on the reversed (most significant first) list:
`while len(value) > 1 and value[-1] == value[-2]: value.pop()` -/
def shortenSignedR : List SNet → List SNet
  | a :: b :: rest => if a = b then shortenSignedR (b :: rest) else a :: b :: rest
  | l => l

/-- `shorten_operand(signed=False)`: `while len(value) > 0 and value[-1] == Net.from_const(0): value.pop()` -/
def shortenUnsignedR : List SNet → List SNet
  | a :: rest => if a = .c0 then shortenUnsignedR rest else a :: rest
  | [] => []

def shortenR (signed : Bool) (l : List SNet) : List SNet := if signed then shortenSignedR l else shortenUnsignedR l

theorem SNet.bit_le (ν : Nat → Bool) (a : SNet) : a.bit ν ≤ 1 := by
  cases a <;> simp [SNet.bit, b2n]
  split <;> omega

theorem valR_lt (ν : Nat → Bool) : ∀ l : List SNet, valR ν l < 2 ^ l.length
  | [] => by simp [valR]
  | a :: rest => by
    have h1 := SNet.bit_le ν a
    have h2 := valR_lt ν rest
    simp only [valR, List.length_cons, Nat.pow_succ]
    have : a.bit ν * 2 ^ rest.length ≤ 2 ^ rest.length := by
      calc a.bit ν * 2 ^ rest.length ≤ 1 * 2 ^ rest.length := Nat.mul_le_mul_right _ h1
        _ = 2 ^ rest.length := by simp
    omega

theorem shortenUnsigned_val (ν : Nat → Bool) : ∀ l : List SNet, valR ν (shortenUnsignedR l) = valR ν l
  | [] => rfl
  | a :: rest => by
    unfold shortenUnsignedR
    by_cases h : a = .c0
    · subst h
      simp only [if_true, valR, SNet.bit, Nat.zero_mul, Nat.zero_add]
      exact shortenUnsigned_val ν rest
    · simp [h]

/-- dropping one copy of a duplicated sign bit keeps the signed value -/
theorem toInt_dup_sign (ν : Nat → Bool) (a : SNet) (rest : List SNet) :
    toInt true (rest.length + 2) (valR ν (a :: a :: rest)) = toInt true (rest.length + 1) (valR ν (a :: rest)) := by
  have hb := SNet.bit_le ν a
  have hv := valR_lt ν rest
  have hvI : (valR ν rest : Int) < 2 ^ rest.length := by exact_mod_cast hv
  have hp : (2 : Int) ^ (rest.length + 1) = 2 * 2 ^ rest.length := by rw [pow_succ]; ring
  have hp2 : (2 : Int) ^ (rest.length + 2) = 4 * 2 ^ rest.length := by rw [pow_succ, pow_succ]; ring
  have hpn : 2 ^ (rest.length + 1) = 2 * 2 ^ rest.length := by rw [Nat.pow_succ]; ring
  unfold toInt
  simp only [valR, List.length_cons, Bool.true_and, Nat.add_sub_cancel, show rest.length + 2 - 1 = rest.length + 1 by omega]
  have hcases : a.bit ν = 0 ∨ a.bit ν = 1 := by omega
  rcases hcases with h0 | h1
  · simp only [h0, Nat.zero_mul, Nat.zero_add]
    have n1 : ¬ (2 ^ (rest.length + 1) ≤ valR ν rest) := by omega
    have n2 : ¬ (2 ^ rest.length ≤ valR ν rest) := by omega
    simp [n1, n2]
  · simp only [h1, Nat.one_mul]
    have y1 : 2 ^ (rest.length + 1) ≤ 2 ^ (rest.length + 1) + (2 ^ rest.length + valR ν rest) := by omega
    have y2 : 2 ^ rest.length ≤ 2 ^ rest.length + valR ν rest := by omega
    simp only [y1, y2, decide_true, Bool.true_and, Nat.succ_pos, Nat.zero_lt_succ, if_true]
    push_cast
    rw [hp, hp2]
    ring

theorem shortenSigned_val (ν : Nat → Bool) : ∀ l : List SNet,
    toInt true (shortenSignedR l).length (valR ν (shortenSignedR l)) = toInt true l.length (valR ν l)
  | [] => rfl
  | [_] => rfl
  | a :: b :: rest => by
    unfold shortenSignedR
    by_cases h : a = b
    · subst h
      simp only [if_true]
      rw [shortenSigned_val ν (a :: rest)]
      exact (toInt_dup_sign ν a rest).symm
    · simp [h]

/-- **shortening preserves the number the operand denotes under the chosen signedness** -/
theorem shorten_val (signed : Bool) (ν : Nat → Bool) (l : List SNet) :
    toInt signed (shortenR signed l).length (valR ν (shortenR signed l)) = toInt signed l.length (valR ν l) := by
  cases signed
  · simp only [shortenR, Bool.false_eq_true, if_false]
    unfold toInt
    simp [shortenUnsigned_val]
  · simp only [shortenR, if_true]
    exact shortenSigned_val ν l

/-! ## power-on values: the value of a constant, most significant bit first -/

def bitNat (xres : Bool) : Bit → Nat
  | .b1 => 1
  | .b0 => 0
  | _ => b2n xres

theorem bitsVal_snoc (xres : Bool) (bs : List Bit) (b : Bit) :
    bitsVal xres (bs ++ [b]) = 2 * bitsVal xres bs + bitNat xres b := by
  unfold bitsVal
  rw [List.foldl_append]
  cases b <;> rfl

/-- bit `i` (from the least significant end) of a constant is its `i`-th character from the right -/
theorem bitsVal_bit (xres : Bool) : ∀ (n : Nat) (bs : List Bit), bs.length = n → ∀ (i : Nat) (h : i < bs.length),
    (bitsVal xres bs / 2 ^ i) % 2 = bitNat xres (bs.reverse[i]'(by simpa using h)) := by
  intro n
  induction n with
  | zero =>
    intro bs hl i h
    rw [hl] at h
    omega
  | succ m ih =>
    intro bs hl i h
    have hne : bs ≠ [] := by intro e; rw [e] at hl; simp at hl
    have hsplit := List.dropLast_concat_getLast hne
    generalize hd : bs.dropLast = ds at hsplit
    generalize hg : bs.getLast hne = b at hsplit
    subst hsplit
    have hdl : ds.length = m := by simpa using hl
    rw [bitsVal_snoc]
    have hb : bitNat xres b ≤ 1 := by cases b <;> simp [bitNat, b2n] <;> split <;> omega
    cases i with
    | zero =>
      simp only [Nat.pow_zero, Nat.div_one, List.reverse_append, List.reverse_singleton, List.singleton_append,
        List.getElem_cons_zero]
      omega
    | succ j =>
      have hj : j < ds.length := by simpa using h
      have := ih ds hdl j hj
      simp only [List.reverse_append, List.reverse_singleton, List.singleton_append, List.getElem_cons_succ]
      rw [← this]
      have e : (2 * bitsVal xres ds + bitNat xres b) / 2 ^ (j + 1) = bitsVal xres ds / 2 ^ j := by
        rw [Nat.pow_succ, Nat.mul_comm (2 ^ j) 2, ← Nat.div_div_eq_div_mul]
        congr 1
        omega
      rw [e]

end Amaranth.Rtlil
